import CCVerif.Lemmas.EvalPositionsNorm
import CCVerif.Lemmas.EvalFuelCollect
/-!
C04, evaluator error positions, part 2: every `OnError(ValueEID, pos)` of `NameCollector` / `ASTInterpreter` uses one of the
six documented `ValueEID`s and the start of a node of the tree being evaluated (the node itself; for the `booleanLimit` of a
lazy `ℬ` under `∉`, the `ℬ` child).  `unknownError` is never logged by a visitor: it is the fallback of
`ASTInterpreter::Evaluate` for a visit that returned `false` without an error.

`GoodR Q r`: if `r` is a failure WITH an error `(eid, pos)` then `Q eid pos`.  The induction runs over `evCore` /
`collectCore` (the bodies of `ev` / `collect` with the recursive calls abstracted, `Lemmas/EvalFuel*.lean`) and the loops.
-/
namespace CCVerif.EvalPos
open CCVerif.Syntax CCVerif.Norm CCVerif.Eval

/-- the documented `ValueEID`s (everything but `unknownError`) -/
def Doc (e : Nat) : Prop :=
  e = EID.typedOverflow ∨ e = EID.booleanLimit ∨ e = EID.globalMissingValue ∨
  e = EID.iterationsLimit ∨ e = EID.invalidDebool ∨ e = EID.iterateInfinity

instance (e : Nat) : Decidable (Doc e) := by unfold Doc; infer_instance

theorem doc_ne_unknown {e : Nat} (h : Doc e) : e ≠ EID.unknownError := by
  intro he; subst he; revert h; decide

def GoodR (Q : Nat → Int → Prop) {α : Type} : R α → Prop
  | .fail (.err e p) _ => Q e p
  | _ => True

def GoodC (Q : Nat → Int → Prop) : CRes → Prop
  | .fail (.err e p) => Q e p
  | _ => True

variable {Q : Nat → Int → Prop}

theorem good_fail_of {α β : Type} {r : R α} {f : Fail} {k : Nat} (h : r = .fail f k) (hr : GoodR Q r) :
    GoodR Q (.fail f k : R β) := by
  subst h; cases f <;> exact hr

theorem good_asVal {r : R V} (h : GoodR Q r) : GoodR Q r.asVal := by
  cases r with
  | fail f k => cases f <;> exact h
  | ok v st => cases v <;> exact trivial
theorem good_asSet {r : R V} (h : GoodR Q r) : GoodR Q r.asSet := by
  cases r with
  | fail f k => cases f <;> exact h
  | ok v st =>
    cases v with
    | bool b => exact trivial
    | val v => cases v <;> exact trivial
theorem good_asInt {r : R V} (h : GoodR Q r) : GoodR Q r.asInt := by
  cases r with
  | fail f k => cases f <;> exact h
  | ok v st =>
    cases v with
    | bool b => exact trivial
    | val v => cases v <;> exact trivial
theorem good_asBool {r : R V} (h : GoodR Q r) : GoodR Q r.asBool := by
  cases r with
  | fail f k => cases f <;> exact h
  | ok v st => cases v <;> exact trivial

theorem good_restoreSlot (var : Nat) (saved : Val) {r : R V} (h : GoodR Q r) : GoodR Q (restoreSlot var saved r) := by
  cases r with
  | fail f k => cases f <;> exact h
  | ok v st => exact trivial
theorem good_restoreSlots (saved : List (Nat × Val)) {r : R V} (h : GoodR Q r) : GoodR Q (restoreSlots saved r) := by
  cases r with
  | fail f k => cases f <;> exact h
  | ok v st => exact trivial

theorem good_foldl {β γ : Type} (f : R β → γ → R β) (hf : ∀ acc x, GoodR Q acc → GoodR Q (f acc x)) :
    ∀ (l : List γ) (acc : R β), GoodR Q acc → GoodR Q (l.foldl f acc)
  | [], _, h => h
  | x :: l, acc, h => good_foldl f hf l _ (hf acc x h)

/-! ## the loops -/

theorem good_quantLoop (body : St → R V) (var : Nat) (univ : Bool) (pos : Int)
    (hb : ∀ st, GoodR Q (body st)) (hp : ∀ e, Doc e → Q e pos) :
    ∀ (xs : List Val) (st : St), GoodR Q (quantLoop body var univ pos xs st)
  | [], st => trivial
  | x :: xs, st => by
    simp only [quantLoop]
    split
    · exact hp _ (by decide)
    · split
      · rename_i heq; exact good_fail_of heq (hb _)
      · exact trivial
      · split
        · exact trivial
        · exact good_quantLoop body var univ pos hb hp xs _

theorem good_declLoop (body : St → R V) (var : Nat) (pos : Int)
    (hb : ∀ st, GoodR Q (body st)) (hp : ∀ e, Doc e → Q e pos) :
    ∀ (xs acc : List Val) (st : St), GoodR Q (declLoop body var pos xs acc st)
  | [], acc, st => trivial
  | x :: xs, acc, st => by
    simp only [declLoop]
    split
    · exact hp _ (by decide)
    · split
      · rename_i heq; exact good_fail_of heq (hb _)
      · exact trivial
      · exact good_declLoop body var pos hb hp xs _ _

theorem good_recLoop (cond : Option (St → R V)) (body : St → R V) (var : Nat) (pos : Int)
    (hc : ∀ c, cond = some c → ∀ st, GoodR Q (c st)) (hb : ∀ st, GoodR Q (body st)) (hp : ∀ e, Doc e → Q e pos) :
    ∀ (fuel : Nat) (cur : Val) (st : St), GoodR Q (recLoop cond body var pos fuel cur st)
  | 0, _, _ => trivial
  | fuel + 1, cur, st => by
    simp only [recLoop]
    split
    · exact hp _ (by decide)
    · have hac : ∀ st1, GoodR Q (match cond with
          | none => (R.ok true st1 : R Bool)
          | some c =>
            match c st1 with
            | .fail f k => .fail f k
            | .ok (.val _) st2 => .fail (.stuck "ViRecursion get<bool>") st2.iters
            | .ok (.bool b) st2 => .ok b st2) := by
        intro st1
        split
        · exact trivial
        · rename_i c
          split
          · rename_i heq; exact good_fail_of heq (hc c rfl _)
          · exact trivial
          · exact trivial
      split
      · rename_i heq; exact good_fail_of heq (hac _)
      · exact trivial
      · split
        · rename_i heq; exact good_fail_of heq (hb _)
        · exact trivial
        · split
          · exact trivial
          · split
            · exact good_recLoop cond body var pos hc hb hp fuel _ _
            · exact trivial

theorem good_impLoop (nKids : Nat) (metas : List BlockMeta) (evalKid domKid : Nat → St → R V) (pos : Int)
    (he : ∀ i st, GoodR Q (evalKid i st))
    (hd : ∀ cur m st, metas[cur]? = some m → (m.rootID = .ITERATE ∨ m.rootID = .ASSIGN) → GoodR Q (domKid (cur + 1) st))
    (hp : ∀ e, Doc e → Q e pos) :
    ∀ (fuel current : Nat) (stack : List (Nat × List Val)) (acc : List Val) (st : St),
      GoodR Q (impLoop nKids metas evalKid domKid pos fuel current stack acc st)
  | 0, _, _, _, _ => trivial
  | fuel + 1, current, stack, acc, st => by
    have hstep : GoodR Q (
        if current + 1 ≥ nKids then
          match evalKid 0 st with
          | .fail f k => (.fail f k : R (Bool × List (Nat × List Val) × List Val))
          | .ok (.bool _) st' => .fail (.stuck "SaveElement get<StructuredData>") st'.iters
          | .ok (.val v) st' => .ok (true, stack, Val.insert v acc) st'
        else
          match metas[current]? with
          | none => .fail (.stuck "metaData.at(current)") st.iters
          | some m =>
            if m.rootID == .ITERATE then
              match domKid (current + 1) st with
              | .fail f k => .fail f k
              | .ok (.bool _) st' => .fail (.stuck "ExtractDomain get<StructuredData>") st'.iters
              | .ok (.val (.s [])) st' => .ok (true, stack, acc) st'
              | .ok (.val (.s (x :: xs))) st' =>
                .ok (false, (current, xs) :: stack, acc) { st' with data := st'.data.set m.arg x }
              | .ok (.val _) st' => .fail (.stuck "ITERATE domain->B()") st'.iters
            else if m.rootID == .ASSIGN then
              match domKid (current + 1) st with
              | .fail f k => .fail f k
              | .ok (.bool _) st' => .fail (.stuck "ExtractDomain get<StructuredData>") st'.iters
              | .ok (.val v) st' => .ok (false, stack, acc) { st' with data := st'.data.set m.arg v }
            else
              match evalKid (current + 1) st with
              | .fail f k => .fail f k
              | .ok (.val _) st' => .fail .quiet st'.iters
              | .ok (.bool b) st' => .ok (!b, stack, acc) st') := by
      split
      · split
        · rename_i heq; exact good_fail_of heq (he _ _)
        · exact trivial
        · exact trivial
      · split
        · exact trivial
        · rename_i m hm
          split
          · rename_i hit
            split
            · rename_i heq; exact good_fail_of heq (hd _ _ _ hm (Or.inl (tok_beq_eq _ _ hit)))
            all_goals exact trivial
          · split
            · rename_i has
              split
              · rename_i heq; exact good_fail_of heq (hd _ _ _ hm (Or.inr (tok_beq_eq _ _ has)))
              all_goals exact trivial
            · split
              · rename_i heq; exact good_fail_of heq (he _ _)
              all_goals exact trivial
    simp only [impLoop]
    split
    · rename_i heq; exact good_fail_of heq (hstep)
    · split
      · exact trivial
      · split
        · exact hp _ (by decide)
        · exact good_impLoop nKids metas evalKid domKid pos he hd hp fuel _ _ _ _

/-! ## `DispatchVisit(ASTInterpreter)` -/

theorem allSome_getElem? {α : Type} : ∀ (l : List (Option α)) (r : List α) (i : Nat) (x : α),
    allSome l = some r → r[i]? = some x → l[i]? = some (some x)
  | [], r, i, x, h, hx => by
    simp only [allSome, Option.some.injEq] at h; subst h; simp at hx
  | none :: l, r, i, x, h, hx => by simp [allSome] at h
  | some y :: l, r, i, x, h, hx => by
    simp only [allSome] at h
    cases hr : allSome l with
    | none => rw [hr] at h; cases h
    | some r' =>
      rw [hr] at h
      simp only [Option.map_some, Option.some.injEq] at h
      subst h
      cases i with
      | zero => simpa using hx
      | succ i =>
        simp only [List.getElem?_cons_succ] at hx ⊢
        exact allSome_getElem? l r' i x hr hx

theorem lazyPow_some {a b : Ast}
    (h : (match a.kids[1]? with
      | some k => if k.id == .BOOLEAN then k.kids.head? else none
      | none => none) = some b) : ∃ k, a.kids[1]? = some k ∧ k.id = .BOOLEAN ∧ k.kids.head? = some b := by
  split at h
  · rename_i k hk
    split at h
    · rename_i hb; exact ⟨k, hk, tok_beq_eq _ _ hb, h⟩
    · cases h
  · cases h

theorem metas_block (c : Ctx) (a : Ast) (metas : List BlockMeta)
    (h : allSome (List.map (fun b =>
        if (b.id == .ITERATE || b.id == .ASSIGN) = true then
          Option.map (fun v => ({ rootID := b.id, arg := v } : BlockMeta)) (b.kids.head?.bind (firstVar c))
        else some { rootID := b.id, arg := 0 }) (List.drop 1 a.kids)) = some metas)
    (cur : Nat) (m : BlockMeta) (hm : metas[cur]? = some m) : ∃ b, a.kids[cur + 1]? = some b ∧ m.rootID = b.id := by
  have h1 := allSome_getElem? _ _ cur m h hm
  rw [List.getElem?_map] at h1
  cases hb : (List.drop 1 a.kids)[cur]? with
  | none => rw [hb] at h1; cases h1
  | some b =>
    rw [hb] at h1
    simp only [Option.map_some, Option.some.injEq] at h1
    refine ⟨b, by rw [List.getElem?_drop] at hb; rw [Nat.add_comm]; exact hb, ?_⟩
    split at h1
    · cases hv : b.kids.head?.bind (firstVar c) with
      | none => rw [hv] at h1; cases h1
      | some v => rw [hv] at h1; simp only [Option.map_some, Option.some.injEq] at h1; rw [← h1]
    · simp only [Option.some.injEq] at h1; rw [← h1]

set_option hygiene false in
/-- one step of the case analysis of `evCore` -/
macro "good_step" : tactic => `(tactic| first
  | exact trivial
  | assumption
  | exact hpos _ (by decide)
  | exact hc _ _
  | exact good_asVal (hc _ _)
  | exact good_asSet (hc _ _)
  | exact good_asInt (hc _ _)
  | exact good_asBool (hc _ _)
  | (apply good_restoreSlot)
  | exact good_quantLoop _ _ _ _ (fun st => hc _ st) hpos _ _
  | exact good_declLoop _ _ _ (fun st => hc _ st) hpos _ _ _
  | exact good_recLoop _ _ _ _ (fun c hc' st => by cases hc'; exact hc _ st) (fun st => hc _ st) hpos _ _ _
  | exact good_recLoop _ _ _ _ (fun c hc' st => by cases hc') (fun st => hc _ st) hpos _ _ _
  | (refine good_foldl _ (fun acc i hacc => ?_) _ _ ?_)
  | (rename_i heq; refine good_fail_of heq ?_)
  | split)

set_option maxHeartbeats 1000000 in
theorem good_evCore (c : Ctx) (child domKid : Nat → St → R V) (lz : Ast → St → R V) (a : Ast) (parent : Option Tok) (st : St)
    (hc : ∀ i st, GoodR Q (child i st))
    (hd : ∀ i st blk, a.kids[i]? = some blk → (blk.id = .ITERATE ∨ blk.id = .ASSIGN) → GoodR Q (domKid i st))
    (hl : ∀ k b st, a.kids[1]? = some k → k.id = .BOOLEAN → k.kids.head? = some b → GoodR Q (lz b st))
    (hpos : ∀ e, Doc e → Q e a.lo)
    (hk1 : ∀ k, a.kids[1]? = some k → ∀ e, Doc e → Q e k.lo) :
    GoodR Q (evCore c child domKid lz a parent st) := by
  simp only [evCore]
  split
  · exact hc _ _
  · split
    all_goals (repeat' good_step)
    all_goals first
      | (refine good_restoreSlots _ (good_impLoop _ _ _ _ _ hc (fun cur m st hm hr => ?_) hpos _ _ _ _ _)
         obtain ⟨b, hb, hid⟩ := metas_block c a _ (by assumption) cur m hm
         exact hd _ _ b hb (by rw [← hid]; exact hr))
      | (obtain ⟨k, hk, hb, hh⟩ := lazyPow_some (by assumption)
         exact hl _ _ _ hk hb hh)
      | (obtain ⟨k, hk, hb, hh⟩ := lazyPow_some (by assumption)
         rw [hk]
         exact hk1 k hk _ (by decide))

/-- the demand on the trees: every reachable node starts at a position every documented error may be logged at -/
abbrev PosOk (Q : Nat → Int → Prop) : Int → Int → Prop := fun lo _ => ∀ e, Doc e → Q e lo

theorem good_ev (c : Ctx) : ∀ (fuel : Nat) (a : Ast) (parent : Option Tok) (st : St), RangedL (PosOk Q) a →
    GoodR Q (ev c fuel a parent st)
  | 0, _, _, _, _ => trivial
  | fuel + 1, a, parent, st, h => by
    rw [ev_succ]
    by_cases hl : a.id = .ID_LOCAL
    · simp only [evCore, hl, show dispatchesDefault Tok.ID_LOCAL = false from rfl, Bool.false_eq_true, if_false]
      repeat' (first | exact trivial | split)
    · have hk := h.kids hl
      apply good_evCore
      · intro i st
        unfold childF
        split
        · exact trivial
        · rename_i k hk'
          exact good_ev c fuel k _ st (hk k (List.mem_of_getElem? hk'))
      · intro i st blk hb hid
        unfold domF
        rw [hb]
        dsimp only
        split
        · exact trivial
        · rename_i d hd
          have hbne : blk.id ≠ .ID_LOCAL := by rcases hid with e | e <;> (rw [e]; decide)
          exact good_ev c fuel d _ st ((hk blk (List.mem_of_getElem? hb)).kids hbne d (List.mem_of_getElem? hd))
      · intro k b st hk1 hkid hb
        have hkne : k.id ≠ .ID_LOCAL := by rw [hkid]; decide
        exact good_ev c fuel b _ st ((hk k (List.mem_of_getElem? hk1)).kids hkne b (List.mem_of_mem_head? hb))
      · exact h.p
      · intro k hk1
        exact (hk k (List.mem_of_getElem? hk1)).p

/-! ## `NameCollector` -/

theorem goodC_foldl {γ : Type} (f : CRes → γ → CRes) : ∀ (l : List γ) (acc : CRes),
    (∀ acc x, x ∈ l → GoodC Q acc → GoodC Q (f acc x)) → GoodC Q acc → GoodC Q (l.foldl f acc)
  | [], _, _, h => h
  | x :: l, acc, hf, h =>
    goodC_foldl f l _ (fun acc y hy => hf acc y (List.mem_cons_of_mem _ hy)) (hf acc x (List.mem_cons_self ..) h)

theorem goodC_mergeK (rec : Ast → NC → CRes) (ks : List Ast) (hr : ∀ k, k ∈ ks → ∀ nc, GoodC Q (rec k nc)) (nc : NC) :
    GoodC Q (mergeK rec ks nc) := by
  unfold mergeK
  refine goodC_foldl _ ks _ (fun acc k hk hacc => ?_) trivial
  split
  · exact hacc
  · split
    · rename_i heq; rw [← heq]; exact hr k hk _
    · exact trivial

theorem goodC_blocksK (rec : Ast → NC → CRes) (blocks : List Ast)
    (hr : ∀ b, b ∈ blocks → (b.id = .ITERATE ∨ b.id = .ASSIGN) → ∀ d, d ∈ b.kids → ∀ nc, GoodC Q (rec d nc))
    (init : CRes) (hi : GoodC Q init) : GoodC Q (blocksK rec blocks init) := by
  unfold blocksK
  refine goodC_foldl _ blocks _ (fun acc b hb hacc => ?_) hi
  split
  · exact hacc
  · split
    · rename_i hid
      have hid' : b.id = .ITERATE ∨ b.id = .ASSIGN := by
        rcases Bool.or_eq_true_iff.1 hid with e | e
        · exact Or.inl (tok_beq_eq _ _ e)
        · exact Or.inr (tok_beq_eq _ _ e)
      split
      · exact trivial
      · rename_i d hd
        split
        · exact trivial
        · exact trivial
        · rename_i heq; rw [← heq]; exact hr b hb hid' d (List.mem_of_mem_head? hd) _
    · exact trivial

theorem good_collectCore (env : Env) (rec : Ast → NC → CRes) (a : Ast) (nc : NC)
    (hr : a.id ≠ .ID_LOCAL → ∀ k, k ∈ a.kids → ∀ nc, GoodC Q (rec k nc))
    (hrr : a.id ≠ .ID_LOCAL → ∀ b, b ∈ a.kids → (b.id = .ITERATE ∨ b.id = .ASSIGN) → ∀ d, d ∈ b.kids →
      ∀ nc, GoodC Q (rec d nc))
    (hpos : ∀ e, Doc e → Q e a.lo) : GoodC Q (collectCore env rec a nc) := by
  unfold collectCore
  dsimp only
  split
  · -- `ViGlobalDeclaration`
    rename_i hdd
    have hne : a.id ≠ .ID_LOCAL := by intro e; rw [e] at hdd; exact absurd hdd (by decide)
    split
    · exact trivial
    · split
      · exact trivial
      · rename_i k0 rest hks
        split
        · split
          · rename_i k1
            split
            · rename_i heq; rw [← heq]; exact hr hne k1 (by rw [hks]; simp) nc
            · exact trivial
          · exact trivial
        · exact trivial
  · split
    · -- `ViGlobal`
      split
      · exact trivial
      · split
        · exact hpos _ (by decide)
        · exact trivial
    · split
      · split <;> exact trivial
      · rename_i hnl
        have hne : a.id ≠ .ID_LOCAL := fun e => hnl (by rw [e]; rfl)
        have hm : ∀ nc, GoodC Q (mergeK rec a.kids nc) := goodC_mergeK rec a.kids (hr hne)
        split
        · -- binders
          split
          · rename_i heq; rw [← heq]; exact hm _
          · split
            · exact trivial
            · rename_i k0 hk0
              split
              · exact trivial
              · exact trivial
              · exact trivial
              · rename_i heq; rw [← heq]; exact hr hne k0 (List.mem_of_mem_head? hk0) _
        · split
          · -- `ViImperative`
            split
            · rename_i heq; rw [← heq]; exact hm _
            · split
              · exact trivial
              · exact trivial
              · rename_i k0 blocks _ hks
                exact goodC_blocksK rec blocks
                  (fun b hb => hrr hne b (by rw [hks]; exact List.mem_cons_of_mem _ hb)) _ trivial
          · exact hm nc

theorem good_collect (env : Env) : ∀ (fuel : Nat) (a : Ast) (nc : NC), RangedL (PosOk Q) a →
    GoodC Q (collect env fuel a nc)
  | 0, _, _, _ => trivial
  | fuel + 1, a, nc, h => by
    rw [collect_succ]
    apply good_collectCore
    · intro hne k hk nc
      exact good_collect env fuel k nc (h.kids hne k hk)
    · intro hne b hb hid d hd nc
      have hbne : b.id ≠ .ID_LOCAL := by rcases hid with e | e <;> (rw [e]; decide)
      exact good_collect env fuel d nc ((h.kids hne b hb).kids hbne d hd)
    · exact h.p

/-! ## `ASTInterpreter::Evaluate` and `Interpreter::Evaluate` -/

/-- how the two visitors of `ASTInterpreter::Evaluate` (name collection, then calculation) end: `none` = both returned
`true`; `some f` = the first `false`, with what was logged (`Fail.quiet`: NOTHING was logged) -/
def visitFail (fuel : Nat) (env : Env) (nt : Ast) : Option Fail :=
  match collect env fuel nt {} with
  | .fail f => some f
  | .ok _ _ nc =>
    match ev { ids := nc.ids } fuel nt none { data := nc.data, iters := 0 } with
    | .fail f _ => some f
    | .ok _ _ => none

/-- a visitor logs documented errors only, at the start of a reachable node -/
theorem visitFail_err {Qp : Int → Prop} (fuel : Nat) (env : Env) (nt : Ast) (h : RangedL (fun lo _ => Qp lo) nt)
    (e : Nat) (p : Int) (hv : visitFail fuel env nt = some (.err e p)) : Doc e ∧ Qp p := by
  have h' : RangedL (PosOk (fun e p => Doc e ∧ Qp p)) nt := h.mono (fun lo hi hq e he => ⟨he, hq⟩)
  unfold visitFail at hv
  have hc := good_collect (Q := fun e p => Doc e ∧ Qp p) env fuel nt {} h'
  cases hcol : collect env fuel nt {} with
  | fail f =>
    rw [hcol] at hv hc
    simp only [Option.some.injEq] at hv
    subst hv
    exact hc
  | ok vars al nc =>
    rw [hcol] at hv
    dsimp only at hv
    have he := good_ev (Q := fun e p => Doc e ∧ Qp p) { ids := nc.ids } fuel nt none { data := nc.data, iters := 0 } h'
    cases hev : ev { ids := nc.ids } fuel nt none { data := nc.data, iters := 0 } with
    | fail f k =>
      rw [hev] at hv he
      simp only [Option.some.injEq] at hv
      subst hv
      exact he
    | ok v st => rw [hev] at hv; cases hv

theorem rangedL_true (a : Ast) : RangedL (fun _ _ => True) a :=
  visible_rangedL a (fun _ _ => trivial)

/-- the result of `ASTInterpreter::Evaluate` in terms of the visitors -/
theorem evalNorm_err_iff (fuel : Nat) (env : Env) (nt : Ast) (e : Nat) (p : Int) :
    (evalNorm fuel env nt).1 = .err e p ↔
      (visitFail fuel env nt = some .quiet ∧ e = EID.unknownError ∧ p = 0) ∨ visitFail fuel env nt = some (.err e p) := by
  unfold evalNorm visitFail
  cases collect env fuel nt {} with
  | fail f => cases f <;> simp [eq_comm]
  | ok vars al nc =>
    dsimp only
    cases ev { ids := nc.ids } fuel nt none { data := nc.data, iters := 0 } with
    | fail f k => cases f <;> simp [eq_comm]
    | ok v st => cases v <;> simp

/-- **evaluate_err**: an error result of `Interpreter::Evaluate` (after parsing and type checking) is either the
`unknownError` fallback, at position 0, produced exactly because a visitor failed without logging, or a documented
`ValueEID` logged by a visitor at the start of a reachable node of the ORIGINAL tree's ranges -/
theorem evaluate_err {Qp : Int → Prop} (fuel : Nat) (env : Env) (t : Ast) (h : RangedL (fun lo _ => Qp lo) t)
    (e : Nat) (p : Int) (hr : (evaluate fuel env t).1 = .err e p) :
    ∃ nt, normalizeTree env.funcs fuel t = some nt ∧
      ((visitFail fuel env nt = some .quiet ∧ e = EID.unknownError ∧ p = 0) ∨
       (visitFail fuel env nt = some (.err e p) ∧ Doc e ∧ Qp p)) := by
  unfold evaluate at hr
  cases hn : normalizeTree env.funcs fuel t with
  | none => rw [hn] at hr; cases hr
  | some nt =>
    rw [hn] at hr
    dsimp only at hr
    refine ⟨nt, rfl, ?_⟩
    rcases (evalNorm_err_iff fuel env nt e p).1 hr with h1 | h1
    · exact Or.inl h1
    · exact Or.inr ⟨h1, visitFail_err fuel env nt (rangedL_normalizeTree env.funcs fuel t nt h hn) e p h1⟩

/-- conversely: what the visitors did determines the result -/
theorem evaluate_of_visit (fuel : Nat) (env : Env) (t nt : Ast) (hn : normalizeTree env.funcs fuel t = some nt) :
    (visitFail fuel env nt = some .quiet → (evaluate fuel env t).1 = .err EID.unknownError 0) ∧
    (∀ e p, visitFail fuel env nt = some (.err e p) → (evaluate fuel env t).1 = .err e p) := by
  unfold evaluate
  rw [hn]
  dsimp only
  exact ⟨fun h => (evalNorm_err_iff fuel env nt _ _).2 (Or.inl ⟨h, rfl, rfl⟩),
    fun e p h => (evalNorm_err_iff fuel env nt e p).2 (Or.inr h)⟩

/-! ## non-vacuity of the `iterationsLimit` site (loop level) -/

/-- the `iterationsLimit` site of `ViQuantifier` is reached: a universal quantifier whose body holds everywhere (and
leaves the iteration counter alone) over a domain with more than `MAX_ITERATIONS - iters` elements ends with
`iterationsLimit` at the quantifier's position -/
theorem quantLoop_limit (body : St → R V) (var : Nat) (pos : Int)
    (hb : ∀ st, ∃ st', body st = .ok (.bool true) st' ∧ st'.iters = st.iters) :
    ∀ (xs : List Val) (st : St), st.iters ≤ MAX_ITERATIONS → st.iters + xs.length > MAX_ITERATIONS →
      quantLoop body var true pos xs st = .fail (.err EID.iterationsLimit pos) (MAX_ITERATIONS + 1)
  | [], st, h1, h2 => by simp at h2; omega
  | x :: xs, st, h1, h2 => by
    simp only [quantLoop]
    by_cases hn : st.iters + 1 > MAX_ITERATIONS
    · rw [if_pos hn]
      have : st.iters + 1 = MAX_ITERATIONS + 1 := by omega
      rw [this]
    · rw [if_neg hn]
      obtain ⟨st', hb1, hb2⟩ := hb { data := st.data.set var x, iters := st.iters + 1 }
      rw [hb1]
      simp only [bne_self_eq_false, Bool.false_eq_true, if_false]
      apply quantLoop_limit body var pos hb xs st'
      · rw [hb2]; simp only; omega
      · rw [hb2]; simp only [List.length_cons] at h2 ⊢; omega

example : quantLoop (fun st => .ok (.bool true) st) 0 true 6 (List.replicate 100001 (.e 0)) { data := [.e 0], iters := 0 } =
    .fail (.err EID.iterationsLimit 6) 100001 :=
  quantLoop_limit _ 0 6 (fun st => ⟨st, rfl, rfl⟩) _ _ (by decide) (by simp only [List.length_replicate]; decide)
end CCVerif.EvalPos
