import CCVerif.Lemmas.EvalSim
import CCVerif.Lemmas.EvalTuple
/-! `Interpreter::Evaluate` (normalise, collect names, interpret) on the fragments: assembly of
`normalize_shape`, `collect_shape` and `sim`. -/
namespace CCVerif.Eval
open CCVerif.Syntax CCVerif.Spec CCVerif.Norm
open Val Ty

variable {env : Env}

theorem plainTok_of_arith {t : Tok} (h : isArith t) : plainTok t = true := by rcases h with rfl | rfl | rfl <;> rfl
theorem plainTok_of_intCmp {t : Tok} (h : isIntCmp t) : plainTok t = true := by
  rcases h with rfl | rfl | rfl | rfl <;> rfl
theorem plainTok_of_eq {t : Tok} (h : isEq t) : plainTok t = true := by rcases h with rfl | rfl <;> rfl
theorem plainTok_of_conn {t : Tok} (h : isConn t) : plainTok t = true := by rcases h with rfl | rfl | rfl | rfl <;> rfl
theorem plainTok_of_mem {t : Tok} (h : isMemTok t) : plainTok t = true := by rcases h with rfl | rfl <;> rfl
theorem plainTok_of_sub {t : Tok} (h : isSubTok t) : plainTok t = true := by rcases h with rfl | rfl | rfl <;> rfl
theorem plainTok_of_setOp {t : Tok} (h : isSetOp t) : plainTok t = true := by
  rcases h with rfl | rfl | rfl | rfl <;> rfl
theorem bindTok_of_quant {t : Tok} (h : isQuant t) : bindTok t = true := by rcases h with rfl | rfl <;> rfl

private theorem shape1 {t : Tok} {d : TokData} {lo hi : Int} {a : Ast} (ht : plainTok t = true) (ha : Shape env a) :
    Shape env (.node t d lo hi [a]) :=
  .plain d lo hi [a] ht (by intro k hk; simp at hk; subst hk; exact ha)

private theorem shape2 {t : Tok} {d : TokData} {lo hi : Int} {a b : Ast} (ht : plainTok t = true) (ha : Shape env a)
    (hb : Shape env b) : Shape env (.node t d lo hi [a, b]) :=
  .plain d lo hi [a, b] ht (by intro k hk; simp at hk; rcases hk with rfl | rfl; exact ha; exact hb)

theorem mem_zip_snd {α β} : ∀ {ks : List α} {ks' : List β} {k' : β}, ks.length = ks'.length → k' ∈ ks' →
    ∃ k, (k, k') ∈ ks.zip ks'
  | [], [], _, _, h => by cases h
  | k :: ks, k1 :: ks', k', hl, h => by
    rcases List.mem_cons.mp h with rfl | h
    · exact ⟨k, by simp⟩
    · obtain ⟨k0, hk0⟩ := mem_zip_snd (ks := ks) (by simpa using hl) h
      exact ⟨k0, by simp [hk0]⟩
  | [], _ :: _, _, hl, _ => by simp at hl
  | _ :: _, [], _, hl, _ => by simp at hl

theorem mem_zip3_snd {α β γ} {ks : List α} {ks' : List β} {ts : List γ} {k' : β} (h1 : ks.length = ks'.length)
    (h2 : ks.length = ts.length) (h : k' ∈ ks') : ∃ k t, ((k, k'), t) ∈ (ks.zip ks').zip ts := by
  obtain ⟨k, hk⟩ := mem_zip_snd h1 h
  obtain ⟨i, hi, he⟩ := List.getElem_of_mem hk
  have hz : (ks.zip ks').length = ks.length := by rw [List.length_zip]; omega
  have hit : i < ts.length := by omega
  refine ⟨k, ts[i], ?_⟩
  rw [List.mem_iff_getElem]
  exact ⟨i, by rw [List.length_zip]; omega, by simp [he]⟩

/-- the variable a block binds -/
def Blk.var : Blk → Option String
  | .iter x _ _ _ _ _ _ _ _ => some x
  | .asg x _ _ _ _ _ _ _ _ => some x
  | .guard _ _ => none

theorem lookup_ctxAfter {y : String} {σ : Ty} : ∀ (pre : List Blk) (Γ : TCtx), lookup y (ctxAfter Γ pre) = some σ →
    lookup y Γ = some σ ∨ ∃ b ∈ pre, b.var = some y
  | [], _, h => Or.inl h
  | b :: pre, Γ, h => by
    have h' : lookup y (ctxAfter (b.ctx Γ) pre) = some σ := h
    rcases lookup_ctxAfter pre (b.ctx Γ) h' with h1 | ⟨b', hb', hv⟩
    · cases b with
      | iter x dom dom' σ' d lo hi dlo dhi =>
        by_cases e : y = x
        · exact Or.inr ⟨.iter x dom dom' σ' d lo hi dlo dhi, by simp, by simp [Blk.var, e]⟩
        · simp only [Blk.ctx] at h1; rw [lookup_cons_ne _ _ e] at h1; exact Or.inl h1
      | asg x ex ex' σ' d lo hi dlo dhi =>
        by_cases e : y = x
        · exact Or.inr ⟨.asg x ex ex' σ' d lo hi dlo dhi, by simp, by simp [Blk.var, e]⟩
        · simp only [Blk.ctx] at h1; rw [lookup_cons_ne _ _ e] at h1; exact Or.inl h1
      | guard g g' => exact Or.inl h1
    · exact Or.inr ⟨b', by simp [hb'], hv⟩

theorem shape_nest {t : Tok} (ht : bindTok t = true) (d : TokData) (lo hi : Int) {dom' body' : Ast}
    (hd : Shape env dom') (hb : Shape env body') : ∀ (xs : List EDecl), (∀ q ∈ xs, lookup q.1 env.globals = none) →
    Shape env (nest t d lo hi dom' body' xs)
  | [], _ => hb
  | q :: xs, h => .binder d lo hi q.1 q.2.1 q.2.2 ht (h q (by simp)) hd
      (shape_nest ht d lo hi hd hb xs (fun q' hq' => h q' (by simp [hq'])))

/-- the scope and the realisations after a tuple pattern name no globals -/
theorem shape_pat_ctx {rz : Rz} {Γ : TCtx} {xs : List EDecl} {ts : List Ty} {nn : String} (hlen : xs.length = ts.length)
    (hnd : (xs.map (·.1)).Nodup)
    (hfresh : ∀ q ∈ xs, lookup q.1 Γ = none ∧ lookup q.1 env.globals = none ∧ ∀ r ∈ rz, r.2.1 ≠ q.1)
    (hnng : lookup nn env.globals = none)
    (hΓ : (∀ x σ, lookup x Γ = some σ → lookup x env.globals = none) ∧
      (∀ x r, lookup x rz = some r → lookup r.1 env.globals = none)) :
    (∀ x σ, lookup x (patCtx Γ xs ts) = some σ → lookup x env.globals = none) ∧
      (∀ x r, lookup x (patRz nn xs 1 ++ rz) = some r → lookup r.1 env.globals = none) := by
  constructor
  · intro y σ hy
    rw [lookup_patCtx y xs ts Γ hlen hnd] at hy
    cases hp : posOf y xs with
    | some j =>
      obtain ⟨q, hq1, hq2⟩ := posOf_some hp
      rw [← hq2]; exact (hfresh q (List.mem_of_getElem? hq1)).2.1
    | none => rw [hp] at hy; exact hΓ.1 y σ hy
  · intro y r hl
    rw [lookup_patRz y nn xs 1 rz] at hl
    cases hp : posOf y xs with
    | some j => rw [hp] at hl; injection hl with hl; subst hl; exact hnng
    | none => rw [hp] at hl; exact hΓ.2 y r hl

/-- the normal forms of the fragments have the shape on which the name collector is understood -/
theorem FragR.shape {G : TCtx} {lvl : Nat} {rz : Rz} {Γ : TCtx} {a a' : Ast} {τ : ExprTy} (h : FragR env G lvl rz Γ a a' τ) :
    ((∀ x σ, lookup x Γ = some σ → lookup x env.globals = none) ∧
      (∀ x r, lookup x rz = some r → lookup r.1 env.globals = none)) → Shape env a' := by
  induction h with
  | lit Γ n lo hi => intro _; exact .plain _ lo hi [] rfl (by simp)
  | arith d lo hi ht _ _ iha ihb => intro hΓ; exact shape2 (plainTok_of_arith ht) (iha hΓ) (ihb hΓ)
  | card d lo hi _ ih => intro hΓ; exact shape1 rfl (ih hΓ)
  | cmp d lo hi ht _ _ iha ihb => intro hΓ; exact shape2 (plainTok_of_intCmp ht) (iha hΓ) (ihb hΓ)
  | eq d lo hi ht _ _ iha ihb => intro hΓ; exact shape2 (plainTok_of_eq ht) (iha hΓ) (ihb hΓ)
  | not d lo hi _ ih => intro hΓ; exact shape1 rfl (ih hΓ)
  | conn d lo hi ht _ _ iha ihb => intro hΓ; exact shape2 (plainTok_of_conn ht) (iha hΓ) (ihb hΓ)
  | mem d lo hi ht _ _ _ _ iha ihb => intro hΓ; exact shape2 (plainTok_of_mem ht) (iha hΓ) (ihb hΓ)
  | memPow d d' lo hi lo' hi' ht _ _ iha ihb =>
    intro hΓ; exact shape2 (plainTok_of_mem ht) (iha hΓ) (shape1 rfl (ihb hΓ))
  | sub d lo hi ht _ _ iha ihb => intro hΓ; exact shape2 (plainTok_of_sub ht) (iha hΓ) (ihb hΓ)
  | empty Γ d lo hi _ => intro _; exact .plain d lo hi [] rfl (by simp)
  | intset Γ d lo hi => intro _; exact .plain d lo hi [] rfl (by simp)
  | enum d lo hi ks ks' _ hlen _ ih =>
    intro hΓ
    refine .plain d lo hi ks' rfl (fun k' hk' => ?_)
    obtain ⟨k, hk⟩ := mem_zip_snd hlen hk'
    exact ih _ hk hΓ
  | tuple d lo hi ks ks' ts _ hlen hlen' _ ih =>
    intro hΓ
    refine .plain d lo hi ks' rfl (fun k' hk' => ?_)
    obtain ⟨k, t, hk⟩ := mem_zip3_snd hlen' hlen hk'
    exact ih _ hk hΓ
  | setOp d lo hi ht _ _ iha ihb => intro hΓ; exact shape2 (plainTok_of_setOp ht) (iha hΓ) (ihb hΓ)
  | bool d lo hi _ ih => intro hΓ; exact shape1 rfl (ih hΓ)
  | debool d lo hi _ ih => intro hΓ; exact shape1 rfl (ih hΓ)
  | reduce d lo hi _ ih => intro hΓ; exact shape1 rfl (ih hΓ)
  | smallpr idx lo hi _ _ ih => intro hΓ; exact shape1 rfl (ih hΓ)
  | bigpr idx lo hi _ _ ih => intro hΓ; exact shape1 rfl (ih hΓ)
  | pow d lo hi _ _ ih => intro hΓ; exact shape1 rfl (ih hΓ)
  | decart d lo hi ks ks' ts _ hlen hlen' _ ih =>
    intro hΓ
    refine .plain d lo hi ks' rfl (fun k' hk' => ?_)
    obtain ⟨k, t, hk⟩ := mem_zip3_snd hlen' hlen hk'
    exact ih _ hk hΓ
  | glob Γ g lo hi _ _ => intro _; exact .glob g lo hi
  | loc Γ x lo hi _ hx _ => intro hΓ; exact .loc x lo hi (hΓ.1 x _ hx)
  | locPr Γ x nn k lo hi _ hx hxσ =>
    intro hΓ
    exact shape1 rfl (.loc nn lo hi (hΓ.2 x _ hxσ))
  | @quant rz Γ t dom body dom' body' τ d lo hi x dlo dhi _ ht _ hxg _ _ _ ihd ihb =>
    intro hΓ
    refine .binder d lo hi x dlo dhi (bindTok_of_quant ht) hxg (ihd hΓ) (ihb ⟨?_, hΓ.2⟩)
    intro y σ hy
    by_cases e : y = x
    · subst e; exact hxg
    · rw [lookup_cons_ne _ _ e] at hy; exact hΓ.1 y σ hy
  | @decl rz Γ dom body dom' body' τ d lo hi x dlo dhi _ _ hxg _ _ _ ihd ihb =>
    intro hΓ
    refine .binder d lo hi x dlo dhi rfl hxg (ihd hΓ) (ihb ⟨?_, hΓ.2⟩)
    intro y σ hy
    by_cases e : y = x
    · subst e; exact hxg
    · rw [lookup_cons_ne _ _ e] at hy; exact hΓ.1 y σ hy
  | @recShort rz Γ init body init' body' τ d lo hi x dlo dhi _ _ hxg _ _ _ ihi ihb =>
    intro hΓ
    have hΓ' : ∀ y σ, lookup y ((x, τ) :: Γ) = some σ → lookup y env.globals = none := by
      intro y σ hy
      by_cases e : y = x
      · subst e; exact hxg
      · rw [lookup_cons_ne _ _ e] at hy; exact hΓ.1 y σ hy
    refine .recur d lo hi x dlo dhi [init', body'] (Or.inl ⟨rfl, rfl⟩) hxg ?_
    intro k hk
    simp only [List.mem_cons, List.not_mem_nil, or_false] at hk
    rcases hk with rfl | rfl
    · exact ihi hΓ
    · exact ihb ⟨hΓ', hΓ.2⟩
  | @recFull rz Γ init cond body init' cond' body' τ d lo hi x dlo dhi _ _ hxg _ _ _ _ ihi ihc ihb =>
    intro hΓ
    have hΓ' : ∀ y σ, lookup y ((x, τ) :: Γ) = some σ → lookup y env.globals = none := by
      intro y σ hy
      by_cases e : y = x
      · subst e; exact hxg
      · rw [lookup_cons_ne _ _ e] at hy; exact hΓ.1 y σ hy
    refine .recur d lo hi x dlo dhi [init', cond', body'] (Or.inr ⟨rfl, rfl⟩) hxg ?_
    intro k hk
    simp only [List.mem_cons, List.not_mem_nil, or_false] at hk
    rcases hk with rfl | rfl | rfl
    · exact ihi hΓ
    · exact ihc ⟨hΓ', hΓ.2⟩
    · exact ihb ⟨hΓ', hΓ.2⟩
  | @imp rz Γ value value' τ d lo hi bs _ hne _ hside _ _ ihb ihv =>
    intro hΓ
    -- the scopes after the blocks only add variables that are no globals
    have hctx : ∀ (pre : List Blk) (post : List Blk), bs = pre ++ post →
        ∀ y σ, lookup y (ctxAfter Γ pre) = some σ → lookup y env.globals = none := by
      intro pre post e y σ hy
      rcases lookup_ctxAfter pre Γ hy with h1 | ⟨b, hb, hv⟩
      · exact hΓ.1 y σ h1
      · obtain ⟨p1, p2, rfl⟩ := List.append_of_mem hb
        have hs := hside p1 b (p2 ++ post) (by simp [e])
        cases b with
        | iter x dom dom' σ' d' lo' hi' dlo dhi => simp [Blk.var] at hv; subst hv; exact hs.2.1
        | asg x ex' ex'' σ' d' lo' hi' dlo dhi => simp [Blk.var] at hv; subst hv; exact hs.2.1
        | guard g g' => simp [Blk.var] at hv
    refine .imp d lo hi value' (bs.map Blk.core) (by simpa using hne) (ihv ⟨hctx bs [] (by simp), hΓ.2⟩) ?_
    intro k hk
    obtain ⟨b, hb, rfl⟩ := List.mem_map.mp hk
    obtain ⟨pre, post, rfl⟩ := List.append_of_mem hb
    have hs := hside pre b post rfl
    have hsh := ihb pre b post rfl ⟨hctx pre (b :: post) rfl, hΓ.2⟩
    cases b with
    | iter x dom dom' σ' d' lo' hi' dlo dhi => exact .blk d' lo' hi' x dlo dhi (Or.inl rfl) hs.2.1 hsh
    | asg x ex' ex'' σ' d' lo' hi' dlo dhi => exact .blk d' lo' hi' x dlo dhi (Or.inr rfl) hs.2.1 hsh
    | guard g g' => exact hsh
  | @quantEnum rz Γ t dom body dom' body' τ d dd lo hi dlo dhi xs _ ht _ _ hfresh _ _ ihd ihb =>
    intro hΓ
    have hΓ' : ∀ y σ, lookup y (declCtx τ Γ xs) = some σ → lookup y env.globals = none := by
      intro y σ hy
      by_cases hm : y ∈ xs.map (·.1)
      · obtain ⟨q, hq, rfl⟩ := List.mem_map.mp hm
        exact (hfresh q hq).2.1
      · rw [lookup_declCtx τ y xs Γ hm] at hy; exact hΓ.1 y σ hy
    exact shape_nest (bindTok_of_quant ht) d lo hi (ihd hΓ) (ihb ⟨hΓ', hΓ.2⟩) xs (fun q hq => (hfresh q hq).2.1)
  | @quantTup rz Γ t dom body dom' body' ts d lo hi pd plo phi xs nn _ ht hlen _ hnd hfresh _ hnng _ _ _ _ _ ihd ihb =>
    intro hΓ
    refine .binder d lo hi nn plo phi (bindTok_of_quant ht) hnng (ihd hΓ) (ihb (shape_pat_ctx hlen hnd hfresh hnng hΓ))
  | @declTup rz Γ dom body dom' body' ts d lo hi pd plo phi xs nn _ hlen _ hnd hfresh _ hnng _ _ _ _ _ ihd ihb =>
    intro hΓ
    refine .binder d lo hi nn plo phi rfl hnng (ihd hΓ) (ihb (shape_pat_ctx hlen hnd hfresh hnng hΓ))

theorem FragR.shape_closed {G : TCtx} {lvl : Nat} {a a' : Ast} {τ : ExprTy} (h : FragR env G lvl [] [] a a' τ) : Shape env a' :=
  h.shape ⟨by intro x σ hx; simp [lookup] at hx, by intro x r hx; simp [lookup] at hx⟩

/-- the level only restricts which constructs may occur -/
theorem FragR.mono {G : TCtx} {l1 l2 : Nat} (hl : l1 ≤ l2) {rz : Rz} {Γ : TCtx} {a a' : Ast} {τ : ExprTy}
    (h : FragR env G l1 rz Γ a a' τ) : FragR env G l2 rz Γ a a' τ := by
  induction h with
  | lit Γ n lo hi => exact .lit Γ n lo hi
  | arith d lo hi ht _ _ iha ihb => exact .arith d lo hi ht iha ihb
  | card d lo hi _ ih => exact .card d lo hi ih
  | cmp d lo hi ht _ _ iha ihb => exact .cmp d lo hi ht iha ihb
  | eq d lo hi ht _ _ iha ihb => exact .eq d lo hi ht iha ihb
  | not d lo hi _ ih => exact .not d lo hi ih
  | conn d lo hi ht _ _ iha ihb => exact .conn d lo hi ht iha ihb
  | mem d lo hi ht hb hb' _ _ iha ihb => exact .mem d lo hi ht hb hb' iha ihb
  | memPow d d' lo hi lo' hi' ht _ _ iha ihb => exact .memPow d d' lo hi lo' hi' ht iha ihb
  | sub d lo hi ht _ _ iha ihb => exact .sub d lo hi ht iha ihb
  | empty Γ d lo hi hn => exact .empty Γ d lo hi hn
  | intset Γ d lo hi => exact .intset Γ d lo hi
  | enum d lo hi ks ks' hne hlen _ ih => exact .enum d lo hi ks ks' hne hlen ih
  | tuple d lo hi ks ks' ts h2 hlen hlen' _ ih => exact .tuple d lo hi ks ks' ts h2 hlen hlen' ih
  | setOp d lo hi ht _ _ iha ihb => exact .setOp d lo hi ht iha ihb
  | bool d lo hi _ ih => exact .bool d lo hi ih
  | debool d lo hi _ ih => exact .debool d lo hi ih
  | reduce d lo hi _ ih => exact .reduce d lo hi ih
  | smallpr idx lo hi _ hp ih => exact .smallpr idx lo hi ih hp
  | bigpr idx lo hi _ hp ih => exact .bigpr idx lo hi ih hp
  | pow d lo hi _ hs ih => exact .pow d lo hi ih hs
  | decart d lo hi ks ks' ts h2 hlen hlen' _ ih => exact .decart d lo hi ks ks' ts h2 hlen hlen' ih
  | glob Γ g lo hi h2 hg => exact .glob Γ g lo hi (by omega) hg
  | loc Γ x lo hi h3 hx hσ => exact .loc Γ x lo hi (by omega) hx hσ
  | locPr Γ x nn k lo hi h6 hx hσ => exact .locPr Γ x nn k lo hi (by omega) hx hσ
  | quant d lo hi x dlo dhi h3 ht hx hxg hz _ _ ihd ihb => exact .quant d lo hi x dlo dhi (by omega) ht hx hxg hz ihd ihb
  | decl d lo hi x dlo dhi h3 hx hxg hz _ _ ihd ihb => exact .decl d lo hi x dlo dhi (by omega) hx hxg hz ihd ihb
  | recShort d lo hi x dlo dhi h4 hx hxg hz _ _ ihi ihb => exact .recShort d lo hi x dlo dhi (by omega) hx hxg hz ihi ihb
  | recFull d lo hi x dlo dhi h4 hx hxg hz _ _ _ ihi ihc ihb =>
    exact .recFull d lo hi x dlo dhi (by omega) hx hxg hz ihi ihc ihb
  | imp d lo hi bs h4 hne hn hside _ _ ihb ihv => exact .imp d lo hi bs (by omega) hne hn hside ihb ihv
  | quantEnum d dd lo hi dlo dhi xs h5 ht hlen hnd hfr _ _ ihd ihb =>
    exact .quantEnum d dd lo hi dlo dhi xs (by omega) ht hlen hnd hfr ihd ihb
  | quantTup d lo hi pd plo phi xs nn h6 ht hlen hl2 hnd hfr a1 a2 a3 a4 a5 _ _ ihd ihb =>
    exact .quantTup d lo hi pd plo phi xs nn (by omega) ht hlen hl2 hnd hfr a1 a2 a3 a4 a5 ihd ihb
  | declTup d lo hi pd plo phi xs nn h6 hlen hl2 hnd hfr a1 a2 a3 a4 a5 _ _ ihd ihb =>
    exact .declTup d lo hi pd plo phi xs nn (by omega) hlen hl2 hnd hfr a1 a2 a3 a4 a5 ihd ihb

/-! ## the normaliser on the fragments -/

/-- children normalise one by one (the name state is not touched on these fragments) -/
theorem nfold_map (fs : Funcs) (fuel : Nat) : ∀ (kps : List (Ast × Ast)) (done : List Ast) (b : NState),
    (∀ q ∈ kps, ∀ b, normalize fs fuel q.1 b = none ∨ normalize fs fuel q.1 b = some (q.2, b)) →
    (kps.map (·.1)).foldl (nstep fs fuel) (some (done, b)) = none ∨
      (kps.map (·.1)).foldl (nstep fs fuel) (some (done, b)) = some (done ++ kps.map (·.2), b)
  | [], done, b, _ => Or.inr (by simp)
  | q :: kps, done, b, h => by
    simp only [List.map_cons, List.foldl_cons]
    rcases h q (by simp) b with h1 | h1
    · left; simp only [nstep, h1]; exact nstep_none fs fuel _
    · simp only [nstep, h1]
      have := nfold_map fs fuel kps (done ++ [q.2]) b (fun k' hk' => h k' (by simp [hk']))
      simpa using this

/-- the root of an expression of the fragment is no block node -/
theorem FragR.ids {G : TCtx} {lvl : Nat} {rz : Rz} {Γ : TCtx} {a a' : Ast} {τ : ExprTy} (h : FragR env G lvl rz Γ a a' τ) :
    (a.id ≠ .ITERATE ∧ a.id ≠ .ASSIGN) ∧ (a'.id ≠ .ITERATE ∧ a'.id ≠ .ASSIGN) := by
  cases h with
  | arith d lo hi ht _ _ => rcases ht with rfl | rfl | rfl <;> simp [Ast.id]
  | cmp d lo hi ht _ _ => rcases ht with rfl | rfl | rfl | rfl <;> simp [Ast.id]
  | eq d lo hi ht _ _ => rcases ht with rfl | rfl <;> simp [Ast.id]
  | conn d lo hi ht _ _ => rcases ht with rfl | rfl | rfl | rfl <;> simp [Ast.id]
  | mem d lo hi ht _ _ _ _ => rcases ht with rfl | rfl <;> simp [Ast.id]
  | memPow d d' lo hi lo' hi' ht _ _ => rcases ht with rfl | rfl <;> simp [Ast.id]
  | sub d lo hi ht _ _ => rcases ht with rfl | rfl | rfl <;> simp [Ast.id]
  | setOp d lo hi ht _ _ => rcases ht with rfl | rfl | rfl | rfl <;> simp [Ast.id]
  | quant d lo hi x dlo dhi _ ht _ _ _ _ _ => rcases ht with rfl | rfl <;> simp [Ast.id]
  | quantTup d lo hi pd plo phi xs nn _ ht _ _ _ _ _ _ _ _ _ _ _ => rcases ht with rfl | rfl <;> simp [Ast.id]
  | quantEnum d dd lo hi dlo dhi xs _ ht hlen _ _ _ _ =>
    match xs, hlen with
    | q :: q' :: r, _ => rcases ht with rfl | rfl <;> simp [Ast.id, nest]
  | _ => simp [Ast.id]

private theorem norm1 {fs : Funcs} {t : Tok} (ht : plainTok t = true) (d : TokData) (lo hi : Int) {a a' : Ast}
    (ha : ∀ fuel b, normalize fs fuel a b = none ∨ normalize fs fuel a b = some (a', b)) (fuel : Nat) (b : NState) :
    normalize fs fuel (.node t d lo hi [a]) b = none ∨
      normalize fs fuel (.node t d lo hi [a]) b = some (.node t d lo hi [a'], b) := by
  cases fuel with
  | zero => exact Or.inl (normalize_zero _ _ _)
  | succ f =>
    rw [normalize_plain (Or.inl ht)]
    rcases nfold_map fs f [(a, a')] [] b (fun q hq b => by simp at hq; subst hq; exact ha f b) with h1 | h1
    · left; simp at h1; simp [h1]
    · right; simp at h1; simp [h1]

private theorem norm2 {fs : Funcs} {t : Tok} (ht : plainTok t = true) (d : TokData) (lo hi : Int) {a a' b0 b0' : Ast}
    (ha : ∀ fuel b, normalize fs fuel a b = none ∨ normalize fs fuel a b = some (a', b))
    (hb : ∀ fuel b, normalize fs fuel b0 b = none ∨ normalize fs fuel b0 b = some (b0', b)) (fuel : Nat) (b : NState) :
    normalize fs fuel (.node t d lo hi [a, b0]) b = none ∨
      normalize fs fuel (.node t d lo hi [a, b0]) b = some (.node t d lo hi [a', b0'], b) := by
  cases fuel with
  | zero => exact Or.inl (normalize_zero _ _ _)
  | succ f =>
    rw [normalize_plain (Or.inl ht)]
    rcases nfold_map fs f [(a, a'), (b0, b0')] [] b (fun q hq b => by
      simp at hq; rcases hq with rfl | rfl; exact ha f b; exact hb f b) with h1 | h1
    · left; simp at h1; simp [h1]
    · right; simp at h1; simp [h1]

private theorem normN {fs : Funcs} {t : Tok} (ht : plainTok t = true) (d : TokData) (lo hi : Int) (ks ks' : List Ast)
    (hlen : ks.length = ks'.length)
    (h : ∀ q ∈ ks.zip ks', ∀ fuel b, normalize fs fuel q.1 b = none ∨ normalize fs fuel q.1 b = some (q.2, b))
    (fuel : Nat) (b : NState) :
    normalize fs fuel (.node t d lo hi ks) b = none ∨
      normalize fs fuel (.node t d lo hi ks) b = some (.node t d lo hi ks', b) := by
  cases fuel with
  | zero => exact Or.inl (normalize_zero _ _ _)
  | succ f =>
    rw [normalize_plain (Or.inl ht)]
    have hk1 : (ks.zip ks').map (·.1) = ks := by rw [List.map_fst_zip]; omega
    have hk2 : (ks.zip ks').map (·.2) = ks' := by rw [List.map_snd_zip]; omega
    rcases nfold_map fs f (ks.zip ks') [] b (fun q hq b => h q hq f b) with h1 | h1
    · left; rw [hk1] at h1; simp [h1]
    · right; rw [hk1, hk2] at h1; simp [h1]

theorem normalize_enumQ {t : Tok} (ht : isQuant t) (fs : Funcs) (f : Nat) (d : TokData) (lo hi : Int) (dd : TokData)
    (dlo dhi : Int) (q0 : EDecl) (d1 : Ast) (rest : List Ast) (dom body : Ast) (b : NState) :
    normalize fs (f + 1) (.node t d lo hi [.node .NT_ENUM_DECL dd dlo dhi (declNode q0 :: d1 :: rest), dom, body]) b =
      match [declNode q0, dom, .node t d lo hi
          [if rest.isEmpty then d1 else .node .NT_ENUM_DECL dd dlo dhi (d1 :: rest), dom, body]].foldl (nstep fs f)
          (some ([], b)) with
      | none => none
      | some (ks', b') => some (.node t d lo hi ks', b') := by
  rcases ht with rfl | rfl <;>
  · simp only [normalize, Ast.id, Ast.kids, setKids, List.head?, enumDecl, declNode, tok_beq]
    simp
    rfl

/-- the quantifier over the remaining variables, as `Normalizer::EnumDeclaration` builds it: a plain quantifier
for one variable, an enumerated declaration for more -/
def enumSrc (t : Tok) (d : TokData) (lo hi : Int) (dd : TokData) (dlo dhi : Int) (dom body : Ast) : List EDecl → Ast
  | [] => body
  | [q] => .node t d lo hi [declNode q, dom, body]
  | q :: q' :: r => .node t d lo hi [.node .NT_ENUM_DECL dd dlo dhi ((q :: q' :: r).map declNode), dom, body]

/-- **the enumerated declaration is rewritten into nested quantifiers** -/
theorem normalize_enumSrc {t : Tok} (ht : isQuant t) (fs : Funcs) (d : TokData) (lo hi : Int) (dd : TokData) (dlo dhi : Int)
    {dom dom' body body' : Ast}
    (hd : ∀ fuel b, normalize fs fuel dom b = none ∨ normalize fs fuel dom b = some (dom', b))
    (hb : ∀ fuel b, normalize fs fuel body b = none ∨ normalize fs fuel body b = some (body', b)) :
    ∀ (ds : List EDecl), ds ≠ [] → ∀ fuel b,
      normalize fs fuel (enumSrc t d lo hi dd dlo dhi dom body ds) b = none ∨
      normalize fs fuel (enumSrc t d lo hi dd dlo dhi dom body ds) b = some (nest t d lo hi dom' body' ds, b)
  | [], h, _, _ => absurd rfl h
  | [q], _, fuel, b => by
    cases fuel with
    | zero => exact Or.inl (normalize_zero _ _ _)
    | succ f =>
      have e : enumSrc t d lo hi dd dlo dhi dom body [q] =
          .node t d lo hi [.node .ID_LOCAL (.text q.1) q.2.1 q.2.2 [], dom, body] := rfl
      rw [e, normalize_binder (bindTok_of_quant ht)]
      rcases nfold_map fs f [(.node .ID_LOCAL (.text q.1) q.2.1 q.2.2 [], .node .ID_LOCAL (.text q.1) q.2.1 q.2.2 []),
          (dom, dom'), (body, body')] [] b (fun q' hq b => by
        simp at hq
        rcases hq with rfl | rfl | rfl
        · exact normalize_local fs f _ _ _ b
        · exact hd f b
        · exact hb f b) with h1 | h1
      · left; simp at h1; simp [h1]
      · right; simp at h1; simp [h1, nest, declNode]
  | q :: q' :: r, _, fuel, b => by
    cases fuel with
    | zero => exact Or.inl (normalize_zero _ _ _)
    | succ f =>
      have ih := normalize_enumSrc ht fs d lo hi dd dlo dhi hd hb (q' :: r) (by simp)
      have e : enumSrc t d lo hi dd dlo dhi dom body (q :: q' :: r) = .node t d lo hi [.node .NT_ENUM_DECL dd dlo dhi
          (declNode q :: declNode q' :: r.map declNode), dom, body] := rfl
      rw [e, normalize_enumQ ht]
      have hinner : (.node t d lo hi [if (r.map declNode).isEmpty then declNode q' else
          .node .NT_ENUM_DECL dd dlo dhi (declNode q' :: r.map declNode), dom, body] : Ast) =
          enumSrc t d lo hi dd dlo dhi dom body (q' :: r) := by
        cases r with
        | nil => rfl
        | cons r0 r' => rfl
      rw [hinner]
      rcases nfold_map fs f [(declNode q, declNode q), (dom, dom'),
          (enumSrc t d lo hi dd dlo dhi dom body (q' :: r), nest t d lo hi dom' body' (q' :: r))] [] b (fun q'' hq b => by
        simp at hq
        rcases hq with rfl | rfl | rfl
        · exact normalize_local fs f _ _ _ b
        · exact hd f b
        · exact ih f b) with h1 | h1
      · left; simp at h1; simp [h1]
      · right; simp at h1; simp [h1, nest]

/-- **the normaliser computes the normal form of the judgement** (or runs out of the model's fuel); the
name-generation state is not used on these fragments -/
theorem FragR.normalizes {G : TCtx} {lvl : Nat} {rz : Rz} {Γ : TCtx} {a a' : Ast} {τ : ExprTy} (h : FragR env G lvl rz Γ a a' τ)
    (hl5 : lvl ≤ 5) (fs : Funcs) : ∀ fuel b, normalize fs fuel a b = none ∨ normalize fs fuel a b = some (a', b) := by
  induction h with
  | lit Γ n lo hi =>
    intro fuel b
    cases fuel with
    | zero => exact Or.inl (normalize_zero _ _ _)
    | succ f => rw [normalize_plain (Or.inl rfl)]; simp
  | arith d lo hi ht _ _ iha ihb => exact norm2 (plainTok_of_arith ht) d lo hi iha ihb
  | card d lo hi _ ih => exact norm1 rfl d lo hi ih
  | cmp d lo hi ht _ _ iha ihb => exact norm2 (plainTok_of_intCmp ht) d lo hi iha ihb
  | eq d lo hi ht _ _ iha ihb => exact norm2 (plainTok_of_eq ht) d lo hi iha ihb
  | not d lo hi _ ih => exact norm1 rfl d lo hi ih
  | conn d lo hi ht _ _ iha ihb => exact norm2 (plainTok_of_conn ht) d lo hi iha ihb
  | mem d lo hi ht _ _ _ _ iha ihb => exact norm2 (plainTok_of_mem ht) d lo hi iha ihb
  | memPow d d' lo hi lo' hi' ht _ _ iha ihb =>
    exact norm2 (plainTok_of_mem ht) d lo hi iha (norm1 rfl d' lo' hi' ihb)
  | sub d lo hi ht _ _ iha ihb => exact norm2 (plainTok_of_sub ht) d lo hi iha ihb
  | empty Γ d lo hi _ =>
    intro fuel b
    cases fuel with
    | zero => exact Or.inl (normalize_zero _ _ _)
    | succ f => rw [normalize_plain (Or.inl rfl)]; simp
  | intset Γ d lo hi =>
    intro fuel b
    cases fuel with
    | zero => exact Or.inl (normalize_zero _ _ _)
    | succ f => rw [normalize_plain (Or.inl rfl)]; simp
  | enum d lo hi ks ks' _ hlen _ ih => exact normN rfl d lo hi ks ks' hlen ih
  | tuple d lo hi ks ks' ts _ hlen hlen' _ ih =>
    refine normN rfl d lo hi ks ks' hlen' (fun q hq => ?_)
    obtain ⟨i, hi', rfl⟩ := List.getElem_of_mem hq
    have hz : (ks.zip ks').length = ks.length := by rw [List.length_zip]; omega
    have : ((ks.zip ks')[i], ts[i]'(by omega)) ∈ (ks.zip ks').zip ts := by
      rw [List.mem_iff_getElem]
      exact ⟨i, by rw [List.length_zip]; omega, by simp⟩
    exact ih _ this
  | setOp d lo hi ht _ _ iha ihb => exact norm2 (plainTok_of_setOp ht) d lo hi iha ihb
  | bool d lo hi _ ih => exact norm1 rfl d lo hi ih
  | debool d lo hi _ ih => exact norm1 rfl d lo hi ih
  | reduce d lo hi _ ih => exact norm1 rfl d lo hi ih
  | smallpr idx lo hi _ _ ih => exact norm1 rfl _ lo hi ih
  | bigpr idx lo hi _ _ ih => exact norm1 rfl _ lo hi ih
  | pow d lo hi _ _ ih => exact norm1 rfl d lo hi ih
  | decart d lo hi ks ks' ts _ hlen hlen' _ ih =>
    refine normN rfl d lo hi ks ks' hlen' (fun q hq => ?_)
    obtain ⟨i, hi', rfl⟩ := List.getElem_of_mem hq
    have hz : (ks.zip ks').length = ks.length := by rw [List.length_zip]; omega
    have : ((ks.zip ks')[i], ts[i]'(by omega)) ∈ (ks.zip ks').zip ts := by
      rw [List.mem_iff_getElem]
      exact ⟨i, by rw [List.length_zip]; omega, by simp⟩
    exact ih _ this
  | glob Γ g lo hi _ _ =>
    intro fuel b
    cases fuel with
    | zero => exact Or.inl (normalize_zero _ _ _)
    | succ f => rw [normalize_plain (Or.inr (Or.inl rfl))]; simp
  | loc Γ x lo hi _ _ _ => intro fuel b; exact normalize_local fs fuel x lo hi b
  | locPr Γ x nn k lo hi h6 _ _ => exact absurd h6 (by omega)
  | @quant rz Γ t dom body dom' body' τ d lo hi x dlo dhi _ ht _ _ _ _ _ ihd ihb =>
    intro fuel b
    cases fuel with
    | zero => exact Or.inl (normalize_zero _ _ _)
    | succ f =>
      rw [normalize_binder (bindTok_of_quant ht)]
      rcases nfold_map fs f [(.node .ID_LOCAL (.text x) dlo dhi [], .node .ID_LOCAL (.text x) dlo dhi []), (dom, dom'),
          (body, body')] [] b (fun q hq b => by
        simp at hq
        rcases hq with rfl | rfl | rfl
        · exact normalize_local fs f x dlo dhi b
        · exact ihd f b
        · exact ihb f b) with h1 | h1
      · left; simp at h1; simp [h1]
      · right; simp at h1; simp [h1]
  | @decl rz Γ dom body dom' body' τ d lo hi x dlo dhi _ _ _ _ _ _ ihd ihb =>
    intro fuel b
    cases fuel with
    | zero => exact Or.inl (normalize_zero _ _ _)
    | succ f =>
      rw [normalize_binder rfl]
      rcases nfold_map fs f [(.node .ID_LOCAL (.text x) dlo dhi [], .node .ID_LOCAL (.text x) dlo dhi []), (dom, dom'),
          (body, body')] [] b (fun q hq b => by
        simp at hq
        rcases hq with rfl | rfl | rfl
        · exact normalize_local fs f x dlo dhi b
        · exact ihd f b
        · exact ihb f b) with h1 | h1
      · left; simp at h1; simp [h1]
      · right; simp at h1; simp [h1]
  | @recShort rz Γ init body init' body' τ d lo hi x dlo dhi _ _ _ _ _ _ ihi ihb =>
    intro fuel b
    cases fuel with
    | zero => exact Or.inl (normalize_zero _ _ _)
    | succ f =>
      rw [normalize_rec (Or.inl rfl) fs f d lo hi x dlo dhi [init, body] b (Or.inl rfl)]
      rcases nfold_map fs f [(.node .ID_LOCAL (.text x) dlo dhi [], .node .ID_LOCAL (.text x) dlo dhi []), (init, init'),
          (body, body')] [] b (fun q hq b => by
        simp at hq
        rcases hq with rfl | rfl | rfl
        · exact normalize_local fs f x dlo dhi b
        · exact ihi f b
        · exact ihb f b) with h1 | h1
      · left; simp at h1; simp [h1]
      · right; simp at h1; simp [h1]
  | @recFull rz Γ init cond body init' cond' body' τ d lo hi x dlo dhi _ _ _ _ _ _ _ ihi ihc ihb =>
    intro fuel b
    cases fuel with
    | zero => exact Or.inl (normalize_zero _ _ _)
    | succ f =>
      rw [normalize_rec (Or.inr rfl) fs f d lo hi x dlo dhi [init, cond, body] b (Or.inr rfl)]
      rcases nfold_map fs f [(.node .ID_LOCAL (.text x) dlo dhi [], .node .ID_LOCAL (.text x) dlo dhi []), (init, init'),
          (cond, cond'), (body, body')] [] b (fun q hq b => by
        simp at hq
        rcases hq with rfl | rfl | rfl | rfl
        · exact normalize_local fs f x dlo dhi b
        · exact ihi f b
        · exact ihc f b
        · exact ihb f b) with h1 | h1
      · left; simp at h1; simp [h1]
      · right; simp at h1; simp [h1]
  | quantTup d lo hi pd plo phi xs nn h6 _ _ _ _ _ _ _ _ _ _ _ _ _ _ => exact absurd h6 (by omega)
  | declTup d lo hi pd plo phi xs nn h6 _ _ _ _ _ _ _ _ _ _ _ _ _ => exact absurd h6 (by omega)
  | @quantEnum rz Γ t dom body dom' body' τ d dd lo hi dlo dhi xs _ ht hlen _ _ _ _ ihd ihb =>
    intro fuel b
    match xs, hlen with
    | q :: q' :: r, _ =>
      exact normalize_enumSrc ht fs d lo hi dd dlo dhi ihd ihb (q :: q' :: r) (by simp) fuel b
  | @imp rz Γ value value' τ d lo hi bs _ hne _ hside hblk hval ihb ihv =>
    intro fuel b
    cases fuel with
    | zero => exact Or.inl (normalize_zero _ _ _)
    | succ f =>
      have hp : PlainBlocks (.node .NT_IMPERATIVE_EXPR d lo hi (value :: bs.map Blk.src)) := by
        intro k hk hid
        rcases List.mem_cons.mp hk with rfl | hk
        · exact absurd hid (by have := hval.ids.1; intro h; rcases h with h | h; exact this.1 h; exact this.2 h)
        · obtain ⟨b0, hb0, rfl⟩ := List.mem_map.mp hk
          obtain ⟨pre, post, rfl⟩ := List.append_of_mem hb0
          have hs := hside pre b0 post rfl
          cases b0 with
          | iter x dom dom' σ' d' lo' hi' dlo dhi => exact ⟨_, _, rfl, by simp [Ast.id]⟩
          | asg x ex' ex'' σ' d' lo' hi' dlo dhi => exact ⟨_, _, rfl, by simp [Ast.id]⟩
          | guard g g' => exact absurd hid (by intro h; rcases h with h | h; exact hs.1 h; exact hs.2.1 h)
      rw [normalize_imp fs f d lo hi _ b hp]
      -- every block normalises to its normal form
      have hb : ∀ b0 ∈ bs, ∀ b, normalize fs f b0.src b = none ∨ normalize fs f b0.src b = some (b0.core, b) := by
        intro b0 hb0 b
        obtain ⟨pre, post, rfl⟩ := List.append_of_mem hb0
        have ih0 := ihb pre b0 post rfl
        cases b0 with
        | iter x dom dom' σ' d' lo' hi' dlo dhi =>
          cases f with
          | zero => exact Or.inl (normalize_zero _ _ _)
          | succ g =>
            simp only [Blk.src, Blk.core]
            rw [normalize_blk (Or.inl rfl)]
            rcases nfold_map fs g [(.node .ID_LOCAL (.text x) dlo dhi [], .node .ID_LOCAL (.text x) dlo dhi []),
                (dom, dom')] [] b (fun q hq b => by
              simp at hq
              rcases hq with rfl | rfl
              · exact normalize_local fs g x dlo dhi b
              · exact ih0 g b) with h1 | h1
            · left; simp at h1; simp [h1]
            · right; simp at h1; simp [h1]
        | asg x ex' ex'' σ' d' lo' hi' dlo dhi =>
          cases f with
          | zero => exact Or.inl (normalize_zero _ _ _)
          | succ g =>
            simp only [Blk.src, Blk.core]
            rw [normalize_blk (Or.inr rfl)]
            rcases nfold_map fs g [(.node .ID_LOCAL (.text x) dlo dhi [], .node .ID_LOCAL (.text x) dlo dhi []),
                (ex', ex'')] [] b (fun q hq b => by
              simp at hq
              rcases hq with rfl | rfl
              · exact normalize_local fs g x dlo dhi b
              · exact ih0 g b) with h1 | h1
            · left; simp at h1; simp [h1]
            · right; simp at h1; simp [h1]
        | guard g g' => exact ih0 f b
      have hk1 : ((value, value') :: bs.map (fun b0 => (b0.src, b0.core))).map (·.1) = value :: bs.map Blk.src := by
        simp [List.map_map]
      have hk2 : ((value, value') :: bs.map (fun b0 => (b0.src, b0.core))).map (·.2) = value' :: bs.map Blk.core := by
        simp [List.map_map]
      rcases nfold_map fs f ((value, value') :: bs.map (fun b0 => (b0.src, b0.core))) [] b (fun q hq b => by
        rcases List.mem_cons.mp hq with rfl | hq
        · exact ihv f b
        · obtain ⟨b0, hb0, rfl⟩ := List.mem_map.mp hq
          exact hb b0 hb0 b) with h1 | h1
      · left; rw [hk1] at h1; simp [h1]
      · right; rw [hk1, hk2] at h1; simp [h1]

/-- what `Interpreter::Evaluate` may answer on a closed fragment expression of type `τ` -/
def TopGood (env : Env) (fuel : Nat) (e : Ast) : ExprTy → EvalRes → Prop
  | .ty ty, r => ∃ v, r = .ok v ∧ WF v ty ∧ noAny ty = true ∧
      ∀ f', fuel ≤ f' → denote (senvOf env) f' .nil e = some (.val v)
  | .logic, r => ∃ b, r = .okBool b ∧ ∀ f', fuel ≤ f' → denote (senvOf env) f' .nil e = some (.bool b)

theorem FragR.normalizesTree {G : TCtx} {lvl : Nat} {a a' : Ast} {τ : ExprTy} (h : FragR env G lvl [] [] a a' τ) (hl5 : lvl ≤ 5)
    (fuel : Nat) :
    normalizeTree env.funcs fuel a = none ∨ normalizeTree env.funcs fuel a = some a' := by
  unfold Norm.normalizeTree
  rcases h.normalizes hl5 env.funcs fuel { userLocals := collectLocals a } with h1 | h1 <;> simp [h1]

/-- **evaluation of a closed fragment expression** (`e` as parsed, `n` its normal form): the reference value
of `e` (well-formed at the type; at the evaluator's fuel and at every larger one), or the model's `outOfFuel`,
or a documented error - never `stuck`, never `unknownError` -/
theorem evaluate_frag_of_norm {G : TCtx} {lvl : Nat} (hG : GlobalsOK env G) {e n : Ast} {τ : ExprTy}
    (h : FragR env G lvl [] [] e n τ) (fuel : Nat)
    (hnorm : normalizeTree env.funcs fuel e = none ∨ normalizeTree env.funcs fuel e = some n) :
    TopGood env fuel e τ (evaluate fuel env e).1 ∨ (evaluate fuel env e).1 = .outOfFuel ∨
    ∃ eid pos, (evaluate fuel env e).1 = .err eid pos ∧ DocErr eid := by
  have hs := h.shape_closed
  unfold evaluate
  rcases hnorm with hn | hn
  · right; left; simp [hn]
  · simp only [hn]
    unfold evalNorm
    rcases collect_shape hs fuel {} (NCInv.empty env) with hc | ⟨pos, hc⟩ | ⟨vars, al, nc, hc, hi, _, hcov⟩
    · right; left; simp [hc]
    · right; right; exact ⟨_, pos, by simp [hc], Or.inr (Or.inr (Or.inl rfl))⟩
    · simp only [hc]
      have hinv : Inv env { ids := nc.ids } [] [] .nil { data := nc.data, iters := 0 } :=
        ⟨hi.range, hi.inj, hi.glob, by intro x σ hx; simp [lookup] at hx, by intro x r hx; simp [lookup] at hx⟩
      have hsim := sim hG { ids := nc.ids } h fuel none { data := nc.data, iters := 0 } .nil hinv hcov
      cases τ with
      | ty ty =>
        rcases hsim with ⟨v, st', hr, _, hw, hn', hd⟩ | ⟨fl, k, hr, hf⟩
        · left; exact ⟨v, by simp [hr], hw, hn', hd⟩
        · rcases hf with rfl | ⟨eid, pos, rfl, hdoc⟩
          · right; left; simp [hr]
          · right; right; exact ⟨eid, pos, by simp [hr], hdoc⟩
      | logic =>
        rcases hsim with ⟨b, st', hr, _, hd⟩ | ⟨fl, k, hr, hf⟩
        · left; exact ⟨b, by simp [hr], hd⟩
        · rcases hf with rfl | ⟨eid, pos, rfl, hdoc⟩
          · right; left; simp [hr]
          · right; right; exact ⟨eid, pos, by simp [hr], hdoc⟩

theorem evaluate_frag {G : TCtx} {lvl : Nat} (hG : GlobalsOK env G) {e n : Ast} {τ : ExprTy}
    (h : FragR env G lvl [] [] e n τ) (hl5 : lvl ≤ 5) (fuel : Nat) :
    TopGood env fuel e τ (evaluate fuel env e).1 ∨ (evaluate fuel env e).1 = .outOfFuel ∨
    ∃ eid pos, (evaluate fuel env e).1 = .err eid pos ∧ DocErr eid :=
  evaluate_frag_of_norm hG h fuel (h.normalizesTree hl5 fuel)

/-! ## derived rules for expressions that are their own normal form -/

theorem mem_zip_self {α} : ∀ {ks : List α} {q : α × α}, q ∈ ks.zip ks → q.1 = q.2 ∧ q.1 ∈ ks
  | [], _, h => by simp at h
  | k :: ks, q, h => by
    simp only [List.zip_cons_cons, List.mem_cons] at h
    rcases h with rfl | h
    · simp
    · have := mem_zip_self h; exact ⟨this.1, by simp [this.2]⟩

theorem mem_zip3_self {α β} : ∀ {ks : List α} {ts : List β} {q : (α × α) × β}, q ∈ (ks.zip ks).zip ts →
    q.1.1 = q.1.2 ∧ (q.1.1, q.2) ∈ ks.zip ts
  | [], _, _, h => by simp at h
  | _ :: _, [], _, h => by simp at h
  | k :: ks, t0 :: ts, q, h => by
    simp only [List.zip_cons_cons, List.mem_cons] at h
    rcases h with rfl | h
    · simp
    · have := mem_zip3_self h; exact ⟨this.1, by simp [this.2]⟩

theorem Frag.enum {G : TCtx} {lvl : Nat} {Γ : TCtx} {τ : Ty} (d : TokData) (lo hi : Int) (ks : List Ast) (hne : ks ≠ [])
    (h : ∀ k ∈ ks, Frag env G lvl Γ k (.ty τ)) : Frag env G lvl Γ (.node .NT_ENUMERATION d lo hi ks) (.ty (.coll τ)) :=
  FragR.enum d lo hi ks ks hne rfl (fun q hq => by
    obtain ⟨e, hm⟩ := mem_zip_self hq
    obtain ⟨a, b⟩ := q
    simp only at e; subst e
    exact h a hm)

theorem Frag.tuple {G : TCtx} {lvl : Nat} {Γ : TCtx} (d : TokData) (lo hi : Int) (ks : List Ast) (ts : List Ty)
    (h2 : ks.length ≥ 2) (hlen : ks.length = ts.length) (h : ∀ q ∈ ks.zip ts, Frag env G lvl Γ q.1 (.ty q.2)) :
    Frag env G lvl Γ (.node .NT_TUPLE d lo hi ks) (.ty (.tuple ts)) :=
  FragR.tuple d lo hi ks ks ts h2 hlen rfl (fun q hq => by
    obtain ⟨e, hm⟩ := mem_zip3_self hq
    obtain ⟨⟨a, b⟩, t0⟩ := q
    simp only at e; subst e
    exact h (a, t0) hm)

theorem Frag.decart {G : TCtx} {lvl : Nat} {Γ : TCtx} (d : TokData) (lo hi : Int) (ks : List Ast) (ts : List Ty)
    (h2 : ks.length ≥ 2) (hlen : ks.length = ts.length) (h : ∀ q ∈ ks.zip ts, Frag env G lvl Γ q.1 (.ty (.coll q.2))) :
    Frag env G lvl Γ (.node .DECART d lo hi ks) (.ty (.coll (.tuple ts))) :=
  FragR.decart d lo hi ks ks ts h2 hlen rfl (fun q hq => by
    obtain ⟨e, hm⟩ := mem_zip3_self hq
    obtain ⟨⟨a, b⟩, t0⟩ := q
    simp only at e; subst e
    exact h (a, t0) hm)

theorem Frag.mem {G : TCtx} {lvl : Nat} {Γ : TCtx} {t : Tok} {a b : Ast} {τ : Ty} (d : TokData) (lo hi : Int)
    (ht : isMemTok t) (hb : b.id ≠ .BOOLEAN) (ha : Frag env G lvl Γ a (.ty τ)) (hb' : Frag env G lvl Γ b (.ty (.coll τ))) :
    Frag env G lvl Γ (.node t d lo hi [a, b]) .logic :=
  FragR.mem d lo hi ht hb hb ha hb'

/-- premises of `FragR.imp`, block by block -/
theorem split_nil {P : List Blk → Blk → Prop} : ∀ pre b post, ([] : List Blk) = pre ++ b :: post → P pre b := by
  intro pre b post h; simp at h

theorem split_cons {P : List Blk → Blk → Prop} {b0 : Blk} {rest : List Blk} (h0 : P [] b0)
    (hr : ∀ pre b post, rest = pre ++ b :: post → P (b0 :: pre) b) :
    ∀ pre b post, b0 :: rest = pre ++ b :: post → P pre b := by
  intro pre b post h
  cases pre with
  | nil => simp at h; obtain ⟨rfl, _⟩ := h; exact h0
  | cons p pre => simp at h; obtain ⟨rfl, h⟩ := h; exact hr pre b post h

/-! ## discharging the size guard of `ℬ` -/

theorem insert_length_le (x : Val) : ∀ l : List Val, (Val.insert x l).length ≤ l.length + 1
  | [] => by simp [Val.insert]
  | y :: l => by
    simp only [Val.insert]
    split
    · simp
    · split
      · have := insert_length_le x l; simp; omega
      · simp

theorem insertAll_length_le : ∀ (xs acc : List Val), (insertAll acc xs).length ≤ acc.length + xs.length
  | [], acc => by simp [insertAll]
  | x :: xs, acc => by
    have h1 := insertAll_length_le xs (Val.insert x acc)
    have h2 := insert_length_le x acc
    have : insertAll acc (x :: xs) = insertAll (Val.insert x acc) xs := by simp [insertAll]
    rw [this]; simp; omega

theorem mapM_option_length {α β} (f : α → Option β) : ∀ (ks : List α) (vs : List β), ks.mapM f = some vs →
    vs.length = ks.length
  | [], vs, h => by simp at h; subst h; rfl
  | k :: ks, vs, h => by
    simp only [List.mapM_cons, Option.pure_def, Option.bind_eq_bind] at h
    cases h1 : f k with
    | none => simp [h1] at h
    | some v =>
      cases h2 : List.mapM f ks with
      | none => simp [h1, h2] at h
      | some vs' =>
        simp [h1, h2] at h
        subst h
        simp [mapM_option_length f ks vs' h2]

/-- an enumeration `{e₁,…,eₙ}` denotes a set of at most `n` members -/
theorem denote_enum_length (senv : SEnv) (fuel : Nat) (ρ : LEnv) (d : TokData) (lo hi : Int) (ks : List Ast)
    (xs : List Val) (h : denote senv fuel ρ (.node .NT_ENUMERATION d lo hi ks) = some (.val (.s xs))) :
    xs.length ≤ ks.length := by
  cases fuel with
  | zero => simp [denote] at h
  | succ f =>
    rw [denote_enum] at h
    cases hm : List.mapM (fun k => dVal (denote senv f ρ k)) ks with
    | none => simp [hm] at h
    | some vs =>
      simp [hm, setOf, mkSet] at h
      subst h
      have h1 := insertAll_length_le vs []
      have h2 : vs.length = ks.length := mapM_option_length _ ks vs hm
      unfold mkSetList
      simp at h1; omega

end CCVerif.Eval
