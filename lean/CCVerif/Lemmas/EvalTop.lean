import CCVerif.Lemmas.EvalSim
/-! `Interpreter::Evaluate` (normalise, collect names, interpret) on the fragments: assembly of
`normalize_shape`, `collect_shape` and `sim`. -/
namespace CCVerif.Eval
open CCVerif.Syntax CCVerif.Spec CCVerif.Norm
open Val Ty

variable {env : Env}

theorem plainTok_of_arith {t : Tok} (h : isArith t) : plainTok t = true := by rcases h with rfl | rfl | rfl <;> rfl
theorem plainTok_of_intCmp {t : Tok} (h : isIntCmp t) : plainTok t = true := by
  rcases h with rfl | rfl | rfl | rfl <;> rfl
theorem plainTok_of_eq {t : Tok} (h : isEq t) : plainTok t = true := by rcases h with rfl | rfl <;> rfl
theorem plainTok_of_conn {t : Tok} (h : isConn t) : plainTok t = true := by rcases h with rfl | rfl | rfl | rfl <;> rfl
theorem plainTok_of_mem {t : Tok} (h : isMemTok t) : plainTok t = true := by rcases h with rfl | rfl <;> rfl
theorem plainTok_of_sub {t : Tok} (h : isSubTok t) : plainTok t = true := by rcases h with rfl | rfl | rfl <;> rfl
theorem plainTok_of_setOp {t : Tok} (h : isSetOp t) : plainTok t = true := by
  rcases h with rfl | rfl | rfl | rfl <;> rfl
theorem bindTok_of_quant {t : Tok} (h : isQuant t) : bindTok t = true := by rcases h with rfl | rfl <;> rfl

private theorem shape1 {t : Tok} {d : TokData} {lo hi : Int} {a : Ast} (ht : plainTok t = true) (ha : Shape env a) :
    Shape env (.node t d lo hi [a]) :=
  .plain d lo hi [a] ht (by intro k hk; simp at hk; subst hk; exact ha)

private theorem shape2 {t : Tok} {d : TokData} {lo hi : Int} {a b : Ast} (ht : plainTok t = true) (ha : Shape env a)
    (hb : Shape env b) : Shape env (.node t d lo hi [a, b]) :=
  .plain d lo hi [a, b] ht (by intro k hk; simp at hk; rcases hk with rfl | rfl; exact ha; exact hb)

/-- the trees of the fragments have the shape on which the first two passes are understood -/
theorem Frag.shape {G : TCtx} {lvl : Nat} {Γ : TCtx} {a : Ast} {τ : ExprTy} (h : Frag env G lvl Γ a τ) :
    (∀ x σ, lookup x Γ = some σ → lookup x env.globals = none) → Shape env a := by
  induction h with
  | lit Γ n lo hi => intro _; exact .plain _ lo hi [] rfl (by simp)
  | arith d lo hi ht _ _ iha ihb => intro hΓ; exact shape2 (plainTok_of_arith ht) (iha hΓ) (ihb hΓ)
  | card d lo hi _ ih => intro hΓ; exact shape1 rfl (ih hΓ)
  | cmp d lo hi ht _ _ iha ihb => intro hΓ; exact shape2 (plainTok_of_intCmp ht) (iha hΓ) (ihb hΓ)
  | eq d lo hi ht _ _ iha ihb => intro hΓ; exact shape2 (plainTok_of_eq ht) (iha hΓ) (ihb hΓ)
  | not d lo hi _ ih => intro hΓ; exact shape1 rfl (ih hΓ)
  | conn d lo hi ht _ _ iha ihb => intro hΓ; exact shape2 (plainTok_of_conn ht) (iha hΓ) (ihb hΓ)
  | mem d lo hi ht _ _ _ iha ihb => intro hΓ; exact shape2 (plainTok_of_mem ht) (iha hΓ) (ihb hΓ)
  | memPow d d' lo hi lo' hi' ht _ _ iha ihb =>
    intro hΓ; exact shape2 (plainTok_of_mem ht) (iha hΓ) (shape1 rfl (ihb hΓ))
  | sub d lo hi ht _ _ iha ihb => intro hΓ; exact shape2 (plainTok_of_sub ht) (iha hΓ) (ihb hΓ)
  | empty Γ d lo hi _ => intro _; exact .plain d lo hi [] rfl (by simp)
  | intset Γ d lo hi => intro _; exact .plain d lo hi [] rfl (by simp)
  | enum d lo hi ks _ _ ih => intro hΓ; exact .plain d lo hi ks rfl (fun k hk => ih k hk hΓ)
  | tuple d lo hi ks ts _ hlen _ ih =>
    intro hΓ
    refine .plain d lo hi ks rfl (fun k hk => ?_)
    obtain ⟨i, hi', rfl⟩ := List.getElem_of_mem hk
    have : (ks[i], ts[i]'(by omega)) ∈ ks.zip ts := by
      rw [List.mem_iff_getElem]
      exact ⟨i, by simp; omega, by simp⟩
    exact ih _ this hΓ
  | setOp d lo hi ht _ _ iha ihb => intro hΓ; exact shape2 (plainTok_of_setOp ht) (iha hΓ) (ihb hΓ)
  | bool d lo hi _ ih => intro hΓ; exact shape1 rfl (ih hΓ)
  | debool d lo hi _ ih => intro hΓ; exact shape1 rfl (ih hΓ)
  | reduce d lo hi _ ih => intro hΓ; exact shape1 rfl (ih hΓ)
  | smallpr idx lo hi _ _ ih => intro hΓ; exact shape1 rfl (ih hΓ)
  | bigpr idx lo hi _ _ ih => intro hΓ; exact shape1 rfl (ih hΓ)
  | pow d lo hi _ _ ih => intro hΓ; exact shape1 rfl (ih hΓ)
  | decart d lo hi ks ts _ hlen _ ih =>
    intro hΓ
    refine .plain d lo hi ks rfl (fun k hk => ?_)
    obtain ⟨i, hi', rfl⟩ := List.getElem_of_mem hk
    have : (ks[i], ts[i]'(by omega)) ∈ ks.zip ts := by
      rw [List.mem_iff_getElem]
      exact ⟨i, by simp; omega, by simp⟩
    exact ih _ this hΓ
  | glob Γ g lo hi _ _ => intro _; exact .glob g lo hi
  | loc Γ x lo hi _ hx => intro hΓ; exact .loc x lo hi (hΓ x _ hx)
  | @quant Γ t dom body τ d lo hi x dlo dhi _ ht _ hxg _ _ ihd ihb =>
    intro hΓ
    refine .binder d lo hi x dlo dhi (bindTok_of_quant ht) hxg (ihd hΓ) (ihb ?_)
    intro y σ hy
    by_cases e : y = x
    · subst e; exact hxg
    · rw [lookup_cons_ne _ _ e] at hy; exact hΓ y σ hy
  | @decl Γ dom body τ d lo hi x dlo dhi _ _ hxg _ _ ihd ihb =>
    intro hΓ
    refine .binder d lo hi x dlo dhi rfl hxg (ihd hΓ) (ihb ?_)
    intro y σ hy
    by_cases e : y = x
    · subst e; exact hxg
    · rw [lookup_cons_ne _ _ e] at hy; exact hΓ y σ hy

theorem Frag.shape_closed {G : TCtx} {lvl : Nat} {a : Ast} {τ : ExprTy} (h : Frag env G lvl [] a τ) : Shape env a :=
  h.shape (by intro x σ hx; simp [lookup] at hx)

/-- the level only restricts which constructs may occur -/
theorem Frag.mono {G : TCtx} {l1 l2 : Nat} (hl : l1 ≤ l2) {Γ : TCtx} {a : Ast} {τ : ExprTy}
    (h : Frag env G l1 Γ a τ) : Frag env G l2 Γ a τ := by
  induction h with
  | lit Γ n lo hi => exact .lit Γ n lo hi
  | arith d lo hi ht _ _ iha ihb => exact .arith d lo hi ht iha ihb
  | card d lo hi _ ih => exact .card d lo hi ih
  | cmp d lo hi ht _ _ iha ihb => exact .cmp d lo hi ht iha ihb
  | eq d lo hi ht _ _ iha ihb => exact .eq d lo hi ht iha ihb
  | not d lo hi _ ih => exact .not d lo hi ih
  | conn d lo hi ht _ _ iha ihb => exact .conn d lo hi ht iha ihb
  | mem d lo hi ht hb _ _ iha ihb => exact .mem d lo hi ht hb iha ihb
  | memPow d d' lo hi lo' hi' ht _ _ iha ihb => exact .memPow d d' lo hi lo' hi' ht iha ihb
  | sub d lo hi ht _ _ iha ihb => exact .sub d lo hi ht iha ihb
  | empty Γ d lo hi hn => exact .empty Γ d lo hi hn
  | intset Γ d lo hi => exact .intset Γ d lo hi
  | enum d lo hi ks hne _ ih => exact .enum d lo hi ks hne ih
  | tuple d lo hi ks ts h2 hlen _ ih => exact .tuple d lo hi ks ts h2 hlen ih
  | setOp d lo hi ht _ _ iha ihb => exact .setOp d lo hi ht iha ihb
  | bool d lo hi _ ih => exact .bool d lo hi ih
  | debool d lo hi _ ih => exact .debool d lo hi ih
  | reduce d lo hi _ ih => exact .reduce d lo hi ih
  | smallpr idx lo hi _ hp ih => exact .smallpr idx lo hi ih hp
  | bigpr idx lo hi _ hp ih => exact .bigpr idx lo hi ih hp
  | pow d lo hi _ hs ih => exact .pow d lo hi ih hs
  | decart d lo hi ks ts h2 hlen _ ih => exact .decart d lo hi ks ts h2 hlen ih
  | glob Γ g lo hi h2 hg => exact .glob Γ g lo hi (by omega) hg
  | loc Γ x lo hi h3 hx => exact .loc Γ x lo hi (by omega) hx
  | quant d lo hi x dlo dhi h3 ht hx hxg _ _ ihd ihb => exact .quant d lo hi x dlo dhi (by omega) ht hx hxg ihd ihb
  | decl d lo hi x dlo dhi h3 hx hxg _ _ ihd ihb => exact .decl d lo hi x dlo dhi (by omega) hx hxg ihd ihb

/-- what `Interpreter::Evaluate` may answer on a closed fragment expression of type `τ` -/
def TopGood (env : Env) (fuel : Nat) (e : Ast) : ExprTy → EvalRes → Prop
  | .ty ty, r => ∃ v, r = .ok v ∧ WF v ty ∧ noAny ty = true ∧ denote (senvOf env) fuel .nil e = some (.val v)
  | .logic, r => ∃ b, r = .okBool b ∧ denote (senvOf env) fuel .nil e = some (.bool b)

theorem normalizeTree_shape {a : Ast} (h : Shape env a) (fuel : Nat) :
    normalizeTree env.funcs fuel a = none ∨ normalizeTree env.funcs fuel a = some a := by
  unfold normalizeTree
  rcases normalize_shape env.funcs h fuel { userLocals := collectLocals a } with h1 | h1 <;> simp [h1]

/-- **evaluation of a closed fragment expression**: the reference value (well-formed at the type), or
the model's `outOfFuel`, or a documented error - never `stuck`, never `unknownError` -/
theorem evaluate_frag {G : TCtx} {lvl : Nat} (hG : GlobalsOK env G) {e : Ast} {τ : ExprTy}
    (h : Frag env G lvl [] e τ) (fuel : Nat) :
    TopGood env fuel e τ (evaluate fuel env e).1 ∨ (evaluate fuel env e).1 = .outOfFuel ∨
    ∃ eid pos, (evaluate fuel env e).1 = .err eid pos ∧ DocErr eid := by
  have hs := h.shape_closed
  unfold evaluate
  rcases normalizeTree_shape hs fuel with hn | hn
  · right; left; simp [hn]
  · simp only [hn]
    unfold evalNorm
    rcases collect_shape hs fuel {} (NCInv.empty env) with hc | ⟨pos, hc⟩ | ⟨vars, al, nc, hc, hi, _, hcov⟩
    · right; left; simp [hc]
    · right; right; exact ⟨_, pos, by simp [hc], Or.inr (Or.inr (Or.inl rfl))⟩
    · simp only [hc]
      have hinv : Inv env { ids := nc.ids } [] .nil { data := nc.data, iters := 0 } :=
        ⟨hi.range, hi.inj, hi.glob, by intro x σ hx; simp [lookup] at hx⟩
      have hsim := sim hG { ids := nc.ids } h fuel none { data := nc.data, iters := 0 } .nil hinv hcov
      cases τ with
      | ty ty =>
        rcases hsim with ⟨v, st', hr, _, hw, hn', hd⟩ | ⟨fl, k, hr, hf⟩
        · left; exact ⟨v, by simp [hr], hw, hn', hd⟩
        · rcases hf with rfl | ⟨eid, pos, rfl, hdoc⟩
          · right; left; simp [hr]
          · right; right; exact ⟨eid, pos, by simp [hr], hdoc⟩
      | logic =>
        rcases hsim with ⟨b, st', hr, _, hd⟩ | ⟨fl, k, hr, hf⟩
        · left; exact ⟨b, by simp [hr], hd⟩
        · rcases hf with rfl | ⟨eid, pos, rfl, hdoc⟩
          · right; left; simp [hr]
          · right; right; exact ⟨eid, pos, by simp [hr], hdoc⟩

/-! ## discharging the size guard of `ℬ` -/

theorem insert_length_le (x : Val) : ∀ l : List Val, (Val.insert x l).length ≤ l.length + 1
  | [] => by simp [Val.insert]
  | y :: l => by
    simp only [Val.insert]
    split
    · simp
    · split
      · have := insert_length_le x l; simp; omega
      · simp

theorem insertAll_length_le : ∀ (xs acc : List Val), (insertAll acc xs).length ≤ acc.length + xs.length
  | [], acc => by simp [insertAll]
  | x :: xs, acc => by
    have h1 := insertAll_length_le xs (Val.insert x acc)
    have h2 := insert_length_le x acc
    have : insertAll acc (x :: xs) = insertAll (Val.insert x acc) xs := by simp [insertAll]
    rw [this]; simp; omega

theorem mapM_option_length {α β} (f : α → Option β) : ∀ (ks : List α) (vs : List β), ks.mapM f = some vs →
    vs.length = ks.length
  | [], vs, h => by simp at h; subst h; rfl
  | k :: ks, vs, h => by
    simp only [List.mapM_cons, Option.pure_def, Option.bind_eq_bind] at h
    cases h1 : f k with
    | none => simp [h1] at h
    | some v =>
      cases h2 : List.mapM f ks with
      | none => simp [h1, h2] at h
      | some vs' =>
        simp [h1, h2] at h
        subst h
        simp [mapM_option_length f ks vs' h2]

/-- an enumeration `{e₁,…,eₙ}` denotes a set of at most `n` members -/
theorem denote_enum_length (senv : SEnv) (fuel : Nat) (ρ : LEnv) (d : TokData) (lo hi : Int) (ks : List Ast)
    (xs : List Val) (h : denote senv fuel ρ (.node .NT_ENUMERATION d lo hi ks) = some (.val (.s xs))) :
    xs.length ≤ ks.length := by
  cases fuel with
  | zero => simp [denote] at h
  | succ f =>
    rw [denote_enum] at h
    cases hm : List.mapM (fun k => dVal (denote senv f ρ k)) ks with
    | none => simp [hm] at h
    | some vs =>
      simp [hm, setOf, mkSet] at h
      subst h
      have h1 := insertAll_length_le vs []
      have h2 : vs.length = ks.length := mapM_option_length _ ks vs hm
      unfold mkSetList
      simp at h1; omega

end CCVerif.Eval
