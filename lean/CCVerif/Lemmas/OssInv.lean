import CCVerif.Model.Oss
import CCVerif.Lemmas.Oss
import CCVerif.Lemmas.OssRel
/-!
C19, freshness: the invariant that ties source handles to documents (`HInv`) and its preservation
by the re-entrant reaction chain.

* an attached source exists, is open, and the handle's core hash is the content the document
  announced last;
* a detached handle (descriptor only) names a closed document, same hash clause;
* no two pictograms stand for the same document; names are below the name counter;
* an open saved document has announced its content.

`ex = some p` exempts pictogram `p` from the hash clause: the state between the announcement of a
document and `UpdateHashes` of the pictogram it is attached to.
-/
namespace CCVerif.Oss

structure HInv (s : Struct) (ex : Option Pid) (d : Dyn) : Prop where
  jd : ∀ n x, d.source n = some x → x.opened = true → x.saved = true → x.announced = x.content
  conn : ∀ q ∈ s.storage, some q ≠ ex → ∀ n, (d.handle q).src = some n →
    ∃ x, d.source n = some x ∧ x.opened = true ∧ (d.handle q).coreHash = x.announced
  detached : ∀ q ∈ s.storage, some q ≠ ex → (d.handle q).src = none → ∀ n, (d.handle q).desc = some n →
    ∀ x, d.source n = some x → x.opened = false ∧ (d.handle q).coreHash = x.announced
  uniq : ∀ q ∈ s.storage, ∀ q' ∈ s.storage, ∀ n, (d.handle q).ed = some n → (d.handle q').ed = some n → q = q'
  namesH : ∀ q ∈ s.storage, ∀ n, (d.handle q).ed = some n → n ≤ d.nextName
  namesS : ∀ n x, d.source n = some x → n ≤ d.nextName

/-- the pictogram about to be synchronised is attached to an open document that has announced its
content -/
def PreSync (d : Dyn) (p : Pid) : Prop :=
  ∀ n, (d.handle p).src = some n → ∃ x, d.source n = some x ∧ x.opened = true ∧ x.announced = x.content

theorem HInv.congr {s : Struct} {ex : Option Pid} {d d' : Dyn} (h : HInv s ex d)
    (hh : ∀ q, d'.handle q = d.handle q) (hs : ∀ n, d'.source n = d.source n) (hn : d'.nextName = d.nextName) :
    HInv s ex d' := by
  refine ⟨?_, ?_, ?_, ?_, ?_, ?_⟩
  · intro n x; rw [hs]; exact h.jd n x
  · intro q hq he n; rw [hh, hs]; exact h.conn q hq he n
  · intro q hq he; rw [hh]; intro h1 n h2 x; rw [hs]; exact h.detached q hq he h1 n h2 x
  · intro q hq q' hq' n; rw [hh, hh]; exact h.uniq q hq q' hq' n
  · intro q hq n; rw [hh, hn]; exact h.namesH q hq n
  · intro n x; rw [hs, hn]; exact h.namesS n x

theorem HInv.weaken {s : Struct} {ex : Option Pid} {d : Dyn} (h : HInv s none d) : HInv s ex d :=
  ⟨h.jd, fun q hq _ n => h.conn q hq (by simp) n, fun q hq _ => h.detached q hq (by simp), h.uniq, h.namesH, h.namesS⟩

theorem HInv.unexempt {s : Struct} {p : Pid} {d : Dyn} (h : HInv s (some p) d)
    (hp : p ∈ s.storage → ∀ n, (d.handle p).src = some n →
      ∃ x, d.source n = some x ∧ x.opened = true ∧ (d.handle p).coreHash = x.announced)
    (hpd : p ∈ s.storage → (d.handle p).src = none → ∀ n, (d.handle p).desc = some n →
      ∀ x, d.source n = some x → x.opened = false ∧ (d.handle p).coreHash = x.announced) : HInv s none d := by
  refine ⟨h.jd, ?_, ?_, h.uniq, h.namesH, h.namesS⟩
  · intro q hq _ n hn
    by_cases e : q = p
    · subst e; exact hp hq n hn
    · exact h.conn q hq (by simpa using e) n hn
  · intro q hq _ h1 n h2 x hx
    by_cases e : q = p
    · subst e; exact hpd hq h1 n h2 x hx
    · exact h.detached q hq (by simpa using e) h1 n h2 x hx

theorem HInv.stuck {s : Struct} {ex : Option Pid} {d : Dyn} (h : HInv s ex d) (w : String) : HInv s ex (d.stuck w) :=
  h.congr (fun _ => rfl) (fun _ => rfl) rfl

theorem HInv.setOp {s : Struct} {ex : Option Pid} {d : Dyn} (h : HInv s ex d) (p : Pid) (x : OpHandle) :
    HInv s ex (d.setOp p x) :=
  h.congr (fun _ => rfl) (fun _ => rfl) rfl

/-- two stored pictograms attached to the same document are one -/
theorem HInv.src_unique {s : Struct} {ex : Option Pid} {d : Dyn} (h : HInv s ex d) {q q' : Pid} {n : SrcName}
    (hq : q ∈ s.storage) (hq' : q' ∈ s.storage) (e : (d.handle q).src = some n) (e' : (d.handle q').src = some n) :
    q = q' :=
  h.uniq q hq q' hq' n (Handle.ed_of_src e) (Handle.ed_of_src e')

/-- a handle update that keeps every effective name -/
theorem HInv.of_handles {s : Struct} {ex ex' : Option Pid} {d d' : Dyn} (h : HInv s ex d)
    (hs : ∀ n, d'.source n = d.source n) (hn : d'.nextName = d.nextName)
    (hed : ∀ q, (d'.handle q).ed = (d.handle q).ed)
    (hconn : ∀ q ∈ s.storage, some q ≠ ex' → ∀ n, (d'.handle q).src = some n →
      ∃ x, d.source n = some x ∧ x.opened = true ∧ (d'.handle q).coreHash = x.announced)
    (hdet : ∀ q ∈ s.storage, some q ≠ ex' → (d'.handle q).src = none → ∀ n, (d'.handle q).desc = some n →
      ∀ x, d.source n = some x → x.opened = false ∧ (d'.handle q).coreHash = x.announced) : HInv s ex' d' := by
  refine ⟨?_, ?_, ?_, ?_, ?_, ?_⟩
  · intro n x; rw [hs]; exact h.jd n x
  · intro q hq he n; rw [hs]; exact hconn q hq he n
  · intro q hq he h1 n h2 x; rw [hs]; exact hdet q hq he h1 n h2 x
  · intro q hq q' hq' n; rw [hed, hed]; exact h.uniq q hq q' hq' n
  · intro q hq n; rw [hed, hn]; exact h.namesH q hq n
  · intro n x; rw [hs, hn]; exact h.namesS n x

/-! ## the primitive steps of the chain -/

/-- `TriggerSave`: the document announces its content; every pictogram that is not exempt is
attached to another document -/
theorem HInv.annStep {s : Struct} {ex : Option Pid} {d : Dyn} (h : HInv s ex d) {n : SrcName} {x : Source}
    (hx : d.source n = some x) (hopen : x.opened = true)
    (hother : ∀ q ∈ s.storage, some q ≠ ex → (d.handle q).src ≠ some n) :
    HInv s ex (d.setSource (annSource x)) := by
  have hsrc : ∀ m, (d.setSource (annSource x)).source m = if m = n then some (annSource x) else d.source m :=
    fun m => Dyn.source_setSource_of (y := annSource x) hx rfl m
  refine ⟨?_, ?_, ?_, ?_, ?_, ?_⟩
  · intro m y hy ho hsv
    rw [hsrc] at hy
    split at hy
    · injection hy with hy; subst hy; rfl
    · exact h.jd m y hy ho hsv
  · intro q hq he m hm
    have hm' : (d.handle q).src = some m := hm
    have hmn : m ≠ n := fun e => hother q hq he (e ▸ hm')
    rw [hsrc, if_neg hmn]
    exact h.conn q hq he m hm'
  · intro q hq he h1 m h2 y hy
    rw [hsrc] at hy
    split at hy
    · rename_i e; subst e
      have := (h.detached q hq he h1 m h2 x hx).1
      rw [hopen] at this; cases this
    · exact h.detached q hq he h1 m h2 y hy
  · exact h.uniq
  · exact h.namesH
  · intro m y hy
    rw [hsrc] at hy
    split at hy
    · rename_i e; subst e; exact h.namesS m x hx
    · exact h.namesS m y hy

/-- after the announcement the attached pictogram is ready to be synchronised -/
theorem preSync_annStep {d : Dyn} {n : SrcName} {x : Source} (hx : d.source n = some x) (hopen : x.opened = true)
    {p : Pid} (hp : (d.handle p).src = some n) : PreSync (d.setSource (annSource x)) p := by
  intro m hm
  have hm' : (d.handle p).src = some m := hm
  rw [hp] at hm'; injection hm' with hm'; subst hm'
  refine ⟨annSource x, ?_, hopen, rfl⟩
  rw [Dyn.source_setSource_of (y := annSource x) hx rfl]; simp

/-- `UpdateHashes`: the handle takes the content of the attached document -/
theorem HInv.hashStep {s : Struct} {d : Dyn} {p : Pid} {n : SrcName} (h : HInv s (some p) d) (hps : PreSync d p)
    (hsrc : (d.handle p).src = some n) : HInv s none (syncStage1 d p n) := by
  obtain ⟨x, hx, hxo, hxa⟩ := hps n hsrc
  have hnew : newHashOf d p n = x.content := by simp [newHashOf, hx]
  refine h.of_handles (d' := syncStage1 d p n) (ex' := none) (fun _ => rfl) rfl ?_ ?_ ?_
  · intro q
    unfold syncStage1
    rw [Dyn.handle_setHandle]
    split
    · rename_i e; subst e; simp [Handle.ed]
    · rfl
  · intro q hq _ m hm
    unfold syncStage1 at hm ⊢
    rw [Dyn.handle_setHandle] at hm ⊢
    split at hm
    · rename_i e; subst e
      simp only [if_true]
      have hm' : (d.handle q).src = some m := hm
      rw [hsrc] at hm'; injection hm' with hm'; subst hm'
      exact ⟨x, hx, hxo, by rw [hnew, hxa]⟩
    · rename_i e
      simp only [if_neg e]
      exact h.conn q hq (by simpa using e) m hm
  · intro q hq _ h1 m h2 y hy
    unfold syncStage1 at h1 h2 ⊢
    rw [Dyn.handle_setHandle] at h1 h2 ⊢
    split at h1
    · rename_i e; subst e
      have h1' : (d.handle q).src = none := h1
      rw [hsrc] at h1'; cases h1'
    · rename_i e
      simp only [if_neg e] at h2 ⊢
      exact h.detached q hq (by simpa using e) h1 m h2 y hy

/-- `SyncData`: the descriptor follows the attached document -/
theorem HInv.descStep {s : Struct} {d : Dyn} {p : Pid} {n : SrcName} (h : HInv s none d)
    (hsrc : (d.handle p).src = some n) : HInv s none (syncStage3 d p n) := by
  refine h.of_handles (d' := syncStage3 d p n) (ex' := none) (fun _ => rfl) rfl ?_ ?_ ?_
  · intro q
    unfold syncStage3
    rw [Dyn.handle_setHandle]
    split
    · rename_i e; subst e; simp [Handle.ed, hsrc]
    · rfl
  · intro q hq _ m hm
    unfold syncStage3 at hm ⊢
    rw [Dyn.handle_setHandle] at hm ⊢
    split at hm
    · rename_i e; subst e
      simp only [if_true]
      exact h.conn q hq (by simp) m hm
    · rename_i e
      simp only [if_neg e]
      exact h.conn q hq (by simp) m hm
  · intro q hq _ h1 m h2 y hy
    unfold syncStage3 at h1 h2 ⊢
    rw [Dyn.handle_setHandle] at h1 h2 ⊢
    split at h1
    · rename_i e; subst e
      have h1' : (d.handle q).src = none := h1
      rw [hsrc] at h1'; cases h1'
    · rename_i e
      simp only [if_neg e] at h2 ⊢
      exact h.detached q hq (by simp) h1 m h2 y hy

/-- `OpenSrc` of a detached pictogram: the document is opened (announcing its content) and
attached -/
theorem HInv.openStep {s : Struct} {d : Dyn} {p : Pid} {m : SrcName} {x : Source} (h : HInv s none d)
    (hp : p ∈ s.storage) (hsrc : (d.handle p).src = none) (hdesc : (d.handle p).desc = some m)
    (hx : d.source m = some x) : HInv s (some p) (openStage d p x) ∧ PreSync (openStage d p x) p := by
  have hn := Dyn.source_name hx
  obtain ⟨hclosed, hhash⟩ := h.detached p hp (by simp) hsrc m hdesc x hx
  have hsrcs : ∀ k, (openStage d p x).source k = if k = m then some (openSource x) else d.source k := by
    intro k
    unfold openStage
    rw [Dyn.source_setHandle]
    exact Dyn.source_setSource_of (y := openSource x) hx rfl k
  have hhp : (openStage d p x).handle p = { d.handle p with src := some m } := by
    unfold openStage; simp [hn]
  have hho : ∀ q, q ≠ p → (openStage d p x).handle q = d.handle q := by
    intro q hq; unfold openStage; simp [hq]
  have hedp : (d.handle p).ed = some m := by rw [Handle.ed_of_none hsrc]; exact hdesc
  have hed : ∀ q, ((openStage d p x).handle q).ed = (d.handle q).ed := by
    intro q
    by_cases e : q = p
    · subst e; rw [hhp, hedp]; simp [Handle.ed]
    · rw [hho q e]
  constructor
  · refine ⟨?_, ?_, ?_, ?_, ?_, ?_⟩
    · intro k y hy ho hsv
      rw [hsrcs] at hy
      split at hy
      · injection hy with hy; subst hy; rfl
      · exact h.jd k y hy ho hsv
    · intro q hq he k hk
      have hqp : q ≠ p := by simpa using he
      rw [hho q hqp] at hk ⊢
      obtain ⟨y, hy, hyo, hyh⟩ := h.conn q hq (by simp) k hk
      have hkm : k ≠ m := by
        rintro rfl
        rw [hx] at hy; injection hy with hy; subst hy
        rw [hclosed] at hyo; cases hyo
      rw [hsrcs, if_neg hkm]
      exact ⟨y, hy, hyo, hyh⟩
    · intro q hq _ h1 k h2 y hy
      by_cases e : q = p
      · subst e
        rw [hhp] at h1; cases h1
      · rw [hho q e] at h1 h2 ⊢
        have hkm : k ≠ m := by
          rintro rfl
          apply e
          exact h.uniq q hq p hp k (by rw [Handle.ed_of_none h1]; exact h2) hedp
        rw [hsrcs, if_neg hkm] at hy
        exact h.detached q hq (by simp) h1 k h2 y hy
    · intro q hq q' hq' k; rw [hed, hed]; exact h.uniq q hq q' hq' k
    · intro q hq k; rw [hed]; exact h.namesH q hq k
    · intro k y hy
      rw [hsrcs] at hy
      split at hy
      · rename_i e; subst e; exact h.namesS k x hx
      · exact h.namesS k y hy
  · intro k hk
    rw [hhp] at hk
    injection hk with hk; subst hk
    exact ⟨openSource x, by rw [hsrcs]; simp, rfl, rfl⟩

/-! ## the chain -/

theorem HInv.checkFinish {s : Struct} {ex : Option Pid} (o : Oracle) (p : Pid) (r : Dyn × List Bool)
    (h : HInv s ex r.1) : HInv s ex (checkFinish o p r) :=
  h.congr (checkFinish_handle o p r) (checkFinish_source o p r) (Rel.checkFinish s o p r).r0.nextName

/-- the reaction chain, started while the schema listens, preserves the handle invariant (if it
runs out of fuel the state is faulty and nothing is claimed) -/
theorem reactions_hinv (s : Struct) (o : Oracle) (hop : ChildrenOperable s) : ∀ f : Nat,
    (∀ d n, d.dnd = 0 → HInv s none d → (announce s o f d n).fault = none → HInv s none (announce s o f d n)) ∧
    (∀ d p, d.dnd = 0 → HInv s (some p) d → PreSync d p → (syncPict s o f d p).fault = none →
      HInv s none (syncPict s o f d p)) ∧
    (∀ d p, d.dnd = 0 → HInv s none d → (coreChange s o f d p).fault = none → HInv s none (coreChange s o f d p)) ∧
    (∀ d p, d.dnd = 0 → HInv s none d → (updateSync s o f d p).fault = none → HInv s none (updateSync s o f d p)) ∧
    (∀ d p, d.dnd = 0 → HInv s none d → (dataFor s o f d p).1.fault = none → HInv s none (dataFor s o f d p).1) ∧
    (∀ d p, d.dnd = 0 → HInv s none d → (checkOp s o f d p).fault = none → HInv s none (checkOp s o f d p))
  | 0 => by
    refine ⟨?_, ?_, ?_, ?_, ?_, ?_⟩
    · intro d n _ h; simp only [announce]; exact fun _ => h.stuck _
    · intro d p _ h hps
      simp only [syncPict]
      intro hf; exact absurd hf (Dyn.fault_stuck_ne _ _)
    · intro d p _ h; simp only [coreChange]; exact fun _ => h.stuck _
    · intro d p _ h; simp only [updateSync]; exact fun _ => h.stuck _
    · intro d p _ h; simp only [dataFor]; exact fun _ => h.stuck _
    · intro d p _ h; simp only [checkOp]; exact fun _ => h.stuck _
  | f + 1 => by
    obtain ⟨ihA, ihS, ihC, ihU, ihD, ihK⟩ := reactions_hinv s o hop f
    obtain ⟨relA, relS, relC, relU, relD, relK⟩ := reactions_rel s o hop f
    have hA : ∀ d n, d.dnd = 0 → HInv s none d → (announce s o (f + 1) d n).fault = none →
        HInv s none (announce s o (f + 1) d n) := by
      intro d n hd0 h
      rw [announce_succ]
      cases hx : d.source n with
      | none => exact fun _ => h
      | some x =>
        dsimp only
        split
        · exact fun _ => h
        · rename_i hpend
          simp only [Bool.or_eq_true, Bool.not_eq_true', not_or, Bool.not_eq_true, Bool.not_eq_false] at hpend
          split
          · rename_i hdnd; omega
          · cases h2 : src2pid s d n with
            | none =>
              intro _
              exact h.annStep hx hpend.2 (fun q hq _ => src2pid_none h2 q hq)
            | some p =>
              dsimp only
              obtain ⟨hp, hpsrc⟩ := src2pid_some h2
              refine ihS _ p (show (d.setSource (annSource x)).dnd = 0 from hd0) ?_ ?_
              · apply (h.weaken (ex := some p)).annStep hx hpend.2
                intro q hq he hq2
                apply he
                rw [h.src_unique hq hp hq2 hpsrc]
              · exact preSync_annStep hx hpend.2 hpsrc
    have hS : ∀ d p, d.dnd = 0 → HInv s (some p) d → PreSync d p → (syncPict s o (f + 1) d p).fault = none →
        HInv s none (syncPict s o (f + 1) d p) := by
      intro d p hd0 h hps
      rw [syncPict_succ]
      cases hsrc : (d.handle p).src with
      | none => intro hf; exact absurd hf (Dyn.fault_stuck_ne _ _)
      | some n =>
        dsimp only
        intro hf
        have hf2 : (syncStage2 s o f d p n).fault = none := hf
        have h1 : HInv s none (syncStage1 d p n) := h.hashStep hps hsrc
        have hsrc1 : ((syncStage1 d p n).handle p).src = some n := by simp [syncStage1, hsrc]
        have h2 : HInv s none (syncStage2 s o f d p n) ∧ ((syncStage2 s o f d p n).handle p).src = some n := by
          unfold syncStage2 at hf2 ⊢
          split
          · rename_i hc
            rw [if_pos hc] at hf2
            exact ⟨ihC _ p hd0 h1 hf2, (relC _ p).r0.frame.src p n hsrc1⟩
          · exact ⟨h1, hsrc1⟩
        exact h2.1.descStep h2.2
    have hC : ∀ d p, d.dnd = 0 → HInv s none d → (coreChange s o (f + 1) d p).fault = none →
        HInv s none (coreChange s o (f + 1) d p) := by
      intro d p hd0 h
      rw [coreChange_succ]
      intro hf
      have := foldl_inv_guard (s := s) (fun d => d.dnd = 0 ∧ HInv s none d) (markStep s o f) (Rel.markStep relK)
        (by
          intro d c ⟨h0, hh⟩ hfc
          refine ⟨by rw [(Rel.markStep relK d c).r0.dnd]; exact h0, ?_⟩
          unfold markStep at hfc ⊢
          split
          · exact hh.stuck _
          · rename_i hop'
            rw [if_neg hop'] at hfc
            exact (ihK d c h0 hh hfc).setOp _ _)
        (s.graph.childrenOf p) d ⟨hd0, h⟩ hf
      exact this.2
    have hU : ∀ d p, d.dnd = 0 → HInv s none d → (updateSync s o (f + 1) d p).fault = none →
        HInv s none (updateSync s o (f + 1) d p) := by
      intro d p hd0 h
      rw [updateSync_succ]
      split
      · exact fun _ => h
      · exact ihA _ _ hd0 h
    have hD : ∀ d p, d.dnd = 0 → HInv s none d → (dataFor s o (f + 1) d p).1.fault = none →
        HInv s none (dataFor s o (f + 1) d p).1 := by
      intro d p hd0 h
      rw [dataFor_succ]
      split
      · exact fun _ => h
      · rename_i hcont
        split
        · exact fun _ => h
        · cases hsrc : (d.handle p).src with
          | some n => exact fun _ => h
          | none =>
            dsimp only
            cases hb : (d.handle p).desc.bind d.source with
            | none => exact fun _ => h
            | some x =>
              dsimp only
              obtain ⟨m, hdesc, hm⟩ := Option.bind_eq_some_iff.1 hb
              have hp : p ∈ s.storage := by simpa [Struct.contains] using hcont
              obtain ⟨h1, h2⟩ := h.openStep hp hsrc hdesc hm
              exact ihS _ p (by simpa [openStage] using hd0) h1 h2
    have hK : ∀ d p, d.dnd = 0 → HInv s none d → (checkOp s o (f + 1) d p).fault = none →
        HInv s none (checkOp s o (f + 1) d p) := by
      intro d p hd0 h
      rw [checkOp_succ]
      intro hf
      have hf1 : ((s.graph.parentsOf p).foldl (callStep s o f) (d, [])).1.fault = none :=
        (Rel.checkFinish s o p _).fault_none hf
      have := foldl_inv_guard_fst (s := s) (fun d => d.dnd = 0 ∧ HInv s none d) (callStep s o f) (Rel.callStep relU relD)
        (by
          intro acc q ⟨h0, hh⟩ hfc
          refine ⟨by rw [(Rel.callStep relU relD acc q).r0.dnd]; exact h0, ?_⟩
          have hfu : (updateSync s o f acc.1 q).fault = none := (relD _ q).fault_none hfc
          have h0u : (updateSync s o f acc.1 q).dnd = 0 := by rw [(relU acc.1 q).r0.dnd]; exact h0
          exact ihD _ q h0u (ihU _ q h0 hh hfu) hfc)
        (s.graph.parentsOf p) (d, []) ⟨hd0, h⟩ hf1
      exact this.2.checkFinish o p _
    exact ⟨hA, hS, hC, hU, hD, hK⟩

end CCVerif.Oss
