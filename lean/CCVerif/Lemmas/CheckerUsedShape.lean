import CCVerif.Model.WfAst
import CCVerif.Lemmas.CheckerFrameUsed
/-!
The shape link between the two sets of global names of `Lemmas/CheckerFrame.lean`: on the trees the
grammar produces (`Wf.wf c a`, `Model/WfAst.lean`, any category: expressions, function definitions,
declarations of variables, …) every child is at a visited index, except the name of a called
function (child 0 of NT_FUNC_CALL, a leaf whose text IS read). Hence `usedGlobals a` and
`globalsOf a` have the same elements.

* `Shaped` — every child is visited or is the leaf name of a call; `shaped_of_wf`;
* `globalsOf_subset_used`, `usedGlobals_iff_globalsOf`;
* `check_strict_wf` — strictness over ALL globals of a grammar-shaped expression.
-/
namespace CCVerif.Checker
open CCVerif.Syntax CCVerif.Types CCVerif.Wf

/-- every child stands at a visited index, or is the leaf name of a function call -/
inductive Shaped : Ast → Prop where
  | mk {a : Ast}
      (full : ∀ j k, a.kid j = some k → visitedIdx a j = true ∨
        (a.id = .NT_FUNC_CALL ∧ j = 0 ∧ IsGlobalId k.id ∧ k.kids = []))
      (kids : ∀ j k, a.kid j = some k → visitedIdx a j = true → Shaped k) : Shaped a

theorem mem_globalsOfList {n : String} : ∀ {ks : List Ast}, n ∈ globalsOfList ks →
    ∃ (j : Nat) (k : Ast), ks[j]? = some k ∧ n ∈ globalsOf k
  | [], h => by cases h
  | k :: ks, h => by
    simp only [globalsOfList, List.mem_append] at h
    rcases h with h | h
    · exact ⟨0, k, rfl, h⟩
    · obtain ⟨j, k', hk, hn⟩ := mem_globalsOfList h
      exact ⟨j + 1, k', hk, hn⟩

theorem mem_globalsOf_cases {n : String} {a : Ast} (h : n ∈ globalsOf a) :
    (IsGlobalId a.id ∧ a.data = .text n) ∨
    (a.id = .NT_FUNC_CALL ∧ ∃ k0, a.kid 0 = some k0 ∧ k0.data = .text n) ∨
    ∃ j k, a.kid j = some k ∧ n ∈ globalsOf k := by
  cases a with
  | node id d lo hi ks =>
    simp only [globalsOf, List.mem_append] at h
    rcases h with (h | h) | h
    · left
      split at h
      · rename_i hg
        cases d with
        | text s =>
          simp only [dataText, List.mem_singleton] at h
          subst h
          exact ⟨hg, rfl⟩
        | none => cases h
        | int _ => cases h
        | tuple _ => cases h
      · cases h
    · right; left
      split at h
      · rename_i hc
        cases ks with
        | nil => cases h
        | cons k0 ks =>
          simp only [headText] at h
          cases hd : k0.data with
          | text s =>
            simp only [hd, dataText, List.mem_singleton] at h
            subst h
            exact ⟨hc, k0, rfl, hd⟩
          | none => simp [hd, dataText] at h
          | int _ => simp [hd, dataText] at h
          | tuple _ => simp [hd, dataText] at h
      · cases h
    · right; right
      exact mem_globalsOfList h

/-- on a shaped tree every global occurrence is at a visited position -/
theorem globalsOf_subset_used {a : Ast} (h : Shaped a) : ∀ n, n ∈ globalsOf a → n ∈ usedGlobals a := by
  induction h with
  | @mk a full _ ih =>
    intro n hn
    rcases mem_globalsOf_cases hn with ⟨hg, hd⟩ | ⟨hc, k0, hk, hd⟩ | ⟨j, k, hk, hnk⟩
    · exact usedGlobals_self hg hd
    · exact usedGlobals_call hc hk hd
    · rcases full j k hk with hv | ⟨hc, rfl, hg, hleaf⟩
      · exact usedGlobals_kid hk hv (ih j k hk hv n hnk)
      · rcases mem_globalsOf_cases hnk with ⟨_, hd⟩ | ⟨_, k1, hk1, _⟩ | ⟨j', k', hk', _⟩
        · exact usedGlobals_call hc hk hd
        · simp [Ast.kid, hleaf] at hk1
        · simp [Ast.kid, hleaf] at hk'

theorem usedGlobals_iff_globalsOf_of_shaped {a : Ast} (h : Shaped a) (n : String) :
    n ∈ usedGlobals a ↔ n ∈ globalsOf a :=
  ⟨usedGlobals_subset, globalsOf_subset_used h n⟩

/-! ## the grammar's trees are shaped -/

/-- `visitedIdx` as a function of the token (the declaration tokens excluded) -/
def visTok (id : Tok) (i : Nat) : Bool :=
  match id with
  | .NT_FUNC_CALL => decide (1 ≤ i)
  | .NT_TUPLE_DECL | .NT_ENUM_DECL | .NT_ARGUMENTS | .NOT | .AND | .OR | .IMPLICATION | .EQUIVALENT
  | .NT_IMPERATIVE_EXPR | .DECART | .NT_TUPLE | .NT_ENUMERATION | .BOOL | .FILTER => true
  | .CARD | .BOOLEAN | .DEBOOL | .BIGPR | .SMALLPR | .REDUCE => decide (i < 1)
  | .NT_FUNC_DEFINITION | .NT_ARG_DECL | .PLUS | .MINUS | .MULTIPLY | .EQUAL | .NOTEQUAL
  | .GREATER | .LESSER | .GREATER_OR_EQ | .LESSER_OR_EQ
  | .IN | .NOTIN | .SUBSET | .SUBSET_OR_EQ | .NOTSUBSET | .ITERATE | .ASSIGN
  | .UNION | .INTERSECTION | .SET_MINUS | .SYMMINUS => decide (i < 2)
  | .FORALL | .EXISTS | .NT_DECLARATIVE_EXPR | .NT_RECURSIVE_SHORT => decide (i < 3)
  | .NT_RECURSIVE_FULL => decide (i < 4)
  | _ => false

theorem visitedIdx_of_visTok {a : Ast} {i : Nat} (h : visTok a.id i = true) : visitedIdx a i = true := by
  unfold visTok at h
  unfold visitedIdx
  revert h
  generalize a.id = t
  cases t <;> simp

/-- all children visited -/
def visAllTok (id : Tok) : Bool :=
  match id with
  | .NT_TUPLE_DECL | .NT_ENUM_DECL | .NT_ARGUMENTS | .NOT | .AND | .OR | .IMPLICATION | .EQUIVALENT
  | .NT_IMPERATIVE_EXPR | .DECART | .NT_TUPLE | .NT_ENUMERATION | .BOOL | .FILTER => true
  | _ => false

theorem visTok_of_visAllTok {id : Tok} (h : visAllTok id = true) (i : Nat) : visTok id i = true := by
  unfold visAllTok at h
  unfold visTok
  revert h
  cases id <;> simp

/-- the shape of a node of token `id` only has children at visited indices (the name of a call
excepted) -/
def shapeOkFor (id : Tok) : Shape → Bool
  | .leaf => true
  | .seq cs | .seqIdx cs => (List.range cs.length).all (visTok id)
  | .all _ _ | .allIdx _ _ => visAllTok id
  | .headAll h _ _ => visAllTok id || (decide (id = .NT_FUNC_CALL) && (decide (h = .FN) || decide (h = .PN) || decide (h = .FP)))

def shapeOk (c : Cat) (id : Tok) : Bool :=
  match shape c id with
  | none => true
  | some s => shapeOkFor id s

theorem shapeOk_all (c : Cat) (id : Tok) : shapeOk c id = true := by
  cases c <;> cases id <;> rfl

theorem shapeOkFor_of_shape {c : Cat} {id : Tok} {s : Shape} (h : shape c id = some s) :
    shapeOkFor id s = true := by
  have := shapeOk_all c id
  unfold shapeOk at this
  rw [h] at this
  exact this

theorem wfSeq_kid : ∀ {cs : List Cat} {ks : List Ast}, wfSeq cs ks = true →
    ks.length = cs.length ∧ ∀ k ∈ ks, ∃ c, wf c k = true
  | [], [], _ => ⟨rfl, fun _ hk => by cases hk⟩
  | [], _ :: _, h => by simp [wfSeq] at h
  | _ :: _, [], h => by simp [wfSeq] at h
  | c :: cs, k :: ks, h => by
    simp only [wfSeq, Bool.and_eq_true] at h
    obtain ⟨h1, h2⟩ := wfSeq_kid h.2
    refine ⟨by simp [h1], fun k' hk' => ?_⟩
    rcases List.mem_cons.1 hk' with rfl | hk'
    · exact ⟨c, h.1⟩
    · exact h2 k' hk'

theorem wfAll_kid {c : Cat} : ∀ {ks : List Ast}, wfAll c ks = true → ∀ k ∈ ks, wf c k = true
  | [], _ => fun _ hk => by cases hk
  | k :: ks, h => by
    simp only [wfAll, Bool.and_eq_true] at h
    intro k' hk'
    rcases List.mem_cons.1 hk' with rfl | hk'
    · exact h.1
    · exact wfAll_kid h.2 k' hk'

theorem wf_leafName {h : Cat} (hh : h = .FN ∨ h = .PN ∨ h = .FP) {k : Ast} (hk : wf h k = true) :
    IsGlobalId k.id ∧ k.kids = [] := by
  cases k with
  | node id d lo hi ks =>
    unfold wf at hk
    rcases hh with rfl | rfl | rfl
    · cases id
      all_goals first
        | (simp +decide [shape] at hk; done)
        | (simp +decide [shape] at hk
           exact ⟨Or.inr (Or.inl rfl), hk.1⟩)
    · cases id
      all_goals first
        | (simp +decide [shape] at hk; done)
        | (simp +decide [shape] at hk
           exact ⟨Or.inr (Or.inr rfl), hk.1⟩)
    · cases id
      all_goals first
        | (simp +decide [shape] at hk; done)
        | (simp +decide [shape] at hk
           exact ⟨Or.inr (Or.inl rfl), hk.1⟩)
        | (simp +decide [shape] at hk
           exact ⟨Or.inr (Or.inr rfl), hk.1⟩)

theorem sizeOf_kid_lt {id : Tok} {d : TokData} {lo hi : Int} {ks : List Ast} {k : Ast} (hk : k ∈ ks) :
    sizeOf k < sizeOf (Ast.node id d lo hi ks) := by
  have := List.sizeOf_lt_of_mem hk
  simp only [Ast.node.sizeOf_spec]
  omega

/-- the trees of the grammar are shaped -/
theorem shaped_of_wf : ∀ (a : Ast) (c : Cat), wf c a = true → Shaped a
  | .node id d lo hi ks, c, h => by
    -- every child is a phrase of some category, and stands at a visited index or is a call's name
    have key : (∀ k ∈ ks, ∃ c', wf c' k = true) ∧
        ∀ j k, ks[j]? = some k → visTok id j = true ∨
          (id = .NT_FUNC_CALL ∧ j = 0 ∧ IsGlobalId k.id ∧ k.kids = []) := by
      unfold wf at h
      split at h
      · cases h
      · -- leaf
        simp only [Bool.and_eq_true, List.isEmpty_iff] at h
        rw [h.1]
        exact ⟨fun _ hk => (by cases hk), fun j k hk => (by simp at hk)⟩
      · rename_i cs hs
        simp only [Bool.and_eq_true] at h
        obtain ⟨hl, hw⟩ := wfSeq_kid h.2
        refine ⟨hw, fun j k hk => Or.inl ?_⟩
        have hok := shapeOkFor_of_shape hs
        simp only [shapeOkFor, List.all_eq_true, List.mem_range] at hok
        have hj : j < ks.length := by
          rcases Nat.lt_or_ge j ks.length with h' | h'
          · exact h'
          · rw [List.getElem?_eq_none h'] at hk; cases hk
        exact hok j (by omega)
      · rename_i cs hs
        simp only [Bool.and_eq_true] at h
        obtain ⟨hl, hw⟩ := wfSeq_kid h.2
        refine ⟨hw, fun j k hk => Or.inl ?_⟩
        have hok := shapeOkFor_of_shape hs
        simp only [shapeOkFor, List.all_eq_true, List.mem_range] at hok
        have hj : j < ks.length := by
          rcases Nat.lt_or_ge j ks.length with h' | h'
          · exact h'
          · rw [List.getElem?_eq_none h'] at hk; cases hk
        exact hok j (by omega)
      · rename_i mn c' hs
        simp only [Bool.and_eq_true] at h
        refine ⟨fun k hk => ⟨c', wfAll_kid h.2 k hk⟩, fun j k _ => Or.inl ?_⟩
        exact visTok_of_visAllTok (shapeOkFor_of_shape hs) j
      · rename_i mn c' hs
        simp only [Bool.and_eq_true] at h
        refine ⟨fun k hk => ⟨c', wfAll_kid h.2 k hk⟩, fun j k _ => Or.inl ?_⟩
        exact visTok_of_visAllTok (shapeOkFor_of_shape hs) j
      · rename_i hd mn c' hs
        simp only [Bool.and_eq_true] at h
        cases ks with
        | nil => simp [wfHead] at h
        | cons k0 rest =>
          simp only [wfHead, Bool.and_eq_true] at h
          obtain ⟨_, ⟨hk0, _⟩, hrest⟩ := h
          refine ⟨fun k hk => ?_, fun j k hk => ?_⟩
          · rcases List.mem_cons.1 hk with rfl | hk
            · exact ⟨hd, hk0⟩
            · exact ⟨c', wfAll_kid hrest k hk⟩
          · have hok := shapeOkFor_of_shape hs
            simp only [shapeOkFor, Bool.or_eq_true, Bool.and_eq_true, decide_eq_true_eq, or_assoc] at hok
            rcases hok with hall | ⟨hid, hfn⟩
            · exact Or.inl (visTok_of_visAllTok hall j)
            · cases j with
              | zero =>
                simp only [List.getElem?_cons_zero, Option.some.injEq] at hk
                subst hk
                have := wf_leafName hfn hk0
                exact Or.inr ⟨hid, rfl, this⟩
              | succ j => subst hid; exact Or.inl (by simp [visTok])
    refine Shaped.mk (fun j k hk => ?_) (fun j k hk _ => ?_)
    · rcases key.2 j k hk with hv | hc
      · exact Or.inl (visitedIdx_of_visTok hv)
      · exact Or.inr hc
    · have hmem : k ∈ ks := List.mem_of_getElem? hk
      obtain ⟨c', hc'⟩ := key.1 k hmem
      exact shaped_of_wf k c' hc'
termination_by a => sizeOf a
decreasing_by exact sizeOf_kid_lt hmem

/-- on the trees of the grammar the visited globals are all the globals -/
theorem usedGlobals_iff_globalsOf {c : Cat} {a : Ast} (h : wf c a = true) (n : String) :
    n ∈ usedGlobals a ↔ n ∈ globalsOf a :=
  usedGlobals_iff_globalsOf_of_shaped (shaped_of_wf a c h) n

/-- STRICTNESS over all globals: an accepted grammar-shaped expression has every global name typed -/
theorem check_strict_wf {Γ : Ctx} {c : Cat} {e : Ast} {t : ExprTy} (hw : wf c e = true)
    (h : (check Γ e).out = .ok t) : ∀ n ∈ globalsOf e, (lookup Γ.types n).isSome = true :=
  fun n hn => check_strict h n ((usedGlobals_iff_globalsOf hw n).2 hn)

example :
    let e : Ast := .node .NT_FUNC_CALL .none 0 6
      [.node .ID_FUNCTION (.text "F1") 0 2 [], .node .ID_GLOBAL (.text "X1") 3 5 []]
    wf .S e = true ∧ usedGlobals e = ["F1", "X1"] ∧ globalsOf e = ["F1", "F1", "X1"] := by
  decide +kernel

end CCVerif.Checker
