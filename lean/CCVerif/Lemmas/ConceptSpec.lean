import CCVerif.Lemmas.ExtractWords
import CCVerif.Properties.C17
/-!
C08, constituent level: the content part of `Schema::SetAliasFor` / `SubstitueAliases` / `TranslateAll`
(`Model/Translate.lean`: `Concept.translate`, `translateAll`, `setAlias`, `substituteAliases` — byte offsets,
`std::string::replace`, the right-to-left loop of `TranslateRaw`) against the word-level / reference-level
specification of `Model/TranslateSpec.lean` (`translateConcept`, `renameAll`, `unresolved`, `freshFor`), and that
specification against a POINTWISE reading (`Renamed`): every constituent keeps its identifier, gets its alias
through the map, its definition and convention through `translateWords`, its two texts through
`translateRefsStrict`; the list keeps its length and order.
-/
namespace CCVerif.Translate
open CCVerif.Syntax CCVerif.Generated CCVerif.Lexer CCVerif.Strings CCVerif.Translate.Spec

/-! ## one text -/

/-- `TranslateRS` with `FilterGlobals` computes the word-level specification (as `C08.translateRS_words`) -/
theorem translateRS_globals_words (tr : Translator) (cps : List Nat) (hv : ∀ c ∈ cps, scalar c) :
    translateRS filterGlobals tr (encode cps) =
      .ok (translateWords false tr cps).1 (translateWords false tr cps).2 := by
  obtain ⟨toks, hl⟩ := lexMath_total cps
  rw [words_eq_tokens false tr cps toks hl]
  unfold translateRS
  rw [decode_encode cps hv]
  simp only
  unfold translateCps
  rw [hl]
  simp only
  have := go_spec filterGlobals tr cps toks 0 [] 0 (lexMath_laid hl)
  simp only [List.drop_zero, List.take_zero, List.nil_append, List.length_nil, Nat.zero_add] at this
  have e : ((0 : Nat) : Int) - (((encode ([] : List Nat)).length : Nat) : Int) = 0 := by simp [encode]
  rw [e] at this
  rw [this]
  rfl

/-- on a well-formed text the formal translation of the model is the word-level one -/
theorem translateRS_text_bytes (tr : Translator) (s : Bytes) (cps : List Nat) (h : decode s = some cps) :
    (translateRS filterGlobals tr s).text? = some (translateWords false tr cps).1 ∧
    translateBytes false tr s = some (translateWords false tr cps) := by
  obtain ⟨e, hv⟩ := decode_sound s cps h
  refine ⟨?_, by unfold translateBytes; rw [h]; rfl⟩
  rw [← e, translateRS_globals_words tr cps hv]
  rfl

/-- the strict specification and C17's specification are the same function -/
theorem translateRefsStrict_eq_spec (tr : Translator) (cps : List Nat) :
    translateRefsStrict tr cps = Refs.Spec.translateSpec tr cps := by
  unfold translateRefsStrict Refs.Spec.translateSpec
  congr 2

/-- on a well-formed text `TranslateRaw` computes the strict reference-level specification -/
theorem translateRaw_text_bytes (tr : Translator) (s : Bytes) (cps : List Nat) (h : decode s = some cps) :
    Refs.translateRaw Refs.Variant.current tr s = .ok (translateRefsStrict tr cps) ∧
    translateRefs tr s = some (translateRefsStrict tr cps) := by
  obtain ⟨e, hv⟩ := decode_sound s cps h
  refine ⟨?_, by unfold translateRefs; rw [h, translateRefsStrict_eq_spec]; rfl⟩
  rw [← e, translateRefsStrict_eq_spec]
  exact CCVerif.Refs.translateRaw_spec tr cps (fun c hc => (hv c hc).1)

/-! ## one constituent -/

/-- the four texts of a constituent are well-formed UTF-8 -/
def Concept.WF (c : Concept) : Prop :=
  (decode c.definition).isSome = true ∧ (decode c.convention).isSome = true ∧
  (decode c.term).isSome = true ∧ (decode c.textDef).isSome = true

instance (c : Concept) : Decidable c.WF := by unfold Concept.WF; infer_instance

/-- POINTWISE reading of "rewrites each whole-identifier occurrence … and changes nothing else" for one
constituent under a translator: same identifier; alias through the map; definition and convention with
exactly the whole upper-case identifier words that are mapped replaced (`translateWords false`); term and
definition text with only the name bytes of the mapped entity references replaced (`translateRefsStrict`) -/
def Renamed (tr : Translator) (c c' : Concept) : Prop :=
  c'.uid = c.uid ∧ c'.alias = (tr c.alias).getD c.alias ∧
  (∃ d, decode c.definition = some d ∧ c'.definition = (translateWords false tr d).1) ∧
  (∃ v, decode c.convention = some v ∧ c'.convention = (translateWords false tr v).1) ∧
  (∃ t, decode c.term = some t ∧ c'.term = translateRefsStrict tr t) ∧
  (∃ x, decode c.textDef = some x ∧ c'.textDef = translateRefsStrict tr x)

/-- the same without the alias step (the texts only) -/
def RenamedTexts (tr : Translator) (c c' : Concept) : Prop :=
  c'.uid = c.uid ∧ c'.alias = c.alias ∧
  (∃ d, decode c.definition = some d ∧ c'.definition = (translateWords false tr d).1) ∧
  (∃ v, decode c.convention = some v ∧ c'.convention = (translateWords false tr v).1) ∧
  (∃ t, decode c.term = some t ∧ c'.term = translateRefsStrict tr t) ∧
  (∃ x, decode c.textDef = some x ∧ c'.textDef = translateRefsStrict tr x)

/-- `RSCore::Translate` on one well-formed constituent: never faults, is the specification `translateConcept`,
and that is the pointwise reading -/
theorem translate_concept (tr : Translator) (c : Concept) (h : c.WF) :
    ∃ c', c.translate tr = some c' ∧ translateConcept tr c = some c' ∧ RenamedTexts tr c c' := by
  obtain ⟨h1, h2, h3, h4⟩ := h
  obtain ⟨d, hd⟩ := Option.isSome_iff_exists.1 h1
  obtain ⟨v, hv⟩ := Option.isSome_iff_exists.1 h2
  obtain ⟨t, ht⟩ := Option.isSome_iff_exists.1 h3
  obtain ⟨x, hx⟩ := Option.isSome_iff_exists.1 h4
  obtain ⟨a1, b1⟩ := translateRS_text_bytes tr _ d hd
  obtain ⟨a2, b2⟩ := translateRS_text_bytes tr _ v hv
  obtain ⟨a3, b3⟩ := translateRaw_text_bytes tr _ t ht
  obtain ⟨a4, b4⟩ := translateRaw_text_bytes tr _ x hx
  refine ⟨{ c with definition := (translateWords false tr d).1, convention := (translateWords false tr v).1,
                   term := translateRefsStrict tr t, textDef := translateRefsStrict tr x }, ?_, ?_,
    rfl, rfl, ⟨d, hd, rfl⟩, ⟨v, hv, rfl⟩, ⟨t, ht, rfl⟩, ⟨x, hx, rfl⟩⟩
  · unfold Concept.translate Concept.translateFormal
    rw [a1, a2]
    simp only [Option.bind_some]
    unfold Concept.translateRaw
    simp only
    rw [a3, a4]
  · unfold translateConcept
    rw [b1, b2, b3, b4]

/-! ## all constituents -/

/-- the two lists have the same length and corresponding members are related -/
inductive Forall₂ {α β : Type} (R : α → β → Prop) : List α → List β → Prop
  | nil : Forall₂ R [] []
  | cons {a b l l'} : R a b → Forall₂ R l l' → Forall₂ R (a :: l) (b :: l')

theorem Forall₂.length {α β : Type} {R : α → β → Prop} : ∀ {l : List α} {l' : List β}, Forall₂ R l l' → l'.length = l.length
  | _, _, .nil => rfl
  | _, _, .cons _ h => by simp only [List.length_cons, h.length]

theorem Forall₂.get {α β : Type} {R : α → β → Prop} : ∀ {l : List α} {l' : List β}, Forall₂ R l l' →
    ∀ (i : Nat) (a : α) (b : β), l[i]? = some a → l'[i]? = some b → R a b
  | _, _, .nil, _, _, _, h, _ => by simp at h
  | _, _, .cons h1 h2, i, a, b, ha, hb => by
    cases i with
    | zero =>
      simp only [List.getElem?_cons_zero, Option.some.injEq] at ha hb
      subst ha; subst hb; exact h1
    | succ i =>
      simp only [List.getElem?_cons_succ] at ha hb
      exact h2.get i a b ha hb

theorem Forall₂.imp {α β : Type} {R S : α → β → Prop} (h : ∀ a b, R a b → S a b) :
    ∀ {l : List α} {l' : List β}, Forall₂ R l l' → Forall₂ S l l'
  | _, _, .nil => .nil
  | _, _, .cons h1 h2 => .cons (h _ _ h1) (h2.imp h)

theorem nodup_map_inj {α β : Type} {f : α → β} : ∀ {l : List α}, (l.map f).Nodup → ∀ {x y : α}, x ∈ l → y ∈ l →
    f x = f y → x = y
  | [], _, _, _, hx, _, _ => by cases hx
  | a :: l, hn, x, y, hx, hy, e => by
    rw [List.map_cons, List.nodup_cons] at hn
    rcases List.mem_cons.1 hx with rfl | hx' <;> rcases List.mem_cons.1 hy with rfl | hy'
    · rfl
    · exact absurd (List.mem_map.2 ⟨y, hy', e.symm⟩) hn.1
    · exact absurd (List.mem_map.2 ⟨x, hx', e⟩) hn.1
    · exact nodup_map_inj hn.2 hx' hy' e

theorem mapM?_forall₂ {α β : Type} (f : α → Option β) (R : α → β → Prop) :
    ∀ (l : List α), (∀ a ∈ l, ∃ b, f a = some b ∧ R a b) → ∃ l', mapM? f l = some l' ∧ Forall₂ R l l'
  | [], _ => ⟨[], rfl, Forall₂.nil⟩
  | a :: as, h => by
    obtain ⟨b, hb, hr⟩ := h a (List.mem_cons_self ..)
    obtain ⟨bs, hbs, hrs⟩ := mapM?_forall₂ f R as (fun x hx => h x (List.mem_cons_of_mem _ hx))
    exact ⟨b :: bs, by simp only [mapM?, hb, hbs], Forall₂.cons hr hrs⟩

theorem mapM?_congr {α β : Type} {f g : α → Option β} : ∀ {l : List α}, (∀ a ∈ l, f a = g a) → mapM? f l = mapM? g l
  | [], _ => rfl
  | a :: as, h => by
    simp only [mapM?, h a (List.mem_cons_self ..), mapM?_congr (fun x hx => h x (List.mem_cons_of_mem _ hx))]

theorem forall₂_map_left {α β γ : Type} (g : α → β) (R : β → γ → Prop) :
    ∀ {l : List α} {l' : List γ}, Forall₂ R (l.map g) l' → Forall₂ (fun a c => R (g a) c) l l'
  | [], _, h => by cases h; exact Forall₂.nil
  | a :: as, _, h => by
    cases h with
    | cons h1 h2 => exact Forall₂.cons h1 (forall₂_map_left g R h2)

/-- `TranslateAll` on well-formed constituents: total, equal to the specification, pointwise reading -/
theorem translateAll_texts (tr : Translator) (cs : List Concept) (h : ∀ c ∈ cs, c.WF) :
    ∃ cs', translateAll tr cs = some cs' ∧ mapM? (translateConcept tr) cs = some cs' ∧
      Forall₂ (RenamedTexts tr) cs cs' := by
  obtain ⟨cs', e, r⟩ := mapM?_forall₂ (Concept.translate tr) (RenamedTexts tr) cs
    (fun c hc => by obtain ⟨c', a, _, r⟩ := translate_concept tr c (h c hc); exact ⟨c', a, r⟩)
  refine ⟨cs', e, ?_, r⟩
  rw [← e]
  show mapM? (translateConcept tr) cs = mapM? (Concept.translate tr) cs
  apply mapM?_congr
  intro c hc
  obtain ⟨c', a, b, _⟩ := translate_concept tr c (h c hc)
  rw [a, b]

/-- **`SubstitueAliases(map)` on the content** (`ResetAliases`, merge, equation): total on well-formed
constituents, equal to the specification `renameAll`, and that is the pointwise reading `Renamed` for EVERY
constituent, in the same order -/
theorem substituteAliases_renamed (m : Substitutes) (cs : List Concept) (h : ∀ c ∈ cs, c.WF) :
    ∃ cs', substituteAliases cs m = some cs' ∧ renameAll m cs = some cs' ∧
      Forall₂ (Renamed (createTranslator m)) cs cs' := by
  have hwf : ∀ c ∈ cs.map (fun x => { x with alias := ((createTranslator m) x.alias).getD x.alias }), c.WF := by
    intro c hc
    obtain ⟨y, hy, rfl⟩ := List.mem_map.1 hc
    exact h y hy
  obtain ⟨cs', a, b, r⟩ := translateAll_texts (createTranslator m) _ hwf
  have r' := forall₂_map_left
    (fun x : Concept => { x with alias := ((createTranslator m) x.alias).getD x.alias })
    (RenamedTexts (createTranslator m)) r
  exact ⟨cs', a, b, r'.imp (fun _ _ q => q)⟩

/-- the alias step of `SetAliasFor(u, new)` is the alias step of the one-entry map when identifiers and
aliases are pairwise distinct -/
theorem setAlias_alias_step (cs : List Concept) (u : Nat) (c : Concept) (new : Bytes)
    (hf : cs.find? (·.uid = u) = some c) (hu : (cs.map (·.uid)).Nodup) (ha : (cs.map (·.alias)).Nodup) :
    (cs.map fun x => if x.uid = u then { x with alias := new } else x) =
      cs.map fun x => { x with alias := ((createTranslator [(c.alias, new)]) x.alias).getD x.alias } := by
  have hc : c ∈ cs := List.mem_of_find?_eq_some hf
  have hcu : c.uid = u := by simpa using List.find?_some hf
  apply List.map_congr_left
  intro x hx
  have key : x.uid = u ↔ x.alias = c.alias := by
    constructor
    · intro e
      have : x = c := by
        have := nodup_map_inj hu hx hc (e.trans hcu.symm)
        exact this
      rw [this]
    · intro e
      have : x = c := nodup_map_inj ha hx hc e
      rw [this, hcu]
  by_cases e : x.uid = u
  · have e' := key.1 e
    simp [createTranslator, e, e']
  · have e' : ¬ c.alias = x.alias := fun q => e (key.2 q.symm)
    simp [createTranslator, e, e']

/-- **`SetAliasFor(u, new, substitute = true)` on the content**, after the identity manager accepted the name:
total, equal to the specification `renameAll` with the one-entry map, pointwise reading -/
theorem setAlias_renamed (cs : List Concept) (u : Nat) (c : Concept) (new : Bytes)
    (hf : cs.find? (·.uid = u) = some c) (hne : c.alias ≠ new)
    (hu : (cs.map (·.uid)).Nodup) (ha : (cs.map (·.alias)).Nodup) (h : ∀ x ∈ cs, x.WF) :
    ∃ cs', setAlias cs u new true = some cs' ∧ renameAll [(c.alias, new)] cs = some cs' ∧
      Forall₂ (Renamed (createTranslator [(c.alias, new)])) cs cs' := by
  obtain ⟨cs', a, b, r⟩ := substituteAliases_renamed [(c.alias, new)] cs h
  refine ⟨cs', ?_, b, r⟩
  unfold setAlias
  rw [hf]
  simp only [if_neg hne, if_true]
  rw [setAlias_alias_step cs u c new hf hu ha]
  exact a

/-! ## the names mentioned without being an alias -/

/-- the word-level name extraction on bytes is the model of `ExtractUGlobals` -/
theorem extractUGlobals_bytes (s : Bytes) : extractUGlobals s = (decode s).map globalsOf := by
  unfold extractUGlobals extractBy
  cases hd : decode s with
  | none => rfl
  | some cps =>
    obtain ⟨toks, hl⟩ := lexMath_total cps
    simp only [Option.map_some]
    rw [hl, globals_eq_tokens cps toks hl]
    rfl

/-- `n` is the text of a global-name token (`ExtractUGlobals`) of some definition -/
def MentionedIn (cs : List Concept) (n : Bytes) : Prop :=
  ∃ c ∈ cs, ∃ names, extractUGlobals c.definition = some names ∧ n ∈ names

theorem mem_unresolved (cs : List Concept) (n : Bytes) :
    n ∈ unresolved cs ↔ MentionedIn cs n ∧ ∀ c ∈ cs, c.alias ≠ n := by
  unfold unresolved MentionedIn
  rw [List.mem_filter, List.mem_flatMap]
  constructor
  · rintro ⟨⟨c, hc, hn⟩, hal⟩
    refine ⟨⟨c, hc, ?_⟩, ?_⟩
    · rw [extractUGlobals_bytes]
      cases hd : decode c.definition with
      | none => rw [hd] at hn; simp at hn
      | some cps => rw [hd] at hn; exact ⟨_, rfl, hn⟩
    · intro c' hc' e
      simp only [Bool.not_eq_true', List.any_eq_false, beq_iff_eq] at hal
      exact hal c' hc' e
  · rintro ⟨⟨c, hc, names, he, hn⟩, hal⟩
    refine ⟨⟨c, hc, ?_⟩, ?_⟩
    · rw [extractUGlobals_bytes] at he
      cases hd : decode c.definition with
      | none => rw [hd] at he; cases he
      | some cps =>
        rw [hd] at he
        cases he
        exact hn
    · simp only [Bool.not_eq_true', List.any_eq_false, beq_iff_eq]
      exact fun c' hc' => hal c' hc'

theorem freshFor_iff (m : Substitutes) (cs : List Concept) :
    freshFor m cs = true ↔
      ∀ p ∈ m, p.1 ≠ p.2 → MentionedIn cs p.2 → ∃ c ∈ cs, c.alias = p.2 := by
  unfold freshFor
  rw [List.all_eq_true]
  constructor
  · intro h p hp hne hm
    have := h p hp
    simp only [Bool.or_eq_true, beq_iff_eq, Bool.not_eq_true', List.contains_eq_mem, decide_eq_false_iff_not] at this
    rcases this with e | e
    · exact absurd e hne
    · rw [mem_unresolved] at e
      by_cases hex : ∃ c ∈ cs, c.alias = p.2
      · exact hex
      · exact absurd ⟨hm, fun c hc q => hex ⟨c, hc, q⟩⟩ e
  · intro h p hp
    simp only [Bool.or_eq_true, beq_iff_eq, Bool.not_eq_true', List.contains_eq_mem, decide_eq_false_iff_not]
    by_cases e : p.1 = p.2
    · exact Or.inl e
    · refine Or.inr ?_
      rw [mem_unresolved]
      rintro ⟨hm, hal⟩
      obtain ⟨c, hc, q⟩ := h p hp e hm
      exact hal c hc q

end CCVerif.Translate
