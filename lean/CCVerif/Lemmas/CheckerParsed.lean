import CCVerif.Lemmas.CheckerTotal
import CCVerif.Lemmas.TokBEq
set_option linter.unusedVariables false
/-!
Helper lemmas of C04 / C06 — the trees the PARSER returns, and the checker on them.

`WfTop` (C03) lists `S::=e` only with a set expression `e`. The grammar (`global_name STRUCT
no_declaration`) also accepts a logic expression or a function definition there; the parser returns the
tree and `ViGlobalDeclaration` rejects it with `globalStructure` (the guard `IsStructureDomain` looks at
the root of the right-hand side first). `WfParsed` adds exactly these trees, and the two facts of
`Checker.check_facts` that the C03 / C04 theorems use (never `stuck`, never a silent failure) are extended
to them.
-/
namespace CCVerif.Checker
open CCVerif.Syntax CCVerif.Types

/-- what `Parser::Parse` can return: `WfTop`, or `S::=rhs` with any expression / function definition -/
inductive WfParsed (Γ : Ctx) : List String → Ast → Prop where
  | top {xs : List String} {e : Ast} : WfTop Γ xs e → WfParsed Γ xs e
  | structAny {xs : List String} {d : TokData} {lo hi : Int} {nm ex : Ast} :
      WfDef Γ xs ex → WfParsed Γ xs (.node .PUNC_STRUCT d lo hi [nm, ex])

theorem isStructureDomain_id {n : Nat} {a : Ast} (h : isStructureDomain n a = true) :
    a.id = .LIT_INTSET ∨ a.id = .ID_GLOBAL ∨ a.id = .BOOLEAN ∨ a.id = .DECART ∨ a.id = .NT_ENUMERATION := by
  cases n with
  | zero => simp [isStructureDomain] at h
  | succ n =>
    simp only [isStructureDomain, Bool.and_eq_true, Bool.or_eq_true] at h
    have hb := tok_beq_eq
    rcases h.1 with (((h | h) | h) | h) | h
    · exact Or.inl (hb _ _ h)
    · exact Or.inr (Or.inl (hb _ _ h))
    · exact Or.inr (Or.inr (Or.inl (hb _ _ h)))
    · exact Or.inr (Or.inr (Or.inr (Or.inl (hb _ _ h))))
    · exact Or.inr (Or.inr (Or.inr (Or.inr (hb _ _ h))))

/-- a right-hand side that passes the `IsStructureDomain` guard is a set expression -/
theorem structOk_wfS {Γ : Ctx} {xs : List String} {d : TokData} {lo hi : Int} {nm ex : Ast}
    (hs : structOk (.node .PUNC_STRUCT d lo hi [nm, ex]) = true) (hw : WfDef Γ xs ex) : Wf Γ .S ex ∧ xs = [] := by
  have hid : ex.id = .LIT_INTSET ∨ ex.id = .ID_GLOBAL ∨ ex.id = .BOOLEAN ∨ ex.id = .DECART ∨ ex.id = .NT_ENUMERATION := by
    simp only [structOk, Ast.kids, Ast.kid, List.length_cons, List.length_nil, Bool.and_eq_true] at hs
    exact isStructureDomain_id (by simpa using hs.2)
  cases hw with
  | expr h =>
    rcases h with h | h
    · exact ⟨h, rfl⟩
    · exfalso
      cases h with
      | lNot => simp [Ast.id] at hid
      | lBin ht => rcases ht with rfl | rfl | rfl | rfl <;> simp [Ast.id] at hid
      | lPred ht =>
        rcases ht with rfl | rfl | rfl | rfl | rfl | rfl | rfl | rfl | rfl | rfl | rfl <;> simp [Ast.id] at hid
      | lQuant ht => rcases ht with rfl | rfl <;> simp [Ast.id] at hid
      | lCall => simp [Ast.id] at hid
      | lIterate => simp [Ast.id] at hid
      | lAssign => simp [Ast.id] at hid
  | funcdef => simp [Ast.id] at hid

/-- the two facts of `check_facts` on every tree the parser can return -/
theorem check_facts_parsed (Γ : Ctx) {xs : List String} {e : Ast} (hw : WfParsed Γ xs e) (N : Nat) (hN : Ast.depth e ≤ N) :
    (∀ x, (checkWithFuel Γ N e).out ≠ .stuck x) ∧ (checkWithFuel Γ N e).silent = false := by
  cases hw with
  | top h => exact ⟨(check_facts Γ h N hN).1, (check_facts Γ h N hN).2.1⟩
  | structAny hdef =>
    rename_i d lo hi nm ex
    cases hso : structOk (.node .PUNC_STRUCT d lo hi [nm, ex]) with
    | true =>
      obtain ⟨wS, rfl⟩ := structOk_wfS hso hdef
      have h : WfTop Γ [] (.node .PUNC_STRUCT d lo hi [nm, ex]) := .struct wS
      exact ⟨(check_facts Γ h N hN).1, (check_facts Γ h N hN).2.1⟩
    | false =>
      obtain ⟨M1, rfl⟩ : ∃ M1, N = M1 + 1 := ⟨N - 1, by simp [Ast.depth] at hN; omega⟩
      have e : visit Γ (M1 + 1) none (.node .PUNC_STRUCT d lo hi [nm, ex]) =
          viGlobalDeclaration (visit Γ M1) (.node .PUNC_STRUCT d lo hi [nm, ex]) := rfl
      have ht : T0 (AnyV (α := Unit)) AnyC (viGlobalDeclaration (visit Γ M1) (.node .PUNC_STRUCT d lo hi [nm, ex])) := by
        have hss : (Tok.PUNC_STRUCT == Tok.PUNC_STRUCT) = true := rfl
        simp only [viGlobalDeclaration, Ast.id, hss, if_true, hso, Bool.not_false]
        exact t0_kidErr (k := nm) rfl _ _
      have h := ht.run {} ⟨rfl, rfl, rfl⟩
      unfold checkWithFuel
      rw [e]
      generalize viGlobalDeclaration (visit Γ M1) (.node .PUNC_STRUCT d lo hi [nm, ex]) {} = r at h
      obtain ⟨r, s⟩ := r
      cases r with
      | ok u => exact ⟨(fun x hx => by cases hx), h.1.2.2⟩
      | fail => exact ⟨(fun x hx => by cases hx), h⟩
      | stuck y => exact absurd h id

end CCVerif.Checker
