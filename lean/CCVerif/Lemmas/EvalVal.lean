import CCVerif.Model.EvalVal
/-! Order theory of `Val.cmp` (the C++ `Compare`) and the algebra of canonical sets
(`std::set<StructuredData>` as a strictly `cmp`-increasing list).  Used by C01 / C02. -/
namespace CCVerif.Eval

def Cmp.swap : Cmp → Cmp
  | .lt => .gt
  | .gt => .lt
  | .eq => .eq
  | .inc => .inc

namespace Val

/-! ## `cmp` -/
mutual
theorem cmp_refl : ∀ a : Val, cmp a a = .eq
  | .e n => by simp [cmp]
  | .t cs => by simp [cmp, cmpLex_refl cs]
  | .s xs => by simp [cmp, cmpLex_refl xs]
theorem cmpLex_refl : ∀ l : List Val, cmpLex l l = .eq
  | [] => by simp [cmpLex]
  | a :: l => by simp [cmpLex, cmp_refl a, cmpLex_refl l]
end

mutual
theorem cmp_eq : ∀ a b : Val, cmp a b = .eq → a = b
  | .e a, .e b, h => by
    simp only [cmp] at h
    split at h
    · simp_all
    · split at h <;> simp at h
  | .t as, .t bs, h => by
    simp only [cmp] at h
    split at h
    · simp at h
    · rename_i hl
      have hl' : as.length = bs.length := by simpa using hl
      rw [cmpLex_eq as bs hl' h]
  | .s as, .s bs, h => by
    simp only [cmp] at h
    split at h
    · simp at h
    · split at h
      · simp at h
      · have hl' : as.length = bs.length := by omega
        rw [cmpLex_eq as bs hl' h]
  | .e _, .t _, h | .e _, .s _, h | .t _, .e _, h | .t _, .s _, h | .s _, .e _, h | .s _, .t _, h => by
    simp [cmp] at h
theorem cmpLex_eq : ∀ as bs : List Val, as.length = bs.length → cmpLex as bs = .eq → as = bs
  | [], [], _, _ => rfl
  | a :: as, b :: bs, hl, h => by
    simp only [cmpLex] at h
    have hl' : as.length = bs.length := by simpa using hl
    cases hc : cmp a b <;> rw [hc] at h <;> simp at h
    rw [cmp_eq a b hc, cmpLex_eq as bs hl' h]
  | [], _ :: _, hl, _ | _ :: _, [], hl, _ => by simp at hl
end

theorem cmp_eq_iff (a b : Val) : cmp a b = .eq ↔ a = b :=
  ⟨cmp_eq a b, fun h => h ▸ cmp_refl a⟩

mutual
theorem cmp_swap : ∀ a b : Val, cmp b a = (cmp a b).swap
  | .e a, .e b => by
    simp only [cmp]
    by_cases h1 : a = b
    · subst h1; simp [Cmp.swap]
    · have h2 : ¬ b = a := fun h => h1 h.symm
      simp only [h1, h2, if_false]
      by_cases h3 : a < b
      · have h4 : ¬ b < a := by omega
        simp [h3, h4, Cmp.swap]
      · have h4 : b < a := by omega
        simp [h3, h4, Cmp.swap]
  | .t as, .t bs => by
    simp only [cmp]
    by_cases h : as.length = bs.length
    · have h' : bs.length = as.length := h.symm
      rw [if_neg (fun x => x h'), if_neg (fun x => x h)]
      exact cmpLex_swap as bs
    · have h' : ¬ bs.length = as.length := fun x => h x.symm
      simp [h, h', Cmp.swap]
  | .s as, .s bs => by
    simp only [cmp]
    by_cases h1 : as.length > bs.length
    · have h2 : ¬ bs.length > as.length := by omega
      have h3 : bs.length < as.length := by omega
      simp [h1, h2, h3, Cmp.swap]
    · by_cases h2 : as.length < bs.length
      · have h3 : bs.length > as.length := by omega
        simp [h1, h2, h3, Cmp.swap]
      · have h3 : ¬ bs.length > as.length := by omega
        have h4 : ¬ bs.length < as.length := by omega
        simp [h1, h2, h3, h4, cmpLex_swap as bs]
  | .e _, .t _ | .e _, .s _ | .t _, .e _ | .t _, .s _ | .s _, .e _ | .s _, .t _ => by simp [cmp, Cmp.swap]
theorem cmpLex_swap : ∀ as bs : List Val, cmpLex bs as = (cmpLex as bs).swap
  | [], [] => by simp [cmpLex, Cmp.swap]
  | [], _ :: _ => by simp [cmpLex, Cmp.swap]
  | _ :: _, [] => by simp [cmpLex, Cmp.swap]
  | a :: as, b :: bs => by
    simp only [cmpLex]
    rw [cmp_swap a b]
    cases hc : cmp a b <;> simp [Cmp.swap, cmpLex_swap as bs]
end

theorem lt_iff_gt (a b : Val) : cmp a b = .lt ↔ cmp b a = .gt := by
  rw [cmp_swap a b]; cases cmp a b <;> simp [Cmp.swap]

theorem lt_irrefl (a : Val) : lt a a = false := by simp [lt, cmp_refl]

theorem lt_asymm {a b : Val} (h : lt a b = true) : lt b a = false := by
  simp only [lt, beq_iff_eq] at h
  simp [lt, cmp_swap a b, h, Cmp.swap]

mutual
theorem cmp_trans : ∀ a b c : Val, cmp a b = .lt → cmp b c = .lt → cmp a c = .lt
  | .e a, .e b, .e c, h1, h2 => by
    simp only [cmp] at *
    split at h1
    · simp at h1
    · split at h1
      · split at h2
        · simp at h2
        · split at h2
          · have : a < c := by omega
            have : ¬ a = c := by omega
            simp [*]
          · simp at h2
      · simp at h1
  | .t as, .t bs, .t cs, h1, h2 => by
    simp only [cmp] at *
    split at h1
    · simp at h1
    · split at h2
      · simp at h2
      · rename_i ha hb
        have : ¬ as.length ≠ cs.length := by simp at ha hb; simp [ha, hb]
        simp only [this, if_false]
        exact cmpLex_trans as bs cs h1 h2
  | .s as, .s bs, .s cs, h1, h2 => by
    simp only [cmp] at *
    by_cases ha : as.length > bs.length
    · simp [ha] at h1
    · by_cases hb : bs.length > cs.length
      · simp [hb] at h2
      · simp only [ha, hb, if_false] at h1 h2
        by_cases ha' : as.length < bs.length
        · have h3 : ¬ as.length > cs.length := by omega
          have h4 : as.length < cs.length := by omega
          simp [h3, h4]
        · by_cases hb' : bs.length < cs.length
          · have h3 : ¬ as.length > cs.length := by omega
            have h4 : as.length < cs.length := by omega
            simp [h3, h4]
          · simp only [ha', hb', if_false] at h1 h2
            have h3 : ¬ as.length > cs.length := by omega
            have h4 : ¬ as.length < cs.length := by omega
            simp only [h3, h4, if_false]
            exact cmpLex_trans as bs cs h1 h2
  | .e _, .t _, _, h1, _ | .e _, .s _, _, h1, _ | .t _, .e _, _, h1, _ | .t _, .s _, _, h1, _
  | .s _, .e _, _, h1, _ | .s _, .t _, _, h1, _ => by simp [cmp] at h1
  | .e _, .e _, .t _, _, h2 | .e _, .e _, .s _, _, h2 | .t _, .t _, .e _, _, h2 | .t _, .t _, .s _, _, h2
  | .s _, .s _, .e _, _, h2 | .s _, .s _, .t _, _, h2 => by simp [cmp] at h2
theorem cmpLex_trans : ∀ as bs cs : List Val, cmpLex as bs = .lt → cmpLex bs cs = .lt → cmpLex as cs = .lt
  | [], _, _, h1, _ => by simp [cmpLex] at h1
  | _ :: _, [], _, h1, _ => by simp [cmpLex] at h1
  | _ :: _, _ :: _, [], _, h2 => by simp [cmpLex] at h2
  | a :: as, b :: bs, c :: cs, h1, h2 => by
    simp only [cmpLex] at *
    cases hab : cmp a b <;> rw [hab] at h1 <;> simp at h1
    · -- a < b
      cases hbc : cmp b c <;> rw [hbc] at h2 <;> simp at h2
      · rw [cmp_trans a b c hab hbc]
      · have : b = c := cmp_eq b c hbc
        subst this; rw [hab]
    · -- a = b
      have : a = b := cmp_eq a b hab
      subst this
      cases hbc : cmp a c <;> rw [hbc] at h2 <;> simp at h2
      · exact cmpLex_trans as bs cs h1 h2
end

theorem lt_trans {a b c : Val} (h1 : lt a b = true) (h2 : lt b c = true) : lt a c = true := by
  simp only [lt, beq_iff_eq] at *
  exact cmp_trans a b c h1 h2

/-- two values can be ordered: `Compare` does not answer INCOMPARABLE -/
def Comparable (a b : Val) : Prop := cmp a b ≠ .inc

theorem Comparable.symm {a b : Val} (h : Comparable a b) : Comparable b a := by
  unfold Comparable at *
  rw [cmp_swap a b]; cases hc : cmp a b <;> simp_all [Cmp.swap]

/-- trichotomy for comparable values -/
theorem eq_of_not_lt {a b : Val} (hc : Comparable a b) (h1 : lt a b = false) (h2 : lt b a = false) : a = b := by
  apply cmp_eq
  unfold Comparable at hc
  simp only [lt, beq_eq_false_iff_ne, ne_eq] at h1 h2
  rw [cmp_swap a b] at h2
  cases h : cmp a b <;> simp_all [Cmp.swap]

/-! ## sorted lists as sets -/

/-- every element of the list is above `x` -/
def AllGt (x : Val) (l : List Val) : Prop := ∀ y ∈ l, lt x y = true

theorem sortedStrict_cons {a : Val} {l : List Val} :
    sortedStrict (a :: l) = true ↔ (match l with | [] => True | b :: _ => lt a b = true) ∧ sortedStrict l = true := by
  cases l with
  | nil => simp [sortedStrict]
  | cons b r => simp [sortedStrict]

theorem sorted_tail {a : Val} {l : List Val} (h : sortedStrict (a :: l) = true) : sortedStrict l = true :=
  (sortedStrict_cons.mp h).2

theorem sorted_allGt : ∀ {a : Val} {l : List Val}, sortedStrict (a :: l) = true → AllGt a l
  | a, [], _ => by intro y hy; simp at hy
  | a, b :: r, h => by
    intro y hy
    simp only [sortedStrict, Bool.and_eq_true] at h
    cases hy with
    | head => exact h.1
    | tail _ hy' => exact lt_trans h.1 (sorted_allGt h.2 y hy')

theorem sorted_of_allGt {a : Val} {l : List Val} (h1 : AllGt a l) (h2 : sortedStrict l = true) :
    sortedStrict (a :: l) = true := by
  cases l with
  | nil => simp [sortedStrict]
  | cons b r => simp [sortedStrict, h1 b (by simp), h2]

/-- members of `insert x l` -/
theorem mem_insert_of : ∀ {x y : Val} {l : List Val}, y ∈ insert x l → y = x ∨ y ∈ l
  | x, y, [], h => by simp [insert] at h; exact Or.inl h
  | x, y, z :: l, h => by
    simp only [insert] at h
    split at h
    · cases h with
      | head => exact Or.inl rfl
      | tail _ h' => exact Or.inr h'
    · split at h
      · cases h with
        | head => exact Or.inr (by simp)
        | tail _ h' =>
          cases mem_insert_of h' with
          | inl e => exact Or.inl e
          | inr m => exact Or.inr (List.mem_cons_of_mem _ m)
      · exact Or.inr h

theorem mem_insert_old : ∀ {x y : Val} {l : List Val}, y ∈ l → y ∈ insert x l
  | x, y, z :: l, h => by
    simp only [insert]
    split
    · exact List.mem_cons_of_mem _ h
    · split
      · cases h with
        | head => simp
        | tail _ h' => exact List.mem_cons_of_mem _ (mem_insert_old h')
      · exact h

/-- the new element is present afterwards, provided it can be compared with the old ones -/
theorem mem_insert_self : ∀ {x : Val} {l : List Val}, (∀ y ∈ l, Comparable x y) → x ∈ insert x l
  | x, [], _ => by simp [insert]
  | x, z :: l, hc => by
    simp only [insert]
    split
    · simp
    · split
      · exact List.mem_cons_of_mem _ (mem_insert_self (fun y hy => hc y (List.mem_cons_of_mem _ hy)))
      · rename_i h1 h2
        have : x = z := eq_of_not_lt (hc z (by simp)) (by simpa using h1) (by simpa using h2)
        subst this; simp

theorem mem_insert_iff {x y : Val} {l : List Val} (hc : ∀ z ∈ l, Comparable x z) :
    y ∈ insert x l ↔ y = x ∨ y ∈ l :=
  ⟨mem_insert_of, fun h => h.elim (fun e => by rw [e]; exact mem_insert_self hc) mem_insert_old⟩

theorem insert_sorted : ∀ {x : Val} {l : List Val}, sortedStrict l = true → sortedStrict (insert x l) = true
  | x, [], _ => by simp [insert, sortedStrict]
  | x, z :: l, h => by
    simp only [insert]
    split
    · rename_i h1
      exact sorted_of_allGt (fun y hy => by
        cases hy with
        | head => exact h1
        | tail _ hy' => exact lt_trans h1 (sorted_allGt h y hy')) h
    · split
      · rename_i h1 h2
        apply sorted_of_allGt
        · intro y hy
          cases mem_insert_of hy with
          | inl e => exact e ▸ h2
          | inr m => exact sorted_allGt h y m
        · exact insert_sorted (sorted_tail h)
      · exact h

theorem insertAll_sorted : ∀ (xs : List Val) {acc : List Val}, sortedStrict acc = true →
    sortedStrict (insertAll acc xs) = true
  | [], acc, h => by simpa [insertAll] using h
  | x :: xs, acc, h => by
    have := insertAll_sorted xs (insert_sorted (x := x) h)
    simpa [insertAll] using this

theorem mkSetList_sorted (xs : List Val) : sortedStrict (mkSetList xs) = true :=
  insertAll_sorted xs (by simp [sortedStrict])

theorem mem_insertAll_of : ∀ (xs : List Val) {acc : List Val} {y : Val},
    y ∈ insertAll acc xs → y ∈ acc ∨ y ∈ xs
  | [], acc, y, h => by simp [insertAll] at h; exact Or.inl h
  | x :: xs, acc, y, h => by
    have h' : y ∈ insertAll (insert x acc) xs := by simpa [insertAll] using h
    cases mem_insertAll_of xs h' with
    | inl m =>
      cases mem_insert_of m with
      | inl e => exact Or.inr (by simp [e])
      | inr m' => exact Or.inl m'
    | inr m => exact Or.inr (List.mem_cons_of_mem _ m)

/-- pairwise comparability of a family of values (e.g. all of one type) -/
def PairComparable (l : List Val) : Prop := ∀ a ∈ l, ∀ b ∈ l, Comparable a b

theorem mem_insertAll_iff : ∀ (xs : List Val) {acc : List Val} {y : Val},
    PairComparable (acc ++ xs) → (y ∈ insertAll acc xs ↔ y ∈ acc ∨ y ∈ xs)
  | [], acc, y, _ => by simp [insertAll]
  | x :: xs, acc, y, hc => by
    have hcx : ∀ z ∈ acc, Comparable x z := fun z hz => hc x (by simp) z (by simp [hz])
    have hc' : PairComparable (insert x acc ++ xs) := by
      intro a ha b hb
      have conv : ∀ c, c ∈ insert x acc ++ xs → c ∈ acc ++ x :: xs := by
        intro c hcm
        rcases List.mem_append.mp hcm with m | m
        · rcases mem_insert_of m with e | m'
          · simp [e]
          · simp [m']
        · simp [m]
      exact hc a (conv a ha) b (conv b hb)
    have := mem_insertAll_iff xs (acc := insert x acc) (y := y) hc'
    have h2 : insertAll acc (x :: xs) = insertAll (insert x acc) xs := by simp [insertAll]
    rw [h2, this, mem_insert_iff hcx]
    simp only [List.mem_cons]
    constructor
    · rintro ((e | m) | m)
      · exact Or.inr (Or.inl e)
      · exact Or.inl m
      · exact Or.inr (Or.inr m)
    · rintro (m | e | m)
      · exact Or.inl (Or.inr m)
      · exact Or.inl (Or.inl e)
      · exact Or.inr m

theorem mem_mkSetList_iff {xs : List Val} {y : Val} (hc : PairComparable xs) :
    y ∈ mkSetList xs ↔ y ∈ xs := by
  have := mem_insertAll_iff xs (acc := []) (y := y) (by simpa using hc)
  simpa [mkSetList] using this

/-- the ordered search of `std::set::contains` finds exactly the members -/
theorem mem_iff : ∀ {l : List Val} {x : Val}, sortedStrict l = true → (∀ y ∈ l, Comparable x y) →
    (mem x l = true ↔ x ∈ l)
  | [], x, _, _ => by simp [mem]
  | z :: l, x, hs, hc => by
    simp only [mem]
    split
    · rename_i h1
      constructor
      · intro h; simp at h
      · intro hm
        exfalso
        cases hm with
        | head => simp [lt_irrefl] at h1
        | tail _ hm' =>
          have := sorted_allGt hs x hm'
          have := lt_asymm this
          simp_all
    · split
      · rename_i h1 h2
        rw [mem_iff (sorted_tail hs) (fun y hy => hc y (List.mem_cons_of_mem _ hy))]
        constructor
        · exact fun h => List.mem_cons_of_mem _ h
        · intro hm
          cases hm with
          | head => simp [lt_irrefl] at h2
          | tail _ hm' => exact hm'
      · rename_i h1 h2
        have : x = z := eq_of_not_lt (hc z (by simp)) (by simpa using h1) (by simpa using h2)
        simp [this]

/-- extensionality: two canonical lists with the same members are the same list -/
theorem sorted_ext : ∀ {l1 l2 : List Val}, sortedStrict l1 = true → sortedStrict l2 = true →
    (∀ x, x ∈ l1 ↔ x ∈ l2) → l1 = l2
  | [], [], _, _, _ => rfl
  | [], b :: _, _, _, h => by have := (h b).mpr (by simp); simp at this
  | a :: _, [], _, _, h => by have := (h a).mp (by simp); simp at this
  | a :: l1, b :: l2, h1, h2, h => by
    have hab : a = b := by
      have ha : a ∈ b :: l2 := (h a).mp (by simp)
      have hb : b ∈ a :: l1 := (h b).mpr (by simp)
      cases ha with
      | head => rfl
      | tail _ ha' =>
        cases hb with
        | head => rfl
        | tail _ hb' =>
          have x1 := sorted_allGt h2 a ha'
          have x2 := sorted_allGt h1 b hb'
          have := lt_asymm x1
          simp_all
    subst hab
    have : l1 = l2 := by
      apply sorted_ext (sorted_tail h1) (sorted_tail h2)
      intro x
      constructor
      · intro hx
        have := (h x).mp (List.mem_cons_of_mem _ hx)
        rcases List.mem_cons.mp this with e | m
        · have := sorted_allGt h1 x hx; rw [e] at this; simp [lt_irrefl] at this
        · exact m
      · intro hx
        have := (h x).mpr (List.mem_cons_of_mem _ hx)
        rcases List.mem_cons.mp this with e | m
        · have := sorted_allGt h2 x hx; rw [e] at this; simp [lt_irrefl] at this
        · exact m
    rw [this]

end Val

/-! ## values of one (R0-free) type are totally ordered; set operations preserve typing -/
namespace Ty
open Val

mutual
/-- the typification does not mention the any-type `R0` -/
def noAny : Ty → Bool
  | .base id => id != "R0"
  | .tuple cs => noAnyList cs
  | .coll b => noAny b
def noAnyList : List Ty → Bool
  | [] => true
  | ty :: ts => noAny ty && noAnyList ts
end

theorem hasTyAll_iff {xs : List Val} {b : Ty} : hasTyAll xs b = true ↔ ∀ x ∈ xs, hasTy x b = true := by
  induction xs with
  | nil => simp [hasTyAll]
  | cons x xs ih => simp [hasTyAll, ih]

theorem hasTyList_length : ∀ {vs : List Val} {ts : List Ty}, hasTyList vs ts = true → vs.length = ts.length
  | [], [], _ => rfl
  | v :: vs, ty :: ts, h => by
    simp only [hasTyList, Bool.and_eq_true] at h
    simp [hasTyList_length h.2]
  | [], _ :: _, h | _ :: _, [], h => by simp [hasTyList] at h

mutual
theorem typed_comparable : ∀ (a b : Val) (τ : Ty), noAny τ = true → hasTy a τ = true → hasTy b τ = true →
    cmp a b ≠ .inc
  | .e x, .e y, _, _, _, _ => by
    simp only [cmp]; split
    · simp
    · split <;> simp
  | .t as, .t bs, .tuple ts, hn, ha, hb => by
    simp only [hasTy] at ha hb
    simp only [noAny] at hn
    have hl : as.length = bs.length := by rw [hasTyList_length ha, hasTyList_length hb]
    simp only [cmp, hl, ne_eq, not_true_eq_false, if_false]
    exact typedList_comparable as bs ts hn ha hb
  | .s as, .s bs, .coll τ, hn, ha, hb => by
    simp only [hasTy] at ha hb
    simp only [noAny] at hn
    simp only [cmp]
    split
    · simp
    · split
      · simp
      · exact typedAll_comparable as bs τ hn ha hb
  | .e _, .t _, .base id, hn, _, hb | .e _, .s _, .base id, hn, _, hb => by
    simp [noAny] at hn; simp [hasTy, hn] at hb
  | .t _, _, .base id, hn, ha, _ | .s _, _, .base id, hn, ha, _ => by
    simp [noAny] at hn; simp [hasTy, hn] at ha
  | .e _, _, .tuple _, _, ha, _ | .e _, _, .coll _, _, ha, _ | .t _, _, .coll _, _, ha, _
  | .s _, _, .tuple _, _, ha, _ => by simp [hasTy] at ha
  | .t _, .e _, .tuple _, _, _, hb | .t _, .s _, .tuple _, _, _, hb | .s _, .e _, .coll _, _, _, hb
  | .s _, .t _, .coll _, _, _, hb => by simp [hasTy] at hb
theorem typedList_comparable : ∀ (as bs : List Val) (ts : List Ty), noAnyList ts = true →
    hasTyList as ts = true → hasTyList bs ts = true → cmpLex as bs ≠ .inc
  | [], _, _, _, _, _ => by simp [cmpLex]
  | _ :: _, [], _, _, _, _ => by simp [cmpLex]
  | a :: as, b :: bs, ty :: ts, hn, ha, hb => by
    simp only [hasTyList, Bool.and_eq_true] at ha hb
    simp only [noAnyList, Bool.and_eq_true] at hn
    simp only [cmpLex]
    have h1 := typed_comparable a b ty hn.1 ha.1 hb.1
    have h2 := typedList_comparable as bs ts hn.2 ha.2 hb.2
    cases hc : cmp a b <;> simp_all
  | _ :: _, _ :: _, [], _, ha, _ => by simp [hasTyList] at ha
theorem typedAll_comparable : ∀ (as bs : List Val) (τ : Ty), noAny τ = true →
    hasTyAll as τ = true → hasTyAll bs τ = true → cmpLex as bs ≠ .inc
  | [], _, _, _, _, _ => by simp [cmpLex]
  | _ :: _, [], _, _, _, _ => by simp [cmpLex]
  | a :: as, b :: bs, τ, hn, ha, hb => by
    simp only [hasTyAll, Bool.and_eq_true] at ha hb
    simp only [cmpLex]
    have h1 := typed_comparable a b τ hn ha.1 hb.1
    have h2 := typedAll_comparable as bs τ hn ha.2 hb.2
    cases hc : cmp a b <;> simp_all
end

/-- members of sets of one R0-free type are pairwise comparable -/
theorem typed_pairComparable {l : List Val} {τ : Ty} (hn : noAny τ = true) (h : hasTyAll l τ = true) :
    PairComparable l :=
  fun a ha b hb => typed_comparable a b τ hn (hasTyAll_iff.mp h a ha) (hasTyAll_iff.mp h b hb)

theorem hasTyAll_insert {x : Val} {l : List Val} {b : Ty} (hx : hasTy x b = true) (hl : hasTyAll l b = true) :
    hasTyAll (Val.insert x l) b = true := by
  rw [hasTyAll_iff] at *
  intro y hy
  rcases mem_insert_of hy with e | m
  · rw [e]; exact hx
  · exact hl y m

theorem hasTyAll_insertAll {xs acc : List Val} {b : Ty} (hx : hasTyAll xs b = true) (ha : hasTyAll acc b = true) :
    hasTyAll (insertAll acc xs) b = true := by
  rw [hasTyAll_iff] at *
  intro y hy
  rcases mem_insertAll_of xs hy with m | m
  · exact ha y m
  · exact hx y m

theorem hasTyAll_filter {xs : List Val} {b : Ty} (p : Val → Bool) (hx : hasTyAll xs b = true) :
    hasTyAll (xs.filter p) b = true := by
  rw [hasTyAll_iff] at *
  intro y hy
  exact hx y (List.mem_filter.mp hy).1

end Ty
end CCVerif.Eval
