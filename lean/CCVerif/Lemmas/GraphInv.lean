import CCVerif.Model.Graph
/-! Representation invariant of the CGraph model (shared by all C14 lemma files). -/
namespace CCVerif.Graph

structure Inv (g : G) : Prop where
  /-- live vertices have distinct uids (`verticies` is a map) -/
  uidInj : ∀ i j, i < g.length → j < g.length → (vx g i).valid = true → (vx g j).valid = true →
    (vx g i).uid = (vx g j).uid → i = j
  /-- adjacency entries are slots of live vertices -/
  outRange : ∀ i, i < g.length → ∀ o ∈ (vx g i).outputs, o < g.length ∧ (vx g o).valid = true
  inRange : ∀ i, i < g.length → ∀ k ∈ (vx g i).inputs, k < g.length ∧ (vx g k).valid = true
  /-- `outputs` and `inputs` mirror each other -/
  sym : ∀ i j, i < g.length → j < g.length → (j ∈ (vx g i).outputs ↔ i ∈ (vx g j).inputs)
  /-- no duplicate edge -/
  outNodup : ∀ i, i < g.length → (vx g i).outputs.Nodup
  inNodup : ∀ i, i < g.length → (vx g i).inputs.Nodup
  /-- tombstones are isolated -/
  dead : ∀ i, i < g.length → (vx g i).valid = false → (vx g i).inputs = [] ∧ (vx g i).outputs = []

theorem inv_empty : Inv empty := by
  constructor <;> intro i <;> simp [empty]

end CCVerif.Graph
