import CCVerif.Model.Checker
import CCVerif.Lemmas.CheckerEquivariant
import CCVerif.Lemmas.CheckerHomTypes2
/-!
STABILITY of the type checker (`Model/Checker.lean`) under an IDENTIFICATION of names (C12, the
semantic clause for the real checker model): a map `g` of the global identifiers (payload of the
ID_GLOBAL / ID_FUNCTION / ID_PREDICATE tokens) and a map `τ.b` of the base names of typifications,
NEITHER of them injective. If `check Γ e` SUCCEEDS with the type `t`, then `check Γ' (renAst g e)`
succeeds with the type `hRE τ t` (same log, declared arguments with their types renamed), provided

* `CtxHom`: the traits go along (`TraitsHom`: identified base names have the same traits — like with
  like), `isTypification` is the same;
* `TreeH` — per node: for a global token `s`: `Γ'` shows at `g s` the renamed entries of `Γ` at `s`
  (type and declared arguments); a radical token's text is fixed by `τ.b`; `τ.b = g` on the declared
  name of `X1:==`; the variable of an argument declaration keeps its name; the node is NO FUNCTION CALL
  (NT_FUNC_CALL — templated calls are not covered here).

Nothing is claimed when `check Γ e` fails: identification only makes more expressions well typed.
The proof is the induction over the rules of `Lemmas/CheckerEquivariant.lean` with the equalities
replaced by a simulation of successful runs (`Sim`); injectivity is replaced by `merge_inj` /
`merge_stable` / `compat_hom` / `merge_hom` (Lemmas/CheckerHomTypes.lean): a successful `Merge` of two
types with one image is a merge of equal types, so successful runs stay in lock-step.
-/
namespace CCVerif.Checker
open CCVerif CCVerif.Syntax CCVerif.Types

/-- an identification for the checker -/
structure CHom where
  /-- on global identifiers (tree payloads) -/
  g : String → String
  /-- on the base names of typifications -/
  τ : THom

def hDecl (h : CHom) (d : List (String × Ty)) : List (String × Ty) := d.map fun p => (p.1, hR h.τ p.2)
def hLocal (h : CHom) (v : LocalData) : LocalData := { v with type := hR h.τ v.type }
def hSt (h : CHom) (s : St) : St :=
  { s with cur := hRE h.τ s.cur, locals := s.locals.map (hLocal h), args := hDecl h s.args }

/-- the two contexts: traits go along, same mode -/
structure CtxHom (h : CHom) (Γ Γ' : Ctx) : Prop where
  traits : TraitsHom h.τ Γ.traits Γ'.traits
  isTyp : Γ'.isTypification = Γ.isTypification

/-- `m'` from the renamed state does everything `m` does, renamed (all outcomes) -/
def EqvH {α : Type} (h : CHom) (φ : α → α) (m' m : M α) : Prop :=
  ∀ s, m' (hSt h s) = (mapRes φ (m s).1, hSt h (m s).2)

/-- `m'` from the renamed state simulates the SUCCESSFUL runs of `m` -/
def Sim {α : Type} (h : CHom) (φ : α → α) (m' m : M α) : Prop :=
  ∀ s a s1, m s = (.ok a, s1) → m' (hSt h s) = (.ok (φ a), hSt h s1)

/-- `m` never succeeds -/
def NeverOk {α : Type} (m : M α) : Prop := ∀ s a s1, m s ≠ (.ok a, s1)

variable {h : CHom}

/-! ## the monad -/

theorem EqvH.sim {α} {φ : α → α} {m' m : M α} (e : EqvH h φ m' m) : Sim h φ m' m := by
  intro s a s1 hs
  rw [e s, hs]; rfl

theorem sim_never {α} {φ : α → α} {m' m : M α} (hn : NeverOk m) : Sim h φ m' m :=
  fun s a s1 hs => absurd hs (hn s a s1)

theorem neverOk_errFail {α} (eid : Nat) (pos : Int) : NeverOk (errFail eid pos : M α) := by
  intro s a s1 hs; cases hs
theorem neverOk_failSilent {α} : NeverOk (failSilent : M α) := by
  intro s a s1 hs; cases hs
theorem neverOk_stuck {α} (x : String) : NeverOk (stuckM x : M α) := by
  intro s a s1 hs; cases hs
theorem neverOk_errFailTok {α} (a : Ast) (eid : Nat) (pos : Int) : NeverOk (errFailTok a eid pos : M α) := by
  unfold errFailTok
  split
  · exact neverOk_stuck _
  · exact neverOk_errFail _ _
theorem neverOk_bind_right {α β} {m : M α} {f : α → M β} (hf : ∀ a, NeverOk (f a)) : NeverOk (M.bind m f) := by
  intro s b s2 hs
  unfold M.bind at hs
  cases hms : m s with
  | mk res s1 =>
    rw [hms] at hs
    cases res with
    | ok a => exact hf a s1 b s2 hs
    | fail => cases hs
    | stuck x => cases hs
theorem neverOk_ite {α} {c : Prop} [Decidable c] {m1 m2 : M α} (h1 : NeverOk m1) (h2 : NeverOk m2) :
    NeverOk (if c then m1 else m2) := by
  split
  · exact h1
  · exact h2

/-- closes `Sim … m' m` when `m` visibly never succeeds -/
macro "nok" : tactic =>
  `(tactic| (apply sim_never; repeat (first
    | exact neverOk_errFail _ _ | exact neverOk_failSilent | exact neverOk_stuck _
    | exact neverOk_errFailTok _ _ _ | (apply neverOk_ite) | (apply neverOk_bind_right; intro _))))

theorem sim_pure {α} {φ : α → α} {a' a : α} (e : a' = φ a) : Sim h φ (M.pure a') (M.pure a) := by
  intro s x s1 hs
  cases hs
  subst e; rfl

theorem sim_bind {α β} {φ : α → α} {ψ : β → β} {m' m : M α} {f' f : α → M β}
    (hm : Sim h φ m' m) (hf : ∀ a, Sim h ψ (f' (φ a)) (f a)) : Sim h ψ (M.bind m' f') (M.bind m f) := by
  intro s b s2 hs
  unfold M.bind at hs ⊢
  cases hms : m s with
  | mk res s1 =>
    rw [hms] at hs
    cases res with
    | ok a => rw [hm s a s1 hms]; exact hf a s1 b s2 hs
    | fail => cases hs
    | stuck x => cases hs

theorem sim_getSt : Sim h (hSt h) getSt getSt := EqvH.sim fun _ => rfl
theorem sim_setCur {t' t : ExprTy} (e : t' = hRE h.τ t) : Sim h id (setCur t') (setCur t) := by
  subst e; exact EqvH.sim fun _ => rfl
theorem sim_modify {f' f : St → St} (e : ∀ s, f' (hSt h s) = hSt h (f s)) :
    Sim h id (modifySt f') (modifySt f) := by
  refine EqvH.sim fun s => ?_
  show (Res.ok (), f' (hSt h s)) = _
  rw [e]; rfl

/-- a test that can only become more permissive -/
theorem sim_ite {α} {φ : α → α} {c' c : Bool} {e' e m' m : M α} (himp : c = false → c' = false)
    (he : NeverOk e) (hm : Sim h φ m' m) : Sim h φ (if c' then e' else m') (if c then e else m) := by
  cases hc : c with
  | true => simp only [if_true]; exact sim_never he
  | false => rw [himp hc]; simp only [Bool.false_eq_true, if_false]; exact hm

/-! ## moving in the tree -/

/-- the renamed visitor simulates the visitor on the children of `a` -/
def VS (h : CHom) (v' v : Visitor) (a : Ast) : Prop :=
  ∀ k ∈ a.kids, ∀ p, Sim h id (v' p (renAst h.g k)) (v p k)

section tree
variable {v' v : Visitor} {a : Ast}

theorem sim_kidM (i : Nat) : Sim h (renAst h.g) (kidM (renAst h.g a) i) (kidM a i) := by
  unfold kidM
  rw [renAst_kid]
  cases a.kid i with
  | none => nok
  | some k => exact sim_pure rfl

theorem sim_visitChild (hv : VS h v' v a) (i : Nat) :
    Sim h id (visitChild v' (renAst h.g a) i) (visitChild v a i) := by
  unfold visitChild kidM
  rw [renAst_kid, renAst_id]
  cases hk : a.kid i with
  | none => nok
  | some k => exact hv k (kid_mem' hk) _

theorem sim_visitAll (p : Tok) : ∀ ks : List Ast, (∀ k ∈ ks, ∀ q, Sim h id (v' q (renAst h.g k)) (v q k)) →
    Sim h id (visitAll v' p (ks.map (renAst h.g))) (visitAll v p ks)
  | [], _ => sim_pure rfl
  | k :: ks, hk => by
    rw [List.map_cons]
    unfold visitAll
    exact sim_bind (hk k (List.mem_cons_self ..) _)
      (fun _ => sim_visitAll p ks (fun k' hk' => hk k' (List.mem_cons_of_mem _ hk')))

theorem sim_childType (hv : VS h v' v a) (i : Nat) :
    Sim h (hRE h.τ) (childType v' (renAst h.g a) i) (childType v a i) := by
  unfold childType kidM
  rw [renAst_kid, renAst_id]
  cases hk : a.kid i with
  | none => nok
  | some k =>
    intro s t s1 hs
    simp only [Option.map_some, bind_pure_left'] at hs ⊢
    cases hvs : v (some a.id) k s with
    | mk res s2 =>
      rw [hvs] at hs
      cases res with
      | ok u =>
        have := hv k (kid_mem' hk) (some a.id) s u s2 hvs
        rw [this]
        cases hs
        rfl
      | fail => cases hs
      | stuck _ => cases hs

theorem sim_expectTy (site : String) : ∀ t : ExprTy,
    Sim h (hR h.τ) (expectTy site (hRE h.τ t)) (expectTy site t)
  | .ty _ => sim_pure rfl
  | .logic => by nok

theorem sim_childTypeDebool (hv : VS h v' v a) (i eid : Nat) (b : Bool) :
    Sim h (hR h.τ) (childTypeDebool v' (renAst h.g a) i eid b) (childTypeDebool v a i eid b) := by
  unfold childTypeDebool
  refine sim_bind (sim_childType hv i) (fun x => ?_)
  cases x with
  | logic => nok
  | ty t =>
    simp only [renE]
    rw [isAny_hR]
    split
    · exact sim_pure rfl
    · cases t with
      | coll b => exact sim_pure rfl
      | base _ => nok
      | tuple _ => nok

/-! ## scopes and local variables -/

theorem sim_startScope : Sim h id startScope startScope := by
  unfold startScope
  refine sim_modify (fun s => ?_)
  simp only [hSt, List.map_map]
  rfl

theorem endScopeGo_h (noWarn : Bool) (pos : Int) : ∀ ls : List LocalData,
    endScopeGo noWarn pos (ls.map (hLocal h)) =
      ((endScopeGo noWarn pos ls).1.map (hLocal h), (endScopeGo noWarn pos ls).2)
  | [] => rfl
  | x :: xs => by
    have ih := endScopeGo_h noWarn pos xs
    obtain ⟨nm, ty, lvl, uc, en⟩ := x
    show endScopeGo noWarn pos (⟨nm, hR h.τ ty, lvl, uc, en⟩ :: xs.map (hLocal h)) = _
    unfold endScopeGo
    rw [ih]
    dsimp only
    split
    · split <;> rfl
    · rfl

theorem sim_endScope (pos : Int) : Sim h id (endScope pos) (endScope pos) := by
  unfold endScope
  refine sim_modify (fun s => ?_)
  simp only [hSt]
  rw [endScopeGo_h]
  rfl

theorem findLocal_h (name : String) : ∀ ls : List LocalData,
    findLocal name (ls.map (hLocal h)) = (findLocal name ls).map (fun p => (p.1, hLocal h p.2))
  | [] => rfl
  | x :: xs => by
    have ih := findLocal_h name xs
    obtain ⟨nm, ty, lvl, uc, en⟩ := x
    show findLocal name (⟨nm, hR h.τ ty, lvl, uc, en⟩ :: xs.map (hLocal h)) = _
    unfold findLocal
    rw [ih]
    dsimp only
    split
    · rfl
    · cases findLocal name xs <;> rfl

theorem sim_addLocal (name : String) (t : Ty) (pos : Int) :
    Sim h id (addLocal name (hR h.τ t) pos) (addLocal name t pos) := by
  refine EqvH.sim fun s => ?_
  unfold addLocal
  simp only [hSt]
  rw [findLocal_h]
  cases hf : findLocal name s.locals with
  | none =>
    simp only [Option.map_none, mapRes, id, List.map_append, List.map_cons, List.map_nil, hLocal]
  | some p =>
    obtain ⟨i, w⟩ := p
    simp only [Option.map_some, hLocal]
    split
    · rfl
    · simp only [mapRes, id]
      rw [List.map_set]
      rfl

theorem sim_getLocal (name : String) (pos : Int) :
    Sim h (hR h.τ) (getLocal name pos) (getLocal name pos) := by
  refine EqvH.sim fun s => ?_
  unfold getLocal
  simp only [hSt]
  rw [findLocal_h]
  cases hf : findLocal name s.locals with
  | none =>
    simp only [Option.map_none]
    by_cases hh : s.argDecl > 0
    · simp only [hh, ↓reduceIte]; rfl
    · simp only [hh, ↓reduceIte]; rfl
  | some p =>
    obtain ⟨i, w⟩ := p
    simp only [Option.map_some, hLocal]
    cases hen : w.enabled
    · rfl
    · simp only [mapRes, Bool.not_true, Bool.false_eq_true, ↓reduceIte]
      rw [List.map_set]
      rfl

theorem sim_clearLocals : Sim h id clearLocals clearLocals := by
  unfold clearLocals
  refine sim_modify (fun s => ?_)
  simp only [hSt]
  rw [List.filter_map]
  rfl

theorem sim_visitChildDecl (hv : VS h v' v a) (i : Nat) (d : Ty) :
    Sim h id (visitChildDecl v' (renAst h.g a) i (hR h.τ d)) (visitChildDecl v a i d) := by
  unfold visitChildDecl
  refine sim_bind (sim_setCur rfl) (fun _ => ?_)
  refine sim_bind (sim_modify (fun s => rfl)) (fun _ => ?_)
  refine sim_bind (sim_visitChild hv i) (fun _ => ?_)
  refine sim_bind (sim_modify (fun s => rfl)) (fun _ => ?_)
  exact sim_setCur rfl

theorem sim_tupleOfData : Sim h id (tupleOfData (renAst h.g a)) (tupleOfData a) := by
  unfold tupleOfData
  rw [renAst_data]
  cases hd : a.data with
  | text s => nok
  | tuple l => rw [renData_not_text _ _ (by intro s h; cases h)]; exact sim_pure rfl
  | none => nok
  | int _ => nok

theorem sim_mkTuple (site : String) (cs : List Ty) :
    Sim h (hR h.τ) (mkTuple site (hRL h.τ cs)) (mkTuple site cs) := by
  unfold mkTuple
  rw [isEmpty_hRL]
  split
  · nok
  · exact sim_pure (tupleOf_hRL h.τ cs).symm

end tree

theorem neverOk_bind_left {α β} {m : M α} {f : α → M β} (hm : NeverOk m) : NeverOk (M.bind m f) := by
  intro s b s2 hs
  unfold M.bind at hs
  cases hms : m s with
  | mk res s1 =>
    rw [hms] at hs
    cases res with
    | ok a => exact hm s a s1 hms
    | fail => cases hs
    | stuck x => cases hs

theorem isLogicTy_hRE (t : ExprTy) : isLogicTy (hRE h.τ t) = isLogicTy t := by cases t <;> rfl

theorem isSome_map' {α β} (f : α → β) (o : Option α) : (o.map f).isSome = o.isSome := by cases o <;> rfl

/-! ## the rules -/

section rules
variable {Γ Γ' : Ctx} {v' v : Visitor} {a : Ast}

theorem sim_viGlobal (hg : isGlob a.id = true)
    (hglob : ∀ s, a.data = .text s → lookup Γ'.types (h.g s) = (lookup Γ.types s).map (hRE h.τ) ∧
      lookup Γ'.funcs (h.g s) = (lookup Γ.funcs s).map (hDecl h)) (parent : Option Tok) :
    Sim h id (viGlobal Γ' parent (renAst h.g a)) (viGlobal Γ parent a) := by
  unfold viGlobal textOf
  rw [renAst_data, renAst_lo]
  cases hd : a.data with
  | text s =>
    rw [renData_text, if_pos hg]
    simp only [bind_pure_left']
    obtain ⟨ht, hf⟩ := hglob s hd
    rw [hf, ht, isSome_map']
    split
    · nok
    · cases lookup Γ.types s with
      | none => nok
      | some t =>
        simp only [Option.map_some]
        rw [isLogicTy_hRE]
        split
        · nok
        · exact sim_setCur rfl
  | tuple l => exact sim_never (neverOk_bind_left (neverOk_stuck _))
  | none => exact sim_never (neverOk_bind_left (neverOk_stuck _))
  | int _ => exact sim_never (neverOk_bind_left (neverOk_stuck _))

theorem sim_viRadical (hΓ : CtxHom h Γ Γ') (hid : a.id = .ID_RADICAL) (hfix : ∀ s, a.data = .text s → h.τ.b s = s) :
    Sim h id (viRadical Γ' (renAst h.g a)) (viRadical Γ a) := by
  unfold viRadical textOf
  rw [renAst_data, renAst_lo, renData_nonglob _ (by rw [hid]; rfl), hΓ.isTyp]
  cases hd : a.data with
  | text s =>
    simp only [bind_pure_left']
    refine sim_bind sim_getSt (fun st => ?_)
    show Sim h id (if st.funcDecl == 0 && !Γ.isTypification then _ else _) _
    split
    · nok
    · refine sim_setCur ?_
      show _ = ExprTy.ty (Ty.coll (Ty.base (h.τ.b s)))
      rw [hfix s hd]
  | tuple l => exact sim_never (neverOk_bind_left (neverOk_stuck _))
  | none => exact sim_never (neverOk_bind_left (neverOk_stuck _))
  | int _ => exact sim_never (neverOk_bind_left (neverOk_stuck _))

theorem sim_viLocal (hid : a.id = .ID_LOCAL) :
    Sim h id (viLocal (renAst h.g a)) (viLocal a) := by
  unfold viLocal textOf
  rw [renAst_data, renAst_lo, renData_nonglob _ (by rw [hid]; rfl)]
  cases hd : a.data with
  | text s =>
    simp only [bind_pure_left']
    refine sim_bind sim_getSt (fun st => ?_)
    show Sim h id (if st.localDecl > 0 || st.argDecl > 0 then
      M.bind (expectTy "ViLocal" (hRE h.τ st.cur)) fun t => addLocal s t a.lo else _) _
    split
    · exact sim_bind (sim_expectTy _ _) (fun t => sim_addLocal _ _ _)
    · exact sim_bind (sim_getLocal _ _) (fun t => sim_setCur rfl)
  | tuple l => exact sim_never (neverOk_bind_left (neverOk_stuck _))
  | none => exact sim_never (neverOk_bind_left (neverOk_stuck _))
  | int _ => exact sim_never (neverOk_bind_left (neverOk_stuck _))

theorem sim_viEmptySet (parent : Option Tok) :
    Sim h id (viEmptySet parent (renAst h.g a)) (viEmptySet parent a) := by
  unfold viEmptySet
  rw [renAst_lo]
  split
  · nok
  · exact sim_setCur (by show _ = ExprTy.ty (hR h.τ Ty.emptySet); rw [hR_emptySet])

theorem sim_viFunctionDefinition (hv : VS h v' v a) :
    Sim h id (viFunctionDefinition v' (renAst h.g a)) (viFunctionDefinition v a) := by
  unfold viFunctionDefinition
  rw [renAst_lo]
  refine sim_bind sim_startScope (fun _ => ?_)
  refine sim_bind (sim_modify (fun s => rfl)) (fun _ => ?_)
  refine sim_bind (sim_visitChild hv 0) (fun _ => ?_)
  refine sim_bind (sim_modify (fun s => rfl)) (fun _ => ?_)
  refine sim_bind (sim_childType hv 1) (fun t => ?_)
  refine sim_bind (sim_endScope _) (fun _ => ?_)
  exact sim_setCur rfl

theorem sim_viAllLogic (hv : VS h v' v a) :
    Sim h id (viAllLogic v' (renAst h.g a)) (viAllLogic v a) := by
  unfold viAllLogic
  rw [renAst_id, renAst_kids]
  exact sim_bind (sim_visitAll _ _ hv) (fun _ => sim_setCur rfl)

theorem sim_viCard (hv : VS h v' v a) : Sim h id (viCard v' (renAst h.g a)) (viCard v a) := by
  unfold viCard
  exact sim_bind (sim_childTypeDebool hv _ _ _) (fun _ => sim_setCur (by show _ = ExprTy.ty (hR h.τ Ty.Z); rw [hR_Z]))

theorem sim_viQuantifier (hv : VS h v' v a) :
    Sim h id (viQuantifier v' (renAst h.g a)) (viQuantifier v a) := by
  unfold viQuantifier
  rw [renAst_lo]
  refine sim_bind sim_startScope (fun _ => ?_)
  refine sim_bind (sim_childTypeDebool hv _ _ _) (fun d => ?_)
  refine sim_bind (sim_visitChildDecl hv 0 d) (fun _ => ?_)
  refine sim_bind (sim_visitChild hv 2) (fun _ => ?_)
  refine sim_bind (sim_endScope _) (fun _ => ?_)
  exact sim_setCur rfl

theorem sim_viDeclarative (hv : VS h v' v a) :
    Sim h id (viDeclarative v' (renAst h.g a)) (viDeclarative v a) := by
  unfold viDeclarative
  rw [renAst_lo]
  refine sim_bind sim_startScope (fun _ => ?_)
  refine sim_bind (sim_childTypeDebool hv _ _ _) (fun d => ?_)
  refine sim_bind (sim_visitChildDecl hv 0 d) (fun _ => ?_)
  refine sim_bind (sim_visitChild hv 2) (fun _ => ?_)
  refine sim_bind (sim_endScope _) (fun _ => ?_)
  exact sim_setCur rfl

theorem sim_viImperative (hv : VS h v' v a) :
    Sim h id (viImperative v' (renAst h.g a)) (viImperative v a) := by
  unfold viImperative visitFrom
  rw [renAst_lo, renAst_id, renAst_kids, ← List.map_drop]
  refine sim_bind sim_startScope (fun _ => ?_)
  refine sim_bind (sim_visitAll _ _ (fun k hk => hv k (List.mem_of_mem_drop hk))) (fun _ => ?_)
  refine sim_bind (sim_childType hv 0) (fun t => ?_)
  refine sim_bind (sim_endScope _) (fun _ => ?_)
  refine sim_bind (sim_expectTy _ t) (fun t' => ?_)
  exact sim_setCur rfl

theorem sim_viIterate (hv : VS h v' v a) : Sim h id (viIterate v' (renAst h.g a)) (viIterate v a) := by
  unfold viIterate
  exact sim_bind (sim_childTypeDebool hv _ _ _) (fun d => sim_visitChildDecl hv 0 d)

theorem sim_viAssign (hv : VS h v' v a) : Sim h id (viAssign v' (renAst h.g a)) (viAssign v a) := by
  unfold viAssign
  refine sim_bind (sim_childType hv 1) (fun t => ?_)
  exact sim_bind (sim_expectTy _ t) (fun d => sim_visitChildDecl hv 0 d)

theorem sim_viBoolean (hv : VS h v' v a) : Sim h id (viBoolean v' (renAst h.g a)) (viBoolean v a) := by
  unfold viBoolean
  exact sim_bind (sim_childTypeDebool hv _ _ _) (fun _ => sim_setCur rfl)

theorem sim_viDebool (hv : VS h v' v a) : Sim h id (viDebool v' (renAst h.g a)) (viDebool v a) := by
  unfold viDebool
  exact sim_bind (sim_childTypeDebool hv _ _ _) (fun _ => sim_setCur rfl)

end rules

/-! ## binding a child / a payload with knowledge of where it comes from -/

section rules2
variable {Γ Γ' : Ctx} {v' v : Visitor} {a : Ast}

theorem sim_bind_kidM {β} {ψ : β → β} {f' f : Ast → M β} (i : Nat)
    (hf : ∀ k, a.kid i = some k → Sim h ψ (f' (renAst h.g k)) (f k)) :
    Sim h ψ (M.bind (kidM (renAst h.g a) i) f') (M.bind (kidM a i) f) := by
  unfold kidM
  rw [renAst_kid]
  cases hk : a.kid i with
  | none => exact sim_never (neverOk_bind_left (neverOk_stuck _))
  | some k => exact hf k hk

theorem sim_bind_textOf {β} {ψ : β → β} {k : Ast} {f' f : String → M β}
    (hf : ∀ s, k.data = .text s → Sim h ψ (f' (if isGlob k.id then h.g s else s)) (f s)) :
    Sim h ψ (M.bind (textOf (renAst h.g k)) f') (M.bind (textOf k) f) := by
  unfold textOf
  rw [renAst_data]
  cases hd : k.data with
  | text s => rw [renData_text]; exact hf s hd
  | tuple l => exact sim_never (neverOk_bind_left (neverOk_stuck _))
  | none => exact sim_never (neverOk_bind_left (neverOk_stuck _))
  | int _ => exact sim_never (neverOk_bind_left (neverOk_stuck _))

theorem sim_viGlobalDeclaration (hv : VS h v' v a)
    (hdecl : a.kids.length = 1 → ∀ k0, a.kid 0 = some k0 → ∀ n, k0.data = .text n →
      h.τ.b n = if isGlob k0.id then h.g n else n) :
    Sim h id (viGlobalDeclaration v' (renAst h.g a)) (viGlobalDeclaration v a) := by
  unfold viGlobalDeclaration
  rw [renAst_id, structOk_ren, renAst_kids_length]
  split
  · split
    · nok
    · refine sim_bind (sim_childType hv 1) (fun mt => ?_)
      refine sim_bind (sim_expectTy _ mt) (fun t => ?_)
      cases t with
      | coll b => exact sim_setCur rfl
      | base _ => nok
      | tuple _ => nok
  · split
    · rename_i hlen
      refine sim_bind_kidM 0 (fun k0 hk0 => ?_)
      refine sim_bind_textOf (fun n hn => ?_)
      refine sim_setCur ?_
      show _ = ExprTy.ty (Ty.coll (Ty.base (h.τ.b n)))
      rw [hdecl (by simpa using hlen) k0 hk0 n hn]
    · exact sim_bind (sim_childType hv 1) (fun t => sim_setCur rfl)

theorem sim_viArgument (hv : VS h v' v a)
    (harg : ∀ k0, a.kid 0 = some k0 → ∀ n, k0.data = .text n → isGlob k0.id = true → h.g n = n) :
    Sim h id (viArgument v' (renAst h.g a)) (viArgument v a) := by
  unfold viArgument
  refine sim_bind (sim_childTypeDebool hv _ _ _) (fun d => ?_)
  refine sim_bind (sim_modify (fun s => rfl)) (fun _ => ?_)
  refine sim_bind (sim_visitChild hv 0) (fun _ => ?_)
  refine sim_bind_kidM 0 (fun k0 hk0 => ?_)
  refine sim_bind_textOf (fun n hn => ?_)
  have hname : (if isGlob k0.id then h.g n else n) = n := by
    split
    · rename_i hh; exact harg k0 hk0 n hn hh
    · rfl
  rw [hname]
  refine sim_bind (sim_modify (fun s => ?_)) (fun _ => ?_)
  · simp only [hSt, hDecl, List.map_append, List.map_cons, List.map_nil]
  refine sim_bind (sim_modify (fun s => rfl)) (fun _ => ?_)
  exact sim_setCur rfl

theorem sim_viArithmetic (hΓ : CtxHom h Γ Γ') (hv : VS h v' v a) :
    Sim h id (viArithmetic Γ' v' (renAst h.g a)) (viArithmetic Γ v a) := by
  unfold viArithmetic
  refine sim_bind (sim_childType hv 0) (fun r1 => ?_)
  refine sim_bind (sim_expectTy _ r1) (fun t1 => ?_)
  rw [isArithmetic_hR h.τ hΓ.traits]
  split
  · nok
  · refine sim_bind (sim_childType hv 1) (fun r2 => ?_)
    refine sim_bind (sim_expectTy _ r2) (fun t2 => ?_)
    rw [isArithmetic_hR h.τ hΓ.traits]
    split
    · nok
    · cases hm : merge Γ.traits t1 t2 with
      | none => nok
      | some t => rw [merge_hom h.τ hΓ.traits _ _ _ hm]; exact sim_setCur rfl

theorem not_false_imp {c c' : Bool} (hi : c = true → c' = true) : (!c) = false → (!c') = false := by
  cases c with
  | true => intro _; rw [hi rfl]; rfl
  | false => intro hh; cases hh

theorem sim_viIntegerPredicate (hΓ : CtxHom h Γ Γ') (hv : VS h v' v a) :
    Sim h id (viIntegerPredicate Γ' v' (renAst h.g a)) (viIntegerPredicate Γ v a) := by
  unfold viIntegerPredicate
  refine sim_bind (sim_childType hv 0) (fun r1 => ?_)
  refine sim_bind (sim_expectTy _ r1) (fun t1 => ?_)
  rw [isOrdered_hR h.τ hΓ.traits]
  split
  · nok
  · refine sim_bind (sim_childType hv 1) (fun r2 => ?_)
    refine sim_bind (sim_expectTy _ r2) (fun t2 => ?_)
    rw [isOrdered_hR h.τ hΓ.traits]
    split
    · nok
    · refine sim_ite (not_false_imp (compat_hom h.τ hΓ.traits t1 t2)) ?_ (sim_setCur rfl)
      exact neverOk_bind_right (fun _ => neverOk_errFail _ _)

theorem sim_viEquals (hΓ : CtxHom h Γ Γ') (hv : VS h v' v a) :
    Sim h id (viEquals Γ' v' (renAst h.g a)) (viEquals Γ v a) := by
  unfold viEquals
  refine sim_bind (sim_childType hv 0) (fun r1 => ?_)
  refine sim_bind (sim_expectTy _ r1) (fun t1 => ?_)
  refine sim_bind (sim_childType hv 1) (fun r2 => ?_)
  refine sim_bind (sim_expectTy _ r2) (fun t2 => ?_)
  refine sim_ite (not_false_imp (compat_hom h.τ hΓ.traits t1 t2)) ?_ (sim_setCur rfl)
  exact neverOk_bind_right (fun _ => neverOk_errFail _ _)

theorem sim_viSetexprPredicate (hΓ : CtxHom h Γ Γ') (hv : VS h v' v a) :
    Sim h id (viSetexprPredicate Γ' v' (renAst h.g a)) (viSetexprPredicate Γ v a) := by
  unfold viSetexprPredicate
  rw [renAst_id]
  refine sim_bind (sim_childTypeDebool hv _ _ _) (fun d2 => ?_)
  refine sim_bind (sim_childType hv 0) (fun r1 => ?_)
  have ht : ExprTy.ty (if isSubsetTok a.id = true then Ty.coll (hR h.τ d2) else hR h.τ d2) =
      hRE h.τ (.ty (if isSubsetTok a.id = true then Ty.coll d2 else d2)) := by
    split <;> rfl
  show Sim h id (match compatE Γ'.traits (hRE h.τ r1)
      (ExprTy.ty (if isSubsetTok a.id = true then Ty.coll (hR h.τ d2) else hR h.τ d2)) with
    | none => stuckM "bad_variant_access:AreCompatible"
    | some true => setCur .logic
    | some false => _) _
  rw [ht]
  cases hc : compatE Γ.traits r1 (.ty (if isSubsetTok a.id = true then Ty.coll d2 else d2)) with
  | none => nok
  | some b =>
    cases b with
    | true => rw [compatE_hom h.τ hΓ.traits _ _ hc]; exact sim_setCur rfl
    | false => nok

theorem sim_viSetexprBinary (hΓ : CtxHom h Γ Γ') (hv : VS h v' v a) :
    Sim h id (viSetexprBinary Γ' v' (renAst h.g a)) (viSetexprBinary Γ v a) := by
  unfold viSetexprBinary
  refine sim_bind (sim_childTypeDebool hv _ _ _) (fun t1 => ?_)
  refine sim_bind (sim_childTypeDebool hv _ _ _) (fun t2 => ?_)
  cases hm : merge Γ.traits t1 t2 with
  | none => nok
  | some t => rw [merge_hom h.τ hΓ.traits _ _ _ hm]; exact sim_setCur rfl

theorem anyOrEmptySet_hR (arg : Ty) : anyOrEmptySet (hR h.τ arg) = anyOrEmptySet arg := by
  unfold anyOrEmptySet
  rw [isAny_hR]
  cases arg with
  | coll b => simp only [renTy]; rw [show (renTy h.τ.b b).isAny = b.isAny from isAny_hR h.τ b]
  | base _ => rfl
  | tuple _ => rfl

theorem sim_viReduce (hv : VS h v' v a) : Sim h id (viReduce v' (renAst h.g a)) (viReduce v a) := by
  unfold viReduce
  refine sim_bind (sim_childType hv 0) (fun r1 => ?_)
  refine sim_bind (sim_expectTy _ r1) (fun arg => ?_)
  rw [anyOrEmptySet_hR]
  split
  · exact sim_setCur (by show _ = ExprTy.ty (hR h.τ Ty.emptySet); rw [hR_emptySet])
  · cases arg with
    | coll b =>
      cases b with
      | coll c => exact sim_setCur rfl
      | base _ => nok
      | tuple _ => nok
    | base _ => nok
    | tuple _ => nok

end rules2

/-! ## the rules with loops -/

theorem sim_ite' {α} {φ : α → α} {c' c : Bool} {e' e m' m : M α} (himp : c = true → c' = true)
    (hm : Sim h φ m' m) (he : NeverOk e) : Sim h φ (if c' then m' else e') (if c then m else e) := by
  cases hc : c with
  | false => simp only [Bool.false_eq_true, if_false]; exact sim_never he
  | true => rw [himp hc]; simp only [if_true]; exact hm

section rules3
variable {Γ Γ' : Ctx} {v' v : Visitor} {a : Ast}

theorem sim_tupleDeclGo (p : Tok) : ∀ (ks : List Ast) (cs : List Ty),
    (∀ k ∈ ks, ∀ q, Sim h id (v' q (renAst h.g k)) (v q k)) →
    Sim h id (tupleDeclGo v' p (ks.map (renAst h.g)) (hRL h.τ cs)) (tupleDeclGo v p ks cs)
  | [], _, _ => sim_pure rfl
  | _ :: _, [], _ => by nok
  | k :: ks, c :: cs, hk => by
    rw [List.map_cons]
    show Sim h id (tupleDeclGo v' p (renAst h.g k :: ks.map (renAst h.g)) (hR h.τ c :: hRL h.τ cs)) _
    unfold tupleDeclGo
    refine sim_bind (sim_setCur rfl) (fun _ => ?_)
    refine sim_bind (hk k (List.mem_cons_self ..) _) (fun _ => ?_)
    exact sim_tupleDeclGo p ks cs (fun k' hk' => hk k' (List.mem_cons_of_mem _ hk'))

theorem sim_viTupleDeclaration (hv : VS h v' v a) :
    Sim h id (viTupleDeclaration v' (renAst h.g a)) (viTupleDeclaration v a) := by
  unfold viTupleDeclaration
  refine sim_bind sim_getSt (fun st => ?_)
  show Sim h id (M.bind (expectTy "ViTupleDeclaration" (hRE h.τ st.cur)) _) _
  refine sim_bind (sim_expectTy _ _) (fun t => ?_)
  cases t with
  | tuple cs =>
    simp only [renTy]
    rw [renAst_kids_length, show (renTyL h.τ.b cs).length = cs.length from length_hRL h.τ cs, renAst_id, renAst_kids]
    split
    · nok
    · exact sim_bind (sim_tupleDeclGo _ _ _ hv) (fun _ => sim_setCur rfl)
  | base _ => nok
  | coll _ => nok

theorem sim_deboolAll (hv : VS h v' v a) (eid : Nat) : ∀ (n i : Nat),
    Sim h (hRL h.τ) (deboolAll v' (renAst h.g a) eid n i) (deboolAll v a eid n i)
  | 0, _ => sim_pure rfl
  | n+1, i => by
    unfold deboolAll
    refine sim_bind (sim_childTypeDebool hv _ _ _) (fun t => ?_)
    refine sim_bind (sim_deboolAll hv eid n (i + 1)) (fun ts => ?_)
    exact sim_pure rfl

theorem sim_viDecart (hv : VS h v' v a) : Sim h id (viDecart v' (renAst h.g a)) (viDecart v a) := by
  unfold viDecart
  rw [renAst_kids_length]
  refine sim_bind (sim_deboolAll hv _ _ _) (fun fs => ?_)
  exact sim_bind (sim_mkTuple _ fs) (fun t => sim_setCur rfl)

theorem sim_typesAll (hv : VS h v' v a) (site : String) : ∀ (n i : Nat),
    Sim h (hRL h.τ) (typesAll v' (renAst h.g a) site n i) (typesAll v a site n i)
  | 0, _ => sim_pure rfl
  | n+1, i => by
    unfold typesAll
    refine sim_bind (sim_childType hv _) (fun r1 => ?_)
    refine sim_bind (sim_expectTy _ r1) (fun t => ?_)
    refine sim_bind (sim_typesAll hv site n (i + 1)) (fun ts => ?_)
    exact sim_pure rfl

theorem sim_viTuple (hv : VS h v' v a) : Sim h id (viTuple v' (renAst h.g a)) (viTuple v a) := by
  unfold viTuple
  rw [renAst_kids_length]
  refine sim_bind (sim_typesAll hv _ _ _) (fun cs => ?_)
  exact sim_bind (sim_mkTuple _ cs) (fun t => sim_setCur rfl)

theorem sim_enumGo (hΓ : CtxHom h Γ Γ') (hv : VS h v' v a) : ∀ (n child : Nat) (t : Ty),
    Sim h (hR h.τ) (enumGo Γ' v' (renAst h.g a) n child (hR h.τ t)) (enumGo Γ v a n child t)
  | 0, _, _ => sim_pure rfl
  | n+1, child, t => by
    unfold enumGo
    refine sim_bind (sim_childType hv _) (fun r1 => ?_)
    refine sim_bind (sim_expectTy _ r1) (fun ct => ?_)
    cases hm : merge Γ.traits t ct with
    | none => nok
    | some m => rw [merge_hom h.τ hΓ.traits _ _ _ hm]; exact sim_enumGo hΓ hv n (child + 1) m

theorem sim_viEnumeration (hΓ : CtxHom h Γ Γ') (hv : VS h v' v a) :
    Sim h id (viEnumeration Γ' v' (renAst h.g a)) (viEnumeration Γ v a) := by
  unfold viEnumeration
  rw [renAst_kids_length]
  refine sim_bind (sim_childType hv _) (fun r1 => ?_)
  refine sim_bind (sim_expectTy _ r1) (fun t0 => ?_)
  exact sim_bind (sim_enumGo hΓ hv _ _ t0) (fun t => sim_setCur rfl)

theorem pickComponents_hRL (cs : List Ty) : ∀ idx : List Int,
    pickComponents (hRL h.τ cs) idx = (pickComponents cs idx).map (hRL h.τ)
  | [] => rfl
  | i :: is => by
    unfold pickComponents
    rw [testIndex_hRL, component_hRL, pickComponents_hRL cs is]
    split
    · cases Ty.component? cs i with
      | none => rfl
      | some c => cases pickComponents cs is <;> rfl
    · rfl

theorem sim_viProjectSet (hv : VS h v' v a) :
    Sim h id (viProjectSet v' (renAst h.g a)) (viProjectSet v a) := by
  unfold viProjectSet
  refine sim_bind (sim_childTypeDebool hv _ _ _) (fun arg => ?_)
  rw [isAny_hR]
  split
  · exact sim_setCur (by show _ = ExprTy.ty (hR h.τ Ty.emptySet); rw [hR_emptySet])
  · cases arg with
    | tuple cs =>
      simp only [renTy]
      refine sim_bind sim_tupleOfData (fun idx => ?_)
      simp only [id]
      rw [show pickComponents (renTyL h.τ.b cs) idx = _ from pickComponents_hRL cs idx]
      cases pickComponents cs idx with
      | none => nok
      | some comps => exact sim_bind (sim_mkTuple _ comps) (fun t => sim_setCur rfl)
    | base _ => nok
    | coll _ => nok

theorem sim_viProjectTuple (hv : VS h v' v a) :
    Sim h id (viProjectTuple v' (renAst h.g a)) (viProjectTuple v a) := by
  unfold viProjectTuple
  refine sim_bind (sim_childType hv _) (fun r1 => ?_)
  refine sim_bind (sim_expectTy _ r1) (fun arg => ?_)
  rw [isAny_hR]
  split
  · exact sim_setCur rfl
  · cases arg with
    | tuple cs =>
      simp only [renTy]
      refine sim_bind sim_tupleOfData (fun idx => ?_)
      simp only [id]
      rw [show pickComponents (renTyL h.τ.b cs) idx = _ from pickComponents_hRL cs idx]
      cases pickComponents cs idx with
      | none => nok
      | some comps => exact sim_bind (sim_mkTuple _ comps) (fun t => sim_setCur rfl)
    | base _ => nok
    | coll _ => nok

theorem sim_filterParamsGo (hΓ : CtxHom h Γ Γ') (hv : VS h v' v a) : ∀ (n child : Nat) (bases : List Ty),
    Sim h id (filterParamsGo Γ' v' (renAst h.g a) n child (hRL h.τ bases))
      (filterParamsGo Γ v a n child bases)
  | 0, _, _ => sim_pure rfl
  | n+1, child, bases => by
    unfold filterParamsGo
    refine sim_bind (sim_childType hv _) (fun r1 => ?_)
    refine sim_bind (sim_expectTy _ r1) (fun pt => ?_)
    cases bases with
    | nil => nok
    | cons b rest =>
      simp only [renTyL]
      cases pt with
      | coll pb =>
        simp only [renTy]
        exact sim_ite' (compat_hom h.τ hΓ.traits b pb) (sim_filterParamsGo hΓ hv n (child + 1) rest)
          (neverOk_bind_right (fun _ => neverOk_errFail _ _))
      | base _ => nok
      | tuple _ => nok

theorem sim_visitParamsGo (hv : VS h v' v a) : ∀ (n child : Nat),
    Sim h id (visitParamsGo v' (renAst h.g a) n child) (visitParamsGo v a n child)
  | 0, _ => sim_pure rfl
  | n+1, child => by
    unfold visitParamsGo
    exact sim_bind (sim_childType hv _) (fun _ => sim_visitParamsGo hv n (child + 1))

theorem sim_viFilter (hΓ : CtxHom h Γ Γ') (hv : VS h v' v a) :
    Sim h id (viFilter Γ' v' (renAst h.g a)) (viFilter Γ v a) := by
  unfold viFilter
  rw [renAst_kids_length, renAst_lo]
  refine sim_bind sim_tupleOfData (fun idx => ?_)
  simp only [id]
  split
  · nok
  · refine sim_bind (sim_childType hv _) (fun r1 => ?_)
    refine sim_bind (sim_expectTy _ r1) (fun arg => ?_)
    rw [anyOrEmptySet_hR]
    split
    · exact sim_bind (sim_visitParamsGo hv _ _)
        (fun _ => sim_setCur (by show _ = ExprTy.ty (hR h.τ Ty.emptySet); rw [hR_emptySet]))
    · cases arg with
      | coll b =>
        cases b with
        | tuple cs =>
          simp only [renTy]
          rw [show pickComponents (renTyL h.τ.b cs) idx = _ from pickComponents_hRL cs idx]
          cases pickComponents cs idx with
          | none => nok
          | some bases =>
            simp only [Option.map_some]
            split
            · exact sim_bind (sim_filterParamsGo hΓ hv _ _ bases) (fun _ => sim_setCur rfl)
            · refine sim_bind (sim_childType hv 0) (fun pr => ?_)
              refine sim_bind (sim_expectTy _ pr) (fun pt => ?_)
              refine sim_bind (sim_mkTuple _ bases) (fun et => ?_)
              refine sim_ite' ?_ (sim_setCur rfl) (neverOk_bind_right (fun _ => neverOk_errFail _ _))
              intro hc
              simp only [Bool.and_eq_true] at hc ⊢
              exact ⟨by rw [isColl_hR]; exact hc.1, compat_hom h.τ hΓ.traits (Ty.coll et) pt hc.2⟩
        | base _ => nok
        | coll _ => nok
      | base _ => nok
      | tuple _ => nok

end rules3

/-! ## recursion -/

/-- simulation of the successful runs whose result satisfies `P` -/
def SimP {α : Type} (h : CHom) (φ : α → α) (P : α → Prop) (m' m : M α) : Prop :=
  ∀ s a s1, m s = (.ok a, s1) → P a → m' (hSt h s) = (.ok (φ a), hSt h s1)

theorem simP_bind {α β} {φ : α → α} {ψ : β → β} {P : β → Prop} {m' m : M α} {f' f : α → M β}
    (hm : Sim h φ m' m) (hf : ∀ a, SimP h ψ P (f' (φ a)) (f a)) : SimP h ψ P (M.bind m' f') (M.bind m f) := by
  intro s b s2 hs hp
  unfold M.bind at hs ⊢
  cases hms : m s with
  | mk res s1 =>
    rw [hms] at hs
    cases res with
    | ok a => rw [hm s a s1 hms]; exact hf a s1 b s2 hs hp
    | fail => cases hs
    | stuck x => cases hs

theorem sim_bindP {α β} {φ : α → α} {ψ : β → β} {P : α → Prop} {m' m : M α} {f' f : α → M β}
    (hm : SimP h φ P m' m) (hf : ∀ a, P a → Sim h ψ (f' (φ a)) (f a)) (hn : ∀ a, ¬ P a → NeverOk (f a)) :
    Sim h ψ (M.bind m' f') (M.bind m f) := by
  intro s b s2 hs
  unfold M.bind at hs ⊢
  cases hms : m s with
  | mk res s1 =>
    rw [hms] at hs
    cases res with
    | ok a =>
      by_cases hp : P a
      · rw [hm s a s1 hms hp]; exact hf a hp s1 b s2 hs
      · exact absurd hs (hn a hp s1 b s2)
    | fail => cases hs
    | stuck x => cases hs

theorem simP_pure {α} {φ : α → α} {P : α → Prop} {a' a : α} (e : P a → a' = φ a) :
    SimP h φ P (M.pure a') (M.pure a) := by
  intro s x s1 hs hp
  cases hs
  rw [e hp]; rfl

theorem simP_pure_not {α} {φ : α → α} {P : α → Prop} {m' : M α} {a : α} (hn : ¬ P a) :
    SimP h φ P m' (M.pure a) := by
  intro s x s1 hs hp
  cases hs
  exact absurd hp hn

section rules4
variable {Γ Γ' : Ctx} {v' v : Visitor} {a : Ast}

theorem simP_recursionRounds {te te' : TraitEnv} (hte : TraitsHom h.τ te te') (hv : VS h v' v a) (idx : Nat) :
    ∀ (n : Nat) (it : Ty),
    SimP h (Option.map (hR h.τ)) (fun o => o.isSome = true)
      (recursionRounds te' v' (renAst h.g a) idx n (hR h.τ it)) (recursionRounds te v a idx n it)
  | 0, _ => simP_pure (fun hp => by cases hp)
  | n+1, it => by
    unfold recursionRounds
    refine simP_bind sim_clearLocals (fun _ => ?_)
    refine simP_bind (sim_visitChildDecl hv 0 it) (fun _ => ?_)
    refine simP_bind (sim_childType hv idx) (fun r1 => ?_)
    refine simP_bind (sim_expectTy _ r1) (fun nt => ?_)
    cases hm : merge te nt it with
    | none => exact simP_pure_not (by intro hp; cases hp)
    | some nv =>
      rw [merge_hom h.τ hte _ _ _ hm]
      dsimp only
      cases hb : (nv == it) with
      | true =>
        have : nv = it := Ty.beq_iff_eq.1 hb
        subst this
        simp only [beq_self_eq_true, if_true]
        exact simP_pure (fun _ => rfl)
      | false =>
        rw [merge_stable h.τ te nt it nv hm hb]
        simp only [Bool.false_eq_true, if_false]
        exact simP_recursionRounds hte hv idx n nv

theorem sim_viRecursion (hΓ : CtxHom h Γ Γ') (hv : VS h v' v a) :
    Sim h id (viRecursion Γ' v' (renAst h.g a)) (viRecursion Γ v a) := by
  unfold viRecursion
  rw [renAst_id, renAst_lo]
  refine sim_bind sim_startScope (fun _ => ?_)
  refine sim_bind (sim_childType hv 1) (fun initR => ?_)
  refine sim_bind (sim_expectTy _ initR) (fun initT => ?_)
  refine sim_bind (sim_visitChildDecl hv 0 initT) (fun _ => ?_)
  dsimp only
  refine sim_bind (sim_childType hv _) (fun itR => ?_)
  cases hc : compatE Γ.traits itR initR with
  | none => nok
  | some b =>
    cases b with
    | false => nok
    | true =>
      rw [compatE_hom h.τ hΓ.traits _ _ hc]
      dsimp only
      refine sim_bind (sim_expectTy _ itR) (fun it0 => ?_)
      cases hm : merge Γ.traits it0 initT with
      | none => nok
      | some vt0 =>
        rw [merge_hom h.τ hΓ.traits _ _ _ hm]
        dsimp only
        refine sim_bind (sim_modify (fun s => rfl)) (fun _ => ?_)
        refine sim_bindP (simP_recursionRounds hΓ.traits hv _ _ vt0) (fun stable hst => ?_) (fun stable hst => ?_)
        · refine sim_bind (sim_modify (fun s => rfl)) (fun _ => ?_)
          cases stable with
          | none => cases hst
          | some it =>
            simp only [Option.map_some]
            refine sim_bind (φ := id) ?_ (fun _ => ?_)
            · split
              · exact sim_visitChild hv 2
              · exact sim_pure rfl
            refine sim_bind (sim_endScope _) (fun _ => ?_)
            exact sim_setCur rfl
        · cases stable with
          | some it => exact absurd rfl hst
          | none =>
            apply neverOk_bind_right; intro _
            exact neverOk_bind_right (fun _ => neverOk_errFail _ _)

end rules4

/-! ## the side conditions, the dispatcher, the visitor -/

/-- what the identification must satisfy at one node -/
structure NodeH (h : CHom) (Γ Γ' : Ctx) (a : Ast) : Prop where
  /-- `Γ'` shows at the image of a global token the renamed entries of `Γ` -/
  glob : isGlob a.id = true → ∀ s, a.data = .text s →
    lookup Γ'.types (h.g s) = (lookup Γ.types s).map (hRE h.τ) ∧
    lookup Γ'.funcs (h.g s) = (lookup Γ.funcs s).map (hDecl h)
  /-- the text of a radical token is a base name that `τ` fixes -/
  radical : a.id = .ID_RADICAL → ∀ s, a.data = .text s → h.τ.b s = s
  /-- templated calls are not covered -/
  nocall : a.id ≠ .NT_FUNC_CALL
  /-- the declared name of `X1:==` becomes a base name: `τ` and `g` agree on it -/
  decl : isDeclTok a.id = true → a.kids.length = 1 → ∀ k0, a.kid 0 = some k0 → ∀ n, k0.data = .text n →
    h.τ.b n = if isGlob k0.id then h.g n else n
  /-- the declared variable of an argument declaration keeps its name -/
  arg : a.id = .NT_ARG_DECL → ∀ k0, a.kid 0 = some k0 → ∀ n, k0.data = .text n →
    isGlob k0.id = true → h.g n = n

/-- the side conditions at every node of the tree -/
inductive TreeH (h : CHom) (Γ Γ' : Ctx) : Ast → Prop where
  | mk {a : Ast} : NodeH h Γ Γ' a → (∀ k ∈ a.kids, TreeH h Γ Γ' k) → TreeH h Γ Γ' a

theorem TreeH.node {Γ Γ' : Ctx} {a : Ast} (t : TreeH h Γ Γ' a) : NodeH h Γ Γ' a := by
  cases t with | mk t _ => exact t
theorem TreeH.kids {Γ Γ' : Ctx} {a : Ast} (t : TreeH h Γ Γ' a) : ∀ k ∈ a.kids, TreeH h Γ Γ' k := by
  cases t with | mk _ t => exact t

section
attribute [local irreducible] viGlobal viLocal viRadical viFunctionDefinition viFunctionCall viEmptySet
  viTupleDeclaration viAllLogic viArgument viArithmetic viCard viQuantifier viEquals
  viIntegerPredicate viSetexprPredicate viIterate viAssign viDeclarative viImperative viDecart
  viBoolean viRecursion viTuple viEnumeration viDebool viSetexprBinary viProjectSet viProjectTuple
  viFilter viReduce viGlobalDeclaration

theorem sim_dispatch {Γ Γ' : Ctx} (hΓ : CtxHom h Γ Γ') {v' v : Visitor} {a : Ast} (hv : VS h v' v a)
    (hn : NodeH h Γ Γ' a) (parent : Option Tok) :
    Sim h id (dispatch Γ' v' parent (renAst h.g a)) (dispatch Γ v parent a) := by
  unfold dispatch
  rw [renAst_id]
  generalize hid : a.id = t
  cases t
  all_goals (dsimp only; first
    | exact absurd hid hn.nocall
    | exact sim_viGlobal (by rw [hid]; rfl) (hn.glob (by rw [hid]; rfl)) parent
    | exact sim_viLocal hid
    | exact sim_viRadical hΓ hid (hn.radical hid)
    | exact sim_viFunctionDefinition hv
    | exact sim_setCur (by show _ = ExprTy.ty (Ty.coll (hR h.τ Ty.Z)); rw [hR_Z])
    | exact sim_setCur (by show _ = ExprTy.ty (hR h.τ Ty.Z); rw [hR_Z])
    | exact sim_viEmptySet parent
    | exact sim_viTupleDeclaration hv
    | exact sim_viAllLogic hv
    | exact sim_viArgument hv (hn.arg hid)
    | exact sim_viArithmetic hΓ hv
    | exact sim_viCard hv
    | exact sim_viQuantifier hv
    | exact sim_viEquals hΓ hv
    | exact sim_viIntegerPredicate hΓ hv
    | exact sim_viSetexprPredicate hΓ hv
    | exact sim_viIterate hv
    | exact sim_viAssign hv
    | exact sim_viDeclarative hv
    | exact sim_viImperative hv
    | exact sim_viDecart hv
    | exact sim_viBoolean hv
    | exact sim_viRecursion hΓ hv
    | exact sim_viTuple hv
    | exact sim_viEnumeration hΓ hv
    | exact sim_viDebool hv
    | exact sim_viSetexprBinary hΓ hv
    | exact sim_viProjectSet hv
    | exact sim_viProjectTuple hv
    | exact sim_viFilter hΓ hv
    | exact sim_viReduce hv
    | exact sim_viGlobalDeclaration hv (hn.decl (by rw [hid]; rfl)))
end

/-- **the visitor is stable under identification** (successful runs) -/
theorem sim_visit {Γ Γ' : Ctx} (hΓ : CtxHom h Γ Γ') : ∀ (fuel : Nat) (parent : Option Tok) (a : Ast),
    TreeH h Γ Γ' a → Sim h id (visit Γ' fuel parent (renAst h.g a)) (visit Γ fuel parent a)
  | 0, _, _, _ => by
    show Sim h id (stuckM "fuel") (stuckM "fuel")
    nok
  | n+1, parent, a, t => by
    show Sim h id (dispatch Γ' (visit Γ' n) parent (renAst h.g a)) (dispatch Γ (visit Γ n) parent a)
    exact sim_dispatch hΓ (fun k hk p => sim_visit hΓ n p k (t.kids k hk)) t.node parent

/-! ## `CheckType` -/

theorem checkWithFuel_of_sim {Γ Γ' : Ctx} (fuel : Nat) {e e' : Ast}
    (hsim : Sim h id (visit Γ' fuel none e') (visit Γ fuel none e))
    {t : ExprTy} (hok : (checkWithFuel Γ fuel e).out = .ok t) :
    checkWithFuel Γ' fuel e' =
      ⟨.ok (hRE h.τ t), (checkWithFuel Γ fuel e).errs, hDecl h (checkWithFuel Γ fuel e).args,
        (checkWithFuel Γ fuel e).silent⟩ := by
  unfold checkWithFuel at hok ⊢
  have h0 : hSt h {} = {} := rfl
  cases hvis : visit Γ fuel none e {} with
  | mk res s =>
    rw [hvis] at hok
    cases res with
    | ok u =>
      have := hsim {} u s hvis
      rw [h0] at this
      rw [this]
      simp only at hok
      cases hok
      rfl
    | fail => cases hok
    | stuck _ => cases hok

theorem checkWithFuel_hom {Γ Γ' : Ctx} (hΓ : CtxHom h Γ Γ') (fuel : Nat) {e : Ast} (hT : TreeH h Γ Γ' e)
    {t : ExprTy} (hok : (checkWithFuel Γ fuel e).out = .ok t) :
    checkWithFuel Γ' fuel (renAst h.g e) =
      ⟨.ok (hRE h.τ t), (checkWithFuel Γ fuel e).errs, hDecl h (checkWithFuel Γ fuel e).args,
        (checkWithFuel Γ fuel e).silent⟩ :=
  checkWithFuel_of_sim fuel (sim_visit hΓ fuel none e hT) hok

/-- the root of a definition tree `alias :== body`: only the body is visited, so nothing is asked of
the declared name -/
theorem sim_visit_top {Γ Γ' : Ctx} (hΓ : CtxHom h Γ Γ') (fuel : Nat) (a : Ast) (hid : a.id = .PUNC_DEFINE)
    (hlen : a.kids.length = 2) (hk : ∀ k, a.kid 1 = some k → TreeH h Γ Γ' k) :
    Sim h id (visit Γ' fuel none (renAst h.g a)) (visit Γ fuel none a) := by
  cases fuel with
  | zero =>
    show Sim h id (stuckM "fuel") (stuckM "fuel")
    nok
  | succ n =>
    show Sim h id (dispatch Γ' (visit Γ' n) none (renAst h.g a)) (dispatch Γ (visit Γ n) none a)
    unfold dispatch
    rw [renAst_id, hid]
    dsimp only
    unfold viGlobalDeclaration
    rw [renAst_id, structOk_ren, renAst_kids_length, hid, hlen]
    simp only [show (Tok.PUNC_DEFINE == Tok.PUNC_STRUCT) = false from rfl, show ((2 : Nat) == 1) = false from rfl,
      Bool.false_eq_true, if_false]
    refine sim_bind ?_ (fun t => sim_setCur rfl)
    unfold childType kidM
    rw [renAst_kid, renAst_id]
    cases hk1 : a.kid 1 with
    | none => exact sim_never (neverOk_bind_left (neverOk_stuck _))
    | some k =>
      have hsim := sim_visit hΓ n (some a.id) k (hk k hk1)
      intro s t s1 hs
      simp only [Option.map_some, bind_pure_left'] at hs ⊢
      cases hvs : visit Γ n (some a.id) k s with
      | mk res s2 =>
        rw [hvs] at hs
        cases res with
        | ok u =>
          rw [hsim s u s2 hvs]
          cases hs
          rfl
        | fail => cases hs
        | stuck _ => cases hs

/-- `check_hom` for a definition tree: nothing is asked of the declared name (it is not visited) -/
theorem check_hom_top {Γ Γ' : Ctx} (hΓ : CtxHom h Γ Γ') {a : Ast} (hid : a.id = .PUNC_DEFINE)
    (hlen : a.kids.length = 2) (hk : ∀ k, a.kid 1 = some k → TreeH h Γ Γ' k)
    {t : ExprTy} (hok : (check Γ a).out = .ok t) :
    check Γ' (renAst h.g a) =
      ⟨.ok (hRE h.τ t), (check Γ a).errs, hDecl h (check Γ a).args, (check Γ a).silent⟩ := by
  unfold check at hok ⊢
  rw [depth_ren]
  exact checkWithFuel_of_sim _ (sim_visit_top hΓ _ a hid hlen hk) hok

/-- **the type checker is stable under identification of like names.** If `check Γ e` succeeds with the
type `t`, then the tree with the global names identified by `g`, checked in a context that shows the
renamed entries (`TreeH`, `CtxHom`), succeeds with `t` renamed by `τ`; same log (warnings), same ghost
flag, the declared arguments with their types renamed. -/
theorem check_hom {Γ Γ' : Ctx} (hΓ : CtxHom h Γ Γ') {e : Ast} (hT : TreeH h Γ Γ' e)
    {t : ExprTy} (hok : (check Γ e).out = .ok t) :
    check Γ' (renAst h.g e) =
      ⟨.ok (hRE h.τ t), (check Γ e).errs, hDecl h (check Γ e).args, (check Γ e).silent⟩ := by
  unfold check at hok ⊢
  rw [depth_ren]
  exact checkWithFuel_hom hΓ _ hT hok

end CCVerif.Checker
