import CCVerif.Lemmas.ExtractAfter
/-!
C08, content level: after `SetAliasFor(u, new, substitute = true)` under the freshness proviso the DEPENDENCY
STRUCTURE of the content (which constituent's definition mentions which constituent's alias, read off the real
texts by `ExtractUGlobals`) is the old one — no checker model involved.
-/
namespace CCVerif.Translate
open CCVerif.Syntax CCVerif.Generated CCVerif.Lexer CCVerif.Strings CCVerif.Translate.Spec

/-- the definition of `x` mentions the name `a` (a global-name token of `ExtractUGlobals`) -/
def MentionsName (x : Concept) (a : Bytes) : Prop :=
  ∃ names, extractUGlobals x.definition = some names ∧ a ∈ names

theorem one_entry (old new b : Bytes) :
    (createTranslator [(old, new)] b).getD b = if old = b then new else b := by
  unfold createTranslator
  by_cases e : old = b <;> simp [e]

theorem one_entry_some (old new b n : Bytes) (h : createTranslator [(old, new)] b = some n) : n = new := by
  unfold createTranslator at h
  by_cases e : old = b <;> simp [e] at h
  exact h.symm

/-- the mentions of a renamed definition -/
theorem renamed_mentions {tr : Translator} {x x' : Concept} (h : Renamed tr x x')
    (hg : ∀ d, decode x.definition = some d → GlobalSpellings tr (globalsOf d)) :
    ∃ d, extractUGlobals x.definition = some (globalsOf d) ∧
      extractUGlobals x'.definition = some ((globalsOf d).map fun b => (tr b).getD b) := by
  obtain ⟨_, _, ⟨d, hd, hx'⟩, _⟩ := h
  obtain ⟨_, hv⟩ := decode_sound _ _ hd
  obtain ⟨cps', h1, h2⟩ := globals_after_translate tr d hv (hg d hd)
  refine ⟨d, by rw [extractUGlobals_bytes, hd]; rfl, ?_⟩
  rw [hx', extractUGlobals_bytes, h1, Option.map_some, h2]

/-- **same dependency structure, on the content.** -/
theorem setAlias_dependencies (cs : List Concept) (u : Nat) (c : Concept) (new : Bytes)
    (hf : cs.find? (·.uid = u) = some c) (hne : c.alias ≠ new)
    (hu : (cs.map (·.uid)).Nodup) (ha : (cs.map (·.alias)).Nodup) (hwf : ∀ x ∈ cs, x.WF)
    (hcls : ∃ k, idClass new = some k ∧ filterGlobals k = true)
    (hfree : ∀ x ∈ cs, x.alias ≠ new) (hfresh : freshFor [(c.alias, new)] cs = true) :
    ∃ cs', setAlias cs u new true = some cs' ∧ cs'.length = cs.length ∧
      ∀ (i j : Nat) (x x' y y' : Concept), cs[i]? = some x → cs'[i]? = some x' → cs[j]? = some y →
        cs'[j]? = some y' → (MentionsName x' y'.alias ↔ MentionsName x y.alias) := by
  obtain ⟨cs', a, _, r⟩ := setAlias_renamed cs u c new hf hne hu ha hwf
  refine ⟨cs', a, r.length, ?_⟩
  intro i j x x' y y' hx hx' hy hy'
  have rx := r.get i x x' hx hx'
  have ry := r.get j y y' hy hy'
  have hxm : x ∈ cs := List.mem_of_getElem? hx
  have hym : y ∈ cs := List.mem_of_getElem? hy
  -- the new name is not mentioned in any definition
  have hnm : ∀ z ∈ cs, ¬ MentionsName z new := by
    intro z hz hm
    have := (freshFor_iff _ cs).1 hfresh (c.alias, new) (List.mem_cons_self ..) hne ⟨z, hz, hm⟩
    obtain ⟨w, hw, e⟩ := this
    exact hfree w hw e
  obtain ⟨d, e1, e2⟩ := renamed_mentions rx (by
    intro d _ b _ n hn _
    rw [one_entry_some _ _ _ _ hn]
    exact hcls)
  have hya : y'.alias = (createTranslator [(c.alias, new)] y.alias).getD y.alias := ry.2.1
  unfold MentionsName
  rw [e1, e2, hya]
  have hnd : new ∉ globalsOf d := fun hm => hnm x hxm ⟨_, e1, hm⟩
  constructor
  · rintro ⟨names, hn, hm⟩
    cases hn
    refine ⟨_, rfl, ?_⟩
    obtain ⟨b, hb, e⟩ := List.mem_map.1 hm
    rw [one_entry, one_entry] at e
    by_cases q1 : c.alias = b <;> by_cases q2 : c.alias = y.alias
    · rw [← q2, q1]; exact hb
    · rw [if_pos q1, if_neg q2] at e
      exact absurd e.symm (hfree y hym)
    · rw [if_neg q1, if_pos q2] at e
      exact absurd (e ▸ hb) hnd
    · rw [if_neg q1, if_neg q2] at e
      exact e ▸ hb
  · rintro ⟨names, hn, hm⟩
    cases hn
    exact ⟨_, rfl, List.mem_map.2 ⟨y.alias, hm, rfl⟩⟩

/-- every name of a content: the aliases and the names mentioned in the definitions -/
def NameOf (cs : List Concept) (n : Bytes) : Prop :=
  (∃ x ∈ cs, x.alias = n) ∨ ∃ x ∈ cs, MentionsName x n

/-- **same dependency structure, on the content, simultaneous maps** (`ResetAliases`, merge, equation): the map
is injective on the names of the content (the proviso) and its new names are global identifier spellings -/
theorem substitute_dependencies (m : Substitutes) (cs : List Concept) (hwf : ∀ x ∈ cs, x.WF)
    (hcls : ∀ p ∈ m, p.2 ≠ p.1 → ∃ k, idClass p.2 = some k ∧ filterGlobals k = true)
    (hinj : ∀ a b, NameOf cs a → NameOf cs b →
      (createTranslator m a).getD a = (createTranslator m b).getD b → a = b) :
    ∃ cs', substituteAliases cs m = some cs' ∧ cs'.length = cs.length ∧
      ∀ (i j : Nat) (x x' y y' : Concept), cs[i]? = some x → cs'[i]? = some x' → cs[j]? = some y →
        cs'[j]? = some y' → (MentionsName x' y'.alias ↔ MentionsName x y.alias) := by
  obtain ⟨cs', a, _, r⟩ := substituteAliases_renamed m cs hwf
  refine ⟨cs', a, r.length, ?_⟩
  intro i j x x' y y' hx hx' hy hy'
  have rx := r.get i x x' hx hx'
  have ry := r.get j y y' hy hy'
  have hxm : x ∈ cs := List.mem_of_getElem? hx
  have hym : y ∈ cs := List.mem_of_getElem? hy
  obtain ⟨d, e1, e2⟩ := renamed_mentions rx (by
    intro d _ b _ n hn hnb
    unfold createTranslator at hn
    cases hfd : m.find? (fun p => decide (p.1 = b)) with
    | none => rw [hfd] at hn; cases hn
    | some p =>
      rw [hfd] at hn
      simp only [Option.map_some, Option.some.injEq] at hn
      have hp : p ∈ m := List.mem_of_find?_eq_some hfd
      have hp1 : p.1 = b := by simpa using List.find?_some hfd
      rw [← hn]
      exact hcls p hp (by rw [hn, hp1]; exact hnb))
  have hya : y'.alias = (createTranslator m y.alias).getD y.alias := ry.2.1
  unfold MentionsName
  rw [e1, e2, hya]
  constructor
  · rintro ⟨names, hn, hm⟩
    cases hn
    refine ⟨_, rfl, ?_⟩
    obtain ⟨b, hb, e⟩ := List.mem_map.1 hm
    have := hinj b y.alias (Or.inr ⟨x, hxm, _, e1, hb⟩) (Or.inl ⟨y, hym, rfl⟩) e
    exact this ▸ hb
  · rintro ⟨names, hn, hm⟩
    cases hn
    exact ⟨_, rfl, List.mem_map.2 ⟨y.alias, hm, rfl⟩⟩

end CCVerif.Translate
