import CCVerif.Lemmas.PrintLex3
/-!
The lexer link of C05 on the fragment `E3`, part B: the printer model prints exactly the items (`pclaim`), hence lexing
the printed text gives the printed tokens (`lex_print2`); the transliteration is the identity on such trees (`tclaim`);
with the parser round trip of `Lemmas/ParsePrint3Top.lean` and `Lemmas/ParseErase.lean` the chain
tree → text → tokens → tree is closed (`text_roundtrip2`, `text_roundtrip2_any`). Generic facts about the printer model
(`print_node`, `kidIds_*`, `printKids_*`, `sequence_*`, `joinSep_*`, `assemble_*` of the old node kinds, `print_erA`, …)
are those of `Lemmas/PrintLex2.lean`.
-/
namespace CCVerif.PP3
open CCVerif.Syntax CCVerif.Generated CCVerif.Lexer CCVerif.Parser CCVerif.Printer CCVerif.LexP CCVerif.LexN CCVerif.PP

/-! ## the printer model produces the items -/

/-- (generated tables) punctuation is spelled the way `GeneratorImplAST` writes it literally -/
theorem punct_spell : ∀ syn ∈ synL, str syn .PUNC_PL = [40] ∧ str syn .PUNC_PR = [41] ∧ str syn .PUNC_SL = [91] ∧
    str syn .PUNC_SR = [93] ∧ str syn .PUNC_CL = [123] ∧ str syn .PUNC_CR = [125] ∧ str syn .PUNC_COMMA = [44] ∧
    str syn .PUNC_BAR = [124] := by
  decide +kernel

theorem render_wrapI (syn : Syn) (b : Bool) (is : List Item) : render (wrapI syn b is) = paren b (render is) := by
  have h := punct_spell syn (mem_synL syn)
  cases b
  · rfl
  · simp only [wrapI, paren, if_true, render_append, render_fx syn .PUNC_PL (by simp [fragFixed]),
      render_fx syn .PUNC_PR (by simp [fragFixed]), h.1, h.2.1]
    simp

theorem render_blank1 (R : List Item) : render (.blank 1 :: R) = 32 :: render R := by
  rw [render_cons]; rfl

theorem render_tok1 (w : List Nat) (id : Tok) (d : TokData) : render [.tok w id d] = w := by
  simp [render, Item.text]

theorem print_node (syn : Syn) (a : Ast) :
    print syn a = assemble syn a.id a.data (kidIds a.kids) (printKids syn a.kids) := by
  cases a; rw [print]; rfl

theorem kidIds_cons (a : Ast) (ks : List Ast) : kidIds (a :: ks) = a.id :: kidIds ks := by
  cases a; rw [kidIds]; rfl

theorem kidIds_nil : kidIds [] = [] := by rw [kidIds]

theorem printKids_cons (syn : Syn) (k : Ast) (ks : List Ast) : printKids syn (k :: ks) = print syn k :: printKids syn ks := by
  rw [printKids]

theorem printKids_nil (syn : Syn) : printKids syn [] = [] := by rw [printKids]

theorem kidIds_length : ∀ ks : List Ast, (kidIds ks).length = ks.length
  | [] => by rw [kidIds_nil]; rfl
  | k :: ks => by rw [kidIds_cons, List.length_cons, List.length_cons, kidIds_length ks]

theorem printKids_length (syn : Syn) : ∀ ks : List Ast, (printKids syn ks).length = ks.length
  | [] => by rw [printKids_nil]; rfl
  | k :: ks => by rw [printKids_cons, List.length_cons, List.length_cons, printKids_length syn ks]

theorem printKids_append (syn : Syn) : ∀ xs ys : List Ast, printKids syn (xs ++ ys) = printKids syn xs ++ printKids syn ys
  | [], ys => by rw [printKids_nil]; rfl
  | x :: xs, ys => by rw [List.cons_append, printKids_cons, printKids_cons, printKids_append syn xs ys]; rfl

theorem kidIds_append : ∀ xs ys : List Ast, kidIds (xs ++ ys) = kidIds xs ++ kidIds ys
  | [], ys => by rw [kidIds_nil]; rfl
  | x :: xs, ys => by rw [List.cons_append, kidIds_cons, kidIds_cons, kidIds_append xs ys]; rfl

theorem ast_id2 (e : E3) : e.ast.id = e.top := by cases e <;> rfl

theorem sequence_some : ∀ ts : List (List Nat), sequence (ts.map some) = some ts
  | [] => rfl
  | t :: ts => by simp only [List.map_cons, sequence, sequence_some ts]

theorem sequence_snoc (xs : List (Option (List Nat))) (ys : List (List Nat)) (t : List Nat)
    (h : sequence xs = some ys) : sequence (xs ++ [some t]) = some (ys ++ [t]) := by
  induction xs generalizing ys with
  | nil => simp only [sequence] at h; cases h; rfl
  | cons x xs ih =>
    cases x with
    | none => simp [sequence] at h
    | some x =>
      simp only [sequence] at h
      cases hs : sequence xs with
      | none => rw [hs] at h; cases h
      | some zs =>
        rw [hs] at h; cases h
        simp only [List.cons_append, sequence, ih zs hs]

theorem joinSep_cons2 (sep x y : List Nat) (r : List (List Nat)) :
    joinSep sep (x :: y :: r) = x ++ sep ++ joinSep sep (y :: r) := rfl

theorem joinSep_snoc (sep : List Nat) : ∀ (xs : List (List Nat)) (y : List Nat), xs ≠ [] →
    joinSep sep (xs ++ [y]) = joinSep sep xs ++ sep ++ y
  | [], _, h => absurd rfl h
  | [x], y, _ => by simp [joinSep]
  | x :: x2 :: r, y, _ => by
    have := joinSep_snoc sep (x2 :: r) y (by simp)
    simp only [List.cons_append, joinSep_cons2] at this ⊢
    rw [this]; simp

/-! ### `assemble` on each node kind -/

theorem assemble_text (syn : Syn) (f : Tok) (d : TokData) (c : Tok) (t : List Nat) (h : isTextFn f = true) :
    assemble syn f d [c] [some t] = (tokToString syn f d).bind fun me => some (me ++ (40 :: (t ++ [41]))) := by
  cases f <;> first | rfl | (exact absurd h (by decide))

theorem assemble_set7 (syn : Syn) (op l r : Tok) (tl tr : List Nat) (h : isSetOp7 op = true) :
    assemble syn op .none [l, r] [some tl, some tr] =
      some (paren (brSet op l .left) tl ++ str syn op ++ paren (brSet op r .right) tr) := by
  cases op <;> first | rfl | (exact absurd h (by decide))

theorem assemble_pred (syn : Syn) (op l r : Tok) (tl tr : List Nat) (h : isPredOp op = true) :
    assemble syn op .none [l, r] [some tl, some tr] = some (tl ++ str syn op ++ tr) := by
  cases op <;> first | rfl | (exact absurd h (by decide))

theorem assemble_logic (syn : Syn) (op l r : Tok) (tl tr : List Nat) (h : isLogicOp op = true) :
    assemble syn op .none [l, r] [some tl, some tr] =
      some (paren (brLogic op l .left) tl ++ [32] ++ str syn op ++ [32] ++ paren (brLogic op r .right) tr) := by
  cases op <;> first | rfl | (exact absurd h (by decide))

theorem assemble_not (syn : Syn) (c : Tok) (t : List Nat) :
    assemble syn .NOT .none [c] [some t] = some (str syn .NOT ++ paren (brNot c) t) := rfl

theorem assemble_boolean (syn : Syn) (c : Tok) (t : List Nat) :
    assemble syn .BOOLEAN .none [c] [some t] = some (str syn .BOOLEAN ++ paren (c != .BOOLEAN) t) := rfl

theorem assemble_enum (syn : Syn) (ids : List Tok) (ps : List (Option (List Nat))) :
    assemble syn .NT_ENUMERATION .none ids ps =
      (sequence ps).bind fun ks => some (123 :: (joinSep commaSp ks ++ [125])) := rfl

theorem assemble_enumdecl (syn : Syn) (ids : List Tok) (ps : List (Option (List Nat))) :
    assemble syn .NT_ENUM_DECL .none ids ps = (sequence ps).bind fun ks => some (joinSep commaSp ks) := rfl

theorem assemble_tuple (syn : Syn) (id : Tok) (hid : id = .NT_TUPLE ∨ id = .NT_TUPLE_DECL) (ids : List Tok)
    (ps : List (Option (List Nat))) (h : ids.length > 1) :
    assemble syn id .none ids ps = (sequence ps).bind fun ks => some (40 :: (joinSep commaSp ks ++ [41])) := by
  rcases hid with rfl | rfl <;> (simp only [assemble, h, if_true]; rfl)

theorem assemble_call (syn : Syn) (ids : List Tok) (f : List Nat) (ps : List (Option (List Nat))) (h : ids.length > 1) :
    assemble syn .NT_FUNC_CALL .none ids (some f :: ps) =
      (sequence ps).bind fun args => some (f ++ [91] ++ joinSep commaSp args ++ [93]) := by
  simp only [assemble, h, if_true]; rfl

theorem assemble_filter (syn : Syn) (d : TokData) (ids : List Tok) (ps : List (Option (List Nat))) (h : ids.length > 1) :
    assemble syn .FILTER d ids ps =
      (tokToString syn .FILTER d).bind fun me => (sequence (ps.take (ids.length - 1))).bind fun params =>
        (kidAt ps (ids.length - 1)).bind fun arg =>
          some (me ++ [91] ++ joinSep commaSp params ++ [93, 40] ++ arg ++ [41]) := by
  simp only [assemble, h, if_true]; rfl

theorem assemble_quant (syn : Syn) (q v d b : Tok) (tv td tb : List Nat) (h : q = .FORALL ∨ q = .EXISTS) :
    assemble syn q .none [v, d, b] [some tv, some td, some tb] =
      some (str syn q ++ tv ++ str syn .IN ++ td ++ [32] ++ paren (brQ q b) tb) := by
  rcases h with rfl | rfl <;> rfl

theorem assemble_decl (syn : Syn) (v d b : Tok) (tv td tb : List Nat) :
    assemble syn .NT_DECLARATIVE_EXPR .none [v, d, b] [some tv, some td, some tb] =
      some (str syn .DECLARATIVE ++ [123] ++ tv ++ str syn .IN ++ td ++ barSp ++ tb ++ [125]) := rfl


theorem kidAt_append_left (ps qs : List (Option (List Nat))) (i : Nat) (b : Bool) (h : i < ps.length) :
    kidAt (ps ++ qs) i b = kidAt ps i b := by
  unfold kidAt; rw [List.getElem?_append_left h]

theorem kidAt_append_right (ps : List (Option (List Nat))) (t : List Nat) (b : Bool) :
    kidAt (ps ++ [some t]) ps.length b = some (paren b t) := by
  unfold kidAt; rw [List.getElem?_append_right (Nat.le_refl _)]; simp [paren]



theorem assemble_recS (syn : Syn) (v d s : Tok) (tv td ts : List Nat) :
    assemble syn .NT_RECURSIVE_SHORT .none [v, d, s] [some tv, some td, some ts] =
      some (str syn .RECURSIVE ++ [123] ++ tv ++ str syn .ASSIGN ++ td ++ barSp ++ ts ++ [125]) := rfl

theorem assemble_recF (syn : Syn) (v d c s : Tok) (tv td tc ts : List Nat) :
    assemble syn .NT_RECURSIVE_FULL .none [v, d, c, s] [some tv, some td, some tc, some ts] =
      some (str syn .RECURSIVE ++ [123] ++ tv ++ str syn .ASSIGN ++ td ++ barSp ++ tc ++ barSp ++ ts ++ [125]) := rfl

theorem assemble_imp (syn : Syn) (ids : List Tok) (v : List Nat) (ps : List (Option (List Nat))) (h : ids.length > 1) :
    assemble syn .NT_IMPERATIVE_EXPR .none ids (some v :: ps) =
      (sequence ps).bind fun blocks => some (str syn .IMPERATIVE ++ [123] ++ v ++ barSp ++ joinSep semiSp blocks ++ [125]) := by
  simp only [assemble, h, if_true]; rfl

theorem assemble_blk (syn : Syn) (op a b : Tok) (ta tb : List Nat) (h : E3.isBlkOp op = true) :
    assemble syn op .none [a, b] [some ta, some tb] = some (ta ++ str syn op ++ tb) := by
  rcases blkOp_cases h with rfl | rfl <;> rfl

/-! ### leaves -/

theorem convertCp_ascii (c : Nat) (h : isAlnum .ascii c = true) : convertCp c = [c] := by
  have : c < 0x80 := by
    simp [isAlnum, isDigit, isAlpha, isUpper, isLower] at h
    omega
  simp [convertCp, this]

theorem convertID_ascii : ∀ w : List Nat, w.all (isAlnum .ascii) = true → convertID .ascii w = w
  | [], _ => rfl
  | c :: w, h => by
    simp only [List.all_cons, Bool.and_eq_true] at h
    have ih := convertID_ascii w h.2
    simp only [convertID, List.flatMap_cons, convertCp_ascii c h.1] at ih ⊢
    rw [ih]; rfl

theorem leaf_print (syn : Syn) (id : Tok) (d : TokData) (h : leafOK syn id d = true) :
    assemble syn id d [] [] = some (render (leafItems syn id d)) := by
  cases d with
  | int n =>
    have hid : id = .LIT_INTEGER := by cases id <;> simp [leafOK] at h <;> rfl
    subst hid
    show some (decInt n) = _
    rw [leafItems, render_tok1]
  | text s =>
    have hok : idOK syn id s = true := by cases id <;> simp [leafOK] at h <;> exact h
    simp only [idOK, Bool.and_eq_true, decide_eq_true_eq, Bool.not_eq_true', List.isEmpty_eq_false_iff] at hok
    have hid : id = .ID_LOCAL ∨ id = .ID_GLOBAL ∨ id = .ID_FUNCTION ∨ id = .ID_PREDICATE ∨ id = .ID_RADICAL := by
      cases id <;> simp [leafOK] at h <;> simp
    rw [leafItems, render_tok1]
    rcases hid with rfl | rfl | rfl | rfl | rfl
    · show some (convertID syn (stringUnits s)) = _
      cases syn
      · rfl
      · rw [convertID_ascii _ hok.1.2]
    all_goals rfl
  | none =>
    have hid : id = .LIT_INTSET ∨ id = .LIT_EMPTYSET := by cases id <;> simp [leafOK] at h <;> simp
    rcases hid with rfl | rfl
    · show some (str syn .LIT_INTSET) = some (render (fx syn .LIT_INTSET))
      rw [render_fx syn _ (by simp [fragFixed])]
    · show some (str syn .LIT_EMPTYSET) = some (render (fx syn .LIT_EMPTYSET))
      rw [render_fx syn _ (by simp [fragFixed])]
  | tuple idx => cases id <;> simp [leafOK] at h

theorem name_print (syn : Syn) (f : Tok) (d : TokData) (h : nameOK f d = true) :
    tokToString syn f d = some (render (nameItems syn f d)) := by
  cases d with
  | tuple idx =>
    simp only [nameOK, Bool.and_eq_true, Bool.or_eq_true] at h
    have hf : f = .BIGPR ∨ f = .SMALLPR ∨ f = .FILTER := by
      have := h.1; cases f <;> first | exact Or.inl rfl | exact Or.inr (Or.inl rfl) | exact Or.inr (Or.inr rfl) | (exact absurd this (by decide))
    rw [tokToString_index syn f hf idx (idxOK_of_b h.2).1, nameItems, render_tok1]
  | none =>
    have hf : f = .BOOL ∨ f = .DEBOOL ∨ f = .REDUCE ∨ f = .CARD := by
      simp only [nameOK, Bool.or_eq_true] at h
      cases f <;> first | exact Or.inl rfl | exact Or.inr (Or.inl rfl) | exact Or.inr (Or.inr (Or.inl rfl)) | exact Or.inr (Or.inr (Or.inr rfl)) | (exact absurd h (by decide))
    rcases hf with rfl | rfl | rfl | rfl
    · show some (str syn .BOOL) = some (render (fx syn .BOOL)); rw [render_fx syn _ (by simp [fragFixed])]
    · show some (str syn .DEBOOL) = some (render (fx syn .DEBOOL)); rw [render_fx syn _ (by simp [fragFixed])]
    · show some (str syn .REDUCE) = some (render (fx syn .REDUCE)); rw [render_fx syn _ (by simp [fragFixed])]
    · show some (str syn .CARD) = some (render (fx syn .CARD)); rw [render_fx syn _ (by simp [fragFixed])]
  | int n => simp [nameOK] at h
  | text s => simp [nameOK] at h

theorem mem_fragFixed_of_free {t : Tok} (ht : t ∈ freeL) : t ∈ fragFixed :=
  mem_of_memb (free_table .math (by simp [synL]) t ht).2.1

/-- under well-formedness only `ℬ` itself has the root `ℬ` -/
theorem top_boolean : ∀ a : E3, a.wf = true → (a.top != .BOOLEAN) = !a.isPow
  | .atom id d, hw => by
    simp only [E3.wf] at hw
    show (id != .BOOLEAN) = true
    cases id <;> first | rfl | (exact absurd hw (by decide))
  | .text f d a, hw => by
    simp only [E3.wf, Bool.and_eq_true] at hw
    have := hw.1.1
    show (f != .BOOLEAN) = true
    cases f <;> first | rfl | (exact absurd this (by decide))
  | .sbin op l r, hw => by
    simp only [E3.wf, Bool.and_eq_true] at hw
    have := hw.1.1.1.1
    show (op != .BOOLEAN) = true
    cases op <;> first | rfl | (exact absurd this (by decide))
  | .pred op l r, hw => by
    simp only [E3.wf, Bool.and_eq_true] at hw
    have := hw.1.1.1.1
    show (op != .BOOLEAN) = true
    cases op <;> first | rfl | (exact absurd this (by decide))
  | .lbin op l r, hw => by
    simp only [E3.wf, Bool.and_eq_true] at hw
    have := hw.1.1.1.1
    show (op != .BOOLEAN) = true
    cases op <;> first | rfl | (exact absurd this (by decide))
  | .quant q vs dm b, hw => by
    simp only [E3.wf, Bool.and_eq_true] at hw
    have := hw.1.1.1.1.1.1.1
    show (q != .BOOLEAN) = true
    cases q <;> first | rfl | (exact absurd this (by decide))
  | .prod2 .., _ | .prodN .., _ | .neg _, _ | .pow _, _ | .one _, _ | .more .., _ | .enum _, _ | .tuple .., _
  | .fcall .., _ | .pcall .., _ | .filter .., _ | .decl .., _ | .recS .., _ | .recF .., _ | .imp .., _ | .bone _, _
  | .boneK .., _ | .bmore .., _ | .bmoreK .., _ => rfl

theorem mem_fragFixed_blk {op : Tok} (h : E3.isBlkOp op = true) : op ∈ fragFixed := by
  rcases blkOp_cases h with rfl | rfl <;> simp [fragFixed]

/-- an assignment block is printed as its items -/
theorem blk_print (syn : Syn) (op : Tok) (v s : E3) (hop : E3.isBlkOp op = true)
    (hpv : print syn v.dast = some (render (v.items syn))) (hps : print syn s.ast = some (render (s.items syn))) :
    print syn (.node op .none 0 0 [v.dast, s.ast]) = some (render (v.items syn ++ (fx syn op ++ s.items syn))) := by
  rw [print, kidIds_cons, kidIds_cons, kidIds_nil, printKids_cons, printKids_cons, printKids_nil, hpv, hps,
    assemble_blk syn op _ _ _ _ hop]
  simp [render_append, render_fx syn op (mem_fragFixed_blk hop)]

/-! ### texts of lists and products -/

def E3.texts (syn : Syn) : E3 → List (List Nat)
  | .one a => [render (a.items syn)]
  | .more a l => render (a.items syn) :: l.texts syn
  | _ => []

def E3.ptexts (syn : Syn) : E3 → List (List Nat)
  | .prod2 a b => [paren (brProd true a.top) (render (a.items syn)), paren (brProd false b.top) (render (b.items syn))]
  | .prodN p k => p.ptexts syn ++ [paren (brProd false k.top) (render (k.items syn))]
  | _ => []

/-- the printed blocks of a list of blocks -/
def E3.btexts (syn : Syn) : E3 → List (List Nat)
  | .bone b => [render (b.items syn)]
  | .boneK op v s => [render (v.items syn ++ (fx syn op ++ s.items syn))]
  | .bmore b l => render (b.items syn) :: l.btexts syn
  | .bmoreK op v s l => render (v.items syn ++ (fx syn op ++ s.items syn)) :: l.btexts syn
  | _ => []

theorem btexts_ne {syn : Syn} {l : E3} (h : l.isB = true) : ∃ x xs, l.btexts syn = x :: xs := by
  cases l <;> simp [E3.isB] at h <;> exact ⟨_, _, rfl⟩

theorem texts_ne {syn : Syn} {l : E3} (h : l.isA = true) : ∃ x xs, l.texts syn = x :: xs := by
  cases l <;> simp [E3.isA] at h
  · exact ⟨_, _, rfl⟩
  · exact ⟨_, _, rfl⟩

/-- what is proved about the printed text of a phrase, by category -/
structure PClaim (syn : Syn) (e : E3) : Prop where
  ph : (e.isS = true ∨ e.isL = true) → print syn e.ast = some (render (e.items syn))
  li : e.isA = true → printKids syn e.ast.kids = (e.texts syn).map some ∧
    joinSep commaSp (e.texts syn) = render (e.items syn)
  pr : e.isProd = true → decartKids (kidIds e.ast.kids) (printKids syn e.ast.kids) = some (e.ptexts syn) ∧
    (kidIds e.ast.kids).length = (printKids syn e.ast.kids).length ∧ 2 ≤ (kidIds e.ast.kids).length ∧
    joinSep (str syn .DECART) (e.ptexts syn) = render (e.items syn) ∧ e.ptexts syn ≠ []
  vs : e.isVar = true → e.isS = true → print syn e.dast = some (render (e.items syn))
  vl : e.isVar = true → e.isA = true → printKids syn e.dast.kids = (e.texts syn).map some
  bl : e.isB = true → printKids syn e.ast.kids = (e.btexts syn).map some ∧
    joinSep semiSp (e.btexts syn) = render (e.items syn)

/-- a phrase that is neither a list, a product nor a variable -/
theorem PClaim.ofPhrase {syn : Syn} {e : E3} (hA : e.isA = false) (hP : e.isProd = false) (hV : e.isVar = false)
    (hB : e.isB = false) (h : print syn e.ast = some (render (e.items syn))) : PClaim syn e :=
  ⟨fun _ => h, fun h' => ff hA h', fun h' => ff hP h', fun h' => ff hV h', fun h' => ff hV h', fun h' => ff hB h'⟩

theorem list_kids_pos {l : E3} (h : l.isA = true) : 1 ≤ l.ast.kids.length ∧ 1 ≤ l.dast.kids.length := by
  cases l <;> simp [E3.isA] at h <;> simp [E3.ast, E3.dast, Ast.kids]

theorem map_some_length {α : Type} (l : List α) : (l.map some).length = l.length := by simp

/-- **the printer model prints the items** (all categories) -/
theorem pclaim (syn : Syn) : ∀ e : E3, e.wf = true → e.lexOK syn = true → PClaim syn e
  | .atom id d, _, hl => by
    simp only [E3.lexOK] at hl
    have h : print syn (E3.atom id d).ast = some (render ((E3.atom id d).items syn)) := by
      show print syn (.node id d 0 0 []) = _
      rw [print, kidIds_nil, printKids_nil]; exact leaf_print syn id d hl
    exact ⟨fun _ => h, fun h' => ff rfl h', fun h' => ff rfl h', fun _ _ => h, fun _ h' => ff rfl h', fun h' => ff rfl h'⟩
  | .text f d a, hw, hl => by
    simp only [E3.wf, Bool.and_eq_true] at hw
    simp only [E3.lexOK, Bool.and_eq_true] at hl
    have ha := (pclaim syn a hw.2 hl.2).ph (Or.inl hw.1.2)
    have hp := punct_spell syn (mem_synL syn)
    refine PClaim.ofPhrase rfl rfl rfl rfl ?_
    show print syn (.node f d 0 0 [a.ast]) = _
    rw [print, kidIds_cons, kidIds_nil, printKids_cons, printKids_nil, ha, assemble_text syn f d _ _ hw.1.1,
      name_print syn f d hl.1]
    simp [E3.items, render_append, render_fx syn .PUNC_PL (by simp [fragFixed]),
      render_fx syn .PUNC_PR (by simp [fragFixed]), hp.1, hp.2.1]
  | .sbin op l r, hw, hl => by
    simp only [E3.wf, Bool.and_eq_true] at hw
    simp only [E3.lexOK, Bool.and_eq_true] at hl
    have hpl := (pclaim syn l hw.1.2 hl.1).ph (Or.inl hw.1.1.1.2)
    have hpr := (pclaim syn r hw.2 hl.2).ph (Or.inl hw.1.1.2)
    refine PClaim.ofPhrase rfl rfl rfl rfl ?_
    show print syn (.node op .none 0 0 [l.ast, r.ast]) = _
    rw [print, kidIds_cons, kidIds_cons, kidIds_nil, printKids_cons, printKids_cons, printKids_nil, hpl, hpr, ast_id2,
      ast_id2, assemble_set7 syn op _ _ _ _ hw.1.1.1.1]
    simp [E3.items, render_append, render_wrapI, render_fx syn op (mem_fragFixed_of_free (mem_freeL_set7 op hw.1.1.1.1))]
  | .prod2 a b, hw, hl => by
    simp only [E3.wf, Bool.and_eq_true] at hw
    simp only [E3.lexOK, Bool.and_eq_true] at hl
    have hpa := (pclaim syn a hw.1.2 hl.1).ph (Or.inl hw.1.1.1)
    have hpb := (pclaim syn b hw.2 hl.2).ph (Or.inl hw.1.1.2)
    have hids : kidIds (E3.prod2 a b).ast.kids = [a.top, b.top] := by
      show kidIds [a.ast, b.ast] = _
      rw [kidIds_cons, kidIds_cons, kidIds_nil, ast_id2, ast_id2]
    have hps : printKids syn (E3.prod2 a b).ast.kids = [some (render (a.items syn)), some (render (b.items syn))] := by
      show printKids syn [a.ast, b.ast] = _
      rw [printKids_cons, printKids_cons, printKids_nil, hpa, hpb]
    have hk : decartKids (kidIds (E3.prod2 a b).ast.kids) (printKids syn (E3.prod2 a b).ast.kids) =
        some ((E3.prod2 a b).ptexts syn) := by rw [hids, hps, decartKids_two]; rfl
    have hr : joinSep (str syn .DECART) ((E3.prod2 a b).ptexts syn) = render ((E3.prod2 a b).items syn) := by
      simp [E3.ptexts, E3.items, joinSep, render_append, render_wrapI, render_fx syn .DECART (by simp [fragFixed])]
    have hprint : print syn (E3.prod2 a b).ast = some (render ((E3.prod2 a b).items syn)) := by
      show print syn (.node .DECART .none 0 0 (E3.prod2 a b).ast.kids) = _
      rw [print, assemble_decart syn _ _ (by rw [hids]; simp), hk, ← hr]; rfl
    exact ⟨fun _ => hprint, fun h' => ff rfl h',
      fun _ => ⟨hk, by rw [hids, hps]; rfl, by rw [hids]; simp, hr, by simp [E3.ptexts]⟩,
      fun h' => ff rfl h', fun h' => ff rfl h', fun h' => ff rfl h'⟩
  | .prodN p k, hw, hl => by
    simp only [E3.wf, Bool.and_eq_true] at hw
    simp only [E3.lexOK, Bool.and_eq_true] at hl
    obtain ⟨hkp, hlen, h2, hrp, hne⟩ := (pclaim syn p hw.1.2 hl.1).pr hw.1.1.1
    have hpk := (pclaim syn k hw.2 hl.2).ph (Or.inl hw.1.1.2)
    have hids : kidIds (E3.prodN p k).ast.kids = kidIds p.ast.kids ++ [k.top] := by
      show kidIds (p.ast.kids ++ [k.ast]) = _
      rw [kidIds_append, kidIds_cons, kidIds_nil, ast_id2]
    have hps : printKids syn (E3.prodN p k).ast.kids = printKids syn p.ast.kids ++ [some (render (k.items syn))] := by
      show printKids syn (p.ast.kids ++ [k.ast]) = _
      rw [printKids_append, printKids_cons, printKids_nil, hpk]
    have hk : decartKids (kidIds (E3.prodN p k).ast.kids) (printKids syn (E3.prodN p k).ast.kids) =
        some ((E3.prodN p k).ptexts syn) := by
      rw [hids, hps, decartKids_snoc _ _ _ _ _ hlen (by omega) hkp]; rfl
    have hr : joinSep (str syn .DECART) ((E3.prodN p k).ptexts syn) = render ((E3.prodN p k).items syn) := by
      show joinSep _ (p.ptexts syn ++ [_]) = _
      rw [joinSep_snoc _ _ _ hne, hrp]
      simp [E3.items, render_append, render_wrapI, render_fx syn .DECART (by simp [fragFixed])]
    have hlen2 : (kidIds (E3.prodN p k).ast.kids).length = (printKids syn (E3.prodN p k).ast.kids).length := by
      rw [hids, hps, List.length_append, List.length_append, hlen]; rfl
    have h22 : 2 ≤ (kidIds (E3.prodN p k).ast.kids).length := by rw [hids, List.length_append]; omega
    have hprint : print syn (E3.prodN p k).ast = some (render ((E3.prodN p k).items syn)) := by
      show print syn (.node .DECART .none 0 0 (E3.prodN p k).ast.kids) = _
      rw [print, assemble_decart syn _ _ (by omega), hk, ← hr]; rfl
    exact ⟨fun _ => hprint, fun h' => ff rfl h', fun _ => ⟨hk, hlen2, h22, hr, by simp [E3.ptexts]⟩,
      fun h' => ff rfl h', fun h' => ff rfl h', fun h' => ff rfl h'⟩
  | .pred op l r, hw, hl => by
    simp only [E3.wf, Bool.and_eq_true] at hw
    simp only [E3.lexOK, Bool.and_eq_true] at hl
    have hpl := (pclaim syn l hw.1.2 hl.1).ph (Or.inl hw.1.1.1.2)
    have hpr := (pclaim syn r hw.2 hl.2).ph (Or.inl hw.1.1.2)
    refine PClaim.ofPhrase rfl rfl rfl rfl ?_
    show print syn (.node op .none 0 0 [l.ast, r.ast]) = _
    rw [print, kidIds_cons, kidIds_cons, kidIds_nil, printKids_cons, printKids_cons, printKids_nil, hpl, hpr,
      assemble_pred syn op _ _ _ _ hw.1.1.1.1]
    simp [E3.items, render_append, render_fx syn op (mem_fragFixed_of_free (mem_freeL_pred op hw.1.1.1.1))]
  | .neg x, hw, hl => by
    simp only [E3.wf, Bool.and_eq_true] at hw
    simp only [E3.lexOK] at hl
    have hpx := (pclaim syn x hw.2 hl).ph (Or.inr hw.1)
    refine PClaim.ofPhrase rfl rfl rfl rfl ?_
    show print syn (.node .NOT .none 0 0 [x.ast]) = _
    rw [print, kidIds_cons, kidIds_nil, printKids_cons, printKids_nil, hpx, ast_id2, assemble_not]
    simp [E3.items, render_append, render_wrapI, render_fx syn .NOT (by simp [fragFixed])]
  | .lbin op l r, hw, hl => by
    simp only [E3.wf, Bool.and_eq_true] at hw
    simp only [E3.lexOK, Bool.and_eq_true] at hl
    have hpl := (pclaim syn l hw.1.2 hl.1).ph (Or.inr hw.1.1.1.2)
    have hpr := (pclaim syn r hw.2 hl.2).ph (Or.inr hw.1.1.2)
    refine PClaim.ofPhrase rfl rfl rfl rfl ?_
    show print syn (.node op .none 0 0 [l.ast, r.ast]) = _
    rw [print, kidIds_cons, kidIds_cons, kidIds_nil, printKids_cons, printKids_cons, printKids_nil, hpl, hpr, ast_id2,
      ast_id2, assemble_logic syn op _ _ _ _ hw.1.1.1.1]
    simp [E3.items, render_append, render_wrapI, render_blank1,
      render_fx syn op (mem_fragFixed_of_free (mem_freeL_logic op hw.1.1.1.1))]
  | .pow a, hw, hl => by
    simp only [E3.wf, Bool.and_eq_true] at hw
    simp only [E3.lexOK] at hl
    have hpa := (pclaim syn a hw.2 hl).ph (Or.inl hw.1)
    refine PClaim.ofPhrase rfl rfl rfl rfl ?_
    show print syn (.node .BOOLEAN .none 0 0 [a.ast]) = _
    rw [print, kidIds_cons, kidIds_nil, printKids_cons, printKids_nil, hpa, ast_id2, assemble_boolean,
      top_boolean a hw.2]
    simp [E3.items, render_append, render_wrapI, render_fx syn .BOOLEAN (by simp [fragFixed])]
  | .one a, hw, hl => by
    simp only [E3.wf, Bool.and_eq_true] at hw
    simp only [E3.lexOK] at hl
    have ca := pclaim syn a hw.2 hl
    refine ⟨fun h' => by simp [E3.isS, E3.isL] at h', fun _ => ⟨?_, rfl⟩, fun h' => ff rfl h',
      fun _ h' => ff rfl h', fun hv _ => ?_, fun h' => ff rfl h'⟩
    · show printKids syn [a.ast] = _
      rw [printKids_cons, printKids_nil, ca.ph (Or.inl hw.1)]; rfl
    · show printKids syn [a.dast] = _
      rw [printKids_cons, printKids_nil, ca.vs hv hw.1]; rfl
  | .more a l, hw, hl => by
    simp only [E3.wf, Bool.and_eq_true] at hw
    simp only [E3.lexOK, Bool.and_eq_true] at hl
    have ca := pclaim syn a hw.1.2 hl.1
    have cl := pclaim syn l hw.2 hl.2
    have hp := punct_spell syn (mem_synL syn)
    obtain ⟨hlk, hlj⟩ := cl.li hw.1.1.2
    obtain ⟨x, xs, hx⟩ := texts_ne (syn := syn) hw.1.1.2
    refine ⟨fun h' => by simp [E3.isS, E3.isL] at h', fun _ => ⟨?_, ?_⟩, fun h' => ff rfl h',
      fun _ h' => ff rfl h', fun hv _ => ?_, fun h' => ff rfl h'⟩
    · show printKids syn (a.ast :: l.ast.kids) = _
      rw [printKids_cons, ca.ph (Or.inl hw.1.1.1), hlk]; rfl
    · show joinSep commaSp (render (a.items syn) :: l.texts syn) = _
      rw [hx, joinSep_cons2, ← hx, hlj]
      simp [E3.items, render_append, render_blank1, render_fx syn .PUNC_COMMA (by simp [fragFixed]), hp.2.2.2.2.2.2.1,
        commaSp]
    · simp only [E3.isVar, Bool.and_eq_true] at hv
      show printKids syn (a.dast :: l.dast.kids) = _
      rw [printKids_cons, ca.vs hv.1 hw.1.1.1, cl.vl hv.2 hw.1.1.2]; rfl
  | .enum l, hw, hl => by
    simp only [E3.wf, Bool.and_eq_true] at hw
    simp only [E3.lexOK] at hl
    obtain ⟨hlk, hlj⟩ := (pclaim syn l hw.2 hl).li hw.1
    have hp := punct_spell syn (mem_synL syn)
    refine PClaim.ofPhrase rfl rfl rfl rfl ?_
    show print syn (.node .NT_ENUMERATION .none 0 0 l.ast.kids) = _
    rw [print, hlk, assemble_enum, sequence_some]
    simp [E3.items, render_append, hlj, render_fx syn .PUNC_CL (by simp [fragFixed]),
      render_fx syn .PUNC_CR (by simp [fragFixed]), hp.2.2.2.2.1, hp.2.2.2.2.2.1]
  | .tuple a l, hw, hl => by
    simp only [E3.wf, Bool.and_eq_true] at hw
    simp only [E3.lexOK, Bool.and_eq_true] at hl
    have ca := pclaim syn a hw.1.2 hl.1
    have cl := pclaim syn l hw.2 hl.2
    obtain ⟨hlk, hlj⟩ := cl.li hw.1.1.2
    obtain ⟨x, xs, hx⟩ := texts_ne (syn := syn) hw.1.1.2
    have hp := punct_spell syn (mem_synL syn)
    have hpos := list_kids_pos hw.1.1.2
    have htext : (40 :: (joinSep commaSp (render (a.items syn) :: l.texts syn) ++ [41])) =
        render ((E3.tuple a l).items syn) := by
      rw [hx, joinSep_cons2, ← hx, hlj]
      simp [E3.items, render_append, render_blank1, render_fx syn .PUNC_COMMA (by simp [fragFixed]),
        render_fx syn .PUNC_PL (by simp [fragFixed]), render_fx syn .PUNC_PR (by simp [fragFixed]),
        hp.1, hp.2.1, hp.2.2.2.2.2.2.1, commaSp]
    have hprint : print syn (E3.tuple a l).ast = some (render ((E3.tuple a l).items syn)) := by
      show print syn (.node .NT_TUPLE .none 0 0 (a.ast :: l.ast.kids)) = _
      rw [print, printKids_cons, ca.ph (Or.inl hw.1.1.1), hlk,
        assemble_tuple syn _ (Or.inl rfl) _ _ (by rw [kidIds_length]; simp; omega)]
      show (sequence ((render (a.items syn) :: l.texts syn).map some)).bind _ = _
      rw [sequence_some, ← htext]; rfl
    refine ⟨fun _ => hprint, fun h' => ff rfl h', fun h' => ff rfl h', fun hv _ => ?_, fun _ h' => ff rfl h', fun h' => ff rfl h'⟩
    simp only [E3.isVar, Bool.and_eq_true] at hv
    show print syn (.node .NT_TUPLE_DECL .none 0 0 (a.dast :: l.dast.kids)) = _
    rw [print, printKids_cons, ca.vs hv.1 hw.1.1.1, cl.vl hv.2 hw.1.1.2,
      assemble_tuple syn _ (Or.inr rfl) _ _ (by rw [kidIds_length]; simp; omega)]
    show (sequence ((render (a.items syn) :: l.texts syn).map some)).bind _ = _
    rw [sequence_some, ← htext]; rfl
  | .fcall d l, hw, hl => by
    simp only [E3.wf, Bool.and_eq_true] at hw
    simp only [E3.lexOK, Bool.and_eq_true] at hl
    obtain ⟨hlk, hlj⟩ := (pclaim syn l hw.2 hl.2).li hw.1
    have hp := punct_spell syn (mem_synL syn)
    have hpos := list_kids_pos hw.1
    refine PClaim.ofPhrase rfl rfl rfl rfl ?_
    show print syn (.node .NT_FUNC_CALL .none 0 0 (.node .ID_FUNCTION d 0 0 [] :: l.ast.kids)) = _
    rw [print, printKids_cons, print, kidIds_nil, printKids_nil, leaf_print syn _ d hl.1, hlk,
      assemble_call syn _ _ _ (by rw [kidIds_length]; simp; omega), sequence_some]
    simp [E3.items, render_append, hlj, render_fx syn .PUNC_SL (by simp [fragFixed]),
      render_fx syn .PUNC_SR (by simp [fragFixed]), hp.2.2.1, hp.2.2.2.1]
  | .pcall d l, hw, hl => by
    simp only [E3.wf, Bool.and_eq_true] at hw
    simp only [E3.lexOK, Bool.and_eq_true] at hl
    obtain ⟨hlk, hlj⟩ := (pclaim syn l hw.2 hl.2).li hw.1
    have hp := punct_spell syn (mem_synL syn)
    have hpos := list_kids_pos hw.1
    refine PClaim.ofPhrase rfl rfl rfl rfl ?_
    show print syn (.node .NT_FUNC_CALL .none 0 0 (.node .ID_PREDICATE d 0 0 [] :: l.ast.kids)) = _
    rw [print, printKids_cons, print, kidIds_nil, printKids_nil, leaf_print syn _ d hl.1, hlk,
      assemble_call syn _ _ _ (by rw [kidIds_length]; simp; omega), sequence_some]
    simp [E3.items, render_append, hlj, render_fx syn .PUNC_SL (by simp [fragFixed]),
      render_fx syn .PUNC_SR (by simp [fragFixed]), hp.2.2.1, hp.2.2.2.1]
  | .filter d ps arg, hw, hl => by
    simp only [E3.wf, Bool.and_eq_true] at hw
    simp only [E3.lexOK, Bool.and_eq_true] at hl
    obtain ⟨hlk, hlj⟩ := (pclaim syn ps hw.1.2 hl.1.2).li hw.1.1.1
    have hparg := (pclaim syn arg hw.2 hl.2).ph (Or.inl hw.1.1.2)
    have hp := punct_spell syn (mem_synL syn)
    have hpos := list_kids_pos hw.1.1.1
    have hlen : (printKids syn ps.ast.kids).length = ps.ast.kids.length := printKids_length syn _
    have hlen2 : ((ps.texts syn).map some).length = ps.ast.kids.length := by rw [← hlk, hlen]
    refine PClaim.ofPhrase rfl rfl rfl rfl ?_
    show print syn (.node .FILTER d 0 0 (ps.ast.kids ++ [arg.ast])) = _
    rw [print, printKids_append, printKids_cons, printKids_nil, hparg, hlk,
      assemble_filter syn d _ _ (by rw [kidIds_length]; simp; omega), name_print syn _ d hl.1.1, kidIds_length]
    have e1 : (ps.ast.kids ++ [arg.ast]).length - 1 = ((ps.texts syn).map some).length := by
      rw [hlen2]; simp
    rw [e1, List.take_left' rfl, kidAt_append_right, sequence_some]
    simp [E3.items, render_append, hlj, paren, render_fx syn .PUNC_SL (by simp [fragFixed]),
      render_fx syn .PUNC_SR (by simp [fragFixed]), render_fx syn .PUNC_PL (by simp [fragFixed]),
      render_fx syn .PUNC_PR (by simp [fragFixed]), hp.1, hp.2.1, hp.2.2.1, hp.2.2.2.1]
  | .quant q vs dm b, hw, hl => by
    simp only [E3.wf, Bool.and_eq_true] at hw
    simp only [E3.lexOK, Bool.and_eq_true] at hl
    obtain ⟨⟨⟨⟨⟨⟨⟨hq, hvA⟩, hvV⟩, hdS⟩, hbL⟩, hvw⟩, hdw⟩, hbw⟩ := hw
    have hq' : q = .FORALL ∨ q = .EXISTS := by
      cases q <;> first | exact Or.inl rfl | exact Or.inr rfl | (exact absurd hq (by decide))
    have cv := pclaim syn vs hvw hl.1.1
    have hpd := (pclaim syn dm hdw hl.1.2).ph (Or.inl hdS)
    have hpb := (pclaim syn b hbw hl.2).ph (Or.inr hbL)
    obtain ⟨_, hvj⟩ := cv.li hvA
    have hvk := cv.vl hvV hvA
    have hdecl : print syn vs.declOf = some (render (vs.items syn)) := by
      cases vs with
      | one v =>
        simp only [E3.wf, Bool.and_eq_true] at hvw
        simp only [E3.lexOK] at hl
        exact (pclaim syn v hvw.2 hl.1.1).vs hvV hvw.1
      | more v l =>
        show print syn (.node .NT_ENUM_DECL .none 0 0 (E3.more v l).dast.kids) = _
        rw [print, hvk, assemble_enumdecl, sequence_some]
        show some (joinSep commaSp (E3.texts syn (E3.more v l))) = _
        rw [hvj]
      | _ => simp [E3.isA] at hvA
    refine PClaim.ofPhrase rfl rfl rfl rfl ?_
    show print syn (.node q .none 0 0 [vs.declOf, dm.ast, b.ast]) = _
    rw [print, kidIds_cons, kidIds_cons, kidIds_cons, kidIds_nil, printKids_cons, printKids_cons, printKids_cons,
      printKids_nil, hdecl, hpd, hpb, ast_id2 b, assemble_quant syn q _ _ _ _ _ _ hq']
    simp [E3.items, render_append, render_wrapI, render_blank1,
      render_fx syn q (mem_fragFixed_of_free (mem_freeL_quant q hq)), render_fx syn .IN (by simp [fragFixed])]
  | .decl v dm b, hw, hl => by
    simp only [E3.wf, Bool.and_eq_true] at hw
    simp only [E3.lexOK, Bool.and_eq_true] at hl
    obtain ⟨⟨⟨⟨⟨⟨hvS, hvV⟩, hdS⟩, hbL⟩, hvw⟩, hdw⟩, hbw⟩ := hw
    have hpv := (pclaim syn v hvw hl.1.1).vs hvV hvS
    have hpd := (pclaim syn dm hdw hl.1.2).ph (Or.inl hdS)
    have hpb := (pclaim syn b hbw hl.2).ph (Or.inr hbL)
    have hp := punct_spell syn (mem_synL syn)
    refine PClaim.ofPhrase rfl rfl rfl rfl ?_
    show print syn (.node .NT_DECLARATIVE_EXPR .none 0 0 [v.dast, dm.ast, b.ast]) = _
    rw [print, kidIds_cons, kidIds_cons, kidIds_cons, kidIds_nil, printKids_cons, printKids_cons, printKids_cons,
      printKids_nil, hpv, hpd, hpb, assemble_decl]
    simp [E3.items, render_append, render_blank1, barSp, render_fx syn .DECLARATIVE (by simp [fragFixed]),
      render_fx syn .PUNC_CL (by simp [fragFixed]), render_fx syn .PUNC_CR (by simp [fragFixed]),
      render_fx syn .PUNC_BAR (by simp [fragFixed]), render_fx syn .IN (by simp [fragFixed]),
      hp.2.2.2.2.1, hp.2.2.2.2.2.1, hp.2.2.2.2.2.2.2]

  | .recS v d s, hw, hl => by
    simp only [E3.wf, Bool.and_eq_true] at hw
    simp only [E3.lexOK, Bool.and_eq_true] at hl
    obtain ⟨⟨⟨⟨⟨⟨hvS, hvV⟩, hdS⟩, hsS⟩, hvw⟩, hdw⟩, hsw⟩ := hw
    have hpv := (pclaim syn v hvw hl.1.1).vs hvV hvS
    have hpd := (pclaim syn d hdw hl.1.2).ph (Or.inl hdS)
    have hps := (pclaim syn s hsw hl.2).ph (Or.inl hsS)
    have hp := punct_spell syn (mem_synL syn)
    refine PClaim.ofPhrase rfl rfl rfl rfl ?_
    show print syn (.node .NT_RECURSIVE_SHORT .none 0 0 [v.dast, d.ast, s.ast]) = _
    rw [print, kidIds_cons, kidIds_cons, kidIds_cons, kidIds_nil, printKids_cons, printKids_cons, printKids_cons,
      printKids_nil, hpv, hpd, hps, assemble_recS]
    simp [E3.items, render_append, render_blank1, barSp, render_fx syn .RECURSIVE (by simp [fragFixed]),
      render_fx syn .PUNC_CL (by simp [fragFixed]), render_fx syn .PUNC_CR (by simp [fragFixed]),
      render_fx syn .PUNC_BAR (by simp [fragFixed]), render_fx syn .ASSIGN (by simp [fragFixed]),
      hp.2.2.2.2.1, hp.2.2.2.2.2.1, hp.2.2.2.2.2.2.2]
  | .recF v d c s, hw, hl => by
    simp only [E3.wf, Bool.and_eq_true] at hw
    simp only [E3.lexOK, Bool.and_eq_true] at hl
    obtain ⟨⟨⟨⟨⟨⟨⟨⟨hvS, hvV⟩, hdS⟩, hcL⟩, hsS⟩, hvw⟩, hdw⟩, hcw⟩, hsw⟩ := hw
    have hpv := (pclaim syn v hvw hl.1.1.1).vs hvV hvS
    have hpd := (pclaim syn d hdw hl.1.1.2).ph (Or.inl hdS)
    have hpc := (pclaim syn c hcw hl.1.2).ph (Or.inr hcL)
    have hps := (pclaim syn s hsw hl.2).ph (Or.inl hsS)
    have hp := punct_spell syn (mem_synL syn)
    refine PClaim.ofPhrase rfl rfl rfl rfl ?_
    show print syn (.node .NT_RECURSIVE_FULL .none 0 0 [v.dast, d.ast, c.ast, s.ast]) = _
    rw [print, kidIds_cons, kidIds_cons, kidIds_cons, kidIds_cons, kidIds_nil, printKids_cons, printKids_cons,
      printKids_cons, printKids_cons, printKids_nil, hpv, hpd, hpc, hps, assemble_recF]
    simp [E3.items, render_append, render_blank1, barSp, render_fx syn .RECURSIVE (by simp [fragFixed]),
      render_fx syn .PUNC_CL (by simp [fragFixed]), render_fx syn .PUNC_CR (by simp [fragFixed]),
      render_fx syn .PUNC_BAR (by simp [fragFixed]), render_fx syn .ASSIGN (by simp [fragFixed]),
      hp.2.2.2.2.1, hp.2.2.2.2.2.1, hp.2.2.2.2.2.2.2]
  | .imp val bs, hw, hl => by
    simp only [E3.wf, Bool.and_eq_true] at hw
    simp only [E3.lexOK, Bool.and_eq_true] at hl
    obtain ⟨⟨⟨hvS, hbB⟩, hvw⟩, hbw⟩ := hw
    have hpv := (pclaim syn val hvw hl.1).ph (Or.inl hvS)
    obtain ⟨hbk, hbj⟩ := (pclaim syn bs hbw hl.2).bl hbB
    have hp := punct_spell syn (mem_synL syn)
    have hpos : 1 ≤ bs.ast.kids.length := by cases bs <;> simp [E3.isB] at hbB <;> simp [E3.ast, Ast.kids]
    refine PClaim.ofPhrase rfl rfl rfl rfl ?_
    show print syn (.node .NT_IMPERATIVE_EXPR .none 0 0 (val.ast :: bs.ast.kids)) = _
    rw [print, printKids_cons, hpv, hbk, assemble_imp syn _ _ _ (by rw [kidIds_length]; simp; omega), sequence_some]
    simp [E3.items, render_append, render_blank1, barSp, hbj, render_fx syn .IMPERATIVE (by simp [fragFixed]),
      render_fx syn .PUNC_CL (by simp [fragFixed]), render_fx syn .PUNC_CR (by simp [fragFixed]),
      render_fx syn .PUNC_BAR (by simp [fragFixed]), hp.2.2.2.2.1, hp.2.2.2.2.2.1, hp.2.2.2.2.2.2.2]
  | .bone b, hw, hl => by
    simp only [E3.wf, Bool.and_eq_true] at hw
    simp only [E3.lexOK] at hl
    have cb := pclaim syn b hw.2 hl
    refine ⟨fun h' => by simp [E3.isS, E3.isL] at h', fun h' => ff rfl h', fun h' => ff rfl h', fun h' => ff rfl h',
      fun h' => ff rfl h', fun _ => ⟨?_, rfl⟩⟩
    show printKids syn [b.ast] = _
    rw [printKids_cons, printKids_nil, cb.ph (Or.inr hw.1)]; rfl
  | .boneK op v s, hw, hl => by
    simp only [E3.wf, Bool.and_eq_true] at hw
    simp only [E3.lexOK, Bool.and_eq_true] at hl
    obtain ⟨⟨⟨⟨⟨hop, hvS⟩, hvV⟩, hsS⟩, hvw⟩, hsw⟩ := hw
    have hk := blk_print syn op v s hop ((pclaim syn v hvw hl.1).vs hvV hvS) ((pclaim syn s hsw hl.2).ph (Or.inl hsS))
    refine ⟨fun h' => by simp [E3.isS, E3.isL] at h', fun h' => ff rfl h', fun h' => ff rfl h', fun h' => ff rfl h',
      fun h' => ff rfl h', fun _ => ⟨?_, rfl⟩⟩
    show printKids syn [.node op .none 0 0 [v.dast, s.ast]] = _
    rw [printKids_cons, printKids_nil, hk]; rfl
  | .bmore b l, hw, hl => by
    simp only [E3.wf, Bool.and_eq_true] at hw
    simp only [E3.lexOK, Bool.and_eq_true] at hl
    obtain ⟨⟨⟨hbL, hlB⟩, hbw⟩, hlw⟩ := hw
    have cb := pclaim syn b hbw hl.1
    obtain ⟨hlk, hlj⟩ := (pclaim syn l hlw hl.2).bl hlB
    obtain ⟨x, xs, hx⟩ := btexts_ne (syn := syn) hlB
    refine ⟨fun h' => by simp [E3.isS, E3.isL] at h', fun h' => ff rfl h', fun h' => ff rfl h', fun h' => ff rfl h',
      fun h' => ff rfl h', fun _ => ⟨?_, ?_⟩⟩
    · show printKids syn (b.ast :: l.ast.kids) = _
      rw [printKids_cons, cb.ph (Or.inr hbL), hlk]; rfl
    · show joinSep semiSp (render (b.items syn) :: l.btexts syn) = _
      rw [hx, joinSep_cons2, ← hx, hlj]
      simp [E3.items, render_append, render_blank1, render_fx syn .PUNC_SEMICOLON (by simp [fragFixed]),
        (assign_spell syn (mem_synL syn)).2.2, semiSp]
  | .bmoreK op v s l, hw, hl => by
    simp only [E3.wf, Bool.and_eq_true] at hw
    simp only [E3.lexOK, Bool.and_eq_true] at hl
    obtain ⟨⟨⟨⟨⟨⟨⟨hop, hvS⟩, hvV⟩, hsS⟩, hlB⟩, hvw⟩, hsw⟩, hlw⟩ := hw
    have hk := blk_print syn op v s hop ((pclaim syn v hvw hl.1.1).vs hvV hvS) ((pclaim syn s hsw hl.1.2).ph (Or.inl hsS))
    obtain ⟨hlk, hlj⟩ := (pclaim syn l hlw hl.2).bl hlB
    obtain ⟨x, xs, hx⟩ := btexts_ne (syn := syn) hlB
    refine ⟨fun h' => by simp [E3.isS, E3.isL] at h', fun h' => ff rfl h', fun h' => ff rfl h', fun h' => ff rfl h',
      fun h' => ff rfl h', fun _ => ⟨?_, ?_⟩⟩
    · show printKids syn (.node op .none 0 0 [v.dast, s.ast] :: l.ast.kids) = _
      rw [printKids_cons, hk, hlk]; rfl
    · show joinSep semiSp (render (v.items syn ++ (fx syn op ++ s.items syn)) :: l.btexts syn) = _
      rw [hx, joinSep_cons2, ← hx, hlj]
      simp [E3.items, render_append, render_blank1, render_fx syn .PUNC_SEMICOLON (by simp [fragFixed]),
        (assign_spell syn (mem_synL syn)).2.2, semiSp]

/-! ## lexing the printed text -/

/-- **the lexer link**: for every well-formed phrase of the fragment whose leaf payloads are what the lexer produces
(`E3.lexOK`), the printer model prints a text, and the lexer model reads it back as exactly the token sequence
`E3.toks` (kinds and payloads) followed by END -/
theorem lex_print2 (syn : Syn) (e : E3) (hw : e.wf = true) (hSL : e.isS = true ∨ e.isL = true) (hl : e.lexOK syn = true) :
    print syn e.ast = some (render (e.items syn)) ∧
    (lex syn (render (e.items syn))).map (·.map kd2) = some ((e.toks ++ [tk .END]).map kd2) := by
  refine ⟨(pclaim syn e hw hl).ph hSL, ?_⟩
  have h := lex_items syn (e.items syn) (items_chain syn e hw hl none (nextOK_none syn))
  rw [kds_items syn e hl] at h
  show (lex syn (render (e.items syn))).map (·.map fun t => (t.id, t.data)) = _
  rw [h, List.map_append]; rfl

/-! ## local names are not changed by the transliteration -/

theorem translit_node (syn : Syn) (id : Tok) (d : TokData) (lo hi : Int) (kids : List Ast) :
    translit syn (.node id d lo hi kids) = .node id (tdata syn id d) lo hi (translitKids syn kids) := by
  rw [translit.eq_def]; rfl

theorem tnode (syn : Syn) (id : Tok) (d : TokData) (kids : List Ast) (hd : tdata syn id d = d)
    (hk : translitKids syn kids = kids) : translit syn (.node id d 0 0 kids) = .node id d 0 0 kids := by
  rw [translit_node, hd, hk]

theorem tdata_none (syn : Syn) (id : Tok) : tdata syn id .none = .none := by cases id <;> rfl
theorem tdata_tuple (syn : Syn) (id : Tok) (idx : List Int) : tdata syn id (.tuple idx) = .tuple idx := by cases id <;> rfl
theorem tdata_int (syn : Syn) (id : Tok) (n : Int) : tdata syn id (.int n) = .int n := by cases id <;> rfl

theorem tdata_leaf (syn : Syn) (id : Tok) (d : TokData) (h : leafOK syn id d = true) : tdata syn id d = d := by
  cases d with
  | none => exact tdata_none syn id
  | int n => exact tdata_int syn id n
  | tuple idx => exact tdata_tuple syn id idx
  | text s =>
    have hok : idOK syn id s = true := by cases id <;> simp [leafOK] at h <;> exact h
    simp only [idOK, Bool.and_eq_true, decide_eq_true_eq, Bool.not_eq_true', List.isEmpty_eq_false_iff] at hok
    have hc : convertID syn (stringUnits s) = stringUnits s := by
      cases syn
      · rfl
      · exact convertID_ascii _ hok.1.2
    cases id <;> first | rfl | skip
    show TokData.text (String.ofList ((convertID syn (stringUnits s)).map Char.ofNat)) = _
    rw [hc]
    exact congrArg TokData.text (unitsToString_stringUnits s)

theorem tdata_name (syn : Syn) (f : Tok) (d : TokData) (h : nameOK f d = true) : tdata syn f d = d := by
  cases d with
  | none => exact tdata_none syn f
  | tuple idx => exact tdata_tuple syn f idx
  | int n => simp [nameOK] at h
  | text s => simp [nameOK] at h

theorem tk_nil (syn : Syn) : translitKids syn [] = [] := by rw [translitKids]
theorem tk_cons (syn : Syn) (k : Ast) (ks : List Ast) : translitKids syn (k :: ks) = translit syn k :: translitKids syn ks := by
  rw [translitKids]
theorem tk_append (syn : Syn) : ∀ xs ys : List Ast, translitKids syn (xs ++ ys) = translitKids syn xs ++ translitKids syn ys
  | [], ys => by rw [tk_nil]; rfl
  | x :: xs, ys => by rw [List.cons_append, tk_cons, tk_cons, tk_append syn xs ys]; rfl

/-- what the transliteration does on the trees of a phrase: nothing -/
structure TClaim (syn : Syn) (e : E3) : Prop where
  a : translit syn e.ast = e.ast
  ak : translitKids syn e.ast.kids = e.ast.kids
  d : e.isVar = true → translit syn e.dast = e.dast ∧ translitKids syn e.dast.kids = e.dast.kids

theorem TClaim.mk' {syn : Syn} {e : E3} (id : Tok) (d : TokData) (kids : List Ast) (he : e.ast = .node id d 0 0 kids)
    (hd : tdata syn id d = d) (hk : translitKids syn kids = kids)
    (hv : e.isVar = true → translit syn e.dast = e.dast ∧ translitKids syn e.dast.kids = e.dast.kids) : TClaim syn e :=
  ⟨by rw [he]; exact tnode syn id d kids hd hk, by rw [he]; exact hk, hv⟩

theorem tclaim (syn : Syn) : ∀ e : E3, e.wf = true → e.lexOK syn = true → TClaim syn e
  | .atom id d, _, hl => by
    simp only [E3.lexOK] at hl
    exact TClaim.mk' id d [] rfl (tdata_leaf syn id d hl) (tk_nil syn)
      (fun _ => ⟨tnode syn id d [] (tdata_leaf syn id d hl) (tk_nil syn), tk_nil syn⟩)
  | .text f d a, hw, hl => by
    simp only [E3.wf, Bool.and_eq_true] at hw
    simp only [E3.lexOK, Bool.and_eq_true] at hl
    exact TClaim.mk' f d [a.ast] rfl (tdata_name syn f d hl.1)
      (by rw [tk_cons, tk_nil, (tclaim syn a hw.2 hl.2).a]) (fun h => by simp [E3.isVar] at h)
  | .sbin op l r, hw, hl => by
    simp only [E3.wf, Bool.and_eq_true] at hw
    simp only [E3.lexOK, Bool.and_eq_true] at hl
    exact TClaim.mk' op .none [l.ast, r.ast] rfl (tdata_none syn op)
      (by rw [tk_cons, tk_cons, tk_nil, (tclaim syn l hw.1.2 hl.1).a, (tclaim syn r hw.2 hl.2).a])
      (fun h => by simp [E3.isVar] at h)
  | .prod2 a b, hw, hl => by
    simp only [E3.wf, Bool.and_eq_true] at hw
    simp only [E3.lexOK, Bool.and_eq_true] at hl
    exact TClaim.mk' .DECART .none [a.ast, b.ast] rfl rfl
      (by rw [tk_cons, tk_cons, tk_nil, (tclaim syn a hw.1.2 hl.1).a, (tclaim syn b hw.2 hl.2).a])
      (fun h => by simp [E3.isVar] at h)
  | .prodN p k, hw, hl => by
    simp only [E3.wf, Bool.and_eq_true] at hw
    simp only [E3.lexOK, Bool.and_eq_true] at hl
    exact TClaim.mk' .DECART .none (p.ast.kids ++ [k.ast]) rfl rfl
      (by rw [tk_append, tk_cons, tk_nil, (tclaim syn p hw.1.2 hl.1).ak, (tclaim syn k hw.2 hl.2).a])
      (fun h => by simp [E3.isVar] at h)
  | .pred op l r, hw, hl => by
    simp only [E3.wf, Bool.and_eq_true] at hw
    simp only [E3.lexOK, Bool.and_eq_true] at hl
    exact TClaim.mk' op .none [l.ast, r.ast] rfl (tdata_none syn op)
      (by rw [tk_cons, tk_cons, tk_nil, (tclaim syn l hw.1.2 hl.1).a, (tclaim syn r hw.2 hl.2).a])
      (fun h => by simp [E3.isVar] at h)
  | .neg x, hw, hl => by
    simp only [E3.wf, Bool.and_eq_true] at hw
    simp only [E3.lexOK] at hl
    exact TClaim.mk' .NOT .none [x.ast] rfl rfl (by rw [tk_cons, tk_nil, (tclaim syn x hw.2 hl).a])
      (fun h => by simp [E3.isVar] at h)
  | .lbin op l r, hw, hl => by
    simp only [E3.wf, Bool.and_eq_true] at hw
    simp only [E3.lexOK, Bool.and_eq_true] at hl
    exact TClaim.mk' op .none [l.ast, r.ast] rfl (tdata_none syn op)
      (by rw [tk_cons, tk_cons, tk_nil, (tclaim syn l hw.1.2 hl.1).a, (tclaim syn r hw.2 hl.2).a])
      (fun h => by simp [E3.isVar] at h)
  | .pow a, hw, hl => by
    simp only [E3.wf, Bool.and_eq_true] at hw
    simp only [E3.lexOK] at hl
    exact TClaim.mk' .BOOLEAN .none [a.ast] rfl rfl (by rw [tk_cons, tk_nil, (tclaim syn a hw.2 hl).a])
      (fun h => by simp [E3.isVar] at h)
  | .one a, hw, hl => by
    simp only [E3.wf, Bool.and_eq_true] at hw
    simp only [E3.lexOK] at hl
    have ca := tclaim syn a hw.2 hl
    refine TClaim.mk' .PUNC_COMMA .none [a.ast] rfl rfl (by rw [tk_cons, tk_nil, ca.a]) (fun hv => ?_)
    have hk : translitKids syn [a.dast] = [a.dast] := by rw [tk_cons, tk_nil, (ca.d hv).1]
    exact ⟨tnode syn .PUNC_COMMA .none _ rfl hk, hk⟩
  | .more a l, hw, hl => by
    simp only [E3.wf, Bool.and_eq_true] at hw
    simp only [E3.lexOK, Bool.and_eq_true] at hl
    have ca := tclaim syn a hw.1.2 hl.1
    have cl := tclaim syn l hw.2 hl.2
    refine TClaim.mk' .PUNC_COMMA .none (a.ast :: l.ast.kids) rfl rfl (by rw [tk_cons, ca.a, cl.ak]) (fun hv => ?_)
    simp only [E3.isVar, Bool.and_eq_true] at hv
    have hk : translitKids syn (a.dast :: l.dast.kids) = a.dast :: l.dast.kids := by
      rw [tk_cons, (ca.d hv.1).1, (cl.d hv.2).2]
    exact ⟨tnode syn .PUNC_COMMA .none _ rfl hk, hk⟩
  | .enum l, hw, hl => by
    simp only [E3.wf, Bool.and_eq_true] at hw
    simp only [E3.lexOK] at hl
    exact TClaim.mk' .NT_ENUMERATION .none l.ast.kids rfl rfl (tclaim syn l hw.2 hl).ak (fun h => by simp [E3.isVar] at h)
  | .tuple a l, hw, hl => by
    simp only [E3.wf, Bool.and_eq_true] at hw
    simp only [E3.lexOK, Bool.and_eq_true] at hl
    have ca := tclaim syn a hw.1.2 hl.1
    have cl := tclaim syn l hw.2 hl.2
    refine TClaim.mk' .NT_TUPLE .none (a.ast :: l.ast.kids) rfl rfl (by rw [tk_cons, ca.a, cl.ak]) (fun hv => ?_)
    simp only [E3.isVar, Bool.and_eq_true] at hv
    have hk : translitKids syn (a.dast :: l.dast.kids) = a.dast :: l.dast.kids := by
      rw [tk_cons, (ca.d hv.1).1, (cl.d hv.2).2]
    exact ⟨tnode syn .NT_TUPLE_DECL .none _ rfl hk, hk⟩
  | .fcall d l, hw, hl => by
    simp only [E3.wf, Bool.and_eq_true] at hw
    simp only [E3.lexOK, Bool.and_eq_true] at hl
    exact TClaim.mk' .NT_FUNC_CALL .none (.node .ID_FUNCTION d 0 0 [] :: l.ast.kids) rfl rfl
      (by rw [tk_cons, tnode syn .ID_FUNCTION d [] (tdata_leaf syn _ d hl.1) (tk_nil syn), (tclaim syn l hw.2 hl.2).ak])
      (fun h => by simp [E3.isVar] at h)
  | .pcall d l, hw, hl => by
    simp only [E3.wf, Bool.and_eq_true] at hw
    simp only [E3.lexOK, Bool.and_eq_true] at hl
    exact TClaim.mk' .NT_FUNC_CALL .none (.node .ID_PREDICATE d 0 0 [] :: l.ast.kids) rfl rfl
      (by rw [tk_cons, tnode syn .ID_PREDICATE d [] (tdata_leaf syn _ d hl.1) (tk_nil syn), (tclaim syn l hw.2 hl.2).ak])
      (fun h => by simp [E3.isVar] at h)
  | .filter d ps arg, hw, hl => by
    simp only [E3.wf, Bool.and_eq_true] at hw
    simp only [E3.lexOK, Bool.and_eq_true] at hl
    exact TClaim.mk' .FILTER d (ps.ast.kids ++ [arg.ast]) rfl (tdata_name syn _ d hl.1.1)
      (by rw [tk_append, tk_cons, tk_nil, (tclaim syn ps hw.1.2 hl.1.2).ak, (tclaim syn arg hw.2 hl.2).a])
      (fun h => by simp [E3.isVar] at h)
  | .quant q vs dm b, hw, hl => by
    simp only [E3.wf, Bool.and_eq_true] at hw
    simp only [E3.lexOK, Bool.and_eq_true] at hl
    obtain ⟨⟨⟨⟨⟨⟨⟨_, hvA⟩, hvV⟩, _⟩, _⟩, hvw⟩, hdw⟩, hbw⟩ := hw
    have cv := tclaim syn vs hvw hl.1.1
    have hdecl : translit syn vs.declOf = vs.declOf := by
      cases vs with
      | one v =>
        simp only [E3.wf, Bool.and_eq_true] at hvw
        simp only [E3.lexOK] at hl
        exact ((tclaim syn v hvw.2 hl.1.1).d hvV).1
      | more v l => exact tnode syn .NT_ENUM_DECL .none _ rfl (cv.d hvV).2
      | _ => simp [E3.isA] at hvA
    exact TClaim.mk' q .none [vs.declOf, dm.ast, b.ast] rfl (tdata_none syn q)
      (by rw [tk_cons, tk_cons, tk_cons, tk_nil, hdecl, (tclaim syn dm hdw hl.1.2).a, (tclaim syn b hbw hl.2).a])
      (fun h => by simp [E3.isVar] at h)
  | .decl v dm b, hw, hl => by
    simp only [E3.wf, Bool.and_eq_true] at hw
    simp only [E3.lexOK, Bool.and_eq_true] at hl
    obtain ⟨⟨⟨⟨⟨⟨_, hvV⟩, _⟩, _⟩, hvw⟩, hdw⟩, hbw⟩ := hw
    exact TClaim.mk' .NT_DECLARATIVE_EXPR .none [v.dast, dm.ast, b.ast] rfl rfl
      (by rw [tk_cons, tk_cons, tk_cons, tk_nil, ((tclaim syn v hvw hl.1.1).d hvV).1, (tclaim syn dm hdw hl.1.2).a,
        (tclaim syn b hbw hl.2).a])
      (fun h => by simp [E3.isVar] at h)

  | .recS v d s, hw, hl => by
    simp only [E3.wf, Bool.and_eq_true] at hw
    simp only [E3.lexOK, Bool.and_eq_true] at hl
    obtain ⟨⟨⟨⟨⟨⟨_, hvV⟩, _⟩, _⟩, hvw⟩, hdw⟩, hsw⟩ := hw
    exact TClaim.mk' .NT_RECURSIVE_SHORT .none [v.dast, d.ast, s.ast] rfl rfl
      (by rw [tk_cons, tk_cons, tk_cons, tk_nil, ((tclaim syn v hvw hl.1.1).d hvV).1, (tclaim syn d hdw hl.1.2).a,
        (tclaim syn s hsw hl.2).a])
      (fun h => by simp [E3.isVar] at h)
  | .recF v d c s, hw, hl => by
    simp only [E3.wf, Bool.and_eq_true] at hw
    simp only [E3.lexOK, Bool.and_eq_true] at hl
    obtain ⟨⟨⟨⟨⟨⟨⟨⟨_, hvV⟩, _⟩, _⟩, _⟩, hvw⟩, hdw⟩, hcw⟩, hsw⟩ := hw
    exact TClaim.mk' .NT_RECURSIVE_FULL .none [v.dast, d.ast, c.ast, s.ast] rfl rfl
      (by rw [tk_cons, tk_cons, tk_cons, tk_cons, tk_nil, ((tclaim syn v hvw hl.1.1.1).d hvV).1,
        (tclaim syn d hdw hl.1.1.2).a, (tclaim syn c hcw hl.1.2).a, (tclaim syn s hsw hl.2).a])
      (fun h => by simp [E3.isVar] at h)
  | .imp val bs, hw, hl => by
    simp only [E3.wf, Bool.and_eq_true] at hw
    simp only [E3.lexOK, Bool.and_eq_true] at hl
    exact TClaim.mk' .NT_IMPERATIVE_EXPR .none (val.ast :: bs.ast.kids) rfl rfl
      (by rw [tk_cons, (tclaim syn val hw.1.2 hl.1).a, (tclaim syn bs hw.2 hl.2).ak])
      (fun h => by simp [E3.isVar] at h)
  | .bone b, hw, hl => by
    simp only [E3.wf, Bool.and_eq_true] at hw
    simp only [E3.lexOK] at hl
    exact TClaim.mk' .NT_IMPERATIVE_EXPR .none [b.ast] rfl rfl (by rw [tk_cons, tk_nil, (tclaim syn b hw.2 hl).a])
      (fun h => by simp [E3.isVar] at h)
  | .boneK op v s, hw, hl => by
    simp only [E3.wf, Bool.and_eq_true] at hw
    simp only [E3.lexOK, Bool.and_eq_true] at hl
    obtain ⟨⟨⟨⟨⟨_, _⟩, hvV⟩, _⟩, hvw⟩, hsw⟩ := hw
    exact TClaim.mk' .NT_IMPERATIVE_EXPR .none [.node op .none 0 0 [v.dast, s.ast]] rfl rfl
      (by rw [tk_cons, tk_nil, tnode syn op .none _ (tdata_none syn op)
        (by rw [tk_cons, tk_cons, tk_nil, ((tclaim syn v hvw hl.1).d hvV).1, (tclaim syn s hsw hl.2).a])])
      (fun h => by simp [E3.isVar] at h)
  | .bmore b l, hw, hl => by
    simp only [E3.wf, Bool.and_eq_true] at hw
    simp only [E3.lexOK, Bool.and_eq_true] at hl
    exact TClaim.mk' .NT_IMPERATIVE_EXPR .none (b.ast :: l.ast.kids) rfl rfl
      (by rw [tk_cons, (tclaim syn b hw.1.2 hl.1).a, (tclaim syn l hw.2 hl.2).ak])
      (fun h => by simp [E3.isVar] at h)
  | .bmoreK op v s l, hw, hl => by
    simp only [E3.wf, Bool.and_eq_true] at hw
    simp only [E3.lexOK, Bool.and_eq_true] at hl
    obtain ⟨⟨⟨⟨⟨⟨⟨_, _⟩, hvV⟩, _⟩, _⟩, hvw⟩, hsw⟩, hlw⟩ := hw
    exact TClaim.mk' .NT_IMPERATIVE_EXPR .none (.node op .none 0 0 [v.dast, s.ast] :: l.ast.kids) rfl rfl
      (by rw [tk_cons, tnode syn op .none _ (tdata_none syn op)
        (by rw [tk_cons, tk_cons, tk_nil, ((tclaim syn v hvw hl.1.1).d hvV).1, (tclaim syn s hsw hl.1.2).a]),
        (tclaim syn l hlw hl.2).ak])
      (fun h => by simp [E3.isVar] at h)

/-! ## the whole chain -/

/-- **print then parse gives the tree back, at the level of TEXT**: for every well-formed set phrase or formula of the
fragment with lexer-conformant leaves the printer model produces a text, the lexer and parser models accept it, and
the resulting tree equals the original one up to positions (`Ast.eqv` = `SyntaxTree::operator==`); the
transliteration of local names is the identity on such trees -/
theorem text_roundtrip2 (syn : Syn) (e : E3) (hw : e.wf = true) (hSL : e.isS = true ∨ e.isL = true)
    (hl : e.lexOK syn = true) :
    ∃ text t', print syn e.ast = some text ∧ parse syn text = some t' ∧ Ast.eqv t' (translit syn e.ast) = true := by
  obtain ⟨hp, hlex⟩ := lex_print2 syn e hw hSL hl
  refine ⟨render (e.items syn), ?_⟩
  cases hts : lex syn (render (e.items syn)) with
  | none => rw [hts] at hlex; cases hlex
  | some ts =>
    rw [hts] at hlex
    simp only [Option.map_some, Option.some.injEq] at hlex
    have hmap : ts.map PE.er = (e.toks ++ [tk .END]).map PE.er := by
      have h1 : ∀ us : Toks, us.map PE.er = (us.map kd2).map (fun p => (⟨p.1, p.2, 0, 0⟩ : LTok)) := by
        intro us; rw [List.map_map]; rfl
      rw [h1 ts, h1 (e.toks ++ [tk .END]), hlex]
    have hparse := parseToks_toks_wf2 e hw hSL
    have h2 := PE.parseToks_erase (e.toks ++ [tk .END])
    rw [hparse, ← hmap, PE.parseToks_erase ts] at h2
    cases hpt : parseToks ts with
    | none => rw [hpt] at h2; cases h2
    | some t' =>
      rw [hpt] at h2
      simp only [Option.map_some, Option.some.injEq] at h2
      refine ⟨t', hp, ?_, ?_⟩
      · unfold parse; rw [hts]; exact hpt
      · rw [(tclaim syn e hw hl).a]; exact PE.eqv_of_erA_eq h2

/-! ## positions of the printed tree do not matter -/

theorem erA_node (id : Tok) (d : TokData) (lo hi : Int) (ks : List Ast) :
    PE.erA (.node id d lo hi ks) = .node id d 0 0 (PE.erL ks) := by rw [PE.erA]

theorem erL_cons (k : Ast) (ks : List Ast) : PE.erL (k :: ks) = PE.erA k :: PE.erL ks := by rw [PE.erL]
theorem erL_nil : PE.erL [] = [] := by rw [PE.erL]

theorem erA_id (t : Ast) : (PE.erA t).id = t.id := by cases t; rw [erA_node]; rfl

theorem kidIds_erL : ∀ ks : List Ast, kidIds (PE.erL ks) = kidIds ks
  | [] => by rw [erL_nil]
  | k :: ks => by rw [erL_cons, kidIds_cons, kidIds_cons, erA_id, kidIds_erL ks]

mutual
theorem print_erA (syn : Syn) : ∀ t : Ast, print syn (PE.erA t) = print syn t
  | .node id d lo hi ks => by
    rw [erA_node, print, print, kidIds_erL, printKids_erL syn ks]
theorem printKids_erL (syn : Syn) : ∀ ks : List Ast, printKids syn (PE.erL ks) = printKids syn ks
  | [] => by rw [erL_nil]
  | k :: ks => by rw [erL_cons, printKids_cons, printKids_cons, print_erA syn k, printKids_erL syn ks]
end

mutual
theorem translit_erA (syn : Syn) : ∀ t : Ast, PE.erA (translit syn t) = translit syn (PE.erA t)
  | .node id d lo hi ks => by
    rw [erA_node, translit_node, translit_node, erA_node, translitKids_erL syn ks]
theorem translitKids_erL (syn : Syn) : ∀ ks : List Ast, PE.erL (translitKids syn ks) = translitKids syn (PE.erL ks)
  | [] => by rw [erL_nil, tk_nil, erL_nil]
  | k :: ks => by rw [erL_cons, tk_cons, tk_cons, erL_cons, translit_erA syn k, translitKids_erL syn ks]
end

/-- **the property on the fragment, for a tree with ANY positions**: if `t` is, up to positions, the tree of a
well-formed set phrase or formula `e` of `E3` with lexer-conformant leaves, then printing `t`, lexing and parsing the
text gives a tree equal to `translit syn t` up to positions -/
theorem text_roundtrip2_any (syn : Syn) (t : Ast) (e : E3) (ht : PE.erA t = e.ast) (hw : e.wf = true)
    (hSL : e.isS = true ∨ e.isL = true) (hl : e.lexOK syn = true) :
    ∃ text t', print syn t = some text ∧ parse syn text = some t' ∧ Ast.eqv t' (translit syn t) = true := by
  obtain ⟨hp, hlex⟩ := lex_print2 syn e hw hSL hl
  refine ⟨render (e.items syn), ?_⟩
  have hpt : print syn t = some (render (e.items syn)) := by rw [← print_erA, ht]; exact hp
  have hee : PE.erA e.ast = e.ast := by rw [← ht, PE.erA_erA]
  cases hts : lex syn (render (e.items syn)) with
  | none => rw [hts] at hlex; cases hlex
  | some ts =>
    rw [hts] at hlex
    simp only [Option.map_some, Option.some.injEq] at hlex
    have hmap : ts.map PE.er = (e.toks ++ [tk .END]).map PE.er := by
      have h1 : ∀ us : Toks, us.map PE.er = (us.map kd2).map (fun p => (⟨p.1, p.2, 0, 0⟩ : LTok)) := by
        intro us; rw [List.map_map]; rfl
      rw [h1 ts, h1 (e.toks ++ [tk .END]), hlex]
    have hparse := parseToks_toks_wf2 e hw hSL
    have h2 := PE.parseToks_erase (e.toks ++ [tk .END])
    rw [hparse, ← hmap, PE.parseToks_erase ts] at h2
    cases hpt' : parseToks ts with
    | none => rw [hpt'] at h2; cases h2
    | some t' =>
      rw [hpt'] at h2
      simp only [Option.map_some, Option.some.injEq] at h2
      refine ⟨t', hpt, ?_, ?_⟩
      · unfold parse; rw [hts]; exact hpt'
      · apply PE.eqv_of_erA_eq
        rw [h2, translit_erA, ht, (tclaim syn e hw hl).a, hee]

end CCVerif.PP3
