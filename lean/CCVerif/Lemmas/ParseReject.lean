import CCVerif.Model.Parser
/-!
C05 / C04: a NECESSARY condition for acceptance by the parser model (`Model/Parser.lean`), i.e. a parser-FAILURE theorem.

In a token stream the parser accepts and that contains no quantifier token (`∀`, `∃`), a token that ENDS an operand on its own
(an identifier that is not a function / predicate name, a literal: `ender`) is never directly followed by a token that STARTS
an operand or a definition (`starter`: identifier, literal, opening bracket `( { [`, keyword of a construction, `¬`). Reason, production by production:
whatever the parser consumes directly after a finished sub-phrase is an operator, a separator or a closing bracket — with the
single exception of the body of a quantifier, which follows its domain directly (`∀x∈X1 x=x`).

Used for the idempotence of `ConvertTo` towards ASCII (`Properties/C05Convert.lean`): the MATH lexer reads an ASCII operator
word `\kw` as `\` followed by the identifier `kw`, and what follows the word is the start of the right operand.
-/
namespace CCVerif.PR
open CCVerif.Syntax CCVerif.Lexer CCVerif.Parser

/-- a token that is a complete operand on its own -/
def ender : Tok → Bool
  | .ID_LOCAL | .ID_GLOBAL | .ID_RADICAL | .LIT_INTEGER | .LIT_INTSET | .LIT_EMPTYSET => true
  | _ => false

/-- a token that can start an operand (set expression or formula) -/
def starter : Tok → Bool
  | .ID_LOCAL | .ID_GLOBAL | .ID_RADICAL | .LIT_INTEGER | .LIT_INTSET | .LIT_EMPTYSET
  | .ID_FUNCTION | .ID_PREDICATE | .PUNC_PL | .PUNC_CL | .PUNC_SL | .BOOL | .DEBOOL | .REDUCE | .CARD | .BIGPR | .SMALLPR | .FILTER
  | .BOOLEAN | .DECLARATIVE | .RECURSIVE | .IMPERATIVE | .NOT | .FORALL | .EXISTS => true
  | _ => false

def isQ : Tok → Bool
  | .FORALL | .EXISTS => true
  | _ => false

/-- no operand-ending token is directly followed by an operand-starting token -/
def goodL : Toks → Bool
  | a :: b :: r => !(ender a.id && starter b.id) && goodL (b :: r)
  | _ => true

/-- the list is empty or does not start with an operand-starting token -/
def headSep : Toks → Bool
  | [] => true
  | x :: _ => !starter x.id

theorem goodL_cons2 (a b : LTok) (r : Toks) : goodL (a :: b :: r) = (!(ender a.id && starter b.id) && goodL (b :: r)) := by
  rw [goodL]

theorem goodL_cons {t : LTok} {c : Toks} (h : ender t.id = false) (hc : goodL c = true) : goodL (t :: c) = true := by
  cases c with
  | nil => rfl
  | cons b r => rw [goodL_cons2, h, hc]; rfl

theorem goodL_tail {t : LTok} {c : Toks} (h : goodL (t :: c) = true) : goodL c = true := by
  cases c with
  | nil => rfl
  | cons b r => rw [goodL_cons2, Bool.and_eq_true] at h; exact h.2

theorem goodL_glue : ∀ (c1 : Toks) (x : LTok) (c2 : Toks), goodL c1 = true → starter x.id = false →
    goodL (x :: c2) = true → goodL (c1 ++ x :: c2) = true
  | [], _, _, _, _, h2 => h2
  | [a], x, c2, _, hs, h2 => by
    show goodL (a :: x :: c2) = true
    rw [goodL_cons2, hs, h2]; simp
  | a :: b :: c1, x, c2, h1, hs, h2 => by
    rw [goodL_cons2, Bool.and_eq_true] at h1
    show goodL (a :: b :: (c1 ++ x :: c2)) = true
    rw [goodL_cons2, h1.1]
    exact goodL_glue (b :: c1) x c2 h1.2 hs h2

theorem goodL_appendS (c1 c2 : Toks) (h1 : goodL c1 = true) (h2 : goodL c2 = true) (hh : headSep c2 = true) :
    goodL (c1 ++ c2) = true := by
  cases c2 with
  | nil => simpa using h1
  | cons x c2 =>
    refine goodL_glue c1 x c2 h1 ?_ h2
    simpa [headSep] using hh

/-- `toks` = a consumed part without a bad pair, followed by `r` -/
def Cons (toks r : Toks) : Prop := ∃ c, toks = c ++ r ∧ goodL c = true
/-- the same, and the consumed part is empty or starts with a token that starts no operand (operator, separator) -/
def ConsS (toks r : Toks) : Prop := ∃ c, toks = c ++ r ∧ goodL c = true ∧ headSep c = true

def NoQ (toks : Toks) : Prop := ∀ t ∈ toks, isQ t.id = false

theorem NoQ.tail {t : LTok} {r : Toks} (h : NoQ (t :: r)) : NoQ r := fun x hx => h x (List.mem_cons_of_mem _ hx)
theorem NoQ.drop1 {r : Toks} (h : NoQ r) : NoQ (r.drop 1) := fun x hx => h x (List.mem_of_mem_drop hx)
theorem Cons.noQ {toks r : Toks} (h : Cons toks r) (hq : NoQ toks) : NoQ r := by
  obtain ⟨c, hc, _⟩ := h
  intro x hx; exact hq x (by rw [hc]; exact List.mem_append_right _ hx)
theorem ConsS.noQ {toks r : Toks} (h : ConsS toks r) (hq : NoQ toks) : NoQ r := by
  obtain ⟨c, hc, _⟩ := h
  intro x hx; exact hq x (by rw [hc]; exact List.mem_append_right _ hx)

theorem Cons.refl (r : Toks) : Cons r r := ⟨[], rfl, rfl⟩
theorem ConsS.refl (r : Toks) : ConsS r r := ⟨[], rfl, rfl, rfl⟩
theorem Cons.leaf (t : LTok) (rest : Toks) : Cons (t :: rest) rest := ⟨[t], rfl, rfl⟩
theorem ConsS.toCons {toks r : Toks} (h : ConsS toks r) : Cons toks r := by
  obtain ⟨c, hc, hg, _⟩ := h; exact ⟨c, hc, hg⟩

theorem Cons.cons {t : LTok} {rest r : Toks} (h : ender t.id = false) (hc : Cons rest r) : Cons (t :: rest) r := by
  obtain ⟨c, rfl, hg⟩ := hc
  exact ⟨t :: c, rfl, goodL_cons h hg⟩

/-- any first token, when what follows it in the consumed part starts no operand -/
theorem Cons.consS {t : LTok} {rest r : Toks} (hc : ConsS rest r) : Cons (t :: rest) r := by
  obtain ⟨c, rfl, hg, hh⟩ := hc
  exact ⟨t :: c, rfl, by simpa using goodL_appendS [t] c rfl hg hh⟩

theorem Cons.glue {toks r1 r : Toks} {x : LTok} (h1 : Cons toks (x :: r1)) (hs : starter x.id = false)
    (he : ender x.id = false) (h2 : Cons r1 r) : Cons toks r := by
  obtain ⟨c1, rfl, hg1⟩ := h1
  obtain ⟨c2, rfl, hg2⟩ := h2
  exact ⟨c1 ++ x :: c2, by simp, goodL_glue c1 x c2 hg1 hs (goodL_cons he hg2)⟩

theorem Cons.glue1 {toks r : Toks} {x : LTok} (h1 : Cons toks (x :: r)) (hs : starter x.id = false) : Cons toks r := by
  obtain ⟨c1, rfl, hg1⟩ := h1
  exact ⟨c1 ++ [x], by simp, goodL_glue c1 x [] hg1 hs rfl⟩

theorem Cons.thenS {toks r1 r : Toks} (h1 : Cons toks r1) (h2 : ConsS r1 r) : Cons toks r := by
  obtain ⟨c1, rfl, hg1⟩ := h1
  obtain ⟨c2, rfl, hg2, hh⟩ := h2
  exact ⟨c1 ++ c2, by simp, goodL_appendS c1 c2 hg1 hg2 hh⟩

theorem ConsS.step {x : LTok} {r1 r2 r : Toks} (hs : starter x.id = false) (he : ender x.id = false) (h1 : Cons r1 r2)
    (h2 : ConsS r2 r) : ConsS (x :: r1) r := by
  obtain ⟨c, hc, hg⟩ := (Cons.cons he h1).thenS h2
  cases c with
  | nil =>
    exact ⟨[], hc, rfl, rfl⟩
  | cons y c =>
    have hy : y = x := by
      have := congrArg List.head? hc
      simpa using this.symm
    subst hy
    exact ⟨y :: c, hc, hg, by simpa [headSep] using hs⟩

/-! ## which tokens the parser looks for after a sub-phrase -/

/-- operators, separators, closing brackets: they start no operand and end none -/
def glueL : List Tok := [.PUNC_COMMA, .IN, .PUNC_SEMICOLON, .PUNC_SR, .PUNC_PR, .PUNC_BAR, .PUNC_CR, .ASSIGN, .ITERATE]

theorem sep_of_beq {k : Tok} (c : Tok) (hc : c ∈ glueL) (h : (k == c) = true) : starter k = false ∧ ender k = false := by
  simp only [glueL, List.mem_cons, List.not_mem_nil, or_false] at hc
  rcases hc with rfl | rfl | rfl | rfl | rfl | rfl | rfl | rfl | rfl <;> (revert h; cases k <;> decide)

/-- opening brackets and `ℬ`: they start an operand but end none -/
def openL : List Tok := [.PUNC_SL, .PUNC_PL, .PUNC_CL, .BOOLEAN]

theorem nonender_of_beq {k : Tok} (c : Tok) (hc : c ∈ openL) (h : (k == c) = true) : ender k = false := by
  simp only [openL, List.mem_cons, List.not_mem_nil, or_false] at hc
  rcases hc with rfl | rfl | rfl | rfl <;> (revert h; cases k <;> decide)

theorem sep_setOp {k : Tok} (h : isSetOp k = true) : starter k = false ∧ ender k = false := by
  revert h; cases k <;> decide
theorem sep_predOp {k : Tok} (h : isPredOp k = true) : starter k = false ∧ ender k = false := by
  revert h; cases k <;> decide
theorem sep_logicOp {k : Tok} (h : isLogicOp k = true) : starter k = false ∧ ender k = false := by
  revert h; cases k <;> decide

theorem peek_cons {rest : Toks} {c : Tok} (h : (peek rest == c) = true) (hc : c ≠ .END) :
    ∃ x rest', rest = x :: rest' ∧ (x.id == c) = true := by
  cases rest with
  | nil => exfalso; revert h; unfold peek; cases c <;> first | decide | exact absurd rfl hc
  | cons x r => exact ⟨x, r, rfl, h⟩


/-! ## the invariant of every sub-parser -/

structure All (f : Nat) : Prop where
  prim : ∀ toks k e r, NoQ toks → primary f toks = some (k, e, r) → Cons toks r
  setE : ∀ m toks k e r, NoQ toks → setE f m toks = some (k, e, r) → Cons toks r
  setL : ∀ m k lhs toks k' e r, NoQ toks → setLoop f m k lhs toks = some (k', e, r) → ConsS toks r
  predE : ∀ toks k e r, NoQ toks → predE f toks = some (k, e, r) → Cons toks r
  logE : ∀ m toks k e r, NoQ toks → logE f m toks = some (k, e, r) → Cons toks r
  logL : ∀ m k lhs toks k' e r, NoQ toks → logLoop f m k lhs toks = some (k', e, r) → ConsS toks r
  enumE : ∀ toks l r, NoQ toks → enumE f toks = some (l, r) → Cons toks r
  enumT : ∀ acc toks l r, NoQ toks → enumTail f acc toks = some (l, r) → ConsS toks r
  varE : ∀ toks v r, NoQ toks → varE f toks = some (v, r) → Cons toks r
  argD : ∀ acc toks l r, NoQ toks → argDecls f acc toks = some (l, r) → Cons toks r
  blk : ∀ acc toks l r, NoQ toks → blocks f acc toks = some (l, r) → Cons toks r

theorem all_zero : All 0 where
  prim := by intro toks k e r _ h; rw [primary.eq_def] at h; cases h
  setE := by intro m toks k e r _ h; rw [setE.eq_def] at h; cases h
  setL := by intro m k lhs toks k' e r _ h; rw [setLoop.eq_def] at h; cases h
  predE := by intro toks k e r _ h; rw [predE.eq_def] at h; cases h
  logE := by intro m toks k e r _ h; rw [logE.eq_def] at h; cases h
  logL := by intro m k lhs toks k' e r _ h; rw [logLoop.eq_def] at h; cases h
  enumE := by intro toks l r _ h; rw [enumE.eq_def] at h; cases h
  enumT := by intro acc toks l r _ h; rw [enumTail.eq_def] at h; cases h
  varE := by intro toks v r _ h; rw [varE.eq_def] at h; cases h
  argD := by intro acc toks l r _ h; rw [argDecls.eq_def] at h; cases h
  blk := by intro acc toks l r _ h; rw [blocks.eq_def] at h; cases h

theorem setE_succ (f : Nat) (ih : All f) : ∀ m toks k e r, NoQ toks → setE (f + 1) m toks = some (k, e, r) → Cons toks r := by
  intro m toks k e r hq h
  rw [setE.eq_def] at h
  simp only at h
  split at h
  · rename_i k1 e1 r1 heq
    have c1 := ih.prim _ _ _ _ hq heq
    exact c1.thenS (ih.setL _ _ _ _ _ _ _ (c1.noQ hq) h)
  · cases h


theorem beq_or_sep {k : Tok} (h : (k == .ITERATE || k == .ASSIGN) = true) : starter k = false ∧ ender k = false := by
  revert h; cases k <;> decide

theorem setLoop_succ (f : Nat) (ih : All f) : ∀ m k lhs toks k' e r, NoQ toks →
    setLoop (f + 1) m k lhs toks = some (k', e, r) → ConsS toks r := by
  intro m k lhs toks k' e r hq h
  rw [setLoop.eq_def] at h
  simp only at h
  split at h
  · rename_i op r0
    split at h
    · rename_i hcond
      simp only [Bool.and_eq_true] at hcond
      have hop := sep_setOp hcond.1
      split at h
      · split at h
        · split at h
          · rename_i k2 rhs r' heq
            split at h
            · have c1 := ih.setE _ _ _ _ _ hq.tail heq
              exact ConsS.step hop.1 hop.2 c1 (ih.setL _ _ _ _ _ _ _ (c1.noQ hq.tail) h)
            · cases h
          · cases h
        · simp only [Option.some.injEq, Prod.mk.injEq] at h
          obtain ⟨_, _, rfl⟩ := h
          exact ConsS.refl _
      · cases h
    · simp only [Option.some.injEq, Prod.mk.injEq] at h
      obtain ⟨_, _, rfl⟩ := h
      exact ConsS.refl _
  · simp only [Option.some.injEq, Prod.mk.injEq] at h
    obtain ⟨_, _, rfl⟩ := h
    exact ConsS.refl _

theorem logLoop_succ (f : Nat) (ih : All f) : ∀ m k lhs toks k' e r, NoQ toks →
    logLoop (f + 1) m k lhs toks = some (k', e, r) → ConsS toks r := by
  intro m k lhs toks k' e r hq h
  rw [logLoop.eq_def] at h
  simp only at h
  split at h
  · rename_i op r0
    split at h
    · rename_i hcond
      simp only [Bool.and_eq_true] at hcond
      have hop := sep_logicOp hcond.1
      split at h
      · split at h
        · split at h
          · rename_i k2 rhs r' heq
            split at h
            · have c1 := ih.logE _ _ _ _ _ hq.tail heq
              exact ConsS.step hop.1 hop.2 c1 (ih.logL _ _ _ _ _ _ _ (c1.noQ hq.tail) h)
            · cases h
          · cases h
        · simp only [Option.some.injEq, Prod.mk.injEq] at h
          obtain ⟨_, _, rfl⟩ := h
          exact ConsS.refl _
      · cases h
    · simp only [Option.some.injEq, Prod.mk.injEq] at h
      obtain ⟨_, _, rfl⟩ := h
      exact ConsS.refl _
  · simp only [Option.some.injEq, Prod.mk.injEq] at h
    obtain ⟨_, _, rfl⟩ := h
    exact ConsS.refl _

theorem logE_succ (f : Nat) (ih : All f) : ∀ m toks k e r, NoQ toks → logE (f + 1) m toks = some (k, e, r) → Cons toks r := by
  intro m toks k e r hq h
  rw [logE.eq_def] at h
  simp only at h
  split at h
  · rename_i k1 e1 r1 heq
    have c1 := ih.predE _ _ _ _ hq heq
    exact c1.thenS (ih.logL _ _ _ _ _ _ _ (c1.noQ hq) h)
  · cases h

theorem predE_succ (f : Nat) (ih : All f) : ∀ toks k e r, NoQ toks → predE (f + 1) toks = some (k, e, r) → Cons toks r := by
  intro toks k e r hq h
  rw [predE.eq_def] at h
  simp only at h
  split at h
  · rename_i k1 lhs op r1 heq
    have c1 := ih.setE _ _ _ _ _ hq heq
    have hq1 : NoQ r1 := (c1.noQ hq).tail
    split at h
    · rename_i hcond
      simp only [Bool.and_eq_true] at hcond
      have hop := sep_predOp hcond.1
      split at h
      · rename_i k2 rhs r' heq2
        split at h
        · simp only [Option.some.injEq, Prod.mk.injEq] at h
          obtain ⟨_, _, rfl⟩ := h
          exact c1.glue hop.1 hop.2 (ih.setE _ _ _ _ _ hq1 heq2)
        · cases h
      · cases h
    · split at h
      · rename_i hcond
        simp only [Bool.and_eq_true] at hcond
        have hop := beq_or_sep hcond.1
        split at h
        · rename_i v' k2 rhs r' _ heq2
          split at h
          · simp only [Option.some.injEq, Prod.mk.injEq] at h
            obtain ⟨_, _, rfl⟩ := h
            exact c1.glue hop.1 hop.2 (ih.setE _ _ _ _ _ hq1 heq2)
          · cases h
        · cases h
      · simp only [Option.some.injEq, Prod.mk.injEq] at h
        obtain ⟨_, _, rfl⟩ := h
        exact c1
  · exact ih.setE _ _ _ _ _ hq h

theorem enumE_succ (f : Nat) (ih : All f) : ∀ toks l r, NoQ toks → enumE (f + 1) toks = some (l, r) → Cons toks r := by
  intro toks l r hq h
  rw [enumE.eq_def] at h
  simp only at h
  split at h
  · rename_i k1 e1 r1 heq
    split at h
    · have c1 := ih.setE _ _ _ _ _ hq heq
      exact c1.thenS (ih.enumT _ _ _ _ (c1.noQ hq) h)
    · cases h
  · cases h

theorem enumTail_succ (f : Nat) (ih : All f) : ∀ acc toks l r, NoQ toks → enumTail (f + 1) acc toks = some (l, r) →
    ConsS toks r := by
  intro acc toks l r hq h
  rw [enumTail.eq_def] at h
  simp only at h
  split at h
  · rename_i c r0
    split at h
    · rename_i hc
      have hs := sep_of_beq .PUNC_COMMA (by simp [glueL]) hc
      split at h
      · rename_i k1 e1 r1 heq
        split at h
        · have c1 := ih.setE _ _ _ _ _ hq.tail heq
          exact ConsS.step hs.1 hs.2 c1 (ih.enumT _ _ _ _ (c1.noQ hq.tail) h)
        · cases h
      · cases h
    · simp only [Option.some.injEq, Prod.mk.injEq] at h
      obtain ⟨_, rfl⟩ := h
      exact ConsS.refl _
  · simp only [Option.some.injEq, Prod.mk.injEq] at h
    obtain ⟨_, rfl⟩ := h
    exact ConsS.refl _

theorem varE_succ (f : Nat) (ih : All f) : ∀ toks v r, NoQ toks → varE (f + 1) toks = some (v, r) → Cons toks r := by
  intro toks v r hq h
  rw [varE.eq_def] at h
  simp only at h
  split at h
  · rename_i t r0
    split at h
    · simp only [Option.some.injEq, Prod.mk.injEq] at h
      obtain ⟨_, rfl⟩ := h
      exact Cons.leaf _ _
    · split at h
      · split at h
        · rename_i k1 e1 r1 heq
          split at h
          · split at h
            · simp only [Option.some.injEq, Prod.mk.injEq] at h
              obtain ⟨_, rfl⟩ := h
              exact ih.prim _ _ _ _ hq heq
            · cases h
          · cases h
        · cases h
      · cases h
  · cases h

theorem argDecls_succ' (f : Nat) (ih : All f) : ∀ acc toks l r, NoQ toks → argDecls (f + 1) acc toks = some (l, r) →
    Cons toks r := by
  intro acc toks l r hq h
  rw [argDecls.eq_def] at h
  simp only at h
  split at h
  · rename_i lt it r0
    split at h
    · rename_i hcond
      simp only [Bool.and_eq_true] at hcond
      have hin := sep_of_beq .IN (by simp [glueL]) hcond.2
      split at h
      · rename_i k1 e1 r1 heq
        have c1 := ih.setE _ _ _ _ _ hq.tail.tail heq
        have hq1 := c1.noQ hq.tail.tail
        split at h
        · split at h
          · rename_i c r2
            split at h
            · rename_i hc
              have hs := sep_of_beq .PUNC_COMMA (by simp [glueL]) hc
              have c2 := ih.argD _ _ _ _ hq1.tail h
              exact Cons.consS (ConsS.step hin.1 hin.2 c1 (ConsS.step hs.1 hs.2 c2 (ConsS.refl _)))
            · simp only [Option.some.injEq, Prod.mk.injEq] at h
              obtain ⟨_, rfl⟩ := h
              exact Cons.consS (ConsS.step hin.1 hin.2 c1 (ConsS.refl _))
          · simp only [Option.some.injEq, Prod.mk.injEq] at h
            obtain ⟨_, rfl⟩ := h
            exact Cons.consS (ConsS.step hin.1 hin.2 c1 (ConsS.refl _))
        · cases h
      · cases h
    · cases h
  · cases h

theorem blocks_succ (f : Nat) (ih : All f) : ∀ acc toks l r, NoQ toks → blocks (f + 1) acc toks = some (l, r) →
    Cons toks r := by
  intro acc toks l r hq h
  rw [blocks.eq_def] at h
  simp only at h
  split at h
  · rename_i k1 e1 r1 heq
    have c1 := ih.logE _ _ _ _ _ hq heq
    have hq1 := c1.noQ hq
    split at h
    · split at h
      · rename_i c r2
        split at h
        · rename_i hc
          have hs := sep_of_beq .PUNC_SEMICOLON (by simp [glueL]) hc
          exact c1.glue hs.1 hs.2 (ih.blk _ _ _ _ hq1.tail h)
        · simp only [Option.some.injEq, Prod.mk.injEq] at h
          obtain ⟨_, rfl⟩ := h
          exact c1
      · simp only [Option.some.injEq, Prod.mk.injEq] at h
        obtain ⟨_, rfl⟩ := h
        exact c1
    · cases h
  · cases h


theorem primary_succ (f : Nat) (ih : All f) : ∀ toks k e r, NoQ toks → primary (f + 1) toks = some (k, e, r) →
    Cons toks r := by
  intro toks k e r hq h
  rw [primary.eq_def] at h
  simp only at h
  split at h
  · cases h
  · rename_i t rest
    split at h
    · rename_i x ht
      simp only [Option.some.injEq, Prod.mk.injEq] at h
      obtain ⟨_, _, rfl⟩ := h
      exact Cons.leaf _ _
    · rename_i x ht
      simp only [Option.some.injEq, Prod.mk.injEq] at h
      obtain ⟨_, _, rfl⟩ := h
      exact Cons.leaf _ _
    · rename_i x ht
      simp only [Option.some.injEq, Prod.mk.injEq] at h
      obtain ⟨_, _, rfl⟩ := h
      exact Cons.leaf _ _
    · rename_i x ht
      simp only [Option.some.injEq, Prod.mk.injEq] at h
      obtain ⟨_, _, rfl⟩ := h
      exact Cons.leaf _ _
    · rename_i x ht
      simp only [Option.some.injEq, Prod.mk.injEq] at h
      obtain ⟨_, _, rfl⟩ := h
      exact Cons.leaf _ _
    · rename_i x ht
      simp only [Option.some.injEq, Prod.mk.injEq] at h
      obtain ⟨_, _, rfl⟩ := h
      exact Cons.leaf _ _
    · rename_i x ht
      have hte : ender t.id = false := by rw [ht]; rfl
      split at h
      · rename_i hp
        obtain ⟨sl, rest', rfl, hsl⟩ := peek_cons hp (by decide)
        split at h
        · rename_i args rs r1 heq
          split at h
          · rename_i hrs
            have hs := sep_of_beq .PUNC_SR (by simp [glueL]) hrs
            simp only [Option.some.injEq, Prod.mk.injEq] at h
            obtain ⟨_, _, rfl⟩ := h
            have c1 : Cons rest' (rs :: r1) := ih.enumE _ _ _ hq.tail.tail heq
            exact Cons.cons hte (Cons.cons (nonender_of_beq .PUNC_SL (by simp [openL]) hsl) (c1.glue1 hs.1))
          · cases h
        · cases h
      · simp only [Option.some.injEq, Prod.mk.injEq] at h
        obtain ⟨_, _, rfl⟩ := h
        exact Cons.leaf _ _
    · rename_i x ht
      have hte : ender t.id = false := by rw [ht]; rfl
      split at h
      · rename_i hp
        obtain ⟨sl, rest', rfl, hsl⟩ := peek_cons hp (by decide)
        split at h
        · rename_i args rs r1 heq
          split at h
          · rename_i hrs
            have hs := sep_of_beq .PUNC_SR (by simp [glueL]) hrs
            simp only [Option.some.injEq, Prod.mk.injEq] at h
            obtain ⟨_, _, rfl⟩ := h
            have c1 : Cons rest' (rs :: r1) := ih.enumE _ _ _ hq.tail.tail heq
            exact Cons.cons hte (Cons.cons (nonender_of_beq .PUNC_SL (by simp [openL]) hsl) (c1.glue1 hs.1))
          · cases h
        · cases h
      · simp only [Option.some.injEq, Prod.mk.injEq] at h
        obtain ⟨_, _, rfl⟩ := h
        exact Cons.leaf _ _
    · rename_i x ht
      have hte : ender t.id = false := by rw [ht]; rfl
      split at h
      · rename_i lp r1
        split at h
        · rename_i hlp
          split at h
          · rename_i k1 e1 rp r2 heq
            split at h
            · rename_i hc
              simp only [Bool.and_eq_true] at hc
              have hs := sep_of_beq .PUNC_PR (by simp [glueL]) hc.2
              simp only [Option.some.injEq, Prod.mk.injEq] at h
              obtain ⟨_, _, rfl⟩ := h
              have c1 := ih.setE _ _ _ _ _ hq.tail.tail heq
              exact Cons.cons hte (Cons.cons (nonender_of_beq .PUNC_PL (by simp [openL]) hlp) (c1.glue1 hs.1))
            · cases h
          · cases h
        · cases h
      · cases h
    · rename_i x ht
      have hte : ender t.id = false := by rw [ht]; rfl
      split at h
      · rename_i lp r1
        split at h
        · rename_i hlp
          split at h
          · rename_i k1 e1 rp r2 heq
            split at h
            · rename_i hc
              simp only [Bool.and_eq_true] at hc
              have hs := sep_of_beq .PUNC_PR (by simp [glueL]) hc.2
              simp only [Option.some.injEq, Prod.mk.injEq] at h
              obtain ⟨_, _, rfl⟩ := h
              have c1 := ih.setE _ _ _ _ _ hq.tail.tail heq
              exact Cons.cons hte (Cons.cons (nonender_of_beq .PUNC_PL (by simp [openL]) hlp) (c1.glue1 hs.1))
            · cases h
          · cases h
        · cases h
      · cases h
    · rename_i x ht
      have hte : ender t.id = false := by rw [ht]; rfl
      split at h
      · rename_i lp r1
        split at h
        · rename_i hlp
          split at h
          · rename_i k1 e1 rp r2 heq
            split at h
            · rename_i hc
              simp only [Bool.and_eq_true] at hc
              have hs := sep_of_beq .PUNC_PR (by simp [glueL]) hc.2
              simp only [Option.some.injEq, Prod.mk.injEq] at h
              obtain ⟨_, _, rfl⟩ := h
              have c1 := ih.setE _ _ _ _ _ hq.tail.tail heq
              exact Cons.cons hte (Cons.cons (nonender_of_beq .PUNC_PL (by simp [openL]) hlp) (c1.glue1 hs.1))
            · cases h
          · cases h
        · cases h
      · cases h
    · rename_i x ht
      have hte : ender t.id = false := by rw [ht]; rfl
      split at h
      · rename_i lp r1
        split at h
        · rename_i hlp
          split at h
          · rename_i k1 e1 rp r2 heq
            split at h
            · rename_i hc
              simp only [Bool.and_eq_true] at hc
              have hs := sep_of_beq .PUNC_PR (by simp [glueL]) hc.2
              simp only [Option.some.injEq, Prod.mk.injEq] at h
              obtain ⟨_, _, rfl⟩ := h
              have c1 := ih.setE _ _ _ _ _ hq.tail.tail heq
              exact Cons.cons hte (Cons.cons (nonender_of_beq .PUNC_PL (by simp [openL]) hlp) (c1.glue1 hs.1))
            · cases h
          · cases h
        · cases h
      · cases h
    · rename_i x ht
      have hte : ender t.id = false := by rw [ht]; rfl
      split at h
      · rename_i lp r1
        split at h
        · rename_i hlp
          split at h
          · rename_i k1 e1 rp r2 heq
            split at h
            · rename_i hc
              simp only [Bool.and_eq_true] at hc
              have hs := sep_of_beq .PUNC_PR (by simp [glueL]) hc.2
              simp only [Option.some.injEq, Prod.mk.injEq] at h
              obtain ⟨_, _, rfl⟩ := h
              have c1 := ih.setE _ _ _ _ _ hq.tail.tail heq
              exact Cons.cons hte (Cons.cons (nonender_of_beq .PUNC_PL (by simp [openL]) hlp) (c1.glue1 hs.1))
            · cases h
          · cases h
        · cases h
      · cases h
    · rename_i x ht
      have hte : ender t.id = false := by rw [ht]; rfl
      split at h
      · rename_i lp r1
        split at h
        · rename_i hlp
          split at h
          · rename_i k1 e1 rp r2 heq
            split at h
            · rename_i hc
              simp only [Bool.and_eq_true] at hc
              have hs := sep_of_beq .PUNC_PR (by simp [glueL]) hc.2
              simp only [Option.some.injEq, Prod.mk.injEq] at h
              obtain ⟨_, _, rfl⟩ := h
              have c1 := ih.setE _ _ _ _ _ hq.tail.tail heq
              exact Cons.cons hte (Cons.cons (nonender_of_beq .PUNC_PL (by simp [openL]) hlp) (c1.glue1 hs.1))
            · cases h
          · cases h
        · cases h
      · cases h
    · rename_i x ht
      have hte : ender t.id = false := by rw [ht]; rfl
      split at h
      · rename_i lp r1
        split at h
        · rename_i hlp
          split at h
          · rename_i k1 e1 rp r2 heq
            split at h
            · rename_i hc
              simp only [Bool.and_eq_true] at hc
              have hs := sep_of_beq .PUNC_PR (by simp [glueL]) hc.2
              simp only [Option.some.injEq, Prod.mk.injEq] at h
              obtain ⟨_, _, rfl⟩ := h
              have c1 := ih.setE _ _ _ _ _ hq.tail.tail heq
              exact Cons.cons hte (Cons.cons (nonender_of_beq .PUNC_PL (by simp [openL]) hlp) (c1.glue1 hs.1))
            · cases h
          · cases h
        · split at h
          · split at h
            · rename_i k1 e1 r2 heq
              simp only [Option.some.injEq, Prod.mk.injEq] at h
              obtain ⟨_, _, rfl⟩ := h
              exact Cons.cons hte (ih.prim _ _ _ _ hq.tail heq)
            · cases h
          · cases h
      · cases h
    · rename_i x ht
      have hte : ender t.id = false := by rw [ht]; rfl
      split at h
      · rename_i hp
        obtain ⟨sl, rest', rfl, hsl⟩ := peek_cons hp (by decide)
        split at h
        · rename_i params rs lp r1 heq
          have c1 : Cons rest' (rs :: lp :: r1) := ih.enumE _ _ _ hq.tail.tail heq
          have hq1 : NoQ r1 := (c1.noQ hq.tail.tail).tail.tail
          split at h
          · rename_i hc
            simp only [Bool.and_eq_true] at hc
            have hrs := sep_of_beq .PUNC_SR (by simp [glueL]) hc.1
            split at h
            · rename_i k1 e1 rp r2 heq2
              split at h
              · rename_i hc2
                simp only [Bool.and_eq_true] at hc2
                have hrp := sep_of_beq .PUNC_PR (by simp [glueL]) hc2.2
                simp only [Option.some.injEq, Prod.mk.injEq] at h
                obtain ⟨_, _, rfl⟩ := h
                have c2 := ih.setE _ _ _ _ _ hq1 heq2
                exact Cons.cons hte (Cons.cons (nonender_of_beq .PUNC_SL (by simp [openL]) hsl)
                  (c1.glue hrs.1 hrs.2 (Cons.cons (nonender_of_beq .PUNC_PL (by simp [openL]) hc.2) (c2.glue1 hrp.1))))
              · cases h
            · cases h
          · cases h
        · cases h
      · cases h
    · rename_i x ht
      have hte : ender t.id = false := by rw [ht]; rfl
      split at h
      · rename_i hcond
        split at h
        · rename_i l i r1
          simp only [Bool.and_eq_true] at hcond
          have hin := sep_of_beq (k := i.id) .IN (by simp [glueL]) hcond.2
          split at h
          · rename_i k1 d bar r2 heq
            have c1 := ih.setE _ _ _ _ _ hq.tail.tail.tail heq
            have hq2 : NoQ r2 := (c1.noQ hq.tail.tail.tail).tail
            split at h
            · rename_i hc
              simp only [Bool.and_eq_true] at hc
              have hbar := sep_of_beq .PUNC_BAR (by simp [glueL]) hc.2
              split at h
              · rename_i k2 p rc r3 heq2
                split at h
                · rename_i hc2
                  simp only [Bool.and_eq_true] at hc2
                  have hrc := sep_of_beq .PUNC_CR (by simp [glueL]) hc2.2
                  simp only [Option.some.injEq, Prod.mk.injEq] at h
                  obtain ⟨_, _, rfl⟩ := h
                  have c2 := ih.logE _ _ _ _ _ hq2 heq2
                  exact Cons.cons hte (Cons.consS (ConsS.step hin.1 hin.2 (c1.glue hbar.1 hbar.2 (c2.glue1 hrc.1))
                    (ConsS.refl _)))
                · cases h
              · cases h
            · cases h
          · cases h
        · cases h
      · split at h
        · rename_i items rc r1 heq
          split at h
          · rename_i hrc
            have hs := sep_of_beq .PUNC_CR (by simp [glueL]) hrc
            simp only [Option.some.injEq, Prod.mk.injEq] at h
            obtain ⟨_, _, rfl⟩ := h
            exact Cons.cons hte ((ih.enumE _ _ _ hq.tail heq).glue1 hs.1)
          · cases h
        · cases h
    · rename_i x ht
      have hte : ender t.id = false := by rw [ht]; rfl
      split at h
      · rename_i hp
        obtain ⟨cl, rest', rfl, hcl⟩ := peek_cons hp (by decide)
        split at h
        · rename_i v i r1 heq0
          have c0 : Cons rest' (i :: r1) := ih.varE _ _ _ hq.tail.tail heq0
          have hq1 : NoQ r1 := (c0.noQ hq.tail.tail).tail
          split at h
          · rename_i hi
            have hin := sep_of_beq .IN (by simp [glueL]) hi
            split at h
            · rename_i k1 d bar r2 heq
              have c1 := ih.setE _ _ _ _ _ hq1 heq
              have hq2 : NoQ r2 := (c1.noQ hq1).tail
              split at h
              · rename_i hc
                simp only [Bool.and_eq_true] at hc
                have hbar := sep_of_beq .PUNC_BAR (by simp [glueL]) hc.2
                split at h
                · rename_i k2 p rc r3 heq2
                  split at h
                  · rename_i hc2
                    simp only [Bool.and_eq_true] at hc2
                    have hrc := sep_of_beq .PUNC_CR (by simp [glueL]) hc2.2
                    simp only [Option.some.injEq, Prod.mk.injEq] at h
                    obtain ⟨_, _, rfl⟩ := h
                    have c2 := ih.logE _ _ _ _ _ hq2 heq2
                    exact Cons.cons hte (Cons.cons (nonender_of_beq .PUNC_CL (by simp [openL]) hcl)
                      (c0.glue hin.1 hin.2 (c1.glue hbar.1 hbar.2 (c2.glue1 hrc.1))))
                  · cases h
                · cases h
              · cases h
            · cases h
          · cases h
        · cases h
      · cases h
    · rename_i x ht
      have hte : ender t.id = false := by rw [ht]; rfl
      split at h
      · rename_i hp
        obtain ⟨cl, rest', rfl, hcl⟩ := peek_cons hp (by decide)
        split at h
        · rename_i v a r1 heq0
          have c0 : Cons rest' (a :: r1) := ih.varE _ _ _ hq.tail.tail heq0
          have hq1 : NoQ r1 := (c0.noQ hq.tail.tail).tail
          split at h
          · rename_i ha
            have has := sep_of_beq .ASSIGN (by simp [glueL]) ha
            split at h
            · rename_i k1 d bar r2 heq
              have c1 := ih.setE _ _ _ _ _ hq1 heq
              have hq2 : NoQ r2 := (c1.noQ hq1).tail
              split at h
              · rename_i hc
                simp only [Bool.and_eq_true] at hc
                have hbar := sep_of_beq .PUNC_BAR (by simp [glueL]) hc.2
                split at h
                · rename_i k2 c nx r3 heq2
                  have c2 := ih.logE _ _ _ _ _ hq2 heq2
                  have hq3 : NoQ r3 := (c2.noQ hq2).tail
                  split at h
                  · rename_i hc2
                    simp only [Bool.and_eq_true] at hc2
                    have hnx := sep_of_beq .PUNC_BAR (by simp [glueL]) hc2.1
                    split at h
                    · rename_i k3 s rc r4 heq3
                      split at h
                      · rename_i hc3
                        simp only [Bool.and_eq_true] at hc3
                        have hrc := sep_of_beq .PUNC_CR (by simp [glueL]) hc3.2
                        simp only [Option.some.injEq, Prod.mk.injEq] at h
                        obtain ⟨_, _, rfl⟩ := h
                        have c3 := ih.setE _ _ _ _ _ hq3 heq3
                        exact Cons.cons hte (Cons.cons (nonender_of_beq .PUNC_CL (by simp [openL]) hcl)
                          (c0.glue has.1 has.2 (c1.glue hbar.1 hbar.2 (c2.glue hnx.1 hnx.2 (c3.glue1 hrc.1)))))
                      · cases h
                    · cases h
                  · split at h
                    · rename_i hc2
                      simp only [Bool.and_eq_true] at hc2
                      have hnx := sep_of_beq .PUNC_CR (by simp [glueL]) hc2.1
                      simp only [Option.some.injEq, Prod.mk.injEq] at h
                      obtain ⟨_, _, rfl⟩ := h
                      exact Cons.cons hte (Cons.cons (nonender_of_beq .PUNC_CL (by simp [openL]) hcl)
                        (c0.glue has.1 has.2 (c1.glue hbar.1 hbar.2 (c2.glue1 hnx.1))))
                    · cases h
                · cases h
              · cases h
            · cases h
          · cases h
        · cases h
      · cases h
    · rename_i x ht
      have hte : ender t.id = false := by rw [ht]; rfl
      split at h
      · rename_i hp
        obtain ⟨cl, rest', rfl, hcl⟩ := peek_cons hp (by decide)
        split at h
        · rename_i k1 v bar r1 heq
          have c1 : Cons rest' (bar :: r1) := ih.setE _ _ _ _ _ hq.tail.tail heq
          have hq1 : NoQ r1 := (c1.noQ hq.tail.tail).tail
          split at h
          · rename_i hc
            simp only [Bool.and_eq_true] at hc
            have hbar := sep_of_beq .PUNC_BAR (by simp [glueL]) hc.2
            split at h
            · rename_i bs rc r2 heq2
              split at h
              · rename_i hrc
                have hs := sep_of_beq .PUNC_CR (by simp [glueL]) hrc
                simp only [Option.some.injEq, Prod.mk.injEq] at h
                obtain ⟨_, _, rfl⟩ := h
                have c2 := ih.blk _ _ _ _ hq1 heq2
                exact Cons.cons hte (Cons.cons (nonender_of_beq .PUNC_CL (by simp [openL]) hcl)
                  (c1.glue hbar.1 hbar.2 (c2.glue1 hs.1)))
              · cases h
            · cases h
          · cases h
        · cases h
      · cases h
    · rename_i x ht
      have hte : ender t.id = false := by rw [ht]; rfl
      split at h
      · rename_i k1 e1 nx r1 heq
        have c1 := ih.logE _ _ _ _ _ hq.tail heq
        have hq1 : NoQ (nx :: r1) := c1.noQ hq.tail
        split at h
        · rename_i hnx
          have hs := sep_of_beq .PUNC_PR (by simp [glueL]) hnx
          split at h
          · simp only [Option.some.injEq, Prod.mk.injEq] at h
            obtain ⟨_, _, rfl⟩ := h
            exact Cons.cons hte (c1.glue1 hs.1)
          · simp only [Option.some.injEq, Prod.mk.injEq] at h
            obtain ⟨_, _, rfl⟩ := h
            exact Cons.cons hte (c1.glue1 hs.1)
          · simp only [Option.some.injEq, Prod.mk.injEq] at h
            obtain ⟨_, _, rfl⟩ := h
            exact Cons.cons hte (c1.glue1 hs.1)
          · cases h
        · split at h
          · split at h
            · rename_i items rp r2 heq2
              split at h
              · rename_i hrp
                have hs := sep_of_beq .PUNC_PR (by simp [glueL]) hrp
                simp only [Option.some.injEq, Prod.mk.injEq] at h
                obtain ⟨_, _, rfl⟩ := h
                have c2 := ih.enumT _ _ _ _ hq1 heq2
                exact Cons.cons hte ((c1.thenS c2).glue1 hs.1)
              · cases h
            · cases h
          · cases h
      · cases h
    · rename_i x ht
      have hte : ender t.id = false := by rw [ht]; rfl
      split at h
      · rename_i k1 e1 r1 heq
        split at h
        · simp only [Option.some.injEq, Prod.mk.injEq] at h
          obtain ⟨_, _, rfl⟩ := h
          exact Cons.cons hte (ih.predE _ _ _ _ hq.tail heq)
        · cases h
      · cases h
    · rename_i x ht
      have := hq t (List.mem_cons_self ..)
      rw [ht] at this
      cases this
    · rename_i x ht
      have := hq t (List.mem_cons_self ..)
      rw [ht] at this
      cases this
    · cases h


theorem all : ∀ f, All f
  | 0 => all_zero
  | f + 1 =>
    have ih := all f
    { prim := primary_succ f ih, setE := setE_succ f ih, setL := setLoop_succ f ih, predE := predE_succ f ih,
      logE := logE_succ f ih, logL := logLoop_succ f ih, enumE := enumE_succ f ih, enumT := enumTail_succ f ih,
      varE := varE_succ f ih, argD := argDecls_succ' f ih, blk := blocks_succ f ih }

/-! ## `logic_or_setexpr`, `no_declaration`, `expression`, `Parser::Parse` -/

theorem logicOrSet_cons (f : Nat) (toks : Toks) (e : Ast) (r : Toks) (hq : NoQ toks) (h : logicOrSet f toks = some (e, r)) :
    Cons toks r := by
  unfold logicOrSet at h
  split at h
  · rename_i k e1 r1 heq
    split at h
    · simp only [Option.some.injEq, Prod.mk.injEq] at h
      obtain ⟨_, rfl⟩ := h
      exact (all f).logE _ _ _ _ _ hq heq
    · cases h
  · cases h

theorem noDeclaration_cons (f : Nat) (toks : Toks) (e : Ast) (r : Toks) (hq : NoQ toks)
    (h : noDeclaration f toks = some (e, r)) : Cons toks r := by
  unfold noDeclaration at h
  split at h
  · rename_i ls rest
    split at h
    · rename_i hls
      split at h
      · rename_i d ds rs r1 heq
        have c1 := (all f).argD _ _ _ _ hq.tail heq
        have hq1 : NoQ r1 := (c1.noQ hq.tail).tail
        split at h
        · rename_i hrs
          have hs := sep_of_beq .PUNC_SR (by simp [glueL]) hrs
          simp only at h
          split at h
          · rename_i e1 r2 heq2
            simp only [Option.some.injEq, Prod.mk.injEq] at h
            obtain ⟨_, rfl⟩ := h
            exact Cons.cons (nonender_of_beq .PUNC_SL (by simp [openL]) hls)
              (c1.glue hs.1 hs.2 (logicOrSet_cons f _ _ _ hq1 heq2))
          · cases h
        · cases h
      · cases h
    · exact logicOrSet_cons f _ _ _ hq h
  · cases h

theorem goodL_of_cons_nil {toks : Toks} (h : Cons toks []) : goodL toks = true := by
  obtain ⟨c, hc, hg⟩ := h
  rw [hc, List.append_nil]; exact hg

theorem defTok_sep {k : Tok} (h : (k == .PUNC_DEFINE || k == .PUNC_STRUCT) = true) : starter k = false ∧ ender k = false := by
  revert h; cases k <;> decide

theorem noDeclaration_good (f : Nat) (toks : Toks) (hq : NoQ toks)
    (h : ∃ e, noDeclaration f toks = some (e, [])) : goodL toks = true := by
  obtain ⟨e, h⟩ := h
  exact goodL_of_cons_nil (noDeclaration_cons f toks e [] hq h)

/-- **the necessary condition on `expression`**: an accepted token sequence without quantifier tokens has no operand-ending
token directly followed by an operand-starting token -/
theorem expression_good (f : Nat) (toks : Toks) (raw : Ast) (hq : NoQ toks) (h : expression f toks = some raw) :
    goodL toks = true := by
  unfold expression at h
  split at h
  · rename_i g m rest
    split at h
    · rename_i hcond
      simp only [Bool.and_eq_true] at hcond
      have hm := defTok_sep hcond.2
      split at h
      · rw [goodL_cons2, hm.1]; simp [goodL]
      · split at h
        · rename_i e heq
          have := noDeclaration_good f rest hq.tail.tail ⟨e, heq⟩
          rw [goodL_cons2, hm.1]
          simpa using goodL_cons hm.2 this
        · cases h
    · split at h
      · rename_i e heq
        exact noDeclaration_good f _ hq ⟨e, heq⟩
      · cases h
  · split at h
    · rename_i e heq
      exact noDeclaration_good f _ hq ⟨e, heq⟩
    · cases h

/-- the tokens `Parser::Parse` hands to the grammar: up to END / INTERRUPT -/
def bodyOf (ts : Toks) : Toks := ts.takeWhile (fun t => t.id != .END && t.id != .INTERRUPT)

/-- **parser failure**: a token stream without quantifier tokens in which an operand-ending token (identifier, literal) is
directly followed by an operand-starting token (identifier, literal, `(`, `{`, keyword of a construction, `¬`) is rejected -/
theorem parseToks_reject (ts : Toks) (hq : NoQ (bodyOf ts)) (hbad : goodL (bodyOf ts) = false) : parseToks ts = none := by
  unfold parseToks
  simp only
  split
  · rfl
  · split
    · rename_i raw heq
      have : goodL (List.takeWhile (fun t => t.id != Tok.END && t.id != Tok.INTERRUPT) ts) = true :=
        expression_good _ _ raw hq heq
      rw [bodyOf] at hbad
      rw [hbad] at this
      cases this
    · rfl

end CCVerif.PR
