import CCVerif.Lemmas.CheckerSoundTop
/-!
Completeness of the checker model with respect to `Spec.HasType` (C03 `check_complete_partial1`),
part 1: the forward ("the run succeeds") counterparts of the inversion lemmas of
Lemmas/CheckerSound1, and one lemma per binder-free construct.

`CV0 Γ n c e` : a derivation `Γ; Δ ⊢ e : τ` makes the visit of `e` (fuel `n`) succeed with
`currentType = τ`, from any state that `Δ` describes (`RelC`), in a position where the checker does
not reject the node for what it is (`isOperandPos` for LOGIC-typed globals, `emptySetMisused` for `∅`).
`CV` adds that the visible variables and the guard counters are unchanged (`Same`); that part comes
from the soundness lemmas.
-/
namespace CCVerif.Checker
open CCVerif.Syntax CCVerif.Types CCVerif.Spec

/-! ## the state relation, both directions for the function-definition flag -/

structure RelC (Γ : Ctx) (s : St) (Δ : Env) : Prop where
  rel : Rel Γ s Δ
  fd : Δ.fd = true → s.funcDecl ≠ 0

theorem RelC.of_same {Γ : Ctx} {s s' : St} {Δ : Env} (hr : RelC Γ s Δ) (h : Same s s') : RelC Γ s' Δ :=
  ⟨hr.rel.of_same h, fun e => by rw [h.2.funcDecl]; exact hr.fd e⟩

/-! ## what a derivation establishes about the run -/

def CV0 (Γ : Ctx) (n : Nat) (c : Cat) (e : Ast) : Prop :=
  ∀ (p : Option Tok) (s : St) (Δ : Env) (τ : ExprTy), HasType Γ Δ e τ → GoodSt s → RelC Γ s Δ →
    (c = .S → isOperandPos p = true → ∃ t, τ = .ty t) → (emptySetMisused p = true → notEmptyLit e) →
    ∃ s', visit Γ n p e s = (.ok (), s') ∧ s'.cur = τ

def CV (Γ : Ctx) (n : Nat) (c : Cat) (e : Ast) : Prop :=
  ∀ (p : Option Tok) (s : St) (Δ : Env) (τ : ExprTy), HasType Γ Δ e τ → GoodSt s → RelC Γ s Δ →
    (c = .S → isOperandPos p = true → ∃ t, τ = .ty t) → (emptySetMisused p = true → notEmptyLit e) →
    ∃ s', visit Γ n p e s = (.ok (), s') ∧ s'.cur = τ ∧ Same s s'

theorem CV.of0 {Γ : Ctx} {n : Nat} {c : Cat} {e : Ast} (h0 : CV0 Γ n c e) (hs : VOk Γ n c e) : CV Γ n c e := by
  intro p s Δ τ ht hg hr hp1 hp2
  obtain ⟨s', hv, hc⟩ := h0 p s Δ τ ht hg hr hp1 hp2
  exact ⟨s', hv, hc, (hs p s s' Δ hv hg hr.rel).2.1⟩

/-! ## forward steps of the monad -/

theorem bind_ex {α β} {m : M α} {f : α → M β} {s s1 : St} {a : α} {b : β} {P : St → Prop}
    (h : m s = (.ok a, s1)) (h2 : ∃ s', f a s1 = (.ok b, s') ∧ P s') :
    ∃ s', M.bind m f s = (.ok b, s') ∧ P s' := by
  obtain ⟨s', h3, hp⟩ := h2
  exact ⟨s', by simp only [M.bind, h, h3], hp⟩

theorem bind_eq {α β} {m : M α} {f : α → M β} {s s1 : St} {a : α}
    (h : m s = (.ok a, s1)) : M.bind m f s = f a s1 := by
  simp only [M.bind, h]

theorem expectTy_fwd (site : String) (t : Ty) (s : St) : expectTy site (.ty t) s = (.ok t, s) := rfl
theorem setCur_fwd (t : ExprTy) (s : St) : setCur t s = (.ok (), { s with cur := t }) := rfl
theorem getSt_fwd (s : St) : getSt s = (.ok s, s) := rfl
theorem modifySt_fwd (f : St → St) (s : St) : modifySt f s = (.ok (), f s) := rfl
theorem pure_fwd {α} (a : α) (s : St) : (M.pure a : M α) s = (.ok a, s) := rfl
theorem kidM_fwd {a k : Ast} {i : Nat} (h : a.kid i = some k) (s : St) : kidM a i s = (.ok k, s) := by
  simp [kidM, h, M.pure]
theorem textOf_fwd {t : Tok} {x : String} {lo hi : Int} {ks : List Ast} (s : St) :
    textOf (.node t (.text x) lo hi ks) s = (.ok x, s) := rfl
theorem tupleOfData_fwd {t : Tok} {idx : List Int} {lo hi : Int} {ks : List Ast} (s : St) :
    tupleOfData (.node t (.tuple idx) lo hi ks) s = (.ok idx, s) := rfl

theorem same_cur (s : St) (c : ExprTy) : Same s { s with cur := c } :=
  Same.of_locals rfl ⟨rfl, rfl, rfl, rfl, id⟩

theorem childType_fwd {v : Visitor} {a k : Ast} {i : Nat} {s s1 : St}
    (hk : a.kid i = some k) (hv : v (some a.id) k s = (.ok (), s1)) :
    childType v a i s = (.ok s1.cur, { s1 with cur := s.cur }) := by
  unfold childType
  rw [bind_eq (kidM_fwd hk s)]
  simp only [hv]

theorem visitChild_fwd {v : Visitor} {a k : Ast} {i : Nat} {s s1 : St}
    (hk : a.kid i = some k) (hv : v (some a.id) k s = (.ok (), s1)) :
    visitChild v a i s = (.ok (), s1) := by
  unfold visitChild
  rw [bind_eq (kidM_fwd hk s)]; exact hv

theorem childType_cv {Γ : Ctx} {n : Nat} {c : Cat} {a k : Ast} {i : Nat} {s : St} {Δ : Env} {τ : ExprTy}
    (hk : a.kid i = some k) (hc : CV Γ n c k) (ht : HasType Γ Δ k τ) (hg : GoodSt s) (hr : RelC Γ s Δ)
    (hp1 : c = .S → isOperandPos (some a.id) = true → ∃ t, τ = .ty t)
    (hp2 : emptySetMisused (some a.id) = true → notEmptyLit k) :
    ∃ s1, childType (visit Γ n) a i s = (.ok τ, s1) ∧ Same s s1 := by
  obtain ⟨s1, hv, hcur, hs⟩ := hc (some a.id) s Δ τ ht hg hr hp1 hp2
  exact ⟨_, hcur ▸ childType_fwd hk hv, hs.trans (same_cur _ _)⟩

theorem childTypeDebool_cv {Γ : Ctx} {n : Nat} {c : Cat} {a k : Ast} {i eid : Nat} {tok : Bool} {s : St} {Δ : Env}
    {t d : Ty}
    (hk : a.kid i = some k) (hc : CV Γ n c k) (ht : HasType Γ Δ k (.ty t)) (hd : Debool t d)
    (hg : GoodSt s) (hr : RelC Γ s Δ)
    (hp2 : emptySetMisused (some a.id) = true → notEmptyLit k) :
    ∃ s1, childTypeDebool (visit Γ n) a i eid tok s = (.ok d, s1) ∧ Same s s1 := by
  obtain ⟨s1, h1, hs⟩ := childType_cv hk hc ht hg hr (fun _ _ => ⟨t, rfl⟩) hp2
  refine ⟨s1, ?_, hs⟩
  unfold childTypeDebool
  rw [bind_eq h1]
  cases hd with
  | coll d => simp [Ty.isAny, M.pure]
  | any => simp [Ty.isAny, Ty.R0, Ty.anyName, M.pure]

/-- a parent outside the `invalidParents` table of `ViEmptySet` -/
theorem nomis {t : Tok} (h : emptySetInvalidParents.contains t = false) {k : Ast} :
    emptySetMisused (some t) = true → notEmptyLit k := by
  intro h'; simp [emptySetMisused, h] at h'

theorem mis_id {t : Tok} {d : TokData} {lo hi : Int} {ks : List Ast} {k : Ast} (h : notEmptyLit k) :
    emptySetMisused (some (Ast.node t d lo hi ks).id) = true → notEmptyLit k := fun _ => h

/-! ## leaves -/

theorem global_c {Γ : Ctx} {n : Nat} {tok : Tok} {x : String} {lo hi : Int} {ks : List Ast}
    (htok : tok = .ID_GLOBAL ∨ tok = .ID_FUNCTION ∨ tok = .ID_PREDICATE) :
    CV0 Γ (n+1) .S (.node tok (.text x) lo hi ks) := by
  intro p s Δ τ ht hg hr hp1 _
  have inv : lookup Γ.funcs x = none ∧ lookup Γ.types x = some τ := by
    rcases htok with rfl | rfl | rfl <;> cases ht <;> first | exact ⟨‹_›, ‹_›⟩ | (exfalso; simp_all)
  have hd : visit Γ (n+1) p (.node tok (.text x) lo hi ks) = viGlobal Γ p (.node tok (.text x) lo hi ks) := by
    rcases htok with rfl | rfl | rfl <;> rfl
  rw [hd]; unfold viGlobal
  refine bind_ex (textOf_fwd s) ?_
  have hop : (isLogicTy τ && isOperandPos p) = false := by
    cases τ with
    | ty t => rfl
    | logic =>
      cases hpp : isOperandPos p with
      | false => rfl
      | true => obtain ⟨t, e⟩ := hp1 rfl hpp; cases e
  simp only [inv.1, inv.2, Option.isSome_none, Bool.false_eq_true, if_false, hop]
  exact ⟨_, rfl, rfl⟩

theorem getLocal_fwd {x : String} {t : Ty} {l : Int} {pos : Int} {s : St} (h : view s.locals x = some (t, l)) :
    ∃ s', getLocal x pos s = (.ok t, s') := by
  unfold view at h
  unfold getLocal
  cases hf : findLocal x s.locals with
  | none => rw [hf] at h; cases h
  | some q =>
    obtain ⟨i, v⟩ := q
    rw [hf] at h
    by_cases he : v.enabled = true
    · simp only [he, if_true, Option.some.injEq, Prod.mk.injEq] at h
      simp only [he, Bool.not_true, Bool.false_eq_true, if_false, h.1]
      exact ⟨_, rfl⟩
    · simp [he] at h

theorem local_c {Γ : Ctx} {n : Nat} {x : String} {lo hi : Int} {ks : List Ast} :
    CV0 Γ (n+1) .S (.node .ID_LOCAL (.text x) lo hi ks) := by
  intro p s Δ τ ht hg hr hp1 hp2
  cases ht with
  | local_ hget =>
    rename_i t
    change ∃ s', viLocal (.node .ID_LOCAL (.text x) lo hi ks) s = _ ∧ _
    unfold viLocal
    refine bind_ex (textOf_fwd s) (bind_ex (getSt_fwd s) ?_)
    have hcond : (decide (s.localDecl > 0) || decide (s.argDecl > 0)) = false := by simp [hg.1, hg.2.1]
    simp only [hcond, Bool.false_eq_true, if_false]
    have hv : ∃ l, view s.locals x = some (t, l) := by
      have := hr.rel.vars x
      rw [hget] at this
      cases hvv : view s.locals x with
      | none => rw [hvv] at this; cases this
      | some q => rw [hvv] at this; simp at this; exact ⟨q.2, by rw [this]⟩
    obtain ⟨l, hv⟩ := hv
    obtain ⟨s1, h1⟩ := getLocal_fwd (pos := (Ast.node Tok.ID_LOCAL (TokData.text x) lo hi ks).lo) hv
    exact bind_ex h1 ⟨_, rfl, rfl⟩
  | _ => exfalso; simp_all

theorem radical_c {Γ : Ctx} {n : Nat} {x : String} {lo hi : Int} {ks : List Ast} :
    CV0 Γ (n+1) .S (.node .ID_RADICAL (.text x) lo hi ks) := by
  intro p s Δ τ ht hg hr hp1 hp2
  cases ht with
  | radical hfd =>
    change ∃ s', viRadical Γ (.node .ID_RADICAL (.text x) lo hi ks) s = _ ∧ _
    unfold viRadical
    refine bind_ex (textOf_fwd s) (bind_ex (getSt_fwd s) ?_)
    have hc : (s.funcDecl == 0 && !Γ.isTypification) = false := by
      rcases hfd with h | h
      · have := hr.fd h
        simp [this]
      · simp [h]
    simp only [hc, Bool.false_eq_true, if_false]
    exact ⟨_, rfl, rfl⟩
  | _ => exfalso; simp_all

theorem int_c {Γ : Ctx} {n : Nat} {d : TokData} {lo hi : Int} {ks : List Ast} :
    CV0 Γ (n+1) .S (.node .LIT_INTEGER d lo hi ks) := by
  intro p s Δ τ ht hg hr hp1 hp2
  cases ht with
  | int => exact ⟨_, rfl, rfl⟩
  | _ => exfalso; simp_all

theorem intset_c {Γ : Ctx} {n : Nat} {d : TokData} {lo hi : Int} {ks : List Ast} :
    CV0 Γ (n+1) .S (.node .LIT_INTSET d lo hi ks) := by
  intro p s Δ τ ht hg hr hp1 hp2
  cases ht with
  | intset => exact ⟨_, rfl, rfl⟩
  | _ => exfalso; simp_all

theorem emptyset_c {Γ : Ctx} {n : Nat} {d : TokData} {lo hi : Int} {ks : List Ast} :
    CV0 Γ (n+1) .S (.node .LIT_EMPTYSET d lo hi ks) := by
  intro p s Δ τ ht hg hr hp1 hp2
  cases ht with
  | emptyset =>
    change ∃ s', viEmptySet p (.node .LIT_EMPTYSET d lo hi ks) s = _ ∧ _
    unfold viEmptySet
    have hm : emptySetMisused p = false := by
      cases h : emptySetMisused p with
      | false => rfl
      | true => exact absurd rfl (hp2 h)
    simp only [hm, Bool.false_eq_true, if_false]
    exact ⟨_, rfl, rfl⟩
  | _ => exfalso; simp_all

/-! ## inversion of the typing relation, by token -/

theorem inv_arith {Γ : Ctx} {Δ : Env} {tok : Tok} {d : TokData} {lo hi : Int} {a b : Ast} {τ : ExprTy}
    (htok : tok = .PLUS ∨ tok = .MINUS ∨ tok = .MULTIPLY)
    (ht : HasType Γ Δ (.node tok d lo hi [a, b]) τ) :
    ∃ t1 t2 t, HasType Γ Δ a (.ty t1) ∧ HasType Γ Δ b (.ty t2) ∧ isArithmetic Γ.traits t1 = true ∧
      isArithmetic Γ.traits t2 = true ∧ merge Γ.traits t1 t2 = some t ∧ τ = .ty t := by
  rcases htok with rfl | rfl | rfl <;> cases ht <;>
    first
    | exact ⟨_, _, _, ‹_›, ‹_›, ‹_›, ‹_›, ‹_›, rfl⟩
    | (exfalso; simp_all)

theorem inv_order {Γ : Ctx} {Δ : Env} {tok : Tok} {d : TokData} {lo hi : Int} {a b : Ast} {τ : ExprTy}
    (htok : tok = .GREATER ∨ tok = .LESSER ∨ tok = .GREATER_OR_EQ ∨ tok = .LESSER_OR_EQ)
    (ht : HasType Γ Δ (.node tok d lo hi [a, b]) τ) :
    ∃ t1 t2, HasType Γ Δ a (.ty t1) ∧ HasType Γ Δ b (.ty t2) ∧ isOrdered Γ.traits t1 = true ∧
      isOrdered Γ.traits t2 = true ∧ compat Γ.traits t1 t2 = true ∧ τ = .logic := by
  rcases htok with rfl | rfl | rfl | rfl <;> cases ht <;>
    first
    | exact ⟨_, _, ‹_›, ‹_›, ‹_›, ‹_›, ‹_›, rfl⟩
    | (exfalso; simp_all)

theorem inv_equal {Γ : Ctx} {Δ : Env} {tok : Tok} {d : TokData} {lo hi : Int} {a b : Ast} {τ : ExprTy}
    (htok : tok = .EQUAL ∨ tok = .NOTEQUAL)
    (ht : HasType Γ Δ (.node tok d lo hi [a, b]) τ) :
    ∃ t1 t2, HasType Γ Δ a (.ty t1) ∧ HasType Γ Δ b (.ty t2) ∧ compat Γ.traits t1 t2 = true ∧ τ = .logic := by
  rcases htok with rfl | rfl <;> cases ht <;>
    first
    | exact ⟨_, _, ‹_›, ‹_›, ‹_›, rfl⟩
    | (exfalso; simp_all)

theorem inv_elem {Γ : Ctx} {Δ : Env} {tok : Tok} {d : TokData} {lo hi : Int} {a b : Ast} {τ : ExprTy}
    (htok : tok = .IN ∨ tok = .NOTIN)
    (ht : HasType Γ Δ (.node tok d lo hi [a, b]) τ) :
    ∃ t1 t2 e, HasType Γ Δ a (.ty t1) ∧ HasType Γ Δ b (.ty t2) ∧ Debool t2 e ∧ compat Γ.traits t1 e = true ∧
      τ = .logic := by
  rcases htok with rfl | rfl <;> cases ht <;>
    first
    | exact ⟨_, _, _, ‹_›, ‹_›, ‹_›, ‹_›, rfl⟩
    | (exfalso; simp_all)

theorem inv_subset {Γ : Ctx} {Δ : Env} {tok : Tok} {d : TokData} {lo hi : Int} {a b : Ast} {τ : ExprTy}
    (htok : tok = .SUBSET ∨ tok = .SUBSET_OR_EQ ∨ tok = .NOTSUBSET)
    (ht : HasType Γ Δ (.node tok d lo hi [a, b]) τ) :
    ∃ t1 t2 e, HasType Γ Δ a (.ty t1) ∧ HasType Γ Δ b (.ty t2) ∧ Debool t2 e ∧
      compat Γ.traits t1 (.coll e) = true ∧ τ = .logic := by
  rcases htok with rfl | rfl | rfl <;> cases ht <;>
    first
    | exact ⟨_, _, _, ‹_›, ‹_›, ‹_›, ‹_›, rfl⟩
    | (exfalso; simp_all)

theorem inv_logbin {Γ : Ctx} {Δ : Env} {tok : Tok} {d : TokData} {lo hi : Int} {a b : Ast} {τ : ExprTy}
    (htok : tok = .AND ∨ tok = .OR ∨ tok = .IMPLICATION ∨ tok = .EQUIVALENT)
    (ht : HasType Γ Δ (.node tok d lo hi [a, b]) τ) :
    HasType Γ Δ a .logic ∧ HasType Γ Δ b .logic ∧ τ = .logic := by
  rcases htok with rfl | rfl | rfl | rfl <;> cases ht <;>
    first
    | exact ⟨‹_›, ‹_›, rfl⟩
    | (exfalso; simp_all)

theorem inv_setbin {Γ : Ctx} {Δ : Env} {tok : Tok} {d : TokData} {lo hi : Int} {a b : Ast} {τ : ExprTy}
    (htok : tok = .UNION ∨ tok = .INTERSECTION ∨ tok = .SET_MINUS ∨ tok = .SYMMINUS)
    (ht : HasType Γ Δ (.node tok d lo hi [a, b]) τ) :
    ∃ t1 t2 e1 e2 m, notEmptyLit a ∧ notEmptyLit b ∧ HasType Γ Δ a (.ty t1) ∧ Debool t1 e1 ∧
      HasType Γ Δ b (.ty t2) ∧ Debool t2 e2 ∧ merge Γ.traits e1 e2 = some m ∧ τ = .ty (.coll m) := by
  rcases htok with rfl | rfl | rfl | rfl <;> cases ht <;>
    first
    | exact ⟨_, _, _, _, _, ‹_›, ‹_›, ‹_›, ‹_›, ‹_›, ‹_›, ‹_›, rfl⟩
    | (exfalso; simp_all)

/-! ## operators of the core -/

theorem arith_c {Γ : Ctx} {n : Nat} {tok : Tok} {d : TokData} {lo hi : Int} {a b : Ast}
    (htok : tok = .PLUS ∨ tok = .MINUS ∨ tok = .MULTIPLY) (ha : CV Γ n .S a) (hb : CV Γ n .S b) :
    CV0 Γ (n+1) .S (.node tok d lo hi [a, b]) := by
  intro p s Δ τ ht hg hr hp1 hp2
  obtain ⟨t1, t2, t, h1, h2, a1, a2, hm, rfl⟩ := inv_arith htok ht
  have hd : visit Γ (n+1) p (.node tok d lo hi [a, b]) = viArithmetic Γ (visit Γ n) (.node tok d lo hi [a, b]) := by
    rcases htok with rfl | rfl | rfl <;> rfl
  have hnm : emptySetInvalidParents.contains tok = false := by rcases htok with rfl | rfl | rfl <;> decide
  rw [hd]; unfold viArithmetic
  obtain ⟨s1, r1, m1⟩ := childType_cv kid0 ha h1 hg hr (fun _ _ => ⟨_, rfl⟩) (nomis hnm)
  refine bind_ex r1 (bind_ex (expectTy_fwd _ _ _) ?_)
  simp only [a1, Bool.not_true, Bool.false_eq_true, if_false]
  obtain ⟨s2, r2, m2⟩ := childType_cv kid1 hb h2 (hg.of_same m1) (hr.of_same m1) (fun _ _ => ⟨_, rfl⟩) (nomis hnm)
  refine bind_ex r2 (bind_ex (expectTy_fwd _ _ _) ?_)
  simp only [a2, Bool.not_true, Bool.false_eq_true, if_false, hm]
  exact ⟨_, rfl, rfl⟩

theorem order_c {Γ : Ctx} {n : Nat} {tok : Tok} {d : TokData} {lo hi : Int} {a b : Ast}
    (htok : tok = .GREATER ∨ tok = .LESSER ∨ tok = .GREATER_OR_EQ ∨ tok = .LESSER_OR_EQ)
    (ha : CV Γ n .S a) (hb : CV Γ n .S b) :
    CV0 Γ (n+1) .L (.node tok d lo hi [a, b]) := by
  intro p s Δ τ ht hg hr hp1 hp2
  obtain ⟨t1, t2, h1, h2, a1, a2, hm, rfl⟩ := inv_order htok ht
  have hd : visit Γ (n+1) p (.node tok d lo hi [a, b]) = viIntegerPredicate Γ (visit Γ n) (.node tok d lo hi [a, b]) := by
    rcases htok with rfl | rfl | rfl | rfl <;> rfl
  have hnm : emptySetInvalidParents.contains tok = false := by rcases htok with rfl | rfl | rfl | rfl <;> decide
  rw [hd]; unfold viIntegerPredicate
  obtain ⟨s1, r1, m1⟩ := childType_cv kid0 ha h1 hg hr (fun _ _ => ⟨_, rfl⟩) (nomis hnm)
  refine bind_ex r1 (bind_ex (expectTy_fwd _ _ _) ?_)
  simp only [a1, Bool.not_true, Bool.false_eq_true, if_false]
  obtain ⟨s2, r2, m2⟩ := childType_cv kid1 hb h2 (hg.of_same m1) (hr.of_same m1) (fun _ _ => ⟨_, rfl⟩) (nomis hnm)
  refine bind_ex r2 (bind_ex (expectTy_fwd _ _ _) ?_)
  simp only [a2, Bool.not_true, Bool.false_eq_true, if_false, hm]
  exact ⟨_, rfl, rfl⟩

theorem equal_c {Γ : Ctx} {n : Nat} {tok : Tok} {d : TokData} {lo hi : Int} {a b : Ast}
    (htok : tok = .EQUAL ∨ tok = .NOTEQUAL) (ha : CV Γ n .S a) (hb : CV Γ n .S b) :
    CV0 Γ (n+1) .L (.node tok d lo hi [a, b]) := by
  intro p s Δ τ ht hg hr hp1 hp2
  obtain ⟨t1, t2, h1, h2, hm, rfl⟩ := inv_equal htok ht
  have hd : visit Γ (n+1) p (.node tok d lo hi [a, b]) = viEquals Γ (visit Γ n) (.node tok d lo hi [a, b]) := by
    rcases htok with rfl | rfl <;> rfl
  have hnm : emptySetInvalidParents.contains tok = false := by rcases htok with rfl | rfl <;> decide
  rw [hd]; unfold viEquals
  obtain ⟨s1, r1, m1⟩ := childType_cv kid0 ha h1 hg hr (fun _ _ => ⟨_, rfl⟩) (nomis hnm)
  refine bind_ex r1 (bind_ex (expectTy_fwd _ _ _) ?_)
  obtain ⟨s2, r2, m2⟩ := childType_cv kid1 hb h2 (hg.of_same m1) (hr.of_same m1) (fun _ _ => ⟨_, rfl⟩) (nomis hnm)
  refine bind_ex r2 (bind_ex (expectTy_fwd _ _ _) ?_)
  simp only [hm, Bool.not_true, Bool.false_eq_true, if_false]
  exact ⟨_, rfl, rfl⟩

theorem elem_c {Γ : Ctx} {n : Nat} {tok : Tok} {d : TokData} {lo hi : Int} {a b : Ast}
    (htok : tok = .IN ∨ tok = .NOTIN) (ha : CV Γ n .S a) (hb : CV Γ n .S b) :
    CV0 Γ (n+1) .L (.node tok d lo hi [a, b]) := by
  intro p s Δ τ ht hg hr hp1 hp2
  obtain ⟨t1, t2, e, h1, h2, hdb, hm, rfl⟩ := inv_elem htok ht
  have hd : visit Γ (n+1) p (.node tok d lo hi [a, b]) = viSetexprPredicate Γ (visit Γ n) (.node tok d lo hi [a, b]) := by
    rcases htok with rfl | rfl <;> rfl
  have hnm : emptySetInvalidParents.contains tok = false := by rcases htok with rfl | rfl <;> decide
  have hsub : isSubsetTok (Ast.node tok d lo hi [a, b]).id = false := by rcases htok with rfl | rfl <;> rfl
  rw [hd]; unfold viSetexprPredicate
  obtain ⟨s1, r1, m1⟩ := childTypeDebool_cv (eid := EID.invalidTypeOperation) (tok := false) kid1 hb h2 hdb hg hr (nomis hnm)
  refine bind_ex r1 ?_
  obtain ⟨s2, r2, m2⟩ := childType_cv kid0 ha h1 (hg.of_same m1) (hr.of_same m1) (fun _ _ => ⟨_, rfl⟩) (nomis hnm)
  refine bind_ex r2 ?_
  simp only [hsub, Bool.false_eq_true, if_false, compatE, hm]
  exact ⟨_, rfl, rfl⟩

theorem subset_c {Γ : Ctx} {n : Nat} {tok : Tok} {d : TokData} {lo hi : Int} {a b : Ast}
    (htok : tok = .SUBSET ∨ tok = .SUBSET_OR_EQ ∨ tok = .NOTSUBSET) (ha : CV Γ n .S a) (hb : CV Γ n .S b) :
    CV0 Γ (n+1) .L (.node tok d lo hi [a, b]) := by
  intro p s Δ τ ht hg hr hp1 hp2
  obtain ⟨t1, t2, e, h1, h2, hdb, hm, rfl⟩ := inv_subset htok ht
  have hd : visit Γ (n+1) p (.node tok d lo hi [a, b]) = viSetexprPredicate Γ (visit Γ n) (.node tok d lo hi [a, b]) := by
    rcases htok with rfl | rfl | rfl <;> rfl
  have hnm : emptySetInvalidParents.contains tok = false := by rcases htok with rfl | rfl | rfl <;> decide
  have hsub : isSubsetTok (Ast.node tok d lo hi [a, b]).id = true := by rcases htok with rfl | rfl | rfl <;> rfl
  rw [hd]; unfold viSetexprPredicate
  obtain ⟨s1, r1, m1⟩ := childTypeDebool_cv (eid := EID.invalidTypeOperation) (tok := false) kid1 hb h2 hdb hg hr (nomis hnm)
  refine bind_ex r1 ?_
  obtain ⟨s2, r2, m2⟩ := childType_cv kid0 ha h1 (hg.of_same m1) (hr.of_same m1) (fun _ _ => ⟨_, rfl⟩) (nomis hnm)
  refine bind_ex r2 ?_
  simp only [hsub, if_true, compatE, hm]
  exact ⟨_, rfl, rfl⟩

theorem not_c {Γ : Ctx} {n : Nat} {d : TokData} {lo hi : Int} {a : Ast} (ha : CV Γ n .L a) :
    CV0 Γ (n+1) .L (.node .NOT d lo hi [a]) := by
  intro p s Δ τ ht hg hr hp1 hp2
  cases ht with
  | not h1 =>
    change ∃ s', viAllLogic (visit Γ n) (.node .NOT d lo hi [a]) s = _ ∧ _
    unfold viAllLogic
    obtain ⟨s1, r1, _, _⟩ := ha (some .NOT) s Δ .logic h1 hg hr (fun e => by cases e) (nomis (by decide))
    have : visitAll (visit Γ n) (Ast.node Tok.NOT d lo hi [a]).id (Ast.node Tok.NOT d lo hi [a]).kids s = (.ok (), s1) := by
      simp only [Ast.kids, Ast.id, visitAll]
      rw [bind_eq r1]; rfl
    exact bind_ex this ⟨_, rfl, rfl⟩
  | _ => exfalso; simp_all

theorem logbin_c {Γ : Ctx} {n : Nat} {tok : Tok} {d : TokData} {lo hi : Int} {a b : Ast}
    (htok : tok = .AND ∨ tok = .OR ∨ tok = .IMPLICATION ∨ tok = .EQUIVALENT) (ha : CV Γ n .L a) (hb : CV Γ n .L b) :
    CV0 Γ (n+1) .L (.node tok d lo hi [a, b]) := by
  intro p s Δ τ ht hg hr hp1 hp2
  obtain ⟨h1, h2, rfl⟩ := inv_logbin htok ht
  have hd : visit Γ (n+1) p (.node tok d lo hi [a, b]) = viAllLogic (visit Γ n) (.node tok d lo hi [a, b]) := by
    rcases htok with rfl | rfl | rfl | rfl <;> rfl
  have hnm : emptySetInvalidParents.contains tok = false := by rcases htok with rfl | rfl | rfl | rfl <;> decide
  rw [hd]; unfold viAllLogic
  obtain ⟨s1, r1, _, m1⟩ := ha (some tok) s Δ .logic h1 hg hr (fun e => by cases e) (nomis hnm)
  obtain ⟨s2, r2, _, m2⟩ := hb (some tok) s1 Δ .logic h2 (hg.of_same m1) (hr.of_same m1) (fun e => by cases e) (nomis hnm)
  have : visitAll (visit Γ n) (Ast.node tok d lo hi [a, b]).id (Ast.node tok d lo hi [a, b]).kids s = (.ok (), s2) := by
    simp only [Ast.kids, Ast.id, visitAll]
    rw [bind_eq r1, bind_eq r2]; rfl
  exact bind_ex this ⟨_, rfl, rfl⟩

theorem card_c {Γ : Ctx} {n : Nat} {d : TokData} {lo hi : Int} {a : Ast} (ha : CV Γ n .S a) :
    CV0 Γ (n+1) .S (.node .CARD d lo hi [a]) := by
  intro p s Δ τ ht hg hr hp1 hp2
  cases ht with
  | card hne h1 hdb =>
    change ∃ s', viCard (visit Γ n) (.node .CARD d lo hi [a]) s = _ ∧ _
    unfold viCard
    obtain ⟨s1, r1, m1⟩ := childTypeDebool_cv (eid := EID.invalidCard) (tok := false) kid0 ha h1 hdb hg hr (fun _ => hne)
    exact bind_ex r1 ⟨_, rfl, rfl⟩
  | _ => exfalso; simp_all

theorem boolean_c {Γ : Ctx} {n : Nat} {d : TokData} {lo hi : Int} {a : Ast} (ha : CV Γ n .S a) :
    CV0 Γ (n+1) .S (.node .BOOLEAN d lo hi [a]) := by
  intro p s Δ τ ht hg hr hp1 hp2
  cases ht with
  | boolean h1 hdb =>
    change ∃ s', viBoolean (visit Γ n) (.node .BOOLEAN d lo hi [a]) s = _ ∧ _
    unfold viBoolean
    obtain ⟨s1, r1, m1⟩ := childTypeDebool_cv (eid := EID.invalidBoolean) (tok := false) kid0 ha h1 hdb hg hr
      (nomis (t := .BOOLEAN) (by decide))
    exact bind_ex r1 ⟨_, rfl, rfl⟩
  | _ => exfalso; simp_all

theorem debool_c {Γ : Ctx} {n : Nat} {d : TokData} {lo hi : Int} {a : Ast} (ha : CV Γ n .S a) :
    CV0 Γ (n+1) .S (.node .DEBOOL d lo hi [a]) := by
  intro p s Δ τ ht hg hr hp1 hp2
  cases ht with
  | debool hne h1 hdb =>
    change ∃ s', viDebool (visit Γ n) (.node .DEBOOL d lo hi [a]) s = _ ∧ _
    unfold viDebool
    obtain ⟨s1, r1, m1⟩ := childTypeDebool_cv (eid := EID.invalidDebool) (tok := false) kid0 ha h1 hdb hg hr (fun _ => hne)
    exact bind_ex r1 ⟨_, rfl, rfl⟩
  | _ => exfalso; simp_all

theorem reduce_c {Γ : Ctx} {n : Nat} {d : TokData} {lo hi : Int} {a : Ast} (ha : CV Γ n .S a) :
    CV0 Γ (n+1) .S (.node .REDUCE d lo hi [a]) := by
  intro p s Δ τ ht hg hr hp1 hp2
  cases ht with
  | reduce hne h1 =>
    change ∃ s', viReduce (visit Γ n) (.node .REDUCE d lo hi [a]) s = _ ∧ _
    unfold viReduce
    obtain ⟨s1, r1, m1⟩ := childType_cv kid0 ha h1 hg hr (fun _ _ => ⟨_, rfl⟩) (fun _ => hne)
    refine bind_ex r1 (bind_ex (expectTy_fwd _ _ _) ?_)
    simp only [anyOrEmptySet, Ty.isAny, Bool.false_or, Bool.false_eq_true, if_false]
    exact ⟨_, rfl, rfl⟩
  | reduceAny hne h1 hor =>
    rename_i t0
    change ∃ s', viReduce (visit Γ n) (.node .REDUCE d lo hi [a]) s = _ ∧ _
    unfold viReduce
    obtain ⟨s1, r1, m1⟩ := childType_cv kid0 ha h1 hg hr (fun _ _ => ⟨_, rfl⟩) (fun _ => hne)
    refine bind_ex r1 (bind_ex (expectTy_fwd _ _ _) ?_)
    have : anyOrEmptySet t0 = true := by
      rcases hor with rfl | rfl <;> decide
    simp only [this, if_true]
    exact ⟨_, rfl, rfl⟩
  | _ => exfalso; simp_all

theorem setbin_c {Γ : Ctx} {n : Nat} {tok : Tok} {d : TokData} {lo hi : Int} {a b : Ast}
    (htok : tok = .UNION ∨ tok = .INTERSECTION ∨ tok = .SET_MINUS ∨ tok = .SYMMINUS)
    (ha : CV Γ n .S a) (hb : CV Γ n .S b) :
    CV0 Γ (n+1) .S (.node tok d lo hi [a, b]) := by
  intro p s Δ τ ht hg hr hp1 hp2
  obtain ⟨t1, t2, e1, e2, m, na, nb, h1, d1, h2, d2, hm, rfl⟩ := inv_setbin htok ht
  have hd : visit Γ (n+1) p (.node tok d lo hi [a, b]) = viSetexprBinary Γ (visit Γ n) (.node tok d lo hi [a, b]) := by
    rcases htok with rfl | rfl | rfl | rfl <;> rfl
  rw [hd]; unfold viSetexprBinary
  obtain ⟨s1, r1, m1⟩ := childTypeDebool_cv (eid := EID.invalidTypeOperation) (tok := false) kid0 ha h1 d1 hg hr (fun _ => na)
  refine bind_ex r1 ?_
  obtain ⟨s2, r2, m2⟩ := childTypeDebool_cv (eid := EID.invalidTypeOperation) (tok := false) kid1 hb h2 d2
    (hg.of_same m1) (hr.of_same m1) (fun _ => nb)
  refine bind_ex r2 ?_
  simp only [hm]
  exact ⟨_, rfl, rfl⟩

end CCVerif.Checker
