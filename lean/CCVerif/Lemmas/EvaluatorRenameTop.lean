import CCVerif.Lemmas.EvaluatorRename
import CCVerif.Lemmas.EvaluatorRenameNorm
import CCVerif.Lemmas.CheckerEvaluatorRen
/-!
C11, the evaluator half of the equivariance: `Interpreter::Evaluate` (normaliser + name collector + interpreter)
under a renaming of the GLOBAL identifier tokens.

* `renAll_eq_renAst` — on a tree whose local spellings the map fixes, renaming the global tokens is renaming all
  identifier tokens;
* `evaluate_renAst` — `Interpreter::Evaluate` gives the SAME outcome (value / error / position / iterations) on the
  renamed tree against the renamed data context, for a bijection that fixes the local spellings of the normalised
  tree (`Lemmas/EvaluatorRename.lean`, `Lemmas/EvaluatorRenameNorm.lean`);
* `normLocalsOK fuel c` — decidable: no local variable of the NORMALISED definition tree is spelled like a good
  global name (what the lexer guarantees: `local_id` starts with `_` or a lower-case letter, generated pattern
  names with `@`);
* `evaluator_rename_partial` — the evaluator law for every `NameBij` that moves good names only;
* `NameRenG`, `cstShapedN`, `checker_carrierG`, `evalEquivarianceG` — the carrier instance with these renamings.
-/
namespace CCVerif.Eval
open CCVerif CCVerif.Syntax CCVerif.Norm
open CCVerif.Checker (renAst renAstL renData isGlob)

theorem renDataAll_eq (g : String → String) (t : Tok) (d : TokData)
    (h : (t == Tok.ID_LOCAL) = true → ∀ s, d = .text s → g s = s) : renDataAll g t d = renData g t d := by
  by_cases hl : (t == Tok.ID_LOCAL) = true
  · have ht := tok_beq_eq _ _ hl
    subst ht
    cases d with
    | text s => show TokData.text (g s) = TokData.text s; rw [h hl s rfl]
    | none => rfl
    | int _ => rfl
    | tuple _ => rfl
  · have hb : (t == Tok.ID_LOCAL) = false := by simpa using hl
    unfold renDataAll renData isIdTok isGlob
    rw [hb, Bool.false_or]
    split <;> (cases d <;> rfl)

mutual
theorem renAll_eq_renAst (g : String → String) : ∀ a : Ast, (∀ s ∈ collectLocals a, g s = s) → renAll g a = renAst g a
  | .node t d lo hi ks, h => by
    simp only [renAll, renAst]
    simp only [collectLocals, List.mem_append] at h
    rw [renAllL_eq_renAstL g ks (fun s hs => h s (Or.inr hs)), renDataAll_eq]
    intro hl s hd
    apply h s
    left
    rw [if_pos hl, hd]
    exact List.mem_singleton.2 rfl
theorem renAllL_eq_renAstL (g : String → String) : ∀ ks : List Ast, (∀ s ∈ collectLocalsKids ks, g s = s) →
    renAllL g ks = renAstL g ks
  | [], _ => rfl
  | k :: ks, h => by
    simp only [collectLocalsKids, List.mem_append] at h
    simp only [renAllL, renAstL]
    rw [renAll_eq_renAst g k (fun s hs => h s (Or.inl hs)), renAllL_eq_renAstL g ks (fun s hs => h s (Or.inr hs))]
end

/-- **`Interpreter::Evaluate` under a renaming of the global tokens** (empty `SyntaxTreeContext`): same outcome
on the renamed tree against the renamed data context, for a bijection of spellings that fixes the spellings of the
local variables of the normalised tree -/
theorem evaluate_renAst (b : Bij) (h0 : b.f "" = "") {env env' : Env} (hf : env.funcs = []) (hf' : env'.funcs = [])
    (henv : ∀ k, lookup (b.f k) env'.globals = lookup k env.globals) (fuel : Nat) (tr : Ast)
    (hloc : ∀ nt, normalizeTree [] fuel tr = some nt → ∀ s ∈ collectLocals nt, b.f s = s) :
    evaluate fuel env' (renAst b.f tr) = evaluate fuel env tr := by
  unfold evaluate
  rw [hf, hf', normalizeTree_renAst]
  cases hn : normalizeTree [] fuel tr with
  | none => rfl
  | some nt =>
    simp only [Option.map_some]
    rw [← renAll_eq_renAst b.f nt (hloc nt hn)]
    exact evalNorm_ren b h0 henv fuel nt

end CCVerif.Eval

namespace CCVerif.RSModelGen
open CCVerif CCVerif.Syntax CCVerif.SchemaGen CCVerif.Types CCVerif.Checker CCVerif.Blocks
open CCVerif.Schema (Kind Status)

/-- no local variable of the normalised definition tree is spelled like a good global name -/
def normLocalsOK (fuel : Nat) (c : Cst CDef) : Bool :=
  match cstTree c with
  | none => true
  | some tr =>
    match Norm.normalizeTree [] fuel tr with
    | none => true
    | some nt => (Norm.collectLocals nt).all fun s => !decide (GoodName s)

theorem not_good_empty : ¬ GoodName "" := by decide

/-- **the evaluator law** for the renamings that occur: a `NameBij` that moves good names only, a constituent of
the carrier whose normalised tree has no local variable spelled like a good name, two data contexts related by the
bijection on the mentioned names: a value obtained for the constituent is obtained for the renamed constituent -/
theorem evaluator_rename_partial (fuel : Nat) (n : NameBij) (hfix : ∀ s, ¬ GoodName s → n.b.f s = s)
    (ctx ctx' : String → Option Eval.Val) (c : Cst CDef) (v : Eval.Val) (hs : cstShaped c)
    (hl : normLocalsOK fuel c = true)
    (hctx : ∀ m ∈ mentionsOf c.defn, ∀ x, ctx m = some x → ctx' (n.b.f m) = some x)
    (he : evalC fuel ctx c = some v) : evalC fuel ctx' (renCstC (CRen.ofNameBij n) c) = some v := by
  have hrad : ∀ s, isRadical s = true → n.b.f s = s := by
    intro s hs'
    exact hfix s (fun hg => by have := hg.rad; rw [hs'] at this; cases this)
  have hg : GoodC (CRen.ofNameBij n) c := goodC_of_shaped n hrad (isNameL_block hs.1.name) hs.2
  unfold evalC at he ⊢
  rw [cstTree_ren]
  cases htr : cstTree c with
  | none => rw [htr] at he; cases he
  | some tr =>
    rw [htr] at he
    simp only [Option.map_some] at he ⊢
    have hok : TreeOK (CRen.ofNameBij n) tr := treeOK_cstTree hg htr
    have hm : usedGlobals tr = mentionsOf c.defn := usedGlobals_cstTree htr
    have hu : usedGlobals (renAst n.b.f tr) = (usedGlobals tr).map n.b.f := usedGlobals_ren tr hok
    cases hr : Eval.evaluate fuel (envOf ctx (usedGlobals tr)) tr with
    | mk r k =>
      rw [hr] at he
      cases r with
      | ok w =>
        cases he
        let env2 : Eval.Env :=
          { globals := (envOf ctx (usedGlobals tr)).globals.map fun p => (n.b.f p.1, p.2), funcs := [] }
        have hloc : ∀ nt, Norm.normalizeTree [] fuel tr = some nt → ∀ s ∈ Norm.collectLocals nt, n.b.f s = s := by
          intro nt hnt s hs'
          unfold normLocalsOK at hl
          rw [htr] at hl
          simp only [hnt, List.all_eq_true, Bool.not_eq_true', decide_eq_false_iff_not] at hl
          exact hfix s (hl s hs')
        have h1 : Eval.evaluate fuel env2 (renAst n.b.f tr) = (.ok v, k) := by
          rw [Eval.evaluate_renAst n.b (hfix "" not_good_empty) (env := envOf ctx (usedGlobals tr)) (env' := env2)
            rfl rfl (fun k => Eval.lookup_renIds n.b k _) fuel tr hloc]
          exact hr
        have hle : Eval.GlobalsLe env2 (envOf ctx' (usedGlobals (renAst n.b.f tr))) := by
          intro nm x hx
          have e : nm = n.b.f (n.b.g nm) := (n.b.fg nm).symm
          rw [e] at hx ⊢
          have hx' : Norm.lookup (n.b.g nm) (envOf ctx (usedGlobals tr)).globals = some x := by
            rw [← Eval.lookup_renIds n.b (n.b.g nm) (envOf ctx (usedGlobals tr)).globals]; exact hx
          rw [lookup_envOf] at hx' ⊢
          by_cases hmem : n.b.g nm ∈ usedGlobals tr
          · rw [if_pos hmem] at hx'
            rw [hu, if_pos (List.mem_map.2 ⟨_, hmem, rfl⟩)]
            exact hctx _ (by rw [← hm]; exact hmem) x hx'
          · rw [if_neg hmem] at hx'; cases hx'
        have hf : (envOf ctx' (usedGlobals (renAst n.b.f tr))).funcs = env2.funcs := rfl
        have h2 := Eval.evaluate_mono hf hle fuel (renAst n.b.f tr) v k h1
        show (match (Eval.evaluate fuel (envOf ctx' (usedGlobals (renAst n.b.f tr))) (renAst n.b.f tr)).1 with
          | .ok v => some v | _ => none) = some v
        rw [h2]
      | okBool _ => cases he
      | err _ _ => cases he
      | stuck _ => cases he
      | outOfFuel => cases he

/-! ## the carrier instance -/

/-- the renamings that occur: a `NameBij` that moves good names only -/
def NameRenG (traits : TraitEnv) (r : CRenFor (fun _ => traits)) : Prop :=
  ∃ n : NameBij, (∀ s, ¬ GoodName s → n.b.f s = s) ∧ r.r = CRen.ofNameBij n

/-- the carrier: good alias, grammar-shaped definition, no local of the normalised tree spelled like a good name -/
def cstShapedN (fuel : Nat) (c : Cst CDef) : Prop := cstShaped c ∧ normLocalsOK fuel c = true

instance (fuel : Nat) (c : Cst CDef) : Decidable (cstShapedN fuel c) := by unfold cstShapedN; exact inferInstance

/-- **admissibility on the carrier**, with renamings that move good names only (`NameBij.ofMap_fix`) -/
theorem checker_carrierG (traits : TraitEnv) (hT : TraitsApart traits) (fuel : Nat) :
    RenCarrier (checkerR fun _ => traits) (checkerEquivariance fun _ => traits) (NameRenG traits)
      (cstShapedN fuel) where
  adm := by
    intro s f hP hP' _ hd'
    let names := s.map (·.alias)
    have hgood : ∀ x ∈ names, GoodName x ∧ GoodName (ren f x) := by
      intro x hx
      obtain ⟨c, hc, rfl⟩ := List.mem_map.1 hx
      exact ⟨(hP c hc).1.1, (hP' c hc).1.1⟩
    have hinj : ∀ a ∈ names, ∀ b ∈ names, ren f a = ren f b → a = b := by
      intro a ha b hb e
      obtain ⟨c, hc, rfl⟩ := List.mem_map.1 ha
      obtain ⟨d, hd, rfl⟩ := List.mem_map.1 hb
      rw [ExtractGen.inj_of_nodup_map hd' c hc d hd e]
    have hrad := NameBij.ofMap_radical names (ren f) hgood hinj
    have hfixG : ∀ x, ¬ GoodName x → (NameBij.ofMap names (ren f)).b.f x = x := by
      intro x hx
      refine NameBij.ofMap_fix names (ren f) hgood hinj x (fun h => hx (hgood _ h).1) ?_
      intro h
      obtain ⟨y, hy, e⟩ := List.mem_map.1 h
      exact hx (e ▸ (hgood y hy).2)
    have hfix : ∀ p ∈ traits, mapBlocks (NameBij.ofMap names (ren f)).b.f p.1 = p.1 := by
      intro p hp
      obtain ⟨h1, h2⟩ := hT p hp
      rw [mapBlocks_single _ h1]
      exact hfixG p.1 h2
    refine ⟨constRen traits (NameBij.ofMap names (ren f)) hfix, ⟨_, hfixG, rfl⟩, ?_, ?_⟩
    · intro c hc
      exact goodC_of_shaped _ hrad (isNameL_block (hP c hc).1.1.name) (hP c hc).1.2
    · intro c hc
      exact NameBij.ofMap_spec names (ren f) hgood hinj c.alias (List.mem_map.2 ⟨c, hc, rfl⟩)

/-- the evaluation half of the equivariance on this carrier: PROVED -/
theorem evalEquivarianceG (traits : TraitEnv) (fuel : Nat) :
    EvalEquivarianceOn (checkerR fun _ => traits) (evaluatorE fuel) (checkerEquivariance fun _ => traits)
      (NameRenG traits) (cstShapedN fuel) where
  verified_ren := fun _ _ => rfl
  eval_ren := by
    rintro r ctx ctx' c v ⟨n, hfix, hr⟩ hP _ hctx he
    have e : (checkerEquivariance fun _ => traits).renC r c = renCstC (CRen.ofNameBij n) c := by
      show renCstC r.r c = _
      rw [hr]
    rw [e]
    refine evaluator_rename_partial fuel n hfix ctx ctx' c v hP.1 hP.2 ?_ he
    intro m hm x hx
    have := hctx m hm x hx
    have e2 : (checkerEquivariance fun _ => traits).app r m = n.b.f m := by
      show r.r.ρ.f m = _
      rw [hr]
      rfl
    rw [e2] at this
    exact this

end CCVerif.RSModelGen
