import CCVerif.Lemmas.WordSpec
/-!
C08, name-extraction side: the word-level specification `globalsOf` (`Model/TranslateSpec.lean`: the whole
upper-case identifier words of the text, defined by `scan` WITHOUT the lexer model and its rule table) is, on every
text, the list of the texts of the tokens that `FilterGlobals` accepts in the MATH token stream — what the model of
`ExtractUGlobals` returns.

Same induction along the scanning loop as `words_run` (`Lemmas/WordSpec.lean`), from the same two facts about one
piece of the loop: `piece_id` (an identifier token is ONE word, global unless the token is a local name) and
`piece_raw` (any other piece is passed as verbatim pieces only).
-/
namespace CCVerif.Translate
open CCVerif.Syntax CCVerif.Generated CCVerif.Lexer CCVerif.Strings CCVerif.Translate.Spec

/-- the global names among a list of pieces -/
def globsP (ps : List Piece) : List Bytes :=
  ps.filterMap fun p => match p with | .glob w => some (encode w) | _ => none

theorem globalsOf_globsP (cps : List Nat) : globalsOf cps = globsP (pieces cps) := rfl

theorem globsP_raws : ∀ (ws : List (List Nat)) (ps : List Piece), globsP (ws.map Piece.raw ++ ps) = globsP ps
  | [], _ => rfl
  | w :: ws, ps => by
    have ih := globsP_raws ws ps
    unfold globsP at ih ⊢
    rw [List.map_cons, List.cons_append, List.filterMap_cons]
    exact ih

theorem globsP_rawScan (q rest : List Nat) (h : RawScan q rest) : globsP (pieces (q ++ rest)) = globsP (pieces rest) := by
  obtain ⟨ws, e, _⟩ := h
  rw [e, globsP_raws]

/-- the texts of the tokens `FilterGlobals` accepts -/
def globToks (ts : List RawTok) : List Bytes := (ts.filter fun t => filterGlobals t.id).map fun t => encode t.text

theorem globToks_cons (t : RawTok) (ts : List RawTok) :
    globToks (t :: ts) = if filterGlobals t.id then encode t.text :: globToks ts else globToks ts := by
  unfold globToks
  rw [List.filter_cons]
  split <;> rfl

theorem globsP_idPiece (k : Tok) (hk : filterIdentifiers k = true) (w : List Nat) (ps : List Piece) :
    globsP (idPiece k w :: ps) = if filterGlobals k then encode w :: globsP ps else globsP ps := by
  unfold idPiece
  by_cases hl : k = .ID_LOCAL
  · rw [if_pos hl, hl]
    rfl
  · rw [if_neg hl]
    have hg : filterGlobals k = true := by
      unfold filterIdentifiers at hk
      unfold filterGlobals
      simp only [Bool.or_eq_true, decide_eq_true_eq] at hk ⊢
      rcases hk with h | h
      · exact h
      · exact absurd h hl
    rw [hg]
    rfl

/-- **the induction along the scanning loop**: the global words of the text from a piece boundary on are the
texts of the global-name tokens from there on -/
theorem globs_run : ∀ (fuel : Nat) (s : List Nat) (lb col : Nat) (ts : List RawTok),
    lexGo .math mathRules fuel s lb col = some ts → globsP (pieces s) = globToks (untilEnd ts) := by
  intro fuel
  induction fuel with
  | zero => intro s lb col ts h; simp [lexGo] at h
  | succ fuel ih =>
    intro s lb col ts h
    cases s with
    | nil =>
      simp only [lexGo] at h
      rw [math_eof] at h
      have h := Option.some.inj h
      subst h
      have hu : untilEnd [(⟨.END, lb + col, lb + col, []⟩ : RawTok)] = [] := by simp [Translate.untilEnd]
      rw [hu]
      rfl
    | cons c r =>
      simp only [lexGo] at h
      cases hb : bestRule .math (c :: r) mathRules none with
      | none => rw [hb] at h; cases h
      | some na =>
        obtain ⟨n, act⟩ := na
        rw [hb] at h
        cases n with
        | zero => simp at h
        | succ n =>
          simp only at h
          have hsplit : c :: r = (c :: r).take (n + 1) ++ (c :: r).drop (n + 1) := (List.take_append_drop _ _).symm
          cases act with
          | tok k =>
            simp only at h
            cases hr : lexGo .math mathRules fuel ((c :: r).drop (n + 1)) lb (col + (n + 1)) with
            | none => rw [hr] at h; cases h
            | some rest =>
              rw [hr] at h
              have h := Option.some.inj h
              subst h
              have hkne := best_ne_end _ _ k hb
              rw [untilEnd_cons_ne _ _ hkne, globToks_cons]
              have ihr := ih _ _ _ _ hr
              cases hki : filterIdentifiers k with
              | true =>
                rw [piece_id _ n k hki hb, globsP_idPiece k hki, ihr]
              | false =>
                have hraw := piece_raw (c :: r) n (.tok k) hb hki
                have hout := globsP_rawScan _ _ hraw
                rw [← hsplit] at hout
                rw [hout, ihr]
                have hfk : filterGlobals k = false := by
                  cases hfo : filterGlobals k with
                  | false => rfl
                  | true => rw [filterOf_id false k hfo] at hki; cases hki
                simp only [hfk, Bool.false_eq_true, if_false]
          | skip =>
            have ihr := ih _ _ _ _ h
            have hraw := piece_raw (c :: r) n .skip hb rfl
            have hout := globsP_rawScan _ _ hraw
            rw [← hsplit] at hout
            rw [hout, ihr]
          | newline =>
            have ihr := ih _ _ _ _ h
            have hraw := piece_raw (c :: r) n .newline hb rfl
            have hout := globsP_rawScan _ _ hraw
            rw [← hsplit] at hout
            rw [hout, ihr]

/-- **the word-level name extraction agrees with the token-level one**, on every text -/
theorem globals_eq_tokens (cps : List Nat) (toks : List RawTok) (hl : lexMath cps = some toks) :
    globalsOf cps = (toks.filter fun t => filterGlobals t.id).map fun t => encode t.text := by
  rw [globalsOf_globsP]
  unfold lexMath at hl
  cases hr : lexRaw .math cps with
  | none => rw [hr] at hl; cases hl
  | some ts =>
    rw [hr] at hl
    have hl := Option.some.inj hl
    subst hl
    unfold lexRaw at hr
    exact globs_run _ cps 0 0 ts hr

/-! ## a text that does not mention a mapped name is not changed -/

theorem outP_untouched (tr : Translator) : ∀ ps : List Piece, (∀ b ∈ globsP ps, tr b = none ∨ tr b = some b) →
    outP false tr ps = outP false (fun _ => none) ps
  | [], _ => rfl
  | p :: ps, h => by
    have hps : ∀ b ∈ globsP ps, tr b = none ∨ tr b = some b := by
      intro b hb
      apply h b
      unfold globsP at hb ⊢
      rw [List.filterMap_cons]
      split
      · exact hb
      · exact List.mem_cons_of_mem _ hb
    have ih := outP_untouched tr ps hps
    have hp : translatePiece false tr p = translatePiece false (fun _ => none) p := by
      cases p with
      | raw w => rfl
      | loc w => rfl
      | glob w =>
        have hw : tr (encode w) = none ∨ tr (encode w) = some (encode w) := by
          apply h
          unfold globsP
          rw [List.filterMap_cons]
          exact List.mem_cons_self ..
        unfold translatePiece
        simp only [accepts]
        rcases hw with e | e <;> rw [e] <;> simp
    simp only [outP, hp, ih]

/-- **nothing else changes, text level**: when no whole upper-case identifier word of the text is sent to a
different name by the translator, the word-level translation is the text itself, byte for byte, with count 0 -/
theorem translateWords_untouched (tr : Translator) (cps : List Nat)
    (h : ∀ b ∈ globalsOf cps, tr b = none ∨ tr b = some b) : translateWords false tr cps = (encode cps, 0) := by
  obtain ⟨toks, hl⟩ := lexMath_total cps
  rw [translateWords_outP, outP_untouched tr _ h, ← translateWords_outP, words_eq_tokens false _ cps toks hl,
    weave_id _ cps toks 0 (lexMath_laid hl)]
  have hc : changed (filterOf false) (fun _ => none) toks = 0 := by
    unfold changed
    have : toks.filter (isChanged (filterOf false) fun _ => none) = [] := by
      rw [List.filter_eq_nil_iff]
      intro t _
      simp [isChanged]
    rw [this]
    rfl
  rw [hc]
  rfl

end CCVerif.Translate
