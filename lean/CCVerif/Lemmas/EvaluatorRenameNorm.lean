import CCVerif.Lemmas.EvalCallsTop
import CCVerif.Lemmas.CheckerEquivariant
import CCVerif.Lemmas.TokBEq
/-!
The normaliser (`Model/Normalize.lean`) with an EMPTY `SyntaxTreeContext` commutes with a renaming of the global
identifier tokens (`Checker.renAst`): it reads the spelling of LOCAL tokens only (tuple patterns), never that of a
global token; the generated names are built from local names.

* `normalize_renAst` / `normalizeTree_renAst`.
-/
namespace CCVerif.Eval
open CCVerif CCVerif.Syntax CCVerif.Norm
open CCVerif.Checker (renAst renAstL renData isGlob renAst_id renAst_lo renAst_hi renAst_kids renAstL_eq_map)

section
variable (g : String → String)

local notation "R" => renAst g

theorem renData_local (d : TokData) : renData g .ID_LOCAL d = d := rfl
theorem renData_smallpr (d : TokData) : renData g .SMALLPR d = d := rfl

theorem renData_of_local {t : Tok} (h : (t == Tok.ID_LOCAL) = true) (d : TokData) : renData g t d = d := by
  rw [tok_beq_eq _ _ h]; rfl

theorem isLocal_ren (a : Ast) : isLocal (R a) = isLocal a := by unfold isLocal; rw [renAst_id]

theorem textOf_ren_local (a : Ast) (h : isLocal a = true) : textOf (R a) = textOf a := by
  cases a with
  | node t d lo hi ks =>
    have ht : (t == Tok.ID_LOCAL) = true := h
    simp only [textOf, renAst, Ast.data, renData_of_local g ht]

theorem setKids_ren (a : Ast) (ks : List Ast) : setKids (R a) (renAstL g ks) = R (setKids a ks) := by
  cases a; rfl

mutual
theorem declPaths_ren (path : List Int) : ∀ a : Ast, declPaths path (R a) = declPaths path a
  | .node t d lo hi ks => by
    simp only [renAst, declPaths]
    by_cases h : (t == Tok.ID_LOCAL) = true
    · rw [if_pos h, if_pos h, renData_of_local g h]
    · rw [if_neg h, if_neg h, declPathsKids_ren path 1 ks]
theorem declPathsKids_ren (path : List Int) : ∀ (i : Int) (ks : List Ast),
    declPathsKids path i (renAstL g ks) = declPathsKids path i ks
  | _, [] => rfl
  | i, k :: ks => by simp only [renAstL, declPathsKids]; rw [declPaths_ren _ k, declPathsKids_ren path (i + 1) ks]
end

theorem processTupleDecl_ren (decl : Ast) (st : NState) : processTupleDecl (R decl) st = processTupleDecl decl st := by
  unfold processTupleDecl
  simp only [declPaths_ren, renAst_lo, renAst_hi]

theorem processTupleDecl_decl (decl : Ast) (st : NState) :
    R (processTupleDecl decl st).2.2.1 = (processTupleDecl decl st).2.2.1 := by
  unfold processTupleDecl
  dsimp only
  split <;> rfl

theorem wrapPr_ren (lo hi : Int) : ∀ (path : List Int) (inner : Ast),
    wrapPr path lo hi (R inner) = R (wrapPr path lo hi inner)
  | [], _ => rfl
  | i :: path, inner => by
    unfold wrapPr
    simp only [List.foldl_cons]
    have := wrapPr_ren lo hi path (.node .SMALLPR (.tuple [i]) lo hi [inner])
    unfold wrapPr at this
    rw [← this]
    rfl

mutual
theorem substTuple_ren (subs : List (String × List Int)) (nn : String) : ∀ a : Ast,
    substTuple subs nn (R a) = R (substTuple subs nn a)
  | .node t d lo hi ks => by
    simp only [renAst, substTuple]
    rw [substTupleKids_ren subs nn ks]
theorem substTupleKids_ren (subs : List (String × List Int)) (nn : String) : ∀ ks : List Ast,
    substTupleKids subs nn (renAstL g ks) = renAstL g (substTupleKids subs nn ks)
  | [] => rfl
  | k :: ks => by
    simp only [renAstL, substTupleKids]
    rw [substTupleKids_ren subs nn ks, isLocal_ren]
    by_cases hl : isLocal k = true
    · rw [if_pos hl, if_pos hl, textOf_ren_local g k hl]
      cases lookup (textOf k) subs with
      | none => rfl
      | some path =>
        simp only [renAst_lo, renAst_hi]
        have : (Ast.node Tok.ID_LOCAL (TokData.text nn) k.lo k.hi (R k).kids) =
            R (Ast.node Tok.ID_LOCAL (TokData.text nn) k.lo k.hi k.kids) := by
          cases k; rfl
        rw [this, wrapPr_ren]
    · rw [if_neg hl, if_neg hl, substTuple_ren subs nn k]
end

theorem quantTuple_ren (q : Ast) (st : NState) :
    quantTuple (R q) st = (R (quantTuple q st).1, (quantTuple q st).2) := by
  obtain ⟨t, d, lo, hi, ks⟩ := q
  rcases ks with _ | ⟨a, _ | ⟨b, _ | ⟨c, _ | ⟨e, r⟩⟩⟩⟩ <;> try rfl
  simp only [quantTuple, renAst, renAstL, Ast.kids, processTupleDecl_ren]
  have hd := processTupleDecl_decl g a st
  generalize processTupleDecl a st = x at hd
  obtain ⟨nn, subs, decl', st'⟩ := x
  simp only [setKids, renAst, renAstL, substTuple_ren] at hd ⊢
  rw [hd]

theorem quantTupleEnum_ren (q : Ast) (st : NState) :
    quantTupleEnum (R q) st = (R (quantTupleEnum q st).1, (quantTupleEnum q st).2) := by
  have hq := quantTuple_ren g q st
  obtain ⟨t, d, lo, hi, ks⟩ := q
  rcases ks with _ | ⟨a, _ | ⟨b, _ | ⟨c, _ | ⟨e, r⟩⟩⟩⟩ <;> try rfl
  obtain ⟨t2, d2, lo2, hi2, ks2⟩ := c
  rcases ks2 with _ | ⟨a2, _ | ⟨b2, _ | ⟨c2, _ | ⟨e2, r2⟩⟩⟩⟩ <;>
    try (simp only [quantTupleEnum, renAst, renAstL, Ast.kids] at hq ⊢; exact hq)
  simp only [quantTupleEnum, renAst, renAstL, Ast.kids, processTupleDecl_ren]
  have hd := processTupleDecl_decl g a st
  generalize processTupleDecl a st = x at hd
  obtain ⟨nn, subs, decl', st'⟩ := x
  simp only [setKids, renAst, renAstL, substTuple_ren] at hd ⊢
  rw [hd]

theorem enumDecl_ren (q : Ast) : enumDecl (R q) = R (enumDecl q) := by
  obtain ⟨t, d, lo, hi, ks⟩ := q
  rcases ks with _ | ⟨a, _ | ⟨b, _ | ⟨c, _ | ⟨e, r⟩⟩⟩⟩ <;> try rfl
  obtain ⟨t2, d2, lo2, hi2, ks2⟩ := a
  rcases ks2 with _ | ⟨a2, _ | ⟨b2, r2⟩⟩ <;> try rfl
  cases r2 with
  | nil => rfl
  | cons x xs => rfl

theorem declarative_ren (q : Ast) (st : NState) :
    declarative (R q) st = (R (declarative q st).1, (declarative q st).2) := by
  obtain ⟨t, d, lo, hi, ks⟩ := q
  rcases ks with _ | ⟨a, _ | ⟨b, _ | ⟨c, _ | ⟨e, r⟩⟩⟩⟩ <;> try rfl
  simp only [declarative, renAst, renAstL, Ast.kids, processTupleDecl_ren, renAst_id]
  split
  · rfl
  · have hd := processTupleDecl_decl g a st
    generalize processTupleDecl a st = x at hd
    obtain ⟨nn, subs, decl', st'⟩ := x
    simp only [setKids, renAst, renAstL, substTuple_ren] at hd ⊢
    rw [hd]

theorem recursion_ren (q : Ast) (st : NState) :
    recursion (R q) st = (R (recursion q st).1, (recursion q st).2) := by
  obtain ⟨t, d, lo, hi, ks⟩ := q
  rcases ks with _ | ⟨a, _ | ⟨b, _ | ⟨c, _ | ⟨e, _ | ⟨f, r⟩⟩⟩⟩⟩ <;> try rfl
  · simp only [recursion, renAst, renAstL, Ast.kids, processTupleDecl_ren, renAst_id]
    split
    · rfl
    · have hd := processTupleDecl_decl g a st
      generalize processTupleDecl a st = x at hd
      obtain ⟨nn, subs, decl', st'⟩ := x
      simp only [setKids, renAst, renAstL, substTuple_ren] at hd ⊢
      rw [hd]
  · simp only [recursion, renAst, renAstL, Ast.kids, processTupleDecl_ren, renAst_id]
    split
    · rfl
    · have hd := processTupleDecl_decl g a st
      generalize processTupleDecl a st = x at hd
      obtain ⟨nn, subs, decl', st'⟩ := x
      simp only [setKids, renAst, renAstL, substTuple_ren] at hd ⊢
      rw [hd]

theorem one_ren (subs : List (String × List Int)) (nn : String) (k : Ast) :
    (match substTupleKids subs nn [R k] with | [k'] => k' | _ => R k) =
      R (match substTupleKids subs nn [k] with | [k'] => k' | _ => k) := by
  have h := substTupleKids_ren g subs nn [k]
  simp only [renAstL] at h
  rw [h]
  simp only [substTupleKids, renAstL]

theorem mapIdx_ren (F F' : Nat → Ast → Ast) (l : List Ast) (h : ∀ i, ∀ k ∈ l, F i (R k) = R (F' i k)) :
    mapIdx F (l.map R) = renAstL g (mapIdx F' l) := by
  unfold mapIdx
  rw [renAstL_eq_map, List.zipIdx_map, List.map_map, List.map_map]
  apply List.map_congr_left
  intro p hp
  simp only [Function.comp]
  exact h p.2 p.1 (by rw [(List.mem_zipIdx' hp).2]; exact List.getElem_mem _)

theorem imperativeStep_ren (r : Ast) (child : Nat) (st : NState) :
    imperativeStep (R r) child st = (R (imperativeStep r child st).1, (imperativeStep r child st).2) := by
  unfold imperativeStep
  rw [renAst_kids, List.getElem?_map]
  cases hb : r.kids[child]? with
  | none => rfl
  | some blk =>
    simp only [Option.map_some, renAst_id]
    split
    · rfl
    · rw [renAst_kids]
      cases hbk : blk.kids with
      | nil => rfl
      | cons decl brest =>
        simp only [List.map_cons, renAst_id]
        split
        · rfl
        · rw [processTupleDecl_ren]
          have hd := processTupleDecl_decl g decl st
          generalize processTupleDecl decl st = x at hd
          obtain ⟨nn, subs, decl', st'⟩ := x
          simp only at hd ⊢
          rw [mapIdx_ren g _ (fun i k => if i == child then setKids blk (decl' :: brest) else
            if i == 0 || i > child then (match substTupleKids subs nn [k] with | [k'] => k' | _ => k) else k),
            setKids_ren]
          · rfl
          · intro i k _
            split
            · rw [← setKids_ren]
              simp only [renAstL, hd, renAstL_eq_map]
            · split
              · exact one_ren g subs nn k
              · rfl

theorem imperative_ren (r : Ast) (st : NState) :
    imperative (R r) st = (R (imperative r st).1, (imperative r st).2) := by
  unfold imperative
  rw [Checker.renAst_kids_length]
  generalize List.range r.kids.length = l
  suffices ∀ (acc : Ast × NState),
      l.foldl (fun (acc : Ast × NState) i => if i == 0 then acc else imperativeStep acc.1 i acc.2) (R acc.1, acc.2) =
        (R (l.foldl (fun (acc : Ast × NState) i => if i == 0 then acc else imperativeStep acc.1 i acc.2) acc).1,
         (l.foldl (fun (acc : Ast × NState) i => if i == 0 then acc else imperativeStep acc.1 i acc.2) acc).2) from
    this (r, st)
  induction l with
  | nil => intro acc; rfl
  | cons i l ih =>
    intro acc
    simp only [List.foldl_cons]
    split
    · exact ih acc
    · rw [imperativeStep_ren]
      exact ih _

/-! ## `Normalize` -/

theorem inlineCall_nil (call : Ast) (st : NState) : inlineCall [] call st = none := by
  unfold inlineCall
  cases call.kids <;> rfl

def renP (p : Ast × NState) : Ast × NState := (R p.1, p.2)

theorem normKids_ren {N : Ast → NState → Option (Ast × NState)} : ∀ (ks done : List Ast) (b : NState),
    (∀ k ∈ ks, ∀ st, N (R k) st = (N k st).map (renP g)) →
    normKids N (ks.map R) (some (renAstL g done, b)) =
      (normKids N ks (some (done, b))).map fun p => (renAstL g p.1, p.2)
  | [], _, _, _ => rfl
  | k :: ks, done, b, h => by
    simp only [List.map_cons, normKids, List.foldl_cons]
    rw [h k (List.mem_cons_self ..)]
    cases hk : N k b with
    | none =>
      simp only [Option.map_none]
      have := normKids_none N ks
      have h2 := normKids_none N (ks.map R)
      unfold normKids at this h2
      rw [this, h2]; rfl
    | some y =>
      simp only [Option.map_some, renP]
      have e : renAstL g done ++ [R y.1] = renAstL g (done ++ [y.1]) := by
        rw [renAstL_eq_map, renAstL_eq_map, List.map_append]; rfl
      rw [e]
      have := normKids_ren ks (done ++ [y.1]) y.2 (fun k' hk' => h k' (List.mem_cons_of_mem _ hk'))
      unfold normKids at this
      exact this

theorem normStep_ren {N : Ast → NState → Option (Ast × NState)} (root : Ast) (st : NState) :
    normStep [] N (R root) st = (normStep [] N root st).map (renP g) := by
  have hq : ∀ r1 : Ast, (r1.kids.head?.map R) = (R r1).kids.head? := by
    intro r1; rw [renAst_kids, List.head?_map]
  have hquant : (match (R root).kids.head? with
      | some (decl : Ast) =>
        let r1 := if decl.id == Tok.NT_ENUM_DECL then enumDecl (R root) else (R root)
        match r1.kids.head? with
        | some d1 =>
          if d1.id == Tok.NT_TUPLE_DECL then
            some (if decl.id == Tok.NT_ENUM_DECL then quantTupleEnum r1 st else quantTuple r1 st)
          else some (r1, st)
        | none => some (r1, st)
      | none => some (R root, st)) =
      (match root.kids.head? with
      | some (decl : Ast) =>
        let r1 := if decl.id == Tok.NT_ENUM_DECL then enumDecl root else root
        match r1.kids.head? with
        | some d1 =>
          if d1.id == Tok.NT_TUPLE_DECL then
            some (if decl.id == Tok.NT_ENUM_DECL then quantTupleEnum r1 st else quantTuple r1 st)
          else some (r1, st)
        | none => some (r1, st)
      | none => some (root, st)).map (renP g) := by
    rw [← hq]
    cases root.kids.head? with
    | none => rfl
    | some decl =>
      simp only [Option.map_some, renAst_id]
      have e1 : (if (decl.id == Tok.NT_ENUM_DECL) = true then enumDecl (R root) else R root) =
          R (if (decl.id == Tok.NT_ENUM_DECL) = true then enumDecl root else root) := by
        split
        · exact enumDecl_ren g root
        · rfl
      rw [e1, ← hq]
      generalize (if (decl.id == Tok.NT_ENUM_DECL) = true then enumDecl root else root) = r1
      cases r1.kids.head? with
      | none => rfl
      | some d1 =>
        simp only [Option.map_some, renAst_id]
        split
        · split
          · rw [quantTupleEnum_ren]; rfl
          · rw [quantTuple_ren]; rfl
        · rfl
  unfold normStep
  rw [renAst_id]
  split
  all_goals try (simp only [Option.map_some, renP, recursion_ren, declarative_ren, imperative_ren]; done)
  · exact hquant
  · exact hquant
  · rw [inlineCall_nil, inlineCall_nil]; rfl

theorem normalize_ren : ∀ (fuel : Nat) (root : Ast) (st : NState),
    normalize [] fuel (R root) st = (normalize [] fuel root st).map (renP g)
  | 0, _, _ => by simp [normalize]
  | fuel + 1, root, st => by
    rw [normalize_succ, normalize_succ]
    unfold normF
    rw [normStep_ren]
    cases hs : normStep [] (normalize [] fuel) root st with
    | none => rfl
    | some y =>
      simp only [Option.map_some, renP]
      rw [renAst_kids]
      have := normKids_ren g (N := normalize [] fuel) y.1.kids [] y.2 (fun k _ st => normalize_ren fuel k st)
      simp only [renAstL] at this
      rw [this]
      cases normKids (normalize [] fuel) y.1.kids (some ([], y.2)) with
      | none => rfl
      | some z => simp only [Option.map_some, setKids_ren]; rfl

mutual
theorem collectLocals_ren : ∀ a : Ast, collectLocals (R a) = collectLocals a
  | .node t d lo hi ks => by
    simp only [renAst, collectLocals]
    rw [collectLocalsKids_ren ks]
    by_cases h : (t == Tok.ID_LOCAL) = true
    · rw [if_pos h, if_pos h, renData_of_local g h]
    · rw [if_neg h, if_neg h]
theorem collectLocalsKids_ren : ∀ ks : List Ast, collectLocalsKids (renAstL g ks) = collectLocalsKids ks
  | [] => rfl
  | k :: ks => by simp only [renAstL, collectLocalsKids]; rw [collectLocals_ren k, collectLocalsKids_ren ks]
end

/-- **the normaliser (empty `SyntaxTreeContext`) commutes with the renaming of the global tokens** -/
theorem normalizeTree_renAst (fuel : Nat) (root : Ast) :
    normalizeTree [] fuel (R root) = (normalizeTree [] fuel root).map R := by
  unfold normalizeTree
  rw [collectLocals_ren, normalize_ren, Option.map_map, Option.map_map]
  rfl

end

end CCVerif.Eval
