import CCVerif.Lemmas.RSModelGenFrag
import CCVerif.Lemmas.SchemaGenSim
import CCVerif.Lemmas.RSModel
/-!
The fragment value bookkeeping of `Model/RSModel.lean` (repaired code paths, `pinned = false`) is
simulated by the instance `(fragA, fragE)` of the generic machine of `Model/RSModelGen.lean`: the
state translation `toGR` (which drops the `text` field) commutes with every function of the model;
one fragment operation amounts to zero or one generic operation (`opsG`), and `toGR_step` is an
EQUALITY of states.  As a consequence the old C11 theorem (`fresh`) is re-proved THROUGH the generic
invariant.
-/
namespace CCVerif.RSModelGen
open CCVerif CCVerif.SchemaGen

def toGR (st : RSModel.St) : St Schema.Def Schema.Info RSModel.Data :=
  ⟨SchemaGen.toG st.sch, st.rs, st.calcd⟩   -- the `text` field is dropped

/-- the generic operations one fragment operation amounts to in a given state (0 or 1 of them) -/
def opsG (st : RSModel.St) : RSModel.Op → List (Op Schema.Def RSModel.Data)
  | .schema op => [.schema (SchemaGen.opG op)]
  | .addElem u =>
    if st.kindOf u != some .base then []
    else [.setBase u (RSModel.insertInt (RSModel.pushBackKey (st.textFor u)) ((st.dataFor u).getD []))]
  | .setText u keys =>
    if st.kindOf u != some .base then []
    else if RSModel.normData keys = RSModel.normData (st.textFor u) then []
    else [.setBase u (RSModel.normData keys)]
  | .resetData u => if st.kindOf u != some .base then [] else [.setBase u []]
  | .calculate u => [.calculate u]
  | .recalculateAll => [.recalculateAll]

/-- the state-dependent translation along a history -/
def opsAllFrom : RSModel.St → List RSModel.Op → List (Op Schema.Def RSModel.Data)
  | _, [] => []
  | st, op :: ops => opsG st op ++ opsAllFrom (RSModel.step false st op) ops

def opsAll (ops : List RSModel.Op) : List (Op Schema.Def RSModel.Data) := opsAllFrom {} ops

/-! ## fields, data -/

@[simp] theorem toGR_sch (st : RSModel.St) : (toGR st).sch = toG st.sch := rfl
@[simp] theorem toGR_rs (st : RSModel.St) : (toGR st).rs = st.rs := rfl
@[simp] theorem toGR_calcd (st : RSModel.St) : (toGR st).calcd = st.calcd := rfl

theorem toGR_withSch (st : RSModel.St) (s : Schema.St) :
    toGR { st with sch := s } = { toGR st with sch := toG s } := rfl

theorem dataFor_toGR (st : RSModel.St) (u : Nat) : (toGR st).dataFor u = st.dataFor u := rfl

theorem dataFor_toGR' (st : RSModel.St) : (toGR st).dataFor = st.dataFor := rfl

theorem toGR_setData (st : RSModel.St) (u : Nat) (d : RSModel.Data) :
    toGR (st.setData u d) = (toGR st).setData u d := rfl

theorem toGR_eraseData (st : RSModel.St) (u : Nat) : toGR (st.eraseData u) = (toGR st).eraseData u := rfl

theorem kindOf_toGR (st : RSModel.St) (u : Nat) : (toGR st).kindOf u = st.kindOf u := by
  unfold St.kindOf RSModel.St.kindOf
  rw [toGR_sch, at_toG, Option.map_map]
  rfl

/-! ## `ResetFor`, `ResetDependants` -/

theorem toGR_resetFor (st : RSModel.St) (u : Nat) :
    toGR (st.resetFor u) = (toGR st).resetFor fragE u := by
  unfold St.resetFor RSModel.St.resetFor
  simp only
  rw [← toGR_eraseData, kindOf_toGR]
  cases (st.eraseData u).kindOf u with
  | none => rfl
  | some k => cases k <;> rfl

theorem toGR_resetBoth (st : RSModel.St) (u : Nat) :
    toGR (st.resetBoth u) = (toGR st).resetBoth fragE u := by
  unfold St.resetBoth RSModel.St.resetBoth
  rw [← toGR_resetFor]
  rfl

theorem toGR_resetItems (items : List Nat) (target : Nat) : ∀ st : RSModel.St,
    toGR (st.resetItems items target) = (toGR st).resetItems fragE items target := by
  unfold St.resetItems RSModel.St.resetItems
  induction items with
  | nil => intro st; rfl
  | cons d ds ih =>
    intro st
    rw [List.foldl_cons, List.foldl_cons, ih, kindOf_toGR]
    congr 1
    by_cases h : (d != target && st.kindOf d == some Schema.Kind.term) = true
    · simp only [h, ↓reduceIte]; exact toGR_resetBoth st d
    · simp only [h, Bool.false_eq_true, ↓reduceIte]

theorem toGR_resetDependants (st : RSModel.St) (target : Nat) :
    toGR (st.resetDependants target) = (toGR st).resetDependants fragA fragE target := by
  unfold St.resetDependants RSModel.St.resetDependants
  simp only
  rw [toGR_resetItems, toGR_withSch, toGR_sch, ← toG_ensureGraph, toG_graph]

/-! ## `CalculateCstInternal`, `RecalculateAll` -/

theorem vctx_toGR (st : RSModel.St) :
    (toGR st).vctx = fun n => (st.sch.findAlias n).bind st.dataFor := by
  funext n
  unfold St.vctx
  rw [toGR_sch, findAlias_toG]
  rfl

theorem fragE_eval (ctx : String → Option RSModel.Data) (c : Schema.Cst) :
    fragE.eval ctx (cG c)
      = if ((c.defn.mentions.map ctx).all Option.isSome) = true then
          some ((c.defn.mentions.map ctx).foldl (fun acc v => RSModel.unionData acc (v.getD [])) [])
        else none := rfl

theorem toGR_calculateInternal (st : RSModel.St) (u : Nat) :
    (toGR st).calculateInternal fragA fragE u
      = (toGR (st.calculateInternal u).1, (st.calculateInternal u).2) := by
  unfold St.calculateInternal RSModel.St.calculateInternal
  rw [toGR_sch, at_toG]
  cases h : st.sch.at u with
  | none => rfl
  | some c =>
    simp only [Option.map_some]
    have hg : (!fragE.verified ((toG st.sch).infoFor fragA u))
        = ((st.sch.infoFor u).status != Schema.Status.verified) := rfl
    rw [hg]
    by_cases h1 : ((st.sch.infoFor u).status != Schema.Status.verified) = true
    · simp only [h1, ↓reduceIte]
    · simp only [h1, Bool.false_eq_true, ↓reduceIte]
      have hst : (⟨toG st.sch, (toGR st).rs, if (toGR st).calcd.contains u then (toGR st).calcd
            else u :: (toGR st).calcd⟩ : St Schema.Def Schema.Info RSModel.Data)
          = toGR { st with calcd := if st.calcd.contains u then st.calcd else u :: st.calcd } := rfl
      rw [hst, vctx_toGR, fragE_eval]
      by_cases h2 : ((c.defn.mentions.map (fun n =>
          (({ st with calcd := if st.calcd.contains u then st.calcd else u :: st.calcd } : RSModel.St).sch.findAlias n).bind
            ({ st with calcd := if st.calcd.contains u then st.calcd else u :: st.calcd } : RSModel.St).dataFor)).all
          Option.isSome) = true
      · simp only [h2, ↓reduceIte]
        rfl
      · simp only [h2, Bool.false_eq_true, ↓reduceIte]

theorem toGR_calculateInternal_fst (st : RSModel.St) (u : Nat) :
    ((toGR st).calculateInternal fragA fragE u).1 = toGR (st.calculateInternal u).1 := by
  rw [toGR_calculateInternal]

theorem toGR_foldl_resetTerms (l : List Schema.Cst) : ∀ st : RSModel.St,
    (l.map cG).foldl (fun s c => if c.kind == Schema.Kind.term then s.resetFor fragE c.uid else s) (toGR st)
      = toGR (l.foldl (fun s c => if c.kind == Schema.Kind.term then s.resetFor c.uid else s) st) := by
  induction l with
  | nil => intro st; rfl
  | cons c cs ih =>
    intro st
    rw [List.map_cons, List.foldl_cons, List.foldl_cons, ← ih]
    congr 1
    by_cases h : (c.kind == Schema.Kind.term) = true
    · simp only [cG_kind, cG_uid, h, ↓reduceIte]; exact (toGR_resetFor st c.uid).symm
    · simp only [cG_kind, h, Bool.false_eq_true, ↓reduceIte]

theorem toGR_foldl_calc (l : List Nat) : ∀ st : RSModel.St,
    l.foldl (fun s u => if s.kindOf u == some Schema.Kind.term then (s.calculateInternal fragA fragE u).1 else s)
        (toGR st)
      = toGR (l.foldl (fun s u => if s.kindOf u == some Schema.Kind.term then (s.calculateInternal u).1 else s)
        st) := by
  induction l with
  | nil => intro st; rfl
  | cons u us ih =>
    intro st
    rw [List.foldl_cons, List.foldl_cons, ← ih, kindOf_toGR]
    congr 1
    by_cases h : (st.kindOf u == some Schema.Kind.term) = true
    · simp only [h, ↓reduceIte]; exact toGR_calculateInternal_fst st u
    · simp only [h, Bool.false_eq_true, ↓reduceIte]

theorem toGR_recalculateAll (st : RSModel.St) :
    toGR st.recalculateAll = (toGR st).recalculateAll fragA fragE := by
  unfold St.recalculateAll RSModel.St.recalculateAll
  simp only
  rw [← toGR_foldl_calc, ← toGR_foldl_resetTerms, toGR_sch, ← toG_ensureGraph, toG_graph]
  rfl

/-! ## `step` -/

theorem toGR_step_schema (st : RSModel.St) (sop : Schema.Op) :
    toGR (RSModel.step false st (.schema sop))
      = step fragA fragE (toGR st) (.schema (SchemaGen.opG sop)) := by
  cases sop with
  | insert c =>
    show toGR (if st.sch.hasInfo c.uid then st
        else RSModel.St.resetBoth { st with sch := Schema.step false st.sch (.insert c) } c.uid)
      = (if (toGR st).sch.hasInfo (cG c).uid then toGR st
        else St.resetBoth fragE { toGR st with sch := SchemaGen.step fragA (toGR st).sch (.insert (cG c)) }
          (cG c).uid)
    rw [toGR_sch, hasInfo_toG, cG_uid]
    by_cases h : st.sch.hasInfo c.uid = true
    · simp only [h, ↓reduceIte]
    · simp only [h, Bool.false_eq_true, ↓reduceIte]
      rw [toGR_resetBoth, toGR_withSch, toG_step]
      rfl
  | load c =>
    show toGR { st with sch := Schema.step false st.sch (.load c) }
      = { toGR st with sch := SchemaGen.step fragA (toGR st).sch (.load (cG c)) }
    rw [toGR_withSch, toG_step]; rfl
  | updateState =>
    show toGR { st with sch := Schema.step false st.sch .updateState }
      = { toGR st with sch := SchemaGen.step fragA (toGR st).sch .updateState }
    rw [toGR_withSch, toG_step]; rfl
  | erase u =>
    have hcont : (toGR st).sch.contains u = st.sch.contains u := contains_toG _ _
    simp only [RSModel.step, step, SchemaGen.opG, hcont]
    by_cases h : (!st.sch.contains u) = true
    · simp only [h, ↓reduceIte]
    · simp only [h, Bool.false_eq_true, ↓reduceIte]
      rw [toGR_resetItems, toGR_sch, ← toG_ensureGraph, toG_graph, ← toG_step_erase]
      rfl
  | setDef u d =>
    have hat : (toGR st).sch.at u = (st.sch.at u).map cG := at_toG _ _
    have hfd : ((toGR st).sch.store.find? (·.defn == d)).map (·.uid)
        = (st.sch.store.find? (·.defn == d)).map (·.uid) := findDefn_toG _ _
    simp only [RSModel.step, step, SchemaGen.opG]
    rw [hat]
    cases h : st.sch.at u with
    | none => rfl
    | some c =>
      simp only [Option.map_some, cG_defn]
      by_cases h1 : d = c.defn
      · simp only [h1, ↓reduceIte]
      · simp only [h1, Bool.false_eq_true, ↓reduceIte, hfd]
        by_cases h2 : ((st.sch.store.find? (·.defn == d)).map (·.uid) != some u) = true
        · simp only [h2, ↓reduceIte]
          rw [toGR_resetDependants, toGR_resetBoth, toGR_withSch, toG_step_setDef]; rfl
        · simp only [h2, Bool.false_eq_true, ↓reduceIte]
          rw [toGR_withSch, toG_step_setDef]; rfl
  | setAlias u a sb =>
    cases sb with
    | true =>
      show toGR { st with sch := Schema.step false st.sch (.setAlias u a true) }
        = { toGR st with sch := SchemaGen.step fragA (toGR st).sch (.setAlias u a true) }
      rw [toGR_withSch, toG_step]; rfl
    | false =>
      have hcont : (toGR st).sch.contains u = st.sch.contains u := contains_toG _ _
      have hal : ((toGR st).sch.at u).map (·.alias) = (st.sch.at u).map (·.alias) := by
        rw [toGR_sch, at_toG, Option.map_map]; rfl
      simp only [RSModel.step, step, SchemaGen.opG, hcont, hal, Bool.false_or]
      by_cases h : (!st.sch.contains u) = true
      · simp only [h, ↓reduceIte]
        rw [toGR_withSch, toG_step_setAlias]
        rfl
      · simp only [h, Bool.false_eq_true, ↓reduceIte]
        rw [toGR_sch, ← toG_ensureGraph, toG_graph, ← toG_step_setAlias]
        by_cases h2 : (Option.map (fun (x : Schema.Cst) => x.alias) (st.sch.at u) == some a) = true
        · simp only [h2, ↓reduceIte]; rfl
        · simp only [h2, Bool.false_eq_true, ↓reduceIte]
          rw [toGR_resetItems]; rfl
  | substitute m =>
    show toGR { st with sch := Schema.step false st.sch (.substitute m) }
      = { toGR st with sch := SchemaGen.step fragA (toGR st).sch (.substitute m) }
    rw [toGR_withSch, toG_step]; rfl

theorem filter_ne_idem (u : Nat) (rs : List (Nat × RSModel.Data)) :
    (rs.filter (·.1 != u)).filter (·.1 != u) = rs.filter (·.1 != u) := by
  rw [List.filter_filter]
  simp only [Bool.and_self]

theorem step_setBase_of_base {st : RSModel.St} {u : Nat} (h : ¬ (st.kindOf u != some Schema.Kind.base) = true)
    (v : RSModel.Data) :
    step fragA fragE (toGR st) (.setBase u v) = ((toGR st).setData u v).resetDependants fragA fragE u := by
  simp only [step, kindOf_toGR, h, Bool.false_eq_true, ↓reduceIte]

theorem toGR_step_addElem (st : RSModel.St) (u : Nat) :
    toGR (RSModel.step false st (.addElem u))
      = (opsG st (.addElem u)).foldl (step fragA fragE) (toGR st) := by
  simp only [RSModel.step, opsG]
  by_cases h : (st.kindOf u != some Schema.Kind.base) = true
  · simp only [h, ↓reduceIte, List.foldl_nil]
  · simp only [h, Bool.false_eq_true, ↓reduceIte, List.foldl_cons, List.foldl_nil]
    rw [step_setBase_of_base h, toGR_resetDependants]
    rfl

theorem toGR_step_setText (st : RSModel.St) (u : Nat) (keys : List Int) :
    toGR (RSModel.step false st (.setText u keys))
      = (opsG st (.setText u keys)).foldl (step fragA fragE) (toGR st) := by
  simp only [RSModel.step, opsG]
  by_cases h : (st.kindOf u != some Schema.Kind.base) = true
  · simp only [h, ↓reduceIte, List.foldl_nil]
  · simp only [h, Bool.false_eq_true, ↓reduceIte]
    by_cases h2 : RSModel.normData keys = RSModel.normData (st.textFor u)
    · simp only [h2, ↓reduceIte, List.foldl_nil]
    · simp only [h2, ↓reduceIte, List.foldl_cons, List.foldl_nil]
      rw [step_setBase_of_base h, toGR_resetDependants]
      rfl

theorem toGR_step_resetData (st : RSModel.St) (u : Nat) :
    toGR (RSModel.step false st (.resetData u))
      = (opsG st (.resetData u)).foldl (step fragA fragE) (toGR st) := by
  simp only [RSModel.step, opsG]
  by_cases h : (st.kindOf u != some Schema.Kind.base) = true
  · simp only [h, ↓reduceIte, List.foldl_nil]
  · simp only [h, Bool.false_eq_true, ↓reduceIte, List.foldl_cons, List.foldl_nil]
    rw [step_setBase_of_base h, toGR_resetDependants, toGR_resetFor]
    congr 1
    -- the only place where the raw `rs` lists are built differently
    have hk : st.kindOf u = some Schema.Kind.base := by
      cases hk : st.kindOf u with
      | none => rw [hk] at h; exact absurd rfl h
      | some k => cases k with
        | base => rfl
        | term => rw [hk] at h; exact absurd rfl h
    unfold St.resetFor
    simp only
    have hk' : ((toGR st).eraseData u).kindOf u = some Schema.Kind.base := by
      rw [← toGR_eraseData, kindOf_toGR]; exact hk
    rw [hk']
    simp only
    unfold St.setData St.eraseData
    simp only [filter_ne_idem]
    rfl

theorem toGR_step_calculate (st : RSModel.St) (u : Nat) :
    toGR (RSModel.step false st (.calculate u))
      = (opsG st (.calculate u)).foldl (step fragA fragE) (toGR st) := by
  simp only [RSModel.step, opsG, step, List.foldl_cons, List.foldl_nil, kindOf_toGR]
  by_cases h : (st.kindOf u != some Schema.Kind.term) = true
  · simp only [h, ↓reduceIte]
  · simp only [h, Bool.false_eq_true, ↓reduceIte]
    rw [toGR_resetDependants, toGR_calculateInternal_fst]

/-- one fragment step = the generic steps `opsG` gives, as an EQUALITY of states -/
theorem toGR_step (st : RSModel.St) (op : RSModel.Op) :
    toGR (RSModel.step false st op) = (opsG st op).foldl (step fragA fragE) (toGR st) := by
  cases op with
  | schema sop => exact toGR_step_schema st sop
  | addElem u => exact toGR_step_addElem st u
  | setText u keys => exact toGR_step_setText st u keys
  | resetData u => exact toGR_step_resetData st u
  | calculate u => exact toGR_step_calculate st u
  | recalculateAll => exact toGR_recalculateAll st

theorem toGR_foldl_step (ops : List RSModel.Op) : ∀ st : RSModel.St,
    toGR (ops.foldl (RSModel.step false) st) = (opsAllFrom st ops).foldl (step fragA fragE) (toGR st) := by
  induction ops with
  | nil => intro st; rfl
  | cons op ops ih =>
    intro st
    rw [List.foldl_cons, ih, opsAllFrom, List.foldl_append, toGR_step]

theorem toGR_run (ops : List RSModel.Op) :
    toGR (RSModel.run false ops) = run fragA fragE (opsAll ops) :=
  toGR_foldl_step ops {}

/-! ## admissible histories -/

theorem aliasesDistinct_toG (s : Schema.St) : AliasesDistinct (toG s) ↔ Schema.AliasesDistinct s := by
  unfold AliasesDistinct Schema.AliasesDistinct
  rw [toG_store, List.map_map]
  rfl

theorem admissibleAllFrom_append (l1 : List (Op Schema.Def RSModel.Data)) :
    ∀ (st : St Schema.Def Schema.Info RSModel.Data) (l2 : List (Op Schema.Def RSModel.Data)),
    AdmissibleAllFrom fragA fragE st l1 →
    AdmissibleAllFrom fragA fragE (l1.foldl (step fragA fragE) st) l2 →
    AdmissibleAllFrom fragA fragE st (l1 ++ l2) := by
  induction l1 with
  | nil => intro st l2 _ h; exact h
  | cons op ops ih =>
    intro st l2 h1 h2
    exact ⟨h1.1, ih _ l2 h1.2 h2⟩

theorem admissibleAll_schema {st : RSModel.St} {sop : Schema.Op}
    (h : RSModel.Admissible st (.schema sop)) :
    AdmissibleAll fragA fragE (toGR st) (.schema (SchemaGen.opG sop)) := by
  have key : (step fragA fragE (toGR st) (.schema (SchemaGen.opG sop))).sch
      = toG (RSModel.step false st (.schema sop)).sch := by
    rw [← toGR_step_schema]; rfl
  cases sop with
  | load c => exact h.elim
  | insert c => exact (by rw [key]; exact (aliasesDistinct_toG _).2 h :
      AliasesDistinct (step fragA fragE (toGR st) (.schema (SchemaGen.opG (.insert c)))).sch)
  | setAlias u a sb => exact (by rw [key]; exact (aliasesDistinct_toG _).2 h :
      AliasesDistinct (step fragA fragE (toGR st) (.schema (SchemaGen.opG (.setAlias u a sb)))).sch)
  | substitute m => exact (by rw [key]; exact (aliasesDistinct_toG _).2 h :
      AliasesDistinct (step fragA fragE (toGR st) (.schema (SchemaGen.opG (.substitute m)))).sch)
  | updateState => trivial
  | erase u => trivial
  | setDef u d => trivial

theorem admissibleAllFrom_opsG {st : RSModel.St} {op : RSModel.Op} (h : RSModel.Admissible st op) :
    AdmissibleAllFrom fragA fragE (toGR st) (opsG st op) := by
  cases op with
  | schema sop => exact ⟨admissibleAll_schema h, trivial⟩
  | addElem u =>
    simp only [opsG]
    split
    · trivial
    · exact ⟨trivial, trivial⟩
  | setText u keys =>
    simp only [opsG]
    split
    · trivial
    · split
      · trivial
      · exact ⟨trivial, trivial⟩
  | resetData u =>
    simp only [opsG]
    split
    · trivial
    · exact ⟨trivial, trivial⟩
  | calculate u => exact ⟨trivial, trivial⟩
  | recalculateAll => exact ⟨trivial, trivial⟩

theorem admissibleAllFrom_toGR_from (ops : List RSModel.Op) : ∀ st : RSModel.St,
    RSModel.AdmissibleFrom st ops → AdmissibleAllFrom fragA fragE (toGR st) (opsAllFrom st ops) := by
  induction ops with
  | nil => intro _ _; trivial
  | cons op ops ih =>
    intro st h
    rw [opsAllFrom]
    refine admissibleAllFrom_append _ _ _ (admissibleAllFrom_opsG h.1) ?_
    rw [← toGR_step]
    exact ih _ h.2

theorem admissibleAllFrom_toGR {ops : List RSModel.Op} (h : RSModel.AdmissibleFrom {} ops) :
    AdmissibleAllFrom fragA fragE {} (opsAll ops) :=
  admissibleAllFrom_toGR_from ops {} h

/-! ## the property -/

theorem toGR_recomputed (st : RSModel.St) : toGR st.recomputed = (toGR st).recomputed fragA fragE := by
  unfold St.recomputed RSModel.St.recomputed
  rw [toGR_recalculateAll, toGR_withSch, toG_scratch]
  rfl

theorem report_toGR (st : RSModel.St) : (toGR st).report = st.report := by
  unfold St.report RSModel.St.report
  rw [toGR_sch, toG_store, List.map_map]
  rfl

/-- `fresh` is the Bool version of `Fresh` -/
theorem fresh_toGR (st : RSModel.St) (h : (toGR st).Fresh fragA fragE) : st.fresh = true := by
  unfold RSModel.St.fresh
  apply List.all_eq_true.2
  intro c hc
  by_cases hcond : (c.kind == Schema.Kind.term && st.calcd.contains c.uid) = true
  · simp only [hcond, ↓reduceIte]
    cases hv : st.dataFor c.uid with
    | none => rfl
    | some v =>
      simp only
      obtain ⟨hk, hcal⟩ := Bool.and_eq_true_iff.1 hcond
      have hk' : c.kind = Schema.Kind.term := by simpa using hk
      have := h (cG c) (List.mem_map.2 ⟨c, hc, rfl⟩) hk' hcal v hv
      rw [← toGR_recomputed, dataFor_toGR] at this
      rw [show c.uid = (cG c).uid from rfl, this]
      exact beq_self_eq_true _
  · simp only [hcond, Bool.false_eq_true, ↓reduceIte]

/-- the old C11 theorem re-proved THROUGH the generic one -/
theorem fresh_via_generic (ops : List RSModel.Op) (ha : RSModel.AdmissibleFrom {} ops) :
    (RSModel.run false ops).fresh = true := by
  have hinv : Inv fragA fragE (run fragA fragE (opsAll ops)) :=
    Inv.runAll fragA_lawful fragE_lawful fragEquivariant (admissibleAllFrom_toGR ha)
  have hf := Inv.fresh fragA_lawful fragE_lawful hinv
  rw [← toGR_run] at hf
  exact fresh_toGR _ hf

/-- non-vacuity: a concrete admissible history with schema edits, data edits and calculations -/
example : RSModel.AdmissibleFrom {}
    [.schema (.insert ⟨1, "X1", .base, .empty⟩),
     .schema (.insert ⟨2, "D1", .term, .union ["X1"]⟩),
     .addElem 1, .calculate 2, .setText 1 [3, 5], .resetData 1,
     .schema (.setAlias 1 "X2" true),
     .schema (.erase 2), .recalculateAll] := by decide

example : AdmissibleAllFrom fragA fragE {}
    (opsAll
      [.schema (.insert ⟨1, "X1", .base, .empty⟩),
       .schema (.insert ⟨2, "D1", .term, .union ["X1"]⟩),
       .addElem 1, .calculate 2, .setText 1 [3, 5], .resetData 1,
       .schema (.setAlias 1 "X2" true),
       .schema (.erase 2), .recalculateAll]) := by decide

end CCVerif.RSModelGen
