import CCVerif.Lemmas.NameBij
/-!
Renaming INSIDE base names (C08, checker instance): `MangleRadicals` builds the base names `R1F1`
(radical followed by the name of the called function), so renaming a function `F1 ↦ F2` must map the
base name `R1F1` to `R1F2`. A string is cut before every upper-case letter into BLOCKS
(`R1F1` = `R1`·`F1`); `mapBlocks g` applies `g` to every block. For `g` the transposition of two
NAMES (an upper-case letter followed by at least one symbol, none of them an upper-case letter) this
is an involution of all strings that
* is `g` on every single-block string (names, `Z`, `R0`, pure radicals `R1`),
* satisfies `mapBlocks g (s ++ fn) = mapBlocks g s ++ g fn` for every name `fn` (`mapBlocks_append`),
* keeps the first two symbols' radical test (`isRad2`, the test of `IsRadical`) when neither name is a
  radical.
-/
namespace CCVerif.Blocks
open CCVerif

def up (c : Char) : Bool := c.isUpper

def startsUp : List Char → Bool
  | c :: _ => up c
  | [] => false

/-- cut before every upper-case letter -/
def blocks : List Char → List (List Char)
  | [] => []
  | c :: cs =>
    match blocks cs with
    | [] => [[c]]
    | b :: bs => if startsUp b then [c] :: b :: bs else (c :: b) :: bs

theorem blocks_cons (c : Char) (cs : List Char) :
    blocks (c :: cs) = match blocks cs with
      | [] => [[c]]
      | b :: bs => if startsUp b then [c] :: b :: bs else (c :: b) :: bs := by
  rw [blocks]

def noUp (l : List Char) : Bool := l.all fun c => !up c

/-- a block: non-empty, no upper-case letter after the first symbol -/
def isBlock : List Char → Bool
  | [] => false
  | _ :: t => noUp t

/-- a name: an upper-case letter, then at least one symbol, none of them upper-case -/
def isNameL : List Char → Bool
  | u :: d :: t => up u && !up d && noUp t
  | _ => false

def isName (s : String) : Bool := isNameL s.toList

theorem isNameL_block {l : List Char} (h : isNameL l = true) : isBlock l = true := by
  match l, h with
  | u :: d :: t, h =>
    simp only [isNameL, Bool.and_eq_true] at h
    simp only [isBlock, noUp, List.all_cons, Bool.and_eq_true]
    exact ⟨h.1.2, h.2⟩

theorem isNameL_startsUp {l : List Char} (h : isNameL l = true) : startsUp l = true := by
  match l, h with
  | u :: d :: t, h =>
    simp only [isNameL, Bool.and_eq_true] at h
    exact h.1.1

/-- the shape of a block list: the first a block, the others names-like (start with an upper-case
letter, no other upper-case letter) -/
def upBlock (l : List Char) : Bool := startsUp l && isBlock l

def Shaped : List (List Char) → Prop
  | [] => True
  | b :: rest => isBlock b = true ∧ ∀ x ∈ rest, upBlock x = true

theorem flatten_blocks : ∀ l : List Char, (blocks l).flatten = l
  | [] => rfl
  | c :: cs => by
    have ih := flatten_blocks cs
    unfold blocks
    cases hb : blocks cs with
    | nil => rw [hb] at ih; simp only [List.flatten_nil] at ih; simp [← ih]
    | cons b bs =>
      rw [hb] at ih
      simp only
      split
      · simp only [List.flatten_cons, List.singleton_append] at ih ⊢; rw [ih]
      · simp only [List.flatten_cons, List.cons_append] at ih ⊢; rw [ih]

theorem blocks_shaped : ∀ l : List Char, Shaped (blocks l)
  | [] => trivial
  | c :: cs => by
    have ih := blocks_shaped cs
    unfold blocks
    cases hb : blocks cs with
    | nil => exact ⟨rfl, fun x hx => by cases hx⟩
    | cons b bs =>
      rw [hb] at ih
      simp only
      obtain ⟨h1, h2⟩ := ih
      split
      · rename_i hs
        refine ⟨rfl, fun x hx => ?_⟩
        rcases List.mem_cons.1 hx with e | hx
        · rw [e]; unfold upBlock; rw [hs, h1]; rfl
        · exact h2 x hx
      · rename_i hs
        refine ⟨?_, h2⟩
        -- `b` does not start with an upper-case letter and is a block: no upper-case letter at all
        cases b with
        | nil => cases h1
        | cons d t =>
          simp only [startsUp, Bool.not_eq_true] at hs
          simp only [isBlock, noUp, List.all_cons, Bool.and_eq_true, Bool.not_eq_true'] at h1 ⊢
          exact ⟨hs, h1⟩

/-- symbols without an upper-case letter in front of a text that is empty or starts with one -/
theorem blocks_noUp_append : ∀ (t l : List Char), noUp t = true → (∀ b bs, blocks l = b :: bs → startsUp b = true) →
    blocks (t ++ l) = if t = [] then blocks l else t :: blocks l
  | [], l, _, _ => rfl
  | d :: t', l, ht, hl => by
    simp only [noUp, List.all_cons, Bool.and_eq_true, Bool.not_eq_true'] at ht
    have ih := blocks_noUp_append t' l ht.2 hl
    simp only [List.cons_append, reduceCtorEq, if_false]
    rw [blocks_cons, ih]
    by_cases ht' : t' = []
    · subst ht'
      simp only [if_true]
      cases hb : blocks l with
      | nil => rfl
      | cons b bs => simp only; rw [hl b bs hb]; rfl
    · rw [if_neg ht']
      simp only
      have : startsUp t' = false := by
        cases t' with
        | nil => exact absurd rfl ht'
        | cons e _ =>
          simp only [List.all_cons, Bool.and_eq_true, Bool.not_eq_true'] at ht
          exact ht.2.1
      rw [this]
      rfl

theorem blocks_block_append (b l : List Char) (hb : isBlock b = true)
    (hl : ∀ x xs, blocks l = x :: xs → startsUp x = true) : blocks (b ++ l) = b :: blocks l := by
  cases b with
  | nil => cases hb
  | cons c t =>
    have ht : noUp t = true := hb
    have h := blocks_noUp_append t l ht hl
    simp only [List.cons_append]
    rw [blocks_cons, h]
    by_cases ht' : t = []
    · subst ht'
      simp only [if_true]
      cases hbl : blocks l with
      | nil => rfl
      | cons x xs => simp only; rw [hl x xs hbl]; rfl
    · rw [if_neg ht']
      simp only
      have : startsUp t = false := by
        cases t with
        | nil => exact absurd rfl ht'
        | cons e _ =>
          simp only [noUp, List.all_cons, Bool.and_eq_true, Bool.not_eq_true'] at ht
          exact ht.1
      rw [this]
      rfl

/-- a shaped block list is the block list of its concatenation -/
theorem blocks_flatten : ∀ L : List (List Char), Shaped L → blocks L.flatten = L
  | [], _ => rfl
  | b :: rest, h => by
    obtain ⟨h1, h2⟩ := h
    -- the rest, on its own, is shaped and every block of it starts with an upper-case letter
    have hrest : ∀ (R : List (List Char)), (∀ x ∈ R, upBlock x = true) →
        blocks R.flatten = R ∧ ∀ x xs, blocks R.flatten = x :: xs → startsUp x = true := by
      intro R
      induction R with
      | nil => intro _; exact ⟨rfl, fun x xs h => by cases h⟩
      | cons r R ih =>
        intro hR
        have hr := hR r (List.mem_cons_self ..)
        unfold upBlock at hr
        simp only [Bool.and_eq_true] at hr
        obtain ⟨e1, e2⟩ := ih (fun x hx => hR x (List.mem_cons_of_mem _ hx))
        have : blocks (r :: R).flatten = r :: R := by
          rw [List.flatten_cons, blocks_block_append r _ hr.2 e2, e1]
        refine ⟨this, fun x xs hx => ?_⟩
        rw [this] at hx
        cases hx
        exact hr.1
    obtain ⟨e1, e2⟩ := hrest rest h2
    rw [List.flatten_cons, blocks_block_append b _ h1 e2, e1]

theorem blocks_single {l : List Char} (h : isBlock l = true) : blocks l = [l] := by
  have := blocks_flatten [l] ⟨h, fun x hx => by cases hx⟩
  simpa using this

theorem blocks_append_name (l : List Char) {n : List Char} (hn : isNameL n = true) :
    blocks (l ++ n) = blocks l ++ [n] := by
  have hs := blocks_shaped l
  have hfl := flatten_blocks l
  have hnu : upBlock n = true := by unfold upBlock; rw [isNameL_startsUp hn, isNameL_block hn]; rfl
  have : Shaped (blocks l ++ [n]) := by
    cases hb : blocks l with
    | nil => exact ⟨isNameL_block hn, fun x hx => by cases hx⟩
    | cons b bs =>
      rw [hb] at hs
      refine ⟨hs.1, fun x hx => ?_⟩
      rcases List.mem_append.1 hx with hx | hx
      · exact hs.2 x hx
      · simp only [List.mem_singleton] at hx; rw [hx]; exact hnu
  have h2 := blocks_flatten _ this
  rw [List.flatten_append, hfl] at h2
  simpa using h2

/-! ## applying a function to every block -/

def gL (g : String → String) (b : List Char) : List Char := (g (String.ofList b)).toList

/-- apply `g` to every block of the string -/
def mapBlocks (g : String → String) (s : String) : String :=
  String.ofList ((blocks s.toList).map (gL g)).flatten

theorem mapBlocks_toList (g : String → String) (s : String) :
    (mapBlocks g s).toList = ((blocks s.toList).map (gL g)).flatten := String.toList_ofList

section general
variable {f g : String → String}

theorem gL_inv (hgf : ∀ s, g (f s) = s) (b : List Char) : gL g (gL f b) = b := by
  unfold gL
  rw [String.ofList_toList, hgf, String.toList_ofList]

theorem shaped_map (hblock : ∀ l, isBlock l = true → isBlock (gL f l) = true)
    (hup : ∀ l, upBlock l = true → upBlock (gL f l) = true) :
    ∀ {L : List (List Char)}, Shaped L → Shaped (L.map (gL f))
  | [], _ => trivial
  | b :: rest, h => by
    refine ⟨hblock b h.1, fun x hx => ?_⟩
    obtain ⟨y, hy, rfl⟩ := List.mem_map.1 hx
    exact hup y (h.2 y hy)

theorem blocks_mapBlocks (hblock : ∀ l, isBlock l = true → isBlock (gL f l) = true)
    (hup : ∀ l, upBlock l = true → upBlock (gL f l) = true) (s : String) :
    blocks (mapBlocks f s).toList = (blocks s.toList).map (gL f) := by
  rw [mapBlocks_toList]
  exact blocks_flatten _ (shaped_map hblock hup (blocks_shaped _))

/-- `mapBlocks g` undoes `mapBlocks f` when `g` undoes `f` and `f` keeps the block structure -/
theorem mapBlocks_inv (hgf : ∀ s, g (f s) = s) (hblock : ∀ l, isBlock l = true → isBlock (gL f l) = true)
    (hup : ∀ l, upBlock l = true → upBlock (gL f l) = true) (s : String) :
    mapBlocks g (mapBlocks f s) = s := by
  apply String.toList_inj.mp
  rw [mapBlocks_toList, blocks_mapBlocks hblock hup, List.map_map]
  have : (gL g ∘ gL f) = id := by
    funext b; exact gL_inv hgf b
  rw [this, List.map_id, flatten_blocks]

/-- on a single-block string (a name, `Z`, `R0`, a pure radical) it is the function itself -/
theorem mapBlocks_single (g : String → String) {s : String} (h : isBlock s.toList = true) :
    mapBlocks g s = g s := by
  apply String.toList_inj.mp
  rw [mapBlocks_toList, blocks_single h]
  simp only [List.map_cons, List.map_nil, List.flatten_cons, List.flatten_nil, List.append_nil]
  unfold gL
  rw [String.ofList_toList]

/-- the law of `MangleRadicals`: appending a name -/
theorem mapBlocks_append (g : String → String) (s : String) {fn : String} (h : isName fn = true) :
    mapBlocks g (s ++ fn) = mapBlocks g s ++ g fn := by
  apply String.toList_inj.mp
  rw [mapBlocks_toList, String.toList_append, blocks_append_name _ h, List.map_append, List.flatten_append,
    String.toList_append, mapBlocks_toList]
  simp only [List.map_cons, List.map_nil, List.flatten_cons, List.flatten_nil, List.append_nil]
  unfold gL
  rw [String.ofList_toList]

end general

section swap
variable {old new : String}

theorem gL_swap (b : List Char) : gL (swapName old new) b =
    if b = old.toList then new.toList else if b = new.toList then old.toList else b := by
  unfold gL swapName
  have e1 : (String.ofList b = old) ↔ b = old.toList := by
    constructor
    · intro h; rw [← h, String.toList_ofList]
    · intro h; rw [h, String.ofList_toList]
  have e2 : (String.ofList b = new) ↔ b = new.toList := by
    constructor
    · intro h; rw [← h, String.toList_ofList]
    · intro h; rw [h, String.ofList_toList]
  by_cases h1 : b = old.toList
  · rw [if_pos (e1.2 h1), if_pos h1]
  · rw [if_neg (fun h => h1 (e1.1 h)), if_neg h1]
    by_cases h2 : b = new.toList
    · rw [if_pos (e2.2 h2), if_pos h2]
    · rw [if_neg (fun h => h2 (e2.1 h)), if_neg h2, String.toList_ofList]

variable (ho : isName old = true) (hn : isName new = true)
include ho hn

theorem gL_swap_isBlock {b : List Char} (h : isBlock b = true) : isBlock (gL (swapName old new) b) = true := by
  rw [gL_swap]
  split
  · exact isNameL_block hn
  · split
    · exact isNameL_block ho
    · exact h

theorem gL_swap_upBlock {b : List Char} (h : upBlock b = true) : upBlock (gL (swapName old new) b) = true := by
  rw [gL_swap]
  split
  · unfold upBlock; rw [isNameL_startsUp hn, isNameL_block hn]; rfl
  · split
    · unfold upBlock; rw [isNameL_startsUp ho, isNameL_block ho]; rfl
    · exact h

theorem gL_swap_isNameL {b : List Char} (h : isNameL b = true) : isNameL (gL (swapName old new) b) = true := by
  rw [gL_swap]
  split
  · exact hn
  · split
    · exact ho
    · exact h

end swap

end CCVerif.Blocks
