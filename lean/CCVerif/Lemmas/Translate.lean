import CCVerif.Model.Translate
import CCVerif.Model.TranslateSpec
import CCVerif.Lemmas.Strings
/-!
Lemmas for C08, text level: UTF-8 round trip of the strict decoder, the layout of the MATH token
stream (`LaidOn`: tokens sit left to right in the text, each one is the longest match at its
offset), longest-match facts about `bestRule`, and the invariant of the `TranslateRS` loop.
-/
namespace CCVerif.Translate
open CCVerif.Syntax CCVerif.Generated CCVerif.Lexer CCVerif.Strings CCVerif.Translate.Spec

/-! ## UTF-8 -/

theorem decode_cons_encodeCp (c : Nat) (hs : scalar c) (rest : Bytes) :
    decode (encodeCp c ++ rest) = (decode rest).map (c :: ·) := by
  obtain ⟨h1, h2⟩ := hs
  unfold encodeCp
  by_cases a1 : c < 0x80
  · rw [if_pos a1]
    simp only [List.cons_append, List.nil_append]
    rw [decode.eq_def]
    simp only [a1, if_true]
  · rw [if_neg a1]
    by_cases a2 : c < 0x800
    · rw [if_pos a2]
      simp only [List.cons_append, List.nil_append]
      rw [decode]
      have e1 : ¬ (192 + c / 64 < 128) := by omega
      have e2 : 194 ≤ 192 + c / 64 ∧ 192 + c / 64 < 224 := by omega
      have e3 : 128 ≤ 128 + c % 64 ∧ 128 + c % 64 < 192 := by omega
      have e4 : (192 + c / 64 - 192) * 64 + (128 + c % 64 - 128) = c := by omega
      simp only [e1, e2, e3, e4, if_false, if_true, and_self]
    · rw [if_neg a2]
      by_cases a3 : c < 0x10000
      · rw [if_pos a3]
        simp only [List.cons_append, List.nil_append]
        rw [decode]
        have e1 : ¬ (224 + c / 4096 < 128) := by omega
        have e2 : ¬ (194 ≤ 224 + c / 4096 ∧ 224 + c / 4096 < 224) := by omega
        have e3 : 224 ≤ 224 + c / 4096 ∧ 224 + c / 4096 < 240 := by omega
        have e4 : 128 ≤ 128 + c / 64 % 64 ∧ 128 + c / 64 % 64 < 192 ∧ 128 ≤ 128 + c % 64 ∧ 128 + c % 64 < 192 := by omega
        have e5 : (224 + c / 4096 - 224) * 4096 + (128 + c / 64 % 64 - 128) * 64 + (128 + c % 64 - 128) = c := by omega
        simp only [e1, e2, e3, e4, e5, if_false, if_true, and_self]
        have e6 : ¬ (c < 2048 ∨ 55296 ≤ c ∧ c < 57344) := by omega
        simp only [e6, if_false]
      · rw [if_neg a3]
        simp only [List.cons_append, List.nil_append]
        rw [decode]
        have e1 : ¬ (240 + c / 262144 < 128) := by omega
        have e2 : ¬ (194 ≤ 240 + c / 262144 ∧ 240 + c / 262144 < 224) := by omega
        have e3 : ¬ (224 ≤ 240 + c / 262144 ∧ 240 + c / 262144 < 240) := by omega
        have e3' : 240 ≤ 240 + c / 262144 ∧ 240 + c / 262144 < 245 := by omega
        have e4 : 128 ≤ 128 + c / 4096 % 64 ∧ 128 + c / 4096 % 64 < 192 ∧ 128 ≤ 128 + c / 64 % 64 ∧
            128 + c / 64 % 64 < 192 ∧ 128 ≤ 128 + c % 64 ∧ 128 + c % 64 < 192 := by omega
        have e5 : (240 + c / 262144 - 240) * 262144 + (128 + c / 4096 % 64 - 128) * 4096 +
            (128 + c / 64 % 64 - 128) * 64 + (128 + c % 64 - 128) = c := by omega
        simp only [e1, e2, e3, e3', e4, e5, if_false, if_true, and_self]
        have e6 : ¬ (c < 65536 ∨ c ≥ 1114112) := by omega
        simp only [e6, if_false]

/-- the strict decoder inverts `encode` on scalar values -/
theorem decode_encode (cps : List Nat) (h : ∀ c ∈ cps, scalar c) : decode (encode cps) = some cps := by
  induction cps with
  | nil => simp [encode, decode]
  | cons c r ih =>
    rw [encode_cons, decode_cons_encodeCp c (h c (by simp)), ih (fun x hx => h x (List.mem_cons_of_mem _ hx))]
    rfl

/-! ## list facts -/

theorem drop_split (cps : List Nat) {cur lo : Nat} (h : cur ≤ lo) (k : Nat) :
    cps.drop cur = slice cps cur lo ++ ((cps.drop lo).take k ++ cps.drop (lo + k)) := by
  unfold slice
  have e1 : cps.drop lo = (cps.drop cur).drop (lo - cur) := by
    rw [List.drop_drop]; congr 1; omega
  have e2 : cps.drop (lo + k) = (cps.drop lo).drop k := by
    rw [List.drop_drop]
  rw [e2, List.take_append_drop, e1, List.take_append_drop]

theorem take_split (cps : List Nat) {cur lo : Nat} (h : cur ≤ lo) (k : Nat) :
    cps.take (lo + k) = cps.take cur ++ (slice cps cur lo ++ (cps.drop lo).take k) := by
  unfold slice
  have e : cps.take lo = cps.take cur ++ (cps.drop cur).take (lo - cur) := by
    have : lo = cur + (lo - cur) := by omega
    conv => lhs; rw [this]
    rw [List.take_add]
  rw [List.take_add, e, List.append_assoc]


/-! ## the layout of the token stream -/

/-- tokens laid out left to right from code point `cur` on: each token starts at or after `cur`,
its text is found at its offset, and (unless it is the empty end marker) it is the longest match,
first rule on ties, of the rule table at that offset -/
def LaidOn (cps : List Nat) : Nat → List RawTok → Prop
  | _, [] => True
  | cur, t :: ts =>
    cur ≤ t.lo ∧ (cps.drop t.lo).take t.text.length = t.text ∧
    ((t.text = [] ∧ eofTok mathRules = some t.id) ∨
      ∃ n, bestRule .math (cps.drop t.lo) mathRules none = some (n, .tok t.id) ∧ t.text = (cps.drop t.lo).take n) ∧
    LaidOn cps (t.lo + t.text.length) ts

theorem LaidOn.mono {cps : List Nat} {cur cur' : Nat} (h : cur' ≤ cur) :
    ∀ {ts : List RawTok}, LaidOn cps cur ts → LaidOn cps cur' ts
  | [], _ => trivial
  | _ :: _, ⟨h1, h2⟩ => ⟨Nat.le_trans h h1, h2⟩

theorem LaidOn.untilEnd {cps : List Nat} : ∀ {cur : Nat} {ts : List RawTok}, LaidOn cps cur ts → LaidOn cps cur (untilEnd ts)
  | _, [], _ => trivial
  | cur, t :: ts, h => by
    unfold Translate.untilEnd
    split
    · trivial
    · exact ⟨h.1, h.2.1, h.2.2.1, LaidOn.untilEnd h.2.2.2⟩

/-- whatever `bestRule` returns was either the incoming candidate or the match of one of the rules -/
theorem bestRule_origin (syn : Syn) (s : List Nat) : ∀ (rules : List LexRule) (best : Option (Nat × LexAct)) (n : Nat) (act : LexAct),
    bestRule syn s rules best = some (n, act) →
    best = some (n, act) ∨ ∃ r ∈ rules, r.act = act ∧ matchPat syn s r.pat = some n := by
  intro rules
  induction rules with
  | nil => intro best n act h; left; simpa [bestRule] using h
  | cons r rs ih =>
    intro best n act h
    simp only [bestRule] at h
    cases hm : matchPat syn s r.pat with
    | none =>
      rw [hm] at h
      rcases ih best n act (by simpa using h) with h' | ⟨r', hr', ha, hp⟩
      · exact Or.inl h'
      · exact Or.inr ⟨r', List.mem_cons_of_mem _ hr', ha, hp⟩
    | some k =>
      rw [hm] at h
      cases best with
      | none =>
        rcases ih _ n act (by simpa using h) with h' | ⟨r', hr', ha, hp⟩
        · simp at h'; exact Or.inr ⟨r, by simp, h'.2, by rw [hm, h'.1]⟩
        · exact Or.inr ⟨r', List.mem_cons_of_mem _ hr', ha, hp⟩
      | some b =>
        obtain ⟨m, a⟩ := b
        simp only at h
        split at h
        · rcases ih _ n act h with h' | ⟨r', hr', ha, hp⟩
          · simp at h'; exact Or.inr ⟨r, by simp, h'.2, by rw [hm, h'.1]⟩
          · exact Or.inr ⟨r', List.mem_cons_of_mem _ hr', ha, hp⟩
        · rcases ih _ n act h with h' | ⟨r', hr', ha, hp⟩
          · exact Or.inl h'
          · exact Or.inr ⟨r', List.mem_cons_of_mem _ hr', ha, hp⟩

/-- longest match: the result of `bestRule` is at least as long as the incoming candidate and as
the match of every rule -/
theorem bestRule_ge (syn : Syn) (s : List Nat) : ∀ (rules : List LexRule) (best : Option (Nat × LexAct)) (n : Nat) (act : LexAct),
    bestRule syn s rules best = some (n, act) →
    (∀ m a, best = some (m, a) → m ≤ n) ∧ (∀ r ∈ rules, ∀ m, matchPat syn s r.pat = some m → m ≤ n) := by
  intro rules
  induction rules with
  | nil =>
    intro best n act h
    simp only [bestRule] at h
    refine ⟨fun m a hb => ?_, fun r hr => absurd hr List.not_mem_nil⟩
    rw [hb] at h; simp at h; omega
  | cons r rs ih =>
    intro best n act h
    simp only [bestRule] at h
    cases hm : matchPat syn s r.pat with
    | none =>
      rw [hm] at h
      obtain ⟨i1, i2⟩ := ih best n act (by simpa using h)
      refine ⟨i1, fun r' hr' m hm' => ?_⟩
      rcases List.mem_cons.1 hr' with rfl | hr'
      · rw [hm] at hm'; cases hm'
      · exact i2 r' hr' m hm'
    | some k =>
      rw [hm] at h
      cases best with
      | none =>
        obtain ⟨i1, i2⟩ := ih _ n act (by simpa using h)
        refine ⟨fun m a hb => (by cases hb), fun r' hr' m hm' => ?_⟩
        rcases List.mem_cons.1 hr' with rfl | hr'
        · rw [hm] at hm'; cases hm'; exact i1 _ _ rfl
        · exact i2 r' hr' m hm'
      | some b =>
        obtain ⟨m0, a0⟩ := b
        simp only at h
        split at h
        · next hlt =>
          obtain ⟨i1, i2⟩ := ih _ n act h
          have hk : k ≤ n := i1 _ _ rfl
          refine ⟨fun m a hb => (by cases hb; omega), fun r' hr' m hm' => ?_⟩
          rcases List.mem_cons.1 hr' with rfl | hr'
          · rw [hm] at hm'; cases hm'; exact hk
          · exact i2 r' hr' m hm'
        · next hge =>
          obtain ⟨i1, i2⟩ := ih _ n act h
          have hk : m0 ≤ n := i1 _ _ rfl
          refine ⟨fun m a hb => (by cases hb; exact hk), fun r' hr' m hm' => ?_⟩
          rcases List.mem_cons.1 hr' with rfl | hr'
          · rw [hm] at hm'; cases hm'; omega
          · exact i2 r' hr' m hm'

/-- in the generated MATH table the line-base action belongs to the `\n` pattern only -/
theorem math_newline_rules : ∀ r ∈ mathRules, r.act = .newline → r.pat = .newline := by
  decide +kernel

private theorem take_take_length (s : List Nat) (n : Nat) : s.take (s.take n).length = s.take n := by
  simp [List.length_take, List.take_eq_take_iff]

/-- layout invariant of the scanning loop -/
theorem lexGo_laid (cps : List Nat) :
    ∀ (fuel : Nat) (s : List Nat) (lb col : Nat) (ts : List RawTok),
      lexGo .math mathRules fuel s lb col = some ts → cps.drop (lb + col) = s → LaidOn cps (lb + col) ts := by
  intro fuel
  induction fuel with
  | zero => intro s lb col ts h; simp [lexGo] at h
  | succ fuel ih =>
    intro s lb col ts h hs
    cases s with
    | nil =>
      simp only [lexGo] at h
      cases he : eofTok mathRules with
      | none => rw [he] at h; cases h
      | some t =>
        rw [he] at h; simp at h; subst h
        exact ⟨Nat.le_refl _, by simp, Or.inl ⟨rfl, he⟩, trivial⟩
    | cons c r =>
      simp only [lexGo] at h
      cases hb : bestRule .math (c :: r) mathRules none with
      | none => rw [hb] at h; cases h
      | some na =>
        obtain ⟨n, act⟩ := na
        rw [hb] at h
        cases n with
        | zero => simp at h
        | succ n =>
          simp only at h
          have hnext : cps.drop (lb + (col + (n + 1))) = (c :: r).drop (n + 1) := by
            rw [← hs, List.drop_drop]; congr 1; omega
          cases act with
          | tok t =>
            simp only at h
            cases hr : lexGo .math mathRules fuel ((c :: r).drop (n + 1)) lb (col + (n + 1)) with
            | none => rw [hr] at h; cases h
            | some rest =>
              rw [hr] at h; simp at h; subst h
              have ihr := ih _ _ _ _ hr hnext
              refine ⟨Nat.le_refl _, ?_, Or.inr ⟨n + 1, ?_, ?_⟩, ?_⟩
              · show (cps.drop (lb + col)).take ((c :: r).take (n + 1)).length = (c :: r).take (n + 1)
                rw [hs]; exact take_take_length _ _
              · show bestRule .math (cps.drop (lb + col)) mathRules none = _
                rw [hs]; exact hb
              · show (c :: r).take (n + 1) = (cps.drop (lb + col)).take (n + 1)
                rw [hs]
              · refine LaidOn.mono ?_ ihr
                show lb + col + ((c :: r).take (n + 1)).length ≤ lb + (col + (n + 1))
                have : ((c :: r).take (n + 1)).length ≤ n + 1 := by simp [List.length_take]; omega
                omega
          | skip =>
            exact LaidOn.mono (by omega) (ih _ _ _ _ h hnext)
          | newline =>
            have hn1 : n + 1 = 1 := by
              rcases bestRule_origin .math (c :: r) mathRules none (n + 1) .newline hb with h' | ⟨r', hr', ha, hp⟩
              · cases h'
              · have := math_newline_rules r' hr' ha
                rw [this] at hp
                simp only [matchPat] at hp
                split at hp <;> simp at hp
                omega
            have hnext' : cps.drop (lb + (col + 1) + 0) = (c :: r).drop (n + 1) := by
              rw [← hnext]; congr 1; omega
            exact LaidOn.mono (by omega) (ih _ _ _ _ h hnext')

theorem lexRaw_laid {cps : List Nat} {ts : List RawTok} (h : lexRaw .math cps = some ts) : LaidOn cps 0 ts := by
  have := lexGo_laid cps _ _ 0 0 ts h (by simp)
  simpa using this

theorem lexMath_laid {cps : List Nat} {toks : List RawTok} (h : lexMath cps = some toks) : LaidOn cps 0 toks := by
  unfold lexMath at h
  cases hr : lexRaw .math cps with
  | none => rw [hr] at h; cases h
  | some ts =>
    rw [hr] at h
    simp at h
    subst h
    exact (lexRaw_laid hr).untilEnd

/-! ## the loop of `TranslateRS` -/

theorem byteOffset_eq (cps : List Nat) (i : Nat) : byteOffset cps i = (encode (cps.take i)).length := rfl

theorem changed_cons (f : Tok → Bool) (tr : Translator) (t : RawTok) (ts : List RawTok) :
    changed f tr (t :: ts) = (if isChanged f tr t then 1 else 0) + changed f tr ts := by
  unfold changed
  rw [List.filter_cons]
  split <;> simp <;> omega

theorem splice_mid (A T R new : Bytes) :
    (A ++ (T ++ R)).take A.length ++ new ++ (A ++ (T ++ R)).drop (A.length + T.length) = A ++ new ++ R := by
  have h1 : (A ++ (T ++ R)).take A.length = A := by simp
  have h2 : (A ++ (T ++ R)).drop (A.length + T.length) = R := by
    rw [← List.append_assoc, ← List.length_append]; simp
  rw [h1, h2]

theorem translateGo_cons (f : Tok → Bool) (tr : Translator) (id : Tok) (start : Nat) (text : Bytes)
    (ts : List BTok) (str : Bytes) (offset : Int) (count : Nat) :
    translateGo f tr (⟨id, start, text⟩ :: ts) str offset count =
      if f id then
        match tr text with
        | some newName =>
          if newName ≠ text then
            match replaceAt str ((start : Int) + offset) text.length newName with
            | none => none
            | some str' => translateGo f tr ts str' (offset + ((newName.length : Int) - (text.length : Int))) (count + 1)
          else translateGo f tr ts str offset count
        | none => translateGo f tr ts str offset count
      else translateGo f tr ts str offset count := by
  rw [translateGo]; rfl

/-- invariant of the loop: when the tokens before code point `cur` have been processed, the string
is `W ++ (rest of the original text from cur)` and `offset = |W| − (bytes of the original before cur)` -/
theorem go_spec (f : Tok → Bool) (tr : Translator) (cps : List Nat) :
    ∀ (ts : List RawTok) (cur : Nat) (W : Bytes) (count : Nat), LaidOn cps cur ts →
      translateGo f tr (ts.map (toBTok cps)) (W ++ encode (cps.drop cur))
          ((W.length : Int) - ((encode (cps.take cur)).length : Int)) count
        = some (W ++ weaveToks f tr cps cur ts, count + changed f tr ts) := by
  intro ts
  induction ts with
  | nil =>
    intro cur W count _
    simp [translateGo, weaveToks, changed]
  | cons t ts ih =>
    intro cur W count hl
    obtain ⟨h1, h2, _, h4⟩ := hl
    -- the pieces of the text around the token
    have hdrop : encode (cps.drop cur) =
        encode (slice cps cur t.lo) ++ (encode t.text ++ encode (cps.drop (t.lo + t.text.length))) := by
      rw [drop_split cps h1 t.text.length, h2, encode_append, encode_append]
    have htake : (encode (cps.take (t.lo + t.text.length))).length =
        (encode (cps.take cur)).length + (encode (slice cps cur t.lo)).length + (encode t.text).length := by
      rw [take_split cps h1 t.text.length, h2, encode_append, encode_append]
      simp only [List.length_append]; omega
    have hstart : (encode (cps.take t.lo)).length =
        (encode (cps.take cur)).length + (encode (slice cps cur t.lo)).length := by
      have := take_split cps h1 0
      simp only [Nat.add_zero, List.take_zero, List.append_nil] at this
      rw [this, encode_append, List.length_append]
    -- the unchanged continuation
    have hkeep : translateGo f tr (ts.map (toBTok cps)) (W ++ encode (cps.drop cur))
          ((W.length : Int) - ((encode (cps.take cur)).length : Int)) count
        = some (W ++ (encode (slice cps cur t.lo) ++ (encode t.text ++
            weaveToks f tr cps (t.lo + t.text.length) ts)), count + changed f tr ts) := by
      have := ih (t.lo + t.text.length) (W ++ (encode (slice cps cur t.lo) ++ encode t.text)) count h4
      rw [htake] at this
      simp only [List.length_append, List.append_assoc] at this
      rw [hdrop]
      have e : ((W.length + ((encode (slice cps cur t.lo)).length + (encode t.text).length) : Nat) : Int) -
          (((encode (cps.take cur)).length + (encode (slice cps cur t.lo)).length + (encode t.text).length : Nat) : Int)
          = (W.length : Int) - ((encode (cps.take cur)).length : Int) := by omega
      rw [e] at this
      exact this
    rw [List.map_cons, show toBTok cps t = ⟨t.id, byteOffset cps t.lo, encode t.text⟩ from rfl, translateGo_cons]
    rw [changed_cons]
    unfold weaveToks
    by_cases hf : f t.id = true
    · simp only [hf, if_true]
      cases htr : tr (encode t.text) with
      | none =>
        simp only
        have hc : isChanged f tr t = false := by unfold isChanged; rw [htr]; simp
        rw [hkeep, hc]
        simp [newText, hf, htr]
      | some n' =>
        simp only
        by_cases hne : n' = encode t.text
        · have hnn : ¬ (n' ≠ encode t.text) := fun h => h hne
          rw [if_neg hnn]
          have hc : isChanged f tr t = false := by unfold isChanged; rw [htr]; simp [hne]
          rw [hkeep, hc]
          simp [newText, hf, htr, hne]
        · rw [if_pos (show n' ≠ encode t.text from hne)]
          have hch : isChanged f tr t = true := by unfold isChanged; rw [htr]; simp [hne, hf]
          -- the replacement position
          have hpos : ((byteOffset cps t.lo : Nat) : Int) + ((W.length : Int) - ((encode (cps.take cur)).length : Int))
              = ((W.length + (encode (slice cps cur t.lo)).length : Nat) : Int) := by
            rw [byteOffset_eq, hstart]; omega
          rw [hpos]
          have hrep : replaceAt (W ++ encode (cps.drop cur))
              ((W.length + (encode (slice cps cur t.lo)).length : Nat) : Int) (encode t.text).length n'
              = some ((W ++ (encode (slice cps cur t.lo) ++ n')) ++ encode (cps.drop (t.lo + t.text.length))) := by
            unfold replaceAt
            rw [hdrop]
            have hlen : ¬ ((((W.length + (encode (slice cps cur t.lo)).length : Nat) : Int) < 0) ∨
                ((W ++ (encode (slice cps cur t.lo) ++ (encode t.text ++ encode (cps.drop (t.lo + t.text.length))))).length : Int)
                  < ((W.length + (encode (slice cps cur t.lo)).length : Nat) : Int)) := by
              simp only [List.length_append]; omega
            rw [if_neg hlen]
            simp only [Int.toNat_natCast]
            have e1 : W ++ (encode (slice cps cur t.lo) ++ (encode t.text ++ encode (cps.drop (t.lo + t.text.length))))
                = (W ++ encode (slice cps cur t.lo)) ++ (encode t.text ++ encode (cps.drop (t.lo + t.text.length))) := by
              simp [List.append_assoc]
            have e2 : W.length + (encode (slice cps cur t.lo)).length = (W ++ encode (slice cps cur t.lo)).length := by simp
            rw [e1, e2, splice_mid]
            simp [List.append_assoc]
          rw [hrep]
          simp only
          have := ih (t.lo + t.text.length) (W ++ (encode (slice cps cur t.lo) ++ n')) (count + 1) h4
          rw [htake] at this
          simp only [List.length_append] at this
          have e : ((W.length + ((encode (slice cps cur t.lo)).length + n'.length) : Nat) : Int) -
              (((encode (cps.take cur)).length + (encode (slice cps cur t.lo)).length + (encode t.text).length : Nat) : Int)
              = (W.length : Int) - ((encode (cps.take cur)).length : Int) + ((n'.length : Int) - ((encode t.text).length : Int)) := by
            omega
          rw [e] at this
          rw [this, hch]
          simp only [newText, hf, htr, if_true, Option.getD_some, List.append_assoc]
          congr 2
          omega
    · have hf' : f t.id = false := by simpa using hf
      simp only [hf', Bool.false_eq_true, if_false]
      have : isChanged f tr t = false := by simp [isChanged, hf']
      rw [hkeep, this]
      simp [newText, hf']

/-- the token-level weave with the identity translation is the text itself -/
theorem weave_id (f : Tok → Bool) (cps : List Nat) :
    ∀ (ts : List RawTok) (cur : Nat), LaidOn cps cur ts → weaveToks f (fun _ => none) cps cur ts = encode (cps.drop cur)
  | [], _, _ => rfl
  | t :: ts, cur, ⟨h1, h2, _, h4⟩ => by
    unfold weaveToks
    rw [weave_id f cps ts _ h4, drop_split cps h1 t.text.length, h2, encode_append, encode_append]
    simp [newText]

/-! ## longest match for identifiers (maximal munch) -/

theorem LaidOn.mem {cps : List Nat} : ∀ {cur : Nat} {ts : List RawTok}, LaidOn cps cur ts → ∀ t ∈ ts,
    (cps.drop t.lo).take t.text.length = t.text ∧
    ((t.text = [] ∧ eofTok mathRules = some t.id) ∨
      ∃ n, bestRule .math (cps.drop t.lo) mathRules none = some (n, .tok t.id) ∧ t.text = (cps.drop t.lo).take n)
  | _, [], _, _, h => by cases h
  | _, t :: ts, hl, x, h => by
    rcases List.mem_cons.1 h with rfl | h
    · exact ⟨hl.2.1, hl.2.2.1⟩
    · exact LaidOn.mem hl.2.2.2 x h

theorem spanLen_stop (p : Nat → Bool) : ∀ (s : List Nat) (c : Nat), (s.drop (spanLen p s)).head? = some c → p c = false
  | [], c, h => by simp [spanLen] at h
  | a :: r, c, h => by
    unfold spanLen at h
    by_cases ha : p a = true
    · rw [if_pos ha] at h
      exact spanLen_stop p r c (by simpa using h)
    · rw [if_neg ha] at h
      simp at h
      subst h
      simpa using ha

theorem spanLen_mono (p q : Nat → Bool) (hpq : ∀ c, p c = true → q c = true) : ∀ s : List Nat, spanLen p s ≤ spanLen q s
  | [] => by simp [spanLen]
  | a :: r => by
    unfold spanLen
    by_cases ha : p a = true
    · rw [if_pos ha, if_pos (hpq a ha)]
      have := spanLen_mono p q hpq r
      omega
    · rw [if_neg ha]; omega

theorem isDigit_isAlnum (c : Nat) (h : Lexer.isDigit c = true) : isAlnum .math c = true := by
  unfold isAlnum; simp [h]

/-- the identifier rules of the generated MATH table -/
theorem math_id_rules : ∀ r ∈ mathRules,
    (r.act = .tok .ID_GLOBAL → r.pat = .globalId) ∧ (r.act = .tok .ID_LOCAL → r.pat = .localId) ∧
    (r.act = .tok .ID_FUNCTION → r.pat = .withNumber [70]) ∧ (r.act = .tok .ID_PREDICATE → r.pat = .withNumber [80]) := by
  decide +kernel

theorem math_has_globalId : (⟨.globalId, .tok .ID_GLOBAL⟩ : LexRule) ∈ mathRules := by decide +kernel

theorem math_eof : eofTok mathRules = some .END := by decide +kernel

theorem idpat_stop (p : Nat → Bool) (s : List Nat) (n : Nat)
    (hm : (match s with | c :: r' => if p c = true then some (1 + spanLen (isAlnum .math) r') else none | [] => none) = some n) :
    ∀ c, (s.drop n).head? = some c → isAlnum .math c = false := by
  intro c hc
  cases s with
  | nil => simp at hm
  | cons a r' =>
    simp only at hm
    split at hm
    · simp at hm
      subst hm
      rw [show (a :: r').drop (1 + spanLen (isAlnum .math) r') = r'.drop (spanLen (isAlnum .math) r') by
        rw [Nat.add_comm]; rfl] at hc
      exact spanLen_stop _ r' c hc
    · cases hm

/-- after the longest match of an identifier rule no identifier symbol follows -/
theorem munch (s : List Nat) (n : Nat) (k : Tok) (hk : filterIdentifiers k = true)
    (hb : bestRule .math s mathRules none = some (n, .tok k)) :
    ∀ c, (s.drop n).head? = some c → isAlnum .math c = false := by
  rcases bestRule_origin .math s mathRules none n (.tok k) hb with h' | ⟨r, hr, ha, hp⟩
  · cases h'
  obtain ⟨g1, g2, g3, g4⟩ := math_id_rules r hr
  have hge := (bestRule_ge .math s mathRules none n (.tok k) hb).2
  have numpat : ∀ c0, isGlobalStart c0 = true → matchPat .math s (.withNumber [c0]) = some n →
      ∀ c, (s.drop n).head? = some c → isAlnum .math c = false := by
    intro c0 hc0 hm c hc
    simp only [matchPat] at hm
    cases s with
    | nil => simp [isPrefix] at hm
    | cons a r' =>
      simp only [isPrefix, Bool.and_true, List.length_cons, List.length_nil, List.drop_succ_cons, List.drop_zero] at hm
      split at hm
      · next hpre =>
        have ha : a = c0 := (by simpa using hpre : c0 = a).symm
        split at hm
        · cases hm
        · simp at hm
          -- the global-identifier rule matches at least as far
          have hg : matchPat .math (a :: r') .globalId = some (1 + spanLen (isAlnum .math) r') := by
            simp only [matchPat]; rw [ha, if_pos hc0]
          have h1 := hge _ math_has_globalId _ hg
          have h2 := spanLen_mono Lexer.isDigit (isAlnum .math) isDigit_isAlnum r'
          have hn : n = 1 + spanLen (isAlnum .math) r' := by omega
          rw [hn, show (a :: r').drop (1 + spanLen (isAlnum .math) r') = r'.drop (spanLen (isAlnum .math) r') by
            rw [Nat.add_comm]; rfl] at hc
          exact spanLen_stop _ r' c hc
      · cases hm
  unfold filterIdentifiers at hk
  simp only [Bool.or_eq_true, decide_eq_true_eq] at hk
  rcases hk with ((hk | hk) | hk) | hk
  · subst hk
    rw [g1 ha] at hp
    simp only [matchPat] at hp
    exact idpat_stop isGlobalStart s n hp
  · subst hk
    rw [g3 ha] at hp
    exact numpat 70 (by decide) hp
  · subst hk
    rw [g4 ha] at hp
    exact numpat 80 (by decide) hp
  · subst hk
    rw [g2 ha] at hp
    simp only [matchPat] at hp
    exact idpat_stop (isLocalStart .math) s n hp

/-! ## the MATH scanner is total -/

theorem bestRule_isSome_of_best (syn : Syn) (s : List Nat) : ∀ (rules : List LexRule) (best : Option (Nat × LexAct)),
    best.isSome = true → (bestRule syn s rules best).isSome = true
  | [], best, h => by simpa [bestRule] using h
  | r :: rs, best, h => by
    simp only [bestRule]
    cases hm : matchPat syn s r.pat with
    | none => exact bestRule_isSome_of_best syn s rs best h
    | some k =>
      cases best with
      | none => cases h
      | some b =>
        obtain ⟨m, a⟩ := b
        simp only
        split <;> exact bestRule_isSome_of_best syn s rs _ rfl

theorem bestRule_isSome_of_mem (syn : Syn) (s : List Nat) : ∀ (rules : List LexRule) (best : Option (Nat × LexAct)) (r : LexRule),
    r ∈ rules → (matchPat syn s r.pat).isSome = true → (bestRule syn s rules best).isSome = true
  | [], _, _, h, _ => by cases h
  | r0 :: rs, best, r, h, hm => by
    rcases List.mem_cons.1 h with rfl | h
    · simp only [bestRule]
      obtain ⟨k, hk⟩ := Option.isSome_iff_exists.1 hm
      rw [hk]
      cases best with
      | none => exact bestRule_isSome_of_best syn s rs _ rfl
      | some b =>
        obtain ⟨m, a⟩ := b
        simp only
        split <;> exact bestRule_isSome_of_best syn s rs _ rfl
    · simp only [bestRule]
      cases matchPat syn s r0.pat with
      | none => exact bestRule_isSome_of_mem syn s rs best r h hm
      | some k =>
        cases best with
        | none => exact bestRule_isSome_of_mem syn s rs _ r h hm
        | some b =>
          obtain ⟨m, a⟩ := b
          simp only
          split <;> exact bestRule_isSome_of_mem syn s rs _ r h hm

theorem math_has_any : (⟨.any, .tok .INTERRUPT⟩ : LexRule) ∈ mathRules := by decide +kernel
theorem math_has_newline : (⟨.newline, .newline⟩ : LexRule) ∈ mathRules := by decide +kernel

/-- at every non-empty input some rule of the MATH table matches at least one symbol -/
theorem math_best (c : Nat) (r : List Nat) : ∃ n act, bestRule .math (c :: r) mathRules none = some (n + 1, act) := by
  have hone : ∃ r0 ∈ mathRules, matchPat .math (c :: r) r0.pat = some 1 := by
    by_cases hc : c = 10
    · exact ⟨_, math_has_newline, by subst hc; rfl⟩
    · refine ⟨_, math_has_any, ?_⟩
      simp only [matchPat]
      rw [if_neg (by simpa using hc)]
  obtain ⟨r0, hr0, hm⟩ := hone
  have hs := bestRule_isSome_of_mem .math (c :: r) mathRules none r0 hr0 (by rw [hm]; rfl)
  obtain ⟨⟨n, act⟩, hb⟩ := Option.isSome_iff_exists.1 hs
  have := (bestRule_ge .math (c :: r) mathRules none n act hb).2 r0 hr0 1 hm
  exact ⟨n - 1, act, by rw [hb]; congr 2; omega⟩

theorem lexGo_total : ∀ (fuel : Nat) (s : List Nat) (lb col : Nat), s.length < fuel →
    (lexGo .math mathRules fuel s lb col).isSome = true := by
  intro fuel
  induction fuel with
  | zero => intro s lb col h; omega
  | succ fuel ih =>
    intro s lb col h
    cases s with
    | nil => simp only [lexGo]; rw [math_eof]; rfl
    | cons c r =>
      obtain ⟨n, act, hb⟩ := math_best c r
      simp only [lexGo]
      rw [hb]
      simp only
      have hlen : ((c :: r).drop (n + 1)).length < fuel := by
        simp only [List.length_drop, List.length_cons] at h ⊢; omega
      cases act with
      | tok t =>
        simp only
        obtain ⟨rest, hr⟩ := Option.isSome_iff_exists.1 (ih _ lb (col + (n + 1)) hlen)
        rw [hr]; rfl
      | skip => exact ih _ _ _ hlen
      | newline => exact ih _ _ _ hlen

/-- the MATH scanner model never gets stuck -/
theorem lexMath_total (cps : List Nat) : ∃ toks, lexMath cps = some toks := by
  obtain ⟨ts, h⟩ := Option.isSome_iff_exists.1 (lexGo_total (cps.length + 1) cps 0 0 (by omega))
  exact ⟨untilEnd ts, by unfold lexMath lexRaw; rw [show rulesOf .math = mathRules from rfl, h]; rfl⟩

/-! ## an identifier token does not start inside an identifier -/

/-- first symbol of an identifier: a letter other than `B`, or `_` -/
def idStartB (c : Nat) : Bool := isGlobalStart c || isLocalStart .math c

theorem alnum_cases (c : Nat) (h : isAlnum .math c = true) : Lexer.isDigit c = true ∨ c = 66 ∨ idStartB c = true := by
  unfold isAlnum isAlpha at h
  unfold idStartB isGlobalStart isLocalStart
  by_cases h1 : Lexer.isDigit c = true
  · exact Or.inl h1
  by_cases h2 : c = 66
  · exact Or.inr (Or.inl h2)
  refine Or.inr (Or.inr ?_)
  simp only [Bool.or_eq_true, beq_iff_eq, Bool.and_eq_true, bne_iff_ne, ne_eq] at h ⊢
  rcases h with (h | h) | h | h
  · exact Or.inr (Or.inl h)
  · exact absurd h h1
  · exact Or.inl ⟨h, h2⟩
  · exact Or.inr (Or.inr h)

theorem idStartB_alnum (c : Nat) (h : idStartB c = true) : isAlnum .math c = true := by
  unfold idStartB isGlobalStart isLocalStart at h
  unfold isAlnum isAlpha
  simp only [Bool.or_eq_true, beq_iff_eq, Bool.and_eq_true, bne_iff_ne, ne_eq] at h ⊢
  rcases h with ⟨h, _⟩ | h | h
  · exact Or.inr (Or.inl h)
  · exact Or.inl (Or.inl h)
  · exact Or.inr (Or.inr h)

theorem spanLen_get (p : Nat → Bool) : ∀ (s : List Nat) (i : Nat), i < spanLen p s → ∃ c, s[i]? = some c ∧ p c = true
  | [], i, h => by simp [spanLen] at h
  | a :: r, i, h => by
    unfold spanLen at h
    by_cases ha : p a = true
    · rw [if_pos ha] at h
      cases i with
      | zero => exact ⟨a, rfl, ha⟩
      | succ i =>
        obtain ⟨c, h1, h2⟩ := spanLen_get p r i (by omega)
        exact ⟨c, by simpa using h1, h2⟩
    · rw [if_neg ha] at h; omega

theorem spanLen_ge_take (p : Nat → Bool) : ∀ (s : List Nat) (k : Nat), k ≤ s.length → (∀ c ∈ s.take k, p c = true) → k ≤ spanLen p s
  | _, 0, _, _ => Nat.zero_le _
  | [], k + 1, h, _ => by simp at h
  | a :: r, k + 1, h, hall => by
    unfold spanLen
    have ha : p a = true := hall a (by simp)
    rw [if_pos ha]
    have := spanLen_ge_take p r k (by simpa using h) (fun c hc => hall c (by simp [hc]))
    omega

theorem isPrefix_take : ∀ (l s : List Nat), isPrefix l s = true → s.take l.length = l
  | [], _, _ => by simp
  | _ :: _, [], h => by simp [isPrefix] at h
  | a :: l, b :: s, h => by
    simp only [isPrefix, Bool.and_eq_true, beq_iff_eq] at h
    simp [h.1, isPrefix_take l s h.2]

theorem indexTail_last : ∀ (fuel : Nat) (s : List Nat) (k : Nat), indexTail fuel s = k → 0 < k →
    ∃ c, s[k - 1]? = some c ∧ Lexer.isDigit c = true
  | 0, _, k, h, hk => by simp [indexTail] at h; omega
  | fuel + 1, s, k, h, hk => by
    unfold indexTail at h
    split at h
    · next r =>
      simp only at h
      split at h
      · omega
      · next hk1 =>
        have hk1' : 0 < spanLen Lexer.isDigit r := by
          cases hz : spanLen Lexer.isDigit r with
          | zero => simp [hz] at hk1
          | succ z => omega
        by_cases ht : indexTail fuel (r.drop (spanLen Lexer.isDigit r)) = 0
        · rw [ht] at h
          obtain ⟨c, h1, h2⟩ := spanLen_get Lexer.isDigit r (spanLen Lexer.isDigit r - 1) (by omega)
          refine ⟨c, ?_, h2⟩
          have : k - 1 = (spanLen Lexer.isDigit r - 1) + 1 := by omega
          rw [this]; simpa using h1
        · obtain ⟨c, h1, h2⟩ := indexTail_last fuel _ _ rfl (Nat.pos_of_ne_zero ht)
          refine ⟨c, ?_, h2⟩
          rw [List.getElem?_drop] at h1
          have : k - 1 = (spanLen Lexer.isDigit r + (indexTail fuel (r.drop (spanLen Lexer.isDigit r)) - 1)) + 1 := by omega
          rw [this]; simpa using h1
    · omega

theorem indexLen_last (s : List Nat) (k : Nat) (h : indexLen s = k) (hk : 0 < k) :
    ∃ c, s[k - 1]? = some c ∧ Lexer.isDigit c = true := by
  unfold indexLen at h
  simp only at h
  split at h
  · omega
  · next hk1 =>
    have hk1' : 0 < spanLen Lexer.isDigit s := by
      cases hz : spanLen Lexer.isDigit s with
      | zero => simp [hz] at hk1
      | succ z => omega
    by_cases ht : indexTail s.length (s.drop (spanLen Lexer.isDigit s)) = 0
    · rw [ht] at h
      obtain ⟨c, h1, h2⟩ := spanLen_get Lexer.isDigit s (spanLen Lexer.isDigit s - 1) (by omega)
      exact ⟨c, by rw [← h]; simpa using h1, h2⟩
    · obtain ⟨c, h1, h2⟩ := indexTail_last s.length _ _ rfl (Nat.pos_of_ne_zero ht)
      refine ⟨c, ?_, h2⟩
      rw [List.getElem?_drop] at h1
      have : k - 1 = spanLen Lexer.isDigit s + (indexTail s.length (s.drop (spanLen Lexer.isDigit s)) - 1) := by omega
      rw [this]; exact h1

/-- literal rules of the generated MATH table: a literal that ends in an identifier-start symbol
consists of identifier symbols only and starts with an identifier-start symbol -/
def litOk : LexPat → Bool
  | .lit l =>
    match l.getLast? with
    | some c => !(idStartB c) || (l.all (isAlnum .math) && (match l with | h :: _ => idStartB h | [] => false))
    | none => true
  | _ => true

theorem math_lits_ok : ∀ r ∈ mathRules, litOk r.pat = true := by decide +kernel

theorem math_has_localId : (⟨.localId, .tok .ID_LOCAL⟩ : LexRule) ∈ mathRules := by decide +kernel

/-- where `k` identifier symbols follow an identifier-start symbol, an identifier rule of the table
matches all of them -/
theorem idrule_extends (s : List Nat) (k : Nat) (hk : 1 ≤ k) (hlen : k ≤ s.length)
    (hstart : ∃ h t, s = h :: t ∧ idStartB h = true) (hall : ∀ c ∈ s.take k, isAlnum .math c = true) :
    ∃ r ∈ mathRules, ∃ m, k ≤ m ∧ matchPat .math s r.pat = some m := by
  obtain ⟨h, t, rfl, hs⟩ := hstart
  have hsp : k - 1 ≤ spanLen (isAlnum .math) t := by
    apply spanLen_ge_take _ t (k - 1) (by simp at hlen; omega)
    intro c hc
    apply hall c
    have : k = (k - 1) + 1 := by omega
    rw [this, List.take_succ_cons]
    exact List.mem_cons_of_mem _ hc
  unfold idStartB at hs
  by_cases hg : isGlobalStart h = true
  · exact ⟨_, math_has_globalId, 1 + spanLen (isAlnum .math) t, by omega, by simp only [matchPat]; rw [if_pos hg]⟩
  · have hl : isLocalStart .math h = true := by
      simp only [Bool.or_eq_true] at hs
      rcases hs with h1 | h1
      · exact absurd h1 hg
      · exact h1
    exact ⟨_, math_has_localId, 1 + spanLen (isAlnum .math) t, by omega, by simp only [matchPat]; rw [if_pos hl]⟩

/-- every token either starts where the scan started or right after a piece (token or skipped
blanks / newline) that was the longest match at its own offset -/
theorem lexGo_prev (cps : List Nat) :
    ∀ (fuel : Nat) (s : List Nat) (lb col : Nat) (ts : List RawTok),
      lexGo .math mathRules fuel s lb col = some ts → cps.drop (lb + col) = s →
      ∀ t ∈ ts, t.lo = lb + col ∨
        ∃ q n act, q + (n + 1) = t.lo ∧ bestRule .math (cps.drop q) mathRules none = some (n + 1, act) := by
  intro fuel
  induction fuel with
  | zero => intro s lb col ts h; simp [lexGo] at h
  | succ fuel ih =>
    intro s lb col ts h hs t ht
    cases s with
    | nil =>
      simp only [lexGo] at h
      cases he : eofTok mathRules with
      | none => rw [he] at h; cases h
      | some e =>
        rw [he] at h; simp at h; subst h
        simp at ht; subst ht
        exact Or.inl rfl
    | cons c r =>
      simp only [lexGo] at h
      cases hb : bestRule .math (c :: r) mathRules none with
      | none => rw [hb] at h; cases h
      | some na =>
        obtain ⟨n, act⟩ := na
        rw [hb] at h
        cases n with
        | zero => simp at h
        | succ n =>
          simp only at h
          have hnext : cps.drop (lb + (col + (n + 1))) = (c :: r).drop (n + 1) := by
            rw [← hs, List.drop_drop]; congr 1; omega
          have hthis : bestRule .math (cps.drop (lb + col)) mathRules none = some (n + 1, act) := by rw [hs]; exact hb
          have lift : ∀ lb' col', lb' + col' = lb + col + (n + 1) →
              (t.lo = lb' + col' ∨ ∃ q n' act', q + (n' + 1) = t.lo ∧
                bestRule .math (cps.drop q) mathRules none = some (n' + 1, act')) →
              (t.lo = lb + col ∨ ∃ q n' act', q + (n' + 1) = t.lo ∧
                bestRule .math (cps.drop q) mathRules none = some (n' + 1, act')) := by
            intro lb' col' e hor
            rcases hor with h1 | h1
            · exact Or.inr ⟨lb + col, n, act, by omega, hthis⟩
            · exact Or.inr h1
          cases act with
          | tok k =>
            simp only at h
            cases hr : lexGo .math mathRules fuel ((c :: r).drop (n + 1)) lb (col + (n + 1)) with
            | none => rw [hr] at h; cases h
            | some rest =>
              rw [hr] at h; simp at h; subst h
              rcases List.mem_cons.1 ht with rfl | hin
              · exact Or.inl rfl
              · exact lift lb (col + (n + 1)) (by omega) (ih _ _ _ _ hr hnext t hin)
          | skip =>
            exact lift lb (col + (n + 1)) (by omega) (ih _ _ _ _ h hnext t ht)
          | newline =>
            have hn1 : n + 1 = 1 := by
              rcases bestRule_origin .math (c :: r) mathRules none (n + 1) .newline hb with h' | ⟨r', hr', ha, hp⟩
              · cases h'
              · have := math_newline_rules r' hr' ha
                rw [this] at hp
                simp only [matchPat] at hp
                split at hp <;> simp at hp
                omega
            have hnext' : cps.drop (lb + (col + 1) + 0) = (c :: r).drop (n + 1) := by
              rw [← hnext]; congr 1; omega
            exact lift (lb + (col + 1)) 0 (by omega) (ih _ _ _ _ h hnext' t ht)

theorem untilEnd_subset : ∀ (ts : List RawTok) (t : RawTok), t ∈ untilEnd ts → t ∈ ts
  | [], _, h => by simp [Translate.untilEnd] at h
  | x :: xs, t, h => by
    unfold Translate.untilEnd at h
    split at h
    · cases h
    · rcases List.mem_cons.1 h with rfl | h
      · simp
      · exact List.mem_cons_of_mem _ (untilEnd_subset xs t h)

theorem lexMath_prev {cps : List Nat} {toks : List RawTok} (h : lexMath cps = some toks) :
    ∀ t ∈ toks, t.lo = 0 ∨ ∃ q n act, q + (n + 1) = t.lo ∧
      bestRule .math (cps.drop q) mathRules none = some (n + 1, act) := by
  unfold lexMath at h
  cases hr : lexRaw .math cps with
  | none => rw [hr] at h; cases h
  | some ts =>
    rw [hr] at h
    simp at h
    subst h
    intro t ht
    have := lexGo_prev cps _ _ 0 0 ts hr (by simp) t (untilEnd_subset ts t ht)
    simpa using this

theorem idStartB_props (c : Nat) (h : idStartB c = true) :
    Lexer.isDigit c = false ∧ c ≠ 32 ∧ c ≠ 9 ∧ c ≠ 13 ∧ c ≠ 10 := by
  unfold idStartB isGlobalStart isLocalStart isUpper isLower at h
  unfold Lexer.isDigit
  simp only [Bool.or_eq_true, Bool.and_eq_true, decide_eq_true_eq, beq_iff_eq, bne_iff_ne, ne_eq] at h
  refine ⟨?_, ?_, ?_, ?_, ?_⟩
  · simp only [Bool.and_eq_false_iff, decide_eq_false_iff_not]
    omega
  all_goals omega

theorem idpat_head (p : Nat → Bool) (hp' : ∀ c, p c = true → idStartB c = true) (s : List Nat) (n : Nat)
    (hm : (match s with | c :: r' => if p c = true then some (1 + spanLen (isAlnum .math) r') else none | [] => none) = some n) :
    ∃ h t, s = h :: t ∧ isAlnum .math h = true := by
  cases s with
  | nil => simp at hm
  | cons a r' =>
    simp only at hm
    split at hm
    · next hpa => exact ⟨a, r', rfl, idStartB_alnum a (hp' a hpa)⟩
    · cases hm

/-- the first symbol of an identifier token is an identifier symbol -/
theorem id_token_head (s : List Nat) (n : Nat) (k : Tok) (hk : filterIdentifiers k = true)
    (hb : bestRule .math s mathRules none = some (n, .tok k)) :
    ∃ h t, s = h :: t ∧ isAlnum .math h = true := by
  rcases bestRule_origin .math s mathRules none n (.tok k) hb with h' | ⟨r, hr, ha, hp⟩
  · cases h'
  obtain ⟨g1, g2, g3, g4⟩ := math_id_rules r hr
  have nump : ∀ c0, isAlnum .math c0 = true → matchPat .math s (.withNumber [c0]) = some n →
      ∃ h t, s = h :: t ∧ isAlnum .math h = true := by
    intro c0 hc0 hm
    simp only [matchPat] at hm
    cases s with
    | nil => simp [isPrefix] at hm
    | cons a r' =>
      simp only [isPrefix, Bool.and_true] at hm
      split at hm
      · next hpre =>
        have : c0 = a := by simpa using hpre
        exact ⟨a, r', rfl, this ▸ hc0⟩
      · cases hm
  unfold filterIdentifiers at hk
  simp only [Bool.or_eq_true, decide_eq_true_eq] at hk
  rcases hk with ((hk | hk) | hk) | hk
  · subst hk
    rw [g1 ha] at hp
    simp only [matchPat] at hp
    exact idpat_head isGlobalStart (fun c hc => by unfold idStartB; simp [hc]) s n hp
  · subst hk
    rw [g3 ha] at hp
    exact nump 70 (by decide) hp
  · subst hk
    rw [g4 ha] at hp
    exact nump 80 (by decide) hp
  · subst hk
    rw [g2 ha] at hp
    simp only [matchPat] at hp
    exact idpat_head (isLocalStart .math) (fun c hc => by unfold idStartB; simp [hc]) s n hp

/-- the piece before an identifier cannot end in an identifier-start symbol: if the longest match at
`s` has length `n + 1`, ends in such a symbol `c`, and is followed by an identifier symbol `h`,
some identifier rule would have matched further -/
theorem no_idstart_before (s : List Nat) (n : Nat) (act : LexAct) (c h : Nat)
    (hb : bestRule .math s mathRules none = some (n + 1, act))
    (hc : s[n]? = some c) (hh : s[n + 1]? = some h) (hcs : idStartB c = true) (hha : isAlnum .math h = true) : False := by
  obtain ⟨d1, d2, d3, d4, d5⟩ := idStartB_props c hcs
  have hlen : n + 2 ≤ s.length := by
    have := (List.getElem?_eq_some_iff.1 hh).1
    omega
  rcases bestRule_origin .math s mathRules none (n + 1) act hb with h' | ⟨r, hr, _, hp⟩
  · cases h'
  have hge := (bestRule_ge .math s mathRules none (n + 1) act hb).2
  -- an identifier rule reaching beyond the piece contradicts the longest match
  have extend : (∃ a t, s = a :: t ∧ idStartB a = true) → (∀ x ∈ s.take (n + 1), isAlnum .math x = true) → False := by
    intro hst hall
    obtain ⟨r', hr', m, hm1, hm2⟩ := idrule_extends s (n + 2) (by omega) hlen hst (by
      intro x hx
      rw [List.take_succ, hh] at hx
      simp only [Option.toList_some, List.mem_append, List.mem_singleton] at hx
      rcases hx with hx | hx
      · exact hall x hx
      · rw [hx]; exact hha)
    have := hge r' hr' m hm2
    omega
  have hlit := math_lits_ok r hr
  cases hpat : r.pat with
  | lit l =>
    rw [hpat] at hp hlit
    simp only [matchPat] at hp
    split at hp
    · next hcond =>
      simp only [Bool.and_eq_true] at hcond
      have hl : l.length = n + 1 := by simpa using hp
      have htk := isPrefix_take l s hcond.2
      rw [hl] at htk
      have hlast : l.getLast? = some c := by
        rw [List.getLast?_eq_getElem?, hl, ← htk, List.getElem?_take]
        simp [hc]
      simp only [litOk, hlast, hcs, Bool.not_true, Bool.false_or, Bool.and_eq_true, List.all_eq_true] at hlit
      obtain ⟨hall, hhead⟩ := hlit
      refine extend ?_ (by rw [htk]; exact hall)
      cases l with
      | nil => simp at hl
      | cons a t' =>
        simp only at hhead
        cases s with
        | nil => simp at hlen
        | cons b t'' =>
          simp only [List.take_succ_cons, List.cons.injEq] at htk
          exact ⟨b, t'', rfl, htk.1 ▸ hhead⟩
    · cases hp
  | withIndex pre =>
    rw [hpat] at hp
    simp only [matchPat] at hp
    split at hp
    · split at hp
      · cases hp
      · next hk0 =>
        have hk : pre.length + indexLen (s.drop pre.length) = n + 1 := by simpa using hp
        have hpos : 0 < indexLen (s.drop pre.length) := by
          cases hz : indexLen (s.drop pre.length) with
          | zero => simp [hz] at hk0
          | succ z => omega
        obtain ⟨x, hx1, hx2⟩ := indexLen_last (s.drop pre.length) _ rfl hpos
        rw [List.getElem?_drop] at hx1
        have : pre.length + (indexLen (s.drop pre.length) - 1) = n := by omega
        rw [this, hc] at hx1
        cases hx1
        rw [d1] at hx2; cases hx2
    · cases hp
  | withNumber pre =>
    rw [hpat] at hp
    simp only [matchPat] at hp
    split at hp
    · split at hp
      · cases hp
      · next hk0 =>
        have hk : pre.length + spanLen Lexer.isDigit (s.drop pre.length) = n + 1 := by simpa using hp
        have hpos : 0 < spanLen Lexer.isDigit (s.drop pre.length) := by
          cases hz : spanLen Lexer.isDigit (s.drop pre.length) with
          | zero => simp [hz] at hk0
          | succ z => omega
        obtain ⟨x, hx1, hx2⟩ := spanLen_get Lexer.isDigit (s.drop pre.length) (spanLen Lexer.isDigit (s.drop pre.length) - 1) (by omega)
        rw [List.getElem?_drop] at hx1
        have : pre.length + (spanLen Lexer.isDigit (s.drop pre.length) - 1) = n := by omega
        rw [this, hc] at hx1
        cases hx1
        rw [d1] at hx2; cases hx2
    · cases hp
  | number =>
    rw [hpat] at hp
    simp only [matchPat] at hp
    split at hp
    · cases hp
    · have hk : spanLen Lexer.isDigit s = n + 1 := by simpa using hp
      obtain ⟨x, hx1, hx2⟩ := spanLen_get Lexer.isDigit s n (by omega)
      rw [hc] at hx1; cases hx1
      rw [d1] at hx2; cases hx2
  | globalId =>
    rw [hpat] at hp
    simp only [matchPat] at hp
    have := idpat_stop isGlobalStart s (n + 1) hp h (by rw [List.head?_drop]; exact hh)
    rw [hha] at this; cases this
  | localId =>
    rw [hpat] at hp
    simp only [matchPat] at hp
    have := idpat_stop (isLocalStart .math) s (n + 1) hp h (by rw [List.head?_drop]; exact hh)
    rw [hha] at this; cases this
  | newline =>
    rw [hpat] at hp
    simp only [matchPat] at hp
    split at hp
    · next r' =>
      have : n = 0 := by simpa using hp.symm
      subst this
      simp at hc
      exact d5 hc.symm
    · cases hp
  | blanks =>
    rw [hpat] at hp
    simp only [matchPat] at hp
    split at hp
    · cases hp
    · have hk : spanLen (fun c => c == 32 || c == 9) s = n + 1 := by simpa using hp
      obtain ⟨x, hx1, hx2⟩ := spanLen_get (fun c => c == 32 || c == 9) s n (by omega)
      rw [hc] at hx1; cases hx1
      simp only [Bool.or_eq_true, beq_iff_eq] at hx2
      rcases hx2 with e | e
      · exact d2 e
      · exact d3 e
  | ws =>
    rw [hpat] at hp
    simp only [matchPat] at hp
    split at hp
    · cases hp
    · have hk : spanLen (fun c => c == 32 || c == 9 || c == 13 || c == 10) s = n + 1 := by simpa using hp
      obtain ⟨x, hx1, hx2⟩ := spanLen_get (fun c => c == 32 || c == 9 || c == 13 || c == 10) s n (by omega)
      rw [hc] at hx1; cases hx1
      simp only [Bool.or_eq_true, beq_iff_eq] at hx2
      rcases hx2 with ((e | e) | e) | e
      · exact d2 e
      · exact d3 e
      · exact d4 e
      · exact d5 e
  | any =>
    rw [hpat] at hp
    simp only [matchPat] at hp
    cases s with
    | nil => simp at hlen
    | cons a t' =>
      simp only at hp
      split at hp
      · cases hp
      · have : n = 0 := by simpa using hp.symm
        subst this
        simp at hc
        subst hc
        refine extend ⟨a, t', rfl, hcs⟩ ?_
        intro x hx
        simp at hx
        rw [hx]; exact idStartB_alnum a hcs
  | eof =>
    rw [hpat] at hp
    simp [matchPat] at hp

end CCVerif.Translate
