import CCVerif.Lemmas.EvalCalls
/-! Soundness of the β-reduction of calls for the reference semantics (`Beta.sound`). -/
namespace CCVerif.Eval
open CCVerif.Syntax CCVerif.Spec CCVerif.Norm
open Val Ty

/-- the result is a strict function of the value of one child -/
macro "strict1_case" f:ident ρs:ident as:ident key:ident hv:ident : tactic =>
  `(tactic| (
      cases hra : denote _ $f $ρs $as with
      | none => rw [hra] at $hv:ident; simp [dSet, dVal, dBool, dInt, kNot] at $hv:ident
      | some wa => rw [$key:ident wa hra]; rw [hra] at $hv:ident; exact $hv))

/-- **soundness of β-reduction**: a value of the reduct is the value of the expression with calls, at every fuel
of the reference semantics that is larger by at least `K` -/
theorem Beta.sound {S : SEnv} {K : Nat} {Δ : BCtx} {e es : Ast} (h : Beta S.funcs K Δ e es) :
    ∀ ρ ρs, ERel S Δ ρ ρs → Sim S K ρ e ρs es := by
  induction h with
  | mono hk _ ih => intro ρ ρs hr; exact (ih ρ ρs hr).mono hk
  | lit n lo hi lo' hi' =>
    intro ρ ρs _
    exact Sim.node (fun f g _ v hv => by rw [denote_lit] at hv ⊢; exact hv)
  | empty d lo hi lo' hi' =>
    intro ρ ρs _
    exact Sim.node (fun f g _ v hv => by rw [denote_empty] at hv ⊢; exact hv)
  | glob g lo hi lo' hi' =>
    intro ρ ρs _
    exact Sim.node (fun f g _ v hv => by rw [denote_global] at hv ⊢; exact hv)
  | loc x x' lo hi lo' hi' hl =>
    intro ρ ρs hr
    obtain ⟨v, h1, h2⟩ := hr x _ hl
    refine Sim.node (fun f g _ w hw => ?_)
    rw [denote_local, h2] at hw
    rw [denote_local, h1]; exact hw
  | par p as N Kp lo hi hl =>
    intro ρ ρs hr
    obtain ⟨arg, cl, h1, h2⟩ := hr p _ hl
    intro f v hv f' hf'
    obtain ⟨g, rfl⟩ : ∃ g, f' = g + 1 := ⟨f' - 1, by omega⟩
    rw [denote_local, h1]
    exact h2 ρs .refl f v hv g (by omega)
  | @un K Δ t a as d lo hi lo' hi' ht _ ih =>
    intro ρ ρs hr
    refine Sim.node (fun f g hg => ?_)
    have key := (ih ρ ρs hr).ole hg
    intro v hv
    rcases ht with rfl | rfl | rfl | rfl | rfl | rfl
    · rw [denote_card] at hv ⊢; strict1_case f ρs as key hv
    · rw [denote_bool] at hv ⊢; strict1_case f ρs as key hv
    · rw [denote_debool] at hv ⊢; strict1_case f ρs as key hv
    · rw [denote_reduce] at hv ⊢; strict1_case f ρs as key hv
    · rw [denote_not] at hv ⊢; strict1_case f ρs as key hv
    · rw [denote_boolean] at hv ⊢; strict1_case f ρs as key hv
  | @pr K Δ t a as idx lo hi lo' hi' ht _ ih =>
    intro ρ ρs hr
    refine Sim.node (fun f g hg => ?_)
    have key := (ih ρ ρs hr).ole hg
    intro v hv
    rcases ht with rfl | rfl
    · rw [denote_smallpr] at hv ⊢; strict1_case f ρs as key hv
    · rw [denote_bigpr] at hv ⊢; strict1_case f ρs as key hv
  | @bin K Δ t a b as bs d lo hi lo' hi' ht _ _ iha ihb =>
    intro ρ ρs hr
    refine Sim.node (fun f g hg => ?_)
    have ka := (iha ρ ρs hr).ole hg
    have kb := (ihb ρ ρs hr).ole hg
    intro v hv
    rcases ht with ht | ht | ht | ht | ht | ht
    · rw [denote_arith ht] at hv ⊢
      exact OLe.strict2 (fun ra rb => (dInt ra).bind fun x => (dInt rb).map fun y => SemVal.val (.e (arithOp t x y)))
        (fun _ => rfl) (fun x => by simp [dInt]) ka kb v hv
    · rw [denote_intCmp ht] at hv ⊢
      exact OLe.strict2 (fun ra rb => (dInt ra).bind fun x => (dInt rb).map fun y => SemVal.bool (intCmpOp t x y))
        (fun _ => rfl) (fun x => by simp [dInt]) ka kb v hv
    · rw [denote_eq ht] at hv ⊢
      exact OLe.strict2 (fun ra rb => (dVal ra).bind fun x => (dVal rb).map fun y =>
          SemVal.bool (decide (x = y) != (t == .NOTEQUAL)))
        (fun _ => rfl) (fun x => by simp [dVal]) ka kb v hv
    · rw [denote_sub ht] at hv ⊢
      exact OLe.strict2 (fun ra rb => ((dSet ra).bind fun xs => (dSet rb).map fun ys => subSpec t xs ys).map SemVal.bool)
        (fun _ => rfl) (fun x => by simp [dSet, dVal]) ka kb v hv
    · rw [denote_setOp ht] at hv ⊢
      exact OLe.strict2 (fun ra rb => ((dSet ra).bind fun xs => (dSet rb).map fun ys => setOpSpec t xs ys).map SemVal.val)
        (fun _ => rfl) (fun x => by simp [dSet, dVal]) ka kb v hv
    · rw [denote_conn ht] at hv ⊢
      have hm := kConn_mono ht (dBool_mono ka) (dBool_mono kb)
      cases hk : kConn t (dBool (denote S f ρs as)) (dBool (denote S f ρs bs)) with
      | none => rw [hk] at hv; cases hv
      | some r => rw [hm r hk]; rw [hk] at hv; exact hv
  | @mem K Δ t a b as bs d lo hi lo' hi' ht hb hbs _ _ iha ihb =>
    intro ρ ρs hr
    refine Sim.node (fun f g hg => ?_)
    have ka := (iha ρ ρs hr).ole hg
    have kb := (ihb ρ ρs hr).ole hg
    intro v hv
    rw [denote_mem ht _ _ _ _ _ _ _ _ hbs] at hv
    rw [denote_mem ht _ _ _ _ _ _ _ _ hb]
    exact OLe.strict2 (fun ra rb => (((dVal ra).bind fun x => (dSet rb).map fun ys => isMember x ys).map
        fun r => r != (t == .NOTIN)).map SemVal.bool)
      (fun _ => rfl) (fun x => by simp [dSet, dVal]) ka kb v hv
  | @memPow K Δ t a b as bs d d' lo hi lo' hi' lo2 hi2 lo2' hi2' ht _ _ iha ihb =>
    intro ρ ρs hr
    refine Sim.node (fun f g hg => ?_)
    have ka := (iha ρ ρs hr).ole hg
    have kb := (ihb ρ ρs hr).ole hg
    intro v hv
    rw [denote_memPow ht] at hv ⊢
    exact OLe.strict2 (fun ra rb => (((dSet ra).bind fun xs => (dSet rb).map fun ys => isSubset xs ys).map
        fun r => r != (t == .NOTIN)).map SemVal.bool)
      (fun _ => rfl) (fun x => by simp [dSet, dVal]) ka kb v hv
  | @nary K Δ t d lo hi lo' hi' ks kss ht hlen _ ih =>
    intro ρ ρs hr
    refine Sim.node (fun f g hg => ?_)
    have hq : ∀ q ∈ ks.zip kss, OLe (denote S f ρs q.2) (denote S g ρ q.1) := fun q hq => (ih q hq ρ ρs hr).ole hg
    intro v hv
    rcases ht with rfl | rfl | rfl
    · rw [denote_enum] at hv ⊢
      have hm := mapM_mono dVal rfl (denote S g ρ) (denote S f ρs) ks kss hlen hq
      cases hk : kss.mapM (fun k => dVal (denote S f ρs k)) with
      | none => rw [hk] at hv; cases hv
      | some vs => rw [hm vs hk]; rw [hk] at hv; exact hv
    · rw [denote_tuple] at hv ⊢
      have hm := mapM_mono dVal rfl (denote S g ρ) (denote S f ρs) ks kss hlen hq
      cases hk : kss.mapM (fun k => dVal (denote S f ρs k)) with
      | none => rw [hk] at hv; cases hv
      | some vs => rw [hm vs hk]; rw [hk] at hv; exact hv
    · rw [denote_decart] at hv ⊢
      have hm := mapM_mono dSet rfl (denote S g ρ) (denote S f ρs) ks kss hlen hq
      cases hk : kss.mapM (fun k => dSet (denote S f ρs k)) with
      | none => rw [hk] at hv; cases hv
      | some vs => rw [hm vs hk]; rw [hk] at hv; exact hv
  | @quant K Δ t dom body doms bodys d lo hi lo' hi' x x' dlo dhi dlo' dhi' ht hx' _ _ ihd ihb =>
    intro ρ ρs hr
    refine Sim.node (fun f g hg => ?_)
    have kd := (ihd ρ ρs hr).ole hg
    intro v hv
    rw [denote_quant ht] at hv ⊢
    cases hrd : denote S f ρs doms with
    | none => rw [hrd] at hv; simp [dSet, dVal] at hv
    | some wd =>
      rw [kd wd hrd]; rw [hrd] at hv
      cases hs : dSet (some wd) with
      | none => rw [hs] at hv; simp at hv
      | some xs =>
        rw [hs] at hv
        have hb : ∀ w ∈ xs, OLe (dBool (denote S f (.val x' w ρs) bodys)) (dBool (denote S g (.val x w ρ) body)) :=
          fun w _ => dBool_mono ((ihb _ _ (hr.bind x x' w hx')).ole hg)
        have hall := kAll_mono xs _ _ hb
        have hany := kAny_mono xs _ _ hb
        simp only at hv ⊢
        by_cases hu : (t == Tok.FORALL) = true
        · simp only [hu, if_true] at hv ⊢
          cases hk : kAll (xs.map fun w => dBool (denote S f (.val x' w ρs) bodys)) with
          | none => rw [hk] at hv; cases hv
          | some r => rw [hall r hk]; rw [hk] at hv; exact hv
        · simp only [hu] at hv ⊢
          cases hk : kAny (xs.map fun w => dBool (denote S f (.val x' w ρs) bodys)) with
          | none => rw [hk] at hv; cases hv
          | some r => rw [hany r hk]; rw [hk] at hv; exact hv
  | @decl K Δ dom body doms bodys d lo hi lo' hi' x x' dlo dhi dlo' dhi' hx' _ _ ihd ihb =>
    intro ρ ρs hr
    refine Sim.node (fun f g hg => ?_)
    have kd := (ihd ρ ρs hr).ole hg
    intro v hv
    rw [denote_decl] at hv ⊢
    cases hrd : denote S f ρs doms with
    | none => rw [hrd] at hv; simp [dSet, dVal] at hv
    | some wd =>
      rw [kd wd hrd]; rw [hrd] at hv
      cases hs : dSet (some wd) with
      | none => rw [hs] at hv; simp at hv
      | some xs =>
        rw [hs] at hv
        have hb : ∀ w ∈ xs, OLe ((dBool (denote S f (.val x' w ρs) bodys)).map fun b => (w, b))
            ((dBool (denote S g (.val x w ρ) body)).map fun b => (w, b)) :=
          fun w _ => OLe.strict1 (fun r => (dBool r).map fun b => (w, b)) rfl ((ihb _ _ (hr.bind x x' w hx')).ole hg)
        have hm := mapM_val_mono xs _ _ hb
        simp only at hv ⊢
        cases hk : xs.mapM (fun w => (dBool (denote S f (.val x' w ρs) bodys)).map fun b => (w, b)) with
        | none => rw [hk] at hv; cases hv
        | some r => rw [hm r hk]; rw [hk] at hv; exact hv
  | @call Ka Kb Δ es body hd d lo hi ft fn flo fhi fks tt td tlo thi fd dlo dhi at' ad alo ahi adecls args argss hf hl1 hl2
      _ _ iha ihb =>
    intro ρ ρs hr
    intro f0 v hv f' hf'
    obtain ⟨g, rfl⟩ : ∃ g, f' = g + 1 := ⟨f' - 1, by omega⟩
    rw [denote_call S g ρ d lo hi ft fn flo fhi fks tt td tlo thi fd dlo dhi at' ad alo ahi adecls args hd body hf hl1]
    have hrel := parCtx_rel S (avoid Δ) Ka ρ ρs (paramNames adecls) args argss [] .nil hl2
      (fun q hq ρs' he => iha q hq ρ ρs' (hr.ext he)) (ERel.nil S _ _)
    exact ihb _ ρs hrel f0 v hv g (by omega)

end CCVerif.Eval
