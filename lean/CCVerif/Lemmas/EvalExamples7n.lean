import CCVerif.Lemmas.EvalCallsNorm
import CCVerif.Lemmas.EvalExamples7
/-! Non-vacuity witness of `normalize_correct_partial7` (calls with call-free, binder-free arguments and bodies):
`F2 :== [s∈ℬ(X1), t∈ℬ(X1)] s∩t`, caller `D{x∈X1 | F2[{x}, X1] = {x}}` over `X1 = {1,2}`; inlined form
`D{x∈X1 | {x}∩X1 = {x}}`. -/
namespace CCVerif.Eval.Examples7
open CCVerif.Syntax CCVerif.Spec CCVerif.Norm CCVerif.Eval CCVerif.Eval.Examples
open Ty

def sDecl : Ast := nd .NT_ARG_DECL [loc "s", nd .BOOLEAN [glob "X1"]]
def tDecl : Ast := nd .NT_ARG_DECL [loc "t", nd .BOOLEAN [glob "X1"]]

/-- `F2 :== [s∈ℬ(X1), t∈ℬ(X1)] s∩t` -/
def f2Def : Ast :=
  nd .PUNC_DEFINE [fnode "F2", nd .NT_FUNC_DEFINITION [nd .NT_ARGUMENTS [sDecl, tDecl], nd .INTERSECTION [loc "s", loc "t"]]]

def env7n : Env := { globals := [("X1", .s [.e 1, .e 2])], funcs := [("F2", f2Def)] }

theorem globalsOK_7n : GlobalsOK env7n G7 := by
  intro g τ h
  unfold G7 at h
  simp only [lookup] at h
  split at h
  · rename_i e
    have : g = "X1" := by simpa using e
    subst this
    injection h with h; subst h
    exact ⟨rfl, _, rfl, ⟨by decide, by decide⟩⟩
  · cases h

/-- `D{x∈X1 | F2[{x}, X1] = {x}}` -/
def caller2 : Ast :=
  nd .NT_DECLARATIVE_EXPR [loc "x", glob "X1", nd .EQUAL [nd .NT_FUNC_CALL [fnode "F2", enumX, glob "X1"], enumX]]

/-- `D{x∈X1 | {x}∩X1 = {x}}` -/
def caller2N : Ast :=
  nd .NT_DECLARATIVE_EXPR [loc "x", glob "X1", nd .EQUAL [nd .INTERSECTION [enumX, glob "X1"], enumX]]

theorem enumX_pl : Pl ["x"] enumX :=
  .nary _ _ _ [loc "x"] (Or.inl rfl) (by intro k hk; simp at hk; subst hk; exact .loc "x" 0 0 (by simp))

theorem enumX_cn : CN env7n.funcs ["x"] enumX enumX :=
  .nary _ _ _ [loc "x"] [loc "x"] (Or.inl rfl) rfl (by
    intro q hq
    simp only [List.zip_cons_cons, List.zip_nil_right, List.mem_cons, List.not_mem_nil, or_false] at hq
    subst hq; exact .loc "x" 0 0 (by simp))

theorem caller2_cn : CN env7n.funcs [] caller2 caller2N := by
  refine .decl _ 0 0 "x" 0 0 (by simp) (.glob "X1" 0 0) ?_
  refine .bin _ 0 0 (Or.inr (Or.inr (Or.inl (Or.inl rfl)))) ?_ enumX_cn
  refine .call _ 0 0 .ID_FUNCTION "F2" 0 0 [] .PUNC_DEFINE .none 0 0 .none 0 0 .NT_ARGUMENTS .none 0 0 [sDecl, tDecl]
    [enumX, glob "X1"] rfl rfl ?_ (by decide) ?_ ?_
  · intro dcl hd
    simp only [List.mem_cons, List.not_mem_nil, or_false] at hd
    rcases hd with rfl | rfl <;> exact ⟨_, _, _, _, _, _, rfl⟩
  · intro a ha
    simp only [List.mem_cons, List.not_mem_nil, or_false] at ha
    rcases ha with rfl | rfl
    · exact enumX_pl
    · exact .glob "X1" 0 0
  · exact .bin _ 0 0 (Or.inr (Or.inr (Or.inr (Or.inr (Or.inl (Or.inr (Or.inl rfl))))))) (.par "s" 0 0 enumX rfl)
      (.par "t" 0 0 (glob "X1") rfl)

theorem x1_frag7n (Γ : TCtx) : Frag env7n G7 6 Γ (glob "X1") (.ty (.coll X)) := .glob Γ "X1" 0 0 (by decide) rfl

theorem enumX_frag7n (Γ : TCtx) (hx : lookup "x" Γ = some X) : Frag env7n G7 6 Γ enumX (.ty (.coll X)) :=
  Frag.enum _ _ _ _ (by simp) (by
    intro k hk
    simp only [List.mem_cons, List.not_mem_nil, or_false] at hk
    subst hk; exact .loc _ "x" 0 0 (by decide) hx rfl)

theorem caller2N_frag : Frag env7n G7 6 [] caller2N (.ty (.coll X)) := by
  refine .decl (τ := X) _ _ _ "x" 0 0 (by decide) rfl rfl (by simp) (x1_frag7n _) ?_
  refine .eq (τ := .coll X) _ _ _ (Or.inl rfl) ?_ (enumX_frag7n _ rfl)
  exact .setOp _ _ _ (Or.inr (Or.inl rfl)) (enumX_frag7n _ rfl) (x1_frag7n _)

end CCVerif.Eval.Examples7
