import CCVerif.Model.Extract
/-!
# Lemmas on the extraction model (C13)

Generic facts on `Source.find`, `scan` / `scanFix`, `sortSubset` and `expandInputsGo`, stated for an
arbitrary predicate so that they do not depend on the specification side (`InMax`, `DepOf`), which
lives in `CCVerif/Properties/C13.lean`.
-/
namespace CCVerif.Extract

/-! ## source lookups -/

theorem Source.find_some {s : Source} {u : Nat} {it : Item} (h : s.find u = some it) :
    it ∈ s ∧ it.uid = u := by
  unfold Source.find at h
  exact ⟨List.mem_of_find?_eq_some h, by simpa using List.find?_some h⟩

theorem Source.contains_iff {s : Source} {u : Nat} :
    s.contains u = true ↔ ∃ it ∈ s, it.uid = u := by
  unfold Source.contains Source.find
  rw [List.find?_isSome]
  simp

theorem Source.contains_of_mem {s : Source} {it : Item} (h : it ∈ s) : s.contains it.uid = true :=
  Source.contains_iff.2 ⟨it, h, rfl⟩

theorem Source.find_of_contains {s : Source} {u : Nat} (h : s.contains u = true) :
    ∃ it, s.find u = some it := by
  unfold Source.contains at h
  exact Option.isSome_iff_exists.1 h

theorem Source.find_of_mem {s : Source} (hnd : (s.map (·.uid)).Nodup) {it : Item} (h : it ∈ s) :
    s.find it.uid = some it := by
  induction s with
  | nil => cases h
  | cons x l ih =>
    rw [List.map_cons, List.nodup_cons] at hnd
    unfold Source.find
    rw [List.find?_cons]
    rcases List.mem_cons.1 h with rfl | h'
    · simp
    · have hne : x.uid ≠ it.uid := by
        intro e
        apply hnd.1
        rw [e]
        exact List.mem_map.2 ⟨it, h', rfl⟩
      have : (x.uid == it.uid) = false := by simpa using hne
      rw [this]
      exact ih hnd.2 h'

theorem maxPartDefined_elim {s : Source} {args : List Nat} (h : maxPartDefined s args = true) :
    args ≠ [] ∧ ∀ u ∈ args, ∃ it, s.find u = some it ∧
      checkCst it args = true := by
  unfold maxPartDefined at h
  rw [Bool.and_eq_true, List.all_eq_true] at h
  refine ⟨by intro e; simp [e] at h, fun u hu => ?_⟩
  have := h.2 u hu
  cases hf : s.find u with
  | none => rw [hf] at this; cases this
  | some it => rw [hf] at this; exact ⟨it, rfl, by simpa using this⟩

/-! ## weighted count of the items satisfying a predicate (termination measures) -/

def wsum (f : Item → Nat) (p : Item → Bool) : List Item → Nat
  | [] => 0
  | x :: l => (if p x then f x else 0) + wsum f p l

theorem wsum_mono (f : Item → Nat) {p p' : Item → Bool} (hpp : ∀ x, p' x = true → p x = true)
    (l : List Item) : wsum f p' l ≤ wsum f p l := by
  induction l with
  | nil => exact Nat.le_refl _
  | cons x l ih =>
    simp only [wsum]
    by_cases h' : p' x = true
    · have := hpp x h'
      simp only [h', this, if_true]
      omega
    · have h'' : p' x = false := by simpa using h'
      simp only [h'', Bool.false_eq_true, if_false]
      split <;> omega

theorem wsum_drop (f : Item → Nat) {p p' : Item → Bool} (hpp : ∀ x, p' x = true → p x = true)
    {l : List Item} {it : Item} (hit : it ∈ l) (hp : p it = true) (hp' : p' it = false) :
    wsum f p' l + f it ≤ wsum f p l := by
  induction l with
  | nil => cases hit
  | cons x l ih =>
    simp only [wsum]
    rcases List.mem_cons.1 hit with rfl | h
    · have := wsum_mono f hpp l
      simp only [hp, hp', if_true]
      simp
      omega
    · have := ih h
      by_cases h' : p' x = true
      · have := hpp x h'
        simp only [h', this, if_true]
        omega
      · have h'' : p' x = false := by simpa using h'
        simp only [h'', Bool.false_eq_true, if_false]
        split <;> omega

theorem wsum_le_total (f : Item → Nat) (p : Item → Bool) (l : List Item) :
    wsum f p l ≤ (l.map f).sum := by
  induction l with
  | nil => exact Nat.le_refl _
  | cons x l ih =>
    simp only [wsum, List.map_cons, List.sum_cons]
    split <;> omega

theorem wsum_one_le_length (p : Item → Bool) (l : List Item) :
    wsum (fun _ => 1) p l ≤ l.length := by
  induction l with
  | nil => exact Nat.le_refl _
  | cons x l ih =>
    simp only [wsum, List.length_cons]
    split <;> omega

/-- the items whose uid is not yet selected -/
def notIn (sel : List Nat) (it : Item) : Bool := !sel.contains it.uid

theorem notIn_mono {sel sel' : List Nat} (h : ∀ u ∈ sel, u ∈ sel') :
    ∀ x, notIn sel' x = true → notIn sel x = true := by
  intro x hx
  simp only [notIn, Bool.not_eq_true', List.contains_eq_mem, decide_eq_false_iff_not] at hx ⊢
  exact fun hm => hx (h _ hm)

/-! ## one scan -/

def scanStep (sel : List Nat) (it : Item) : List Nat :=
  if !sel.contains it.uid && checkCst it sel then sel ++ [it.uid] else sel

theorem scan_eq (s : Source) (sel : List Nat) : scan s sel = s.foldl scanStep sel := rfl

theorem checkCst_nonempty {it : Item} {sel : List Nat} (he : it.emptyDef = false) :
    checkCst it sel = true ↔ ∀ i ∈ it.inputs, i ∈ sel := by
  simp [checkCst, he]

theorem checkCst_empty {it : Item} {sel : List Nat} (he : it.emptyDef = true) :
    checkCst it sel = true ↔ it.uid ∈ sel := by
  simp [checkCst, he]

theorem scanStep_cases (sel : List Nat) (it : Item) :
    scanStep sel it = sel ∨
    (scanStep sel it = sel ++ [it.uid] ∧ it.uid ∉ sel ∧ it.emptyDef = false ∧
      ∀ i ∈ it.inputs, i ∈ sel) := by
  unfold scanStep
  by_cases hc : (!sel.contains it.uid && checkCst it sel) = true
  · right
    rw [if_pos hc]
    simp only [Bool.and_eq_true, Bool.not_eq_true', List.contains_eq_mem,
      decide_eq_false_iff_not] at hc
    refine ⟨rfl, hc.1, ?_⟩
    cases he : it.emptyDef with
    | true => exact absurd ((checkCst_empty he).1 hc.2) hc.1
    | false => exact ⟨rfl, (checkCst_nonempty he).1 hc.2⟩
  · left
    rw [if_neg hc]

theorem scanStep_fire {sel : List Nat} {it : Item} (hn : it.uid ∉ sel) (he : it.emptyDef = false)
    (hin : ∀ i ∈ it.inputs, i ∈ sel) : scanStep sel it = sel ++ [it.uid] := by
  unfold scanStep
  rw [if_pos]
  simp only [Bool.and_eq_true, Bool.not_eq_true', List.contains_eq_mem, decide_eq_false_iff_not]
  exact ⟨hn, (checkCst_nonempty he).2 hin⟩

theorem scanStep_sub (sel : List Nat) (it : Item) :
    (∀ u ∈ sel, u ∈ scanStep sel it) ∧ sel.length ≤ (scanStep sel it).length := by
  rcases scanStep_cases sel it with h | ⟨h, _⟩ <;> rw [h]
  · exact ⟨fun _ hu => hu, Nat.le_refl _⟩
  · exact ⟨fun u hu => List.mem_append_left _ hu, by simp⟩

theorem foldl_scanStep_sub (l : List Item) (sel : List Nat) :
    (∀ u ∈ sel, u ∈ l.foldl scanStep sel) ∧ sel.length ≤ (l.foldl scanStep sel).length := by
  induction l generalizing sel with
  | nil => exact ⟨fun _ hu => hu, Nat.le_refl _⟩
  | cons x l ih =>
    rw [List.foldl_cons]
    have h1 := scanStep_sub sel x
    have h2 := ih (scanStep sel x)
    exact ⟨fun u hu => h2.1 u (h1.1 u hu), Nat.le_trans h1.2 h2.2⟩

/-- every uid in the result of a scan satisfies any predicate that holds on the start list and is
closed under the rule "non-empty definition, all inputs satisfy it" on the scanned items -/
theorem foldl_scanStep_inv (P : Nat → Prop) (l : List Item)
    (hP : ∀ it ∈ l, it.emptyDef = false → (∀ i ∈ it.inputs, P i) → P it.uid)
    (sel : List Nat) (h : ∀ u ∈ sel, P u) : ∀ u ∈ l.foldl scanStep sel, P u := by
  induction l generalizing sel with
  | nil => exact h
  | cons x l ih =>
    rw [List.foldl_cons]
    apply ih (fun it hit => hP it (List.mem_cons_of_mem _ hit))
    rcases scanStep_cases sel x with h1 | ⟨h1, _, he, hin⟩ <;> rw [h1]
    · exact h
    · intro u hu
      rcases List.mem_append.1 hu with hu | hu
      · exact h u hu
      · rw [List.mem_singleton.1 hu]
        exact hP x List.mem_cons_self he (fun i hi => h i (hin i hi))

/-- a scan that adds nothing certifies that the list is closed under the rule -/
theorem foldl_scanStep_closed (l : List Item) (sel : List Nat)
    (h : (l.foldl scanStep sel).length = sel.length) :
    ∀ it ∈ l, it.emptyDef = false → (∀ i ∈ it.inputs, i ∈ sel) → it.uid ∈ sel := by
  induction l generalizing sel with
  | nil => intro it hit; cases hit
  | cons x l ih =>
    rw [List.foldl_cons] at h
    have hlen := (foldl_scanStep_sub l (scanStep sel x)).2
    rcases scanStep_cases sel x with h1 | ⟨h1, _⟩
    · intro it hit he hin
      rcases List.mem_cons.1 hit with rfl | hit'
      · apply Classical.byContradiction
        intro hn
        have h2 := scanStep_fire hn he hin
        rw [h1] at h2
        have := congrArg List.length h2
        simp at this
      · rw [h1] at h
        exact ih sel h it hit' he hin
    · rw [h1] at hlen h
      simp at hlen
      omega

/-- a scan that adds something adds the uid of a scanned item that was not selected -/
theorem foldl_scanStep_progress (l : List Item) (sel : List Nat)
    (h : (l.foldl scanStep sel).length ≠ sel.length) :
    ∃ it ∈ l, it.uid ∉ sel ∧ it.uid ∈ l.foldl scanStep sel := by
  induction l generalizing sel with
  | nil => exact absurd rfl h
  | cons x l ih =>
    rw [List.foldl_cons] at h ⊢
    rcases scanStep_cases sel x with h1 | ⟨h1, hn, _⟩
    · rw [h1] at h ⊢
      obtain ⟨it, hit, h2, h3⟩ := ih sel h
      exact ⟨it, List.mem_cons_of_mem _ hit, h2, h3⟩
    · refine ⟨x, List.mem_cons_self, hn, ?_⟩
      apply (foldl_scanStep_sub l (scanStep sel x)).1
      rw [h1]
      simp

/-! ## repeated scans -/

theorem scanFix_sub (s : Source) (fuel : Nat) (sel : List Nat) :
    ∀ u ∈ sel, u ∈ scanFix s fuel sel := by
  induction fuel generalizing sel with
  | zero => exact fun _ hu => hu
  | succ n ih =>
    intro u hu
    simp only [scanFix]
    split
    · exact hu
    · exact ih _ u ((foldl_scanStep_sub s sel).1 u hu)

theorem scanFix_inv (P : Nat → Prop) (s : Source)
    (hP : ∀ it ∈ s, it.emptyDef = false → (∀ i ∈ it.inputs, P i) → P it.uid)
    (fuel : Nat) (sel : List Nat) (h : ∀ u ∈ sel, P u) : ∀ u ∈ scanFix s fuel sel, P u := by
  induction fuel generalizing sel with
  | zero => exact h
  | succ n ih =>
    simp only [scanFix]
    split
    · exact h
    · exact ih _ (foldl_scanStep_inv P s hP sel h)

/-- with more fuel than unselected source items, the loop stops on a scan that adds nothing -/
theorem scanFix_stable (s : Source) (fuel : Nat) (sel : List Nat)
    (hf : wsum (fun _ => 1) (notIn sel) s < fuel) :
    (scan s (scanFix s fuel sel)).length = (scanFix s fuel sel).length := by
  induction fuel generalizing sel with
  | zero => exact absurd hf (Nat.not_lt_zero _)
  | succ n ih =>
    simp only [scanFix]
    split
    · assumption
    · rename_i hne
      apply ih
      obtain ⟨it, hit, hn, hm⟩ := foldl_scanStep_progress s sel hne
      have := wsum_drop (fun _ => 1) (notIn_mono (foldl_scanStep_sub s sel).1) hit
        (p' := notIn (scan s sel)) (by simpa [notIn] using hn) (by simpa [notIn, scan_eq] using hm)
      omega

theorem maxPartSet_closed (s : Source) (args : List Nat) :
    ∀ it ∈ s, it.emptyDef = false → (∀ i ∈ it.inputs, i ∈ maxPartSet s args) →
      it.uid ∈ maxPartSet s args := by
  have h := scanFix_stable s (s.length + 1) args
    (Nat.lt_succ_of_le (wsum_one_le_length _ _))
  exact foldl_scanStep_closed s _ h

/-! ## `sortSubset` -/

theorem mem_sortSubset {s : Source} {sel : List Nat} (hs : ∀ u ∈ sel, s.contains u = true)
    (u : Nat) : u ∈ sortSubset s sel ↔ u ∈ sel := by
  match sel, hs with
  | [], _ => simp [sortSubset]
  | [x], _ => simp [sortSubset]
  | x :: y :: t, hs =>
    simp only [sortSubset, List.mem_map, List.mem_filter, List.contains_eq_mem, decide_eq_true_eq]
    constructor
    · rintro ⟨it, ⟨_, h⟩, rfl⟩
      exact h
    · intro h
      obtain ⟨it, hit, rfl⟩ := Source.contains_iff.1 (hs u h)
      exact ⟨it, ⟨hit, h⟩, rfl⟩

theorem sortSubset_sublist {s : Source} {sel : List Nat} (hs : ∀ u ∈ sel, s.contains u = true) :
    (sortSubset s sel).Sublist (s.map (·.uid)) := by
  match sel, hs with
  | [], _ => simp [sortSubset]
  | [x], hs =>
    simp only [sortSubset, List.singleton_sublist]
    obtain ⟨it, hit, rfl⟩ := Source.contains_iff.1 (hs x (by simp))
    exact List.mem_map.2 ⟨it, hit, rfl⟩
  | x :: y :: t, _ =>
    simp only [sortSubset]
    exact List.Sublist.map _ List.filter_sublist

/-! ## the backward-closure worklist -/

/-- the inputs recorded for a uid (none for a uid outside the source) -/
def insOf (s : Source) (u : Nat) : List Nat := ((s.find u).map (·.inputs)).getD []

theorem insOf_of_find {s : Source} {u : Nat} {it : Item} (h : s.find u = some it) :
    insOf s u = it.inputs := by simp [insOf, h]

theorem insOf_cases (s : Source) (u : Nat) :
    insOf s u = [] ∨ ∃ it, s.find u = some it ∧ insOf s u = it.inputs := by
  cases h : s.find u with
  | none => left; simp [insOf, h]
  | some it => right; exact ⟨it, rfl, by simp [insOf, h]⟩

/-- soundness: the worklist only ever collects uids satisfying a predicate that holds on the stack
and the accumulator and is inherited by recorded inputs -/
theorem expandInputsGo_inv (P : Nat → Prop) (s : Source)
    (hP : ∀ u, P u → ∀ i ∈ insOf s u, P i)
    (fuel : Nat) (stack acc : List Nat) (hs : ∀ u ∈ stack, P u) (ha : ∀ u ∈ acc, P u) :
    ∀ u ∈ expandInputsGo s fuel stack acc, P u := by
  induction fuel generalizing stack acc with
  | zero => simpa [expandInputsGo] using ha
  | succ n ih =>
    match stack, hs with
    | [], _ => simpa [expandInputsGo] using ha
    | u :: rest, hs =>
      simp only [expandInputsGo]
      split
      · exact ih rest acc (fun v hv => hs v (List.mem_cons_of_mem _ hv)) ha
      · apply ih
        · intro v hv
          rcases List.mem_append.1 hv with hv | hv
          · exact hP u (hs u List.mem_cons_self) v hv
          · exact hs v (List.mem_cons_of_mem _ hv)
        · intro v hv
          rcases List.mem_append.1 hv with hv | hv
          · exact ha v hv
          · rw [List.mem_singleton.1 hv]
            exact hs u List.mem_cons_self

/-- potential of a worklist state: pending entries plus the inputs still to be pushed -/
def potential (s : Source) (stack acc : List Nat) : Nat :=
  stack.length + wsum (·.inputs.length) (notIn acc) s

/-- completeness: with fuel above the potential, the result contains the stack and the accumulator
and is closed under recorded inputs -/
theorem expandInputsGo_closed (s : Source) (fuel : Nat) (stack acc : List Nat)
    (hf : potential s stack acc < fuel)
    (hI : ∀ u ∈ acc, ∀ i ∈ insOf s u, i ∈ acc ∨ i ∈ stack) :
    (∀ u ∈ acc, u ∈ expandInputsGo s fuel stack acc) ∧
    (∀ u ∈ stack, u ∈ expandInputsGo s fuel stack acc) ∧
    (∀ u ∈ expandInputsGo s fuel stack acc, ∀ i ∈ insOf s u,
      i ∈ expandInputsGo s fuel stack acc) := by
  induction fuel generalizing stack acc with
  | zero => exact absurd hf (Nat.not_lt_zero _)
  | succ n ih =>
    match stack, hf, hI with
    | [], _, hI =>
      simp only [expandInputsGo]
      refine ⟨fun _ h => h, (by intro _ h; cases h), ?_⟩
      intro u hu i hi
      rcases hI u hu i hi with h | h
      · exact h
      · cases h
    | u :: rest, hf, hI =>
      simp only [expandInputsGo]
      split
      · rename_i hc
        have hu : u ∈ acc := by simpa using hc
        have hf' : potential s rest acc < n := by
          simp only [potential, List.length_cons] at hf ⊢
          omega
        have hI' : ∀ v ∈ acc, ∀ i ∈ insOf s v, i ∈ acc ∨ i ∈ rest := by
          intro v hv i hi
          rcases hI v hv i hi with h | h
          · exact Or.inl h
          · rcases List.mem_cons.1 h with rfl | h
            · exact Or.inl hu
            · exact Or.inr h
        obtain ⟨h1, h2, h3⟩ := ih rest acc hf' hI'
        refine ⟨h1, ?_, h3⟩
        intro v hv
        rcases List.mem_cons.1 hv with rfl | hv
        · exact h1 _ hu
        · exact h2 v hv
      · rename_i hc
        have hu : u ∉ acc := by simpa using hc
        have hins : ((s.find u).map (·.inputs)).getD [] = insOf s u := rfl
        rw [hins]
        have hsub : ∀ v ∈ acc, v ∈ acc ++ [u] := fun v hv => List.mem_append_left _ hv
        have hf' : potential s (insOf s u ++ rest) (acc ++ [u]) < n := by
          simp only [potential, List.length_cons, List.length_append] at hf ⊢
          rcases insOf_cases s u with h0 | ⟨it, hfind, h0⟩
          · have := wsum_mono (·.inputs.length) (notIn_mono hsub) s
            rw [h0]
            simp only [List.length_nil]
            omega
          · obtain ⟨hit, huid⟩ := Source.find_some hfind
            have := wsum_drop (·.inputs.length) (notIn_mono hsub) hit
              (p' := notIn (acc ++ [u])) (by simpa [notIn, huid] using hu)
              (by simp [notIn, huid])
            rw [h0]
            omega
        have hI' : ∀ v ∈ acc ++ [u], ∀ i ∈ insOf s v,
            i ∈ acc ++ [u] ∨ i ∈ insOf s u ++ rest := by
          intro v hv i hi
          rcases List.mem_append.1 hv with hv | hv
          · rcases hI v hv i hi with h | h
            · exact Or.inl (hsub i h)
            · rcases List.mem_cons.1 h with rfl | h
              · exact Or.inl (by simp)
              · exact Or.inr (List.mem_append_right _ h)
          · rw [List.mem_singleton.1 hv] at hi
            exact Or.inr (List.mem_append_left _ hi)
        obtain ⟨h1, h2, h3⟩ := ih _ _ hf' hI'
        refine ⟨fun v hv => h1 v (hsub v hv), ?_, h3⟩
        intro v hv
        rcases List.mem_cons.1 hv with rfl | hv
        · exact h1 _ (by simp)
        · exact h2 v (List.mem_append_right _ hv)

theorem expandInputs_fuel (s : Source) (args : List Nat) :
    potential s (args.filter s.contains) [] < s.length + totalInputs s + args.length + 1 := by
  have h1 := wsum_le_total (·.inputs.length) (notIn []) s
  have h2 : (args.filter s.contains).length ≤ args.length := List.length_filter_le _ _
  simp only [potential, totalInputs] at *
  omega

end CCVerif.Extract
