import CCVerif.Model.Checker
/-!
Helper lemmas of C04, part 6 — where the type checker positions what it logs.

`Pos Q m`: running `m` only appends log entries whose position satisfies `Q`. Every rule of
`Model/Checker.lean` positions its errors and warnings at `node.lo`, `child.lo`, `child.hi`
(`ViGlobalDeclaration`) or `child.lo + 1` (`ViReduce`) of nodes of the tree it visits, so on a tree
all of whose nodes satisfy `Q lo`, `Q hi`, `Q (lo + 1)` (`TreeQ`) every logged position satisfies `Q`.
No hypothesis on the shape of the tree or on the nesting of its ranges (compare `Good` in
`Lemmas/CheckerErr.lean`, which bounds the positions by the range of the root and needs `WfRange`).
-/
namespace CCVerif.Checker
open CCVerif.Syntax CCVerif.Types

inductive TreeQ (Q : Int → Prop) : Ast → Prop where
  | node {t : Tok} {d : TokData} {lo hi : Int} {ks : List Ast} :
      Q lo → Q hi → Q (lo + 1) → (∀ k, k ∈ ks → TreeQ Q k) → TreeQ Q (.node t d lo hi ks)

variable {Q : Int → Prop}

theorem TreeQ.qlo {a : Ast} (h : TreeQ Q a) : Q a.lo := by cases h; assumption
theorem TreeQ.qhi {a : Ast} (h : TreeQ Q a) : Q a.hi := by cases h; assumption
theorem TreeQ.qlo1 {a : Ast} (h : TreeQ Q a) : Q (a.lo + 1) := by cases h; assumption
theorem TreeQ.kid {a k : Ast} (h : TreeQ Q a) (hk : k ∈ a.kids) : TreeQ Q k := by
  cases h with | node _ _ _ h4 => exact h4 k hk

theorem kid_mem' {a k : Ast} {i : Nat} (h : a.kid i = some k) : k ∈ a.kids := by
  unfold Ast.kid at h; exact List.mem_of_getElem? h

structure Pos (Q : Int → Prop) {α : Type} (m : M α) : Prop where
  run : ∀ s : St, ∃ new : List Err, (m s).2.errs = new ++ s.errs ∧ ∀ e, e ∈ new → Q e.2

theorem pos_pure {α} (a : α) : Pos Q (M.pure a) := ⟨fun _ => ⟨[], rfl, by simp⟩⟩
theorem pos_stuck {α} (x : String) : Pos Q (stuckM x : M α) := ⟨fun _ => ⟨[], rfl, by simp⟩⟩
theorem pos_failSilent {α} : Pos Q (failSilent : M α) := ⟨fun _ => ⟨[], rfl, by simp⟩⟩
theorem pos_setCur (t : ExprTy) : Pos Q (setCur t) := ⟨fun _ => ⟨[], rfl, by simp⟩⟩
theorem pos_getSt : Pos Q getSt := ⟨fun _ => ⟨[], rfl, by simp⟩⟩
theorem pos_modify (f : St → St) (h : ∀ s, (f s).errs = s.errs) : Pos Q (modifySt f) :=
  ⟨fun s => ⟨[], by simp [modifySt, h], by simp⟩⟩

theorem pos_errFail {α} (eid : Nat) (pos : Int) (h : Q pos) : Pos Q (errFail eid pos : M α) :=
  ⟨fun _ => ⟨[(eid, pos)], rfl, by intro e he; simp at he; subst he; exact h⟩⟩

theorem pos_errFailTok {α} (a : Ast) (eid : Nat) (pos : Int) (h : Q pos) : Pos Q (errFailTok a eid pos : M α) := by
  unfold errFailTok
  split
  · exact pos_stuck _
  · exact pos_errFail _ _ h

theorem pos_bind {α β} {m : M α} {f : α → M β} (hm : Pos Q m) (hf : ∀ a, Pos Q (f a)) : Pos Q (M.bind m f) := by
  refine ⟨fun s => ?_⟩
  obtain ⟨new1, e1, r1⟩ := hm.run s
  unfold M.bind
  cases hms : m s with
  | mk r s1 =>
    rw [hms] at e1
    cases r with
    | ok a =>
      obtain ⟨new2, e2, r2⟩ := (hf a).run s1
      refine ⟨new2 ++ new1, ?_, ?_⟩
      · simp only []; rw [e2]; simp at e1; rw [e1]; simp
      · intro e he
        rcases List.mem_append.mp he with h | h
        · exact r2 e h
        · exact r1 e h
    | fail => exact ⟨new1, e1, r1⟩
    | stuck x => exact ⟨new1, e1, r1⟩

theorem pos_kidM (a : Ast) (i : Nat) : Pos Q (kidM a i) := by
  unfold kidM; split
  · exact pos_pure _
  · exact pos_stuck _

theorem pos_kidM_bind {α} {a : Ast} {i : Nat} {f : Ast → M α}
    (h : ∀ k, a.kid i = some k → Pos Q (f k)) : Pos Q (M.bind (kidM a i) f) := by
  unfold kidM
  cases hk : a.kid i with
  | none => refine ⟨fun s => ?_⟩; exact ⟨[], rfl, by simp⟩
  | some k =>
    have := h k hk
    refine ⟨fun s => ?_⟩; simpa [M.bind, M.pure] using this.run s

theorem pos_expectTy (site : String) (t : ExprTy) : Pos Q (expectTy site t) := by
  unfold expectTy; split
  · exact pos_pure _
  · exact pos_stuck _

theorem pos_textOf (a : Ast) : Pos Q (textOf a) := by
  unfold textOf; split
  · exact pos_pure _
  · exact pos_stuck _

theorem pos_tupleOfData (a : Ast) : Pos Q (tupleOfData a) := by
  unfold tupleOfData; split
  · exact pos_pure _
  · exact pos_stuck _

theorem pos_mkTuple (site : String) (cs : List Ty) : Pos Q (mkTuple site cs) := by
  unfold mkTuple; split
  · exact pos_stuck _
  · exact pos_pure _

/-- hypothesis on the recursive visitor -/
def PosV (Q : Int → Prop) (v : Visitor) : Prop := ∀ p k, TreeQ Q k → Pos Q (v p k)

theorem pos_v_kid {v : Visitor} (hv : PosV Q v) {a k : Ast} (hw : TreeQ Q a) (hk : k ∈ a.kids) (p : Option Tok) :
    Pos Q (v p k) := hv p k (hw.kid hk)

theorem pos_visitChild {v : Visitor} (hv : PosV Q v) {a : Ast} (hw : TreeQ Q a) (i : Nat) :
    Pos Q (visitChild v a i) := by
  unfold visitChild
  exact pos_kidM_bind fun k hk => pos_v_kid hv hw (kid_mem' hk) _

theorem pos_visitAll {v : Visitor} (hv : PosV Q v) {a : Ast} (hw : TreeQ Q a) (p : Tok) :
    ∀ ks : List Ast, (∀ k, k ∈ ks → k ∈ a.kids) → Pos Q (visitAll v p ks)
  | [], _ => pos_pure _
  | k :: ks, h => by
    unfold visitAll
    exact pos_bind (pos_v_kid hv hw (h k (by simp)) _) fun _ =>
      pos_visitAll hv hw p ks fun k' hk' => h k' (by simp [hk'])

theorem pos_childType {v : Visitor} (hv : PosV Q v) {a : Ast} (hw : TreeQ Q a) (i : Nat) :
    Pos Q (childType v a i) := by
  unfold childType
  apply pos_kidM_bind
  intro k hk
  refine ⟨fun s => ?_⟩
  obtain ⟨new, e1, e2⟩ := (pos_v_kid hv hw (kid_mem' hk) (some a.id)).run s
  refine ⟨new, ?_, e2⟩
  dsimp only; revert e1; generalize v (some a.id) k s = r; intro e1
  obtain ⟨r, s'⟩ := r; cases r <;> simpa using e1

/-- `kidM a i >>= fun k => errFail eid k.lo` -/
theorem pos_kidErr {α} {a : Ast} (hw : TreeQ Q a) (i : Nat) (eid : Nat) :
    Pos Q (M.bind (kidM a i) fun k => (errFail eid k.lo : M α)) :=
  pos_kidM_bind fun _ hk => pos_errFail _ _ (hw.kid (kid_mem' hk)).qlo

theorem pos_kidErrTok {α} {a : Ast} (hw : TreeQ Q a) (i : Nat) (eid : Nat) :
    Pos Q (M.bind (kidM a i) fun k => (errFailTok a eid k.lo : M α)) :=
  pos_kidM_bind fun _ hk => pos_errFailTok _ _ _ (hw.kid (kid_mem' hk)).qlo

/-- `ViGlobalDeclaration`: `iter(0).pos.finish` -/
theorem pos_kidErrHi {α} {a : Ast} (hw : TreeQ Q a) (i : Nat) (eid : Nat) :
    Pos Q (M.bind (kidM a i) fun k => (errFail eid k.hi : M α)) :=
  pos_kidM_bind fun _ hk => pos_errFail _ _ (hw.kid (kid_mem' hk)).qhi

/-- `ViReduce`: `iter(0).pos.start + 1` -/
theorem pos_kidErrLo1 {α} {a : Ast} (hw : TreeQ Q a) (i : Nat) (eid : Nat) :
    Pos Q (M.bind (kidM a i) fun k => (errFail eid (k.lo + 1) : M α)) :=
  pos_kidM_bind fun _ hk => pos_errFail _ _ (hw.kid (kid_mem' hk)).qlo1

theorem pos_errHere {α} {a : Ast} (hw : TreeQ Q a) (eid : Nat) : Pos Q (errFail eid a.lo : M α) :=
  pos_errFail _ _ hw.qlo

theorem pos_childTypeDebool {v : Visitor} (hv : PosV Q v) {a : Ast} (hw : TreeQ Q a) (i : Nat) (eid : Nat)
    (tok : Bool) : Pos Q (childTypeDebool v a i eid tok) := by
  unfold childTypeDebool
  apply pos_bind (pos_childType hv hw i)
  intro r
  split
  · exact pos_failSilent
  · split
    · exact pos_pure _
    · split
      · exact pos_pure _
      · apply pos_kidM_bind; intro k hk
        split
        · exact pos_errFailTok _ _ _ (hw.kid (kid_mem' hk)).qlo
        · exact pos_errFail _ _ (hw.kid (kid_mem' hk)).qlo

theorem pos_startScope : Pos Q startScope := pos_modify _ (fun _ => rfl)
theorem pos_clearLocals : Pos Q clearLocals := pos_modify _ (fun _ => rfl)

theorem endScopeGo_pos (nw : Bool) (pos : Int) : ∀ (ls : List LocalData) (e : Err),
    e ∈ (endScopeGo nw pos ls).2 → e.2 = pos
  | [], e, h => by simp [endScopeGo] at h
  | v :: vs, e, h => by
    have ih := endScopeGo_pos nw pos vs e
    unfold endScopeGo at h
    simp only [] at h
    split at h
    · split at h
      · simp at h; rcases h with h | h
        · subst h; rfl
        · exact ih h
      · exact ih h
    · exact ih h

theorem pos_endScope (pos : Int) (h : Q pos) : Pos Q (endScope pos) := by
  refine ⟨fun s => ?_⟩
  refine ⟨(endScopeGo (decide (s.noWarn > 0)) pos s.locals).2.reverse, ?_, ?_⟩
  · simp [endScope, modifySt]
  · intro e he
    have := endScopeGo_pos _ pos s.locals e (by simpa using he)
    rw [this]; exact h

theorem pos_addLocal (name : String) (t : Ty) (pos : Int) (h : Q pos) : Pos Q (addLocal name t pos) := by
  refine ⟨fun s => ?_⟩
  unfold addLocal
  split
  · split
    · exact ⟨[(EID.localShadowing, pos)], rfl, by intro e he; simp at he; subst he; exact h⟩
    · by_cases hn : s.noWarn > 0
      · exact ⟨[], by simp [hn], by simp⟩
      · exact ⟨[(EID.localDoubleDeclare, pos)], by simp [hn], by intro e he; simp at he; subst he; exact h⟩
  · exact ⟨[], rfl, by simp⟩

theorem pos_getLocal (name : String) (pos : Int) (h : Q pos) : Pos Q (getLocal name pos) := by
  refine ⟨fun s => ?_⟩
  unfold getLocal
  split
  · split
    · exact ⟨[], rfl, by simp⟩
    · exact ⟨[(EID.localUndeclared, pos)], rfl, by intro e he; simp at he; subst he; exact h⟩
  · split
    · exact ⟨[(EID.localOutOfScope, pos)], rfl, by intro e he; simp at he; subst he; exact h⟩
    · exact ⟨[], rfl, by simp⟩

theorem pos_visitChildDecl {v : Visitor} (hv : PosV Q v) {a : Ast} (hw : TreeQ Q a) (i : Nat) (t : Ty) :
    Pos Q (visitChildDecl v a i t) := by
  unfold visitChildDecl
  exact pos_bind (pos_setCur _) fun _ => pos_bind (pos_modify _ fun _ => rfl) fun _ =>
    pos_bind (pos_visitChild hv hw i) fun _ => pos_bind (pos_modify _ fun _ => rfl) fun _ => pos_setCur _

/-! ## the rules -/

syntax "pos_step" ident ident : tactic
macro_rules
  | `(tactic| pos_step $hv $hw) => `(tactic| first
    | exact pos_pure _ | exact pos_stuck _ | exact pos_failSilent | exact pos_setCur _ | exact pos_getSt
    | exact pos_expectTy _ _ | exact pos_kidM _ _ | exact pos_textOf _ | exact pos_tupleOfData _ | exact pos_mkTuple _ _
    | exact pos_childType $hv $hw _ | exact pos_visitChild $hv $hw _ | exact pos_visitChildDecl $hv $hw _ _
    | exact pos_visitAll $hv $hw _ _ (fun _ h => h)
    | exact pos_visitAll $hv $hw _ _ (fun _ h => List.mem_of_mem_drop h)
    | exact pos_startScope | exact pos_clearLocals | exact pos_modify _ (fun _ => rfl)
    | exact pos_kidErr $hw _ _ | exact pos_kidErrTok $hw _ _ | exact pos_kidErrHi $hw _ _ | exact pos_kidErrLo1 $hw _ _
    | exact pos_childTypeDebool $hv $hw _ _ _
    | exact pos_errHere $hw _ | exact pos_endScope _ (TreeQ.qlo $hw)
    | exact pos_addLocal _ _ _ (TreeQ.qlo $hw)
    | exact pos_getLocal _ _ (TreeQ.qlo $hw)
    | apply pos_bind
    | intro _
    | split
    | (dsimp only; split))

syntax "pos_auto" ident ident : tactic
macro_rules
  | `(tactic| pos_auto $hv $hw) => `(tactic| repeat (any_goals (pos_step $hv $hw)))

section
variable {v : Visitor} (hv : PosV Q v) {a : Ast} (hw : TreeQ Q a)
include hv hw

theorem pos_viGlobalDeclaration : Pos Q (viGlobalDeclaration v a) := by
  unfold viGlobalDeclaration; pos_auto hv hw

theorem pos_viFunctionDefinition : Pos Q (viFunctionDefinition v a) := by
  unfold viFunctionDefinition; pos_auto hv hw

theorem pos_checkArgsGo (Γ : Ctx) (fn : String) : ∀ (n : Nat) (decl : List (String × Ty)) (child : Nat) (subs : Subst),
    Pos Q (checkArgsGo Γ v a fn n decl child subs)
  | 0, _, _, _ => pos_pure _
  | n+1, decl, child, subs => by
    unfold checkArgsGo
    apply pos_bind (pos_childType hv hw _)
    intro ct
    split
    · exact pos_failSilent
    · split
      · exact pos_stuck _
      · dsimp only
        split
        · exact pos_kidErr hw _ _
        · exact pos_checkArgsGo Γ fn n _ _ _

theorem pos_checkFuncArguments (Γ : Ctx) (fn : String) : Pos Q (checkFuncArguments Γ v a fn) := by
  unfold checkFuncArguments
  split
  · exact pos_kidErr hw _ _
  · dsimp only
    split
    · exact pos_kidErr hw _ _
    · exact pos_checkArgsGo hv hw Γ fn _ _ _ _

theorem pos_viFunctionCall (Γ : Ctx) : Pos Q (viFunctionCall Γ v a) := by
  unfold viFunctionCall
  apply pos_kidM_bind; intro k0 _
  apply pos_bind (pos_textOf _); intro fn
  split
  · exact pos_errHere hw _
  · apply pos_bind (pos_checkFuncArguments hv hw Γ fn); intro subs
    split <;> exact pos_setCur _

theorem pos_tupleDeclGo (p : Tok) : ∀ (ks : List Ast) (cs : List Ty), (∀ k, k ∈ ks → k ∈ a.kids) →
    Pos Q (tupleDeclGo v p ks cs)
  | [], _, _ => by unfold tupleDeclGo; exact pos_pure _
  | _ :: _, [], _ => by unfold tupleDeclGo; exact pos_stuck _
  | k :: ks, c :: cs, h => by
    unfold tupleDeclGo
    apply pos_bind (pos_setCur _); intro _
    apply pos_bind (pos_v_kid hv hw (h k (by simp)) _); intro _
    exact pos_tupleDeclGo p ks cs fun k' hk' => h k' (by simp [hk'])

theorem pos_viTupleDeclaration : Pos Q (viTupleDeclaration v a) := by
  unfold viTupleDeclaration
  apply pos_bind pos_getSt; intro s
  apply pos_bind (pos_expectTy _ _); intro t
  split
  · split
    · exact pos_kidErr hw _ _
    · apply pos_bind (pos_tupleDeclGo hv hw _ _ _ fun _ h => h); intro _; exact pos_setCur _
  · exact pos_kidErr hw _ _

theorem pos_viAllLogic : Pos Q (viAllLogic v a) := by
  unfold viAllLogic; pos_auto hv hw

theorem pos_viArgument : Pos Q (viArgument v a) := by
  unfold viArgument; pos_auto hv hw

theorem pos_viCard : Pos Q (viCard v a) := by
  unfold viCard; pos_auto hv hw

theorem pos_viArithmetic (Γ : Ctx) : Pos Q (viArithmetic Γ v a) := by
  unfold viArithmetic; pos_auto hv hw

theorem pos_viIntegerPredicate (Γ : Ctx) : Pos Q (viIntegerPredicate Γ v a) := by
  unfold viIntegerPredicate; pos_auto hv hw

theorem pos_viQuantifier : Pos Q (viQuantifier v a) := by
  unfold viQuantifier; pos_auto hv hw

theorem pos_viEquals (Γ : Ctx) : Pos Q (viEquals Γ v a) := by
  unfold viEquals; pos_auto hv hw

theorem pos_viSetexprPredicate (Γ : Ctx) : Pos Q (viSetexprPredicate Γ v a) := by
  unfold viSetexprPredicate; pos_auto hv hw

theorem pos_viDeclarative : Pos Q (viDeclarative v a) := by
  unfold viDeclarative; pos_auto hv hw

theorem pos_viImperative : Pos Q (viImperative v a) := by
  unfold viImperative visitFrom; pos_auto hv hw

theorem pos_viIterate : Pos Q (viIterate v a) := by
  unfold viIterate; pos_auto hv hw

theorem pos_viAssign : Pos Q (viAssign v a) := by
  unfold viAssign; pos_auto hv hw

theorem pos_recursionRounds (te : TraitEnv) (idx : Nat) :
    ∀ (n : Nat) (it : Ty), Pos Q (recursionRounds te v a idx n it)
  | 0, _ => pos_pure _
  | n+1, it => by
    unfold recursionRounds
    apply pos_bind pos_clearLocals; intro _
    apply pos_bind (pos_visitChildDecl hv hw _ _); intro _
    apply pos_bind (pos_childType hv hw _); intro r
    apply pos_bind (pos_expectTy _ _); intro nt
    split
    · exact pos_pure _
    · split
      · exact pos_pure _
      · exact pos_recursionRounds te idx n _

theorem pos_viRecursion (Γ : Ctx) : Pos Q (viRecursion Γ v a) := by
  unfold viRecursion
  apply pos_bind pos_startScope; intro _
  apply pos_bind (pos_childType hv hw _); intro initR
  apply pos_bind (pos_expectTy _ _); intro initT
  apply pos_bind (pos_visitChildDecl hv hw _ _); intro _
  apply pos_bind (pos_childType hv hw _); intro itR
  split
  · exact pos_stuck _
  · exact pos_kidErr hw _ _
  · apply pos_bind (pos_expectTy _ _); intro it0
    split
    · exact pos_kidErr hw _ _
    · apply pos_bind
      · exact pos_modify _ (fun _ => rfl)
      intro _
      apply pos_bind (pos_recursionRounds hv hw _ _ _ _); intro it
      pos_auto hv hw

theorem pos_deboolAll (eid : Nat) : ∀ (n i : Nat), Pos Q (deboolAll v a eid n i)
  | 0, _ => pos_pure _
  | n+1, i => by
    unfold deboolAll
    apply pos_bind (pos_childTypeDebool hv hw _ _ _); intro t
    apply pos_bind (pos_deboolAll eid n (i + 1)); intro ts
    exact pos_pure _

theorem pos_viDecart : Pos Q (viDecart v a) := by
  unfold viDecart
  apply pos_bind (pos_deboolAll hv hw _ _ _); intro fs
  pos_auto hv hw

theorem pos_viBoolean : Pos Q (viBoolean v a) := by
  unfold viBoolean; pos_auto hv hw

theorem pos_typesAll (site : String) : ∀ (n i : Nat), Pos Q (typesAll v a site n i)
  | 0, _ => pos_pure _
  | n+1, i => by
    unfold typesAll
    apply pos_bind (pos_childType hv hw _); intro r
    apply pos_bind (pos_expectTy _ _); intro t
    apply pos_bind (pos_typesAll site n (i + 1)); intro ts
    exact pos_pure _

theorem pos_viTuple : Pos Q (viTuple v a) := by
  unfold viTuple
  apply pos_bind (pos_typesAll hv hw _ _ _); intro cs
  pos_auto hv hw

theorem pos_enumGo (Γ : Ctx) : ∀ (n child : Nat) (t : Ty), Pos Q (enumGo Γ v a n child t)
  | 0, _, _ => pos_pure _
  | n+1, child, t => by
    unfold enumGo
    apply pos_bind (pos_childType hv hw _); intro r
    apply pos_bind (pos_expectTy _ _); intro ct
    split
    · exact pos_kidErr hw _ _
    · exact pos_enumGo Γ n _ _

theorem pos_viEnumeration (Γ : Ctx) : Pos Q (viEnumeration Γ v a) := by
  unfold viEnumeration
  apply pos_bind (pos_childType hv hw _); intro r
  apply pos_bind (pos_expectTy _ _); intro t0
  apply pos_bind (pos_enumGo hv hw Γ _ _ _); intro t
  exact pos_setCur _

theorem pos_viDebool : Pos Q (viDebool v a) := by
  unfold viDebool; pos_auto hv hw

theorem pos_viSetexprBinary (Γ : Ctx) : Pos Q (viSetexprBinary Γ v a) := by
  unfold viSetexprBinary; pos_auto hv hw

theorem pos_viProjectSet : Pos Q (viProjectSet v a) := by
  unfold viProjectSet; pos_auto hv hw

theorem pos_viProjectTuple : Pos Q (viProjectTuple v a) := by
  unfold viProjectTuple; pos_auto hv hw

theorem pos_filterParamsGo (Γ : Ctx) : ∀ (n child : Nat) (bases : List Ty), Pos Q (filterParamsGo Γ v a n child bases)
  | 0, _, _ => pos_pure _
  | n+1, child, bases => by
    unfold filterParamsGo
    apply pos_bind (pos_childType hv hw _); intro r
    apply pos_bind (pos_expectTy _ _); intro pt
    split
    · exact pos_stuck _
    · split
      · split
        · exact pos_filterParamsGo Γ n _ _
        · exact pos_kidErr hw _ _
      · exact pos_kidErr hw _ _

theorem pos_visitParamsGo : ∀ (n child : Nat), Pos Q (visitParamsGo v a n child)
  | 0, _ => pos_pure _
  | n+1, child => by
    unfold visitParamsGo
    apply pos_bind (pos_childType hv hw _); intro _
    exact pos_visitParamsGo n _

theorem pos_viFilter (Γ : Ctx) : Pos Q (viFilter Γ v a) := by
  unfold viFilter
  apply pos_bind (pos_tupleOfData _); intro idx
  dsimp only
  split
  · exact pos_errHere hw _
  · apply pos_bind (pos_childType hv hw _); intro r
    apply pos_bind (pos_expectTy _ _); intro arg
    split
    · apply pos_bind (pos_visitParamsGo hv hw _ _); intro _; exact pos_setCur _
    · split
      · split
        · exact pos_kidErrTok hw _ _
        · split
          · apply pos_bind (pos_filterParamsGo hv hw Γ _ _ _); intro _; exact pos_setCur _
          · pos_auto hv hw
      · exact pos_kidErrTok hw _ _

theorem pos_viReduce : Pos Q (viReduce v a) := by
  unfold viReduce; pos_auto hv hw

omit hv in
theorem pos_viGlobal (Γ : Ctx) (parent : Option Tok) : Pos Q (viGlobal Γ parent a) := by
  unfold viGlobal
  apply pos_bind (pos_textOf _); intro alias
  split
  · exact pos_errHere hw _
  · split
    · exact pos_errHere hw _
    · split
      · exact pos_errHere hw _
      · exact pos_setCur _

omit hv in
theorem pos_viRadical (Γ : Ctx) : Pos Q (viRadical Γ a) := by
  unfold viRadical
  apply pos_bind (pos_textOf _); intro alias
  apply pos_bind pos_getSt; intro s
  split
  · exact pos_errHere hw _
  · exact pos_setCur _

omit hv in
theorem pos_viLocal : Pos Q (viLocal a) := by
  unfold viLocal
  apply pos_bind (pos_textOf _); intro name
  apply pos_bind pos_getSt; intro s
  split
  · apply pos_bind (pos_expectTy _ _); intro t
    exact pos_addLocal _ _ _ hw.qlo
  · apply pos_bind (pos_getLocal _ _ hw.qlo); intro t
    exact pos_setCur _

omit hv in
theorem pos_viEmptySet (parent : Option Tok) : Pos Q (viEmptySet parent a) := by
  unfold viEmptySet
  split
  · exact pos_errHere hw _
  · exact pos_setCur _

theorem pos_dispatch (Γ : Ctx) (parent : Option Tok) : Pos Q (dispatch Γ v parent a) := by
  unfold dispatch
  split
  all_goals first
    | exact pos_viGlobal hw Γ parent | exact pos_viLocal hw | exact pos_viRadical hw Γ
    | exact pos_viFunctionDefinition hv hw | exact pos_viFunctionCall hv hw Γ
    | exact pos_setCur _ | exact pos_viEmptySet hw parent | exact pos_viTupleDeclaration hv hw
    | exact pos_viAllLogic hv hw | exact pos_viArgument hv hw | exact pos_viArithmetic hv hw Γ
    | exact pos_viCard hv hw | exact pos_viQuantifier hv hw | exact pos_viEquals hv hw Γ
    | exact pos_viIntegerPredicate hv hw Γ | exact pos_viSetexprPredicate hv hw Γ
    | exact pos_viIterate hv hw | exact pos_viAssign hv hw | exact pos_viDeclarative hv hw
    | exact pos_viImperative hv hw | exact pos_viDecart hv hw | exact pos_viBoolean hv hw
    | exact pos_viRecursion hv hw Γ | exact pos_viTuple hv hw | exact pos_viEnumeration hv hw Γ
    | exact pos_viDebool hv hw | exact pos_viSetexprBinary hv hw Γ | exact pos_viProjectSet hv hw
    | exact pos_viProjectTuple hv hw | exact pos_viFilter hv hw Γ | exact pos_viReduce hv hw
    | exact pos_viGlobalDeclaration hv hw

end

theorem pos_visit (Γ : Ctx) : ∀ n : Nat, PosV Q (visit Γ n)
  | 0 => fun _ _ _ => pos_stuck _
  | n+1 => fun p _ hw => pos_dispatch (pos_visit Γ n) hw Γ p

/-! ## the value auditor -/

structure VPos (Q : Int → Prop) {α : Type} (m : VM α) : Prop where
  run : ∀ s : VSt, ∃ new : List Err, (m s).2.errs = new ++ s.errs ∧ ∀ e, e ∈ new → Q e.2

theorem vpos_pure {α} (a : α) : VPos Q (VM.pure a) := ⟨fun _ => ⟨[], rfl, by simp⟩⟩
theorem vpos_stuck {α} (x : String) : VPos Q (vStuck x : VM α) := ⟨fun _ => ⟨[], rfl, by simp⟩⟩
theorem vpos_fail {α} : VPos Q (vFail : VM α) := ⟨fun _ => ⟨[], rfl, by simp⟩⟩
theorem vpos_set (c : VClass) : VPos Q (vSet c) := ⟨fun _ => ⟨[], rfl, by simp⟩⟩
theorem vpos_get : VPos Q vGet := ⟨fun _ => ⟨[], rfl, by simp⟩⟩

theorem vpos_err (report : Bool) (eid : Nat) (pos : Int) (h : Q pos) : VPos Q (vErr report eid pos) := by
  refine ⟨fun s => ?_⟩
  cases report with
  | false => exact ⟨[], by simp [vErr], by simp⟩
  | true => exact ⟨[(eid, pos)], by simp [vErr], by intro e he; simp at he; subst he; exact h⟩

theorem vpos_bind {α β} {m : VM α} {f : α → VM β} (hm : VPos Q m) (hf : ∀ a, VPos Q (f a)) : VPos Q (VM.bind m f) := by
  refine ⟨fun s => ?_⟩
  obtain ⟨new1, e1, r1⟩ := hm.run s
  unfold VM.bind
  cases hms : m s with
  | mk r s1 =>
    rw [hms] at e1
    cases r with
    | ok a =>
      obtain ⟨new2, e2, r2⟩ := (hf a).run s1
      refine ⟨new2 ++ new1, ?_, ?_⟩
      · simp only []; rw [e2]; simp at e1; rw [e1]; simp
      · intro e he
        rcases List.mem_append.mp he with h | h
        · exact r2 e h
        · exact r1 e h
    | fail => exact ⟨new1, e1, r1⟩
    | stuck x => exact ⟨new1, e1, r1⟩

theorem vpos_kid_bind {α} {a : Ast} {i : Nat} {f : Ast → VM α}
    (h : ∀ k, a.kid i = some k → VPos Q (f k)) : VPos Q (VM.bind (vKid a i) f) := by
  unfold vKid
  cases hk : a.kid i with
  | none => refine ⟨fun s => ?_⟩; exact ⟨[], rfl, by simp⟩
  | some k =>
    have := h k hk
    refine ⟨fun s => ?_⟩; simpa [VM.bind, VM.pure] using this.run s

theorem vpos_text (a : Ast) : VPos Q (vText a) := by
  unfold vText; split
  · exact vpos_pure _
  · exact vpos_stuck _

def VPosV (Q : Int → Prop) (v : VVisitor) : Prop := ∀ k, TreeQ Q k → VPos Q (v k)

section
variable {v : VVisitor} (hv : VPosV Q v) {a : Ast} (hw : TreeQ Q a)
include hv hw

theorem vpos_visitChild (i : Nat) : VPos Q (vVisitChild v a i) := by
  unfold vVisitChild; exact vpos_kid_bind fun k hk => hv k (hw.kid (kid_mem' hk))

theorem vpos_visitAll : ∀ ks : List Ast, (∀ k, k ∈ ks → k ∈ a.kids) → VPos Q (vVisitAll v ks)
  | [], _ => vpos_pure _
  | k :: ks, h => by
    unfold vVisitAll
    exact vpos_bind (hv k (hw.kid (h k (by simp)))) fun _ => vpos_visitAll ks fun k' hk' => h k' (by simp [hk'])

theorem vpos_assertValue (report : Bool) (i : Nat) : VPos Q (vAssertValue report v a i) := by
  unfold vAssertValue
  apply vpos_kid_bind; intro k hk
  apply vpos_bind (hv k (hw.kid (kid_mem' hk))); intro _
  apply vpos_bind vpos_get; intro c
  split
  · exact vpos_bind (vpos_err _ _ _ (hw.kid (kid_mem' hk)).qlo) fun _ => vpos_fail
  · exact vpos_pure _

theorem vpos_assertAll (report : Bool) : ∀ n i : Nat, VPos Q (vAssertAll report v a n i)
  | 0, _ => vpos_pure _
  | n+1, i => by
    unfold vAssertAll
    exact vpos_bind (vpos_assertValue hv hw report i) fun _ => vpos_assertAll report n (i + 1)

theorem vpos_allSet (c : VClass) : VPos Q (vAllSet v a c) := by
  unfold vAllSet; exact vpos_bind (vpos_visitAll hv hw _ fun _ h => h) fun _ => vpos_set _

theorem vpos_args : ∀ ks : List Ast, (∀ k, k ∈ ks → k ∈ a.kids) → VPos Q (vArgs v ks)
  | [], _ => vpos_pure _
  | k :: ks, h => by
    unfold vArgs
    exact vpos_bind (hv k (hw.kid (h k (by simp)))) fun _ => vpos_bind vpos_get fun _ =>
      vpos_bind (vpos_args ks fun k' hk' => h k' (by simp [hk'])) fun _ => vpos_pure _

theorem vpos_decartGo : ∀ (ks : List Ast) (t : VClass), (∀ k, k ∈ ks → k ∈ a.kids) → VPos Q (vDecartGo v ks t)
  | [], _, _ => vpos_set _
  | k :: ks, t, h => by
    unfold vDecartGo
    exact vpos_bind (hv k (hw.kid (h k (by simp)))) fun _ => vpos_bind vpos_get fun _ =>
      vpos_decartGo ks _ fun k' hk' => h k' (by simp [hk'])

syntax "vpos_step" ident ident : tactic
macro_rules
  | `(tactic| vpos_step $hv $hw) => `(tactic| first
    | exact vpos_pure _ | exact vpos_stuck _ | exact vpos_fail | exact vpos_set _ | exact vpos_get
    | exact vpos_text _
    | exact vpos_err _ _ _ (TreeQ.qlo $hw)
    | exact vpos_visitChild $hv $hw _
    | exact vpos_visitAll $hv $hw _ (fun _ h => h)
    | exact vpos_visitAll $hv $hw _ (fun _ h => List.mem_of_mem_drop h)
    | exact vpos_assertValue $hv $hw _ _
    | exact vpos_assertAll $hv $hw _ _ _ | exact vpos_allSet $hv $hw _
    | exact vpos_args $hv $hw _ (fun _ h => List.mem_of_mem_drop h)
    | exact vpos_decartGo $hv $hw _ _ (fun _ h => h)
    | (apply vpos_kid_bind; intro _ _)
    | apply vpos_bind
    | intro _
    | split
    | (dsimp only; split))

theorem vpos_dispatch (Γ : Ctx) (report : Bool) (props : List String) (sub : List String → Ast → Res VClass) :
    VPos Q (vDispatch Γ report props sub v a) := by
  unfold vDispatch
  split
  all_goals (repeat (any_goals (vpos_step hv hw)))

end

theorem vpos_visit (Γ : Ctx) : ∀ (n : Nat) (report : Bool) (props : List String), VPosV Q (vVisit Γ n report props)
  | 0, _, _ => fun _ _ => vpos_stuck _
  | n+1, report, props => fun _ hw => vpos_dispatch (vpos_visit Γ n report props) hw Γ report props _

end CCVerif.Checker
