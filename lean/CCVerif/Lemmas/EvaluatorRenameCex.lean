import CCVerif.Lemmas.CheckerEvaluatorRen
/-!
`evaluator_rename_statement` (every `NameBij` that fixes the radicals) is FALSE in the model: a `NameBij` is free on
strings that are not blocks, and both `XY` (lexes as `global_id`) and `aB` (lexes as `local_id`) are such strings.
The transposition of the two is a `NameBij`; on `D{aB∈XY | aB=aB}` it makes the global token and the bound variable
share ONE slot of the name collector. No renaming of the machine is of this kind (`NameBij.ofMap` moves good names
only) — the refuted statement was too general, not the code.
-/
namespace CCVerif.RSModelGen
open CCVerif CCVerif.Syntax CCVerif.SchemaGen CCVerif.Types CCVerif.Checker CCVerif.Blocks

theorem gL_swap_nonblock {x y : String} (hx : isBlock x.toList = false) (hy : isBlock y.toList = false)
    {l : List Char} (hl : isBlock l = true) : gL (swapName x y) l = l := by
  unfold gL swapName
  by_cases h1 : String.ofList l = x
  · rw [← h1, String.toList_ofList, hl] at hx; cases hx
  · rw [if_neg h1]
    by_cases h2 : String.ofList l = y
    · rw [← h2, String.toList_ofList, hl] at hy; cases hy
    · rw [if_neg h2, String.toList_ofList]

theorem swap_nonblock_name {x y : String} (hx : isBlock x.toList = false) (hy : isBlock y.toList = false)
    (s : String) (hs : isName s = true) : isName (swapName x y s) = true := by
  have hb : isBlock s.toList = true := isNameL_block hs
  have := gL_swap_nonblock hx hy hb
  unfold gL at this
  rw [String.ofList_toList] at this
  unfold isName
  rw [this]
  exact hs

/-- the transposition of two strings that are not blocks, not radicals, longer than one symbol and not `R0` -/
def NameBij.swapNonBlock (x y : String) (hx : isBlock x.toList = false) (hy : isBlock y.toList = false)
    (rx : isRadical x = false) (ry : isRadical y = false) (sx : ∀ c : Char, String.ofList [c] ≠ x)
    (sy : ∀ c : Char, String.ofList [c] ≠ y) (ax : Ty.anyName ≠ x) (ay : Ty.anyName ≠ y) : NameBij where
  b := Bij.swap x y
  block := fun l h => by show isBlock (gL (swapName x y) l) = true; rw [gL_swap_nonblock hx hy h]; exact h
  block' := fun l h => by show isBlock (gL (swapName x y) l) = true; rw [gL_swap_nonblock hx hy h]; exact h
  upb := fun l h => by
    have hb : isBlock l = true := by unfold upBlock at h; simp only [Bool.and_eq_true] at h; exact h.2
    show upBlock (gL (swapName x y) l) = true; rw [gL_swap_nonblock hx hy hb]; exact h
  upb' := fun l h => by
    have hb : isBlock l = true := by unfold upBlock at h; simp only [Bool.and_eq_true] at h; exact h.2
    show upBlock (gL (swapName x y) l) = true; rw [gL_swap_nonblock hx hy hb]; exact h
  name := swap_nonblock_name hx hy
  name' := swap_nonblock_name hx hy
  rad := swapName_rad' rx ry
  single := fun c => swapName_other (sx c) (sy c)
  r0 := swapName_other ax ay

private theorem single_ne {c : Char} {s : String} (h : s.toList.length ≠ 1) : String.ofList [c] ≠ s := by
  intro e; rw [← e, String.toList_ofList] at h; exact h rfl

/-- the transposition `XY ↔ aB` -/
def cexBij : NameBij :=
  NameBij.swapNonBlock "XY" "aB" (by decide) (by decide) (by decide) (by decide)
    (fun _ => single_ne (by decide)) (fun _ => single_ne (by decide)) (by decide) (by decide)

private def cexDef : Ast :=
  .node .NT_DECLARATIVE_EXPR .none 0 0
    [.node .ID_LOCAL (.text "aB") 0 0 [], .node .ID_GLOBAL (.text "XY") 0 0 [],
     .node .EQUAL .none 0 0 [.node .ID_LOCAL (.text "aB") 0 0 [], .node .ID_LOCAL (.text "aB") 0 0 []]]

private def cexCst : Cst CDef := ⟨2, "D1", .term, some cexDef⟩

/-- **`evaluator_rename_statement` is false**: `D1 := D{aB∈XY | aB=aB}` against `XY = {1,2}` has the value `{1,2}`;
after the transposition `XY ↔ aB` (a `NameBij` that fixes every radical, every name and every block) the global
token `aB` and the bound variable `aB` share one slot and the value is `∅` -/
theorem evaluator_rename_counterexample : ¬ evaluator_rename_statement 10 := by
  intro h
  have hrad : ∀ s, isRadical s = true → cexBij.b.f s = s := by
    intro s hs
    refine swapName_other ?_ ?_ <;> (intro e; rw [e] at hs; revert hs; decide)
  have := h cexBij hrad (fun _ => some (.s [.e 1, .e 2])) (fun _ => some (.s [.e 1, .e 2])) cexCst (.s [.e 1, .e 2])
    (by decide +kernel) (fun _ _ _ hx => hx) (by decide +kernel)
  have e : renCstC (CRen.ofNameBij cexBij) cexCst = ⟨2, "D1", .term, some (.node .NT_DECLARATIVE_EXPR .none 0 0
    [.node .ID_LOCAL (.text "aB") 0 0 [], .node .ID_GLOBAL (.text "aB") 0 0 [],
     .node .EQUAL .none 0 0 [.node .ID_LOCAL (.text "aB") 0 0 [], .node .ID_LOCAL (.text "aB") 0 0 []]])⟩ := by
    decide +kernel
  rw [e] at this
  revert this
  decide +kernel

end CCVerif.RSModelGen
