import CCVerif.Lemmas.EvalWF
import CCVerif.Lemmas.EvalShape
/-! The typed fragments of RSLang for which C01 (refinement of the reference semantics) and C02
(progress + preservation) are proved, the invariant tying the evaluator's slot table to the
scoped environment of the reference semantics, and the loop lemmas of the binders. -/
namespace CCVerif.Eval
open CCVerif.Syntax CCVerif.Spec CCVerif.Norm
open Val Ty

/-- the reference semantics sees the same interpretation -/
def senvOf (env : Env) : SEnv := { globals := env.globals, funcs := env.funcs }

abbrev TCtx := List (String × Ty)

theorem assoc_eq_lookup {α} (k : String) : ∀ l : List (String × α), assoc k l = lookup k l
  | [] => rfl
  | (k', v) :: l => by simp only [assoc, lookup, assoc_eq_lookup k l]

/-! ## the fragments

`lvl = 1`: ground set-valued expressions; `lvl = 2`: + globals with an interpretation;
`lvl = 3`: + quantifiers and the declarative set-builder over one plain variable.
`G` types the globals, the index `Γ` types the bound variables in scope (no shadowing, no bound
variable called like a global: what the checker enforces).  The typing is this fragment's own
(monomorphic: `∅` is given the type of its context); every type is `R0`-free. -/
inductive Frag (env : Env) (G : TCtx) (lvl : Nat) : TCtx → Ast → ExprTy → Prop where
  | lit (Γ : TCtx) (n lo hi : Int) : Frag env G lvl Γ (.node .LIT_INTEGER (.int n) lo hi []) (.ty (.base "Z"))
  | arith {Γ : TCtx} {t : Tok} {a b : Ast} (d : TokData) (lo hi : Int) : isArith t →
      Frag env G lvl Γ a (.ty (.base "Z")) → Frag env G lvl Γ b (.ty (.base "Z")) →
      Frag env G lvl Γ (.node t d lo hi [a, b]) (.ty (.base "Z"))
  | card {Γ : TCtx} {a : Ast} {τ : Ty} (d : TokData) (lo hi : Int) : Frag env G lvl Γ a (.ty (.coll τ)) →
      Frag env G lvl Γ (.node .CARD d lo hi [a]) (.ty (.base "Z"))
  | cmp {Γ : TCtx} {t : Tok} {a b : Ast} (d : TokData) (lo hi : Int) : isIntCmp t →
      Frag env G lvl Γ a (.ty (.base "Z")) → Frag env G lvl Γ b (.ty (.base "Z")) →
      Frag env G lvl Γ (.node t d lo hi [a, b]) .logic
  | eq {Γ : TCtx} {t : Tok} {a b : Ast} {τ : Ty} (d : TokData) (lo hi : Int) : isEq t →
      Frag env G lvl Γ a (.ty τ) → Frag env G lvl Γ b (.ty τ) → Frag env G lvl Γ (.node t d lo hi [a, b]) .logic
  | not {Γ : TCtx} {a : Ast} (d : TokData) (lo hi : Int) : Frag env G lvl Γ a .logic →
      Frag env G lvl Γ (.node .NOT d lo hi [a]) .logic
  | conn {Γ : TCtx} {t : Tok} {a b : Ast} (d : TokData) (lo hi : Int) : isConn t →
      Frag env G lvl Γ a .logic → Frag env G lvl Γ b .logic → Frag env G lvl Γ (.node t d lo hi [a, b]) .logic
  | mem {Γ : TCtx} {t : Tok} {a b : Ast} {τ : Ty} (d : TokData) (lo hi : Int) : isMemTok t → b.id ≠ .BOOLEAN →
      Frag env G lvl Γ a (.ty τ) → Frag env G lvl Γ b (.ty (.coll τ)) → Frag env G lvl Γ (.node t d lo hi [a, b]) .logic
  | memPow {Γ : TCtx} {t : Tok} {a b : Ast} {τ : Ty} (d d' : TokData) (lo hi lo' hi' : Int) : isMemTok t →
      Frag env G lvl Γ a (.ty (.coll τ)) → Frag env G lvl Γ b (.ty (.coll τ)) →
      Frag env G lvl Γ (.node t d lo hi [a, .node .BOOLEAN d' lo' hi' [b]]) .logic
  | sub {Γ : TCtx} {t : Tok} {a b : Ast} {τ : Ty} (d : TokData) (lo hi : Int) : isSubTok t →
      Frag env G lvl Γ a (.ty (.coll τ)) → Frag env G lvl Γ b (.ty (.coll τ)) →
      Frag env G lvl Γ (.node t d lo hi [a, b]) .logic
  | empty (Γ : TCtx) {τ : Ty} (d : TokData) (lo hi : Int) : noAny τ = true →
      Frag env G lvl Γ (.node .LIT_EMPTYSET d lo hi []) (.ty (.coll τ))
  /-- `Z`: typed, but every evaluation of it is the documented error `iterateInfinity` -/
  | intset (Γ : TCtx) (d : TokData) (lo hi : Int) :
      Frag env G lvl Γ (.node .LIT_INTSET d lo hi []) (.ty (.coll (.base "Z")))
  | enum {Γ : TCtx} {τ : Ty} (d : TokData) (lo hi : Int) (ks : List Ast) : ks ≠ [] →
      (∀ k ∈ ks, Frag env G lvl Γ k (.ty τ)) → Frag env G lvl Γ (.node .NT_ENUMERATION d lo hi ks) (.ty (.coll τ))
  | tuple {Γ : TCtx} (d : TokData) (lo hi : Int) (ks : List Ast) (ts : List Ty) : ks.length ≥ 2 →
      ks.length = ts.length → (∀ p ∈ ks.zip ts, Frag env G lvl Γ p.1 (.ty p.2)) →
      Frag env G lvl Γ (.node .NT_TUPLE d lo hi ks) (.ty (.tuple ts))
  | setOp {Γ : TCtx} {t : Tok} {a b : Ast} {τ : Ty} (d : TokData) (lo hi : Int) : isSetOp t →
      Frag env G lvl Γ a (.ty (.coll τ)) → Frag env G lvl Γ b (.ty (.coll τ)) →
      Frag env G lvl Γ (.node t d lo hi [a, b]) (.ty (.coll τ))
  | bool {Γ : TCtx} {a : Ast} {τ : Ty} (d : TokData) (lo hi : Int) : Frag env G lvl Γ a (.ty τ) →
      Frag env G lvl Γ (.node .BOOL d lo hi [a]) (.ty (.coll τ))
  | debool {Γ : TCtx} {a : Ast} {τ : Ty} (d : TokData) (lo hi : Int) : Frag env G lvl Γ a (.ty (.coll τ)) →
      Frag env G lvl Γ (.node .DEBOOL d lo hi [a]) (.ty τ)
  | reduce {Γ : TCtx} {a : Ast} {τ : Ty} (d : TokData) (lo hi : Int) : Frag env G lvl Γ a (.ty (.coll (.coll τ))) →
      Frag env G lvl Γ (.node .REDUCE d lo hi [a]) (.ty (.coll τ))
  | smallpr {Γ : TCtx} {a : Ast} {ts : List Ty} {τ : Ty} (idx : List Int) (lo hi : Int) :
      Frag env G lvl Γ a (.ty (.tuple ts)) → projTy ts idx = some τ →
      Frag env G lvl Γ (.node .SMALLPR (.tuple idx) lo hi [a]) (.ty τ)
  | bigpr {Γ : TCtx} {a : Ast} {ts : List Ty} {τ : Ty} (idx : List Int) (lo hi : Int) :
      Frag env G lvl Γ a (.ty (.coll (.tuple ts))) → projTy ts idx = some τ →
      Frag env G lvl Γ (.node .BIGPR (.tuple idx) lo hi [a]) (.ty (.coll τ))
  /-- `ℬ(a)` on a small operand: the reference semantics enumerates power sets of at most
  `2^POW_BOUND` members -/
  | pow {Γ : TCtx} {a : Ast} {τ : Ty} (d : TokData) (lo hi : Int) : Frag env G lvl Γ a (.ty (.coll τ)) →
      (∀ fuel ρ xs, denote (senvOf env) fuel ρ a = some (.val (.s xs)) → xs.length ≤ POW_BOUND) →
      Frag env G lvl Γ (.node .BOOLEAN d lo hi [a]) (.ty (.coll (.coll τ)))
  | decart {Γ : TCtx} (d : TokData) (lo hi : Int) (ks : List Ast) (ts : List Ty) : ks.length ≥ 2 →
      ks.length = ts.length → (∀ p ∈ ks.zip ts, Frag env G lvl Γ p.1 (.ty (.coll p.2))) →
      Frag env G lvl Γ (.node .DECART d lo hi ks) (.ty (.coll (.tuple ts)))
  | glob (Γ : TCtx) {τ : Ty} (g : String) (lo hi : Int) : 2 ≤ lvl → lookup g G = some τ →
      Frag env G lvl Γ (.node .ID_GLOBAL (.text g) lo hi []) (.ty τ)
  | loc (Γ : TCtx) {τ : Ty} (x : String) (lo hi : Int) : 3 ≤ lvl → lookup x Γ = some τ →
      Frag env G lvl Γ (.node .ID_LOCAL (.text x) lo hi []) (.ty τ)
  | quant {Γ : TCtx} {t : Tok} {dom body : Ast} {τ : Ty} (d : TokData) (lo hi : Int) (x : String) (dlo dhi : Int) :
      3 ≤ lvl → isQuant t → lookup x Γ = none → lookup x env.globals = none →
      Frag env G lvl Γ dom (.ty (.coll τ)) → Frag env G lvl ((x, τ) :: Γ) body .logic →
      Frag env G lvl Γ (.node t d lo hi [.node .ID_LOCAL (.text x) dlo dhi [], dom, body]) .logic
  | decl {Γ : TCtx} {dom body : Ast} {τ : Ty} (d : TokData) (lo hi : Int) (x : String) (dlo dhi : Int) :
      3 ≤ lvl → lookup x Γ = none → lookup x env.globals = none →
      Frag env G lvl Γ dom (.ty (.coll τ)) → Frag env G lvl ((x, τ) :: Γ) body .logic →
      Frag env G lvl Γ (.node .NT_DECLARATIVE_EXPR d lo hi [.node .ID_LOCAL (.text x) dlo dhi [], dom, body])
        (.ty (.coll τ))

/-- the interpretation gives every typed global a canonical value of its (R0-free) type -/
def GlobalsOK (env : Env) (G : TCtx) : Prop :=
  ∀ g τ, lookup g G = some τ → noAny τ = true ∧ ∃ v, lookup g env.globals = some v ∧ WF v τ

/-- the documented evaluation errors (`ValueEID` without `unknownError`) -/
def DocErr (eid : Nat) : Prop :=
  eid = EID.typedOverflow ∨ eid = EID.booleanLimit ∨ eid = EID.globalMissingValue ∨
  eid = EID.iterationsLimit ∨ eid = EID.invalidDebool ∨ eid = EID.iterateInfinity

/-! ## invariant between the slot table and the scoped environment -/

structure Inv (env : Env) (c : Ctx) (Γ : TCtx) (ρ : LEnv) (st : St) : Prop where
  range : ∀ n i, lookup n c.ids = some i → i < st.data.length
  inj : ∀ n1 n2 i, lookup n1 c.ids = some i → lookup n2 c.ids = some i → n1 = n2
  glob : ∀ g v i, lookup g env.globals = some v → lookup g c.ids = some i → st.data[i]? = some v
  loc : ∀ x τ, lookup x Γ = some τ → lookup x env.globals = none ∧ noAny τ = true ∧
    ∃ v, ρ.find x = some (.val v) ∧ WF v τ ∧ ∀ i, lookup x c.ids = some i → st.data[i]? = some v

theorem lookup_cons_self {α} (x : String) (v : α) (l : List (String × α)) : lookup x ((x, v) :: l) = some v := by
  simp [lookup]

theorem lookup_cons_ne {α} {x y : String} (v : α) (l : List (String × α)) (h : y ≠ x) :
    lookup y ((x, v) :: l) = lookup y l := by
  simp [lookup, h]

theorem find_val_self (x : String) (v : Val) (ρ : LEnv) : (LEnv.val x v ρ).find x = some (.val v) := by
  simp [LEnv.find]

theorem find_val_ne {x y : String} (v : Val) (ρ : LEnv) (h : y ≠ x) : (LEnv.val x v ρ).find y = ρ.find y := by
  have : (x == y) = false := by simp [Ne.symm h]
  simp [LEnv.find, this]

/-- entering a binder: the variable's slot is overwritten -/
theorem Inv.bind {env : Env} {c : Ctx} {Γ : TCtx} {ρ : LEnv} {st : St} (h : Inv env c Γ ρ st) {x : String} {τ : Ty}
    {v : Val} {var : Nat} (n : Nat) (hx : lookup x Γ = none) (hg : lookup x env.globals = none)
    (hvar : lookup x c.ids = some var) (hn : noAny τ = true) (hv : WF v τ) :
    Inv env c ((x, τ) :: Γ) (.val x v ρ) { data := st.data.set var v, iters := n } := by
  have hr := h.range x var hvar
  constructor
  · intro m i hm; simp; exact h.range m i hm
  · exact h.inj
  · intro g w i hw hi
    have hne : var ≠ i := by
      intro e; subst e
      have := h.inj x g var hvar hi
      subst this; rw [hg] at hw; cases hw
    simp only [List.getElem?_set_ne hne]
    exact h.glob g w i hw hi
  · intro y σ hy
    by_cases e : y = x
    · subst e
      rw [lookup_cons_self] at hy
      injection hy with hy; subst hy
      refine ⟨hg, hn, v, find_val_self _ _ _, hv, ?_⟩
      intro i hi
      rw [hvar] at hi; injection hi with hi; subst hi
      simp [hr]
    · rw [lookup_cons_ne _ _ e] at hy
      obtain ⟨a1, a2, w, a3, a4, a5⟩ := h.loc y σ hy
      refine ⟨a1, a2, w, by rw [find_val_ne _ _ e]; exact a3, a4, ?_⟩
      intro i hi
      have hne : var ≠ i := by
        intro e'; subst e'
        exact e (h.inj y x var hi hvar)
      simp only [List.getElem?_set_ne hne]
      exact a5 i hi

/-- leaving a binder -/
theorem Inv.unbind {env : Env} {c : Ctx} {Γ : TCtx} {ρ : LEnv} {st : St} {x : String} {τ : Ty} {v : Val}
    (h : Inv env c ((x, τ) :: Γ) (.val x v ρ) st) (hx : lookup x Γ = none) : Inv env c Γ ρ st := by
  refine ⟨h.range, h.inj, h.glob, ?_⟩
  intro y σ hy
  have e : y ≠ x := by intro e; subst e; rw [hx] at hy; cases hy
  obtain ⟨a1, a2, w, a3, a4, a5⟩ := h.loc y σ (by rw [lookup_cons_ne _ _ e]; exact hy)
  exact ⟨a1, a2, w, by rw [find_val_ne _ _ e] at a3; exact a3, a4, a5⟩

/-- the iteration counter is not part of the invariant -/
theorem Inv.iters {env : Env} {c : Ctx} {Γ : TCtx} {ρ : LEnv} {st : St} (h : Inv env c Γ ρ st) (n : Nat) :
    Inv env c Γ ρ { st with iters := n } := ⟨h.range, h.inj, h.glob, h.loc⟩

/-! ## outcomes -/

/-- failures the properties allow: the model's fuel, or a documented error -/
def BadF (f : Fail) : Prop := f = .outOfFuel ∨ ∃ e pos, f = .err e pos ∧ DocErr e
def Bad {α} (r : R α) : Prop := ∃ f k, r = .fail f k ∧ BadF f

/-- the evaluator's answer is the reference value, well-formed at the type, and the invariant survives -/
def Good (env : Env) (fuel : Nat) (ρ : LEnv) (a : Ast) (P : St → Prop) : ExprTy → R V → Prop
  | .ty ty, r => ∃ v st', r = .ok (.val v) st' ∧ P st' ∧ WF v ty ∧ noAny ty = true ∧
      denote (senvOf env) fuel ρ a = some (.val v)
  | .logic, r => ∃ b st', r = .ok (.bool b) st' ∧ P st' ∧ denote (senvOf env) fuel ρ a = some (.bool b)

def Res (env : Env) (fuel : Nat) (ρ : LEnv) (a : Ast) (P : St → Prop) (τ : ExprTy) (r : R V) : Prop :=
  Good env fuel ρ a P τ r ∨ Bad r

theorem bad_outOfFuel {α} (k : Nat) : Bad (R.fail (α := α) .outOfFuel k) := ⟨_, _, rfl, Or.inl rfl⟩
theorem bad_err {α} (e : Nat) (pos : Int) (k : Nat) (h : DocErr e) : Bad (R.fail (α := α) (.err e pos) k) :=
  ⟨_, _, rfl, Or.inr ⟨e, pos, rfl, h⟩⟩

theorem WF_coll_isSet {v : Val} {τ : Ty} (h : WF v (.coll τ)) : ∃ xs, v = .s xs := by
  cases v with
  | e _ => simp [WF, hasTy] at h
  | t _ => simp [WF, hasTy] at h
  | s xs => exact ⟨xs, rfl⟩

theorem WF_Z_isInt {v : Val} (h : WF v (.base "Z")) : ∃ n, v = .e n := by
  cases v with
  | e n => exact ⟨n, rfl⟩
  | t _ => simp [WF, hasTy] at h
  | s _ => simp [WF, hasTy] at h

theorem WF_tuple_isTuple {v : Val} {ts : List Ty} (h : WF v (.tuple ts)) : ∃ cs, v = .t cs := by
  cases v with
  | e _ => simp [WF, hasTy] at h
  | s _ => simp [WF, hasTy] at h
  | t cs => exact ⟨cs, rfl⟩

/-! ## strong-Kleene folds -/

theorem kAll_cons_false (l : List (Option Bool)) : kAll (some false :: l) = some false := by simp [kAll]
theorem kAll_cons_true (l : List (Option Bool)) : kAll (some true :: l) = kAll l := by simp [kAll]
theorem kAny_cons_true (l : List (Option Bool)) : kAny (some true :: l) = some true := by simp [kAny]
theorem kAny_cons_false (l : List (Option Bool)) : kAny (some false :: l) = kAny l := by simp [kAny]
theorem kAll_nil : kAll [] = some true := by simp [kAll]
theorem kAny_nil : kAny [] = some false := by simp [kAny]

/-! ## the loops of the binders -/

/-- `ViQuantifier`: if every run of the body (variable slot set, any counter) answers the reference
truth value or fails in an allowed way, the loop answers the strong-Kleene fold or fails so -/
theorem quantLoop_sim (P : St → Prop) (body : St → R V) (bodyD : Val → Option Bool) (var : Nat) (univ : Bool) (pos : Int) :
    ∀ (dom : List Val),
    (∀ x ∈ dom, ∀ st n, P st →
      (∃ b st', body { data := st.data.set var x, iters := n } = .ok (.bool b) st' ∧ P st' ∧ bodyD x = some b) ∨
      Bad (body { data := st.data.set var x, iters := n })) →
    ∀ st, P st →
      (∃ b st', quantLoop body var univ pos dom st = .ok (.bool b) st' ∧ P st' ∧
        (if univ then kAll (dom.map bodyD) else kAny (dom.map bodyD)) = some b) ∨
      Bad (quantLoop body var univ pos dom st)
  | [], _, st, hp => by
    left
    refine ⟨univ, st, by simp [quantLoop], hp, ?_⟩
    cases univ <;> simp [kAll_nil, kAny_nil]
  | x :: xs, h, st, hp => by
    simp only [quantLoop]
    split
    · exact Or.inr (bad_err _ _ _ (Or.inr (Or.inr (Or.inr (Or.inl rfl)))))
    · rcases h x (by simp) st (st.iters + 1) hp with ⟨b, st', hb, hp', hd⟩ | ⟨f, k, hb, hf⟩
      · simp only [hb]
        by_cases hbu : b = univ
        · subst hbu
          simp only [bne_self_eq_false, Bool.false_eq_true, if_false]
          rcases quantLoop_sim P body bodyD var b pos xs (fun y hy => h y (by simp [hy])) st' hp' with
            ⟨r, st'', hr, hp'', hk⟩ | hbad
          · left
            refine ⟨r, st'', hr, hp'', ?_⟩
            cases b <;> simp_all [kAll_cons_true, kAny_cons_false]
          · exact Or.inr hbad
        · have : (b != univ) = true := by cases b <;> cases univ <;> simp_all
          simp only [this, if_true]
          left
          refine ⟨!univ, st', rfl, hp', ?_⟩
          cases univ <;> cases b <;> simp_all [kAll_cons_false, kAny_cons_true]
      · simp only [hb]
        exact Or.inr ⟨f, k, rfl, hf⟩

/-- `ViDeclarative`: the loop collects (by ordered insertion) exactly the members with the flag `true` -/
theorem declLoop_sim (P : St → Prop) (body : St → R V) (bodyD : Val → Option Bool) (var : Nat) (pos : Int) (τ : Ty) :
    ∀ (dom : List Val), (∀ x ∈ dom, WF x τ) →
    (∀ x ∈ dom, ∀ st n, P st →
      (∃ b st', body { data := st.data.set var x, iters := n } = .ok (.bool b) st' ∧ P st' ∧ bodyD x = some b) ∨
      Bad (body { data := st.data.set var x, iters := n })) →
    ∀ acc st, P st → WF (.s acc) (.coll τ) →
      (∃ flags st', declLoop body var pos dom acc st = .ok (.val (.s (insertAll acc ((flags.filter (·.2)).map (·.1))))) st' ∧
        P st' ∧ WF (.s (insertAll acc ((flags.filter (·.2)).map (·.1)))) (.coll τ) ∧
        dom.mapM (fun v => (bodyD v).map fun b => (v, b)) = some flags) ∨
      Bad (declLoop body var pos dom acc st)
  | [], _, _, acc, st, hp, ha => by
    left
    exact ⟨[], st, by simp [declLoop, insertAll], hp, by simpa [insertAll] using ha, by simp⟩
  | x :: xs, hw, h, acc, st, hp, ha => by
    simp only [declLoop]
    split
    · exact Or.inr (bad_err _ _ _ (Or.inr (Or.inr (Or.inr (Or.inl rfl)))))
    · rcases h x (by simp) st (st.iters + 1) hp with ⟨b, st', hb, hp', hd⟩ | ⟨f, k, hb, hf⟩
      · simp only [hb]
        have ha' : WF (.s (if b = true then Val.insert x acc else acc)) (.coll τ) := by
          cases b
          · simpa using ha
          · simpa using insert_WF (hw x (by simp)) ha
        rcases declLoop_sim P body bodyD var pos τ xs (fun y hy => hw y (by simp [hy]))
            (fun y hy => h y (by simp [hy])) _ st' hp' ha' with ⟨flags, st'', hr, hp'', hwf, hm⟩ | hbad
        · left
          refine ⟨(x, b) :: flags, st'', ?_, hp'', ?_, ?_⟩
          · rw [hr]; cases b <;> simp [insertAll]
          · cases b <;> simpa [insertAll] using hwf
          · simp [List.mapM_cons, hd, hm]
        · exact Or.inr hbad
      · simp only [hb]
        exact Or.inr ⟨f, k, rfl, hf⟩

end CCVerif.Eval
