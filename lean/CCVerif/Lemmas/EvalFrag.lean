import CCVerif.Lemmas.EvalWF
import CCVerif.Lemmas.EvalShape
/-! The typed fragments of RSLang for which C01 (refinement of the reference semantics) and C02
(progress + preservation) are proved, the invariant tying the evaluator's slot table to the
scoped environment of the reference semantics, and the loop lemmas of the binders. -/
namespace CCVerif.Eval
open CCVerif.Syntax CCVerif.Spec CCVerif.Norm
open Val Ty

/-- the reference semantics sees the same interpretation -/
def senvOf (env : Env) : SEnv := { globals := env.globals, funcs := env.funcs }

abbrev TCtx := List (String × Ty)

theorem assoc_eq_lookup {α} (k : String) : ∀ l : List (String × α), assoc k l = lookup k l
  | [] => rfl
  | (k', v) :: l => by simp only [assoc, lookup, assoc_eq_lookup k l]

/-! ## the fragments

`FragR env G lvl Γ e n τ`: the expression `e` (as parsed) has type `τ` and `n` is its normal form
(what `Normalizer` makes of it: equal to `e` up to level 4).
`lvl = 1`: ground set-valued expressions; `lvl = 2`: + globals with an interpretation;
`lvl = 3`: + quantifiers and the declarative set-builder over one plain variable;
`lvl = 4`: + the recursive constructor `R{x := init | [cond |] step}` and the imperative constructor
`I{value | blocks}` (iterate / assign / condition blocks) over plain variables;
`lvl = 5`: + quantifiers with an enumerated declaration `Q x₁,…,xₙ ∈ S . P` (normal form: nested quantifiers).
`G` types the globals, the index `Γ` types the bound variables in scope (no shadowing, no bound
variable called like a global: what the checker enforces).  The typing is this fragment's own
(monomorphic: `∅` is given the type of its context); every type is `R0`-free. -/

/-- a block of `I{…}` over a plain variable: source and normal form of the expression part -/
inductive Blk where
  | iter (x : String) (dom dom' : Ast) (σ : Ty) (d : TokData) (lo hi dlo dhi : Int)   -- `x :∈ dom`
  | asg (x : String) (ex ex' : Ast) (σ : Ty) (d : TokData) (lo hi dlo dhi : Int)        -- `x := e`
  | guard (g g' : Ast)                                                                -- a condition

namespace Blk
def src : Blk → Ast
  | .iter x dom _ _ d lo hi dlo dhi => .node .ITERATE d lo hi [.node .ID_LOCAL (.text x) dlo dhi [], dom]
  | .asg x ex _ _ d lo hi dlo dhi => .node .ASSIGN d lo hi [.node .ID_LOCAL (.text x) dlo dhi [], ex]
  | .guard g _ => g
def core : Blk → Ast
  | .iter x _ dom' _ d lo hi dlo dhi => .node .ITERATE d lo hi [.node .ID_LOCAL (.text x) dlo dhi [], dom']
  | .asg x _ ex' _ d lo hi dlo dhi => .node .ASSIGN d lo hi [.node .ID_LOCAL (.text x) dlo dhi [], ex']
  | .guard _ g' => g'
/-- the expression of the block -/
def expr : Blk → Ast
  | .iter _ dom _ _ _ _ _ _ _ => dom
  | .asg _ ex _ _ _ _ _ _ _ => ex
  | .guard g _ => g
def expr' : Blk → Ast
  | .iter _ _ dom' _ _ _ _ _ _ => dom'
  | .asg _ _ ex' _ _ _ _ _ _ => ex'
  | .guard _ g' => g'
def ety : Blk → ExprTy
  | .iter _ _ _ σ _ _ _ _ _ => .ty (.coll σ)
  | .asg _ _ _ σ _ _ _ _ _ => .ty σ
  | .guard _ _ => .logic
/-- the bound variables after the block -/
def ctx (Γ : List (String × Ty)) : Blk → List (String × Ty)
  | .iter x _ _ σ _ _ _ _ _ => (x, σ) :: Γ
  | .asg x _ _ σ _ _ _ _ _ => (x, σ) :: Γ
  | .guard _ _ => Γ
/-- the variable of the block is new; a condition is no block node -/
def side (env : Env) (σ : List (String × (String × Int))) (Γ : List (String × Ty)) : Blk → Prop
  | .iter x _ _ _ _ _ _ _ _ => lookup x Γ = none ∧ lookup x env.globals = none ∧ ∀ r ∈ σ, r.2.1 ≠ x
  | .asg x _ _ _ _ _ _ _ _ => lookup x Γ = none ∧ lookup x env.globals = none ∧ ∀ r ∈ σ, r.2.1 ≠ x
  | .guard g g' => g.id ≠ .ITERATE ∧ g.id ≠ .ASSIGN ∧ g'.id ≠ .ITERATE ∧ g'.id ≠ .ASSIGN
end Blk

/-- the bound variables after a list of blocks -/
def ctxAfter (Γ : List (String × Ty)) (bs : List Blk) : List (String × Ty) := bs.foldl Blk.ctx Γ

theorem ctxAfter_nil (Γ : List (String × Ty)) : ctxAfter Γ [] = Γ := rfl
theorem ctxAfter_snoc (Γ : List (String × Ty)) (bs : List Blk) (b : Blk) : ctxAfter Γ (bs ++ [b]) = b.ctx (ctxAfter Γ bs) := by
  simp [ctxAfter]

/-- realisation of the components of tuple patterns in the normal form: `x ↦ (nn, i)` = `x` is read as `pr_i(nn)` -/
abbrev Rz := List (String × (String × Int))

/-- a variable of an enumerated declaration / a component of a flat tuple pattern: name and range of its node -/
abbrev EDecl := String × Int × Int

/-- the name `ProcessTupleDeclaration` tries first for the generated variable: `'@'` + the component names -/
def candName (names : List String) : String := "@" ++ String.join names
/-- the signature under which the normaliser remembers the name it gave to a pattern -/
def sigOf (names : List String) : String := String.join (names.map (· ++ ","))

/-- the components of the pattern are the projections `i, i+1, …` of the generated variable -/
def patRz (nn : String) : List EDecl → Int → Rz
  | [], _ => []
  | q :: qs, i => (q.1, (nn, i)) :: patRz nn qs (i + 1)

/-- the scope after a tuple pattern (the first component is bound first) -/
def patCtx (Γ : List (String × Ty)) : List EDecl → List Ty → List (String × Ty)
  | q :: qs, ty :: ts => patCtx ((q.1, ty) :: Γ) qs ts
  | _, _ => Γ

def declNode (q : EDecl) : Ast := .node .ID_LOCAL (.text q.1) q.2.1 q.2.2 []

/-- the scope after the variables of an enumerated declaration (the first one is the outermost) -/
def declCtx (τ : Ty) (Γ : List (String × Ty)) (xs : List EDecl) : List (String × Ty) := xs.foldl (fun Γ q => (q.1, τ) :: Γ) Γ

/-- `Normalizer::EnumDeclaration`, iterated: one quantifier per variable, each over (a copy of) the domain -/
def nest (t : Tok) (d : TokData) (lo hi : Int) (dom' body' : Ast) : List EDecl → Ast
  | [] => body'
  | q :: qs => .node t d lo hi [declNode q, dom', nest t d lo hi dom' body' qs]

inductive FragR (env : Env) (G : TCtx) (lvl : Nat) : Rz → TCtx → Ast → Ast → ExprTy → Prop where
  | lit {σ : Rz} (Γ : TCtx) (n lo hi : Int) :
      FragR env G lvl σ Γ (.node .LIT_INTEGER (.int n) lo hi []) (.node .LIT_INTEGER (.int n) lo hi []) (.ty (.base "Z"))
  | arith {σ : Rz} {Γ : TCtx} {t : Tok} {a b a' b' : Ast} (d : TokData) (lo hi : Int) : isArith t →
      FragR env G lvl σ Γ a a' (.ty (.base "Z")) → FragR env G lvl σ Γ b b' (.ty (.base "Z")) →
      FragR env G lvl σ Γ (.node t d lo hi [a, b]) (.node t d lo hi [a', b']) (.ty (.base "Z"))
  | card {σ : Rz} {Γ : TCtx} {a a' : Ast} {τ : Ty} (d : TokData) (lo hi : Int) : FragR env G lvl σ Γ a a' (.ty (.coll τ)) →
      FragR env G lvl σ Γ (.node .CARD d lo hi [a]) (.node .CARD d lo hi [a']) (.ty (.base "Z"))
  | cmp {σ : Rz} {Γ : TCtx} {t : Tok} {a b a' b' : Ast} (d : TokData) (lo hi : Int) : isIntCmp t →
      FragR env G lvl σ Γ a a' (.ty (.base "Z")) → FragR env G lvl σ Γ b b' (.ty (.base "Z")) →
      FragR env G lvl σ Γ (.node t d lo hi [a, b]) (.node t d lo hi [a', b']) .logic
  | eq {σ : Rz} {Γ : TCtx} {t : Tok} {a b a' b' : Ast} {τ : Ty} (d : TokData) (lo hi : Int) : isEq t →
      FragR env G lvl σ Γ a a' (.ty τ) → FragR env G lvl σ Γ b b' (.ty τ) →
      FragR env G lvl σ Γ (.node t d lo hi [a, b]) (.node t d lo hi [a', b']) .logic
  | not {σ : Rz} {Γ : TCtx} {a a' : Ast} (d : TokData) (lo hi : Int) : FragR env G lvl σ Γ a a' .logic →
      FragR env G lvl σ Γ (.node .NOT d lo hi [a]) (.node .NOT d lo hi [a']) .logic
  | conn {σ : Rz} {Γ : TCtx} {t : Tok} {a b a' b' : Ast} (d : TokData) (lo hi : Int) : isConn t →
      FragR env G lvl σ Γ a a' .logic → FragR env G lvl σ Γ b b' .logic →
      FragR env G lvl σ Γ (.node t d lo hi [a, b]) (.node t d lo hi [a', b']) .logic
  | mem {σ : Rz} {Γ : TCtx} {t : Tok} {a b a' b' : Ast} {τ : Ty} (d : TokData) (lo hi : Int) : isMemTok t →
      b.id ≠ .BOOLEAN → b'.id ≠ .BOOLEAN →
      FragR env G lvl σ Γ a a' (.ty τ) → FragR env G lvl σ Γ b b' (.ty (.coll τ)) →
      FragR env G lvl σ Γ (.node t d lo hi [a, b]) (.node t d lo hi [a', b']) .logic
  | memPow {σ : Rz} {Γ : TCtx} {t : Tok} {a b a' b' : Ast} {τ : Ty} (d d' : TokData) (lo hi lo' hi' : Int) : isMemTok t →
      FragR env G lvl σ Γ a a' (.ty (.coll τ)) → FragR env G lvl σ Γ b b' (.ty (.coll τ)) →
      FragR env G lvl σ Γ (.node t d lo hi [a, .node .BOOLEAN d' lo' hi' [b]])
        (.node t d lo hi [a', .node .BOOLEAN d' lo' hi' [b']]) .logic
  | sub {σ : Rz} {Γ : TCtx} {t : Tok} {a b a' b' : Ast} {τ : Ty} (d : TokData) (lo hi : Int) : isSubTok t →
      FragR env G lvl σ Γ a a' (.ty (.coll τ)) → FragR env G lvl σ Γ b b' (.ty (.coll τ)) →
      FragR env G lvl σ Γ (.node t d lo hi [a, b]) (.node t d lo hi [a', b']) .logic
  | empty {σ : Rz} (Γ : TCtx) {τ : Ty} (d : TokData) (lo hi : Int) : noAny τ = true →
      FragR env G lvl σ Γ (.node .LIT_EMPTYSET d lo hi []) (.node .LIT_EMPTYSET d lo hi []) (.ty (.coll τ))
  /-- `Z`: typed, but every evaluation of it is the documented error `iterateInfinity` -/
  | intset {σ : Rz} (Γ : TCtx) (d : TokData) (lo hi : Int) :
      FragR env G lvl σ Γ (.node .LIT_INTSET d lo hi []) (.node .LIT_INTSET d lo hi []) (.ty (.coll (.base "Z")))
  | enum {σ : Rz} {Γ : TCtx} {τ : Ty} (d : TokData) (lo hi : Int) (ks ks' : List Ast) : ks ≠ [] → ks.length = ks'.length →
      (∀ q ∈ ks.zip ks', FragR env G lvl σ Γ q.1 q.2 (.ty τ)) →
      FragR env G lvl σ Γ (.node .NT_ENUMERATION d lo hi ks) (.node .NT_ENUMERATION d lo hi ks') (.ty (.coll τ))
  | tuple {σ : Rz} {Γ : TCtx} (d : TokData) (lo hi : Int) (ks ks' : List Ast) (ts : List Ty) : ks.length ≥ 2 →
      ks.length = ts.length → ks.length = ks'.length → (∀ q ∈ (ks.zip ks').zip ts, FragR env G lvl σ Γ q.1.1 q.1.2 (.ty q.2)) →
      FragR env G lvl σ Γ (.node .NT_TUPLE d lo hi ks) (.node .NT_TUPLE d lo hi ks') (.ty (.tuple ts))
  | setOp {σ : Rz} {Γ : TCtx} {t : Tok} {a b a' b' : Ast} {τ : Ty} (d : TokData) (lo hi : Int) : isSetOp t →
      FragR env G lvl σ Γ a a' (.ty (.coll τ)) → FragR env G lvl σ Γ b b' (.ty (.coll τ)) →
      FragR env G lvl σ Γ (.node t d lo hi [a, b]) (.node t d lo hi [a', b']) (.ty (.coll τ))
  | bool {σ : Rz} {Γ : TCtx} {a a' : Ast} {τ : Ty} (d : TokData) (lo hi : Int) : FragR env G lvl σ Γ a a' (.ty τ) →
      FragR env G lvl σ Γ (.node .BOOL d lo hi [a]) (.node .BOOL d lo hi [a']) (.ty (.coll τ))
  | debool {σ : Rz} {Γ : TCtx} {a a' : Ast} {τ : Ty} (d : TokData) (lo hi : Int) : FragR env G lvl σ Γ a a' (.ty (.coll τ)) →
      FragR env G lvl σ Γ (.node .DEBOOL d lo hi [a]) (.node .DEBOOL d lo hi [a']) (.ty τ)
  | reduce {σ : Rz} {Γ : TCtx} {a a' : Ast} {τ : Ty} (d : TokData) (lo hi : Int) : FragR env G lvl σ Γ a a' (.ty (.coll (.coll τ))) →
      FragR env G lvl σ Γ (.node .REDUCE d lo hi [a]) (.node .REDUCE d lo hi [a']) (.ty (.coll τ))
  | smallpr {σ : Rz} {Γ : TCtx} {a a' : Ast} {ts : List Ty} {τ : Ty} (idx : List Int) (lo hi : Int) :
      FragR env G lvl σ Γ a a' (.ty (.tuple ts)) → projTy ts idx = some τ →
      FragR env G lvl σ Γ (.node .SMALLPR (.tuple idx) lo hi [a]) (.node .SMALLPR (.tuple idx) lo hi [a']) (.ty τ)
  | bigpr {σ : Rz} {Γ : TCtx} {a a' : Ast} {ts : List Ty} {τ : Ty} (idx : List Int) (lo hi : Int) :
      FragR env G lvl σ Γ a a' (.ty (.coll (.tuple ts))) → projTy ts idx = some τ →
      FragR env G lvl σ Γ (.node .BIGPR (.tuple idx) lo hi [a]) (.node .BIGPR (.tuple idx) lo hi [a']) (.ty (.coll τ))
  /-- `ℬ(a)` on a small operand: the reference semantics enumerates power sets of at most
  `2^POW_BOUND` members -/
  | pow {σ : Rz} {Γ : TCtx} {a a' : Ast} {τ : Ty} (d : TokData) (lo hi : Int) : FragR env G lvl σ Γ a a' (.ty (.coll τ)) →
      (∀ fuel ρ xs, denote (senvOf env) fuel ρ a = some (.val (.s xs)) → xs.length ≤ POW_BOUND) →
      FragR env G lvl σ Γ (.node .BOOLEAN d lo hi [a]) (.node .BOOLEAN d lo hi [a']) (.ty (.coll (.coll τ)))
  | decart {σ : Rz} {Γ : TCtx} (d : TokData) (lo hi : Int) (ks ks' : List Ast) (ts : List Ty) : ks.length ≥ 2 →
      ks.length = ts.length → ks.length = ks'.length →
      (∀ q ∈ (ks.zip ks').zip ts, FragR env G lvl σ Γ q.1.1 q.1.2 (.ty (.coll q.2))) →
      FragR env G lvl σ Γ (.node .DECART d lo hi ks) (.node .DECART d lo hi ks') (.ty (.coll (.tuple ts)))
  | glob {σ : Rz} (Γ : TCtx) {τ : Ty} (g : String) (lo hi : Int) : 2 ≤ lvl → lookup g G = some τ →
      FragR env G lvl σ Γ (.node .ID_GLOBAL (.text g) lo hi []) (.node .ID_GLOBAL (.text g) lo hi []) (.ty τ)
  | loc {σ : Rz} (Γ : TCtx) {τ : Ty} (x : String) (lo hi : Int) : 3 ≤ lvl → lookup x Γ = some τ → lookup x σ = none →
      FragR env G lvl σ Γ (.node .ID_LOCAL (.text x) lo hi []) (.node .ID_LOCAL (.text x) lo hi []) (.ty τ)
  /-- a component of a tuple pattern: in the normal form the projection of the generated variable -/
  | locPr {σ : Rz} (Γ : TCtx) {τ : Ty} (x nn : String) (k : Int) (lo hi : Int) : 6 ≤ lvl → lookup x Γ = some τ →
      lookup x σ = some (nn, k) →
      FragR env G lvl σ Γ (.node .ID_LOCAL (.text x) lo hi [])
        (.node .SMALLPR (.tuple [k]) lo hi [.node .ID_LOCAL (.text nn) lo hi []]) (.ty τ)
  | quant {σ : Rz} {Γ : TCtx} {t : Tok} {dom body dom' body' : Ast} {τ : Ty} (d : TokData) (lo hi : Int) (x : String)
      (dlo dhi : Int) :
      3 ≤ lvl → isQuant t → lookup x Γ = none → lookup x env.globals = none → (∀ r ∈ σ, r.2.1 ≠ x) →
      FragR env G lvl σ Γ dom dom' (.ty (.coll τ)) → FragR env G lvl σ ((x, τ) :: Γ) body body' .logic →
      FragR env G lvl σ Γ (.node t d lo hi [.node .ID_LOCAL (.text x) dlo dhi [], dom, body])
        (.node t d lo hi [.node .ID_LOCAL (.text x) dlo dhi [], dom', body']) .logic
  | decl {σ : Rz} {Γ : TCtx} {dom body dom' body' : Ast} {τ : Ty} (d : TokData) (lo hi : Int) (x : String) (dlo dhi : Int) :
      3 ≤ lvl → lookup x Γ = none → lookup x env.globals = none → (∀ r ∈ σ, r.2.1 ≠ x) →
      FragR env G lvl σ Γ dom dom' (.ty (.coll τ)) → FragR env G lvl σ ((x, τ) :: Γ) body body' .logic →
      FragR env G lvl σ Γ (.node .NT_DECLARATIVE_EXPR d lo hi [.node .ID_LOCAL (.text x) dlo dhi [], dom, body])
        (.node .NT_DECLARATIVE_EXPR d lo hi [.node .ID_LOCAL (.text x) dlo dhi [], dom', body']) (.ty (.coll τ))
  /-- `R{x := init | step}` -/
  | recShort {σ : Rz} {Γ : TCtx} {init body init' body' : Ast} {τ : Ty} (d : TokData) (lo hi : Int) (x : String) (dlo dhi : Int) :
      4 ≤ lvl → lookup x Γ = none → lookup x env.globals = none → (∀ r ∈ σ, r.2.1 ≠ x) →
      FragR env G lvl σ Γ init init' (.ty τ) → FragR env G lvl σ ((x, τ) :: Γ) body body' (.ty τ) →
      FragR env G lvl σ Γ (.node .NT_RECURSIVE_SHORT d lo hi [.node .ID_LOCAL (.text x) dlo dhi [], init, body])
        (.node .NT_RECURSIVE_SHORT d lo hi [.node .ID_LOCAL (.text x) dlo dhi [], init', body']) (.ty τ)
  /-- `R{x := init | cond | step}` -/
  | recFull {σ : Rz} {Γ : TCtx} {init cond body init' cond' body' : Ast} {τ : Ty} (d : TokData) (lo hi : Int) (x : String)
      (dlo dhi : Int) :
      4 ≤ lvl → lookup x Γ = none → lookup x env.globals = none → (∀ r ∈ σ, r.2.1 ≠ x) →
      FragR env G lvl σ Γ init init' (.ty τ) → FragR env G lvl σ ((x, τ) :: Γ) cond cond' .logic →
      FragR env G lvl σ ((x, τ) :: Γ) body body' (.ty τ) →
      FragR env G lvl σ Γ (.node .NT_RECURSIVE_FULL d lo hi [.node .ID_LOCAL (.text x) dlo dhi [], init, cond, body])
        (.node .NT_RECURSIVE_FULL d lo hi [.node .ID_LOCAL (.text x) dlo dhi [], init', cond', body']) (.ty τ)
  /-- `I{value | blocks}`: every block is typed after the blocks before it, the value after all of them -/
  | imp {σ : Rz} {Γ : TCtx} {value value' : Ast} {τ : Ty} (d : TokData) (lo hi : Int) (bs : List Blk) : 4 ≤ lvl → bs ≠ [] →
      noAny τ = true →
      (∀ pre b post, bs = pre ++ b :: post → b.side env σ (ctxAfter Γ pre)) →
      (∀ pre b post, bs = pre ++ b :: post → FragR env G lvl σ (ctxAfter Γ pre) b.expr b.expr' b.ety) →
      FragR env G lvl σ (ctxAfter Γ bs) value value' (.ty τ) →
      FragR env G lvl σ Γ (.node .NT_IMPERATIVE_EXPR d lo hi (value :: bs.map Blk.src))
        (.node .NT_IMPERATIVE_EXPR d lo hi (value' :: bs.map Blk.core)) (.ty (.coll τ))
  /-- `Q x₁,…,xₙ ∈ S . P` (`n ≥ 2` distinct new plain variables): the normal form nests `n` quantifiers, each
  over a copy of the domain; `S` is typed outside the variables, `P` inside all of them -/
  | quantEnum {σ : Rz} {Γ : TCtx} {t : Tok} {dom body dom' body' : Ast} {τ : Ty} (d dd : TokData) (lo hi dlo dhi : Int)
      (xs : List EDecl) :
      5 ≤ lvl → isQuant t → 2 ≤ xs.length → (xs.map (·.1)).Nodup →
      (∀ q ∈ xs, lookup q.1 Γ = none ∧ lookup q.1 env.globals = none ∧ ∀ r ∈ σ, r.2.1 ≠ q.1) →
      FragR env G lvl σ Γ dom dom' (.ty (.coll τ)) → FragR env G lvl σ (declCtx τ Γ xs) body body' .logic →
      FragR env G lvl σ Γ (.node t d lo hi [.node .NT_ENUM_DECL dd dlo dhi (xs.map declNode), dom, body])
        (nest t d lo hi dom' body' xs) .logic
  /-- `Q (x₁,…,xₙ) ∈ S . P` with a flat tuple pattern: the normal form binds ONE generated variable `nn` - the
  candidate name `'@'` + component names, which must be new: no variable in scope, no global, no component, no
  other generated name in use - and reads the components as `pr_i(nn)` -/
  | quantTup {σ : Rz} {Γ : TCtx} {t : Tok} {dom body dom' body' : Ast} {ts : List Ty} (d : TokData) (lo hi : Int)
      (pd : TokData) (plo phi : Int) (xs : List EDecl) (nn : String) :
      6 ≤ lvl → isQuant t → xs.length = ts.length → 2 ≤ xs.length → (xs.map (·.1)).Nodup →
      (∀ q ∈ xs, lookup q.1 Γ = none ∧ lookup q.1 env.globals = none ∧ ∀ r ∈ σ, r.2.1 ≠ q.1) →
      lookup nn Γ = none → lookup nn env.globals = none → nn ∉ xs.map (·.1) → (∀ r ∈ σ, r.2.1 ≠ nn) →
      nn = candName (xs.map (·.1)) →
      FragR env G lvl σ Γ dom dom' (.ty (.coll (.tuple ts))) →
      FragR env G lvl (patRz nn xs 1 ++ σ) (patCtx Γ xs ts) body body' .logic →
      FragR env G lvl σ Γ (.node t d lo hi [.node .NT_TUPLE_DECL pd plo phi (xs.map declNode), dom, body])
        (.node t d lo hi [.node .ID_LOCAL (.text nn) plo phi [], dom', body']) .logic
  /-- `D{(x₁,…,xₙ) ∈ S | P}` -/
  | declTup {σ : Rz} {Γ : TCtx} {dom body dom' body' : Ast} {ts : List Ty} (d : TokData) (lo hi : Int)
      (pd : TokData) (plo phi : Int) (xs : List EDecl) (nn : String) :
      6 ≤ lvl → xs.length = ts.length → 2 ≤ xs.length → (xs.map (·.1)).Nodup →
      (∀ q ∈ xs, lookup q.1 Γ = none ∧ lookup q.1 env.globals = none ∧ ∀ r ∈ σ, r.2.1 ≠ q.1) →
      lookup nn Γ = none → lookup nn env.globals = none → nn ∉ xs.map (·.1) → (∀ r ∈ σ, r.2.1 ≠ nn) →
      nn = candName (xs.map (·.1)) →
      FragR env G lvl σ Γ dom dom' (.ty (.coll (.tuple ts))) →
      FragR env G lvl (patRz nn xs 1 ++ σ) (patCtx Γ xs ts) body body' .logic →
      FragR env G lvl σ Γ (.node .NT_DECLARATIVE_EXPR d lo hi [.node .NT_TUPLE_DECL pd plo phi (xs.map declNode), dom, body])
        (.node .NT_DECLARATIVE_EXPR d lo hi [.node .ID_LOCAL (.text nn) plo phi [], dom', body']) (.ty (.coll (.tuple ts)))

/-- an expression of the fragment that is its own normal form (always the case up to level 4) -/
abbrev Frag (env : Env) (G : TCtx) (lvl : Nat) (Γ : TCtx) (e : Ast) (τ : ExprTy) : Prop := FragR env G lvl [] Γ e e τ

/-- the interpretation gives every typed global a canonical value of its (R0-free) type -/
def GlobalsOK (env : Env) (G : TCtx) : Prop :=
  ∀ g τ, lookup g G = some τ → noAny τ = true ∧ ∃ v, lookup g env.globals = some v ∧ WF v τ

/-- the documented evaluation errors (`ValueEID` without `unknownError`) -/
def DocErr (eid : Nat) : Prop :=
  eid = EID.typedOverflow ∨ eid = EID.booleanLimit ∨ eid = EID.globalMissingValue ∨
  eid = EID.iterationsLimit ∨ eid = EID.invalidDebool ∨ eid = EID.iterateInfinity

/-! ## invariant between the slot table and the scoped environment -/

/-- how the evaluator state holds the value `v` of the variable `x`: in the slot of `x`, or - for a component of
a tuple pattern - as a component of the tuple in the slot of the generated variable -/
def Holds (c : Ctx) (σ : Rz) (st : St) (x : String) (v : Val) : Prop :=
  match lookup x σ with
  | none => ∀ i, lookup x c.ids = some i → st.data[i]? = some v
  | some (nn, k) => ∃ i w, lookup nn c.ids = some i ∧ st.data[i]? = some w ∧ Val.component w k = some v

structure Inv (env : Env) (c : Ctx) (σ : Rz) (Γ : TCtx) (ρ : LEnv) (st : St) : Prop where
  range : ∀ n i, lookup n c.ids = some i → i < st.data.length
  inj : ∀ n1 n2 i, lookup n1 c.ids = some i → lookup n2 c.ids = some i → n1 = n2
  glob : ∀ g v i, lookup g env.globals = some v → lookup g c.ids = some i → st.data[i]? = some v
  loc : ∀ x τ, lookup x Γ = some τ → lookup x env.globals = none ∧ noAny τ = true ∧
    ∃ v, ρ.find x = some (.val v) ∧ WF v τ ∧ Holds c σ st x v
  /-- realised variables are in scope; generated variables are neither source variables in scope nor globals -/
  dom : ∀ x r, lookup x σ = some r → (∃ τ, lookup x Γ = some τ) ∧ lookup r.1 Γ = none ∧ lookup r.1 env.globals = none

theorem lookup_cons_self {α} (x : String) (v : α) (l : List (String × α)) : lookup x ((x, v) :: l) = some v := by
  simp [lookup]

theorem lookup_cons_ne {α} {x y : String} (v : α) (l : List (String × α)) (h : y ≠ x) :
    lookup y ((x, v) :: l) = lookup y l := by
  simp [lookup, h]

theorem lookup_mem {α} {x : String} {v : α} : ∀ {l : List (String × α)}, lookup x l = some v → (x, v) ∈ l
  | [], h => by simp [lookup] at h
  | (k, w) :: l, h => by
    simp only [lookup] at h
    split at h
    · rename_i e
      have : x = k := by simpa using e
      injection h with h; subst h; subst this; simp
    · exact List.mem_cons_of_mem _ (lookup_mem h)

theorem find_val_self (x : String) (v : Val) (ρ : LEnv) : (LEnv.val x v ρ).find x = some (.val v) := by
  simp [LEnv.find]

theorem find_val_ne {x y : String} (v : Val) (ρ : LEnv) (h : y ≠ x) : (LEnv.val x v ρ).find y = ρ.find y := by
  have : (x == y) = false := by simp [Ne.symm h]
  simp [LEnv.find, this]

/-- a state that differs from `st` only in slot `var` holds what `st` holds, for variables that do not use that slot -/
theorem Holds.of_ne {c : Ctx} {σ : Rz} {st s : St} {x : String} {v : Val} {var : Nat}
    (h : Holds c σ st x v) (hget : ∀ i, i ≠ var → s.data[i]? = st.data[i]?)
    (h1 : lookup x σ = none → ∀ i, lookup x c.ids = some i → i ≠ var)
    (h2 : ∀ nn k, lookup x σ = some (nn, k) → ∀ i, lookup nn c.ids = some i → i ≠ var) : Holds c σ s x v := by
  unfold Holds at h ⊢
  cases hl : lookup x σ with
  | none =>
    rw [hl] at h
    intro i hi
    rw [hget i (h1 hl i hi)]; exact h i hi
  | some r =>
    obtain ⟨nn, k⟩ := r
    rw [hl] at h
    obtain ⟨i, w, a1, a2, a3⟩ := h
    exact ⟨i, w, a1, by rw [hget i (h2 nn k hl i a1)]; exact a2, a3⟩

/-- entering a binder over a plain variable: the variable's slot is overwritten -/
theorem Inv.bind {env : Env} {c : Ctx} {σ : Rz} {Γ : TCtx} {ρ : LEnv} {st : St} (h : Inv env c σ Γ ρ st) {x : String} {τ : Ty}
    {v : Val} {var : Nat} (n : Nat) (hx : lookup x Γ = none) (hg : lookup x env.globals = none)
    (hσ : ∀ r ∈ σ, r.2.1 ≠ x)
    (hvar : lookup x c.ids = some var) (hn : noAny τ = true) (hv : WF v τ) :
    Inv env c σ ((x, τ) :: Γ) (.val x v ρ) { data := st.data.set var v, iters := n } := by
  have hr := h.range x var hvar
  have hxσ : lookup x σ = none := by
    cases hl : lookup x σ with
    | none => rfl
    | some r =>
      obtain ⟨τ', hτ'⟩ := (h.dom x r hl).1
      rw [hx] at hτ'; cases hτ'
  constructor
  · intro m i hm; simp; exact h.range m i hm
  · exact h.inj
  · intro g w i hw hi
    have hne : var ≠ i := by
      intro e; subst e
      have := h.inj x g var hvar hi
      subst this; rw [hg] at hw; cases hw
    simp only [List.getElem?_set_ne hne]
    exact h.glob g w i hw hi
  · intro y σ' hy
    by_cases e : y = x
    · subst e
      rw [lookup_cons_self] at hy
      injection hy with hy; subst hy
      refine ⟨hg, hn, v, find_val_self _ _ _, hv, ?_⟩
      unfold Holds
      rw [hxσ]
      intro i hi
      rw [hvar] at hi; injection hi with hi; subst hi
      simp [hr]
    · rw [lookup_cons_ne _ _ e] at hy
      obtain ⟨a1, a2, w, a3, a4, a5⟩ := h.loc y σ' hy
      refine ⟨a1, a2, w, by rw [find_val_ne _ _ e]; exact a3, a4, ?_⟩
      refine a5.of_ne (var := var) (fun i hi => by simp [List.getElem?_set_ne (Ne.symm hi)]) ?_ ?_
      · intro _ i hi e'; subst e'
        exact e (h.inj y x i hi hvar)
      · intro nn k hl i hi e'; subst e'
        have := h.inj nn x i hi hvar
        exact hσ (y, (nn, k)) (lookup_mem hl) this
  · intro y r hl
    obtain ⟨⟨τ', hτ'⟩, b1, b2⟩ := h.dom y r hl
    have hyx : y ≠ x := by intro e; subst e; rw [hx] at hτ'; cases hτ'
    have hrx : r.1 ≠ x := hσ (y, r) (lookup_mem hl)
    exact ⟨⟨τ', by rw [lookup_cons_ne _ _ hyx]; exact hτ'⟩, by rw [lookup_cons_ne _ _ hrx]; exact b1, b2⟩

/-- leaving a binder -/
theorem Inv.unbind {env : Env} {c : Ctx} {σ : Rz} {Γ : TCtx} {ρ : LEnv} {st : St} {x : String} {τ : Ty} {v : Val}
    (h : Inv env c σ ((x, τ) :: Γ) (.val x v ρ) st) (hx : lookup x Γ = none) (hxσ : lookup x σ = none) :
    Inv env c σ Γ ρ st := by
  refine ⟨h.range, h.inj, h.glob, ?_, ?_⟩
  · intro y σ' hy
    have e : y ≠ x := by intro e; subst e; rw [hx] at hy; cases hy
    obtain ⟨a1, a2, w, a3, a4, a5⟩ := h.loc y σ' (by rw [lookup_cons_ne _ _ e]; exact hy)
    exact ⟨a1, a2, w, by rw [find_val_ne _ _ e] at a3; exact a3, a4, a5⟩
  · intro y r hl
    obtain ⟨⟨τ', hτ'⟩, b1, b2⟩ := h.dom y r hl
    have hyx : y ≠ x := by intro e; subst e; rw [hxσ] at hl; cases hl
    refine ⟨⟨τ', by rw [lookup_cons_ne _ _ hyx] at hτ'; exact hτ'⟩, ?_, b2⟩
    by_cases e : r.1 = x
    · rw [e]; exact hx
    · rw [lookup_cons_ne _ _ e] at b1; exact b1

/-- a name that is not in scope is not realised -/
theorem Inv.sigma_none {env : Env} {c : Ctx} {σ : Rz} {Γ : TCtx} {ρ : LEnv} {st : St} (h : Inv env c σ Γ ρ st) {x : String}
    (hx : lookup x Γ = none) : lookup x σ = none := by
  cases hl : lookup x σ with
  | none => rfl
  | some r =>
    obtain ⟨τ', hτ'⟩ := (h.dom x r hl).1
    rw [hx] at hτ'; cases hτ'

/-- only the slot table matters -/
theorem Inv.of_data {env : Env} {c : Ctx} {σ : Rz} {Γ : TCtx} {ρ : LEnv} {st st' : St} (h : Inv env c σ Γ ρ st)
    (e : st'.data = st.data) : Inv env c σ Γ ρ st' := by
  refine ⟨?_, h.inj, ?_, ?_, h.dom⟩
  · rw [e]; exact h.range
  · rw [e]; exact h.glob
  · intro x τ hx
    obtain ⟨a1, a2, v, a3, a4, a5⟩ := h.loc x τ hx
    refine ⟨a1, a2, v, a3, a4, ?_⟩
    unfold Holds at a5 ⊢
    rw [e]; exact a5

theorem set_self {α} : ∀ (d : List α) (i : Nat) (w : α), d[i]? = some w → d.set i w = d
  | [], _, _, h => by simp at h
  | a :: d, 0, w, h => by simp at h; simp [h]
  | a :: d, i + 1, w, h => by simp at h; simp [set_self d i w h]

/-- a state that differs from one satisfying the invariant only in the slot of a name that is neither a variable
in scope, nor a global, nor a generated variable in use -/
theorem Inv.of_set {env : Env} {c : Ctx} {σ : Rz} {Γ : TCtx} {ρ : LEnv} {st s : St} {x : String} {var : Nat} {w : Val}
    (h : Inv env c σ Γ ρ st) (hx : lookup x Γ = none) (hg : lookup x env.globals = none) (hσ : ∀ r ∈ σ, r.2.1 ≠ x)
    (hvar : lookup x c.ids = some var) (e : s.data.set var w = st.data) : Inv env c σ Γ ρ s := by
  have hlen : s.data.length = st.data.length := by rw [← e]; simp
  have hget : ∀ i, i ≠ var → s.data[i]? = st.data[i]? := by
    intro i hi
    rw [← e, List.getElem?_set_ne (Ne.symm hi)]
  refine ⟨?_, h.inj, ?_, ?_, h.dom⟩
  · intro n i hn; rw [hlen]; exact h.range n i hn
  · intro g v i hv hi
    have hne : i ≠ var := by
      intro e'; subst e'
      have := h.inj x g i hvar hi
      subst this; rw [hg] at hv; cases hv
    rw [hget i hne]; exact h.glob g v i hv hi
  · intro y σ' hy
    obtain ⟨a1, a2, v, a3, a4, a5⟩ := h.loc y σ' hy
    refine ⟨a1, a2, v, a3, a4, a5.of_ne hget ?_ ?_⟩
    · intro _ i hi e'; subst e'
      have := h.inj y x i hi hvar
      subst this; rw [hx] at hy; cases hy
    · intro nn k hl i hi e'; subst e'
      have := h.inj nn x i hi hvar
      exact hσ (y, (nn, k)) (lookup_mem hl) this

/-- the iteration counter is not part of the invariant -/
theorem Inv.iters {env : Env} {c : Ctx} {σ : Rz} {Γ : TCtx} {ρ : LEnv} {st : St} (h : Inv env c σ Γ ρ st) (n : Nat) :
    Inv env c σ Γ ρ { st with iters := n } := h.of_data rfl

/-! ## outcomes -/

/-- failures the properties allow: the model's fuel, or a documented error -/
def BadF (f : Fail) : Prop := f = .outOfFuel ∨ ∃ e pos, f = .err e pos ∧ DocErr e
def Bad {α} (r : R α) : Prop := ∃ f k, r = .fail f k ∧ BadF f

/-- the evaluator's answer is the reference value (at the evaluator's fuel and at every larger one),
well-formed at the type, and the invariant survives -/
def Good (env : Env) (fuel : Nat) (ρ : LEnv) (a : Ast) (P : St → Prop) : ExprTy → R V → Prop
  | .ty ty, r => ∃ v st', r = .ok (.val v) st' ∧ P st' ∧ WF v ty ∧ noAny ty = true ∧
      ∀ f', fuel ≤ f' → denote (senvOf env) f' ρ a = some (.val v)
  | .logic, r => ∃ b st', r = .ok (.bool b) st' ∧ P st' ∧ ∀ f', fuel ≤ f' → denote (senvOf env) f' ρ a = some (.bool b)

def Res (env : Env) (fuel : Nat) (ρ : LEnv) (a : Ast) (P : St → Prop) (τ : ExprTy) (r : R V) : Prop :=
  Good env fuel ρ a P τ r ∨ Bad r

theorem bad_outOfFuel {α} (k : Nat) : Bad (R.fail (α := α) .outOfFuel k) := ⟨_, _, rfl, Or.inl rfl⟩
theorem bad_err {α} (e : Nat) (pos : Int) (k : Nat) (h : DocErr e) : Bad (R.fail (α := α) (.err e pos) k) :=
  ⟨_, _, rfl, Or.inr ⟨e, pos, rfl, h⟩⟩

theorem WF_coll_isSet {v : Val} {τ : Ty} (h : WF v (.coll τ)) : ∃ xs, v = .s xs := by
  cases v with
  | e _ => simp [WF, hasTy] at h
  | t _ => simp [WF, hasTy] at h
  | s xs => exact ⟨xs, rfl⟩

theorem WF_Z_isInt {v : Val} (h : WF v (.base "Z")) : ∃ n, v = .e n := by
  cases v with
  | e n => exact ⟨n, rfl⟩
  | t _ => simp [WF, hasTy] at h
  | s _ => simp [WF, hasTy] at h

theorem WF_tuple_isTuple {v : Val} {ts : List Ty} (h : WF v (.tuple ts)) : ∃ cs, v = .t cs := by
  cases v with
  | e _ => simp [WF, hasTy] at h
  | s _ => simp [WF, hasTy] at h
  | t cs => exact ⟨cs, rfl⟩

/-! ## strong-Kleene folds -/

theorem kAll_cons_false (l : List (Option Bool)) : kAll (some false :: l) = some false := by simp [kAll]
theorem kAll_cons_true (l : List (Option Bool)) : kAll (some true :: l) = kAll l := by simp [kAll]
theorem kAny_cons_true (l : List (Option Bool)) : kAny (some true :: l) = some true := by simp [kAny]
theorem kAny_cons_false (l : List (Option Bool)) : kAny (some false :: l) = kAny l := by simp [kAny]
theorem kAll_nil : kAll [] = some true := by simp [kAll]
theorem kAny_nil : kAny [] = some false := by simp [kAny]

/-! ## the loops of the binders

The reference side is indexed by `ι` (the fuels `≥` the evaluator's): one run of the evaluator answers the
reference value at every index. -/

/-- `ViQuantifier`: if every run of the body (variable slot set, counter advanced) answers the reference
truth value or fails in an allowed way, the loop answers the strong-Kleene fold or fails so -/
theorem quantLoop_sim {ι : Type} (P : St → Prop) (body : St → R V) (bodyD : ι → Val → Option Bool) (var : Nat)
    (univ : Bool) (pos : Int) :
    ∀ (dom : List Val),
    (∀ x ∈ dom, ∀ st, P st →
      (∃ b st', body { data := st.data.set var x, iters := st.iters + 1 } = .ok (.bool b) st' ∧ P st' ∧
        ∀ i, bodyD i x = some b) ∨
      Bad (body { data := st.data.set var x, iters := st.iters + 1 })) →
    ∀ st, P st →
      (∃ b st', quantLoop body var univ pos dom st = .ok (.bool b) st' ∧ P st' ∧
        ∀ i, (if univ then kAll (dom.map (bodyD i)) else kAny (dom.map (bodyD i))) = some b) ∨
      Bad (quantLoop body var univ pos dom st)
  | [], _, st, hp => by
    left
    refine ⟨univ, st, by simp [quantLoop], hp, ?_⟩
    intro i
    cases univ <;> simp [kAll_nil, kAny_nil]
  | x :: xs, h, st, hp => by
    simp only [quantLoop]
    split
    · exact Or.inr (bad_err _ _ _ (Or.inr (Or.inr (Or.inr (Or.inl rfl)))))
    · rcases h x (by simp) st hp with ⟨b, st', hb, hp', hd⟩ | ⟨f, k, hb, hf⟩
      · simp only [hb]
        by_cases hbu : b = univ
        · subst hbu
          simp only [bne_self_eq_false, Bool.false_eq_true, if_false]
          rcases quantLoop_sim P body bodyD var b pos xs (fun y hy => h y (by simp [hy])) st' hp' with
            ⟨r, st'', hr, hp'', hk⟩ | hbad
          · left
            refine ⟨r, st'', hr, hp'', ?_⟩
            intro i
            have h1 := hd i
            have h2 := hk i
            cases b <;> simp_all [kAll_cons_true, kAny_cons_false]
          · exact Or.inr hbad
        · have : (b != univ) = true := by cases b <;> cases univ <;> simp_all
          simp only [this, if_true]
          left
          refine ⟨!univ, st', rfl, hp', ?_⟩
          intro i
          have h1 := hd i
          cases univ <;> cases b <;> simp_all [kAll_cons_false, kAny_cons_true]
      · simp only [hb]
        exact Or.inr ⟨f, k, rfl, hf⟩

/-- `ViDeclarative`: the loop collects (by ordered insertion) exactly the members with the flag `true` -/
theorem declLoop_sim {ι : Type} (P : St → Prop) (body : St → R V) (bodyD : ι → Val → Option Bool) (var : Nat) (pos : Int)
    (τ : Ty) :
    ∀ (dom : List Val), (∀ x ∈ dom, WF x τ) →
    (∀ x ∈ dom, ∀ st, P st →
      (∃ b st', body { data := st.data.set var x, iters := st.iters + 1 } = .ok (.bool b) st' ∧ P st' ∧
        ∀ i, bodyD i x = some b) ∨
      Bad (body { data := st.data.set var x, iters := st.iters + 1 })) →
    ∀ acc st, P st → WF (.s acc) (.coll τ) →
      (∃ flags st', declLoop body var pos dom acc st = .ok (.val (.s (insertAll acc ((flags.filter (·.2)).map (·.1))))) st' ∧
        P st' ∧ WF (.s (insertAll acc ((flags.filter (·.2)).map (·.1)))) (.coll τ) ∧
        ∀ i, dom.mapM (fun v => (bodyD i v).map fun b => (v, b)) = some flags) ∨
      Bad (declLoop body var pos dom acc st)
  | [], _, _, acc, st, hp, ha => by
    left
    exact ⟨[], st, by simp [declLoop, insertAll], hp, by simpa [insertAll] using ha, by simp⟩
  | x :: xs, hw, h, acc, st, hp, ha => by
    simp only [declLoop]
    split
    · exact Or.inr (bad_err _ _ _ (Or.inr (Or.inr (Or.inr (Or.inl rfl)))))
    · rcases h x (by simp) st hp with ⟨b, st', hb, hp', hd⟩ | ⟨f, k, hb, hf⟩
      · simp only [hb]
        have ha' : WF (.s (if b = true then Val.insert x acc else acc)) (.coll τ) := by
          cases b
          · simpa using ha
          · simpa using insert_WF (hw x (by simp)) ha
        rcases declLoop_sim P body bodyD var pos τ xs (fun y hy => hw y (by simp [hy]))
            (fun y hy => h y (by simp [hy])) _ st' hp' ha' with ⟨flags, st'', hr, hp'', hwf, hm⟩ | hbad
        · left
          refine ⟨(x, b) :: flags, st'', ?_, hp'', ?_, ?_⟩
          · rw [hr]; cases b <;> simp [insertAll]
          · cases b <;> simpa [insertAll] using hwf
          · intro i; simp [List.mapM_cons, hd i, hm i]
        · exact Or.inr hbad
      · simp only [hb]
        exact Or.inr ⟨f, k, rfl, hf⟩

end CCVerif.Eval
