import CCVerif.Model.Lexer
import CCVerif.Model.Printer
/-!
Lemmas about the NON-FIXED spellings of the printer (`Token::ToString`) read back by the lexer
model: integer literals, index tuples of `pr… Pr… Fi…`, identifier payloads.
-/
namespace CCVerif.LexN
open CCVerif.Syntax CCVerif.Generated CCVerif.Lexer CCVerif.Printer

/-! ## decimal spelling -/

theorem decGo_acc (f : Nat) : ∀ n acc, n < f → decGo f n acc = decGo (n + 1) n [] ++ acc := by
  induction f using Nat.strongRecOn with
  | ind f ih =>
    intro n acc h
    match f, h with
    | f + 1, h =>
      by_cases hn : n < 10
      · simp [decGo, hn]
      · have h1 : n / 10 < f := by omega
        have h2 : n / 10 < n := by omega
        have e1 : decGo (f + 1) n acc = decGo f (n / 10) ((48 + n % 10) :: acc) := by
          rw [decGo, if_neg hn]
        have e2 : decGo (n + 1) n [] = decGo n (n / 10) [48 + n % 10] := by
          rw [decGo, if_neg hn]
        rw [e1, e2, ih f (by omega) _ _ h1, ih n (by omega) _ _ h2]
        simp

theorem decNat_eq (n : Nat) :
    decNat n = if n < 10 then [48 + n] else decNat (n / 10) ++ [48 + n % 10] := by
  by_cases hn : n < 10
  · simp [decNat, decGo, hn]
  · rw [if_neg hn]
    unfold decNat
    rw [decGo, if_neg hn, decGo_acc n _ _ (by omega)]

theorem decNat_ne_nil (n : Nat) : decNat n ≠ [] := by
  rw [decNat_eq]; split <;> simp

theorem decNat_digits (n : Nat) : (decNat n).all isDigit = true := by
  induction n using Nat.strongRecOn with
  | ind n ih =>
    rw [decNat_eq]
    split
    · simp [isDigit]; omega
    · rw [List.all_append, ih (n / 10) (by omega)]
      simp [isDigit]; omega

theorem digitsVal_snoc (s : List Nat) (d : Nat) : digitsVal (s ++ [d]) = digitsVal s * 10 + (d - 48) := by
  simp [digitsVal, List.foldl_append]

theorem digitsVal_decNat (n : Nat) : digitsVal (decNat n) = n := by
  induction n using Nat.strongRecOn with
  | ind n ih =>
    rw [decNat_eq]
    split
    · simp [digitsVal]
    · rw [digitsVal_snoc, ih (n / 10) (by omega)]; omega

theorem decInt_nonneg (n : Int) (h : 0 ≤ n) : decInt n = decNat n.toNat := by
  unfold decInt
  rw [if_neg (by omega)]
  congr 1
  omega

example : decInt 2147483647 = decNat (2147483647 : Int).toNat := decInt_nonneg _ (by decide)

theorem wrapInt32_id (n : Int) (h0 : 0 ≤ n) (h1 : n < 2147483648) : wrapInt 32 n = n := by
  unfold wrapInt
  simp only [Int.reducePow]
  have : n % 4294967296 = n := Int.emod_eq_of_lt h0 (by omega)
  rw [this, if_pos (by omega)]

theorem toInt32_decInt (n : Int) (h0 : 0 ≤ n) (h1 : n < 2147483648) : toInt32 (decInt n) = n := by
  rw [decInt_nonneg n h0]
  unfold toInt32
  simp only [digitsVal_decNat]
  have h2 : ¬ (n.toNat ≥ 2 ^ 63) := by omega
  simp only [h2, if_false]
  rw [wrapInt32_id _ (by omega) (by omega)]
  omega

example : toInt32 (decInt 2147483647) = 2147483647 := toInt32_decInt _ (by decide) (by decide)

theorem parseData_int (n : Int) (h0 : 0 ≤ n) (h1 : n < 2147483648) :
    parseData .LIT_INTEGER (decInt n) = .int n := by
  simp [parseData, toInt32_decInt n h0 h1]

example : parseData .LIT_INTEGER (decInt 2147483647) = .int 2147483647 :=
  parseData_int _ (by decide) (by decide)

/-! ## identifiers -/

theorem unitsToString_stringUnits (s : String) : unitsToString (Printer.stringUnits s) = s := by
  unfold unitsToString Printer.stringUnits
  have : (Char.ofNat ∘ Char.toNat) = id := by
    funext c; simp
  simp [List.map_map, this]

theorem parseData_id (id : Tok)
    (h : id = .ID_LOCAL ∨ id = .ID_GLOBAL ∨ id = .ID_FUNCTION ∨ id = .ID_PREDICATE ∨ id = .ID_RADICAL)
    (s : String) : parseData id (Printer.stringUnits s) = .text s := by
  rcases h with h | h | h | h | h <;> subst h <;> simp [parseData, unitsToString_stringUnits]

example : parseData .ID_GLOBAL (Printer.stringUnits "X1") = .text "X1" := parseData_id _ (by simp) _

/-! ## generic facts about `matchPat` / `bestRule` -/

theorem isPrefix_length : ∀ (l s : List Nat), isPrefix l s = true → l.length ≤ s.length
  | [], _, _ => by simp
  | _ :: _, [], h => by simp [isPrefix] at h
  | a :: l, b :: s, h => by
    simp [isPrefix] at h
    have := isPrefix_length l s h.2
    simp; omega

theorem isPrefix_append : ∀ (p t : List Nat), isPrefix p (p ++ t) = true
  | [], _ => by simp [isPrefix]
  | a :: p, t => by simp [isPrefix, isPrefix_append p t]

theorem spanLen_le (p : Nat → Bool) : ∀ s, spanLen p s ≤ s.length
  | [] => by simp [spanLen]
  | c :: r => by
    have := spanLen_le p r
    simp [spanLen]; split <;> omega

theorem indexTail_le : ∀ fuel s, indexTail fuel s ≤ s.length
  | 0, _ => by simp [indexTail]
  | fuel + 1, s => by
    unfold indexTail
    split
    · rename_i r
      have h1 := spanLen_le isDigit r
      have h2 := indexTail_le fuel (r.drop (spanLen isDigit r))
      simp only [List.length_drop] at h2
      simp only [List.length_cons]
      split <;> omega
    · omega

theorem indexLen_le (s : List Nat) : indexLen s ≤ s.length := by
  unfold indexLen
  have h1 := spanLen_le isDigit s
  have h2 := indexTail_le s.length (s.drop (spanLen isDigit s))
  simp only [List.length_drop] at h2
  simp only
  split <;> omega

/-- a match never extends past the text -/
theorem matchPat_le_length (syn : Syn) (s : List Nat) (p : LexPat) (k : Nat)
    (h : matchPat syn s p = some k) : k ≤ s.length := by
  cases p with
  | lit l =>
    simp only [matchPat] at h
    split at h
    · rename_i hc
      simp at hc
      have := isPrefix_length _ _ hc.2
      simp at h; omega
    · simp at h
  | withIndex pre =>
    simp only [matchPat] at h
    split at h
    · rename_i hc
      have h1 := isPrefix_length _ _ hc
      have h2 := indexLen_le (s.drop pre.length)
      simp only [List.length_drop] at h2
      split at h
      · simp at h
      · simp at h; omega
    · simp at h
  | withNumber pre =>
    simp only [matchPat] at h
    split at h
    · rename_i hc
      have h1 := isPrefix_length _ _ hc
      have h2 := spanLen_le isDigit (s.drop pre.length)
      simp only [List.length_drop] at h2
      split at h
      · simp at h
      · simp at h; omega
    · simp at h
  | number =>
    simp only [matchPat] at h
    have := spanLen_le isDigit s
    split at h
    · simp at h
    · simp at h; omega
  | globalId =>
    cases s with
    | nil => simp [matchPat] at h
    | cons c r =>
      simp only [matchPat] at h
      have := spanLen_le (isAlnum syn) r
      split at h
      · simp at h; simp; omega
      · simp at h
  | localId =>
    cases s with
    | nil => simp [matchPat] at h
    | cons c r =>
      simp only [matchPat] at h
      have := spanLen_le (isAlnum syn) r
      split at h
      · simp at h; simp; omega
      · simp at h
  | newline =>
    simp only [matchPat] at h
    split at h
    · simp at h; simp; omega
    · simp at h
  | blanks =>
    simp only [matchPat] at h
    have := spanLen_le (fun c => c == 32 || c == 9) s
    split at h
    · simp at h
    · simp at h; omega
  | ws =>
    simp only [matchPat] at h
    have := spanLen_le (fun c => c == 32 || c == 9 || c == 13 || c == 10) s
    split at h
    · simp at h
    · simp at h; omega
  | any =>
    cases s with
    | nil => simp [matchPat] at h
    | cons c r =>
      simp only [matchPat] at h
      split at h
      · simp at h
      · simp at h; simp; omega
  | eof => simp [matchPat] at h

/-- once a full-length match is the current best, no later rule replaces it -/
theorem bestRule_full_keep (syn : Syn) (s : List Nat) (a : LexAct) :
    ∀ rs, bestRule syn s rs (some (s.length, a)) = some (s.length, a)
  | [] => by simp [bestRule]
  | r :: rs => by
    unfold bestRule
    cases hm : matchPat syn s r.pat with
    | none => simpa using bestRule_full_keep syn s a rs
    | some n =>
      have := matchPat_le_length syn s r.pat n hm
      simp only
      rw [if_neg (by omega)]
      exact bestRule_full_keep syn s a rs

/-- `headClash syn c p`: the pattern `p` cannot match a text whose first unit is `c` -/
def headClash (syn : Syn) (c : Nat) : LexPat → Bool
  | .lit l => l.head? != some c
  | .withIndex p => !p.isEmpty && p.head? != some c
  | .withNumber p => !p.isEmpty && p.head? != some c
  | .number => !isDigit c
  | .globalId => !isGlobalStart c
  | .localId => !isLocalStart syn c
  | .newline => c != 10
  | .blanks => !(c == 32 || c == 9)
  | .ws => !(c == 32 || c == 9 || c == 13 || c == 10)
  | .any => c == 10
  | .eof => true

theorem isPrefix_head_ne (p : List Nat) (c : Nat) (s : List Nat) (hne : p ≠ [])
    (h : p.head? ≠ some c) : isPrefix p (c :: s) = false := by
  cases p with
  | nil => exact absurd rfl hne
  | cons a p => simp at h; simp [isPrefix, h]

theorem matchPat_headClash (syn : Syn) (c : Nat) (s : List Nat) (p : LexPat)
    (h : headClash syn c p = true) : matchPat syn (c :: s) p = none := by
  cases p with
  | lit l =>
    simp [headClash] at h
    cases l with
    | nil => simp [matchPat]
    | cons a l => simp at h; simp [matchPat, isPrefix, h]
  | withIndex p =>
    simp [headClash] at h
    simp [matchPat, isPrefix_head_ne p c s h.1 (by simpa using h.2)]
  | withNumber p =>
    simp [headClash] at h
    simp [matchPat, isPrefix_head_ne p c s h.1 (by simpa using h.2)]
  | number => simp [headClash] at h; simp [matchPat, spanLen, h]
  | globalId => simp [headClash] at h; simp [matchPat, h]
  | localId => simp [headClash] at h; simp [matchPat, h]
  | newline =>
    simp [headClash] at h
    simp only [matchPat]
    split
    · rename_i heq; simp at heq; omega
    · rfl
  | blanks => simp [headClash] at h; simp [matchPat, spanLen, h]
  | ws => simp [headClash] at h; simp [matchPat, spanLen, h]
  | any => simp [headClash] at h; simp [matchPat, h]
  | eof => simp [matchPat]

/-- scanning the rules in file order: every rule before the first occurrence of `target` clashes
with the head unit `c`, and `target` occurs -/
def firstHit (syn : Syn) (c : Nat) (target : LexRule) : List LexRule → Bool
  | [] => false
  | r :: rs => if r = target then true else headClash syn c r.pat && firstHit syn c target rs

/-- the rule that matches the whole text wins when all earlier rules cannot start with its head unit -/
theorem bestRule_firstHit (syn : Syn) (c : Nat) (s : List Nat) (target : LexRule)
    (hm : matchPat syn (c :: s) target.pat = some (c :: s).length) :
    ∀ rs, firstHit syn c target rs = true →
      bestRule syn (c :: s) rs none = some ((c :: s).length, target.act)
  | [], h => by simp [firstHit] at h
  | r :: rs, h => by
    unfold firstHit at h
    by_cases hr : r = target
    · subst hr
      unfold bestRule
      rw [hm]
      exact bestRule_full_keep syn (c :: s) r.act rs
    · rw [if_neg hr] at h
      simp only [Bool.and_eq_true] at h
      unfold bestRule
      rw [matchPat_headClash syn c s r.pat h.1]
      exact bestRule_firstHit syn c s target hm rs h.2

/-! ## the best rule for a digit string -/

theorem spanLen_append_all (p : Nat → Bool) : ∀ (ds r : List Nat), ds.all p = true →
    spanLen p (ds ++ r) = ds.length + spanLen p r
  | [], r, _ => by simp
  | d :: ds, r, h => by
    simp only [List.all_cons, Bool.and_eq_true] at h
    simp only [List.cons_append, spanLen, h.1, if_true, spanLen_append_all p ds r h.2, List.length_cons]
    omega

theorem spanLen_all (p : Nat → Bool) (ds : List Nat) (h : ds.all p = true) :
    spanLen p ds = ds.length := by
  have := spanLen_append_all p ds [] h
  simpa [spanLen] using this

/-- table fact: in both rule files the `{number}` rule returns `LIT_INTEGER` and no earlier rule can
start with a digit -/
theorem number_firstHit : ∀ syn : Syn, ∀ c ∈ List.range' 48 10,
    firstHit syn c ⟨.number, .tok .LIT_INTEGER⟩ (rulesOf syn) = true := by
  intro syn; cases syn <;> decide

theorem isDigit_mem (c : Nat) (h : isDigit c = true) : c ∈ List.range' 48 10 := by
  simp [isDigit] at h
  rw [List.mem_range'_1]
  omega

theorem best_number (syn : Syn) (w : List Nat) (hw : w ≠ []) (hd : w.all isDigit = true) :
    bestRule syn w (rulesOf syn) none = some (w.length, .tok .LIT_INTEGER) := by
  cases w with
  | nil => exact absurd rfl hw
  | cons c s =>
    have hc : isDigit c = true := by simp at hd; exact hd.1
    have hm : matchPat syn (c :: s) (LexRule.mk .number (.tok .LIT_INTEGER)).pat = some (c :: s).length := by
      simp only [matchPat, spanLen_all isDigit (c :: s) hd]
      simp
    exact bestRule_firstHit syn c s _ hm _ (number_firstHit syn c (isDigit_mem c hc))

example : bestRule .math (decNat 2147483647) (rulesOf .math) none
    = some ((decNat 2147483647).length, .tok .LIT_INTEGER) :=
  best_number _ _ (decNat_ne_nil _) (decNat_digits _)

/-! ## index tuples: the text `Token::ToString` prints after "pr" / "Pr" / "Fi" -/

def idxOK (idx : List Int) : Prop := idx ≠ [] ∧ ∀ i ∈ idx, 0 ≤ i ∧ i ≤ 32767

/-- `,j` for every further index -/
def tailText (rest : List Int) : List Nat := rest.flatMap (fun j => 44 :: decInt j)

def idxText : List Int → List Nat
  | [] => []
  | i :: rest => decInt i ++ rest.flatMap (fun j => 44 :: decInt j)

theorem idxText_cons (i : Int) (rest : List Int) : idxText (i :: rest) = decInt i ++ tailText rest := rfl
theorem tailText_nil : tailText [] = [] := rfl
theorem tailText_cons (j : Int) (rest : List Int) :
    tailText (j :: rest) = 44 :: (decInt j ++ tailText rest) := by
  simp [tailText]

theorem tokToString_index (syn : Syn) (id : Tok) (h : id = .BIGPR ∨ id = .SMALLPR ∨ id = .FILTER)
    (idx : List Int) (hne : idx ≠ []) :
    tokToString syn id (.tuple idx) = some (str .math id ++ idxText idx) := by
  cases idx with
  | nil => exact absurd rfl hne
  | cons i rest =>
    rcases h with h | h | h <;> subst h <;> simp [tokToString, idxText, List.append_assoc]

example : tokToString .ascii .FILTER (.tuple [3, 1, 20]) = some (str .math .FILTER ++ idxText [3, 1, 20]) :=
  tokToString_index _ _ (by simp) _ (by simp)

/-- table fact: the three spellings have two units -/
theorem str_index_length (id : Tok) (h : id = .BIGPR ∨ id = .SMALLPR ∨ id = .FILTER) :
    (str .math id).length = 2 := by
  rcases h with h | h | h <;> subst h <;> decide

/-! ### `fromIndexSequence` -/

theorem wrapInt16_id (n : Int) (h0 : 0 ≤ n) (h1 : n ≤ 32767) : wrapInt 16 n = n := by
  unfold wrapInt
  simp only [Int.reducePow]
  have : n % 65536 = n := Int.emod_eq_of_lt h0 (by omega)
  rw [this, if_pos (by omega)]

/-- the step function of `fromIndexSequence` -/
def idxStep : (List Int × Int) → Nat → (List Int × Int) := fun (acc, idx) ch =>
  if isDigit ch then (acc, wrapInt 16 (wrapInt 16 (idx * 10) + (ch - 48 : Nat)))
  else (acc ++ [idx], 0)

theorem fromIndexSequence_eq (s : List Nat) :
    fromIndexSequence s = (s.foldl idxStep ([], 0)).1 ++ [(s.foldl idxStep ([], 0)).2] := rfl

theorem idxStep_digit (acc : List Int) (v : Int) (d : Nat) (hd : d < 10)
    (h0 : 0 ≤ v) (h1 : v * 10 + d ≤ 32767) :
    idxStep (acc, v) (48 + d) = (acc, v * 10 + d) := by
  have hdig : isDigit (48 + d) = true := by simp [isDigit]; omega
  simp only [idxStep, hdig, if_true]
  have e : 48 + d - 48 = d := by omega
  rw [e, wrapInt16_id (v * 10) (by omega) (by omega), wrapInt16_id _ (by omega) h1]

theorem idxStep_comma (acc : List Int) (v : Int) : idxStep (acc, v) 44 = (acc ++ [v], 0) := by
  simp [idxStep, isDigit]

/-- reading the decimal spelling of `n` from the state `(acc, 0)` gives `(acc, n)` -/
theorem foldl_idxStep_decNat (acc : List Int) (n : Nat) (h : n ≤ 32767) :
    (decNat n).foldl idxStep (acc, 0) = (acc, (n : Int)) := by
  induction n using Nat.strongRecOn with
  | ind n ih =>
    rw [decNat_eq]
    split
    · rename_i hn
      simp only [List.foldl_cons, List.foldl_nil]
      rw [idxStep_digit acc 0 n hn (by omega) (by omega)]
      simp
    · rw [List.foldl_append, ih (n / 10) (by omega) (by omega)]
      simp only [List.foldl_cons, List.foldl_nil]
      rw [idxStep_digit acc _ (n % 10) (by omega) (by omega) (by omega)]
      congr 1
      omega

theorem foldl_idxStep_decInt (acc : List Int) (i : Int) (h0 : 0 ≤ i) (h1 : i ≤ 32767) :
    (decInt i).foldl idxStep (acc, 0) = (acc, i) := by
  rw [decInt_nonneg i h0, foldl_idxStep_decNat acc _ (by omega)]
  congr 1
  omega

theorem foldl_idxStep_tail : ∀ (rest : List Int) (acc : List Int) (v : Int),
    (∀ j ∈ rest, 0 ≤ j ∧ j ≤ 32767) →
    ((tailText rest).foldl idxStep (acc, v)).1 ++ [((tailText rest).foldl idxStep (acc, v)).2]
      = acc ++ v :: rest
  | [], acc, v, _ => by simp [tailText_nil]
  | j :: rest, acc, v, h => by
    have hj := h j (by simp)
    rw [tailText_cons, List.foldl_cons, idxStep_comma, List.foldl_append,
      foldl_idxStep_decInt _ j hj.1 hj.2,
      foldl_idxStep_tail rest _ j (fun k hk => h k (by simp [hk]))]
    simp

theorem fromIndexSequence_idxText (idx : List Int) (h : idxOK idx) :
    fromIndexSequence (idxText idx) = idx := by
  cases idx with
  | nil => exact absurd rfl h.1
  | cons i rest =>
    have hi := h.2 i (by simp)
    rw [fromIndexSequence_eq, idxText_cons, List.foldl_append, foldl_idxStep_decInt _ i hi.1 hi.2,
      foldl_idxStep_tail rest _ i (fun k hk => h.2 k (by simp [hk]))]
    simp

theorem idxOK_example : idxOK [3, 1, 20] := by
  refine ⟨by simp, ?_⟩
  intro i hi
  simp at hi
  omega

example : fromIndexSequence (idxText [3, 1, 20]) = [3, 1, 20] :=
  fromIndexSequence_idxText _ idxOK_example

/-! ### `indexLen` -/

theorem decInt_digits (i : Int) (h : 0 ≤ i) : (decInt i).all isDigit = true := by
  rw [decInt_nonneg i h]; exact decNat_digits _

theorem decInt_ne_nil (i : Int) (h : 0 ≤ i) : decInt i ≠ [] := by
  rw [decInt_nonneg i h]; exact decNat_ne_nil _

theorem decInt_length_pos (i : Int) (h : 0 ≤ i) : 0 < (decInt i).length :=
  List.length_pos_iff.mpr (decInt_ne_nil i h)

theorem spanLen_tailText (rest : List Int) : spanLen isDigit (tailText rest) = 0 := by
  cases rest with
  | nil => simp [tailText_nil, spanLen]
  | cons j rest => simp [tailText_cons, spanLen, isDigit]

theorem spanLen_decInt_tail (j : Int) (h : 0 ≤ j) (rest : List Int) :
    spanLen isDigit (decInt j ++ tailText rest) = (decInt j).length := by
  rw [spanLen_append_all isDigit _ _ (decInt_digits j h), spanLen_tailText]; rfl

theorem tailText_length_ge : ∀ rest : List Int, rest.length ≤ (tailText rest).length
  | [] => by simp
  | j :: rest => by
    have := tailText_length_ge rest
    rw [tailText_cons]; simp; omega

/-- `indexTail` consumes the whole `,j,k…` text as soon as the fuel covers the number of indices -/
theorem indexTail_tailText : ∀ (rest : List Int) (fuel : Nat), rest.length ≤ fuel →
    (∀ j ∈ rest, 0 ≤ j) → indexTail fuel (tailText rest) = (tailText rest).length
  | [], fuel, _, _ => by cases fuel <;> simp [indexTail, tailText_nil]
  | j :: rest, 0, hf, _ => by simp at hf
  | j :: rest, fuel + 1, hf, h => by
    have hj := h j (by simp)
    have hk := spanLen_decInt_tail j hj rest
    have hpos := decInt_length_pos j hj
    have ih := indexTail_tailText rest fuel (by simp at hf; omega) (fun k hk => h k (by simp [hk]))
    have hz : ((decInt j).length == 0) = false := by simp [decInt_ne_nil j hj]
    rw [tailText_cons]
    unfold indexTail
    simp only [hk, hz]
    simp only [List.drop_left, ih, List.length_cons, List.length_append]
    simp; omega

theorem indexLen_idxText (idx : List Int) (h : idxOK idx) : indexLen (idxText idx) = (idxText idx).length := by
  cases idx with
  | nil => exact absurd rfl h.1
  | cons i rest =>
    have hi := (h.2 i (by simp)).1
    have hk := spanLen_decInt_tail i hi rest
    have hpos := decInt_length_pos i hi
    have hlen := tailText_length_ge rest
    have ht := indexTail_tailText rest (decInt i ++ tailText rest).length
      (by simp; omega) (fun k hk => (h.2 k (by simp [hk])).1)
    have hz : ((decInt i).length == 0) = false := by simp [decInt_ne_nil i hi]
    rw [idxText_cons]
    unfold indexLen
    rw [List.length_append] at ht
    simp only [hk, hz]
    simp only [List.drop_left, List.length_append, ht]
    simp

example : indexLen (idxText [3, 1, 20]) = (idxText [3, 1, 20]).length := indexLen_idxText _ idxOK_example

theorem idxText_ne_nil (idx : List Int) (h : idxOK idx) : idxText idx ≠ [] := by
  cases idx with
  | nil => exact absurd rfl h.1
  | cons i rest =>
    have := decInt_ne_nil i (h.2 i (by simp)).1
    simp [idxText_cons, this]

/-! ### payload and best rule -/

/-- `best_number` for a printed non-negative literal -/
theorem best_decInt (syn : Syn) (n : Int) (h0 : 0 ≤ n) :
    bestRule syn (decInt n) (rulesOf syn) none = some ((decInt n).length, .tok .LIT_INTEGER) :=
  best_number syn _ (decInt_ne_nil n h0) (decInt_digits n h0)

example : bestRule .ascii (decInt 2147483647) (rulesOf .ascii) none
    = some ((decInt 2147483647).length, .tok .LIT_INTEGER) := best_decInt _ _ (by decide)

theorem parseData_index (id : Tok) (h : id = .BIGPR ∨ id = .SMALLPR ∨ id = .FILTER) (idx : List Int)
    (hi : idxOK idx) : parseData id (str .math id ++ idxText idx) = .tuple idx := by
  have hl := str_index_length id h
  have hd : (str .math id ++ idxText idx).drop 2 = idxText idx := by
    rw [← hl]; exact List.drop_left
  rcases h with h | h | h <;> subst h <;> simp only [parseData, hd, fromIndexSequence_idxText idx hi]

example : parseData .FILTER (str .math .FILTER ++ idxText [3, 1, 20]) = .tuple [3, 1, 20] :=
  parseData_index _ (by simp) _ idxOK_example

/-- table fact: in both rule files the `withIndex` rule of the spelling `Token::Str(id)` returns `id`, and no
earlier rule can start with the first unit of that spelling -/
theorem index_firstHit (syn : Syn) (id : Tok) (h : id = .BIGPR ∨ id = .SMALLPR ∨ id = .FILTER) :
    firstHit syn ((str .math id).headD 0) ⟨.withIndex (str .math id), .tok id⟩ (rulesOf syn) = true := by
  cases syn <;> rcases h with h | h | h <;> subst h <;> decide

theorem matchPat_withIndex (syn : Syn) (pre : List Nat) (idx : List Int) (hi : idxOK idx) :
    matchPat syn (pre ++ idxText idx) (.withIndex pre) = some (pre ++ idxText idx).length := by
  have hne := idxText_ne_nil idx hi
  have hpos : 0 < (idxText idx).length := List.length_pos_iff.mpr hne
  simp only [matchPat, isPrefix_append, if_true, List.drop_left, indexLen_idxText idx hi]
  rw [if_neg (by simp; omega)]
  simp

theorem best_index (syn : Syn) (id : Tok) (h : id = .BIGPR ∨ id = .SMALLPR ∨ id = .FILTER) (idx : List Int)
    (hi : idxOK idx) :
    bestRule syn (str .math id ++ idxText idx) (rulesOf syn) none
      = some ((str .math id ++ idxText idx).length, .tok id) := by
  have hl := str_index_length id h
  have hf := index_firstHit syn id h
  have hm := matchPat_withIndex syn (str .math id) idx hi
  generalize str .math id = pre at hl hf hm ⊢
  match pre, hl with
  | [c0, c1], _ =>
    exact bestRule_firstHit syn c0 (c1 :: idxText idx) ⟨.withIndex [c0, c1], .tok id⟩ hm _ hf

example : bestRule .ascii (str .math .FILTER ++ idxText [1, 2]) (rulesOf .ascii) none
    = some ((str .math .FILTER ++ idxText [1, 2]).length, .tok .FILTER) :=
  best_index _ _ (by simp) _ ⟨by simp, by intro i hi; simp at hi; omega⟩

/-! ### shape facts -/

theorem tailText_chars : ∀ rest : List Int, (∀ j ∈ rest, 0 ≤ j) →
    (tailText rest).all (fun c => isDigit c || c == 44) = true
  | [], _ => by simp [tailText_nil]
  | j :: rest, h => by
    have hd := decInt_digits j (h j (by simp))
    have ih := tailText_chars rest (fun k hk => h k (by simp [hk]))
    rw [tailText_cons, List.all_cons, List.all_append, ih]
    simp only [List.all_eq_true] at hd ⊢
    simp
    intro c hc; exact Or.inl (hd c hc)

theorem idxText_chars (idx : List Int) (h : idxOK idx) :
    (idxText idx).all (fun c => isDigit c || c == 44) = true := by
  cases idx with
  | nil => exact absurd rfl h.1
  | cons i rest =>
    have hd := decInt_digits i (h.2 i (by simp)).1
    have ht := tailText_chars rest (fun k hk => (h.2 k (by simp [hk])).1)
    rw [idxText_cons, List.all_append, ht]
    simp only [List.all_eq_true] at hd ⊢
    simp
    intro c hc; exact Or.inl (hd c hc)

/-- the first unit of the index text is a digit -/
theorem idxText_head_digit (idx : List Int) (h : idxOK idx) :
    ∃ c r, idxText idx = c :: r ∧ isDigit c = true := by
  cases idx with
  | nil => exact absurd rfl h.1
  | cons i rest =>
    have hi := (h.2 i (by simp)).1
    have hd := decInt_digits i hi
    have hne := decInt_ne_nil i hi
    rw [idxText_cons]
    cases hs : decInt i with
    | nil => exact absurd hs hne
    | cons c r =>
      rw [hs] at hd
      simp only [List.all_cons, Bool.and_eq_true] at hd
      exact ⟨c, r ++ tailText rest, by simp, hd.1⟩

theorem digits_last (ds : List Nat) (hne : ds ≠ []) (hd : ds.all isDigit = true) :
    ∃ r c, ds = r ++ [c] ∧ isDigit c = true := by
  refine ⟨ds.dropLast, ds.getLast hne, (List.dropLast_concat_getLast hne).symm, ?_⟩
  simp only [List.all_eq_true] at hd
  exact hd _ (List.getLast_mem hne)

theorem tailText_last_digit : ∀ (rest : List Int), rest ≠ [] → (∀ j ∈ rest, 0 ≤ j) →
    ∃ r c, tailText rest = r ++ [c] ∧ isDigit c = true
  | [], hne, _ => absurd rfl hne
  | [j], _, h => by
    have hj := h j (by simp)
    obtain ⟨r, c, e, hc⟩ := digits_last (decInt j) (decInt_ne_nil j hj) (decInt_digits j hj)
    exact ⟨44 :: r, c, by simp [tailText_cons, tailText_nil, e], hc⟩
  | j :: k :: rest, _, h => by
    obtain ⟨r, c, e, hc⟩ := tailText_last_digit (k :: rest) (by simp) (fun x hx => h x (by simp [hx]))
    exact ⟨44 :: (decInt j ++ r), c, by rw [tailText_cons, e]; simp, hc⟩

/-- the last unit of the index text is a digit -/
theorem idxText_last_digit (idx : List Int) (h : idxOK idx) :
    ∃ r c, idxText idx = r ++ [c] ∧ isDigit c = true := by
  cases idx with
  | nil => exact absurd rfl h.1
  | cons i rest =>
    have hi := (h.2 i (by simp)).1
    rw [idxText_cons]
    cases rest with
    | nil =>
      obtain ⟨r, c, e, hc⟩ := digits_last (decInt i) (decInt_ne_nil i hi) (decInt_digits i hi)
      exact ⟨r, c, by simp [tailText_nil, e], hc⟩
    | cons k rest =>
      obtain ⟨r, c, e, hc⟩ := tailText_last_digit (k :: rest) (by simp)
        (fun x hx => (h.2 x (by simp [hx])).1)
      exact ⟨decInt i ++ r, c, by rw [e]; simp, hc⟩

example : (idxText [3, 1, 20]).all (fun c => isDigit c || c == 44) = true := idxText_chars _ idxOK_example
example : ∃ c r, idxText [3, 1, 20] = c :: r ∧ isDigit c = true := idxText_head_digit _ idxOK_example
example : ∃ r c, idxText [3, 1, 20] = r ++ [c] ∧ isDigit c = true := idxText_last_digit _ idxOK_example
/-- the text of `Fi1,2` -/
example : str .math .FILTER ++ idxText [1, 2] = [70, 105, 49, 44, 50] := by decide

end CCVerif.LexN
