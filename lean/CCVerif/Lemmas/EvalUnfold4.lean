import CCVerif.Lemmas.EvalUnfold
/-! Unfolding equations of `ev` and `denote` for the recursive constructor `R{x := init | [cond |] step}`
and the imperative constructor `I{value | blocks}` over plain variables (stage 4 of the C01 / C02
fragments).  Nothing here is a property. -/
namespace CCVerif.Eval
open CCVerif.Syntax CCVerif.Spec CCVerif.Norm

/-! ## `ev` -/

theorem ev_recShort (c : Ctx) (fuel : Nat) (x : String) (dlo dhi : Int) (init body : Ast)
    (d : TokData) (lo hi : Int) (p : Option Tok) (st : St) :
    ev c (fuel + 1) (.node .NT_RECURSIVE_SHORT d lo hi [.node .ID_LOCAL (.text x) dlo dhi [], init, body]) p st =
      match (ev c fuel init (some .NT_RECURSIVE_SHORT) st).asVal with
      | .fail f k => .fail f k
      | .ok v st1 =>
        match lookup x c.ids with
        | none => .fail (.stuck "ViRecursion *begin(nodeVars)") st1.iters
        | some var =>
          match st1.data[var]? with
          | none => .fail (.stuck "SlotGuard slots.at") st1.iters
          | some saved =>
            restoreSlot var saved
              (recLoop none (fun st => ev c fuel body (some .NT_RECURSIVE_SHORT) st) var lo (MAX_ITERATIONS + 2) v st1) := by
  simp only [ev, dispatchesDefault, Ast.id, Ast.kids, Ast.lo]
  simp [firstVar_local]
  rfl

theorem ev_recFull (c : Ctx) (fuel : Nat) (x : String) (dlo dhi : Int) (init cond body : Ast)
    (d : TokData) (lo hi : Int) (p : Option Tok) (st : St) :
    ev c (fuel + 1) (.node .NT_RECURSIVE_FULL d lo hi [.node .ID_LOCAL (.text x) dlo dhi [], init, cond, body]) p st =
      match (ev c fuel init (some .NT_RECURSIVE_FULL) st).asVal with
      | .fail f k => .fail f k
      | .ok v st1 =>
        match lookup x c.ids with
        | none => .fail (.stuck "ViRecursion *begin(nodeVars)") st1.iters
        | some var =>
          match st1.data[var]? with
          | none => .fail (.stuck "SlotGuard slots.at") st1.iters
          | some saved =>
            restoreSlot var saved
              (recLoop (some fun st => ev c fuel cond (some .NT_RECURSIVE_FULL) st)
                (fun st => ev c fuel body (some .NT_RECURSIVE_FULL) st) var lo (MAX_ITERATIONS + 2) v st1) := by
  simp only [ev, dispatchesDefault, Ast.id, Ast.kids, Ast.lo]
  simp [firstVar_local]
  rfl

/-- `EvaluateChild(imperative, i)` -/
def impChild (c : Ctx) (fuel : Nat) (kids : List Ast) (i : Nat) (st : St) : R V :=
  match kids[i]? with
  | none => .fail (.stuck "EvaluateChild index") st.iters
  | some k => ev c fuel k (some .NT_IMPERATIVE_EXPR) st

/-- `ExtractDomain` of block child `i` -/
def impDom (c : Ctx) (fuel : Nat) (kids : List Ast) (i : Nat) (st : St) : R V :=
  match kids[i]? with
  | none => .fail (.stuck "ProcessBlock MoveToChild") st.iters
  | some blk =>
    match blk.kids[1]? with
    | none => .fail (.stuck "ExtractDomain VisitChild(1)") st.iters
    | some d => ev c fuel d (some blk.id) st

/-- `CreateBlockMetadata` for one block -/
def impMeta (c : Ctx) (b : Ast) : Option BlockMeta :=
  if b.id == .ITERATE || b.id == .ASSIGN then
    (b.kids.head?.bind (firstVar c)).map (fun v => ({ rootID := b.id, arg := v } : BlockMeta))
  else some { rootID := b.id, arg := 0 }

theorem ev_imp (c : Ctx) (fuel : Nat) (value : Ast) (blocks : List Ast) (d : TokData) (lo hi : Int)
    (p : Option Tok) (st : St) :
    ev c (fuel + 1) (.node .NT_IMPERATIVE_EXPR d lo hi (value :: blocks)) p st =
      if blocks.isEmpty then .fail (.stuck "CreateBlockMetadata MoveToChild(1)") st.iters else
      match allSome (blocks.map (impMeta c)) with
      | none => .fail (.stuck "CreateBlockMetadata *begin(nodeVars)") st.iters
      | some metas =>
        match impGuards st.data metas with
        | none => .fail (.stuck "SlotGuard slots.at") st.iters
        | some saved =>
          restoreSlots saved
            (impLoop (blocks.length + 1) metas (impChild c fuel (value :: blocks)) (impDom c fuel (value :: blocks)) lo
              (MAX_ITERATIONS + 2) 0 [] [] st) := by
  simp only [ev, dispatchesDefault, Ast.id, Ast.kids, Ast.lo]
  rfl

/-! ## `denote` -/

theorem denote_recShort (env : SEnv) (fuel : Nat) (ρ : LEnv) (x : String) (dlo dhi : Int) (init body : Ast)
    (d : TokData) (lo hi : Int) :
    denote env (fuel + 1) ρ (.node .NT_RECURSIVE_SHORT d lo hi [.node .ID_LOCAL (.text x) dlo dhi [], init, body]) =
      match dVal (denote env fuel ρ init) with
      | none => none
      | some i =>
        (recSem (fun _ => some true) (fun cur => dVal (denote env fuel (.val x cur ρ) body)) REC_BOUND i).map SemVal.val := by
  simp only [denote, Ast.id, Ast.kids, List.getElem?_cons_zero, List.getElem?_cons_succ, Option.getD_some,
    bindPat_local]
  rfl

theorem denote_recFull (env : SEnv) (fuel : Nat) (ρ : LEnv) (x : String) (dlo dhi : Int) (init cond body : Ast)
    (d : TokData) (lo hi : Int) :
    denote env (fuel + 1) ρ (.node .NT_RECURSIVE_FULL d lo hi [.node .ID_LOCAL (.text x) dlo dhi [], init, cond, body]) =
      match dVal (denote env fuel ρ init) with
      | none => none
      | some i =>
        (recSem (fun cur => dBool (denote env fuel (.val x cur ρ) cond))
          (fun cur => dVal (denote env fuel (.val x cur ρ) body)) REC_BOUND i).map SemVal.val := by
  simp only [denote, Ast.id, Ast.kids, List.getElem?_cons_zero, List.getElem?_cons_succ, Option.getD_some,
    bindPat_local]
  rfl

theorem denote_imp (env : SEnv) (fuel : Nat) (ρ : LEnv) (value : Ast) (blocks : List Ast) (d : TokData) (lo hi : Int) :
    denote env (fuel + 1) ρ (.node .NT_IMPERATIVE_EXPR d lo hi (value :: blocks)) =
      ((impSem (fun ρ' => dVal (denote env fuel ρ' value)) (fun ρ' x => dVal (denote env fuel ρ' x))
        (fun ρ' x => dBool (denote env fuel ρ' x)) blocks ρ).map setOf).map SemVal.val := by
  simp only [denote, Ast.id, Ast.kids, List.getElem?_cons_zero, Option.getD_some, List.drop_succ_cons, List.drop_zero]
  rfl

end CCVerif.Eval

