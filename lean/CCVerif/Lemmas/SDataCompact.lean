import CCVerif.Model.SDataCompact
/-! Helper lemmas for C16: the order `cmp`, sorted insertion, the three type visitors, the
cursor invariant of the decoder and the layout (`enc`) the packer produces. -/
namespace CCVerif.SDC

/-! ### `cmp` -/

theorem cmpSeq_cons (a b : Val) (as bs : List Val) :
    cmpSeq (a :: as) (b :: bs) = if cmp a b = .equal then cmpSeq as bs else cmp a b := by
  rw [cmpSeq]; cases cmp a b <;> simp

mutual
theorem cmp_refl : ∀ v : Val, cmp v v = .equal
  | .e n => by simp [cmp]
  | .t cs => by simp [cmp, cmpSeq_refl cs]
  | .s xs => by simp [cmp, cmpSeq_refl xs]
theorem cmpSeq_refl : ∀ l : List Val, cmpSeq l l = .equal
  | [] => by simp [cmpSeq]
  | a :: as => by rw [cmpSeq_cons, cmp_refl a]; simpa using cmpSeq_refl as
end

mutual
theorem cmp_eq : ∀ (a b : Val), cmp a b = .equal → a = b
  | .e x, .e y, h => by
    simp only [cmp] at h
    split at h
    · simp_all
    · split at h <;> simp at h
  | .t as, .t bs, h => by
    simp only [cmp] at h
    split at h
    · simp at h
    · rw [cmpSeq_eq as bs h (by omega)]
  | .s as, .s bs, h => by
    simp only [cmp] at h
    split at h
    · simp at h
    · split at h
      · simp at h
      · rw [cmpSeq_eq as bs h (by omega)]
  | .e _, .t _, h => by simp [cmp] at h
  | .e _, .s _, h => by simp [cmp] at h
  | .t _, .e _, h => by simp [cmp] at h
  | .t _, .s _, h => by simp [cmp] at h
  | .s _, .e _, h => by simp [cmp] at h
  | .s _, .t _, h => by simp [cmp] at h
theorem cmpSeq_eq : ∀ (as bs : List Val), cmpSeq as bs = .equal → as.length = bs.length → as = bs
  | [], [], _, _ => rfl
  | [], _ :: _, _, hl => by simp at hl
  | _ :: _, [], _, hl => by simp at hl
  | a :: as, b :: bs, h, hl => by
    rw [cmpSeq_cons] at h
    by_cases hab : cmp a b = .equal
    · rw [if_pos hab] at h
      rw [cmp_eq a b hab, cmpSeq_eq as bs h (by simpa using hl)]
    · rw [if_neg hab] at h; exact absurd h hab
end

theorem cmp_e_less (x y : Int) : cmp (.e x) (.e y) = .less ↔ x < y := by
  simp only [cmp]
  split
  · simp; omega
  · split <;> simp <;> omega

theorem cmp_t_less (as bs : List Val) :
    cmp (.t as) (.t bs) = .less ↔ as.length = bs.length ∧ cmpSeq as bs = .less := by
  simp only [cmp]
  split <;> simp_all

theorem cmp_s_less (as bs : List Val) :
    cmp (.s as) (.s bs) = .less ↔
      as.length < bs.length ∨ (as.length = bs.length ∧ cmpSeq as bs = .less) := by
  simp only [cmp]
  split
  · simp; omega
  · split
    · simp; omega
    · have : as.length = bs.length := by omega
      simp [this]

mutual
theorem cmp_trans : ∀ (a b c : Val), cmp a b = .less → cmp b c = .less → cmp a c = .less
  | .e x, .e y, .e z, h1, h2 => by
    rw [cmp_e_less] at *; omega
  | .t as, .t bs, .t cs, h1, h2 => by
    rw [cmp_t_less] at *
    exact ⟨by omega, cmpSeq_trans as bs cs h1.1 h2.1 h1.2 h2.2⟩
  | .s as, .s bs, .s cs, h1, h2 => by
    rw [cmp_s_less] at *
    rcases h1 with h1 | ⟨l1, h1⟩ <;> rcases h2 with h2 | ⟨l2, h2⟩
    · left; omega
    · left; omega
    · left; omega
    · right; exact ⟨by omega, cmpSeq_trans as bs cs l1 l2 h1 h2⟩
  | .e _, .t _, _, h1, _ => by simp [cmp] at h1
  | .e _, .s _, _, h1, _ => by simp [cmp] at h1
  | .t _, .e _, _, h1, _ => by simp [cmp] at h1
  | .t _, .s _, _, h1, _ => by simp [cmp] at h1
  | .s _, .e _, _, h1, _ => by simp [cmp] at h1
  | .s _, .t _, _, h1, _ => by simp [cmp] at h1
  | .e _, .e _, .t _, _, h2 => by simp [cmp] at h2
  | .e _, .e _, .s _, _, h2 => by simp [cmp] at h2
  | .t _, .t _, .e _, _, h2 => by simp [cmp] at h2
  | .t _, .t _, .s _, _, h2 => by simp [cmp] at h2
  | .s _, .s _, .e _, _, h2 => by simp [cmp] at h2
  | .s _, .s _, .t _, _, h2 => by simp [cmp] at h2
theorem cmpSeq_trans : ∀ (as bs cs : List Val), as.length = bs.length → bs.length = cs.length →
    cmpSeq as bs = .less → cmpSeq bs cs = .less → cmpSeq as cs = .less
  | [], _, _, _, _, h1, _ => by simp [cmpSeq] at h1
  | _ :: _, [], _, l1, _, _, _ => by simp at l1
  | _ :: _, _ :: _, [], _, l2, _, _ => by simp at l2
  | a :: as, b :: bs, c :: cs, l1, l2, h1, h2 => by
    rw [cmpSeq_cons] at *
    by_cases hab : cmp a b = .equal
    · rw [if_pos hab] at h1
      have := cmp_eq a b hab
      subst this
      by_cases hbc : cmp a c = .equal
      · rw [if_pos hbc] at h2 ⊢
        exact cmpSeq_trans as bs cs (by simpa using l1) (by simpa using l2) h1 h2
      · rw [if_neg hbc] at h2 ⊢; exact h2
    · rw [if_neg hab] at h1
      by_cases hbc : cmp b c = .equal
      · have := cmp_eq b c hbc
        subst this
        rw [if_neg hab]; exact h1
      · rw [if_neg hbc] at h2
        have hac := cmp_trans a b c h1 h2
        rw [if_neg (by rw [hac]; simp), hac]
end

/-! ### sorted insertion (`std::set::insert`) -/

theorem sorted_cons (a : Val) (l : List Val) :
    sorted (a :: l) = true ↔ (∀ b ∈ l, lt a b = true) ∧ sorted l = true := by
  simp [sorted]

theorem sorted_append_single (ds : List Val) (x : Val) :
    sorted ds = true → (∀ d ∈ ds, lt d x = true) → sorted (ds ++ [x]) = true := by
  induction ds with
  | nil => intro _ _; simp [sorted]
  | cons d ds ih =>
    intro h1 h2
    rw [sorted_cons] at h1
    rw [List.cons_append, sorted_cons]
    refine ⟨?_, ih h1.2 (fun d' hd' => h2 d' (List.mem_cons_of_mem _ hd'))⟩
    intro b hb
    rcases List.mem_append.mp hb with hb | hb
    · exact h1.1 b hb
    · simp at hb; subst hb; exact h2 d (List.mem_cons_self ..)

theorem sorted_append_left (ds es : List Val) : sorted (ds ++ es) = true → sorted ds = true := by
  induction ds with
  | nil => intro _; simp [sorted]
  | cons d ds ih =>
    intro h
    rw [List.cons_append, sorted_cons] at h
    rw [sorted_cons]
    exact ⟨fun b hb => h.1 b (List.mem_append_left _ hb), ih h.2⟩

theorem sorted_append_lt (ds es : List Val) : sorted (ds ++ es) = true →
    ∀ d ∈ ds, ∀ x ∈ es, lt d x = true := by
  induction ds with
  | nil => intro _ d hd; simp at hd
  | cons d ds ih =>
    intro h d' hd' x hx
    rw [List.cons_append, sorted_cons] at h
    rcases List.mem_cons.mp hd' with rfl | hd'
    · exact h.1 x (List.mem_append_right _ hx)
    · exact ih h.2 d' hd' x hx

/-- inserting an element that is greater than everything present appends it. -/
theorem insert_last (x : Val) (ds : List Val) (h : ∀ d ∈ ds, lt d x = true) :
    insert x ds = some (ds ++ [x]) := by
  induction ds with
  | nil => simp [insert]
  | cons d ds ih =>
    have hd := h d (List.mem_cons_self ..)
    rw [insert, if_pos hd, ih (fun d' hd' => h d' (List.mem_cons_of_mem _ hd'))]
    simp

theorem lt_trans' {a b c : Val} (h1 : lt a b = true) (h2 : lt b c = true) : lt a c = true := by
  simp only [lt, beq_iff_eq] at *
  exact cmp_trans a b c h1 h2

/-- `insert` keeps the sequence sorted and adds exactly the new element. -/
theorem insert_sorted (x : Val) : ∀ (l l' : List Val), sorted l = true → insert x l = some l' →
    sorted l' = true ∧ ∀ z, z ∈ l' ↔ (z = x ∨ z ∈ l) := by
  intro l
  induction l with
  | nil =>
    intro l' _ h
    simp [insert] at h; subst h
    simp [sorted]
  | cons a rest ih =>
    intro l' hs h
    rw [sorted_cons] at hs
    rw [insert] at h
    by_cases hax : lt a x = true
    · rw [if_pos hax] at h
      cases hr : insert x rest with
      | none => rw [hr] at h; simp at h
      | some r =>
        rw [hr] at h; simp at h; subst h
        obtain ⟨ihs, ihm⟩ := ih r hs.2 hr
        refine ⟨?_, ?_⟩
        · rw [sorted_cons]
          refine ⟨?_, ihs⟩
          intro b hb
          rcases (ihm b).mp hb with rfl | hb
          · exact hax
          · exact hs.1 b hb
        · intro z
          simp only [List.mem_cons, ihm z]
          constructor
          · rintro (h | h | h) <;> simp [h]
          · rintro (h | h | h) <;> simp [h]
    · rw [if_neg hax] at h
      by_cases hxa : lt x a = true
      · rw [if_pos hxa] at h; simp at h; subst h
        refine ⟨?_, ?_⟩
        · rw [sorted_cons, sorted_cons]
          refine ⟨?_, hs⟩
          intro b hb
          rcases List.mem_cons.mp hb with rfl | hb
          · exact hxa
          · exact lt_trans' hxa (hs.1 b hb)
        · intro z; simp
      · rw [if_neg hxa] at h; simp at h

/-! ### the visitors: header, `SkipEmpty`, `AddEmpty` all count the same nodes -/

mutual
/-- number of basic / collection nodes of a typification (= cells of an empty set of that type). -/
def cells : Ty → Nat
  | .base _ => 1
  | .coll b => cells b + 1
  | .tuple cs => cellsL cs
def cellsL : List Ty → Nat
  | [] => 0
  | c :: cs => cells c + cellsL cs
end

mutual
theorem header_length : ∀ τ : Ty, (header τ).length = cells τ
  | .base _ => by simp [header, cells]
  | .coll b => by simp [header, cells, header_length b]
  | .tuple cs => by simp [header, cells, headerL_length cs]
theorem headerL_length : ∀ cs : List Ty, (headerL cs).length = cellsL cs
  | [] => by simp [headerL, cellsL]
  | c :: cs => by simp [headerL, cellsL, header_length c, headerL_length cs]
end

mutual
theorem skipEmpty_eq : ∀ (τ : Ty) (y : Nat), skipEmpty τ y = y + cells τ
  | .base _, y => by simp [skipEmpty, cells]
  | .coll b, y => by simp [skipEmpty, cells, skipEmpty_eq b]; omega
  | .tuple cs, y => by simp [skipEmpty, cells, skipEmptyL_eq cs]
theorem skipEmptyL_eq : ∀ (cs : List Ty) (y : Nat), skipEmptyL cs y = y + cellsL cs
  | [], y => by simp [skipEmptyL, cellsL]
  | c :: cs, y => by simp [skipEmptyL, cellsL, skipEmpty_eq c, skipEmptyL_eq cs]; omega
end

mutual
theorem addEmptyV_eq : ∀ (τ : Ty) (r : Row) (rest : PSt),
    addEmptyV τ (r :: rest) = some ((r ++ List.replicate (cells τ) 0) :: rest)
  | .base _, r, rest => by simp [addEmptyV, emplaceCell, cells]
  | .coll b, r, rest => by
    simp [addEmptyV, emplaceCell, cells, addEmptyV_eq b, List.replicate_succ]
  | .tuple cs, r, rest => by simp [addEmptyV, cells, addEmptyVL_eq cs]
theorem addEmptyVL_eq : ∀ (cs : List Ty) (r : Row) (rest : PSt),
    addEmptyVL cs (r :: rest) = some ((r ++ List.replicate (cellsL cs) 0) :: rest)
  | [], r, rest => by simp [addEmptyVL, cellsL]
  | c :: cs, r, rest => by
    simp [addEmptyVL, cellsL, addEmptyV_eq c, addEmptyVL_eq cs, List.replicate_append_replicate]
end

theorem cells_coll_pos (b : Ty) : 1 ≤ cells (.coll b) := by simp [cells]

/-! ### table access -/

theorem inBounds_iff (T : Table) (x y : Nat) :
    inBounds T x y = true ↔ ∃ r, T[x]? = some r ∧ y < r.length := by
  unfold inBounds
  cases h : T[x]? <;> simp

theorem inBounds_lt (T : Table) (x y : Nat) (h : inBounds T x y = true) : x < T.length := by
  obtain ⟨r, hr, _⟩ := (inBounds_iff T x y).mp h
  exact (List.getElem?_eq_some_iff.mp hr).1

/-- the guard of `UnpackFor` makes the following `.at().at()` succeed. -/
theorem inBounds_cellAt (T : Table) (x y : Nat) (h : inBounds T x y = true) :
    ∃ c, cellAt T x y = some c := by
  obtain ⟨r, hr, hy⟩ := (inBounds_iff T x y).mp h
  refine ⟨r[y], ?_⟩
  simp [cellAt, hr, hy]

/-! ### `compat` unfolded -/

theorem compatAll_iff (xs : List Val) (b : Ty) :
    compatAll xs b = true ↔ ∀ a ∈ xs, compat a b = true := by
  induction xs with
  | nil => simp [compatAll]
  | cons x xs ih => simp [compatAll, ih]

theorem compat_set (xs : List Val) (b : Ty) :
    compat (.s xs) (.coll b) = true ↔ (∀ a ∈ xs, compat a b = true) ∧ sorted xs = true := by
  simp [compat, compatAll_iff]

theorem compatL_length : ∀ (vs : List Val) (ts : List Ty), compatL vs ts = true → vs.length = ts.length
  | [], [], _ => rfl
  | [], _ :: _, h => by simp [compatL] at h
  | _ :: _, [], h => by simp [compatL] at h
  | _ :: vs, _ :: ts, h => by
    simp [compatL] at h
    simp [compatL_length vs ts h.2]

/-! ### the decoder: cursor invariant, no fault, compatible result -/

/-- what `UnpackFor(τ)` started in row `x` may produce. -/
def GoodCur (T : Table) (τ : Ty) (x : Nat) : Res (Cur Val) → Prop
  | .ok (v, x', _) => x ≤ x' ∧ x' < T.length ∧ (τ.wf = true → compat v τ = true)
  | .none => True
  | .fault k => k = .assertTuple ∧ τ.wf = false

def GoodCurL (T : Table) (cs : List Ty) (x : Nat) : Res (Cur (List Val)) → Prop
  | .ok (vs, x', _) => x ≤ x' ∧ (x < T.length → x' < T.length) ∧ vs.length = cs.length ∧
      (Ty.wfL cs = true → compatL vs cs = true)
  | .none => True
  | .fault k => k = .assertTuple ∧ Ty.wfL cs = false

def GoodLoop (T : Table) (b : Ty) (x : Nat) (count : Int) (unknown : Bool) :
    Res (Cur (List Val)) → Prop
  | .ok (vs, x', _) => x ≤ x' + 1 ∧ (x < T.length → (unknown = true ∨ count ≠ 0) → x ≤ x') ∧
      x' < T.length ∧ sorted vs = true ∧ (b.wf = true → ∀ a ∈ vs, compat a b = true)
  | .none => True
  | .fault k => k = .assertTuple ∧ b.wf = false

theorem loopExit_good (T : Table) (b : Ty) (unknown : Bool) (count : Int) (x y : Nat) (acc : List Val)
    (hc : ¬ (x < T.length ∧ (unknown = true ∨ count > 0)))
    (hx : x ≤ T.length)
    (h0 : 1 ≤ x ∨ (x < T.length ∧ (unknown = true ∨ count ≠ 0)))
    (hs : sorted acc = true) (ha : b.wf = true → ∀ a ∈ acc, compat a b = true) :
    GoodLoop T b x count unknown (loopExit unknown count x y acc) := by
  unfold loopExit
  split
  · rename_i hex
    split
    · rename_i hx0
      exfalso
      subst hx0
      rcases h0 with h0 | ⟨h1, h2⟩
      · omega
      · apply hc
        refine ⟨h1, ?_⟩
        rcases h2 with h2 | h2
        · exact Or.inl h2
        · rcases hex with hex | hex
          · exact Or.inl hex
          · exact absurd hex h2
    · rename_i hx0
      refine ⟨by omega, ?_, by omega, hs, ha⟩
      intro h1 h2
      exfalso
      apply hc
      refine ⟨h1, ?_⟩
      rcases hex with hex | hex
      · exact Or.inl hex
      · rcases h2 with h2 | h2
        · exact Or.inl h2
        · exact absurd hex h2
  · trivial

theorem setLoop_good (T : Table) (b : Ty) (dec : Nat → Nat → Res (Cur Val))
    (hdec : ∀ x y, GoodCur T b x (dec x y)) (baseY : Nat) (unknown : Bool) :
    ∀ (fuel : Nat) (count : Int) (x y : Nat) (acc : List Val),
      T.length - x ≤ fuel → x ≤ T.length →
      (1 ≤ x ∨ (x < T.length ∧ (unknown = true ∨ count ≠ 0))) →
      sorted acc = true → (b.wf = true → ∀ a ∈ acc, compat a b = true) →
      GoodLoop T b x count unknown (setLoop T dec baseY unknown fuel count x y acc) := by
  intro fuel
  induction fuel with
  | zero =>
    intro count x y acc hf hx h0 hs ha
    rw [setLoop]
    split
    · rename_i hc; omega
    · rename_i hc; exact loopExit_good T b unknown count x y acc hc hx h0 hs ha
  | succ fuel ih =>
    intro count x y acc hf hx h0 hs ha
    rw [setLoop]
    split
    · rename_i hc
      have hd := hdec x (baseY + 1)
      cases hdx : dec x (baseY + 1) with
      | none => trivial
      | fault k => rw [hdx] at hd; exact hd
      | ok r =>
        obtain ⟨v, x', y'⟩ := r
        rw [hdx] at hd
        obtain ⟨hxx, hxl, hcv⟩ := hd
        dsimp only
        cases hi : insert v acc with
        | none => trivial
        | some acc' =>
          dsimp only
          obtain ⟨hs', hm'⟩ := insert_sorted v acc acc' hs hi
          have := ih (if unknown = true then count else count - 1) (x' + 1) y' acc' (by omega) (by omega)
            (Or.inl (by omega)) hs'
            (fun hw a ha' => by
              rcases (hm' a).mp ha' with rfl | h
              · exact hcv hw
              · exact ha hw a h)
          revert this
          generalize setLoop T dec baseY unknown fuel (if unknown = true then count else count - 1) (x' + 1) y' acc' = res
          intro this
          cases res with
          | none => trivial
          | fault k => exact this
          | ok r =>
            obtain ⟨vs, x'', y''⟩ := r
            obtain ⟨g1, _, g3, g4, g5⟩ := this
            exact ⟨by omega, fun _ _ => by omega, g3, g4, g5⟩
    · rename_i hc; exact loopExit_good T b unknown count x y acc hc hx h0 hs ha

theorem wf_tuple (cs : List Ty) : (Ty.tuple cs).wf = true ↔ 2 ≤ cs.length ∧ Ty.wfL cs = true := by
  simp [Ty.wf]

theorem wfL_cons (c : Ty) (cs : List Ty) : Ty.wfL (c :: cs) = true ↔ c.wf = true ∧ Ty.wfL cs = true := by
  simp [Ty.wfL]

mutual
theorem unpackFor_good (T : Table) : ∀ (τ : Ty) (x y : Nat), GoodCur T τ x (unpackFor T τ x y)
  | .base id, x, y => by
    rw [unpackFor]
    split
    · rename_i hb
      obtain ⟨c, hc⟩ := inBounds_cellAt T x y hb
      rw [hc]
      exact ⟨Nat.le_refl _, inBounds_lt T x y hb, fun _ => by simp [compat]⟩
    · trivial
  | .coll b, x, y => by
    rw [unpackFor]
    split
    · rename_i hb
      obtain ⟨c, hc⟩ := inBounds_cellAt T x y hb
      have hxl := inBounds_lt T x y hb
      rw [hc]
      dsimp only
      split
      · exact ⟨Nat.le_refl _, hxl, fun _ => by simp [compat, compatAll, sorted]⟩
      · rename_i hc0
        have := setLoop_good T b (fun x' y' => unpackFor T b x' y')
          (fun x' y' => unpackFor_good T b x' y') y (c == unknownCount) T.length c x y []
          (by omega) (by omega) (Or.inr ⟨hxl, Or.inr hc0⟩) (by simp [sorted]) (fun _ a ha => by simp at ha)
        revert this
        generalize setLoop T (fun x' y' => unpackFor T b x' y') y (c == unknownCount) T.length c x y [] = res
        intro this
        cases res with
        | none => trivial
        | fault k => exact ⟨this.1, by simpa [Ty.wf] using this.2⟩
        | ok r =>
          obtain ⟨vs, x', y'⟩ := r
          obtain ⟨_, g2, g3, g4, g5⟩ := this
          refine ⟨g2 hxl (Or.inr hc0), g3, ?_⟩
          intro hw
          rw [compat_set]
          exact ⟨g5 (by simpa [Ty.wf] using hw), g4⟩
    · trivial
  | .tuple cs, x, y => by
    rw [unpackFor]
    split
    · rename_i hb
      have hxl := inBounds_lt T x y hb
      have := unpackTuple_good T cs x y
      revert this
      generalize unpackTuple T cs x y = res
      intro this
      cases res with
      | none => trivial
      | fault k =>
        refine ⟨this.1, ?_⟩
        have h2 := this.2
        cases hw : (Ty.tuple cs).wf
        · rfl
        · rw [wf_tuple] at hw; rw [hw.2] at h2; simp at h2
      | ok r =>
        obtain ⟨vs, x', y'⟩ := r
        obtain ⟨g1, g2, g3, g4⟩ := this
        dsimp only
        match vs, g3, g4 with
        | [], g3, g4 =>
          refine ⟨rfl, ?_⟩
          cases hw : (Ty.tuple cs).wf
          · rfl
          · rw [wf_tuple] at hw; simp at g3; omega
        | [v], g3, g4 =>
          refine ⟨g1, g2 hxl, ?_⟩
          intro hw
          rw [wf_tuple] at hw; simp at g3; omega
        | v :: w :: vs, g3, g4 =>
          refine ⟨g1, g2 hxl, ?_⟩
          intro hw
          rw [wf_tuple] at hw
          simpa [compat] using g4 hw.2
    · trivial
theorem unpackTuple_good (T : Table) : ∀ (cs : List Ty) (x y : Nat),
    GoodCurL T cs x (unpackTuple T cs x y)
  | [], x, y => by
    rw [unpackTuple]
    exact ⟨Nat.le_refl _, fun h => h, rfl, fun _ => by simp [compatL]⟩
  | c :: cs, x, y => by
    rw [unpackTuple]
    have := unpackFor_good T c x y
    revert this
    generalize unpackFor T c x y = res
    intro this
    cases res with
    | none => trivial
    | fault k =>
      refine ⟨this.1, ?_⟩
      cases hw : Ty.wfL (c :: cs)
      · rfl
      · rw [wfL_cons] at hw; have h2 := this.2; rw [hw.1] at h2; simp at h2
    | ok r =>
      obtain ⟨v, x', y'⟩ := r
      obtain ⟨g1, g2, g3⟩ := this
      dsimp only
      have := unpackTuple_good T cs x' y'
      revert this
      generalize unpackTuple T cs x' y' = res2
      intro this
      cases res2 with
      | none => trivial
      | fault k =>
        refine ⟨this.1, ?_⟩
        cases hw : Ty.wfL (c :: cs)
        · rfl
        · rw [wfL_cons] at hw; have h2 := this.2; rw [hw.2] at h2; simp at h2
      | ok r2 =>
        obtain ⟨vs, x'', y''⟩ := r2
        obtain ⟨k1, k2, k3, k4⟩ := this
        refine ⟨by omega, fun _ => k2 g2, by simp [k3], ?_⟩
        intro hw
        rw [wfL_cons] at hw
        simp [compatL, g3 hw.1, k4 hw.2]
end

/-! ### the layout written by the packer -/

mutual
/-- rows the packer produces for `v : τ` when `r` is the open (last) row: `(init, l)` = the rows
it completes (the first of them starts with `r`) and the new open row. -/
def enc : Val → Ty → Row → List Row × Row
  | .e n, _, r => ([], r ++ [n])
  | .t cs, τ, r =>
    match τ with
    | .tuple ts => encTuple cs ts r
    | _ => ([], r)
  | .s xs, τ, r =>
    if xs.isEmpty then ([], r ++ List.replicate (cells τ) 0)
    else
      match τ with
      | .coll b => encElems xs b (r ++ [(xs.length : Int)])
      | _ => ([], r)
def encTuple : List Val → List Ty → Row → List Row × Row
  | [], _, r => ([], r)
  | _ :: _, [], r => ([], r)
  | c :: cs, t :: ts, r =>
    ((enc c t r).1 ++ (encTuple cs ts (enc c t r).2).1, (encTuple cs ts (enc c t r).2).2)
def encElems : List Val → Ty → Row → List Row × Row
  | [], _, base => ([], base)
  | x :: rest, b, base =>
    match rest with
    | [] => enc x b base
    | _ :: _ => ((enc x b base).1 ++ (enc x b base).2 :: (encElems rest b base).1, (encElems rest b base).2)
end

theorem encElems_single (x : Val) (b : Ty) (base : Row) : encElems [x] b base = enc x b base := by
  simp [encElems]

theorem encElems_cons2 (x y : Val) (rest : List Val) (b : Ty) (base : Row) :
    encElems (x :: y :: rest) b base =
      ((enc x b base).1 ++ (enc x b base).2 :: (encElems (y :: rest) b base).1,
       (encElems (y :: rest) b base).2) := by
  rw [encElems]

/-- every block starts with the row that was open: `init ++ [l ++ extra] ++ more = (r ++ c) :: tl`. -/
def Ext (i : List Row) (l : Row) (r : Row) : Prop :=
  ∀ (extra : Row) (more : List Row), ∃ c tl, i ++ (l ++ extra) :: more = (r ++ c) :: tl

mutual
theorem enc_ext : ∀ (v : Val) (τ : Ty) (r : Row), Ext (enc v τ r).1 (enc v τ r).2 r
  | .e n, τ, r => by
    intro extra more
    exact ⟨[n] ++ extra, more, by simp [enc]⟩
  | .t cs, τ, r => by
    cases τ with
    | tuple ts => simpa [enc] using encTuple_ext cs ts r
    | base _ => intro extra more; exact ⟨extra, more, by simp [enc]⟩
    | coll _ => intro extra more; exact ⟨extra, more, by simp [enc]⟩
  | .s xs, τ, r => by
    intro extra more
    by_cases hx : xs.isEmpty = true
    · exact ⟨List.replicate (cells τ) 0 ++ extra, more, by simp [enc, hx]⟩
    · cases τ with
      | coll b =>
        obtain ⟨c, tl, h⟩ := encElems_ext xs b (r ++ [(xs.length : Int)]) extra more
        exact ⟨[(xs.length : Int)] ++ c, tl, by simpa [enc, hx] using h⟩
      | base _ => exact ⟨extra, more, by simp [enc, hx]⟩
      | tuple _ => exact ⟨extra, more, by simp [enc, hx]⟩
theorem encTuple_ext : ∀ (cs : List Val) (ts : List Ty) (r : Row),
    Ext (encTuple cs ts r).1 (encTuple cs ts r).2 r
  | [], _, r => by intro extra more; exact ⟨extra, more, by simp [encTuple]⟩
  | _ :: _, [], r => by intro extra more; exact ⟨extra, more, by simp [encTuple]⟩
  | c :: cs, t :: ts, r => by
    intro extra more
    rw [encTuple]
    obtain ⟨c2, tl2, h2⟩ := encTuple_ext cs ts (enc c t r).2 extra more
    obtain ⟨c1, tl1, h1⟩ := enc_ext c t r c2 tl2
    refine ⟨c1, tl1, ?_⟩
    simp only [List.append_assoc]
    rw [h2, h1]
theorem encElems_ext : ∀ (xs : List Val) (b : Ty) (base : Row),
    Ext (encElems xs b base).1 (encElems xs b base).2 base
  | [], _, base => by intro extra more; exact ⟨extra, more, by simp [encElems]⟩
  | [x], b, base => by rw [encElems_single]; exact enc_ext x b base
  | x :: y :: rest, b, base => by
    intro extra more
    rw [encElems_cons2]
    obtain ⟨c1, tl1, h1⟩ := enc_ext x b base [] ((encElems (y :: rest) b base).1 ++ ((encElems (y :: rest) b base).2 ++ extra) :: more)
    refine ⟨c1, tl1, ?_⟩
    simp only [List.append_assoc, List.cons_append, List.append_nil] at h1 ⊢
    exact h1
end

/-- the packer writes exactly the layout `enc`. -/
def PackOK (v : Val) (τ : Ty) : Prop :=
  ∀ (r : Row) (prev : PSt), packVal v τ (r :: prev) = some ((enc v τ r).2 :: ((enc v τ r).1.reverse ++ prev))

mutual
theorem packVal_enc : ∀ (v : Val) (τ : Ty), compat v τ = true → PackOK v τ
  | .e n, τ, _ => by intro r prev; simp [packVal, emplaceCell, enc]
  | .t cs, .tuple ts, h => by
    intro r prev
    simp only [compat] at h
    simp only [packVal, enc]
    exact packTuple_enc cs ts h r prev
  | .s xs, .coll b, h => by
    intro r prev
    rw [compat_set] at h
    rw [packVal, enc]
    split
    · simp [addEmptyV_eq]
    · rename_i hne
      simp only [emplaceCell]
      have hne' : xs ≠ [] := by intro h0; simp [h0] at hne
      have := packElems_enc xs b hne' ((compatAll_iff xs b).mpr h.1) (r ++ [(xs.length : Int)]) prev
      rw [this]
  | .t _, .base _, h => by simp [compat] at h
  | .t _, .coll _, h => by simp [compat] at h
  | .s _, .base _, h => by simp [compat] at h
  | .s _, .tuple _, h => by simp [compat] at h
theorem packTuple_enc : ∀ (cs : List Val) (ts : List Ty), compatL cs ts = true →
    ∀ (r : Row) (prev : PSt), packTuple cs ts (r :: prev) =
      some ((encTuple cs ts r).2 :: ((encTuple cs ts r).1.reverse ++ prev))
  | [], [], _ => by intro r prev; simp [packTuple, encTuple]
  | [], _ :: _, h => by simp [compatL] at h
  | _ :: _, [], h => by simp [compatL] at h
  | c :: cs, t :: ts, h => by
    intro r prev
    simp only [compatL, Bool.and_eq_true] at h
    rw [packTuple, packVal_enc c t h.1 r prev]
    dsimp only
    rw [packTuple_enc cs ts h.2, encTuple]
    simp
theorem packElems_enc : ∀ (xs : List Val) (b : Ty), xs ≠ [] → compatAll xs b = true →
    ∀ (base : Row) (prev : PSt), packElems xs b base (base :: prev) =
      some (base :: (encElems xs b base).2 :: ((encElems xs b base).1.reverse ++ prev))
  | [], _, h, _ => absurd rfl h
  | [x], b, _, h => by
    intro base prev
    simp only [compatAll, Bool.and_eq_true] at h
    rw [packElems, packVal_enc x b h.1 base prev]
    simp [packElems, encElems_single]
  | x :: y :: rest, b, _, h => by
    intro base prev
    rw [compatAll, Bool.and_eq_true] at h
    rw [packElems, packVal_enc x b h.1 base prev]
    dsimp only
    rw [packElems_enc (y :: rest) b (by simp) h.2, encElems_cons2]
    simp
end

/-! ### decoding the layout -/

theorem cell_at_prefix (T P : List Row) (r c : Row) (n : Int) (tl : List Row)
    (hT : T = P ++ (r ++ n :: c) :: tl) :
    inBounds T P.length r.length = true ∧ cellAt T P.length r.length = some n := by
  subst hT
  simp [inBounds, cellAt]

theorem unpackFor_ok_inBounds (T : Table) (τ : Ty) (x y : Nat) (res : Cur Val)
    (h : unpackFor T τ x y = .ok res) : inBounds T x y = true := by
  cases hb : inBounds T x y
  · cases τ <;> rw [unpackFor] at h <;> simp [hb] at h
  · rfl

theorem setLoop_done (T : Table) (dec : Nat → Nat → Res (Cur Val)) (baseY fuel x y : Nat)
    (acc : List Val) :
    setLoop T dec baseY false fuel 0 (x + 1) y acc = .ok (acc, x, y) := by
  cases fuel <;> simp [setLoop, loopExit]

def DecOK (v : Val) (τ : Ty) : Prop :=
  ∀ (P : List Row) (r extra : Row) (more : List Row),
    unpackFor (P ++ (enc v τ r).1 ++ ((enc v τ r).2 ++ extra) :: more) τ P.length r.length =
      .ok (v, P.length + (enc v τ r).1.length, (enc v τ r).2.length)

def DecOKL (cs : List Val) (ts : List Ty) : Prop :=
  ∀ (P : List Row) (r extra : Row) (more : List Row),
    unpackTuple (P ++ (encTuple cs ts r).1 ++ ((encTuple cs ts r).2 ++ extra) :: more) ts
        P.length r.length =
      .ok (cs, P.length + (encTuple cs ts r).1.length, (encTuple cs ts r).2.length)

/-- the known-count loop of `UnpackSet` reads back the elements written by the loop of `AddSet`. -/
theorem setLoop_enc (b : Ty) (baseY : Nat) (base : Row) (hbase : base.length = baseY + 1) :
    ∀ (xs : List Val), xs ≠ [] → (∀ x ∈ xs, DecOK x b) →
      ∀ (T : Table) (ds : List Val) (P : List Row) (extra : Row) (more : List Row) (fuel y : Nat)
        (count : Int),
        T = P ++ (encElems xs b base).1 ++ ((encElems xs b base).2 ++ extra) :: more →
        sorted (ds ++ xs) = true → T.length - P.length ≤ fuel → count = (xs.length : Int) →
        setLoop T (fun x' y' => unpackFor T b x' y') baseY false fuel count P.length y ds =
          .ok (ds ++ xs, P.length + (encElems xs b base).1.length, (encElems xs b base).2.length)
  | [], h, _ => absurd rfl h
  | [x], _, hdec => by
    intro T ds P extra more fuel y count hT hs hf hc
    rw [encElems_single] at hT ⊢
    have hlen : P.length < T.length := by rw [hT]; simp; omega
    cases fuel with
    | zero => omega
    | succ fuel =>
      rw [setLoop, if_pos ⟨hlen, Or.inr (by simp [hc])⟩]
      have hd := hdec x (List.mem_cons_self ..) P base extra more
      rw [← hT, hbase] at hd
      rw [hd]
      dsimp only
      rw [insert_last x ds (fun d hd' => sorted_append_lt ds [x] hs d hd' x (List.mem_cons_self ..))]
      dsimp only
      have : (if false = true then count else count - 1) = 0 := by simp [hc]
      rw [this, setLoop_done]
  | x :: y' :: rest, _, hdec => by
    intro T ds P extra more fuel y count hT hs hf hc
    rw [encElems_cons2] at hT ⊢
    have hlen : P.length < T.length := by rw [hT]; simp; omega
    cases fuel with
    | zero => omega
    | succ fuel =>
      rw [setLoop, if_pos ⟨hlen, Or.inr (by simp [hc]; omega)⟩]
      have hd := hdec x (List.mem_cons_self ..) P base []
        ((encElems (y' :: rest) b base).1 ++ ((encElems (y' :: rest) b base).2 ++ extra) :: more)
      have hT' : T = P ++ (enc x b base).1 ++ ((enc x b base).2 ++ []) ::
          ((encElems (y' :: rest) b base).1 ++ ((encElems (y' :: rest) b base).2 ++ extra) :: more) := by
        rw [hT]; simp
      rw [← hT', hbase] at hd
      rw [hd]
      dsimp only
      rw [insert_last x ds (fun d hd' => sorted_append_lt ds (x :: y' :: rest) hs d hd' x (List.mem_cons_self ..))]
      dsimp only
      have ih := setLoop_enc b baseY base hbase (y' :: rest) (by simp)
        (fun z hz => hdec z (List.mem_cons_of_mem _ hz)) T (ds ++ [x])
        (P ++ (enc x b base).1 ++ [(enc x b base).2]) extra more fuel (enc x b base).2.length
        (if false = true then count else count - 1)
        (by rw [hT]; simp) (by simpa using hs)
        (by simp only [List.length_append, List.length_cons, List.length_nil]; omega)
        (by simp [hc])
      simp only [List.length_append, List.length_cons, List.length_nil] at ih
      rw [show P.length + (enc x b base).1.length + (0 + 1) = P.length + (enc x b base).1.length + 1 from by omega] at ih
      rw [ih]
      simp only [List.append_assoc, List.cons_append, List.nil_append, List.length_append, List.length_cons]
      congr 2
      simp only [Prod.mk.injEq, and_true]
      omega

theorem noMarker_set (xs : List Val) :
    noMarker (.s xs) = true ↔ (xs.length : Int) ≠ unknownCount ∧ noMarkerL xs = true := by
  simp [noMarker]

theorem unpackTuple_ok_inBounds (T : Table) (t : Ty) (ts : List Ty) (x y : Nat)
    (res : Cur (List Val)) (h : unpackTuple T (t :: ts) x y = .ok res) : inBounds T x y = true := by
  rw [unpackTuple] at h
  cases hu : unpackFor T t x y with
  | ok r => exact unpackFor_ok_inBounds T t x y r hu
  | none => rw [hu] at h; simp at h
  | fault k => rw [hu] at h; simp at h

mutual
/-- **cursor invariant of the round trip**: wherever the packer put the rows of `v`
(after the rows `P`, continuing the open row `r`), and whatever is written later to the right
of the last of these rows (`extra`) and below it (`more`), `UnpackFor` started at
`(|P|, |r|)` returns `v` and stops at the end of the last row the packer wrote for `v`. -/
theorem dec_enc : ∀ (v : Val) (τ : Ty), compat v τ = true → noMarker v = true → τ.wf = true →
    DecOK v τ
  | .e n, .base id, _, _, _ => by
    intro P r extra more
    have hT : (P ++ (enc (.e n) (.base id) r).1 ++ ((enc (.e n) (.base id) r).2 ++ extra) :: more)
        = P ++ (r ++ n :: extra) :: more := by simp [enc]
    obtain ⟨h1, h2⟩ := cell_at_prefix _ P r extra n more hT
    rw [unpackFor, if_pos h1, h2]
    simp [enc]
  | .t cs, .tuple ts, hc, hm, hw => by
    intro P r extra more
    rw [wf_tuple] at hw
    simp only [compat] at hc
    simp only [noMarker] at hm
    have hl := compatL_length cs ts hc
    have hd := dec_encTuple cs ts hc hm hw.2 P r extra more
    simp only [enc]
    match ts, cs, hw, hl, hd with
    | t1 :: t2 :: ts', c1 :: c2 :: cs', _, _, hd =>
      have hb := unpackTuple_ok_inBounds _ t1 (t2 :: ts') _ _ _ hd
      rw [unpackFor, if_pos hb, hd]
      simp [mkTuple]
    | [], _, hw, _, _ => simp at hw
    | [_], _, hw, _, _ => simp at hw
    | _ :: _ :: _, [], _, hl, _ => simp at hl
    | _ :: _ :: _, [_], _, hl, _ => simp at hl
  | .s xs, .coll b, hc, hm, hw => by
    intro P r extra more
    rw [compat_set] at hc
    rw [noMarker_set] at hm
    have hwb : b.wf = true := by simpa [Ty.wf] using hw
    by_cases hx : xs.isEmpty = true
    · have hxs : xs = [] := by simpa using hx
      subst hxs
      have hT : (P ++ (enc (.s []) (.coll b) r).1 ++ ((enc (.s []) (.coll b) r).2 ++ extra) :: more)
          = P ++ (r ++ 0 :: (List.replicate (cells b) 0 ++ extra)) :: more := by
        simp [enc, cells, List.replicate_succ]
      obtain ⟨h1, h2⟩ := cell_at_prefix _ P r _ 0 more hT
      rw [unpackFor, if_pos h1, h2]
      simp [enc, skipEmpty_eq]
    · have hne : xs ≠ [] := by intro h0; simp [h0] at hx
      have hpos : 0 < xs.length := List.length_pos_iff.mpr hne
      have henc : enc (.s xs) (.coll b) r = encElems xs b (r ++ [(xs.length : Int)]) := by
        simp [enc, hx]
      rw [henc]
      obtain ⟨c, tl, hext⟩ := encElems_ext xs b (r ++ [(xs.length : Int)]) extra more
      generalize hT : (P ++ (encElems xs b (r ++ [(xs.length : Int)])).1 ++
        ((encElems xs b (r ++ [(xs.length : Int)])).2 ++ extra) :: more) = T
      have hT2 : T = P ++ (r ++ (xs.length : Int) :: c) :: tl := by
        rw [← hT, List.append_assoc, hext]; simp
      obtain ⟨h1, h2⟩ := cell_at_prefix T P r c _ tl hT2
      rw [unpackFor, if_pos h1, h2]
      dsimp only
      rw [if_neg (by omega)]
      have hmk : ((xs.length : Int) == unknownCount) = false := by simpa using hm.1
      rw [hmk]
      have hl := setLoop_enc b r.length (r ++ [(xs.length : Int)]) (by simp) xs hne
        (dec_encElems xs b ((compatAll_iff xs b).mpr hc.1) hm.2 hwb) T [] P extra more T.length
        r.length (xs.length : Int) hT.symm (by simpa using hc.2) (by omega) rfl
      rw [hl]
      simp
  | .e _, .tuple _, h, _, _ => by simp [compat] at h
  | .e _, .coll _, h, _, _ => by simp [compat] at h
  | .t _, .base _, h, _, _ => by simp [compat] at h
  | .t _, .coll _, h, _, _ => by simp [compat] at h
  | .s _, .base _, h, _, _ => by simp [compat] at h
  | .s _, .tuple _, h, _, _ => by simp [compat] at h
theorem dec_encTuple : ∀ (cs : List Val) (ts : List Ty), compatL cs ts = true →
    noMarkerL cs = true → Ty.wfL ts = true → DecOKL cs ts
  | [], [], _, _, _ => by
    intro P r extra more
    simp [encTuple, unpackTuple]
  | [], _ :: _, h, _, _ => by simp [compatL] at h
  | _ :: _, [], h, _, _ => by simp [compatL] at h
  | c :: cs, t :: ts, hc, hm, hw => by
    intro P r extra more
    simp only [compatL, Bool.and_eq_true] at hc
    simp only [noMarkerL, Bool.and_eq_true] at hm
    rw [wfL_cons] at hw
    rw [encTuple]
    generalize hT : (P ++ ((enc c t r).1 ++ (encTuple cs ts (enc c t r).2).1) ++
      ((encTuple cs ts (enc c t r).2).2 ++ extra) :: more) = T
    obtain ⟨c', tl', hext⟩ := encTuple_ext cs ts (enc c t r).2 extra more
    have h1 := dec_enc c t hc.1 hm.1 hw.1 P r c' tl'
    rw [show P ++ (enc c t r).1 ++ ((enc c t r).2 ++ c') :: tl' = T from by
      rw [← hT, ← hext]; simp] at h1
    have h2 := dec_encTuple cs ts hc.2 hm.2 hw.2 (P ++ (enc c t r).1) (enc c t r).2 extra more
    rw [show P ++ (enc c t r).1 ++ (encTuple cs ts (enc c t r).2).1 ++
        ((encTuple cs ts (enc c t r).2).2 ++ extra) :: more = T from by
      rw [← hT]; simp] at h2
    rw [unpackTuple, h1]
    dsimp only
    rw [List.length_append] at h2
    rw [h2]
    simp only [List.length_append]
    congr 2
    simp only [Prod.mk.injEq, and_true]
    omega
theorem dec_encElems : ∀ (xs : List Val) (b : Ty), compatAll xs b = true → noMarkerL xs = true →
    b.wf = true → ∀ x ∈ xs, DecOK x b
  | [], _, _, _, _ => by intro x hx; simp at hx
  | z :: zs, b, hc, hm, hw => by
    intro x hx
    simp only [compatAll, Bool.and_eq_true] at hc
    simp only [noMarkerL, Bool.and_eq_true] at hm
    rcases List.mem_cons.mp hx with h | hx
    · rw [h]; exact dec_enc z b hc.1 hm.1 hw
    · exact dec_encElems zs b hc.2 hm.2 hw x hx
end

/-! ### the unknown-count loop always runs to the last row -/

theorem loopExit_unknown (count : Int) (x y : Nat) (acc vs : List Val) (x' y' : Nat)
    (h : loopExit true count x y acc = .ok (vs, x', y')) : x' + 1 = x := by
  unfold loopExit at h
  rw [if_pos (Or.inl rfl)] at h
  split at h
  · simp at h
  · rename_i hx
    simp only [Res.ok.injEq, Prod.mk.injEq] at h
    omega

theorem setLoop_unknown_end (T : Table) (b : Ty) (dec : Nat → Nat → Res (Cur Val))
    (hdec : ∀ x y, GoodCur T b x (dec x y)) (baseY : Nat) :
    ∀ (fuel : Nat) (count : Int) (x y : Nat) (acc vs : List Val) (x' y' : Nat), x ≤ T.length →
      setLoop T dec baseY true fuel count x y acc = .ok (vs, x', y') → x' + 1 = T.length := by
  intro fuel
  induction fuel with
  | zero =>
    intro count x y acc vs x' y' hx h
    rw [setLoop] at h
    split at h
    · simp at h
    · rename_i hc
      have := loopExit_unknown count x y acc vs x' y' h
      have : ¬ x < T.length := fun hlt => hc ⟨hlt, Or.inl rfl⟩
      omega
  | succ fuel ih =>
    intro count x y acc vs x' y' hx h
    rw [setLoop] at h
    split at h
    · have hd := hdec x (baseY + 1)
      cases hdx : dec x (baseY + 1) with
      | none => rw [hdx] at h; simp at h
      | fault k => rw [hdx] at h; simp at h
      | ok r =>
        obtain ⟨v, x1, y1⟩ := r
        rw [hdx] at h hd
        dsimp only at h
        cases hi : insert v acc with
        | none => rw [hi] at h; simp at h
        | some acc' =>
          rw [hi] at h
          dsimp only at h
          exact ih _ (x1 + 1) y1 acc' vs x' y' (by have := hd.2.1; omega) h
    · rename_i hc
      have := loopExit_unknown count x y acc vs x' y' h
      have : ¬ x < T.length := fun hlt => hc ⟨hlt, Or.inl rfl⟩
      omega

/-- a known-count loop that still expects elements when the table is exhausted gives `nullopt`. -/
theorem setLoop_exhausted (T : Table) (dec : Nat → Nat → Res (Cur Val)) (baseY fuel : Nat)
    (count : Int) (x y : Nat) (acc : List Val) (hx : T.length ≤ x) (hc : count ≠ 0) :
    setLoop T dec baseY false fuel count x y acc = .none := by
  have hcond : ¬ (x < T.length ∧ (false = true ∨ count > 0)) := fun h => by omega
  cases fuel <;> rw [setLoop, if_neg hcond] <;> simp [loopExit, hc]

end CCVerif.SDC
