import CCVerif.Lemmas.ParsePrint3Top
/-! Renderings of fragment terms WITH FREE REDUNDANT PARENTHESES (C06 `parse_renders_parens`): definitions.

`R3` = the fragment `E3` (`Model/PPFragment3.lean`) plus one constructor `par a` = "one pair of parentheses around `a` that
the printer would not write". `R3.toks` is `E3.toks` (the REQUIRED parentheses - the printer's bracket decisions `brSet`,
`brProd`, `brLogic`, `brNot`, `brQ` on the root of the operand - are written exactly as before) plus `( a.toks )` for
`par a`; the root token of `par a` is `PUNC_PL`, for which no bracket decision ever asks for parentheses, so an operand
that already carries a redundant pair gets no further required pair. `R3.erase` forgets the `par`s: the term of `E3`
the text denotes; a `par`-free `R3` is an `E3` and has the printer's token sequence (`toks_ofE3`).

Which sub-terms may carry a redundant pair is read off `RSParserImpl.y` (`R3.wf`):
* `setexpr_binary : '(' setexpr_binary ')'` - a binary set / arithmetic operation or product, ANY number of nested pairs
  (`par` of a phrase of kind `setBin`, and `par (par …)` is again of kind `setBin`), wherever a `setexpr` stands;
* `logic_par : '(' logic_binary ')' | '(' logic_predicates ')'` - a connective or a predicate, ONE pair (a `logic_par` is
  neither, so `((a=b))` is no phrase), and only where the grammar has `logic_all` / `logic_no_binary`: as operand of a
  connective, of `¬` and as the body of a quantifier - NOT at the top of an expression, as the body of `D{…|…}`, the
  condition of `R{…|…|…}` or a block of `I{…}` (those are `logic`);
* nothing else: negations, quantified formulas, predicate calls, atoms, calls, `ℬ(…)`, braces … take no parentheses. -/
namespace CCVerif.PR
open CCVerif.Syntax CCVerif.Generated CCVerif.Lexer CCVerif.Parser CCVerif.Printer CCVerif.PP CCVerif.PP3

inductive R3 where
  | atom (id : Tok) (d : TokData)
  | text (f : Tok) (d : TokData) (a : R3)
  | sbin (op : Tok) (l r : R3)
  | prod2 (a b : R3)
  | prodN (p k : R3)
  | pred (op : Tok) (l r : R3)
  | neg (x : R3)
  | lbin (op : Tok) (l r : R3)
  /-- `ℬ(a)`; `ℬ` directly in front of another `ℬ` is printed without parentheses -/
  | pow (a : R3)
  /-- the one-element list -/
  | one (a : R3)
  /-- `a, l` -/
  | more (a l : R3)
  /-- `{l}` -/
  | enum (l : R3)
  /-- `(a, l)` -/
  | tuple (a l : R3)
  /-- `F1[l]` -/
  | fcall (d : TokData) (l : R3)
  /-- `P1[l]` -/
  | pcall (d : TokData) (l : R3)
  /-- `Fi1,2[ps](arg)` -/
  | filter (d : TokData) (ps arg : R3)
  /-- `∀vs∈dom body`; `vs` is a list of variables (local names or tuples of variables) -/
  | quant (q : Tok) (vs dom body : R3)
  /-- `D{v∈dom | body}` -/
  | decl (v dom body : R3)
  /-- `R{v := d | s}` -/
  | recS (v d s : R3)
  /-- `R{v := d | c | s}` -/
  | recF (v d c s : R3)
  /-- `I{val | bs}`; `bs` is a list of blocks -/
  | imp (val bs : R3)
  /-- the one-block list `b`, `b` a formula -/
  | bone (b : R3)
  /-- the one-block list `v op s`, `op` = `:∈` or `:=` -/
  | boneK (op : Tok) (v s : R3)
  /-- `b ; l` -/
  | bmore (b l : R3)
  /-- `v op s ; l` -/
  | bmoreK (op : Tok) (v s l : R3)
  /-- `( a )`: one pair of parentheses that the printer would not write -/
  | par (a : R3)
deriving Repr

namespace R3

/-- set expression -/
def isS : R3 → Bool
  | .atom .. | .text .. | .sbin .. | .prod2 .. | .prodN .. | .pow _ | .enum _ | .tuple .. | .fcall .. | .filter ..
  | .decl .. | .recS .. | .recF .. | .imp .. => true
  | .par a => a.isS
  | _ => false

/-- formula -/
def isL : R3 → Bool
  | .pred .. | .neg _ | .lbin .. | .pcall .. | .quant .. => true
  | .par a => a.isL
  | _ => false

/-- list of phrases -/
def isA : R3 → Bool
  | .one _ | .more .. => true
  | _ => false

/-- list of blocks -/
def isB : R3 → Bool
  | .bone _ | .boneK .. | .bmore .. | .bmoreK .. => true
  | _ => false

def isProd : R3 → Bool
  | .prod2 .. | .prodN .. => true
  | _ => false

def isPow : R3 → Bool
  | .pow _ => true
  | _ => false

/-- a redundant pair -/
def isPar : R3 → Bool
  | .par _ => true
  | _ => false

/-- a variable of a declaration (local name or tuple of variables); for a list: every element is one -/
def isVar : R3 → Bool
  | .atom id _ => id == .ID_LOCAL
  | .tuple a l => a.isVar && l.isVar
  | .one a => a.isVar
  | .more a l => a.isVar && l.isVar
  | _ => false

/-- token id of the root -/
def top : R3 → Tok
  | .atom id _ => id
  | .text f _ _ => f
  | .sbin op _ _ => op
  | .prod2 .. | .prodN .. => .DECART
  | .pred op _ _ => op
  | .neg _ => .NOT
  | .lbin op _ _ => op
  | .pow _ => .BOOLEAN
  | .one _ | .more .. => .PUNC_COMMA
  | .enum _ => .NT_ENUMERATION
  | .tuple .. => .NT_TUPLE
  | .fcall .. | .pcall .. => .NT_FUNC_CALL
  | .filter .. => .FILTER
  | .quant q .. => q
  | .decl .. => .NT_DECLARATIVE_EXPR
  | .recS .. => .NT_RECURSIVE_SHORT
  | .recF .. => .NT_RECURSIVE_FULL
  | .imp .. | .bone _ | .boneK .. | .bmore .. | .bmoreK .. => .NT_IMPERATIVE_EXPR
  | .par _ => .PUNC_PL

/-- nonterminal of the phrase; a parenthesised binary set phrase is again a `setexpr_binary`, a parenthesised formula a
`logic_par` -/
def kind : R3 → K
  | .sbin .. | .prod2 .. | .prodN .. => .setBin
  | .pred .. => .pred
  | .neg _ | .pcall .. | .quant .. => .unary
  | .lbin .. => .lbin
  | .par a => if a.isS then .setBin else .lpar
  | _ => .set

/-- the phrases the grammar allows in parentheses: `setexpr_binary` (itself possibly parenthesised), `logic_binary`,
`logic_predicates` -/
def parOK (a : R3) : Bool := a.kind == .setBin || a.kind == .lbin || a.kind == .pred

/-- `:∈` or `:=` -/
def isBlkOp (op : Tok) : Bool := op == .ITERATE || op == .ASSIGN

def wf : R3 → Bool
  | .atom id _ => isAtomId id
  | .text f _ a => isTextFn f && a.isS && a.wf
  | .sbin op l r => isSetOp7 op && l.isS && r.isS && l.wf && r.wf
  | .prod2 a b => a.isS && b.isS && a.wf && b.wf
  | .prodN p k => p.isProd && k.isS && p.wf && k.wf
  | .pred op l r => isPredOp op && l.isS && r.isS && l.wf && r.wf
  | .neg x => x.isL && x.wf
  | .lbin op l r => isLogicOp op && l.isL && r.isL && l.wf && r.wf
  | .pow a => a.isS && a.wf
  | .one a => a.isS && a.wf
  | .more a l => a.isS && l.isA && a.wf && l.wf
  | .enum l => l.isA && l.wf
  | .tuple a l => a.isS && l.isA && a.wf && l.wf
  | .fcall _ l => l.isA && l.wf
  | .pcall _ l => l.isA && l.wf
  | .filter _ ps arg => ps.isA && arg.isS && ps.wf && arg.wf
  | .quant q vs dom body =>
    (q == .FORALL || q == .EXISTS) && vs.isA && vs.isVar && dom.isS && body.isL && vs.wf && dom.wf && body.wf
  | .decl v dom body => v.isS && v.isVar && dom.isS && body.isL && !body.isPar && v.wf && dom.wf && body.wf
  | .recS v d s => v.isS && v.isVar && d.isS && s.isS && v.wf && d.wf && s.wf
  | .recF v d c s => v.isS && v.isVar && d.isS && c.isL && !c.isPar && s.isS && v.wf && d.wf && c.wf && s.wf
  | .imp val bs => val.isS && bs.isB && val.wf && bs.wf
  | .bone b => b.isL && !b.isPar && b.wf
  | .boneK op v s => isBlkOp op && v.isS && v.isVar && s.isS && v.wf && s.wf
  | .bmore b l => b.isL && !b.isPar && l.isB && b.wf && l.wf
  | .bmoreK op v s l => isBlkOp op && v.isS && v.isVar && s.isS && l.isB && v.wf && s.wf && l.wf
  | .par a => a.parOK && a.wf

/-- a variable (or list of variables) as a declaration tree: tuples become `NT_TUPLE_DECL`; the children of the
result of a list are its elements -/
def dast : R3 → Ast
  | .atom id d => .node id d 0 0 []
  | .tuple a l => .node .NT_TUPLE_DECL .none 0 0 (a.dast :: l.dast.kids)
  | .one a => .node .PUNC_COMMA .none 0 0 [a.dast]
  | .more a l => .node .PUNC_COMMA .none 0 0 (a.dast :: l.dast.kids)
  | _ => .node .PUNC_COMMA .none 0 0 []

/-- the declaration node of a quantifier: the single variable, or `NT_ENUM_DECL` over all of them -/
def declOf : R3 → Ast
  | .one v => v.dast
  | vs => .node .NT_ENUM_DECL .none 0 0 vs.dast.kids

/-- the tree as the shared `Ast` (all positions 0); the children of the result of a list are its elements -/
def ast : R3 → Ast
  | .atom id d => .node id d 0 0 []
  | .text f d a => .node f d 0 0 [a.ast]
  | .sbin op l r => .node op .none 0 0 [l.ast, r.ast]
  | .prod2 a b => .node .DECART .none 0 0 [a.ast, b.ast]
  | .prodN p k => .node .DECART .none 0 0 (p.ast.kids ++ [k.ast])
  | .pred op l r => .node op .none 0 0 [l.ast, r.ast]
  | .neg x => .node .NOT .none 0 0 [x.ast]
  | .lbin op l r => .node op .none 0 0 [l.ast, r.ast]
  | .pow a => .node .BOOLEAN .none 0 0 [a.ast]
  | .one a => .node .PUNC_COMMA .none 0 0 [a.ast]
  | .more a l => .node .PUNC_COMMA .none 0 0 (a.ast :: l.ast.kids)
  | .enum l => .node .NT_ENUMERATION .none 0 0 l.ast.kids
  | .tuple a l => .node .NT_TUPLE .none 0 0 (a.ast :: l.ast.kids)
  | .fcall d l => .node .NT_FUNC_CALL .none 0 0 (.node .ID_FUNCTION d 0 0 [] :: l.ast.kids)
  | .pcall d l => .node .NT_FUNC_CALL .none 0 0 (.node .ID_PREDICATE d 0 0 [] :: l.ast.kids)
  | .filter d ps arg => .node .FILTER d 0 0 (ps.ast.kids ++ [arg.ast])
  | .quant q vs dom body => .node q .none 0 0 [vs.declOf, dom.ast, body.ast]
  | .decl v dom body => .node .NT_DECLARATIVE_EXPR .none 0 0 [v.dast, dom.ast, body.ast]
  | .recS v d s => .node .NT_RECURSIVE_SHORT .none 0 0 [v.dast, d.ast, s.ast]
  | .recF v d c s => .node .NT_RECURSIVE_FULL .none 0 0 [v.dast, d.ast, c.ast, s.ast]
  | .imp val bs => .node .NT_IMPERATIVE_EXPR .none 0 0 (val.ast :: bs.ast.kids)
  | .bone b => .node .NT_IMPERATIVE_EXPR .none 0 0 [b.ast]
  | .boneK op v s => .node .NT_IMPERATIVE_EXPR .none 0 0 [.node op .none 0 0 [v.dast, s.ast]]
  | .bmore b l => .node .NT_IMPERATIVE_EXPR .none 0 0 (b.ast :: l.ast.kids)
  | .bmoreK op v s l => .node .NT_IMPERATIVE_EXPR .none 0 0 (.node op .none 0 0 [v.dast, s.ast] :: l.ast.kids)
  | .par a => a.ast

/-- the token sequence of the printed text -/
def toks : R3 → Toks
  | .atom id d => [tk id d]
  | .text f d a => tk f d :: tk .PUNC_PL :: (a.toks ++ [tk .PUNC_PR])
  | .sbin op l r => wrap (brSet op l.top .left) l.toks ++ tk op :: wrap (brSet op r.top .right) r.toks
  | .prod2 a b => wrap (brProd true a.top) a.toks ++ tk .DECART :: wrap (brProd false b.top) b.toks
  | .prodN p k => p.toks ++ tk .DECART :: wrap (brProd false k.top) k.toks
  | .pred op l r => l.toks ++ tk op :: r.toks
  | .neg x => tk .NOT :: wrap (brNot x.top) x.toks
  | .lbin op l r => wrap (brLogic op l.top .left) l.toks ++ tk op :: wrap (brLogic op r.top .right) r.toks
  | .pow a => if a.isPow then tk .BOOLEAN :: a.toks else tk .BOOLEAN :: tk .PUNC_PL :: (a.toks ++ [tk .PUNC_PR])
  | .one a => a.toks
  | .more a l => a.toks ++ tk .PUNC_COMMA :: l.toks
  | .enum l => tk .PUNC_CL :: (l.toks ++ [tk .PUNC_CR])
  | .tuple a l => tk .PUNC_PL :: (a.toks ++ tk .PUNC_COMMA :: (l.toks ++ [tk .PUNC_PR]))
  | .fcall d l => tk .ID_FUNCTION d :: tk .PUNC_SL :: (l.toks ++ [tk .PUNC_SR])
  | .pcall d l => tk .ID_PREDICATE d :: tk .PUNC_SL :: (l.toks ++ [tk .PUNC_SR])
  | .filter d ps arg => tk .FILTER d :: tk .PUNC_SL :: (ps.toks ++ tk .PUNC_SR :: tk .PUNC_PL :: (arg.toks ++ [tk .PUNC_PR]))
  | .quant q vs dom body => tk q :: (vs.toks ++ tk .IN :: (dom.toks ++ wrap (brQ q body.top) body.toks))
  | .decl v dom body =>
    tk .DECLARATIVE :: tk .PUNC_CL :: (v.toks ++ tk .IN :: (dom.toks ++ tk .PUNC_BAR :: (body.toks ++ [tk .PUNC_CR])))
  | .recS v d s =>
    tk .RECURSIVE :: tk .PUNC_CL :: (v.toks ++ tk .ASSIGN :: (d.toks ++ tk .PUNC_BAR :: (s.toks ++ [tk .PUNC_CR])))
  | .recF v d c s =>
    tk .RECURSIVE :: tk .PUNC_CL :: (v.toks ++ tk .ASSIGN :: (d.toks ++ tk .PUNC_BAR :: (c.toks ++ tk .PUNC_BAR ::
      (s.toks ++ [tk .PUNC_CR]))))
  | .imp val bs => tk .IMPERATIVE :: tk .PUNC_CL :: (val.toks ++ tk .PUNC_BAR :: (bs.toks ++ [tk .PUNC_CR]))
  | .bone b => b.toks
  | .boneK op v s => v.toks ++ tk op :: s.toks
  | .bmore b l => b.toks ++ tk .PUNC_SEMICOLON :: l.toks
  | .bmoreK op v s l => v.toks ++ tk op :: (s.toks ++ tk .PUNC_SEMICOLON :: l.toks)
  | .par a => tk .PUNC_PL :: (a.toks ++ [tk .PUNC_PR])

/-- the raw tree the parser builds before `CreateSyntaxTree` (bracket nodes kept); the children of the result of a
list are the raw trees of its elements -/
def raw : R3 → Ast
  | .atom id d => .node id d 0 0 []
  | .text f d a => .node f d 0 0 [a.raw]
  | .sbin op l r => .node op .none 0 0 [wrapRaw (brSet op l.top .left) l.raw, wrapRaw (brSet op r.top .right) r.raw]
  | .prod2 a b => .node .DECART .none 0 0 [wrapRaw (brProd true a.top) a.raw, wrapRaw (brProd false b.top) b.raw]
  | .prodN p k => .node .DECART .none 0 0 (p.raw.kids ++ [wrapRaw (brProd false k.top) k.raw])
  | .pred op l r => .node op .none 0 0 [l.raw, r.raw]
  | .neg x => .node .NOT .none 0 0 [wrapRaw (brNot x.top) x.raw]
  | .lbin op l r => .node op .none 0 0 [wrapRaw (brLogic op l.top .left) l.raw, wrapRaw (brLogic op r.top .right) r.raw]
  | .pow a => .node .BOOLEAN .none 0 0 [a.raw]
  | .one a => .node .PUNC_COMMA .none 0 0 [a.raw]
  | .more a l => .node .PUNC_COMMA .none 0 0 (a.raw :: l.raw.kids)
  | .enum l => .node .NT_ENUMERATION .none 0 0 l.raw.kids
  | .tuple a l => .node .NT_TUPLE .none 0 0 (a.raw :: l.raw.kids)
  | .fcall d l => .node .NT_FUNC_CALL .none 0 0 (.node .ID_FUNCTION d 0 0 [] :: l.raw.kids)
  | .pcall d l => .node .NT_FUNC_CALL .none 0 0 (.node .ID_PREDICATE d 0 0 [] :: l.raw.kids)
  | .filter d ps arg => .node .FILTER d 0 0 (ps.raw.kids ++ [arg.raw])
  | .quant q vs dom body => .node q .none 0 0 [vs.declOf, dom.raw, wrapRaw (brQ q body.top) body.raw]
  | .decl v dom body => .node .NT_DECLARATIVE_EXPR .none 0 0 [v.dast, dom.raw, body.raw]
  | .recS v d s => .node .NT_RECURSIVE_SHORT .none 0 0 [v.dast, d.raw, s.raw]
  | .recF v d c s => .node .NT_RECURSIVE_FULL .none 0 0 [v.dast, d.raw, c.raw, s.raw]
  | .imp val bs => .node .NT_IMPERATIVE_EXPR .none 0 0 (val.raw :: bs.raw.kids)
  | .bone b => .node .NT_IMPERATIVE_EXPR .none 0 0 [b.raw]
  | .boneK op v s => .node .NT_IMPERATIVE_EXPR .none 0 0 [.node op .none 0 0 [v.dast, s.raw]]
  | .bmore b l => .node .NT_IMPERATIVE_EXPR .none 0 0 (b.raw :: l.raw.kids)
  | .bmoreK op v s l => .node .NT_IMPERATIVE_EXPR .none 0 0 (.node op .none 0 0 [v.dast, s.raw] :: l.raw.kids)
  | .par a => .node .PUNC_PL .none 0 0 [a.raw]

/-- lowest precedence on the unbracketed left spine = precedence of the root operator; other
phrases bind tighter than anything -/
def low : R3 → Nat
  | .sbin op _ _ => prec op
  | .prod2 .. | .prodN .. => prec .DECART
  | .lbin op _ _ => prec op
  | _ => 100

/-- a generous size measure: the fuel any sub-parser needs on this phrase -/
def sz : R3 → Nat
  | .atom .. => 4
  | .text _ _ a => a.sz + 8
  | .sbin _ l r => l.sz + r.sz + 16
  | .prod2 a b => a.sz + b.sz + 16
  | .prodN p k => p.sz + k.sz + 16
  | .pred _ l r => l.sz + r.sz + 8
  | .neg x => x.sz + 16
  | .lbin _ l r => l.sz + r.sz + 16
  | .pow a => a.sz + 8
  | .one a => a.sz
  | .more a l => a.sz + l.sz + 8
  | .enum l => l.sz + 16
  | .tuple a l => a.sz + l.sz + 16
  | .fcall _ l => l.sz + 16
  | .pcall _ l => l.sz + 16
  | .filter _ ps arg => ps.sz + arg.sz + 16
  | .quant _ vs dom body => vs.sz + dom.sz + body.sz + 16
  | .decl v dom body => v.sz + dom.sz + body.sz + 16
  | .recS v d s => v.sz + d.sz + s.sz + 16
  | .recF v d c s => v.sz + d.sz + c.sz + s.sz + 16
  | .imp val bs => val.sz + bs.sz + 16
  | .bone b => b.sz
  | .boneK _ v s => v.sz + s.sz + 16
  | .bmore b l => b.sz + l.sz + 16
  | .bmoreK _ v s l => v.sz + s.sz + l.sz + 24
  | .par a => a.sz + 16

/-- root operator of a binary set phrase -/
def binTop? : R3 → Option Tok
  | .sbin cop _ _ => some cop
  | .prod2 .. | .prodN .. => some .DECART
  | _ => none

end R3

/-! ## what the grammar needs from the bracket decisions (as for `E2`) -/

def okChildS2 (p : Tok) (c : R3) (side : Side) : Bool :=
  match c.binTop? with
  | some cop => brSet p cop side || condOK p cop side
  | none => !brSet p c.top side

def okFactor2 (first : Bool) (c : R3) : Bool :=
  match c.binTop? with
  | some cop => brProd first cop || (cop != .DECART && condOK .DECART cop (if first then .left else .right))
  | none => !brProd first c.top

def okChildL2 (p : Tok) (c : R3) (side : Side) : Bool :=
  match c with
  | .lbin cop _ _ => brLogic p cop side || condOK p cop side
  | .pred .. => true
  | _ => !brLogic p c.top side

/-- the operand of a prefix operator (`¬`, `∀`, `∃`) must be a `logic_no_binary`: a connective is bracketed, a
predicate may be, nothing else is; `br` = the bracket decision of the operator as a function of the operand's root -/
def okBody (br : Tok → Bool) (c : R3) : Bool :=
  match c with
  | .lbin cop _ _ => br cop
  | .pred .. => true
  | _ => !br c.top

def okNot2 (c : R3) : Bool := okBody brNot c

def okQ2 (q : Tok) (c : R3) : Bool := okBody (brQ q) c

def R3.ok : R3 → Bool
  | .atom .. => true
  | .text _ _ a => a.ok
  | .sbin op l r => okChildS2 op l .left && okChildS2 op r .right && l.ok && r.ok
  | .prod2 a b => okFactor2 true a && okFactor2 false b && a.ok && b.ok
  | .prodN p k => okFactor2 false k && p.ok && k.ok
  | .pred _ l r => l.ok && r.ok
  | .neg x => okNot2 x && x.ok
  | .lbin op l r => okChildL2 op l .left && okChildL2 op r .right && l.ok && r.ok
  | .pow a => a.ok
  | .one a => a.ok
  | .more a l => a.ok && l.ok
  | .enum l => l.ok
  | .tuple a l => a.ok && l.ok
  | .fcall _ l => l.ok
  | .pcall _ l => l.ok
  | .filter _ ps arg => ps.ok && arg.ok
  | .quant q vs dom body => okQ2 q body && vs.ok && dom.ok && body.ok
  | .decl v dom body => v.ok && dom.ok && body.ok
  | .recS v d s => v.ok && d.ok && s.ok
  | .recF v d c s => v.ok && d.ok && c.ok && s.ok
  | .imp val bs => val.ok && bs.ok
  | .bone b => b.ok
  | .boneK _ v s => v.ok && s.ok
  | .bmore b l => b.ok && l.ok
  | .bmoreK _ v s l => v.ok && s.ok && l.ok
  | .par a => a.ok


/-! ## the term a rendering denotes, and the canonical rendering -/

/-- forget the redundant parentheses -/
def R3.erase : R3 → E3
  | .atom id d => .atom id d
  | .text f d a => .text f d a.erase
  | .sbin op l r => .sbin op l.erase r.erase
  | .prod2 a b => .prod2 a.erase b.erase
  | .prodN p k => .prodN p.erase k.erase
  | .pred op l r => .pred op l.erase r.erase
  | .neg x => .neg x.erase
  | .lbin op l r => .lbin op l.erase r.erase
  | .pow a => .pow a.erase
  | .one a => .one a.erase
  | .more a l => .more a.erase l.erase
  | .enum l => .enum l.erase
  | .tuple a l => .tuple a.erase l.erase
  | .fcall d l => .fcall d l.erase
  | .pcall d l => .pcall d l.erase
  | .filter d ps arg => .filter d ps.erase arg.erase
  | .quant q vs dom body => .quant q vs.erase dom.erase body.erase
  | .decl v dom body => .decl v.erase dom.erase body.erase
  | .recS v d s => .recS v.erase d.erase s.erase
  | .recF v d c s => .recF v.erase d.erase c.erase s.erase
  | .imp val bs => .imp val.erase bs.erase
  | .bone b => .bone b.erase
  | .boneK op v s => .boneK op v.erase s.erase
  | .bmore b l => .bmore b.erase l.erase
  | .bmoreK op v s l => .bmoreK op v.erase s.erase l.erase
  | .par a => a.erase

/-- a term of `E3` as the rendering without redundant parentheses -/
def ofE3 : E3 → R3
  | .atom id d => .atom id d
  | .text f d a => .text f d (ofE3 a)
  | .sbin op l r => .sbin op (ofE3 l) (ofE3 r)
  | .prod2 a b => .prod2 (ofE3 a) (ofE3 b)
  | .prodN p k => .prodN (ofE3 p) (ofE3 k)
  | .pred op l r => .pred op (ofE3 l) (ofE3 r)
  | .neg x => .neg (ofE3 x)
  | .lbin op l r => .lbin op (ofE3 l) (ofE3 r)
  | .pow a => .pow (ofE3 a)
  | .one a => .one (ofE3 a)
  | .more a l => .more (ofE3 a) (ofE3 l)
  | .enum l => .enum (ofE3 l)
  | .tuple a l => .tuple (ofE3 a) (ofE3 l)
  | .fcall d l => .fcall d (ofE3 l)
  | .pcall d l => .pcall d (ofE3 l)
  | .filter d ps arg => .filter d (ofE3 ps) (ofE3 arg)
  | .quant q vs dom body => .quant q (ofE3 vs) (ofE3 dom) (ofE3 body)
  | .decl v dom body => .decl (ofE3 v) (ofE3 dom) (ofE3 body)
  | .recS v d s => .recS (ofE3 v) (ofE3 d) (ofE3 s)
  | .recF v d c s => .recF (ofE3 v) (ofE3 d) (ofE3 c) (ofE3 s)
  | .imp val bs => .imp (ofE3 val) (ofE3 bs)
  | .bone b => .bone (ofE3 b)
  | .boneK op v s => .boneK op (ofE3 v) (ofE3 s)
  | .bmore b l => .bmore (ofE3 b) (ofE3 l)
  | .bmoreK op v s l => .bmoreK op (ofE3 v) (ofE3 s) (ofE3 l)

/-- number of `par`s of a rendering (explicit pairs: the redundant ones and those standing in for a required pair) -/
def R3.pars : R3 → Nat
  | .atom .. => 0
  | .text _ _ a => a.pars
  | .sbin _ l r => l.pars + r.pars
  | .prod2 a b => a.pars + b.pars
  | .prodN p k => p.pars + k.pars
  | .pred _ l r => l.pars + r.pars
  | .neg x => x.pars
  | .lbin _ l r => l.pars + r.pars
  | .pow a => a.pars
  | .one a => a.pars
  | .more a l => a.pars + l.pars
  | .enum l => l.pars
  | .tuple a l => a.pars + l.pars
  | .fcall _ l => l.pars
  | .pcall _ l => l.pars
  | .filter _ ps arg => ps.pars + arg.pars
  | .quant _ vs dom body => vs.pars + dom.pars + body.pars
  | .decl v dom body => v.pars + dom.pars + body.pars
  | .recS v d s => v.pars + d.pars + s.pars
  | .recF v d c s => v.pars + d.pars + c.pars + s.pars
  | .imp val bs => val.pars + bs.pars
  | .bone b => b.pars
  | .boneK _ v s => v.pars + s.pars
  | .bmore b l => b.pars + l.pars
  | .bmoreK _ v s l => v.pars + s.pars + l.pars
  | .par a => a.pars + 1

end CCVerif.PR
