import CCVerif.Lemmas.EvalFilters
import CCVerif.Lemmas.EvalTop
/-! Stage 8 of C01 / C02: the typed fragment `FragF` = the fragment `FragR` of stages 1-6 (`Lemmas/EvalFrag.lean`,
constructor by constructor) plus the two filter forms, and its simulation `simF`.

GENERATED from `EvalFrag.lean` / `EvalSim.lean` / `EvalTop.lean` by copying (the old inductive and its theorems stay
as they are; `FragR.toF` embeds them): the cases of `simF` for the old constructs are the cases of `sim` verbatim, the
filter cases are `sim_filterT` / `sim_filterC` of `Lemmas/EvalFilters.lean`. -/
namespace CCVerif.Eval
open CCVerif.Syntax CCVerif.Spec CCVerif.Norm
open Val Ty

/-- `FragR` (stages 1-6) + filters; the level has the meaning it has in `FragR`, filters are allowed at every level -/
inductive FragF (env : Env) (G : TCtx) (lvl : Nat) : Rz → TCtx → Ast → Ast → ExprTy → Prop where
  | lit {σ : Rz} (Γ : TCtx) (n lo hi : Int) :
      FragF env G lvl σ Γ (.node .LIT_INTEGER (.int n) lo hi []) (.node .LIT_INTEGER (.int n) lo hi []) (.ty (.base "Z"))
  | arith {σ : Rz} {Γ : TCtx} {t : Tok} {a b a' b' : Ast} (d : TokData) (lo hi : Int) : isArith t →
      FragF env G lvl σ Γ a a' (.ty (.base "Z")) → FragF env G lvl σ Γ b b' (.ty (.base "Z")) →
      FragF env G lvl σ Γ (.node t d lo hi [a, b]) (.node t d lo hi [a', b']) (.ty (.base "Z"))
  | card {σ : Rz} {Γ : TCtx} {a a' : Ast} {τ : Ty} (d : TokData) (lo hi : Int) : FragF env G lvl σ Γ a a' (.ty (.coll τ)) →
      FragF env G lvl σ Γ (.node .CARD d lo hi [a]) (.node .CARD d lo hi [a']) (.ty (.base "Z"))
  | cmp {σ : Rz} {Γ : TCtx} {t : Tok} {a b a' b' : Ast} (d : TokData) (lo hi : Int) : isIntCmp t →
      FragF env G lvl σ Γ a a' (.ty (.base "Z")) → FragF env G lvl σ Γ b b' (.ty (.base "Z")) →
      FragF env G lvl σ Γ (.node t d lo hi [a, b]) (.node t d lo hi [a', b']) .logic
  | eq {σ : Rz} {Γ : TCtx} {t : Tok} {a b a' b' : Ast} {τ : Ty} (d : TokData) (lo hi : Int) : isEq t →
      FragF env G lvl σ Γ a a' (.ty τ) → FragF env G lvl σ Γ b b' (.ty τ) →
      FragF env G lvl σ Γ (.node t d lo hi [a, b]) (.node t d lo hi [a', b']) .logic
  | not {σ : Rz} {Γ : TCtx} {a a' : Ast} (d : TokData) (lo hi : Int) : FragF env G lvl σ Γ a a' .logic →
      FragF env G lvl σ Γ (.node .NOT d lo hi [a]) (.node .NOT d lo hi [a']) .logic
  | conn {σ : Rz} {Γ : TCtx} {t : Tok} {a b a' b' : Ast} (d : TokData) (lo hi : Int) : isConn t →
      FragF env G lvl σ Γ a a' .logic → FragF env G lvl σ Γ b b' .logic →
      FragF env G lvl σ Γ (.node t d lo hi [a, b]) (.node t d lo hi [a', b']) .logic
  | mem {σ : Rz} {Γ : TCtx} {t : Tok} {a b a' b' : Ast} {τ : Ty} (d : TokData) (lo hi : Int) : isMemTok t →
      b.id ≠ .BOOLEAN → b'.id ≠ .BOOLEAN →
      FragF env G lvl σ Γ a a' (.ty τ) → FragF env G lvl σ Γ b b' (.ty (.coll τ)) →
      FragF env G lvl σ Γ (.node t d lo hi [a, b]) (.node t d lo hi [a', b']) .logic
  | memPow {σ : Rz} {Γ : TCtx} {t : Tok} {a b a' b' : Ast} {τ : Ty} (d d' : TokData) (lo hi lo' hi' : Int) : isMemTok t →
      FragF env G lvl σ Γ a a' (.ty (.coll τ)) → FragF env G lvl σ Γ b b' (.ty (.coll τ)) →
      FragF env G lvl σ Γ (.node t d lo hi [a, .node .BOOLEAN d' lo' hi' [b]])
        (.node t d lo hi [a', .node .BOOLEAN d' lo' hi' [b']]) .logic
  | sub {σ : Rz} {Γ : TCtx} {t : Tok} {a b a' b' : Ast} {τ : Ty} (d : TokData) (lo hi : Int) : isSubTok t →
      FragF env G lvl σ Γ a a' (.ty (.coll τ)) → FragF env G lvl σ Γ b b' (.ty (.coll τ)) →
      FragF env G lvl σ Γ (.node t d lo hi [a, b]) (.node t d lo hi [a', b']) .logic
  | empty {σ : Rz} (Γ : TCtx) {τ : Ty} (d : TokData) (lo hi : Int) : noAny τ = true →
      FragF env G lvl σ Γ (.node .LIT_EMPTYSET d lo hi []) (.node .LIT_EMPTYSET d lo hi []) (.ty (.coll τ))
  /-- `Z`: typed, but every evaluation of it is the documented error `iterateInfinity` -/
  | intset {σ : Rz} (Γ : TCtx) (d : TokData) (lo hi : Int) :
      FragF env G lvl σ Γ (.node .LIT_INTSET d lo hi []) (.node .LIT_INTSET d lo hi []) (.ty (.coll (.base "Z")))
  | enum {σ : Rz} {Γ : TCtx} {τ : Ty} (d : TokData) (lo hi : Int) (ks ks' : List Ast) : ks ≠ [] → ks.length = ks'.length →
      (∀ q ∈ ks.zip ks', FragF env G lvl σ Γ q.1 q.2 (.ty τ)) →
      FragF env G lvl σ Γ (.node .NT_ENUMERATION d lo hi ks) (.node .NT_ENUMERATION d lo hi ks') (.ty (.coll τ))
  | tuple {σ : Rz} {Γ : TCtx} (d : TokData) (lo hi : Int) (ks ks' : List Ast) (ts : List Ty) : ks.length ≥ 2 →
      ks.length = ts.length → ks.length = ks'.length → (∀ q ∈ (ks.zip ks').zip ts, FragF env G lvl σ Γ q.1.1 q.1.2 (.ty q.2)) →
      FragF env G lvl σ Γ (.node .NT_TUPLE d lo hi ks) (.node .NT_TUPLE d lo hi ks') (.ty (.tuple ts))
  | setOp {σ : Rz} {Γ : TCtx} {t : Tok} {a b a' b' : Ast} {τ : Ty} (d : TokData) (lo hi : Int) : isSetOp t →
      FragF env G lvl σ Γ a a' (.ty (.coll τ)) → FragF env G lvl σ Γ b b' (.ty (.coll τ)) →
      FragF env G lvl σ Γ (.node t d lo hi [a, b]) (.node t d lo hi [a', b']) (.ty (.coll τ))
  | bool {σ : Rz} {Γ : TCtx} {a a' : Ast} {τ : Ty} (d : TokData) (lo hi : Int) : FragF env G lvl σ Γ a a' (.ty τ) →
      FragF env G lvl σ Γ (.node .BOOL d lo hi [a]) (.node .BOOL d lo hi [a']) (.ty (.coll τ))
  | debool {σ : Rz} {Γ : TCtx} {a a' : Ast} {τ : Ty} (d : TokData) (lo hi : Int) : FragF env G lvl σ Γ a a' (.ty (.coll τ)) →
      FragF env G lvl σ Γ (.node .DEBOOL d lo hi [a]) (.node .DEBOOL d lo hi [a']) (.ty τ)
  | reduce {σ : Rz} {Γ : TCtx} {a a' : Ast} {τ : Ty} (d : TokData) (lo hi : Int) : FragF env G lvl σ Γ a a' (.ty (.coll (.coll τ))) →
      FragF env G lvl σ Γ (.node .REDUCE d lo hi [a]) (.node .REDUCE d lo hi [a']) (.ty (.coll τ))
  | smallpr {σ : Rz} {Γ : TCtx} {a a' : Ast} {ts : List Ty} {τ : Ty} (idx : List Int) (lo hi : Int) :
      FragF env G lvl σ Γ a a' (.ty (.tuple ts)) → projTy ts idx = some τ →
      FragF env G lvl σ Γ (.node .SMALLPR (.tuple idx) lo hi [a]) (.node .SMALLPR (.tuple idx) lo hi [a']) (.ty τ)
  | bigpr {σ : Rz} {Γ : TCtx} {a a' : Ast} {ts : List Ty} {τ : Ty} (idx : List Int) (lo hi : Int) :
      FragF env G lvl σ Γ a a' (.ty (.coll (.tuple ts))) → projTy ts idx = some τ →
      FragF env G lvl σ Γ (.node .BIGPR (.tuple idx) lo hi [a]) (.node .BIGPR (.tuple idx) lo hi [a']) (.ty (.coll τ))
  /-- `ℬ(a)` on a small operand: the reference semantics enumerates power sets of at most
  `2^POW_BOUND` members -/
  | pow {σ : Rz} {Γ : TCtx} {a a' : Ast} {τ : Ty} (d : TokData) (lo hi : Int) : FragF env G lvl σ Γ a a' (.ty (.coll τ)) →
      (∀ fuel ρ xs, denote (senvOf env) fuel ρ a = some (.val (.s xs)) → xs.length ≤ POW_BOUND) →
      FragF env G lvl σ Γ (.node .BOOLEAN d lo hi [a]) (.node .BOOLEAN d lo hi [a']) (.ty (.coll (.coll τ)))
  | decart {σ : Rz} {Γ : TCtx} (d : TokData) (lo hi : Int) (ks ks' : List Ast) (ts : List Ty) : ks.length ≥ 2 →
      ks.length = ts.length → ks.length = ks'.length →
      (∀ q ∈ (ks.zip ks').zip ts, FragF env G lvl σ Γ q.1.1 q.1.2 (.ty (.coll q.2))) →
      FragF env G lvl σ Γ (.node .DECART d lo hi ks) (.node .DECART d lo hi ks') (.ty (.coll (.tuple ts)))
  | glob {σ : Rz} (Γ : TCtx) {τ : Ty} (g : String) (lo hi : Int) : 2 ≤ lvl → lookup g G = some τ →
      FragF env G lvl σ Γ (.node .ID_GLOBAL (.text g) lo hi []) (.node .ID_GLOBAL (.text g) lo hi []) (.ty τ)
  | loc {σ : Rz} (Γ : TCtx) {τ : Ty} (x : String) (lo hi : Int) : 3 ≤ lvl → lookup x Γ = some τ → lookup x σ = none →
      FragF env G lvl σ Γ (.node .ID_LOCAL (.text x) lo hi []) (.node .ID_LOCAL (.text x) lo hi []) (.ty τ)
  /-- a component of a tuple pattern: in the normal form the projection of the generated variable -/
  | locPr {σ : Rz} (Γ : TCtx) {τ : Ty} (x nn : String) (k : Int) (lo hi : Int) : 6 ≤ lvl → lookup x Γ = some τ →
      lookup x σ = some (nn, k) →
      FragF env G lvl σ Γ (.node .ID_LOCAL (.text x) lo hi [])
        (.node .SMALLPR (.tuple [k]) lo hi [.node .ID_LOCAL (.text nn) lo hi []]) (.ty τ)
  | quant {σ : Rz} {Γ : TCtx} {t : Tok} {dom body dom' body' : Ast} {τ : Ty} (d : TokData) (lo hi : Int) (x : String)
      (dlo dhi : Int) :
      3 ≤ lvl → isQuant t → lookup x Γ = none → lookup x env.globals = none → (∀ r ∈ σ, r.2.1 ≠ x) →
      FragF env G lvl σ Γ dom dom' (.ty (.coll τ)) → FragF env G lvl σ ((x, τ) :: Γ) body body' .logic →
      FragF env G lvl σ Γ (.node t d lo hi [.node .ID_LOCAL (.text x) dlo dhi [], dom, body])
        (.node t d lo hi [.node .ID_LOCAL (.text x) dlo dhi [], dom', body']) .logic
  | decl {σ : Rz} {Γ : TCtx} {dom body dom' body' : Ast} {τ : Ty} (d : TokData) (lo hi : Int) (x : String) (dlo dhi : Int) :
      3 ≤ lvl → lookup x Γ = none → lookup x env.globals = none → (∀ r ∈ σ, r.2.1 ≠ x) →
      FragF env G lvl σ Γ dom dom' (.ty (.coll τ)) → FragF env G lvl σ ((x, τ) :: Γ) body body' .logic →
      FragF env G lvl σ Γ (.node .NT_DECLARATIVE_EXPR d lo hi [.node .ID_LOCAL (.text x) dlo dhi [], dom, body])
        (.node .NT_DECLARATIVE_EXPR d lo hi [.node .ID_LOCAL (.text x) dlo dhi [], dom', body']) (.ty (.coll τ))
  /-- `R{x := init | step}` -/
  | recShort {σ : Rz} {Γ : TCtx} {init body init' body' : Ast} {τ : Ty} (d : TokData) (lo hi : Int) (x : String) (dlo dhi : Int) :
      4 ≤ lvl → lookup x Γ = none → lookup x env.globals = none → (∀ r ∈ σ, r.2.1 ≠ x) →
      FragF env G lvl σ Γ init init' (.ty τ) → FragF env G lvl σ ((x, τ) :: Γ) body body' (.ty τ) →
      FragF env G lvl σ Γ (.node .NT_RECURSIVE_SHORT d lo hi [.node .ID_LOCAL (.text x) dlo dhi [], init, body])
        (.node .NT_RECURSIVE_SHORT d lo hi [.node .ID_LOCAL (.text x) dlo dhi [], init', body']) (.ty τ)
  /-- `R{x := init | cond | step}` -/
  | recFull {σ : Rz} {Γ : TCtx} {init cond body init' cond' body' : Ast} {τ : Ty} (d : TokData) (lo hi : Int) (x : String)
      (dlo dhi : Int) :
      4 ≤ lvl → lookup x Γ = none → lookup x env.globals = none → (∀ r ∈ σ, r.2.1 ≠ x) →
      FragF env G lvl σ Γ init init' (.ty τ) → FragF env G lvl σ ((x, τ) :: Γ) cond cond' .logic →
      FragF env G lvl σ ((x, τ) :: Γ) body body' (.ty τ) →
      FragF env G lvl σ Γ (.node .NT_RECURSIVE_FULL d lo hi [.node .ID_LOCAL (.text x) dlo dhi [], init, cond, body])
        (.node .NT_RECURSIVE_FULL d lo hi [.node .ID_LOCAL (.text x) dlo dhi [], init', cond', body']) (.ty τ)
  /-- `I{value | blocks}`: every block is typed after the blocks before it, the value after all of them -/
  | imp {σ : Rz} {Γ : TCtx} {value value' : Ast} {τ : Ty} (d : TokData) (lo hi : Int) (bs : List Blk) : 4 ≤ lvl → bs ≠ [] →
      noAny τ = true →
      (∀ pre b post, bs = pre ++ b :: post → b.side env σ (ctxAfter Γ pre)) →
      (∀ pre b post, bs = pre ++ b :: post → FragF env G lvl σ (ctxAfter Γ pre) b.expr b.expr' b.ety) →
      FragF env G lvl σ (ctxAfter Γ bs) value value' (.ty τ) →
      FragF env G lvl σ Γ (.node .NT_IMPERATIVE_EXPR d lo hi (value :: bs.map Blk.src))
        (.node .NT_IMPERATIVE_EXPR d lo hi (value' :: bs.map Blk.core)) (.ty (.coll τ))
  /-- `Q x₁,…,xₙ ∈ S . P` (`n ≥ 2` distinct new plain variables): the normal form nests `n` quantifiers, each
  over a copy of the domain; `S` is typed outside the variables, `P` inside all of them -/
  | quantEnum {σ : Rz} {Γ : TCtx} {t : Tok} {dom body dom' body' : Ast} {τ : Ty} (d dd : TokData) (lo hi dlo dhi : Int)
      (xs : List EDecl) :
      5 ≤ lvl → isQuant t → 2 ≤ xs.length → (xs.map (·.1)).Nodup →
      (∀ q ∈ xs, lookup q.1 Γ = none ∧ lookup q.1 env.globals = none ∧ ∀ r ∈ σ, r.2.1 ≠ q.1) →
      FragF env G lvl σ Γ dom dom' (.ty (.coll τ)) → FragF env G lvl σ (declCtx τ Γ xs) body body' .logic →
      FragF env G lvl σ Γ (.node t d lo hi [.node .NT_ENUM_DECL dd dlo dhi (xs.map declNode), dom, body])
        (nest t d lo hi dom' body' xs) .logic
  /-- `Q (x₁,…,xₙ) ∈ S . P` with a flat tuple pattern: the normal form binds ONE generated variable `nn` - the
  candidate name `'@'` + component names, which must be new: no variable in scope, no global, no component, no
  other generated name in use - and reads the components as `pr_i(nn)` -/
  | quantTup {σ : Rz} {Γ : TCtx} {t : Tok} {dom body dom' body' : Ast} {ts : List Ty} (d : TokData) (lo hi : Int)
      (pd : TokData) (plo phi : Int) (xs : List EDecl) (nn : String) :
      6 ≤ lvl → isQuant t → xs.length = ts.length → 2 ≤ xs.length → (xs.map (·.1)).Nodup →
      (∀ q ∈ xs, lookup q.1 Γ = none ∧ lookup q.1 env.globals = none ∧ ∀ r ∈ σ, r.2.1 ≠ q.1) →
      lookup nn Γ = none → lookup nn env.globals = none → nn ∉ xs.map (·.1) → (∀ r ∈ σ, r.2.1 ≠ nn) →
      nn = candName (xs.map (·.1)) →
      FragF env G lvl σ Γ dom dom' (.ty (.coll (.tuple ts))) →
      FragF env G lvl (patRz nn xs 1 ++ σ) (patCtx Γ xs ts) body body' .logic →
      FragF env G lvl σ Γ (.node t d lo hi [.node .NT_TUPLE_DECL pd plo phi (xs.map declNode), dom, body])
        (.node t d lo hi [.node .ID_LOCAL (.text nn) plo phi [], dom', body']) .logic
  /-- `D{(x₁,…,xₙ) ∈ S | P}` -/
  | declTup {σ : Rz} {Γ : TCtx} {dom body dom' body' : Ast} {ts : List Ty} (d : TokData) (lo hi : Int)
      (pd : TokData) (plo phi : Int) (xs : List EDecl) (nn : String) :
      6 ≤ lvl → xs.length = ts.length → 2 ≤ xs.length → (xs.map (·.1)).Nodup →
      (∀ q ∈ xs, lookup q.1 Γ = none ∧ lookup q.1 env.globals = none ∧ ∀ r ∈ σ, r.2.1 ≠ q.1) →
      lookup nn Γ = none → lookup nn env.globals = none → nn ∉ xs.map (·.1) → (∀ r ∈ σ, r.2.1 ≠ nn) →
      nn = candName (xs.map (·.1)) →
      FragF env G lvl σ Γ dom dom' (.ty (.coll (.tuple ts))) →
      FragF env G lvl (patRz nn xs 1 ++ σ) (patCtx Γ xs ts) body body' .logic →
      FragF env G lvl σ Γ (.node .NT_DECLARATIVE_EXPR d lo hi [.node .NT_TUPLE_DECL pd plo phi (xs.map declNode), dom, body])
        (.node .NT_DECLARATIVE_EXPR d lo hi [.node .ID_LOCAL (.text nn) plo phi [], dom', body']) (.ty (.coll (.tuple ts)))
  /-- `Fi_{i1..ik}[P1,…,Pk](S)`: as many parameters as indices; `P_j` is a set over the type of component `i_j` -/
  | filterT {σ : Rz} {Γ : TCtx} {arg arg' : Ast} (idx : List Int) (lo hi : Int) (ps ps' : List Ast) (τs ts : List Ty) :
      ps.length = τs.length → ps.length = ps'.length → idx.mapM (compTy ts) = some τs →
      (∀ q ∈ (ps.zip ps').zip τs, FragF env G lvl σ Γ q.1.1 q.1.2 (.ty (.coll q.2))) →
      FragF env G lvl σ Γ arg arg' (.ty (.coll (.tuple ts))) →
      FragF env G lvl σ Γ (.node .FILTER (.tuple idx) lo hi (ps ++ [arg])) (.node .FILTER (.tuple idx) lo hi (ps' ++ [arg']))
        (.ty (.coll (.tuple ts)))
  /-- `Fi_{i1,…,ik}[P](S)` with ONE parameter for `k ≥ 2` indices: `P` is a set of tuples of the selected components -/
  | filterC {σ : Rz} {Γ : TCtx} {par par' arg arg' : Ast} {τ : Ty} (idx : List Int) (lo hi : Int) (ts : List Ty) :
      idx.length ≠ 1 → projTy ts idx = some τ →
      FragF env G lvl σ Γ par par' (.ty (.coll τ)) → FragF env G lvl σ Γ arg arg' (.ty (.coll (.tuple ts))) →
      FragF env G lvl σ Γ (.node .FILTER (.tuple idx) lo hi [par, arg]) (.node .FILTER (.tuple idx) lo hi [par', arg'])
        (.ty (.coll (.tuple ts)))

variable {env : Env}

theorem FragR.toF {G : TCtx} {l1 l2 : Nat} (hl : l1 ≤ l2) {rz : Rz} {Γ : TCtx} {a a' : Ast} {τ : ExprTy}
    (h : FragR env G l1 rz Γ a a' τ) : FragF env G l2 rz Γ a a' τ := by
  induction h with
  | lit Γ n lo hi => exact .lit Γ n lo hi
  | arith d lo hi ht _ _ iha ihb => exact .arith d lo hi ht iha ihb
  | card d lo hi _ ih => exact .card d lo hi ih
  | cmp d lo hi ht _ _ iha ihb => exact .cmp d lo hi ht iha ihb
  | eq d lo hi ht _ _ iha ihb => exact .eq d lo hi ht iha ihb
  | not d lo hi _ ih => exact .not d lo hi ih
  | conn d lo hi ht _ _ iha ihb => exact .conn d lo hi ht iha ihb
  | mem d lo hi ht hb hb' _ _ iha ihb => exact .mem d lo hi ht hb hb' iha ihb
  | memPow d d' lo hi lo' hi' ht _ _ iha ihb => exact .memPow d d' lo hi lo' hi' ht iha ihb
  | sub d lo hi ht _ _ iha ihb => exact .sub d lo hi ht iha ihb
  | empty Γ d lo hi hn => exact .empty Γ d lo hi hn
  | intset Γ d lo hi => exact .intset Γ d lo hi
  | enum d lo hi ks ks' hne hlen _ ih => exact .enum d lo hi ks ks' hne hlen ih
  | tuple d lo hi ks ks' ts h2 hlen hlen' _ ih => exact .tuple d lo hi ks ks' ts h2 hlen hlen' ih
  | setOp d lo hi ht _ _ iha ihb => exact .setOp d lo hi ht iha ihb
  | bool d lo hi _ ih => exact .bool d lo hi ih
  | debool d lo hi _ ih => exact .debool d lo hi ih
  | reduce d lo hi _ ih => exact .reduce d lo hi ih
  | smallpr idx lo hi _ hp ih => exact .smallpr idx lo hi ih hp
  | bigpr idx lo hi _ hp ih => exact .bigpr idx lo hi ih hp
  | pow d lo hi _ hs ih => exact .pow d lo hi ih hs
  | decart d lo hi ks ks' ts h2 hlen hlen' _ ih => exact .decart d lo hi ks ks' ts h2 hlen hlen' ih
  | glob Γ g lo hi h2 hg => exact .glob Γ g lo hi (by omega) hg
  | loc Γ x lo hi h3 hx hσ => exact .loc Γ x lo hi (by omega) hx hσ
  | locPr Γ x nn k lo hi h6 hx hσ => exact .locPr Γ x nn k lo hi (by omega) hx hσ
  | quant d lo hi x dlo dhi h3 ht hx hxg hz _ _ ihd ihb => exact .quant d lo hi x dlo dhi (by omega) ht hx hxg hz ihd ihb
  | decl d lo hi x dlo dhi h3 hx hxg hz _ _ ihd ihb => exact .decl d lo hi x dlo dhi (by omega) hx hxg hz ihd ihb
  | recShort d lo hi x dlo dhi h4 hx hxg hz _ _ ihi ihb => exact .recShort d lo hi x dlo dhi (by omega) hx hxg hz ihi ihb
  | recFull d lo hi x dlo dhi h4 hx hxg hz _ _ _ ihi ihc ihb =>
    exact .recFull d lo hi x dlo dhi (by omega) hx hxg hz ihi ihc ihb
  | imp d lo hi bs h4 hne hn hside _ _ ihb ihv => exact .imp d lo hi bs (by omega) hne hn hside ihb ihv
  | quantEnum d dd lo hi dlo dhi xs h5 ht hlen hnd hfr _ _ ihd ihb =>
    exact .quantEnum d dd lo hi dlo dhi xs (by omega) ht hlen hnd hfr ihd ihb
  | quantTup d lo hi pd plo phi xs nn h6 ht hlen hl2 hnd hfr a1 a2 a3 a4 a5 _ _ ihd ihb =>
    exact .quantTup d lo hi pd plo phi xs nn (by omega) ht hlen hl2 hnd hfr a1 a2 a3 a4 a5 ihd ihb
  | declTup d lo hi pd plo phi xs nn h6 hlen hl2 hnd hfr a1 a2 a3 a4 a5 _ _ ihd ihb =>
    exact .declTup d lo hi pd plo phi xs nn (by omega) hlen hl2 hnd hfr a1 a2 a3 a4 a5 ihd ihb

theorem FragF.mono {G : TCtx} {l1 l2 : Nat} (hl : l1 ≤ l2) {rz : Rz} {Γ : TCtx} {a a' : Ast} {τ : ExprTy}
    (h : FragF env G l1 rz Γ a a' τ) : FragF env G l2 rz Γ a a' τ := by
  induction h with
  | lit Γ n lo hi => exact .lit Γ n lo hi
  | arith d lo hi ht _ _ iha ihb => exact .arith d lo hi ht iha ihb
  | card d lo hi _ ih => exact .card d lo hi ih
  | cmp d lo hi ht _ _ iha ihb => exact .cmp d lo hi ht iha ihb
  | eq d lo hi ht _ _ iha ihb => exact .eq d lo hi ht iha ihb
  | not d lo hi _ ih => exact .not d lo hi ih
  | conn d lo hi ht _ _ iha ihb => exact .conn d lo hi ht iha ihb
  | mem d lo hi ht hb hb' _ _ iha ihb => exact .mem d lo hi ht hb hb' iha ihb
  | memPow d d' lo hi lo' hi' ht _ _ iha ihb => exact .memPow d d' lo hi lo' hi' ht iha ihb
  | sub d lo hi ht _ _ iha ihb => exact .sub d lo hi ht iha ihb
  | empty Γ d lo hi hn => exact .empty Γ d lo hi hn
  | intset Γ d lo hi => exact .intset Γ d lo hi
  | enum d lo hi ks ks' hne hlen _ ih => exact .enum d lo hi ks ks' hne hlen ih
  | tuple d lo hi ks ks' ts h2 hlen hlen' _ ih => exact .tuple d lo hi ks ks' ts h2 hlen hlen' ih
  | setOp d lo hi ht _ _ iha ihb => exact .setOp d lo hi ht iha ihb
  | bool d lo hi _ ih => exact .bool d lo hi ih
  | debool d lo hi _ ih => exact .debool d lo hi ih
  | reduce d lo hi _ ih => exact .reduce d lo hi ih
  | smallpr idx lo hi _ hp ih => exact .smallpr idx lo hi ih hp
  | bigpr idx lo hi _ hp ih => exact .bigpr idx lo hi ih hp
  | pow d lo hi _ hs ih => exact .pow d lo hi ih hs
  | decart d lo hi ks ks' ts h2 hlen hlen' _ ih => exact .decart d lo hi ks ks' ts h2 hlen hlen' ih
  | glob Γ g lo hi h2 hg => exact .glob Γ g lo hi (by omega) hg
  | loc Γ x lo hi h3 hx hσ => exact .loc Γ x lo hi (by omega) hx hσ
  | locPr Γ x nn k lo hi h6 hx hσ => exact .locPr Γ x nn k lo hi (by omega) hx hσ
  | quant d lo hi x dlo dhi h3 ht hx hxg hz _ _ ihd ihb => exact .quant d lo hi x dlo dhi (by omega) ht hx hxg hz ihd ihb
  | decl d lo hi x dlo dhi h3 hx hxg hz _ _ ihd ihb => exact .decl d lo hi x dlo dhi (by omega) hx hxg hz ihd ihb
  | recShort d lo hi x dlo dhi h4 hx hxg hz _ _ ihi ihb => exact .recShort d lo hi x dlo dhi (by omega) hx hxg hz ihi ihb
  | recFull d lo hi x dlo dhi h4 hx hxg hz _ _ _ ihi ihc ihb =>
    exact .recFull d lo hi x dlo dhi (by omega) hx hxg hz ihi ihc ihb
  | imp d lo hi bs h4 hne hn hside _ _ ihb ihv => exact .imp d lo hi bs (by omega) hne hn hside ihb ihv
  | quantEnum d dd lo hi dlo dhi xs h5 ht hlen hnd hfr _ _ ihd ihb =>
    exact .quantEnum d dd lo hi dlo dhi xs (by omega) ht hlen hnd hfr ihd ihb
  | quantTup d lo hi pd plo phi xs nn h6 ht hlen hl2 hnd hfr a1 a2 a3 a4 a5 _ _ ihd ihb =>
    exact .quantTup d lo hi pd plo phi xs nn (by omega) ht hlen hl2 hnd hfr a1 a2 a3 a4 a5 ihd ihb
  | declTup d lo hi pd plo phi xs nn h6 hlen hl2 hnd hfr a1 a2 a3 a4 a5 _ _ ihd ihb =>
    exact .declTup d lo hi pd plo phi xs nn (by omega) hlen hl2 hnd hfr a1 a2 a3 a4 a5 ihd ihb
  | filterT idx lo hi ps ps' τs ts h1 h2 h3 _ _ ihp iha => exact .filterT idx lo hi ps ps' τs ts h1 h2 h3 ihp iha
  | filterC idx lo hi ts h1 h2 _ _ ihp iha => exact .filterC idx lo hi ts h1 h2 ihp iha

/-- **the simulation, with filters** (the cases of `sim` unchanged, plus `sim_filterT` / `sim_filterC`): `a` is an expression of the fragment and `a'` its normal form; on `a'` (all names
have slots: `Covered`), from a state that satisfies the invariant, `ev` returns the value `denote` assigns to
`a` at the evaluator's fuel and at every larger one (well-formed at the type, invariant kept, the iteration
counter not decreased), or fails with the model's `outOfFuel`, or with a documented error -/
theorem simF {G : TCtx} {lvl : Nat} (hG : GlobalsOK env G) (c : Ctx) {rz : Rz} {Γ : TCtx} {a a' : Ast} {τ : ExprTy}
    (h : FragF env G lvl rz Γ a a' τ) : ∀ (fuel : Nat) (p : Option Tok) (st : St) (ρ : LEnv),
    Inv env c rz Γ ρ st → Covered c.ids a' →
    Res env fuel ρ a (fun st' => st'.data = st.data ∧ st.iters ≤ st'.iters) τ (ev c fuel a' p st) := by
  induction h with
  | lit Γ n lo hi =>
    intro fuel p st ρ hinv hcov
    cases fuel with
    | zero => exact Res.zero ..
    | succ f =>
      exact Res.val (ev_lit ..) ⟨rfl, Nat.le_refl _⟩ (WF_int _ _) rfl (by dsucc g hg; exact denote_lit ..)
  | @arith rz Γ t a b a' b' d lo hi ht _ _ iha ihb =>
    intro fuel p st ρ hinv hcov
    cases fuel with
    | zero => exact Res.zero ..
    | succ f =>
      rw [ev_arith ht]
      rcases iha f (some t) st ρ hinv (hcov.kid (by simp)) with ⟨v1, st1, h1, ⟨p1, m1⟩, w1, _, d1⟩ | ⟨fl, k, hb, hf⟩
      · obtain ⟨x, rfl⟩ := WF_Z_isInt w1
        rcases ihb f (some t) st1 ρ (hinv.of_data p1) (hcov.kid (by simp)) with ⟨v2, st2, h2, ⟨p2, m2⟩, w2, _, d2⟩ | ⟨fl, k, hb, hf⟩
        · obtain ⟨y, rfl⟩ := WF_Z_isInt w2
          simp only [h1, h2, R.asInt]
          by_cases hok : int32ok (arithOp t x y) = true
          · simp only [hok, if_true]
            exact Res.val rfl ⟨by rw [p2, p1], by omega⟩ (WF_int _ _) rfl (by
              dsucc g hg; rw [denote_arith ht, d1 g (by omega), d2 g (by omega)]; rfl)
          · simp only [hok]
            exact Res.bad (bad_err _ _ _ (Or.inl rfl))
        · exact Res.bad ⟨fl, k, by simp [h1, hb, R.asInt], hf⟩
      · exact Res.bad ⟨fl, k, by simp [hb, R.asInt], hf⟩
  | @card rz Γ a a' τ d lo hi _ ih =>
    intro fuel p st ρ hinv hcov
    cases fuel with
    | zero => exact Res.zero ..
    | succ f =>
      rw [ev_card]
      rcases ih f (some .CARD) st ρ hinv (hcov.kid (by simp)) with ⟨v1, st1, h1, ⟨p1, m1⟩, w1, _, d1⟩ | ⟨fl, k, hb, hf⟩
      · obtain ⟨xs, rfl⟩ := WF_coll_isSet w1
        simp only [h1, R.asSet]
        exact Res.val rfl ⟨p1, m1⟩ (WF_int _ _) rfl (by dsucc g hg; rw [denote_card, d1 g (by omega)]; rfl)
      · exact Res.bad ⟨fl, k, by simp [hb, R.asSet], hf⟩
  | @cmp rz Γ t a b a' b' d lo hi ht _ _ iha ihb =>
    intro fuel p st ρ hinv hcov
    cases fuel with
    | zero => exact Res.zero ..
    | succ f =>
      rw [ev_intCmp ht]
      rcases iha f (some t) st ρ hinv (hcov.kid (by simp)) with ⟨v1, st1, h1, ⟨p1, m1⟩, w1, _, d1⟩ | ⟨fl, k, hb, hf⟩
      · obtain ⟨x, rfl⟩ := WF_Z_isInt w1
        rcases ihb f (some t) st1 ρ (hinv.of_data p1) (hcov.kid (by simp)) with ⟨v2, st2, h2, ⟨p2, m2⟩, w2, _, d2⟩ | ⟨fl, k, hb, hf⟩
        · obtain ⟨y, rfl⟩ := WF_Z_isInt w2
          simp only [h1, h2, R.asInt]
          exact Res.bool rfl ⟨by rw [p2, p1], by omega⟩ (by
            dsucc g hg; rw [denote_intCmp ht, d1 g (by omega), d2 g (by omega)]; rfl)
        · exact Res.bad ⟨fl, k, by simp [h1, hb, R.asInt], hf⟩
      · exact Res.bad ⟨fl, k, by simp [hb, R.asInt], hf⟩
  | @eq rz Γ t a b a' b' τ d lo hi ht _ _ iha ihb =>
    intro fuel p st ρ hinv hcov
    cases fuel with
    | zero => exact Res.zero ..
    | succ f =>
      rw [ev_eq ht]
      rcases iha f (some t) st ρ hinv (hcov.kid (by simp)) with ⟨v1, st1, h1, ⟨p1, m1⟩, w1, _, d1⟩ | ⟨fl, k, hb, hf⟩
      · rcases ihb f (some t) st1 ρ (hinv.of_data p1) (hcov.kid (by simp)) with ⟨v2, st2, h2, ⟨p2, m2⟩, w2, _, d2⟩ | ⟨fl, k, hb, hf⟩
        · simp only [h1, h2]
          exact Res.bool rfl ⟨by rw [p2, p1], by omega⟩ (by
            dsucc g hg; rw [denote_eq ht, d1 g (by omega), d2 g (by omega)]; simp [dVal, cmp_beq_eq])
        · exact Res.bad ⟨fl, k, by simp [h1, hb], hf⟩
      · exact Res.bad ⟨fl, k, by simp [hb], hf⟩
  | @not rz Γ a a' d lo hi _ ih =>
    intro fuel p st ρ hinv hcov
    cases fuel with
    | zero => exact Res.zero ..
    | succ f =>
      rw [ev_not]
      rcases ih f (some .NOT) st ρ hinv (hcov.kid (by simp)) with ⟨b1, st1, h1, ⟨p1, m1⟩, d1⟩ | ⟨fl, k, hb, hf⟩
      · simp only [h1, R.asBool]
        exact Res.bool rfl ⟨p1, m1⟩ (by dsucc g hg; rw [denote_not, d1 g (by omega)]; rfl)
      · exact Res.bad ⟨fl, k, by simp [hb, R.asBool], hf⟩
  | @conn rz Γ t a b a' b' d lo hi ht _ _ iha ihb =>
    intro fuel p st ρ hinv hcov
    cases fuel with
    | zero => exact Res.zero ..
    | succ f =>
      rw [ev_conn ht]
      rcases iha f (some t) st ρ hinv (hcov.kid (by simp)) with ⟨b1, st1, h1, ⟨p1, m1⟩, d1⟩ | ⟨fl, k, hb, hf⟩
      · simp only [h1, R.asBool]
        by_cases hs1 : ((t == .AND && !b1) || (t == .OR && b1)) = true
        · simp only [hs1, if_true]
          exact Res.bool rfl ⟨p1, m1⟩ (by
            dsucc g hg; rw [denote_conn ht, d1 g (by omega)]; simp only [dBool]; rw [kConn_short ht b1 _ hs1]; rfl)
        · simp only [hs1, Bool.false_eq_true, if_false]
          by_cases hs2 : (t == .IMPLICATION && !b1) = true
          · simp only [hs2, if_true]
            exact Res.bool rfl ⟨p1, m1⟩ (by
              dsucc g hg; rw [denote_conn ht, d1 g (by omega)]; simp only [dBool]; rw [kConn_short_imp ht b1 _ hs2]; rfl)
          · simp only [hs2, Bool.false_eq_true, if_false]
            rcases ihb f (some t) st1 ρ (hinv.of_data p1) (hcov.kid (by simp)) with ⟨b2, st2, h2, ⟨p2, m2⟩, d2⟩ | ⟨fl, k, hb, hf⟩
            · simp only [h2]
              exact Res.bool rfl ⟨by rw [p2, p1], by omega⟩ (by
                dsucc g hg; rw [denote_conn ht, d1 g (by omega), d2 g (by omega)]; simp only [dBool]
                rw [kConn_full ht]; rfl)
            · exact Res.bad ⟨fl, k, by simp [hb], hf⟩
      · exact Res.bad ⟨fl, k, by simp [hb, R.asBool], hf⟩
  | @mem rz Γ t a b a' b' τ d lo hi ht hbid hbid' _ _ iha ihb =>
    intro fuel p st ρ hinv hcov
    cases fuel with
    | zero => exact Res.zero ..
    | succ f =>
      rw [ev_mem ht _ _ _ _ _ _ _ hbid']
      rcases iha f (some t) st ρ hinv (hcov.kid (by simp)) with ⟨v1, st1, h1, ⟨p1, m1⟩, w1, n1, d1⟩ | ⟨fl, k, hb, hf⟩
      · rcases ihb f (some t) st1 ρ (hinv.of_data p1) (hcov.kid (by simp)) with ⟨v2, st2, h2, ⟨p2, m2⟩, w2, _, d2⟩ | ⟨fl, k, hb, hf⟩
        · obtain ⟨ys, rfl⟩ := WF_coll_isSet w2
          simp only [h1, h2, R.asVal, R.asSet]
          exact Res.bool rfl ⟨by rw [p2, p1], by omega⟩ (by
            dsucc g hg
            rw [denote_mem ht _ _ _ _ _ _ _ _ hbid, d1 g (by omega), d2 g (by omega)]
            simp [dVal, dSet, members, mem_agrees_WF n1 w1 w2])
        · exact Res.bad ⟨fl, k, by simp [h1, hb, R.asVal, R.asSet], hf⟩
      · exact Res.bad ⟨fl, k, by simp [hb, R.asVal], hf⟩
  | @memPow rz Γ t a b a' b' τ d d' lo hi lo' hi' ht _ _ iha ihb =>
    intro fuel p st ρ hinv hcov
    cases fuel with
    | zero => exact Res.zero ..
    | succ f =>
      rw [ev_memPow ht]
      have hcb : Covered c.ids b' := (hcov.kid (k := .node .BOOLEAN d' lo' hi' [b']) (by simp)).kid (by simp)
      rcases iha f (some t) st ρ hinv (hcov.kid (by simp)) with ⟨v1, st1, h1, ⟨p1, m1⟩, w1, n1, d1⟩ | ⟨fl, k, hb, hf⟩
      · rcases ihb f (some .BOOLEAN) st1 ρ (hinv.of_data p1) hcb with ⟨v2, st2, h2, ⟨p2, m2⟩, w2, _, d2⟩ | ⟨fl, k, hb, hf⟩
        · obtain ⟨xs, rfl⟩ := WF_coll_isSet w1
          obtain ⟨base, rfl⟩ := WF_coll_isSet w2
          simp only [h1, h2, R.asVal]
          split
          · exact Res.bad (bad_err _ _ _ (Or.inr (Or.inl rfl)))
          · exact Res.bool rfl ⟨by rw [p2, p1], by omega⟩ (by
              dsucc g hg
              rw [denote_memPow ht, d1 g (by omega), d2 g (by omega)]
              simp [dVal, dSet, members, subsetEq_agrees_WF (by simpa [noAny_coll] using n1) w1 w2])
        · exact Res.bad ⟨fl, k, by simp [h1, hb, R.asVal], hf⟩
      · exact Res.bad ⟨fl, k, by simp [hb, R.asVal], hf⟩
  | @sub rz Γ t a b a' b' τ d lo hi ht _ _ iha ihb =>
    intro fuel p st ρ hinv hcov
    cases fuel with
    | zero => exact Res.zero ..
    | succ f =>
      rw [ev_sub ht]
      rcases iha f (some t) st ρ hinv (hcov.kid (by simp)) with ⟨v1, st1, h1, ⟨p1, m1⟩, w1, n1, d1⟩ | ⟨fl, k, hb, hf⟩
      · rcases ihb f (some t) st1 ρ (hinv.of_data p1) (hcov.kid (by simp)) with ⟨v2, st2, h2, ⟨p2, m2⟩, w2, _, d2⟩ | ⟨fl, k, hb, hf⟩
        · obtain ⟨xs, rfl⟩ := WF_coll_isSet w1
          obtain ⟨ys, rfl⟩ := WF_coll_isSet w2
          simp only [h1, h2, R.asVal]
          rw [ev_sub_res]
          exact Res.bool rfl ⟨by rw [p2, p1], by omega⟩ (by
            dsucc g hg
            rw [denote_sub ht, d1 g (by omega), d2 g (by omega)]
            simp [dVal, dSet, members, sub_agrees ht (by simpa [noAny_coll] using n1) w1 w2])
        · exact Res.bad ⟨fl, k, by simp [h1, hb, R.asVal], hf⟩
      · exact Res.bad ⟨fl, k, by simp [hb, R.asVal], hf⟩
  | @empty rz Γ τ d lo hi hn =>
    intro fuel p st ρ hinv hcov
    cases fuel with
    | zero => exact Res.zero ..
    | succ f =>
      exact Res.val (ev_empty ..) ⟨rfl, Nat.le_refl _⟩ (WF_empty τ) (by simpa [noAny_coll] using hn)
        (by dsucc g hg; exact denote_empty ..)
  | intset Γ d lo hi =>
    intro fuel p st ρ hinv hcov
    cases fuel with
    | zero => exact Res.zero ..
    | succ f =>
      rw [ev_intset]
      exact Res.bad (bad_err _ _ _ (Or.inr (Or.inr (Or.inr (Or.inr (Or.inr rfl))))))
  | @enum rz Γ τ d lo hi ks ks' hne hlen _ ih =>
    intro fuel p st ρ hinv hcov
    cases fuel with
    | zero => exact Res.zero ..
    | succ f =>
      rw [ev_enum]
      have hk1 : (ks.zip ks').map (·.1) = ks := by rw [List.map_fst_zip]; omega
      have hk2 : (ks.zip ks').map (·.2) = ks' := by rw [List.map_snd_zip]; omega
      have hne' : ks.zip ks' ≠ [] := by
        intro e
        have : (ks.zip ks').length = 0 := by rw [e]; rfl
        rw [List.length_zip] at this
        cases ks with
        | nil => exact hne rfl
        | cons _ _ => simp at hlen; simp [← hlen] at this
      rcases evKids_sim_hom c rz Γ ρ f .NT_ENUMERATION τ (ks.zip ks')
          (fun q hq st' hp' => ih q hq f (some .NT_ENUMERATION) st' ρ hp'
            (hcov.kid (List.of_mem_zip hq).2)) [] st hinv with
        ⟨vs, st1, h1, p1, m1, w1, n1, d1⟩ | ⟨fl, k, hb, hf⟩
      · rw [hk2] at h1
        simp only [h1, List.nil_append]
        exact Res.val rfl ⟨p1, m1⟩ (mkSet_WF w1) (by simpa [noAny_coll] using n1 hne') (by
          dsucc g hg
          have := d1 g (by omega)
          rw [hk1] at this
          rw [denote_enum, this]; rfl)
      · rw [hk2] at hb
        exact Res.bad ⟨fl, k, by simp [hb], hf⟩
  | @tuple rz Γ d lo hi ks ks' ts hl2 hlen hlen' _ ih =>
    intro fuel p st ρ hinv hcov
    cases fuel with
    | zero => exact Res.zero ..
    | succ f =>
      rw [ev_tuple]
      have hz : (ks.zip ks').length = ks.length := by rw [List.length_zip]; omega
      have hk0 : ((ks.zip ks').zip ts).map (·.1) = ks.zip ks' := by rw [List.map_fst_zip]; omega
      have hk1 : ((ks.zip ks').zip ts).map (·.1.1) = ks := by
        have : ((ks.zip ks').zip ts).map (·.1.1) = (((ks.zip ks').zip ts).map (·.1)).map (·.1) := by
          rw [List.map_map]; rfl
        rw [this, hk0, List.map_fst_zip]; omega
      have hk1' : ((ks.zip ks').zip ts).map (·.1.2) = ks' := by
        have : ((ks.zip ks').zip ts).map (·.1.2) = (((ks.zip ks').zip ts).map (·.1)).map (·.2) := by
          rw [List.map_map]; rfl
        rw [this, hk0, List.map_snd_zip]; omega
      have hk2 : ((ks.zip ks').zip ts).map (·.2) = ts := by rw [List.map_snd_zip]; omega
      rcases evKids_sim_het c rz Γ ρ f .NT_TUPLE ((ks.zip ks').zip ts)
          (fun q hq st' hp' => ih q hq f (some .NT_TUPLE) st' ρ hp'
            (hcov.kid (List.of_mem_zip (List.of_mem_zip hq).1).2)) [] st hinv with
        ⟨vs, st1, h1, p1, m1, w1, d1⟩ | ⟨fl, k, hb, hf⟩
      · rw [hk1'] at h1
        rw [hk2] at w1
        obtain ⟨wfs, hna⟩ := forall₂_WFs w1
        have hvl : vs.length ≥ 2 := by rw [WFs_length wfs]; omega
        obtain ⟨e, w⟩ := mkTuple_WF wfs hvl
        simp only [h1, List.nil_append, e]
        refine Res.val rfl ⟨p1, m1⟩ w (by simpa [noAny_tuple] using hna) ?_
        dsucc g hg
        have := d1 g (by omega)
        rw [hk1] at this
        rw [denote_tuple, this]
        match vs, hvl with
        | _ :: _ :: _, _ => rfl
      · rw [hk1'] at hb
        exact Res.bad ⟨fl, k, by simp [hb], hf⟩
  | @setOp rz Γ t a b a' b' τ d lo hi ht _ _ iha ihb =>
    intro fuel p st ρ hinv hcov
    cases fuel with
    | zero => exact Res.zero ..
    | succ f =>
      rw [ev_setOp ht]
      rcases iha f (some t) st ρ hinv (hcov.kid (by simp)) with ⟨v1, st1, h1, ⟨p1, m1⟩, w1, n1, d1⟩ | ⟨fl, k, hb, hf⟩
      · rcases ihb f (some t) st1 ρ (hinv.of_data p1) (hcov.kid (by simp)) with ⟨v2, st2, h2, ⟨p2, m2⟩, w2, _, d2⟩ | ⟨fl, k, hb, hf⟩
        · obtain ⟨xs, rfl⟩ := WF_coll_isSet w1
          obtain ⟨ys, rfl⟩ := WF_coll_isSet w2
          simp only [h1, h2, R.asVal]
          exact Res.val rfl ⟨by rw [p2, p1], by omega⟩ (setOp_WF w1 w2) n1 (by
            dsucc g hg
            rw [denote_setOp ht, d1 g (by omega), d2 g (by omega)]
            simp [dVal, dSet, members, setOp_agrees ht (by simpa [noAny_coll] using n1) w1 w2])
        · exact Res.bad ⟨fl, k, by simp [h1, hb, R.asVal], hf⟩
      · exact Res.bad ⟨fl, k, by simp [hb, R.asVal], hf⟩
  | @bool rz Γ a a' τ d lo hi _ ih =>
    intro fuel p st ρ hinv hcov
    cases fuel with
    | zero => exact Res.zero ..
    | succ f =>
      rw [ev_bool]
      rcases ih f (some .BOOL) st ρ hinv (hcov.kid (by simp)) with ⟨v1, st1, h1, ⟨p1, m1⟩, w1, n1, d1⟩ | ⟨fl, k, hb, hf⟩
      · simp only [h1, R.asVal]
        exact Res.val rfl ⟨p1, m1⟩ (singleton_WF w1) (by simpa [noAny_coll] using n1) (by
          dsucc g hg; rw [denote_bool, d1 g (by omega)]; simp [dVal, setOf_singleton])
      · exact Res.bad ⟨fl, k, by simp [hb, R.asVal], hf⟩
  | @debool rz Γ a a' τ d lo hi _ ih =>
    intro fuel p st ρ hinv hcov
    cases fuel with
    | zero => exact Res.zero ..
    | succ f =>
      rw [ev_debool]
      rcases ih f (some .DEBOOL) st ρ hinv (hcov.kid (by simp)) with ⟨v1, st1, h1, ⟨p1, m1⟩, w1, n1, d1⟩ | ⟨fl, k, hb, hf⟩
      · obtain ⟨xs, rfl⟩ := WF_coll_isSet w1
        simp only [h1, R.asSet]
        match xs, w1, d1 with
        | [], _, _ => exact Res.bad (bad_err _ _ _ (Or.inr (Or.inr (Or.inr (Or.inr (Or.inl rfl))))))
        | [x], w1, d1 =>
          exact Res.val rfl ⟨p1, m1⟩ (w1.mem (by simp)) (by simpa [noAny_coll] using n1) (by
            dsucc g hg; rw [denote_debool, d1 g (by omega)]; rfl)
        | _ :: _ :: _, _, _ => exact Res.bad (bad_err _ _ _ (Or.inr (Or.inr (Or.inr (Or.inr (Or.inl rfl))))))
      · exact Res.bad ⟨fl, k, by simp [hb, R.asSet], hf⟩
  | @reduce rz Γ a a' τ d lo hi _ ih =>
    intro fuel p st ρ hinv hcov
    cases fuel with
    | zero => exact Res.zero ..
    | succ f =>
      rw [ev_reduce]
      rcases ih f (some .REDUCE) st ρ hinv (hcov.kid (by simp)) with ⟨v1, st1, h1, ⟨p1, m1⟩, w1, n1, d1⟩ | ⟨fl, k, hb, hf⟩
      · obtain ⟨xs, rfl⟩ := WF_coll_isSet w1
        obtain ⟨r, hr, wr, dr⟩ := reduce_WF w1
        simp only [h1, R.asSet, hr]
        exact Res.val rfl ⟨p1, m1⟩ wr (by simpa [noAny_coll] using n1) (by
          dsucc g hg
          rw [denote_reduce, d1 g (by omega)]
          show Option.map SemVal.val (Option.map (fun ls => setOf ls.flatten) (List.mapM members xs)) = _
          rw [dr]; rfl)
      · exact Res.bad ⟨fl, k, by simp [hb, R.asSet], hf⟩
  | @smallpr rz Γ a a' ts τ idx lo hi _ hp ih =>
    intro fuel p st ρ hinv hcov
    cases fuel with
    | zero => exact Res.zero ..
    | succ f =>
      rw [ev_smallpr]
      rcases ih f (some .SMALLPR) st ρ hinv (hcov.kid (by simp)) with ⟨v1, st1, h1, ⟨p1, m1⟩, w1, n1, d1⟩ | ⟨fl, k, hb, hf⟩
      · obtain ⟨r, hr, wr⟩ := project_WF w1 hp
        simp only [h1, R.asVal, hr]
        exact Res.val rfl ⟨p1, m1⟩ wr (projTy_noAny (by simpa [noAny_tuple] using n1) hp) (by
          dsucc g hg
          rw [denote_smallpr, d1 g (by omega)]
          show Option.map SemVal.val (select v1 idx) = _
          rw [← project_eq_select, hr]; rfl)
      · exact Res.bad ⟨fl, k, by simp [hb, R.asVal], hf⟩
  | @bigpr rz Γ a a' ts τ idx lo hi _ hp ih =>
    intro fuel p st ρ hinv hcov
    cases fuel with
    | zero => exact Res.zero ..
    | succ f =>
      rw [ev_bigpr]
      rcases ih f (some .BIGPR) st ρ hinv (hcov.kid (by simp)) with ⟨v1, st1, h1, ⟨p1, m1⟩, w1, n1, d1⟩ | ⟨fl, k, hb, hf⟩
      · obtain ⟨xs, rfl⟩ := WF_coll_isSet w1
        obtain ⟨r, hr, wr, dr⟩ := projSet_WF w1 hp
        simp only [h1, R.asSet, hr]
        exact Res.val rfl ⟨p1, m1⟩ wr (by
            have : noAnyList ts = true := by simpa [noAny_coll, noAny_tuple] using n1
            simpa [noAny_coll] using projTy_noAny this hp) (by
          dsucc g hg
          rw [denote_bigpr, d1 g (by omega)]
          show Option.map SemVal.val (Option.map setOf (List.mapM (fun x => select x idx) xs)) = _
          rw [dr]; rfl)
      · exact Res.bad ⟨fl, k, by simp [hb, R.asSet], hf⟩
  | @pow rz Γ a a' τ d lo hi _ hsmall ih =>
    intro fuel p st ρ hinv hcov
    cases fuel with
    | zero => exact Res.zero ..
    | succ f =>
      rw [ev_boolean]
      rcases ih f (some .BOOLEAN) st ρ hinv (hcov.kid (by simp)) with ⟨v1, st1, h1, ⟨p1, m1⟩, w1, n1, d1⟩ | ⟨fl, k, hb, hf⟩
      · obtain ⟨xs, rfl⟩ := WF_coll_isSet w1
        have hlen : xs.length ≤ POW_BOUND := hsmall f ρ xs (d1 f (Nat.le_refl _))
        have wx := WF_set_iff.mp w1
        have hn : noAny τ = true := by simpa [noAny_coll] using n1
        -- the reference bound is within the model's enumeration limit, which is below the boolean limit
        have b1 : POW_BOUND ≤ POW_LIMIT := by decide
        have b2 : POW_LIMIT < Val.BOOL_INFINITY := by decide
        have c1 : ¬ (xs.length ≥ Val.BOOL_INFINITY) := by omega
        have c2 : ¬ (xs.length > POW_LIMIT) := by omega
        simp only [h1, R.asSet, c1, c2, decide_false, Bool.and_false, Bool.false_eq_true, if_false]
        refine Res.val rfl ⟨p1, m1⟩ ⟨pow_hasTy xs τ wx.1, pow_canon xs wx.2.1 wx.2.2⟩ (by simpa [noAny_coll] using hn) ?_
        dsucc g hg
        rw [denote_boolean, d1 g (by omega)]
        have c3 : ¬ (xs.length > POW_BOUND) := by omega
        simp only [dSet, dVal, members, Option.bind_some, c3, if_false]
        rw [pow_agrees xs τ hn wx.1 wx.2.2]
      · exact Res.bad ⟨fl, k, by simp [hb, R.asSet], hf⟩
  | @decart rz Γ d lo hi ks ks' ts hl2 hlen hlen' _ ih =>
    intro fuel p st ρ hinv hcov
    cases fuel with
    | zero => exact Res.zero ..
    | succ f =>
      rw [ev_decart]
      let kts : List ((Ast × Ast) × Ty) := ((ks.zip ks').zip ts).map (fun q => (q.1, Ty.coll q.2))
      have hk0 : ((ks.zip ks').zip ts).map (·.1) = ks.zip ks' := by
        rw [List.map_fst_zip]; rw [List.length_zip]; omega
      have hk1 : kts.map (·.1.1) = ks := by
        show (((ks.zip ks').zip ts).map (fun q => (q.1, Ty.coll q.2))).map (·.1.1) = ks
        rw [List.map_map]
        have : ((ks.zip ks').zip ts).map ((·.1.1) ∘ fun q => (q.1, Ty.coll q.2)) =
            (((ks.zip ks').zip ts).map (·.1)).map (·.1) := by rw [List.map_map]; rfl
        rw [this, hk0, List.map_fst_zip]; omega
      have hk1' : kts.map (·.1.2) = ks' := by
        show (((ks.zip ks').zip ts).map (fun q => (q.1, Ty.coll q.2))).map (·.1.2) = ks'
        rw [List.map_map]
        have : ((ks.zip ks').zip ts).map ((·.1.2) ∘ fun q => (q.1, Ty.coll q.2)) =
            (((ks.zip ks').zip ts).map (·.1)).map (·.2) := by rw [List.map_map]; rfl
        rw [this, hk0, List.map_snd_zip]; omega
      have hk2 : kts.map (·.2) = ts.map Ty.coll := by
        show (((ks.zip ks').zip ts).map (fun q => (q.1, Ty.coll q.2))).map (·.2) = ts.map Ty.coll
        rw [List.map_map]
        have : ((ks.zip ks').zip ts).map ((·.2) ∘ fun q => (q.1, Ty.coll q.2)) =
            (((ks.zip ks').zip ts).map (·.2)).map Ty.coll := by rw [List.map_map]; rfl
        rw [this, List.map_snd_zip]; rw [List.length_zip]; omega
      rcases evKids_sim_het c rz Γ ρ f .DECART kts
          (fun q hq st' hp' => by
            obtain ⟨q0, hq0, rfl⟩ := List.mem_map.mp hq
            exact ih q0 hq0 f (some .DECART) st' ρ hp' (hcov.kid (List.of_mem_zip (List.of_mem_zip hq0).1).2)) [] st hinv with
        ⟨vs, st1, h1, p1, m1, w1, d1⟩ | ⟨fl, k, hb, hf⟩
      · rw [hk1'] at h1
        rw [hk2] at w1
        obtain ⟨fs, rfl, hty, hcan, hsor, hna⟩ := forall₂_sets w1
        have hfl : fs.length ≥ 2 := by
          have := List.Forall₂.length_eq hty; omega
        simp only [h1, List.nil_append, allSome_sets]
        have hden : ∀ g, f ≤ g → denote (senvOf env) (g + 1) ρ (.node .DECART d lo hi ks) =
            (if (fs.foldl (fun n f => n * f.length) 1) > PROD_BOUND then none
             else some (.val (setOf ((tuples fs).map Val.t)))) := by
          intro g hg
          have := d1 g hg
          rw [hk1] at this
          rw [denote_decart, mapM_dSet_of_dVal this]
        have hnt : noAny (.coll (.tuple ts)) = true := by simpa [noAny_coll, noAny_tuple] using hna
        by_cases hemp : fs.any (·.isEmpty) = true
        · simp only [hemp, if_true]
          refine Res.val rfl ⟨p1, m1⟩ (WF_empty _) hnt ?_
          dsucc g hg
          rw [hden g (by omega), prod_foldl_of_empty fs 1 hemp, tuples_of_empty fs hemp]
          simp [PROD_BOUND, setOf, mkSet, mkSetList, insertAll]
        · simp only [hemp, Bool.false_eq_true, if_false]
          by_cases hinf : (Val.prodCard fs == Val.SET_INFINITY) = true
          · simp only [hinf, if_true]
            exact Res.bad (bad_err _ _ _ (Or.inl rfl))
          · simp only [hinf, Bool.false_eq_true, if_false]
            by_cases hbig : Val.prodCard fs > PROD_LIMIT
            · simp only [hbig, if_true]
              exact Res.bad (bad_outOfFuel _)
            · simp only [hbig, if_false]
              refine Res.val rfl ⟨p1, m1⟩ ⟨prod_hasTy fs ts hty, prod_canon fs hfl hcan hsor⟩ hnt ?_
              have hpc := prodCard_eq fs (by simpa using hinf)
              have : ¬ (fs.foldl (fun n f => n * f.length) 1 > PROD_BOUND) := by
                rw [← hpc]; simpa [PROD_LIMIT, PROD_BOUND] using hbig
              dsucc g hg
              rw [hden g (by omega), if_neg this, prod_agrees fs ts hna hty hsor]
      · rw [hk1'] at hb
        exact Res.bad ⟨fl, k, by simp [hb], hf⟩
  | @glob rz Γ τ g lo hi _ hg =>
    intro fuel p st ρ hinv hcov
    cases fuel with
    | zero => exact Res.zero ..
    | succ f =>
      rw [ev_ident (Or.inr rfl)]
      obtain ⟨i, hi⟩ := hcov g (by simp [names, namesKids, tok_beq])
      obtain ⟨hn, v, hv, wv⟩ := hG g τ hg
      simp only [hi, hinv.glob g v i hv hi]
      exact Res.val rfl ⟨rfl, Nat.le_refl _⟩ wv hn (by
        dsucc g' hg'
        rw [denote_global, assoc_eq_lookup]
        show Option.map SemVal.val (lookup g env.globals) = _
        rw [hv]; rfl)
  | @loc rz Γ τ x lo hi _ hx hxσ =>
    intro fuel p st ρ hinv hcov
    cases fuel with
    | zero => exact Res.zero ..
    | succ f =>
      rw [ev_ident (Or.inl rfl)]
      obtain ⟨i, hi⟩ := hcov x (by simp [names, namesKids, tok_beq])
      obtain ⟨_, hn, v, hfind, wv, hslot⟩ := hinv.loc x τ hx
      unfold Holds at hslot
      rw [hxσ] at hslot
      simp only [hi, hslot i hi]
      exact Res.val rfl ⟨rfl, Nat.le_refl _⟩ wv hn (by dsucc g hg; rw [denote_local, hfind])
  | @quant rz Γ t dom body dom' body' τ d lo hi x dlo dhi _ ht hxΓ hxg hxz _ _ ihd ihb =>
    intro fuel p st ρ hinv hcov
    cases fuel with
    | zero => exact Res.zero ..
    | succ f =>
      rw [ev_quant ht]
      obtain ⟨var, hvar⟩ := hcov x (names_kid (k := .node .ID_LOCAL (.text x) dlo dhi []) (by simp)
        (by simp [names, namesKids, tok_beq]))
      rcases ihd f (some t) st ρ hinv (hcov.kid (by simp)) with ⟨v1, st1, h1, ⟨p1, m1⟩, w1, n1, d1⟩ | ⟨fl, k, hb, hf⟩
      · obtain ⟨xs, rfl⟩ := WF_coll_isSet w1
        have hn : noAny τ = true := by simpa [noAny_coll] using n1
        have hinv1 := hinv.of_data p1
        obtain ⟨saved, hsaved⟩ := slot_some (hinv1.range x var hvar)
        simp only [h1, R.asSet, hvar, hsaved]
        rcases quantLoop_sim (ι := { g : Nat // f ≤ g }) (fun s => s.data.set var saved = st1.data ∧ st.iters ≤ s.iters)
            (fun st => ev c f body' (some t) st)
            (fun i v => dBool (denote (senvOf env) i.1 (.val x v ρ) body)) var (t == .FORALL) lo xs
            (fun v hv st' hp' => by
              have hinvs : Inv env c rz Γ ρ st' := hinv1.of_set hxΓ hxg hxz hvar hp'.1
              rcases ihb f (some t) { data := st'.data.set var v, iters := st'.iters + 1 } (.val x v ρ)
                  (hinvs.bind _ hxΓ hxg hxz hvar hn (w1.mem hv)) (hcov.kid (by simp)) with
                ⟨b, st'', hb, ⟨hp'', hm''⟩, hd⟩ | hbad
              · exact Or.inl ⟨b, st'', hb, ⟨by rw [hp'']; simp only [List.set_set]; exact hp'.1,
                  by have := hp'.2; simp at hm''; omega⟩, fun i => by rw [hd i.1 i.2]; rfl⟩
              · exact Or.inr hbad) st1 ⟨set_self _ _ _ hsaved, m1⟩ with
          ⟨b, st2, h2, ⟨p2, m2⟩, hk⟩ | hbad
        · rw [h2]
          exact Res.bool rfl ⟨by show st2.data.set var saved = st.data; rw [p2, p1], m2⟩ (by
            dsucc g hg
            rw [denote_quant ht, d1 g (by omega)]
            simp only [dSet, dVal, members, Option.bind_some]
            rw [hk ⟨g, by omega⟩]; rfl)
        · exact Res.bad (by obtain ⟨fl, k, hb, hf⟩ := hbad; exact ⟨fl, k, by rw [hb]; rfl, hf⟩)
      · exact Res.bad ⟨fl, k, by simp [hb, R.asSet], hf⟩
  | @decl rz Γ dom body dom' body' τ d lo hi x dlo dhi _ hxΓ hxg hxz _ _ ihd ihb =>
    intro fuel p st ρ hinv hcov
    cases fuel with
    | zero => exact Res.zero ..
    | succ f =>
      rw [ev_decl]
      obtain ⟨var, hvar⟩ := hcov x (names_kid (k := .node .ID_LOCAL (.text x) dlo dhi []) (by simp)
        (by simp [names, namesKids, tok_beq]))
      rcases ihd f (some .NT_DECLARATIVE_EXPR) st ρ hinv (hcov.kid (by simp)) with
        ⟨v1, st1, h1, ⟨p1, m1⟩, w1, n1, d1⟩ | ⟨fl, k, hb, hf⟩
      · obtain ⟨xs, rfl⟩ := WF_coll_isSet w1
        have hn : noAny τ = true := by simpa [noAny_coll] using n1
        have hinv1 := hinv.of_data p1
        obtain ⟨saved, hsaved⟩ := slot_some (hinv1.range x var hvar)
        simp only [h1, R.asSet, hvar, hsaved]
        rcases declLoop_sim (ι := { g : Nat // f ≤ g }) (fun s => s.data.set var saved = st1.data ∧ st.iters ≤ s.iters)
            (fun st => ev c f body' (some .NT_DECLARATIVE_EXPR) st)
            (fun i v => dBool (denote (senvOf env) i.1 (.val x v ρ) body)) var lo τ xs (fun v hv => w1.mem hv)
            (fun v hv st' hp' => by
              have hinvs : Inv env c rz Γ ρ st' := hinv1.of_set hxΓ hxg hxz hvar hp'.1
              rcases ihb f (some .NT_DECLARATIVE_EXPR) { data := st'.data.set var v, iters := st'.iters + 1 } (.val x v ρ)
                  (hinvs.bind _ hxΓ hxg hxz hvar hn (w1.mem hv)) (hcov.kid (by simp)) with
                ⟨b, st'', hb, ⟨hp'', hm''⟩, hd⟩ | hbad
              · exact Or.inl ⟨b, st'', hb, ⟨by rw [hp'']; simp only [List.set_set]; exact hp'.1,
                  by have := hp'.2; simp at hm''; omega⟩, fun i => by rw [hd i.1 i.2]; rfl⟩
              · exact Or.inr hbad) [] st1 ⟨set_self _ _ _ hsaved, m1⟩ (WF_empty τ) with
          ⟨flags, st2, h2, ⟨p2, m2⟩, wf2, hm⟩ | hbad
        · rw [h2]
          exact Res.val rfl ⟨by show st2.data.set var saved = st.data; rw [p2, p1], m2⟩ wf2 n1 (by
            dsucc g hg
            rw [denote_decl, d1 g (by omega)]
            simp only [dSet, dVal, members, Option.bind_some]
            rw [hm ⟨g, by omega⟩]; rfl)
        · exact Res.bad (by obtain ⟨fl, k, hb, hf⟩ := hbad; exact ⟨fl, k, by rw [hb]; rfl, hf⟩)
      · exact Res.bad ⟨fl, k, by simp [hb, R.asSet], hf⟩
  | @recShort rz Γ init body init' body' τ d lo hi x dlo dhi _ hxΓ hxg hxz _ _ ihi ihb =>
    intro fuel p st ρ hinv hcov
    cases fuel with
    | zero => exact Res.zero ..
    | succ f =>
      rw [ev_recShort]
      obtain ⟨var, hvar⟩ := hcov x (names_kid (k := .node .ID_LOCAL (.text x) dlo dhi []) (by simp)
        (by simp [names, namesKids, tok_beq]))
      rcases ihi f (some .NT_RECURSIVE_SHORT) st ρ hinv (hcov.kid (by simp)) with
        ⟨v1, st1, h1, ⟨p1, m1⟩, w1, n1, d1⟩ | ⟨fl, k, hb, hf⟩
      · have hinv1 := hinv.of_data p1
        obtain ⟨saved, hsaved⟩ := slot_some (hinv1.range x var hvar)
        simp only [h1, R.asVal, hvar, hsaved]
        rcases recLoop_sim (ι := { g : Nat // f ≤ g }) (fun s => s.data.set var saved = st1.data)
            (fun cur s => Inv env c rz ((x, τ) :: Γ) (.val x cur ρ) s ∧ s.data.set var saved = st1.data)
            none (fun st => ev c f body' (some .NT_RECURSIVE_SHORT) st)
            (fun _ _ => some true) (fun i cur => dVal (denote (senvOf env) i.1 (.val x cur ρ) body)) var lo τ
            (fun cur st' n hw hp => ⟨(hinv1.of_set hxΓ hxg hxz hvar hp).bind n hxΓ hxg hxz hvar n1 hw,
              by simp only [List.set_set]; exact hp⟩)
            (fun cur st' hp => hp.2)
            (fun cur st' hp => by
              obtain ⟨_, _, v, hf', _, hs⟩ := hp.1.loc x τ (lookup_cons_self x τ Γ)
              rw [find_val_self] at hf'
              injection hf' with hf'; injection hf' with hf'; subst hf'
              unfold Holds at hs
              rw [hinv1.sigma_none hxΓ] at hs
              exact hs var hvar)
            (fun c' hc => by cases hc)
            (fun _ _ _ => rfl)
            (fun cur st' hw hp => by
              rcases ihb f (some .NT_RECURSIVE_SHORT) st' (.val x cur ρ) hp.1 (hcov.kid (by simp)) with
                ⟨nxt, st'', hb, ⟨hp'', hm''⟩, w, _, hd⟩ | hbad
              · exact Or.inl ⟨nxt, st'', hb, ⟨hp.1.of_data hp'', by rw [hp'']; exact hp.2⟩, hm'', w,
                  fun i => by rw [hd i.1 i.2]; rfl⟩
              · exact Or.inr hbad)
            (MAX_ITERATIONS + 2) REC_BOUND v1 st1 w1 (set_self _ _ _ hsaved) (by have := rec_bound_eq; omega) with
          ⟨r, st2, h2, p2, m2, w2, hk⟩ | hbad
        · rw [h2]
          exact Res.val rfl ⟨by show st2.data.set var saved = st.data; rw [p2, p1], by show st.iters ≤ st2.iters; omega⟩ w2 n1 (by
            dsucc g hg
            rw [denote_recShort, d1 g (by omega)]
            show Option.map SemVal.val (recSem _ _ REC_BOUND v1) = _
            rw [hk ⟨g, hg⟩]; rfl)
        · exact Res.bad (by obtain ⟨fl, k, hb, hf⟩ := hbad; exact ⟨fl, k, by rw [hb]; rfl, hf⟩)
      · exact Res.bad ⟨fl, k, by simp [hb, R.asVal], hf⟩
  | @recFull rz Γ init cond body init' cond' body' τ d lo hi x dlo dhi _ hxΓ hxg hxz _ _ _ ihi ihc ihb =>
    intro fuel p st ρ hinv hcov
    cases fuel with
    | zero => exact Res.zero ..
    | succ f =>
      rw [ev_recFull]
      obtain ⟨var, hvar⟩ := hcov x (names_kid (k := .node .ID_LOCAL (.text x) dlo dhi []) (by simp)
        (by simp [names, namesKids, tok_beq]))
      rcases ihi f (some .NT_RECURSIVE_FULL) st ρ hinv (hcov.kid (by simp)) with
        ⟨v1, st1, h1, ⟨p1, m1⟩, w1, n1, d1⟩ | ⟨fl, k, hb, hf⟩
      · have hinv1 := hinv.of_data p1
        obtain ⟨saved, hsaved⟩ := slot_some (hinv1.range x var hvar)
        simp only [h1, R.asVal, hvar, hsaved]
        rcases recLoop_sim (ι := { g : Nat // f ≤ g }) (fun s => s.data.set var saved = st1.data)
            (fun cur s => Inv env c rz ((x, τ) :: Γ) (.val x cur ρ) s ∧ s.data.set var saved = st1.data)
            (some fun st => ev c f cond' (some .NT_RECURSIVE_FULL) st) (fun st => ev c f body' (some .NT_RECURSIVE_FULL) st)
            (fun i cur => dBool (denote (senvOf env) i.1 (.val x cur ρ) cond))
            (fun i cur => dVal (denote (senvOf env) i.1 (.val x cur ρ) body)) var lo τ
            (fun cur st' n hw hp => ⟨(hinv1.of_set hxΓ hxg hxz hvar hp).bind n hxΓ hxg hxz hvar n1 hw,
              by simp only [List.set_set]; exact hp⟩)
            (fun cur st' hp => hp.2)
            (fun cur st' hp => by
              obtain ⟨_, _, v, hf', _, hs⟩ := hp.1.loc x τ (lookup_cons_self x τ Γ)
              rw [find_val_self] at hf'
              injection hf' with hf'; injection hf' with hf'; subst hf'
              unfold Holds at hs
              rw [hinv1.sigma_none hxΓ] at hs
              exact hs var hvar)
            (fun c' hc cur st' hw hp => by
              injection hc with hc; subst hc
              rcases ihc f (some .NT_RECURSIVE_FULL) st' (.val x cur ρ) hp.1 (hcov.kid (by simp)) with
                ⟨b, st'', hb, ⟨hp'', hm''⟩, hd⟩ | hbad
              · exact Or.inl ⟨b, st'', hb, ⟨hp.1.of_data hp'', by rw [hp'']; exact hp.2⟩, hm'',
                  fun i => by rw [hd i.1 i.2]; rfl⟩
              · exact Or.inr hbad)
            (fun hc => by cases hc)
            (fun cur st' hw hp => by
              rcases ihb f (some .NT_RECURSIVE_FULL) st' (.val x cur ρ) hp.1 (hcov.kid (by simp)) with
                ⟨nxt, st'', hb, ⟨hp'', hm''⟩, w, _, hd⟩ | hbad
              · exact Or.inl ⟨nxt, st'', hb, ⟨hp.1.of_data hp'', by rw [hp'']; exact hp.2⟩, hm'', w,
                  fun i => by rw [hd i.1 i.2]; rfl⟩
              · exact Or.inr hbad)
            (MAX_ITERATIONS + 2) REC_BOUND v1 st1 w1 (set_self _ _ _ hsaved) (by have := rec_bound_eq; omega) with
          ⟨r, st2, h2, p2, m2, w2, hk⟩ | hbad
        · rw [h2]
          exact Res.val rfl ⟨by show st2.data.set var saved = st.data; rw [p2, p1], by show st.iters ≤ st2.iters; omega⟩ w2 n1 (by
            dsucc g hg
            rw [denote_recFull, d1 g (by omega)]
            show Option.map SemVal.val (recSem _ _ REC_BOUND v1) = _
            rw [hk ⟨g, hg⟩]; rfl)
        · exact Res.bad (by obtain ⟨fl, k, hb, hf⟩ := hbad; exact ⟨fl, k, by rw [hb]; rfl, hf⟩)
      · exact Res.bad ⟨fl, k, by simp [hb, R.asVal], hf⟩
  | @quantEnum rz Γ t dom body dom' body' τ d dd lo hi dlo dhi xs _ ht hlen hnd hfresh _ _ ihd ihb =>
    intro fuel p st ρ hinv hcov
    cases fuel with
    | zero => exact Res.zero ..
    | succ F =>
      obtain ⟨hcb, hcd0, hslots⟩ := covered_nest t d lo hi dom' body' xs hcov
      have hxne : xs ≠ [] := by intro e; rw [e] at hlen; simp at hlen
      have hcd := hcd0 hxne
      rcases ihd F (some t) st ρ hinv hcd with ⟨v1, st1, h1, _, w1, n1, d1⟩ | ⟨fl, k, hb, hf⟩
      · obtain ⟨vs, rfl⟩ := WF_coll_isSet w1
        -- the value of the domain does not depend on what the variables are bound to
        have hvs : ∀ ρ', AgreeOn Γ ρ ρ' → ∀ g, F ≤ g → denote (senvOf env) g ρ' dom = some (.val (.s vs)) := by
          intro ρ' ha g hg
          rcases ihd F (some t) st ρ' (hinv.of_agree ha) hcd with ⟨v2, st2, h2, _, _, _, d2⟩ | ⟨fl, k, hb, hf⟩
          · rw [h1] at h2
            injection h2 with h2; injection h2 with h2
            rw [h2]; exact d2 g hg
          · rw [h1] at hb; cases hb
        rcases nest_sim c rz Γ ht d lo hi dom dom' body body' τ xs (by omega) hnd hfresh (fun x r hl => (hinv.dom x r hl).1) hslots
            (fun fuel p st ρ hi => ihd fuel p st ρ hi hcd) (fun fuel p st ρ hi => ihb fuel p st ρ hi hcb) ρ F vs hvs
            xs [] rfl (F + 1) (by simp) p st ρ hinv (AgreeOn.refl Γ ρ) with
          ⟨b, st', hb, e, m, hd⟩ | hbad
        · exact Res.bool hb ⟨e, m⟩ (by
            dsucc g hg
            rw [denote_quantEnum ht, d1 g hg]
            simp only [dSet, dVal, members, Option.bind_some]
            rw [hd g hg]; rfl)
        · exact Res.bad hbad
      · -- the domain fails: so does the outermost quantifier
        match xs, hxne with
        | q :: rest, _ =>
          show Res env (F + 1) ρ _ _ _ (ev c (F + 1) (.node t d lo hi [.node .ID_LOCAL (.text q.1) q.2.1 q.2.2 [], dom',
            nest t d lo hi dom' body' rest]) p st)
          rw [ev_quant ht]
          exact Res.bad ⟨fl, k, by simp [hb, R.asSet], hf⟩
  | @locPr rz Γ τ x nn k lo hi _ hx hxσ =>
    intro fuel p st ρ hinv hcov
    cases fuel with
    | zero => exact Res.zero ..
    | succ f =>
      rw [ev_smallpr]
      cases f with
      | zero =>
        rw [ev_zero]
        exact Res.bad ⟨_, _, rfl, Or.inl rfl⟩
      | succ f' =>
        rw [ev_ident (Or.inl rfl)]
        obtain ⟨_, hn, v, hfind, wv, hslot⟩ := hinv.loc x τ hx
        unfold Holds at hslot
        rw [hxσ] at hslot
        obtain ⟨i, w, h1, h2, h3⟩ := hslot
        have hpr : Val.project w [k] = some v := by
          simp [Val.project, Val.components, h3, Val.mkTuple]
        simp only [h1, h2, R.asVal, hpr]
        exact Res.val rfl ⟨rfl, Nat.le_refl _⟩ wv hn (by dsucc g hg; rw [denote_local, hfind])
  | @quantTup rz Γ t dom body dom' body' ts d lo hi pd plo phi xs nn _ ht hlen hl2 hnd hfresh hnnΓ hnng hnnxs hnnσ _ _ _ ihd ihb =>
    intro fuel p st ρ hinv hcov
    cases fuel with
    | zero => exact Res.zero ..
    | succ f =>
      rw [ev_quant ht]
      obtain ⟨var, hvar⟩ := hcov nn (names_kid (k := .node .ID_LOCAL (.text nn) plo phi []) (by simp)
        (by simp [names, namesKids, tok_beq]))
      rcases ihd f (some t) st ρ hinv (hcov.kid (by simp)) with ⟨v1, st1, h1, ⟨p1, m1⟩, w1, n1, d1⟩ | ⟨fl, k, hb, hf⟩
      · obtain ⟨vs, rfl⟩ := WF_coll_isSet w1
        have hnts : noAnyList ts = true := by simpa [noAny_coll, noAny_tuple] using n1
        have hinv1 := hinv.of_data p1
        obtain ⟨saved, hsaved⟩ := slot_some (hinv1.range nn var hvar)
        simp only [h1, R.asSet, hvar, hsaved]
        rcases quantLoop_sim (ι := { g : Nat // f ≤ g }) (fun s => s.data.set var saved = st1.data ∧ st.iters ≤ s.iters)
            (fun st => ev c f body' (some t) st)
            (fun i v => patBody (senvOf env) i.1 pd plo phi xs ρ body v) var (t == .FORALL) lo vs
            (fun v hv st' hp' => by
              have hinvs : Inv env c rz Γ ρ st' := hinv1.of_set hnnΓ hnng hnnσ hvar hp'.1
              obtain ⟨cs, rfl⟩ := WF_tuple_isTuple (w1.mem hv)
              obtain ⟨hwcs, _⟩ := WF_tuple_iff.mp (w1.mem hv)
              obtain ⟨ρ', hbp, hinv'⟩ := hinvs.bindTup xs ts cs nn var (st'.iters + 1) hlen hnd hfresh hnnΓ hnng hnnxs hnnσ
                hvar hnts hwcs
              rcases ihb f (some t) _ ρ' hinv' (hcov.kid (by simp)) with ⟨b, st'', hb, ⟨hp'', hm''⟩, hd⟩ | hbad
              · refine Or.inl ⟨b, st'', hb, ⟨by rw [hp'']; simp only [List.set_set]; exact hp'.1,
                  by have := hp'.2; simp at hm''; omega⟩, fun i => ?_⟩
                rw [patBody_eq _ _ _ _ _ _ _ _ _ _ hbp, hd i.1 i.2]; rfl
              · exact Or.inr hbad) st1 ⟨set_self _ _ _ hsaved, m1⟩ with
          ⟨b, st2, h2, ⟨p2, m2⟩, hk⟩ | hbad
        · rw [h2]
          exact Res.bool rfl ⟨by show st2.data.set var saved = st.data; rw [p2, p1], m2⟩ (by
            dsucc g hg
            show denote (senvOf env) (g + 1) ρ (.node t d lo hi [patNode pd plo phi xs, dom, body]) = _
            rw [denote_quantPat ht, d1 g (by omega)]
            simp only [dSet, dVal, members, Option.bind_some]
            rw [hk ⟨g, by omega⟩]; rfl)
        · exact Res.bad (by obtain ⟨fl, k, hb, hf⟩ := hbad; exact ⟨fl, k, by rw [hb]; rfl, hf⟩)
      · exact Res.bad ⟨fl, k, by simp [hb, R.asSet], hf⟩
  | @declTup rz Γ dom body dom' body' ts d lo hi pd plo phi xs nn _ hlen hl2 hnd hfresh hnnΓ hnng hnnxs hnnσ _ _ _ ihd ihb =>
    intro fuel p st ρ hinv hcov
    cases fuel with
    | zero => exact Res.zero ..
    | succ f =>
      rw [ev_decl]
      obtain ⟨var, hvar⟩ := hcov nn (names_kid (k := .node .ID_LOCAL (.text nn) plo phi []) (by simp)
        (by simp [names, namesKids, tok_beq]))
      rcases ihd f (some .NT_DECLARATIVE_EXPR) st ρ hinv (hcov.kid (by simp)) with
        ⟨v1, st1, h1, ⟨p1, m1⟩, w1, n1, d1⟩ | ⟨fl, k, hb, hf⟩
      · obtain ⟨vs, rfl⟩ := WF_coll_isSet w1
        have hnts : noAnyList ts = true := by simpa [noAny_coll, noAny_tuple] using n1
        have hinv1 := hinv.of_data p1
        obtain ⟨saved, hsaved⟩ := slot_some (hinv1.range nn var hvar)
        simp only [h1, R.asSet, hvar, hsaved]
        rcases declLoop_sim (ι := { g : Nat // f ≤ g }) (fun s => s.data.set var saved = st1.data ∧ st.iters ≤ s.iters)
            (fun st => ev c f body' (some .NT_DECLARATIVE_EXPR) st)
            (fun i v => patBody (senvOf env) i.1 pd plo phi xs ρ body v) var lo (.tuple ts) vs (fun v hv => w1.mem hv)
            (fun v hv st' hp' => by
              have hinvs : Inv env c rz Γ ρ st' := hinv1.of_set hnnΓ hnng hnnσ hvar hp'.1
              obtain ⟨cs, rfl⟩ := WF_tuple_isTuple (w1.mem hv)
              obtain ⟨hwcs, _⟩ := WF_tuple_iff.mp (w1.mem hv)
              obtain ⟨ρ', hbp, hinv'⟩ := hinvs.bindTup xs ts cs nn var (st'.iters + 1) hlen hnd hfresh hnnΓ hnng hnnxs hnnσ
                hvar hnts hwcs
              rcases ihb f (some .NT_DECLARATIVE_EXPR) _ ρ' hinv' (hcov.kid (by simp)) with
                ⟨b, st'', hb, ⟨hp'', hm''⟩, hd⟩ | hbad
              · refine Or.inl ⟨b, st'', hb, ⟨by rw [hp'']; simp only [List.set_set]; exact hp'.1,
                  by have := hp'.2; simp at hm''; omega⟩, fun i => ?_⟩
                rw [patBody_eq _ _ _ _ _ _ _ _ _ _ hbp, hd i.1 i.2]; rfl
              · exact Or.inr hbad) [] st1 ⟨set_self _ _ _ hsaved, m1⟩ (WF_empty _) with
          ⟨flags, st2, h2, ⟨p2, m2⟩, wf2, hm⟩ | hbad
        · rw [h2]
          exact Res.val rfl ⟨by show st2.data.set var saved = st.data; rw [p2, p1], m2⟩ wf2 n1 (by
            dsucc g hg
            show denote (senvOf env) (g + 1) ρ (.node .NT_DECLARATIVE_EXPR d lo hi [patNode pd plo phi xs, dom, body]) = _
            rw [denote_declPat, d1 g (by omega)]
            simp only [dSet, dVal, members, Option.bind_some]
            rw [hm ⟨g, by omega⟩]; rfl)
        · exact Res.bad (by obtain ⟨fl, k, hb, hf⟩ := hbad; exact ⟨fl, k, by rw [hb]; rfl, hf⟩)
      · exact Res.bad ⟨fl, k, by simp [hb, R.asSet], hf⟩
  | @imp rz Γ value value' τ d lo hi bs _ hne hnτ hside _ _ ihb ihv =>
    intro fuel p st ρ hinv hcov
    cases fuel with
    | zero => exact Res.zero ..
    | succ f =>
      rw [ev_imp]
      have hemp : (bs.map Blk.core).isEmpty = false := by
        cases bs with
        | nil => exact absurd rfl hne
        | cons _ _ => rfl
      -- every block's variable has a slot
      have hslot : ∀ b ∈ bs, b.slotOK c := by
        intro b hb
        obtain ⟨pre, post, rfl⟩ := List.append_of_mem hb
        have hcb : Covered c.ids b.core := hcov.kid (List.mem_cons_of_mem _ (List.mem_map_of_mem (f := Blk.core) hb))
        cases b with
        | iter x dom dom' σ d' lo' hi' dlo dhi =>
          exact hcb x (names_kid (k := .node .ID_LOCAL (.text x) dlo dhi []) (by simp) (by simp [names, namesKids, tok_beq]))
        | asg x ex ex' σ d' lo' hi' dlo dhi =>
          exact hcb x (names_kid (k := .node .ID_LOCAL (.text x) dlo dhi []) (by simp) (by simp [names, namesKids, tok_beq]))
        | guard g g' => exact (hside pre _ post rfl).2.2
      simp only [hemp, Bool.false_eq_true, if_false, impMetas_ok c bs hslot, List.length_map]
      have hmeta : ∀ pre b post, bs = pre ++ b :: post → (bs.map (metaOf c))[pre.length]? = some (metaOf c b) := by
        intro pre b post e
        subst e
        simp
      have hkid : ∀ pre b post, bs = pre ++ b :: post →
          (value' :: bs.map Blk.core)[pre.length + 1]? = some b.core := by
        intro pre b post e
        subst e
        simp
      have hcovb : ∀ pre b post, bs = pre ++ b :: post → Covered c.ids b.expr' := by
        intro pre b post e
        have hb : b ∈ bs := by rw [e]; simp
        have hcb : Covered c.ids b.core := hcov.kid (List.mem_cons_of_mem _ (List.mem_map_of_mem (f := Blk.core) hb))
        cases b with
        | iter x dom dom' σ d' lo' hi' dlo dhi => exact hcb.kid (by simp [Blk.expr'])
        | asg x ex ex' σ d' lo' hi' dlo dhi => exact hcb.kid (by simp [Blk.expr'])
        | guard g g' => exact hcb
      -- the slot guards
      obtain ⟨saved, hguards, hsavedv, hsavedm⟩ := impGuards_ok st.data (bs.map (metaOf c)) (by
        intro m hm hr
        obtain ⟨b, hb, rfl⟩ := List.mem_map.mp hm
        have hsl := hslot b hb
        cases b with
        | iter x dom dom' σ d' lo' hi' dlo dhi =>
          obtain ⟨var, hv⟩ := hsl
          simp only [metaOf, hv, Option.getD_some]
          exact hinv.range x var hv
        | asg x ex ex' σ d' lo' hi' dlo dhi =>
          obtain ⟨var, hv⟩ := hsl
          simp only [metaOf, hv, Option.getD_some]
          exact hinv.range x var hv
        | guard g g' => simp only [metaOf] at hr; rcases hr with hr | hr; exact absurd hr hsl.1; exact absurd hr hsl.2)
      simp only [hguards]
      have H : ImpHyp (ι := { g : Nat // f ≤ g }) env c rz Γ bs τ (bs.map (metaOf c)) saved
          (impChild c f (value' :: bs.map Blk.core)) (impDom c f (value' :: bs.map Blk.core))
          (fun i ρ' => dVal (denote (senvOf env) i.1 ρ' value))
          (fun i ρ' x => dVal (denote (senvOf env) i.1 ρ' x))
          (fun i ρ' x => dBool (denote (senvOf env) i.1 ρ' x)) := by
        constructor
        · intro pre x dom dom' σ d' lo' hi' dlo dhi post e
          have hs := hside pre _ post e
          obtain ⟨var, hvar⟩ := hslot (.iter x dom dom' σ d' lo' hi' dlo dhi) (by rw [e]; simp)
          refine ⟨hs.1, hs.2.1, hs.2.2, var, hvar, by rw [hmeta pre _ post e]; simp [metaOf, hvar], ?_, ?_⟩
          · have := hsavedm (metaOf c (.iter x dom dom' σ d' lo' hi' dlo dhi))
              (List.mem_map_of_mem (f := metaOf c) (by rw [e]; simp)) (Or.inl rfl)
            simpa [metaOf, hvar] using this
          intro ρ' st' hi'
          have hd : impDom c f (value' :: bs.map Blk.core) (pre.length + 1) st' = ev c f dom' (some .ITERATE) st' := by
            simp [impDom, hkid pre _ post e, Blk.core, Ast.kids, Ast.id]
          rw [hd]
          rcases ihb pre _ post e f (some .ITERATE) st' ρ' hi' (hcovb pre _ post e) with
            ⟨v, st'', hb, ⟨hp'', hm''⟩, w, n, hdn⟩ | hbad
          · obtain ⟨xs, rfl⟩ := WF_coll_isSet w
            exact Or.inl ⟨xs, st'', hb, hp'', hm'', w, by simpa [noAny_coll] using n, fun i => by
              show dVal (denote (senvOf env) i.1 ρ' dom) = _
              have h' := hdn i.1 i.2
              simp only [Blk.expr] at h'
              rw [h']; rfl⟩
          · exact Or.inr hbad
        · intro pre x ex ex' σ d' lo' hi' dlo dhi post e
          have hs := hside pre _ post e
          obtain ⟨var, hvar⟩ := hslot (.asg x ex ex' σ d' lo' hi' dlo dhi) (by rw [e]; simp)
          refine ⟨hs.1, hs.2.1, hs.2.2, var, hvar, by rw [hmeta pre _ post e]; simp [metaOf, hvar], ?_, ?_⟩
          · have := hsavedm (metaOf c (.asg x ex ex' σ d' lo' hi' dlo dhi))
              (List.mem_map_of_mem (f := metaOf c) (by rw [e]; simp)) (Or.inr rfl)
            simpa [metaOf, hvar] using this
          intro ρ' st' hi'
          have hd : impDom c f (value' :: bs.map Blk.core) (pre.length + 1) st' = ev c f ex' (some .ASSIGN) st' := by
            simp [impDom, hkid pre _ post e, Blk.core, Ast.kids, Ast.id]
          rw [hd]
          rcases ihb pre _ post e f (some .ASSIGN) st' ρ' hi' (hcovb pre _ post e) with
            ⟨v, st'', hb, ⟨hp'', hm''⟩, w, n, hdn⟩ | hbad
          · exact Or.inl ⟨v, st'', hb, hp'', hm'', w, n, fun i => by
              show dVal (denote (senvOf env) i.1 ρ' ex) = _
              have h' := hdn i.1 i.2
              simp only [Blk.expr] at h'
              rw [h']; rfl⟩
          · exact Or.inr hbad
        · intro pre g g' post e
          have hs := hside pre _ post e
          refine ⟨hs.1, hs.2.1, ⟨metaOf c (.guard g g'), hmeta pre _ post e, hs.2.2.1, hs.2.2.2⟩, ?_⟩
          intro ρ' st' hi'
          have hd : impChild c f (value' :: bs.map Blk.core) (pre.length + 1) st' =
              ev c f g' (some .NT_IMPERATIVE_EXPR) st' := by
            simp [impChild, hkid pre _ post e, Blk.core]
          rw [hd]
          rcases ihb pre _ post e f (some .NT_IMPERATIVE_EXPR) st' ρ' hi' (hcovb pre _ post e) with
            ⟨b, st'', hb, ⟨hp'', hm''⟩, hdn⟩ | hbad
          · exact Or.inl ⟨b, st'', hb, hp'', hm'', fun i => by
              show dBool (denote (senvOf env) i.1 ρ' g) = _
              have h' := hdn i.1 i.2
              simp only [Blk.expr] at h'
              rw [h']; rfl⟩
          · exact Or.inr hbad
        · intro ρ' st' hi'
          have hd : impChild c f (value' :: bs.map Blk.core) 0 st' = ev c f value' (some .NT_IMPERATIVE_EXPR) st' := by
            simp [impChild]
          rw [hd]
          rcases ihv f (some .NT_IMPERATIVE_EXPR) st' ρ' hi' (hcov.kid (by simp)) with
            ⟨v, st'', hb, ⟨hp'', hm''⟩, w, n, hdn⟩ | hbad
          · exact Or.inl ⟨v, st'', hb, hp'', hm'', w, fun i => by
              show dVal (denote (senvOf env) i.1 ρ' value) = _
              rw [hdn i.1 i.2]; rfl⟩
          · exact Or.inr hbad
      have hrun := impLoop_sim env c rz Γ bs τ (bs.map (metaOf c)) saved st.data (impChild c f (value' :: bs.map Blk.core))
        (impDom c f (value' :: bs.map Blk.core)) _ _ _ H ρ lo (MAX_ITERATIONS + 2) [] bs ρ [] [] st (by simp) hinv
        (restoreAll_self saved st.data hsavedv) (Ext.refl env c rz (Γ, ρ)) (by simp) (WF_empty τ)
      simp only [List.length_nil, stackOf, List.map_nil] at hrun
      rcases hrun with ⟨L, st', e1, e2, eq', e3, e4, e5⟩ | hbad
      · rw [e1]
        exact Res.val rfl ⟨eq', e3⟩ e4 (by simpa [noAny_coll] using hnτ) (by
          dsucc g hg
          rw [denote_imp]
          have := e5 ⟨g, hg⟩
          simp only [remSem, framesSem, Option.map_some, List.append_nil] at this
          cases hs : impSemB (fun ρ' => dVal (denote (senvOf env) g ρ' value)) (fun ρ' x => dVal (denote (senvOf env) g ρ' x))
              (fun ρ' x => dBool (denote (senvOf env) g ρ' x)) bs ρ with
          | none => simp [hs] at this
          | some l =>
            simp [hs] at this
            subst this
            simp only [impSemB] at hs
            rw [hs]; rfl)
      · exact Res.bad (by obtain ⟨fl, k, hb, hf⟩ := hbad; exact ⟨fl, k, by rw [hb]; rfl, hf⟩)
  | @filterT rz Γ arg arg' idx lo hi ps ps' τs ts hlen hlen' hidx _ _ ihp iha =>
    intro fuel p st ρ hinv hcov
    cases fuel with
    | zero => exact Res.zero ..
    | succ f =>
      have hz : (ps.zip ps').length = ps.length := by rw [List.length_zip]; omega
      have hk0 : ((ps.zip ps').zip τs).map (·.1) = ps.zip ps' := by rw [List.map_fst_zip]; omega
      have hk1 : ((ps.zip ps').zip τs).map (·.1.1) = ps := by
        have : ((ps.zip ps').zip τs).map (·.1.1) = (((ps.zip ps').zip τs).map (·.1)).map (·.1) := by
          rw [List.map_map]; rfl
        rw [this, hk0, List.map_fst_zip]; omega
      have hk1' : ((ps.zip ps').zip τs).map (·.1.2) = ps' := by
        have : ((ps.zip ps').zip τs).map (·.1.2) = (((ps.zip ps').zip τs).map (·.1)).map (·.2) := by
          rw [List.map_map]; rfl
        rw [this, hk0, List.map_snd_zip]; omega
      have hk2 : ((ps.zip ps').zip τs).map (·.2) = τs := by rw [List.map_snd_zip]; omega
      have hcovk : ∀ k ∈ ps', Covered c.ids k := fun k hk => hcov.kid (by simp [hk])
      have := sim_filterT (env := env) c rz Γ ρ f p st idx lo hi ((ps.zip ps').zip τs) arg arg' ts (by rw [hk2]; exact hidx)
        (fun q hq st' hp' => ihp q hq f (some .FILTER) st' ρ hp' (hcovk _ (List.of_mem_zip (List.of_mem_zip hq).1).2))
        (fun st' hp' => iha f (some .FILTER) st' ρ hp' (hcov.kid (by simp))) hinv
      rw [hk1, hk1'] at this
      exact this
  | @filterC rz Γ par par' arg arg' τ idx lo hi ts hlen hidx _ _ ihp iha =>
    intro fuel p st ρ hinv hcov
    cases fuel with
    | zero => exact Res.zero ..
    | succ f =>
      exact sim_filterC c rz Γ ρ f p st idx lo hi par par' arg arg' ts τ hlen hidx
        (fun st' hp' => ihp f (some .FILTER) st' ρ hp' (hcov.kid (by simp)))
        (fun st' hp' => iha f (some .FILTER) st' ρ hp' (hcov.kid (by simp))) hinv


end CCVerif.Eval
