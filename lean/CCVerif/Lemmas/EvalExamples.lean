import CCVerif.Lemmas.EvalTop
/-! Concrete members of the three fragments (non-vacuity witnesses shared by `Properties/C01.lean`
and `Properties/C02.lean`). -/
namespace CCVerif.Eval.Examples
open CCVerif.Syntax CCVerif.Spec CCVerif.Norm CCVerif.Eval
open Ty

def lit (n : Int) : Ast := .node .LIT_INTEGER (.int n) 0 0 []
def nd (t : Tok) (ks : List Ast) : Ast := .node t .none 0 0 ks
def pr (t : Tok) (idx : List Int) (a : Ast) : Ast := .node t (.tuple idx) 0 0 [a]
def loc (s : String) : Ast := .node .ID_LOCAL (.text s) 0 0 []
def glob (s : String) : Ast := .node .ID_GLOBAL (.text s) 0 0 []

def Z : Ty := .base "Z"
def X : Ty := .base "X1"

/-! ### stage 1: `card(ℬ({1,2})) = 4 & pr1((1,{2})) ∈ {1,2}\{2}` -/

def enum12 : Ast := nd .NT_ENUMERATION [lit 1, lit 2]
def enum2 : Ast := nd .NT_ENUMERATION [lit 2]

def e1 : Ast :=
  nd .AND [nd .EQUAL [nd .CARD [nd .BOOLEAN [enum12]], lit 4],
    nd .IN [pr .SMALLPR [1] (nd .NT_TUPLE [lit 1, enum2]), nd .SET_MINUS [enum12, enum2]]]

theorem enum12_frag (env : Env) (G : TCtx) (lvl : Nat) (Γ : TCtx) : Frag env G lvl Γ enum12 (.ty (.coll Z)) :=
  Frag.enum _ _ _ _ (by simp) (by
    intro k hk
    simp only [List.mem_cons, List.not_mem_nil, or_false] at hk
    rcases hk with rfl | rfl <;> exact .lit ..)

theorem enum2_frag (env : Env) (G : TCtx) (lvl : Nat) (Γ : TCtx) : Frag env G lvl Γ enum2 (.ty (.coll Z)) :=
  Frag.enum _ _ _ _ (by simp) (by
    intro k hk
    simp only [List.mem_cons, List.not_mem_nil, or_false] at hk
    subst hk; exact .lit ..)

theorem e1_frag (env : Env) : Frag env [] 1 [] e1 .logic := by
  refine .conn _ _ _ (Or.inl rfl) ?_ ?_
  · refine .eq _ _ _ (Or.inl rfl) (.card _ _ _ (.pow _ _ _ (enum12_frag ..) ?_)) (.lit ..)
    intro fuel ρ xs h
    exact Nat.le_trans (denote_enum_length _ _ _ _ _ _ _ _ h) (by decide)
  · refine Frag.mem (τ := Z) _ _ _ (Or.inl rfl) (by decide) ?_ ?_
    · refine .smallpr (ts := [Z, .coll Z]) [1] _ _ ?_ rfl
      refine Frag.tuple _ _ _ [lit 1, enum2] [Z, .coll Z] (by decide) rfl ?_
      intro p hp
      simp only [List.zip_cons_cons, List.zip_nil_right, List.mem_cons, List.not_mem_nil, or_false] at hp
      rcases hp with rfl | rfl
      · exact .lit ..
      · exact enum2_frag ..
    · exact .setOp _ _ _ (Or.inr (Or.inr (Or.inl rfl))) (enum12_frag ..) (enum2_frag ..)

/-! ### stage 2: `Pr1(D1) ⊆ X1 & (X1×X1) ∩ D1 = D1` over `X1 = {1,2,3}`, `D1 = {(1,2),(2,3)}` -/

def envS : Env :=
  { globals := [("X1", .s [.e 1, .e 2, .e 3]), ("D1", .s [.t [.e 1, .e 2], .t [.e 2, .e 3]])] }
def GS : TCtx := [("X1", .coll X), ("D1", .coll (.tuple [X, X]))]

theorem globalsOK_S : GlobalsOK envS GS := by
  intro g τ h
  unfold GS at h
  simp only [lookup] at h
  split at h
  · rename_i e
    have : g = "X1" := by simpa using e
    subst this
    injection h with h; subst h
    exact ⟨rfl, _, rfl, ⟨by decide, by decide⟩⟩
  · split at h
    · rename_i e
      have : g = "D1" := by simpa using e
      subst this
      injection h with h; subst h
      exact ⟨rfl, _, rfl, ⟨by decide, by decide⟩⟩
    · cases h

def e2 : Ast :=
  nd .AND [nd .SUBSET_OR_EQ [pr .BIGPR [1] (glob "D1"), glob "X1"],
    nd .EQUAL [nd .INTERSECTION [nd .DECART [glob "X1", glob "X1"], glob "D1"], glob "D1"]]

theorem x1_frag (lvl : Nat) (h : 2 ≤ lvl) (Γ : TCtx) : Frag envS GS lvl Γ (glob "X1") (.ty (.coll X)) :=
  .glob Γ "X1" 0 0 h rfl
theorem d1_frag (lvl : Nat) (h : 2 ≤ lvl) (Γ : TCtx) : Frag envS GS lvl Γ (glob "D1") (.ty (.coll (.tuple [X, X]))) :=
  .glob Γ "D1" 0 0 h rfl

theorem e2_frag : Frag envS GS 2 [] e2 .logic := by
  refine .conn _ _ _ (Or.inl rfl) ?_ ?_
  · exact .sub _ _ _ (Or.inr (Or.inl rfl)) (.bigpr (ts := [X, X]) [1] _ _ (d1_frag 2 (by decide) []) rfl)
      (x1_frag 2 (by decide) [])
  · refine .eq _ _ _ (Or.inl rfl) ?_ (d1_frag 2 (by decide) [])
    refine .setOp _ _ _ (Or.inr (Or.inl rfl)) ?_ (d1_frag 2 (by decide) [])
    refine Frag.decart _ _ _ [glob "X1", glob "X1"] [X, X] (by decide) rfl ?_
    intro p hp
    simp only [List.zip_cons_cons, List.zip_nil_right, List.mem_cons, List.not_mem_nil, or_false] at hp
    rcases hp with rfl | rfl <;> exact x1_frag 2 (by decide) []

/-! ### stage 3: `(∀x∈X1 ∃y∈X1 ((x,y)∈D1 ∨ (y,x)∈D1)) & D{x∈X1 | ∃y∈X1 (x,y)∈D1} = Pr1(D1)` -/

def pairIn (a b : String) : Ast := nd .IN [nd .NT_TUPLE [loc a, loc b], glob "D1"]

def e3 : Ast :=
  nd .AND [
    nd .FORALL [loc "x", glob "X1", nd .EXISTS [loc "y", glob "X1", nd .OR [pairIn "x" "y", pairIn "y" "x"]]],
    nd .EQUAL [nd .NT_DECLARATIVE_EXPR [loc "x", glob "X1", nd .EXISTS [loc "y", glob "X1", pairIn "x" "y"]],
      pr .BIGPR [1] (glob "D1")]]

def Γxy : TCtx := [("y", X), ("x", X)]

theorem pairIn_frag (a b : String) (ha : lookup a Γxy = some X) (hb : lookup b Γxy = some X) :
    Frag envS GS 3 Γxy (pairIn a b) .logic := by
  refine Frag.mem (τ := .tuple [X, X]) _ _ _ (Or.inl rfl) (by decide) ?_ (d1_frag 3 (by decide) _)
  refine Frag.tuple _ _ _ [loc a, loc b] [X, X] (by simp) rfl ?_
  intro p hp
  simp only [List.zip_cons_cons, List.zip_nil_right, List.mem_cons, List.not_mem_nil, or_false] at hp
  rcases hp with rfl | rfl
  · exact .loc _ a 0 0 (by decide) ha rfl
  · exact .loc _ b 0 0 (by decide) hb rfl

theorem e3_frag : Frag envS GS 3 [] e3 .logic := by
  refine .conn _ _ _ (Or.inl rfl) ?_ ?_
  · refine .quant (τ := X) _ _ _ "x" 0 0 (by decide) (Or.inl rfl) rfl rfl (by simp) (x1_frag 3 (by decide) _) ?_
    refine .quant (τ := X) _ _ _ "y" 0 0 (by decide) (Or.inr rfl) rfl rfl (by simp) (x1_frag 3 (by decide) _) ?_
    exact .conn _ _ _ (Or.inr (Or.inl rfl)) (pairIn_frag "x" "y" rfl rfl) (pairIn_frag "y" "x" rfl rfl)
  · refine .eq (τ := .coll X) _ _ _ (Or.inl rfl) ?_ (.bigpr (ts := [X, X]) [1] _ _ (d1_frag 3 (by decide) _) rfl)
    refine .decl (τ := X) _ _ _ "x" 0 0 (by decide) rfl rfl (by simp) (x1_frag 3 (by decide) _) ?_
    exact .quant (τ := X) _ _ _ "y" 0 0 (by decide) (Or.inr rfl) rfl rfl (by simp) (x1_frag 3 (by decide) _)
      (pairIn_frag "x" "y" rfl rfl)

/-- `D{x∈X1 | ∃y∈X1 (x,y)∈D1}` -/
def e4 : Ast := nd .NT_DECLARATIVE_EXPR [loc "x", glob "X1", nd .EXISTS [loc "y", glob "X1", pairIn "x" "y"]]

theorem e4_frag : Frag envS GS 3 [] e4 (.ty (.coll X)) := by
  refine .decl (τ := X) _ _ _ "x" 0 0 (by decide) rfl rfl (by simp) (x1_frag 3 (by decide) _) ?_
  exact .quant (τ := X) _ _ _ "y" 0 0 (by decide) (Or.inr rfl) rfl rfl (by simp) (x1_frag 3 (by decide) _)
    (pairIn_frag "x" "y" rfl rfl)

/-! ### stage 4: `R{s:={1} | card(s)<3 | s ∪ D{y∈{1,2,3,4} | ∃x∈s y=x+1}} = {1,2,3}`,
`R{s:={1} | s ∪ D{…}} = {1,2,3,4}`, `I{(x,y) | x:∈{1,2,3}; y:=x*x; y>1} = {(2,4),(3,9)}` -/

def enum123 : Ast := nd .NT_ENUMERATION [lit 1, lit 2, lit 3]
def set1234 : Ast := nd .NT_ENUMERATION [lit 1, lit 2, lit 3, lit 4]
def stepS : Ast := nd .UNION [loc "s", nd .NT_DECLARATIVE_EXPR [loc "y", set1234, nd .EXISTS [loc "x", loc "s", nd .EQUAL [loc "y", nd .PLUS [loc "x", lit 1]]]]]
def recFullEx : Ast := nd .NT_RECURSIVE_FULL [loc "s", nd .NT_ENUMERATION [lit 1], nd .LESSER [nd .CARD [loc "s"], lit 3], stepS]
def recShortEx : Ast := nd .NT_RECURSIVE_SHORT [loc "s", nd .NT_ENUMERATION [lit 1], stepS]
def impEx : Ast := nd .NT_IMPERATIVE_EXPR [nd .NT_TUPLE [loc "x", loc "y"], nd .ITERATE [loc "x", enum123], nd .ASSIGN [loc "y", nd .MULTIPLY [loc "x", loc "x"]], nd .GREATER [loc "y", lit 1]]
def e5 : Ast := nd .AND [nd .AND [nd .EQUAL [recFullEx, enum123], nd .EQUAL [recShortEx, set1234]], nd .EQUAL [impEx, nd .NT_ENUMERATION [nd .NT_TUPLE [lit 2, lit 4], nd .NT_TUPLE [lit 3, lit 9]]]]

abbrev env0 : Env := {}

theorem enum_lits (env : Env) (G : TCtx) (lvl : Nat) (Γ : TCtx) (ns : List Int) (h : ns ≠ []) :
    Frag env G lvl Γ (nd .NT_ENUMERATION (ns.map lit)) (.ty (.coll Z)) :=
  Frag.enum _ _ _ _ (by simpa using h) (by
    intro k hk
    obtain ⟨n, _, rfl⟩ := List.mem_map.mp hk
    exact .lit ..)

theorem stepS_frag : Frag env0 [] 4 [("s", .coll Z)] stepS (.ty (.coll Z)) := by
  refine .setOp _ _ _ (Or.inl rfl) (.loc _ "s" 0 0 (by decide) rfl rfl) ?_
  refine .decl (τ := Z) _ _ _ "y" 0 0 (by decide) rfl rfl (by simp) (enum_lits env0 [] 4 _ [1, 2, 3, 4] (by simp)) ?_
  refine .quant (τ := Z) _ _ _ "x" 0 0 (by decide) (Or.inr rfl) rfl rfl (by simp) (.loc _ "s" 0 0 (by decide) rfl rfl) ?_
  exact .eq _ _ _ (Or.inl rfl) (.loc _ "y" 0 0 (by decide) rfl rfl)
    (.arith _ _ _ (Or.inl rfl) (.loc _ "x" 0 0 (by decide) rfl rfl) (.lit ..))

theorem recFullEx_frag : Frag env0 [] 4 [] recFullEx (.ty (.coll Z)) := by
  refine .recFull _ _ _ "s" 0 0 (by decide) rfl rfl (by simp) (enum_lits env0 [] 4 _ [1] (by simp)) ?_ (stepS_frag)
  exact .cmp _ _ _ (Or.inr (Or.inl rfl)) (.card _ _ _ (.loc _ "s" 0 0 (by decide) rfl rfl)) (.lit ..)

theorem recShortEx_frag : Frag env0 [] 4 [] recShortEx (.ty (.coll Z)) :=
  .recShort _ _ _ "s" 0 0 (by decide) rfl rfl (by simp) (enum_lits env0 [] 4 _ [1] (by simp)) (stepS_frag)

def impBlocks : List Blk :=
  [.iter "x" enum123 enum123 Z .none 0 0 0 0,
   .asg "y" (nd .MULTIPLY [loc "x", loc "x"]) (nd .MULTIPLY [loc "x", loc "x"]) Z .none 0 0 0 0,
   .guard (nd .GREATER [loc "y", lit 1]) (nd .GREATER [loc "y", lit 1])]

theorem impEx_frag : Frag env0 [] 4 [] impEx (.ty (.coll (.tuple [Z, Z]))) := by
  refine FragR.imp _ _ _ impBlocks (by decide) (by simp [impBlocks]) rfl ?_ ?_ ?_
  · exact split_cons (P := fun pre b => b.side env0 [] (ctxAfter [] pre)) ⟨rfl, rfl, by simp⟩
      (split_cons ⟨rfl, rfl, by simp⟩ (split_cons ⟨by decide, by decide, by decide, by decide⟩ split_nil))
  · refine split_cons (P := fun pre b => FragR env0 [] 4 [] (ctxAfter [] pre) b.expr b.expr' b.ety)
      (enum_lits env0 [] 4 _ [1, 2, 3] (by simp)) (split_cons ?_ (split_cons ?_ split_nil))
    · exact .arith _ _ _ (Or.inr (Or.inr rfl)) (.loc _ "x" 0 0 (by decide) rfl rfl) (.loc _ "x" 0 0 (by decide) rfl rfl)
    · exact .cmp _ _ _ (Or.inl rfl) (.loc _ "y" 0 0 (by decide) rfl rfl) (.lit ..)
  · refine Frag.tuple _ _ _ [loc "x", loc "y"] [Z, Z] (by decide) rfl ?_
    intro p hp
    simp only [List.zip_cons_cons, List.zip_nil_right, List.mem_cons, List.not_mem_nil, or_false] at hp
    rcases hp with rfl | rfl
    · exact .loc _ "x" 0 0 (by decide) rfl rfl
    · exact .loc _ "y" 0 0 (by decide) rfl rfl

theorem e5_frag : Frag env0 [] 4 [] e5 .logic := by
  refine .conn _ _ _ (Or.inl rfl) (.conn _ _ _ (Or.inl rfl) ?_ ?_) ?_
  · exact .eq _ _ _ (Or.inl rfl) (recFullEx_frag) (enum_lits env0 [] 4 _ [1, 2, 3] (by simp))
  · exact .eq _ _ _ (Or.inl rfl) (recShortEx_frag) (enum_lits env0 [] 4 _ [1, 2, 3, 4] (by simp))
  · refine .eq (τ := .coll (.tuple [Z, Z])) _ _ _ (Or.inl rfl) (impEx_frag) ?_
    refine Frag.enum _ _ _ _ (by simp) ?_
    intro k hk
    simp only [List.mem_cons, List.not_mem_nil, or_false] at hk
    rcases hk with rfl | rfl <;>
    · refine Frag.tuple _ _ _ _ [Z, Z] (by decide) rfl ?_
      intro p hp
      simp only [List.zip_cons_cons, List.zip_nil_right, List.mem_cons, List.not_mem_nil, or_false] at hp
      rcases hp with rfl | rfl <;> exact .lit ..
/-! ### stage 5: `∃a,b∈D{a∈{1,2} | 1=1} (a=1 & b=b) & ∀x,y,z∈{1,2,3} (x<y & y<z ⇒ x<z)` -/
def domA : Ast := nd .NT_DECLARATIVE_EXPR [loc "a", enum12, nd .EQUAL [lit 1, lit 1]]
def bodyAB : Ast := nd .AND [nd .EQUAL [loc "a", lit 1], nd .EQUAL [loc "b", loc "b"]]
def enumAB : Ast := nd .EXISTS [nd .NT_ENUM_DECL [loc "a", loc "b"], domA, bodyAB]
def bodyXYZ : Ast :=
  nd .IMPLICATION [nd .AND [nd .LESSER [loc "x", loc "y"], nd .LESSER [loc "y", loc "z"]], nd .LESSER [loc "x", loc "z"]]
def enumXYZ : Ast := nd .FORALL [nd .NT_ENUM_DECL [loc "x", loc "y", loc "z"], enum123, bodyXYZ]
def e6 : Ast := nd .AND [enumAB, enumXYZ]
/-- its normal form: nested quantifiers -/
def e6n : Ast :=
  nd .AND [nd .EXISTS [loc "a", domA, nd .EXISTS [loc "b", domA, bodyAB]],
    nd .FORALL [loc "x", enum123, nd .FORALL [loc "y", enum123, nd .FORALL [loc "z", enum123, bodyXYZ]]]]

theorem domA_frag : Frag env0 [] 5 [] domA (.ty (.coll Z)) :=
  .decl (τ := Z) _ _ _ "a" 0 0 (by decide) rfl rfl (by simp) (enum12_frag ..) (.eq _ _ _ (Or.inl rfl) (.lit ..) (.lit ..))

theorem e6_frag : FragR env0 [] 5 [] [] e6 e6n .logic := by
  refine .conn _ _ _ (Or.inl rfl) ?_ ?_
  · refine FragR.quantEnum (τ := Z) _ _ _ _ _ _ [("a", 0, 0), ("b", 0, 0)] (by decide) (Or.inr rfl) (by decide) (by decide)
      (by intro q hq; simp at hq; rcases hq with rfl | rfl <;> exact ⟨rfl, rfl, by simp⟩) domA_frag ?_
    exact .conn _ _ _ (Or.inl rfl) (.eq _ _ _ (Or.inl rfl) (.loc _ "a" 0 0 (by decide) rfl rfl) (.lit ..))
      (.eq _ _ _ (Or.inl rfl) (.loc _ "b" 0 0 (by decide) rfl rfl) (.loc _ "b" 0 0 (by decide) rfl rfl))
  · refine FragR.quantEnum (τ := Z) _ _ _ _ _ _ [("x", 0, 0), ("y", 0, 0), ("z", 0, 0)] (by decide) (Or.inl rfl) (by decide)
      (by decide) (by intro q hq; simp at hq; rcases hq with rfl | rfl | rfl <;> exact ⟨rfl, rfl, by simp⟩)
      (enum_lits env0 [] 5 _ [1, 2, 3] (by simp)) ?_
    have lx : ∀ v, lookup v (declCtx Z [] [("x", 0, 0), ("y", 0, 0), ("z", 0, 0)]) = lookup v [("z", Z), ("y", Z), ("x", Z)] :=
      fun _ => rfl
    refine .conn _ _ _ (Or.inr (Or.inr (Or.inl rfl))) (.conn _ _ _ (Or.inl rfl) ?_ ?_) ?_
    · exact .cmp _ _ _ (Or.inr (Or.inl rfl)) (.loc _ "x" 0 0 (by decide) rfl rfl) (.loc _ "y" 0 0 (by decide) rfl rfl)
    · exact .cmp _ _ _ (Or.inr (Or.inl rfl)) (.loc _ "y" 0 0 (by decide) rfl rfl) (.loc _ "z" 0 0 (by decide) rfl rfl)
    · exact .cmp _ _ _ (Or.inr (Or.inl rfl)) (.loc _ "x" 0 0 (by decide) rfl rfl) (.loc _ "z" 0 0 (by decide) rfl rfl)


end CCVerif.Eval.Examples
