import CCVerif.Lemmas.EvalTop
/-! Concrete members of the three fragments (non-vacuity witnesses shared by `Properties/C01.lean`
and `Properties/C02.lean`). -/
namespace CCVerif.Eval.Examples
open CCVerif.Syntax CCVerif.Spec CCVerif.Norm CCVerif.Eval
open Ty

def lit (n : Int) : Ast := .node .LIT_INTEGER (.int n) 0 0 []
def nd (t : Tok) (ks : List Ast) : Ast := .node t .none 0 0 ks
def pr (t : Tok) (idx : List Int) (a : Ast) : Ast := .node t (.tuple idx) 0 0 [a]
def loc (s : String) : Ast := .node .ID_LOCAL (.text s) 0 0 []
def glob (s : String) : Ast := .node .ID_GLOBAL (.text s) 0 0 []

def Z : Ty := .base "Z"
def X : Ty := .base "X1"

/-! ### stage 1: `card(ℬ({1,2})) = 4 & pr1((1,{2})) ∈ {1,2}\{2}` -/

def enum12 : Ast := nd .NT_ENUMERATION [lit 1, lit 2]
def enum2 : Ast := nd .NT_ENUMERATION [lit 2]

def e1 : Ast :=
  nd .AND [nd .EQUAL [nd .CARD [nd .BOOLEAN [enum12]], lit 4],
    nd .IN [pr .SMALLPR [1] (nd .NT_TUPLE [lit 1, enum2]), nd .SET_MINUS [enum12, enum2]]]

theorem enum12_frag (env : Env) (G : TCtx) (lvl : Nat) (Γ : TCtx) : Frag env G lvl Γ enum12 (.ty (.coll Z)) :=
  .enum _ _ _ _ (by simp) (by
    intro k hk
    simp only [List.mem_cons, List.not_mem_nil, or_false] at hk
    rcases hk with rfl | rfl <;> exact .lit ..)

theorem enum2_frag (env : Env) (G : TCtx) (lvl : Nat) (Γ : TCtx) : Frag env G lvl Γ enum2 (.ty (.coll Z)) :=
  .enum _ _ _ _ (by simp) (by
    intro k hk
    simp only [List.mem_cons, List.not_mem_nil, or_false] at hk
    subst hk; exact .lit ..)

theorem e1_frag (env : Env) : Frag env [] 1 [] e1 .logic := by
  refine .conn _ _ _ (Or.inl rfl) ?_ ?_
  · refine .eq _ _ _ (Or.inl rfl) (.card _ _ _ (.pow _ _ _ (enum12_frag ..) ?_)) (.lit ..)
    intro fuel ρ xs h
    exact Nat.le_trans (denote_enum_length _ _ _ _ _ _ _ _ h) (by decide)
  · refine .mem (τ := Z) _ _ _ (Or.inl rfl) (by decide) ?_ ?_
    · refine .smallpr (ts := [Z, .coll Z]) [1] _ _ ?_ rfl
      refine .tuple _ _ _ [lit 1, enum2] [Z, .coll Z] (by decide) rfl ?_
      intro p hp
      simp only [List.zip_cons_cons, List.zip_nil_right, List.mem_cons, List.not_mem_nil, or_false] at hp
      rcases hp with rfl | rfl
      · exact .lit ..
      · exact enum2_frag ..
    · exact .setOp _ _ _ (Or.inr (Or.inr (Or.inl rfl))) (enum12_frag ..) (enum2_frag ..)

/-! ### stage 2: `Pr1(D1) ⊆ X1 & (X1×X1) ∩ D1 = D1` over `X1 = {1,2,3}`, `D1 = {(1,2),(2,3)}` -/

def envS : Env :=
  { globals := [("X1", .s [.e 1, .e 2, .e 3]), ("D1", .s [.t [.e 1, .e 2], .t [.e 2, .e 3]])] }
def GS : TCtx := [("X1", .coll X), ("D1", .coll (.tuple [X, X]))]

theorem globalsOK_S : GlobalsOK envS GS := by
  intro g τ h
  unfold GS at h
  simp only [lookup] at h
  split at h
  · rename_i e
    have : g = "X1" := by simpa using e
    subst this
    injection h with h; subst h
    exact ⟨rfl, _, rfl, ⟨by decide, by decide⟩⟩
  · split at h
    · rename_i e
      have : g = "D1" := by simpa using e
      subst this
      injection h with h; subst h
      exact ⟨rfl, _, rfl, ⟨by decide, by decide⟩⟩
    · cases h

def e2 : Ast :=
  nd .AND [nd .SUBSET_OR_EQ [pr .BIGPR [1] (glob "D1"), glob "X1"],
    nd .EQUAL [nd .INTERSECTION [nd .DECART [glob "X1", glob "X1"], glob "D1"], glob "D1"]]

theorem x1_frag (lvl : Nat) (h : 2 ≤ lvl) (Γ : TCtx) : Frag envS GS lvl Γ (glob "X1") (.ty (.coll X)) :=
  .glob Γ "X1" 0 0 h rfl
theorem d1_frag (lvl : Nat) (h : 2 ≤ lvl) (Γ : TCtx) : Frag envS GS lvl Γ (glob "D1") (.ty (.coll (.tuple [X, X]))) :=
  .glob Γ "D1" 0 0 h rfl

theorem e2_frag : Frag envS GS 2 [] e2 .logic := by
  refine .conn _ _ _ (Or.inl rfl) ?_ ?_
  · exact .sub _ _ _ (Or.inr (Or.inl rfl)) (.bigpr (ts := [X, X]) [1] _ _ (d1_frag 2 (by decide) []) rfl)
      (x1_frag 2 (by decide) [])
  · refine .eq _ _ _ (Or.inl rfl) ?_ (d1_frag 2 (by decide) [])
    refine .setOp _ _ _ (Or.inr (Or.inl rfl)) ?_ (d1_frag 2 (by decide) [])
    refine .decart _ _ _ [glob "X1", glob "X1"] [X, X] (by decide) rfl ?_
    intro p hp
    simp only [List.zip_cons_cons, List.zip_nil_right, List.mem_cons, List.not_mem_nil, or_false] at hp
    rcases hp with rfl | rfl <;> exact x1_frag 2 (by decide) []

/-! ### stage 3: `(∀x∈X1 ∃y∈X1 ((x,y)∈D1 ∨ (y,x)∈D1)) & D{x∈X1 | ∃y∈X1 (x,y)∈D1} = Pr1(D1)` -/

def pairIn (a b : String) : Ast := nd .IN [nd .NT_TUPLE [loc a, loc b], glob "D1"]

def e3 : Ast :=
  nd .AND [
    nd .FORALL [loc "x", glob "X1", nd .EXISTS [loc "y", glob "X1", nd .OR [pairIn "x" "y", pairIn "y" "x"]]],
    nd .EQUAL [nd .NT_DECLARATIVE_EXPR [loc "x", glob "X1", nd .EXISTS [loc "y", glob "X1", pairIn "x" "y"]],
      pr .BIGPR [1] (glob "D1")]]

def Γxy : TCtx := [("y", X), ("x", X)]

theorem pairIn_frag (a b : String) (ha : lookup a Γxy = some X) (hb : lookup b Γxy = some X) :
    Frag envS GS 3 Γxy (pairIn a b) .logic := by
  refine .mem (τ := .tuple [X, X]) _ _ _ (Or.inl rfl) (by decide) ?_ (d1_frag 3 (by decide) _)
  refine .tuple _ _ _ [loc a, loc b] [X, X] (by simp) rfl ?_
  intro p hp
  simp only [List.zip_cons_cons, List.zip_nil_right, List.mem_cons, List.not_mem_nil, or_false] at hp
  rcases hp with rfl | rfl
  · exact .loc _ a 0 0 (by decide) ha
  · exact .loc _ b 0 0 (by decide) hb

theorem e3_frag : Frag envS GS 3 [] e3 .logic := by
  refine .conn _ _ _ (Or.inl rfl) ?_ ?_
  · refine .quant (τ := X) _ _ _ "x" 0 0 (by decide) (Or.inl rfl) rfl rfl (x1_frag 3 (by decide) _) ?_
    refine .quant (τ := X) _ _ _ "y" 0 0 (by decide) (Or.inr rfl) rfl rfl (x1_frag 3 (by decide) _) ?_
    exact .conn _ _ _ (Or.inr (Or.inl rfl)) (pairIn_frag "x" "y" rfl rfl) (pairIn_frag "y" "x" rfl rfl)
  · refine .eq (τ := .coll X) _ _ _ (Or.inl rfl) ?_ (.bigpr (ts := [X, X]) [1] _ _ (d1_frag 3 (by decide) _) rfl)
    refine .decl (τ := X) _ _ _ "x" 0 0 (by decide) rfl rfl (x1_frag 3 (by decide) _) ?_
    exact .quant (τ := X) _ _ _ "y" 0 0 (by decide) (Or.inr rfl) rfl rfl (x1_frag 3 (by decide) _)
      (pairIn_frag "x" "y" rfl rfl)

/-- `D{x∈X1 | ∃y∈X1 (x,y)∈D1}` -/
def e4 : Ast := nd .NT_DECLARATIVE_EXPR [loc "x", glob "X1", nd .EXISTS [loc "y", glob "X1", pairIn "x" "y"]]

theorem e4_frag : Frag envS GS 3 [] e4 (.ty (.coll X)) := by
  refine .decl (τ := X) _ _ _ "x" 0 0 (by decide) rfl rfl (x1_frag 3 (by decide) _) ?_
  exact .quant (τ := X) _ _ _ "y" 0 0 (by decide) (Or.inr rfl) rfl rfl (x1_frag 3 (by decide) _)
    (pairIn_frag "x" "y" rfl rfl)

end CCVerif.Eval.Examples
