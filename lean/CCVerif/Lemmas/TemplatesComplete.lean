import CCVerif.Lemmas.Templates
/-!
Template instantiation, the converse of Lemmas/Templates (`ct_sound`, `args_sound`): whenever the
reference `matchArg` + `solve` of `Spec/Infer.lean` find the instantiation of the radicals, the
checker's `CompareTemplated` over the mangled declared types succeeds, and its substitution map is
related (`Inv`) to the solution — so `SubstituteBase` on the mangled result type is `instantiate`.
(Helper lemmas for C03 `check_complete_partial2`, function calls.)
-/
namespace CCVerif.Types
open CCVerif.Spec

mutual
/-- success of `CompareTemplated` when the reference matches and solves -/
theorem ct_succ (te : TraitEnv) (fn : String) : ∀ (P : Ty) (n : Nat) (s : Subst) (σ : List (String × Ty)) (v : Ty)
    (cs σ' : List (String × Ty)), depthTy P < n → NoMangled fn v → Inv fn s σ →
    matchArg te n P v = some cs → solve te cs σ = some σ' →
    (compareTemplated te s (mangle fn P) v).1 = true
  | _, 0, _, _, _, _, _, hd, _, _, _, _ => by simp at hd
  | .base a, n+1, s, σ, v, cs, σ', _, hn, hinv, hm, hs => by
    by_cases hr : isRadical a = true
    · simp only [matchArg, hr, if_true, Option.some.injEq] at hm
      subst hm
      simp only [mangle, hr, if_true]
      unfold compareTemplated
      by_cases hb : Ty.beq (.base (a ++ fn)) v = true
      · simp [hb]
      · simp only [hb, Bool.false_eq_true, if_false, isRadical_append fn hr, if_true]
        cases hl : lookup s (a ++ fn) with
        | none => rfl
        | some old =>
          simp only []
          simp only [solve] at hs
          cases hσ : lookup σ a with
          | none =>
            rcases hinv.weak a hr hσ with e | e
            · rw [hl] at e; cases e
            · rw [hl] at e; cases e
              rw [merge_R0_left]
          | some old' =>
            have := hinv.strong a old' hr hσ
            rw [hl] at this; cases this
            rw [hσ] at hs
            simp only [] at hs
            cases hmm : merge te old v with
            | none => rw [hmm] at hs; simp at hs
            | some m => rfl
    · have hr' : isRadical a = false := by simpa using hr
      simp only [mangle, hr', Bool.false_eq_true, if_false]
      unfold compareTemplated
      by_cases hb : Ty.beq (.base a) v = true
      · simp [hb]
      · simp only [hb, Bool.false_eq_true, if_false, hr']
        by_cases hany : v.isAny = true
        · simp [hany]
        · simp only [hany, Bool.false_eq_true, if_false]
          simp only [matchArg, hr', Bool.false_eq_true, if_false, hany] at hm
          cases v with
          | base b =>
            simp only [] at hm ⊢
            have hab : (a == b) = false := by simpa [Ty.beq] using hb
            simp only [hab, Bool.false_or] at hm
            by_cases hc : (commonType te (Ty.base a) (Ty.base b)).isSome = true
            · exact hc
            · simp [hc] at hm
          | coll _ => simp at hm
          | tuple _ => simp at hm
  | .coll Pb, n+1, s, σ, v, cs, σ', hd, hn, hinv, hm, hs => by
    have hd' : depthTy Pb < n := by simp [depthTy] at hd; omega
    simp only [mangle]
    unfold compareTemplated
    by_cases hb : Ty.beq (.coll (mangle fn Pb)) v = true
    · simp [hb]
    · simp only [hb, Bool.false_eq_true, if_false]
      by_cases hany : v.isAny = true
      · simp [hany]
      · simp only [hany, Bool.false_eq_true, if_false]
        simp only [matchArg, hany, Bool.false_eq_true, if_false] at hm
        cases v with
        | base b => simp at hm
        | tuple _ => simp at hm
        | coll vb =>
          simp only [] at hm ⊢
          exact ct_succ te fn Pb n s σ vb cs σ' hd' (noMangled_coll hn) hinv hm hs
  | .tuple Ps, n+1, s, σ, v, cs, σ', hd, hn, hinv, hm, hs => by
    have hd' : depthTy.go Ps < n := by simp [depthTy] at hd; omega
    simp only [mangle]
    unfold compareTemplated
    by_cases hb : Ty.beq (.tuple (mangleList fn Ps)) v = true
    · simp [hb]
    · simp only [hb, Bool.false_eq_true, if_false]
      by_cases hany : v.isAny = true
      · simp [hany]
      · simp only [hany, Bool.false_eq_true, if_false]
        simp only [matchArg, hany, Bool.false_eq_true, if_false] at hm
        cases v with
        | base b => simp at hm
        | coll _ => simp at hm
        | tuple vs =>
          simp only [] at hm ⊢
          by_cases hlen : (Ps.length != vs.length) = true
          · simp [hlen] at hm
          · simp only [hlen, Bool.false_eq_true, if_false] at hm
            have hl : Ps.length = vs.length := by simpa using hlen
            have hlb : ((mangleList fn Ps).length != vs.length) = false := by
              rw [mangleList_length]; simp [hl]
            simp only [hlb, Bool.false_eq_true, if_false]
            exact ctl_succ te fn Ps n s σ vs cs σ' hd' (noMangled_tuple hn) hl hinv hm hs
theorem ctl_succ (te : TraitEnv) (fn : String) : ∀ (Ps : List Ty) (n : Nat) (s : Subst) (σ : List (String × Ty))
    (vs : List Ty) (cs σ' : List (String × Ty)), depthTy.go Ps < n → NoMangledL fn vs → Ps.length = vs.length →
    Inv fn s σ → matchArg.go te n Ps vs = some cs → solve te cs σ = some σ' →
    (compareTemplatedList te s (mangleList fn Ps) vs).1 = true
  | [], _, _, _, _, _, _, _, _, _, _, _, _ => by simp [mangleList, compareTemplatedList]
  | P :: Ps, n, s, σ, vs, cs, σ', hd, hn, hl, hinv, hm, hs => by
    cases vs with
    | nil => simp at hl
    | cons v vs =>
      have hd' : depthTy P < n ∧ depthTy.go Ps < n := by simp [depthTy.go] at hd; omega
      obtain ⟨hn1, hn2⟩ := noMangledL_cons hn
      simp only [matchArg.go] at hm
      cases h1 : matchArg te n P v with
      | none => simp [h1] at hm
      | some l1 =>
        cases h2 : matchArg.go te n Ps vs with
        | none => simp [h1, h2] at hm
        | some l2 =>
          simp only [h1, h2, Option.some.injEq] at hm
          subst hm
          rw [solve_append] at hs
          cases hs1 : solve te l1 σ with
          | none => simp [hs1] at hs
          | some σ1 =>
            simp only [hs1, Option.bind] at hs
            have hsucc := ct_succ te fn P n s σ v l1 σ1 hd'.1 hn1 hinv h1 hs1
            simp only [mangleList, compareTemplatedList]
            cases hc : compareTemplated te s (mangle fn P) v with
            | mk ok s1 =>
              rw [hc] at hsucc
              simp only at hsucc
              subst hsucc
              obtain ⟨c1, σ1', a1, a2, a3, _, _⟩ := ct_sound te fn P n s σ v s1 hd'.1 hn1 hinv hc
              rw [h1] at a1; cases a1
              rw [hs1] at a2; cases a2
              simp only []
              exact ctl_succ te fn Ps n s1 σ1 vs l2 σ' hd'.2 hn2 (by simpa using hl) a3 h2 hs
end

/-- the converse of `ct_sound` -/
theorem ct_complete (te : TraitEnv) (fn : String) (P : Ty) (n : Nat) (s : Subst) (σ : List (String × Ty)) (v : Ty)
    (cs σ' : List (String × Ty)) (hd : depthTy P < n) (hn : NoMangled fn v) (hinv : Inv fn s σ)
    (hm : matchArg te n P v = some cs) (hs : solve te cs σ = some σ') :
    ∃ s', compareTemplated te s (mangle fn P) v = (true, s') ∧ Inv fn s' σ' ∧ Bound fn s' P ∧ Mono s s' := by
  have h := ct_succ te fn P n s σ v cs σ' hd hn hinv hm hs
  cases hc : compareTemplated te s (mangle fn P) v with
  | mk ok s1 =>
    rw [hc] at h
    simp only at h
    subst h
    obtain ⟨c1, σ1, a1, a2, a3, a4, a5⟩ := ct_sound te fn P n s σ v s1 hd hn hinv hc
    rw [hm] at a1; cases a1
    rw [hs] at a2; cases a2
    exact ⟨s1, rfl, a3, a4, a5⟩

/-- the constraints collected so far are a prefix of the final list -/
theorem foldl_specStep_prefix (te : TraitEnv) : ∀ (pairs : List ((String × Ty) × Ty)) (acc cons : List (String × Ty)),
    pairs.foldl (specStep te) (some acc) = some cons → ∃ ex, cons = acc ++ ex
  | [], acc, cons, h => by
    simp only [List.foldl_nil, Option.some.injEq] at h
    exact ⟨[], by simp [h]⟩
  | p :: ps, acc, cons, h => by
    simp only [List.foldl_cons] at h
    cases hm : matchArg te (depthTy p.1.2 + 1) p.1.2 p.2 with
    | none =>
      have : specStep te (some acc) p = none := by simp [specStep, hm]
      rw [this, foldl_specStep_none] at h; cases h
    | some l' =>
      rw [specStep_some te acc p l' hm] at h
      obtain ⟨ex, e⟩ := foldl_specStep_prefix te ps _ _ h
      exact ⟨l' ++ ex, by rw [e, List.append_assoc]⟩

/-- the argument loop: the converse of `args_sound` -/
theorem args_complete (te : TraitEnv) (fn : String) :
    ∀ (pairs : List ((String × Ty) × Ty)) (s : Subst) (σ acc cons σ' : List (String × Ty)),
      Inv fn s σ → solve te acc [] = some σ → (∀ p ∈ pairs, NoMangled fn p.2) →
      pairs.foldl (specStep te) (some acc) = some cons → solve te cons [] = some σ' →
      ∃ s', foldCT te fn s pairs = some s' ∧ Inv fn s' σ' ∧ (∀ p ∈ pairs, Bound fn s' p.1.2)
  | [], s, σ, acc, cons, σ', hinv, hs, _, hf, hs' => by
    simp only [List.foldl_nil, Option.some.injEq] at hf
    subst hf
    rw [hs] at hs'; cases hs'
    exact ⟨s, rfl, hinv, fun p hp => by simp at hp⟩
  | (d, v) :: rest, s, σ, acc, cons, σ', hinv, hs, hn, hf, hs' => by
    simp only [List.foldl_cons] at hf
    cases hm : matchArg te (depthTy d.2 + 1) d.2 v with
    | none =>
      have : specStep te (some acc) (d, v) = none := by simp [specStep, hm]
      rw [this, foldl_specStep_none] at hf; cases hf
    | some l' =>
      rw [specStep_some te acc (d, v) l' hm] at hf
      obtain ⟨ex, e⟩ := foldl_specStep_prefix te rest _ _ hf
      have hs2 := hs'
      rw [e, solve_append] at hs2
      cases hs1 : solve te (acc ++ l') [] with
      | none => simp [hs1] at hs2
      | some σ1 =>
        have hl' : solve te l' σ = some σ1 := by
          rw [solve_append, hs] at hs1; exact hs1
        obtain ⟨s1, hc, hi1, hb1, hm1⟩ :=
          ct_complete te fn d.2 (depthTy d.2 + 1) s σ v l' σ1 (by omega) (hn (d, v) (by simp)) hinv hm hl'
        obtain ⟨s', hf', hi', hb'⟩ := args_complete te fn rest s1 σ1 (acc ++ l') cons σ' hi1 hs1
          (fun p hp => hn p (by simp [hp])) hf hs'
        refine ⟨s', by simp only [foldCT, hc]; exact hf', hi', ?_⟩
        -- `Bound` of the first pair: from `args_sound` on the rest (monotone)
        obtain ⟨_, _, _, _, _, _, hmono⟩ :=
          args_sound te fn (specStep te) (specStep_some te) rest s1 σ1 (acc ++ l') s' hi1 hs1
            (fun p hp => hn p (by simp [hp])) hf'
        intro p hp
        simp only [List.mem_cons] at hp
        rcases hp with rfl | hp
        · intro r hr; exact hmono _ (hb1 r hr)
        · exact hb' p hp

end CCVerif.Types
