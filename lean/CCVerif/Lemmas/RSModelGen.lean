import CCVerif.Model.RSModelGen
import CCVerif.Lemmas.SchemaGen
import CCVerif.Lemmas.RSModel
/-!
Lemmas for the generic form of C11 (`Model/RSModelGen.lean`: a model never shows a calculated value
that is stale, for ANY evaluation that satisfies the laws `EvalLawful`). The development follows
`Lemmas/RSModel.lean`; the typed-value derivations `TV` of the fragment are replaced by `TVal`
(least solution of "the value of a verified term is the evaluation of its definition against
intended values of constituents it mentions" — against ANY PART of them: the evaluator may
short-circuit, so the law is monotonicity in the context, not strictness).

* §1 value storage      * §2 laws, `TVal`      * §3 distinct aliases      * §4 the invariant
* §5 `calculateInternal`, `recalculateAll`      * §6 `ResetDependants`      * §7 the editing steps
* §8 `recomputed` computes `TVal`      * §9 histories
-/
namespace CCVerif.RSModelGen
open CCVerif CCVerif.SchemaGen CCVerif.Graph
open CCVerif.Schema (Kind)
open CCVerif.RSModel (find_filter_ne find_filter_self foldl_inv)
open CCVerif.Schema (mem_topologicalOrder)

variable {D I V : Type} {A : Analysis D I} {E : Eval D I V}

/-! ## §1 value storage -/

theorem dataFor_setData_self (st : St D I V) (u : Nat) (d : V) : (st.setData u d).dataFor u = some d := by
  simp [St.dataFor, St.setData]

theorem dataFor_setData_ne (st : St D I V) {u w : Nat} (d : V) (h : w ≠ u) :
    (st.setData u d).dataFor w = st.dataFor w := by
  unfold St.dataFor St.setData
  simp only
  have : ((u, d).1 == w) = false := by simpa using fun e => h e.symm
  rw [List.find?_cons, this, find_filter_ne _ h]

theorem dataFor_eraseData_self (st : St D I V) (u : Nat) : (st.eraseData u).dataFor u = none := by
  unfold St.dataFor St.eraseData
  simp only
  rw [find_filter_self]
  rfl

theorem dataFor_eraseData_ne (st : St D I V) {u w : Nat} (h : w ≠ u) :
    (st.eraseData u).dataFor w = st.dataFor w := by
  unfold St.dataFor St.eraseData
  simp only
  rw [find_filter_ne _ h]

theorem kindOf_congr {st st' : St D I V} (h : st'.sch.store = st.sch.store) (u : Nat) :
    st'.kindOf u = st.kindOf u := by
  unfold St.kindOf St.at
  rw [h]

theorem resetFor_sch (st : St D I V) (u : Nat) : (st.resetFor E u).sch = st.sch := by
  unfold St.resetFor
  simp only
  split <;> rfl

theorem dataFor_resetFor_ne (st : St D I V) {u w : Nat} (h : w ≠ u) :
    (st.resetFor E u).dataFor w = st.dataFor w := by
  unfold St.resetFor
  simp only
  split
  · show (St.setData (st.eraseData u) u E.baseReset).dataFor w = _
    rw [dataFor_setData_ne _ _ h, dataFor_eraseData_ne _ h]
  · exact dataFor_eraseData_ne _ h

theorem dataFor_resetFor_term (st : St D I V) {u : Nat} (h : st.kindOf u = some .term) :
    (st.resetFor E u).dataFor u = none := by
  unfold St.resetFor
  simp only
  have : (st.eraseData u).kindOf u = some .term := h
  rw [this]
  exact dataFor_eraseData_self st u

theorem resetBoth_sch (st : St D I V) (u : Nat) : (st.resetBoth E u).sch = st.sch := resetFor_sch st u

theorem dataFor_resetBoth (st : St D I V) (u w : Nat) : (st.resetBoth E u).dataFor w = (st.resetFor E u).dataFor w := rfl

/-- `ResetItems`: the values of the listed terms (other than the target) are dropped, every other
value is kept, the schema is untouched -/
theorem resetItems_spec (items : List Nat) (target : Nat) : ∀ st : St D I V,
    (st.resetItems E items target).sch = st.sch ∧
    ∀ w, ((w ∈ items ∧ w ≠ target ∧ st.kindOf w = some .term) → (st.resetItems E items target).dataFor w = none) ∧
      (¬ (w ∈ items ∧ w ≠ target ∧ st.kindOf w = some .term) →
        (st.resetItems E items target).dataFor w = st.dataFor w) := by
  induction items with
  | nil =>
    intro st
    refine ⟨rfl, fun w => ⟨?_, fun _ => rfl⟩⟩
    rintro ⟨h, _⟩
    cases h
  | cons d ds ih =>
    intro st
    unfold St.resetItems
    rw [List.foldl_cons]
    generalize hs1 : (if (d != target && st.kindOf d == some Kind.term) = true then st.resetBoth E d else st) = s1
    have hsch : s1.sch = st.sch := by
      rw [← hs1]; split
      · exact resetBoth_sch st d
      · rfl
    have hk : ∀ w, s1.kindOf w = st.kindOf w := fun w => kindOf_congr (by rw [hsch]) w
    obtain ⟨r1, r2⟩ := ih s1
    unfold St.resetItems at r1 r2
    refine ⟨r1.trans hsch, fun w => ⟨?_, ?_⟩⟩
    · rintro ⟨hw, hne, hkw⟩
      by_cases hin : w ∈ ds
      · exact (r2 w).1 ⟨hin, hne, by rw [hk]; exact hkw⟩
      · rw [(r2 w).2 (fun h => hin h.1)]
        have hwd : w = d := by
          rcases List.mem_cons.1 hw with h | h
          · exact h
          · exact absurd h hin
        subst hwd
        rw [← hs1]
        have : (w != target && st.kindOf w == some Kind.term) = true := by simp [hne, hkw]
        rw [if_pos this, dataFor_resetBoth]
        exact dataFor_resetFor_term st hkw
    · intro hnot
      by_cases hin : w ∈ ds ∧ w ≠ target ∧ s1.kindOf w = some .term
      · exact absurd ⟨List.mem_cons_of_mem _ hin.1, hin.2.1, by rw [← hk]; exact hin.2.2⟩ hnot
      · rw [(r2 w).2 hin, ← hs1]
        split
        · next hc =>
          have hwd : w ≠ d := by
            intro e
            subst e
            apply hnot
            simp only [Bool.and_eq_true, bne_iff_ne, ne_eq, beq_iff_eq] at hc
            exact ⟨by simp, hc.1, hc.2⟩
          rw [dataFor_resetBoth, dataFor_resetFor_ne _ hwd]
        · rfl


/-! ## §2 the laws of an evaluation, the intended value -/

/-- the hypotheses on analysis and evaluation (on top of `SchemaGen.Lawful A`) -/
structure EvalLawful (A : Analysis D I) (E : Eval D I V) : Prop where
  /-- the analysis does not read the store-without-definitions (what `TraitsFor` does with the kinds
  of base sets occurring in TYPES is outside this generalisation) -/
  skel_indep : ∀ (sk sk' : Skel) (ctx : String → Option I) (c : Cst D),
    A.analyse sk ctx c = A.analyse sk' ctx c
  /-- a mentioned name that denotes nothing makes the analysis fail (`globalNotTyped`) -/
  missing : ∀ (sk : Skel) (ctx : String → Option I) (c : Cst D) (m : String),
    m ∈ A.mentions c.defn → ctx m = none → A.ok (A.analyse sk ctx c) = false
  /-- `status == VERIFIED` only on successful entries -/
  verified_ok : ∀ (sk : Skel) (ctx : String → Option I) (c : Cst D),
    E.verified (A.analyse sk ctx c) = true → A.ok (A.analyse sk ctx c) = true
  /-- FRAME + monotonicity: the evaluation reads the context only at the names the graph updater
  extracts, and a value obtained from partial information is not changed by more information
  (the evaluator may short-circuit, it is not strict) -/
  mono : ∀ (ctx ctx' : String → Option V) (c : Cst D) (v : V),
    (∀ m ∈ A.mentions c.defn, ∀ x, ctx m = some x → ctx' m = some x) →
    E.eval ctx c = some v → E.eval ctx' c = some v

/-- the evaluation context in which the constituent with uid `w` shows the value `vf w` -/
def ctxV (s : List (Cst D)) (vf : Nat → Option V) : String → Option V := fun m => (findAliasL s m).bind vf

theorem vctx_eq (st : St D I V) : st.vctx = ctxV st.sch.store st.dataFor := rfl

/-- `TVal A E s dat u v`: `v` is the intended value of `u` — a base set shows its data `dat`, a
verified term the evaluation of its definition against intended values of (some of the) constituents
it mentions. Least solution; depends on the store and on `dat` at base sets only. -/
inductive TVal (A : Analysis D I) (E : Eval D I V) (s : List (Cst D)) (dat : Nat → Option V) :
    Nat → V → Prop
  | base {c : Cst D} {v : V} : c ∈ s → c.kind = .base → dat c.uid = some v → TVal A E s dat c.uid v
  | term {c : Cst D} {i : I} {v : V} (vf : Nat → Option V) : c ∈ s → c.kind = .term →
      Val A s c.uid i → E.verified i = true →
      (∀ m ∈ A.mentions c.defn, ∀ w x, findAliasL s m = some w → vf w = some x → TVal A E s dat w x) →
      E.eval (ctxV s vf) c = some v → TVal A E s dat c.uid v

theorem TVal.mem {s : List (Cst D)} {dat : Nat → Option V} {u : Nat} {v : V}
    (h : TVal A E s dat u v) : u ∈ uids s := by
  cases h with
  | base hc _ _ => exact mem_uids.2 ⟨_, hc, rfl⟩
  | term _ hc _ _ _ _ _ => exact mem_uids.2 ⟨_, hc, rfl⟩

theorem TVal.inv {s : List (Cst D)} {dat : Nat → Option V} (hn : (uids s).Nodup) {c : Cst D} (hc : c ∈ s)
    {v : V} (h : TVal A E s dat c.uid v) :
    (c.kind = .base ∧ dat c.uid = some v) ∨
    (c.kind = .term ∧ ∃ (i : I) (vf : Nat → Option V), Val A s c.uid i ∧ E.verified i = true ∧
      (∀ m ∈ A.mentions c.defn, ∀ w x, findAliasL s m = some w → vf w = some x → TVal A E s dat w x) ∧
      E.eval (ctxV s vf) c = some v) := by
  generalize hu : c.uid = u at h
  cases h with
  | base h1 h2 h3 =>
    have := eq_of_uid_eq hn hc h1 hu
    subst this
    exact Or.inl ⟨h2, h3⟩
  | @term _ i _ vf h1 h2 h3 h4 h5 h6 =>
    have := eq_of_uid_eq hn hc h1 hu
    subst this
    exact Or.inr ⟨h2, i, vf, h3, h4, h5, h6⟩

/-- the intended value is unique -/
theorem TVal.unique (hE : EvalLawful A E) {s : List (Cst D)} {dat : Nat → Option V}
    (hn : (uids s).Nodup) {u : Nat} {v v' : V} (h1 : TVal A E s dat u v) (h2 : TVal A E s dat u v') :
    v = v' := by
  induction h1 generalizing v' with
  | @base c v hc hk hd =>
    rcases TVal.inv hn hc h2 with ⟨_, hd'⟩ | ⟨hk', _⟩
    · rw [hd] at hd'; exact Option.some.inj hd'
    · rw [hk] at hk'; cases hk'
  | @term c i v vf hc hk hv hver hdeps hev ih =>
    rcases TVal.inv hn hc h2 with ⟨hk', _⟩ | ⟨_, i', vf', _, _, hdeps', hev'⟩
    · rw [hk] at hk'; cases hk'
    · -- evaluate against the join of the two partial contexts
      have e1 := hE.mono (ctxV s vf) (ctxV s (fun w => (vf w).orElse (fun _ => vf' w))) c v
        (by
          intro m hm x hx
          unfold ctxV at hx ⊢
          cases hf : findAliasL s m with
          | none => rw [hf] at hx; cases hx
          | some w =>
            rw [hf] at hx
            simp only [Option.bind_some] at hx ⊢
            rw [hx]; rfl) hev
      have e2 := hE.mono (ctxV s vf') (ctxV s (fun w => (vf w).orElse (fun _ => vf' w))) c v'
        (by
          intro m hm x hx
          unfold ctxV at hx ⊢
          cases hf : findAliasL s m with
          | none => rw [hf] at hx; cases hx
          | some w =>
            rw [hf] at hx
            simp only [Option.bind_some] at hx ⊢
            cases hvw : vf w with
            | none => rw [hx]; rfl
            | some y =>
              have := ih m hm w y hf hvw (hdeps' m hm w x hf hx)
              rw [this]; rfl) hev'
      rw [e1] at e2
      exact Option.some.inj e2

/-- a constituent with a successful entry mentions only names that denote constituents with a
successful entry -/
theorem _root_.CCVerif.SchemaGen.Val.resolved (hE : EvalLawful A E) {s : List (Cst D)} (hn : (uids s).Nodup) {c : Cst D}
    (hc : c ∈ s) {i : I} (h : Val A s c.uid i) :
    ∀ m ∈ A.mentions c.defn, ∃ w j, findAliasL s m = some w ∧ Val A s w j := by
  obtain ⟨c', hc', hu, jf, hd, hok, rfl⟩ := h.inv
  have := eq_of_uid_eq hn hc' hc hu
  subst this
  intro m hm
  cases hf : findAliasL s m with
  | none =>
    have := hE.missing (skelOf s) (ctxOf s jf) c' m hm (by unfold ctxOf; rw [hf]; rfl)
    rw [this] at hok
    cases hok
  | some w => exact ⟨w, jf w, rfl, hd m hm w hf⟩

/-- FRAME: a successful entry only depends on the constituents reached backwards (a set `Q` closed
under resolved mentions whose resolution is kept) -/
theorem _root_.CCVerif.SchemaGen.Val.transfer' (hA : Lawful A) (hE : EvalLawful A E) {s s' : List (Cst D)} (Q : Nat → Prop)
    (hmem : ∀ c ∈ s, Q c.uid → c ∈ s')
    (hfa : ∀ c ∈ s, Q c.uid → ∀ m ∈ A.mentions c.defn, ∀ w, findAliasL s m = some w →
      findAliasL s' m = some w ∧ Q w)
    {u : Nat} {i : I} (h : Val A s u i) : Q u → Val A s' u i := by
  induction h with
  | @mk c jf hc hd hok ih =>
    intro hq
    have hres : ∀ m ∈ A.mentions c.defn, ∃ w, findAliasL s m = some w := by
      intro m hm
      cases hf : findAliasL s m with
      | none =>
        have := hE.missing (skelOf s) (ctxOf s jf) c m hm (by unfold ctxOf; rw [hf]; rfl)
        rw [this] at hok
        cases hok
      | some w => exact ⟨w, rfl⟩
    have heq : A.analyse (skelOf s') (ctxOf s' jf) c = A.analyse (skelOf s) (ctxOf s jf) c := by
      rw [hE.skel_indep (skelOf s') (skelOf s)]
      apply hA.frame
      intro m hm
      left
      obtain ⟨w, hw⟩ := hres m hm
      unfold ctxOf
      rw [hw, (hfa c hc hq m hm w hw).1]
    have := Val.mk (A := A) (s := s') jf (hmem c hc hq)
      (fun m hm v hv => by
        obtain ⟨w, hw⟩ := hres m hm
        obtain ⟨h1, h2⟩ := hfa c hc hq m hm w hw
        rw [h1] at hv
        have e : w = v := Option.some.inj hv
        subst e
        exact ih m hm w hw h2)
      (by rw [heq]; exact hok)
    rw [heq] at this
    exact this

/-- FRAME / transfer: the intended value of `u` only depends on the constituents `u` reaches
backwards (a set `Q` closed under resolved mentions) and on the data of the base sets among them -/
theorem TVal.transfer_id (hA : Lawful A) (hE : EvalLawful A E) {s s' : List (Cst D)}
    {dat dat' : Nat → Option V} (hn : (uids s).Nodup) (Q : Nat → Prop)
    (hmem : ∀ c ∈ s, Q c.uid → c ∈ s')
    (hfa : ∀ c ∈ s, Q c.uid → ∀ m ∈ A.mentions c.defn, ∀ w, findAliasL s m = some w →
      findAliasL s' m = some w ∧ Q w)
    (hdat : ∀ c ∈ s, Q c.uid → c.kind = .base → dat' c.uid = dat c.uid)
    {u : Nat} {v : V} (h : TVal A E s dat u v) : Q u → TVal A E s' dat' u v := by
  induction h with
  | @base c v hc hk hd =>
    intro hq
    exact TVal.base (hmem c hc hq) hk (by rw [hdat c hc hq hk]; exact hd)
  | @term c i v vf hc hk hv hver hdeps hev ih =>
    intro hq
    have hres := hv.resolved hE hn hc
    refine TVal.term vf (hmem c hc hq) hk (hv.transfer' hA hE Q hmem hfa hq) hver ?_ ?_
    · intro m hm w x hw hx
      obtain ⟨w0, _, hw0, _⟩ := hres m hm
      obtain ⟨h1, h2⟩ := hfa c hc hq m hm w0 hw0
      rw [h1] at hw
      have e : w0 = w := Option.some.inj hw
      subst e
      exact ih m hm w0 x hw0 hx h2
    · refine hE.mono (ctxV s vf) (ctxV s' vf) c v ?_ hev
      intro m hm x hx
      obtain ⟨w0, _, hw0, _⟩ := hres m hm
      unfold ctxV at hx ⊢
      rw [hw0] at hx
      rw [(hfa c hc hq m hm w0 hw0).1]
      exact hx

/-- the value does not depend on the values stored for terms -/
theorem TVal.congr_dat (hA : Lawful A) (hE : EvalLawful A E) {s : List (Cst D)}
    {dat dat' : Nat → Option V} (hn : (uids s).Nodup)
    (hdat : ∀ c ∈ s, c.kind = .base → dat' c.uid = dat c.uid)
    {u : Nat} {v : V} (h : TVal A E s dat u v) : TVal A E s dat' u v :=
  TVal.transfer_id hA hE hn (fun _ => True) (fun _ hc _ => hc) (fun _ _ _ _ _ _ hw => ⟨hw, trivial⟩)
    (fun c hc _ hk => hdat c hc hk) h trivial

/-! ## §3 pairwise distinct aliases -/

theorem findAliasL_of_distinct {s : List (Cst D)} (hd : (s.map (·.alias)).Nodup) {c : Cst D} (hc : c ∈ s) :
    findAliasL s c.alias = some c.uid := by
  unfold findAliasL
  cases hf : s.find? (·.alias == c.alias) with
  | none =>
    have := List.find?_eq_none.1 hf c hc
    simp at this
  | some d =>
    have hd' := List.mem_of_find?_eq_some hf
    have ha : d.alias = c.alias := by simpa using List.find?_some hf
    rw [eq_of_alias_eq hd hd' hc ha]
    rfl

theorem eraseOk_of_distinct {s : List (Cst D)} (hd : (s.map (·.alias)).Nodup) (u : Nat) : EraseOk s u := by
  intro c hc hcu d hd' hal
  rw [eq_of_alias_eq hd hd' hc hal]
  exact hcu

/-! ## §4 the invariant -/

/-- invariant of the reachable states: the schema layer is well formed (C07), aliases are pairwise
distinct, and every value stored for a term is the intended value of that term w.r.t. the current
definitions and the current base data -/
structure Inv (A : Analysis D I) (E : Eval D I V) (st : St D I V) : Prop where
  wf : SchemaGen.WF A st.sch
  dist : AliasesDistinct st.sch
  val : ∀ u v, st.kindOf u = some .term → st.dataFor u = some v →
    TVal A E st.sch.store st.dataFor u v

theorem kindOf_of_mem {st : St D I V} (hn : (uids st.sch.store).Nodup) {c : Cst D} (hc : c ∈ st.sch.store) :
    st.kindOf c.uid = some c.kind := by
  unfold St.kindOf
  rw [at_of_mem hn hc]
  rfl

theorem kindOf_eq_some {st : St D I V} {u : Nat} {k : Kind} (h : st.kindOf u = some k) :
    ∃ c, st.sch.at u = some c ∧ c ∈ st.sch.store ∧ c.uid = u ∧ c.kind = k := by
  unfold St.kindOf at h
  cases hat : st.sch.at u with
  | none => rw [hat] at h; cases h
  | some c =>
    rw [hat] at h
    obtain ⟨h1, h2⟩ := mem_of_at hat
    exact ⟨c, rfl, h1, h2, by simpa using h⟩

theorem ne_of_kinds {st : St D I V} (hn : (uids st.sch.store).Nodup) {c : Cst D} (hc : c ∈ st.sch.store)
    (hk : c.kind = .base) {u : Nat} (hu : st.kindOf u = some .term) : c.uid ≠ u := by
  intro e
  rw [← e, kindOf_of_mem hn hc, hk] at hu
  cases hu

/-- values of terms may be dropped, values of base sets must stay -/
theorem Inv.mono (hA : Lawful A) (hE : EvalLawful A E) {st st' : St D I V} (h : Inv A E st)
    (hs : st'.sch = st.sch)
    (hb : ∀ c ∈ st.sch.store, c.kind = .base → st'.dataFor c.uid = st.dataFor c.uid)
    (ht : ∀ u v, st.kindOf u = some .term → st'.dataFor u = some v → st.dataFor u = some v) :
    Inv A E st' := by
  refine ⟨by rw [hs]; exact h.wf, by rw [hs]; exact h.dist, ?_⟩
  intro u v hk hv
  have hk' : st.kindOf u = some .term := by rw [← kindOf_congr (st := st) (st' := st') (by rw [hs])]; exact hk
  have ht' := h.val u v hk' (ht u v hk' hv)
  rw [hs]
  exact ht'.congr_dat hA hE h.wf.base.nodup hb

/-! ## §5 `calculateInternal`, `recalculateAll` -/

/-- a verified entry of a well-formed schema is a successful one -/
theorem verified_val (hA : Lawful A) (hE : EvalLawful A E) {sch : SchemaGen.St D I} (h : SchemaGen.WF A sch)
    {u : Nat} (hu : u ∈ uids sch.store) (hv : E.verified (sch.infoFor A u) = true) :
    Val A sch.store u (sch.infoFor A u) := by
  have hfin := h.sync u hu
  apply hfin.val hA
  obtain ⟨c, _, _, jf, _, e⟩ := hfin
  rw [e] at hv ⊢
  exact hE.verified_ok _ _ _ hv

/-- the value `CalculateCstInternal` stores is the intended one -/
theorem calc_value (hA : Lawful A) (hE : EvalLawful A E) {st : St D I V} (h : Inv A E st) {c : Cst D}
    (hc : c ∈ st.sch.store) (hk : c.kind = .term)
    (hv : E.verified (st.sch.infoFor A c.uid) = true) {v : V} (hev : E.eval st.vctx c = some v) :
    TVal A E st.sch.store st.dataFor c.uid v := by
  have hn := h.wf.base.nodup
  refine TVal.term st.dataFor hc hk (verified_val hA hE h.wf (mem_uids.2 ⟨c, hc, rfl⟩) hv) hv ?_
    (by rw [← vctx_eq]; exact hev)
  intro m _ w x hw hx
  obtain ⟨cw, hcw, hcwu, _⟩ := findAliasL_mem hw
  subst hcwu
  cases hkw : cw.kind with
  | base => exact TVal.base hcw hkw hx
  | term => exact h.val cw.uid x (by rw [kindOf_of_mem hn hcw, hkw]) hx

def markCalc (st : St D I V) (u : Nat) : St D I V :=
  { st with calcd := if st.calcd.contains u then st.calcd else u :: st.calcd }

theorem calculateInternal_eq {st : St D I V} {u : Nat} {c : Cst D} (hat : st.sch.at u = some c) :
    st.calculateInternal A E u =
      if !E.verified (st.sch.infoFor A u) then (st, false)
      else match E.eval st.vctx c with
        | some v => ((markCalc st u).setData u v, true)
        | none => (markCalc st u, false) := by
  unfold St.calculateInternal
  rw [hat]
  rfl

theorem calculateInternal_none {st : St D I V} {u : Nat} (hat : st.sch.at u = none) :
    st.calculateInternal A E u = (st, false) := by
  unfold St.calculateInternal
  rw [hat]

theorem calculateInternal_sch (st : St D I V) (u : Nat) : (st.calculateInternal A E u).1.sch = st.sch := by
  cases hat : st.sch.at u with
  | none => rw [calculateInternal_none hat]
  | some c =>
    rw [calculateInternal_eq hat]
    split
    · rfl
    · split <;> rfl

/-- `CalculateCstInternal` changes at most the value of its target -/
theorem calculateInternal_ne (st : St D I V) {u w : Nat} (h : w ≠ u) :
    (st.calculateInternal A E u).1.dataFor w = st.dataFor w := by
  cases hat : st.sch.at u with
  | none => rw [calculateInternal_none hat]
  | some c =>
    rw [calculateInternal_eq hat]
    split
    · rfl
    · split
      · exact dataFor_setData_ne _ _ h
      · rfl

theorem Inv.calculateInternal (hA : Lawful A) (hE : EvalLawful A E) {st : St D I V} (h : Inv A E st)
    {u : Nat} (hk : st.kindOf u = some .term) : Inv A E (st.calculateInternal A E u).1 := by
  obtain ⟨c, hat, hc, hcu, hck⟩ := kindOf_eq_some hk
  subst hcu
  have hn := h.wf.base.nodup
  rw [calculateInternal_eq hat]
  split
  · exact h
  · next hver =>
    have hver' : E.verified (st.sch.infoFor A c.uid) = true := by simpa using hver
    have h1 : Inv A E (markCalc st c.uid) := h.mono hA hE rfl (fun _ _ _ => rfl) (fun _ _ _ hv => hv)
    split
    · next v hev =>
      have ht := calc_value hA hE h hc hck hver' hev
      refine ⟨h.wf, h.dist, ?_⟩
      intro w v' hkw hvw
      have hbase : ∀ c' ∈ st.sch.store, c'.kind = .base →
          ((markCalc st c.uid).setData c.uid v).dataFor c'.uid = st.dataFor c'.uid := by
        intro c' hc' hk'
        exact dataFor_setData_ne _ _ (ne_of_kinds hn hc' hk' hk)
      by_cases hwu : w = c.uid
      · subst hwu
        have hvw' : ((markCalc st c.uid).setData c.uid v).dataFor c.uid = some v' := hvw
        rw [dataFor_setData_self] at hvw'
        have e := Option.some.inj hvw'
        rw [← e]
        exact ht.congr_dat hA hE hn hbase
      · have hvw' : ((markCalc st c.uid).setData c.uid v).dataFor w = some v' := hvw
        rw [dataFor_setData_ne _ _ hwu] at hvw'
        exact (h.val w v' hkw hvw').congr_dat hA hE hn hbase
    · exact h1

theorem Inv.resetFor_term (hA : Lawful A) (hE : EvalLawful A E) {st : St D I V} (h : Inv A E st) {u : Nat}
    (hk : st.kindOf u = some .term) : Inv A E (st.resetFor E u) := by
  have hn := h.wf.base.nodup
  refine h.mono hA hE (resetFor_sch st u) ?_ ?_
  · intro c hc hkb
    exact dataFor_resetFor_ne st (ne_of_kinds hn hc hkb hk)
  · intro w v _ hv
    by_cases hwu : w = u
    · subst hwu
      rw [dataFor_resetFor_term st hk] at hv
      cases hv
    · rw [dataFor_resetFor_ne st hwu] at hv
      exact hv

theorem Inv.recalculateAll (hA : Lawful A) (hE : EvalLawful A E) {st : St D I V} (h : Inv A E st) :
    Inv A E (st.recalculateAll A E) := by
  unfold St.recalculateAll
  simp only
  rw [ensureGraph_valid h.wf.valid]
  have h1 : Inv A E ({ st with sch := st.sch, calcd := [] } : St D I V) :=
    h.mono hA hE rfl (fun _ _ _ => rfl) (fun _ _ _ hv => hv)
  have h2 := foldl_inv (fun s : St D I V => Inv A E s ∧ s.sch = st.sch)
    (fun s c => if c.kind == .term then s.resetFor E c.uid else s) st.sch.store
    (by
      intro s c hc ⟨hi, hs⟩
      split
      · next hk =>
        have hk' : s.kindOf c.uid = some .term := by
          rw [kindOf_of_mem (by rw [hs]; exact h.wf.base.nodup) (by rw [hs]; exact hc)]
          simpa using hk
        exact ⟨hi.resetFor_term hA hE hk', (resetFor_sch s c.uid).trans hs⟩
      · exact ⟨hi, hs⟩) _ ⟨h1, rfl⟩
  exact foldl_inv (Inv A E) (fun s u => if s.kindOf u == some .term then (s.calculateInternal A E u).1 else s)
    _ (by
      intro s u _ hi
      split
      · next hk => exact hi.calculateInternal hA hE (by simpa using hk)
      · exact hi) _ h2.1

/-! ## §6 `ResetDependants` -/

/-- `ResetDependants(u)` drops exactly the values of the terms that depend on `u` -/
theorem resetDependants_spec {st : St D I V} (hwf : SchemaGen.WF A st.sch) {u : Nat}
    (hu : u ∈ uids st.sch.store) :
    (st.resetDependants A E u).sch = st.sch ∧
    ∀ w, ((Reach (Graph.edges st.sch.graph) u w ∧ w ≠ u ∧ st.kindOf w = some .term) →
        (st.resetDependants A E u).dataFor w = none) ∧
      (¬ (Reach (Graph.edges st.sch.graph) u w ∧ w ≠ u ∧ st.kindOf w = some .term) →
        (st.resetDependants A E u).dataFor w = st.dataFor w) := by
  unfold St.resetDependants
  simp only
  rw [ensureGraph_valid hwf.valid]
  obtain ⟨r1, r2⟩ := resetItems_spec (E := E) (Graph.expandOutputs st.sch.graph [u]) u { st with sch := st.sch }
  refine ⟨r1, fun w => ?_⟩
  have := r2 w
  rw [mem_expansion hwf.cur hu w] at this
  exact this

/-- what does not depend on `u` does not mention anything that depends on `u` -/
theorem notReach_closed {sch : SchemaGen.St D I} (hwf : SchemaGen.WF A sch) {u : Nat} {c : Cst D}
    (hc : c ∈ sch.store) (hnr : ¬ Reach (Graph.edges sch.graph) u c.uid) {m : String}
    (hm : m ∈ A.mentions c.defn) {w : Nat}
    (hw : findAliasL sch.store m = some w) : ¬ Reach (Graph.edges sch.graph) u w := by
  intro hr
  exact hnr (hr.tail ((hwf.cur.edges w c.uid).2 ⟨c, hc, rfl, mem_inputsOfL.2 ⟨m, hm, hw⟩⟩))

/-- the value of a base set `u` changes, then `ResetDependants(u)` -/
theorem Inv.baseChange (hA : Lawful A) (hE : EvalLawful A E) {st st1 : St D I V} (h : Inv A E st)
    (hs : st1.sch = st.sch) {u : Nat}
    (hk : st.kindOf u = some .base) (hd : ∀ w, w ≠ u → st1.dataFor w = st.dataFor w) :
    Inv A E (st1.resetDependants A E u) := by
  have hn := h.wf.base.nodup
  have hwf1 : SchemaGen.WF A st1.sch := by rw [hs]; exact h.wf
  obtain ⟨cu, _, hcu, hcuu, _⟩ := kindOf_eq_some hk
  have hu : u ∈ uids st1.sch.store := by rw [hs]; exact mem_uids.2 ⟨cu, hcu, hcuu⟩
  obtain ⟨r1, r2⟩ := resetDependants_spec (E := E) hwf1 hu
  have hsch : (st1.resetDependants A E u).sch = st.sch := r1.trans hs
  have hkind : ∀ w, st1.kindOf w = st.kindOf w := fun w => kindOf_congr (by rw [hs]) w
  refine ⟨by rw [hsch]; exact h.wf, by rw [hsch]; exact h.dist, ?_⟩
  intro w v hkw hvw
  have hkw' : st.kindOf w = some .term := by
    rw [← kindOf_congr (st := st) (st' := st1.resetDependants A E u) (by rw [hsch])]; exact hkw
  have hwu : w ≠ u := by
    intro e
    rw [e, hk] at hkw'
    cases hkw'
  by_cases hr : Reach (Graph.edges st1.sch.graph) u w
  · rw [(r2 w).1 ⟨hr, hwu, by rw [hkind]; exact hkw'⟩] at hvw
    cases hvw
  · rw [(r2 w).2 (fun h' => hr h'.1), hd w hwu] at hvw
    have ht := h.val w v hkw' hvw
    rw [hsch]
    refine TVal.transfer_id hA hE hn (fun x => ¬ Reach (Graph.edges st1.sch.graph) u x) (fun _ hc _ => hc)
      ?_ ?_ ht hr
    · intro c hc hq m hm w' hw'
      refine ⟨hw', ?_⟩
      exact notReach_closed hwf1 (by rw [hs]; exact hc) hq hm (by rw [hs]; exact hw')
    · intro c hc hq hkb
      have hne : c.uid ≠ u := fun e => hq (e ▸ Reach.refl _)
      rw [(r2 c.uid).2 ?_, hd _ hne]
      rintro ⟨_, _, hk3⟩
      rw [hkind, kindOf_of_mem hn hc, hkb] at hk3
      cases hk3

theorem Inv.resetDependants (hA : Lawful A) (hE : EvalLawful A E) {st : St D I V} (h : Inv A E st)
    {u : Nat} (hu : u ∈ uids st.sch.store) : Inv A E (st.resetDependants A E u) := by
  obtain ⟨r1, r2⟩ := resetDependants_spec (E := E) h.wf hu
  refine h.mono hA hE r1 ?_ ?_
  · intro c hc hk
    apply (r2 c.uid).2
    rintro ⟨_, _, hk3⟩
    rw [kindOf_of_mem h.wf.base.nodup hc, hk] at hk3
    cases hk3
  · intro w v _ hv
    by_cases hr : Reach (Graph.edges st.sch.graph) u w ∧ w ≠ u ∧ st.kindOf w = some .term
    · rw [(r2 w).1 hr] at hv
      cases hv
    · rw [(r2 w).2 hr] at hv
      exact hv

/-! ## §7 the editing steps -/

section steps
variable [DecidableEq D]

theorem Inv.setBase (hA : Lawful A) (hE : EvalLawful A E) {st : St D I V} (h : Inv A E st) (u : Nat) (v : V) :
    Inv A E (step A E st (.setBase u v)) := by
  unfold step
  simp only
  split
  · exact h
  · next hk =>
    have hk' : st.kindOf u = some .base := by simpa using hk
    refine h.baseChange hA hE ?_ hk' ?_
    · rfl
    · intro w hw
      exact dataFor_setData_ne _ _ hw

theorem Inv.calculate (hA : Lawful A) (hE : EvalLawful A E) {st : St D I V} (h : Inv A E st) (u : Nat) :
    Inv A E (step A E st (.calculate u)) := by
  unfold step
  simp only
  split
  · exact h
  · next hk =>
    have hk' : st.kindOf u = some .term := by simpa using hk
    obtain ⟨c, _, hc, hcu, _⟩ := kindOf_eq_some hk'
    apply (h.calculateInternal hA hE hk').resetDependants hA hE
    rw [calculateInternal_sch]
    exact mem_uids.2 ⟨c, hc, hcu⟩

omit [DecidableEq D] in
/-- a schema-level step that keeps the store -/
theorem Inv.schOnly {st : St D I V} (h : Inv A E st) {sch' : SchemaGen.St D I} (hwf : SchemaGen.WF A sch')
    (hs : sch'.store = st.sch.store) : Inv A E { st with sch := sch' } := by
  refine ⟨hwf, ?_, ?_⟩
  · show (sch'.store.map (·.alias)).Nodup
    rw [hs]; exact h.dist
  · intro u v hk hv
    have hk' : st.kindOf u = some .term := by
      rw [← kindOf_congr (st := st) (st' := { st with sch := sch' }) hs]; exact hk
    have ht := h.val u v hk' hv
    show TVal A E sch'.store st.dataFor u v
    rw [hs]
    exact ht

theorem Inv.updateState (hA : Lawful A) {st : St D I V} (h : Inv A E st) :
    Inv A E (step A E st (.schema .updateState)) := by
  unfold step
  exact h.schOnly (h.wf.updateState hA) (updateState_spec hA h.wf.base (Or.inr ⟨h.wf.valid, h.wf.cur⟩)).2

/-! ### `insert` -/

omit [DecidableEq D] in
theorem mem_insertCst_of_mem {c x : Cst D} {s : List (Cst D)} (h : x ∈ s) : x ∈ insertCst c s := by
  induction s with
  | nil => cases h
  | cons d ds ih =>
    unfold insertCst
    split
    · exact List.mem_cons_of_mem _ h
    · split
      · exact h
      · rcases List.mem_cons.1 h with e | h'
        · rw [e]; simp
        · exact List.mem_cons_of_mem _ (ih h')

omit [DecidableEq D] in
theorem mem_insertCst_self {c : Cst D} {s : List (Cst D)} (h : c.uid ∉ uids s) : c ∈ insertCst c s := by
  induction s with
  | nil => simp [insertCst]
  | cons d ds ih =>
    unfold insertCst
    split
    · simp
    · split
      · next h2 => exact absurd (by simp [uids, h2]) h
      · exact List.mem_cons_of_mem _ (ih (fun hh => h (by
          simp only [uids, List.map_cons]; exact List.mem_cons_of_mem _ hh)))

omit [DecidableEq D] in
theorem mem_insertCst {c x : Cst D} {s : List (Cst D)} (h : x ∈ insertCst c s) : x = c ∨ x ∈ s := by
  induction s with
  | nil =>
    simp only [insertCst, List.mem_singleton] at h
    exact Or.inl h
  | cons d ds ih =>
    unfold insertCst at h
    split at h
    · rcases List.mem_cons.1 h with e | h'
      · exact Or.inl e
      · exact Or.inr h'
    · split at h
      · exact Or.inr h
      · rcases List.mem_cons.1 h with e | h'
        · exact Or.inr (by rw [e]; simp)
        · rcases ih h' with e | h''
          · exact Or.inl e
          · exact Or.inr (List.mem_cons_of_mem _ h'')

theorem insert_spec (hA : Lawful A) {sch : SchemaGen.St D I} (h : SchemaGen.WF A sch) (c : Cst D)
    (hh : ¬ sch.hasInfo c.uid = true) :
    (SchemaGen.step A sch (.insert c)).store = insertCst c sch.store ∧ c.uid ∉ uids sch.store := by
  have hnot : c.uid ∉ uids sch.store := fun hu => hh ((h.base.keys c.uid).2 hu)
  refine ⟨?_, hnot⟩
  unfold SchemaGen.step
  simp only
  rw [if_neg hh]
  have hp := uids_insertCst hnot
  refine (updateState_spec hA ⟨?_, ?_⟩ (Or.inl rfl)).2
  · show (uids (insertCst c sch.store)).Nodup
    rw [hp.nodup_iff]
    exact List.nodup_cons.2 ⟨hnot, h.base.nodup⟩
  · intro u
    show ({ sch with info := sch.info ++ [(c.uid, A.reset)] } : SchemaGen.St D I).hasInfo u = true ↔
      u ∈ uids (insertCst c sch.store)
    rw [hasInfo_append, hp.mem_iff, Bool.or_eq_true, h.base.keys u, List.mem_cons]
    constructor
    · rintro (h1 | h1)
      · exact Or.inr h1
      · exact Or.inl (Eq.symm (by simpa using h1))
    · rintro (h1 | h1)
      · exact Or.inr (by simpa using h1.symm)
      · exact Or.inl h1

theorem Inv.insert (hA : Lawful A) (hE : EvalLawful A E) {st : St D I V} (h : Inv A E st) (c : Cst D)
    (hd : AliasesDistinct (step A E st (.schema (.insert c))).sch) :
    Inv A E (step A E st (.schema (.insert c))) := by
  by_cases hh : st.sch.hasInfo c.uid = true
  · have e : step A E st (.schema (.insert c)) = st := by
      unfold step; simp only; rw [if_pos hh]
    rw [e]; exact h
  · have e : step A E st (.schema (.insert c)) =
        St.resetBoth E { st with sch := SchemaGen.step A st.sch (.insert c) } c.uid := by
      unfold step; simp only; rw [if_neg hh]
    rw [e] at hd ⊢
    have hwf' : SchemaGen.WF A (SchemaGen.step A st.sch (.insert c)) := h.wf.insert hA c
    obtain ⟨hst, hnot⟩ := insert_spec hA h.wf c hh
    generalize SchemaGen.step A st.sch (.insert c) = sch' at hd hwf' hst ⊢
    have hn' := hwf'.base.nodup
    have hcmem : c ∈ sch'.store := by rw [hst]; exact mem_insertCst_self hnot
    have hsch2 : (St.resetBoth E { st with sch := sch' } c.uid).sch = sch' := resetBoth_sch _ _
    have hd' : ((insertCst c st.sch.store).map (·.alias)).Nodup := by
      rw [hsch2] at hd
      unfold AliasesDistinct at hd
      rw [hst] at hd
      exact hd
    refine ⟨by rw [hsch2]; exact hwf', hd, ?_⟩
    intro w v hkw hvw
    have hkw1 : ({ st with sch := sch' } : St D I V).kindOf w = some .term := by
      rw [← kindOf_congr (st := { st with sch := sch' }) (st' := St.resetBoth E { st with sch := sch' } c.uid)
        (by rw [hsch2])]
      exact hkw
    by_cases hwc : w = c.uid
    · subst hwc
      rw [dataFor_resetBoth, dataFor_resetFor_term _ hkw1] at hvw
      cases hvw
    · rw [dataFor_resetBoth, dataFor_resetFor_ne _ hwc] at hvw
      have hvw' : st.dataFor w = some v := hvw
      obtain ⟨c1, _, hc1, hc1u, hc1k⟩ := kindOf_eq_some hkw1
      have hc1' : c1 ∈ st.sch.store := by
        have : c1 ∈ insertCst c st.sch.store := by rw [← hst]; exact hc1
        rcases mem_insertCst this with e1 | h1
        · exact absurd (by rw [← hc1u, e1]) hwc
        · exact h1
      have hkw0 : st.kindOf w = some .term := by
        rw [← hc1u, kindOf_of_mem h.wf.base.nodup hc1', hc1k]
      have ht := h.val w v hkw0 hvw'
      rw [hsch2, hst]
      refine TVal.transfer_id hA hE h.wf.base.nodup (fun _ => True) (fun _ hc _ => mem_insertCst_of_mem hc)
        ?_ ?_ ht trivial
      · intro c2 _ _ m _ w' hw'
        obtain ⟨c3, hc3, hc3u, hc3a⟩ := findAliasL_mem hw'
        have := findAliasL_of_distinct hd' (mem_insertCst_of_mem (c := c) hc3)
        rw [hc3a, hc3u] at this
        exact ⟨this, trivial⟩
      · intro c2 hc2 _ _
        have hne : c2.uid ≠ c.uid := fun e2 => hnot (mem_uids.2 ⟨c2, hc2, e2⟩)
        rw [dataFor_resetBoth, dataFor_resetFor_ne _ hne]
        rfl

/-! ### `erase` -/

omit [DecidableEq D] in
theorem erase_core' (hA : Lawful A) {st : SchemaGen.St D I} (hb : Base st) (hv : st.invalid = false)
    (hg : GraphCur A st.store st.graph) {u : Nat} (hok : EraseOk st.store u) :
    ((eraseSt st u).updateState A).store = st.store.filter (·.uid != u) := by
  refine (updateState_spec hA (st := eraseSt st u) ⟨?_, ?_⟩ (Or.inr ⟨hv, ?_⟩)).2
  · show (uids (st.store.filter (·.uid != u))).Nodup
    exact hb.nodup.sublist (List.Sublist.map _ List.filter_sublist)
  · intro v
    show ({ st with info := st.info.filter (·.1 != u) } : SchemaGen.St D I).hasInfo v = true ↔
      v ∈ uids (st.store.filter (·.uid != u))
    rw [hasInfo_filter, mem_uids_filter, hb.keys]
  · show GraphCur A (st.store.filter (·.uid != u)) (if st.invalid then st.graph else eraseItem st.graph u)
    rw [hv]
    exact graphCur_erase hg hok

theorem erase_spec (hA : Lawful A) {sch : SchemaGen.St D I} (h : SchemaGen.WF A sch) {u : Nat}
    (hc : ¬ (!sch.contains u) = true) (hok : EraseOk sch.store u) :
    (SchemaGen.step A sch (.erase u)).store = sch.store.filter (·.uid != u) := by
  unfold SchemaGen.step
  simp only
  rw [if_neg hc, ensureGraph_valid h.valid]
  obtain ⟨q1, q2, q3, q4, _, _⟩ := reset_fold (A := A) (expandOutputs sch.graph [u]) sch
  have hb : Base ((expandOutputs sch.graph [u]).foldl (resetStep A) sch) :=
    ⟨by rw [q1]; exact h.base.nodup, fun v => by rw [q1, q4]; exact h.base.keys v⟩
  have := erase_core' hA hb (q3.trans h.valid) (by rw [q1, q2]; exact h.cur) (u := u) (by rw [q1]; exact hok)
  rw [q1] at this
  exact this

theorem Inv.erase (hA : Lawful A) (hE : EvalLawful A E) {st : St D I V} (h : Inv A E st) (u : Nat) :
    Inv A E (step A E st (.schema (.erase u))) := by
  by_cases hh : (!st.sch.contains u) = true
  · have e : step A E st (.schema (.erase u)) = st := by
      unfold step; simp only; rw [if_pos hh]
    rw [e]; exact h
  · have e : step A E st (.schema (.erase u)) =
        St.resetItems E { (St.eraseData { st with sch := SchemaGen.step A st.sch (.erase u) } u) with
            calcd := st.calcd.filter (· != u) } (Graph.expandOutputs st.sch.graph [u]) u := by
      unfold step; simp only; rw [if_neg hh, ensureGraph_valid h.wf.valid]
    rw [e]
    have hok := eraseOk_of_distinct h.dist u
    have hwf' : SchemaGen.WF A (SchemaGen.step A st.sch (.erase u)) := h.wf.erase hA u hok
    have hst := erase_spec hA h.wf hh hok
    have hu : u ∈ uids st.sch.store := contains_iff.1 (by simpa using hh)
    have hXm := mem_expansion h.wf.cur hu
    generalize SchemaGen.step A st.sch (.erase u) = sch' at hwf' hst ⊢
    generalize hst1 : ({ (St.eraseData { st with sch := sch' } u) with
            calcd := st.calcd.filter (· != u) } : St D I V) = st1
    have hs1 : st1.sch = sch' := by rw [← hst1]; rfl
    have hd1 : ∀ w, w ≠ u → st1.dataFor w = st.dataFor w := by
      intro w hw
      rw [← hst1]
      exact dataFor_eraseData_ne _ hw
    obtain ⟨r1, r2⟩ := resetItems_spec (E := E) (Graph.expandOutputs st.sch.graph [u]) u st1
    have hsch : (st1.resetItems E (Graph.expandOutputs st.sch.graph [u]) u).sch = sch' := r1.trans hs1
    have hk1 : ∀ w, (st1.resetItems E (Graph.expandOutputs st.sch.graph [u]) u).kindOf w = st1.kindOf w :=
      fun w => kindOf_congr (by rw [r1]) w
    have hn' : (uids st1.sch.store).Nodup := by rw [hs1]; exact hwf'.base.nodup
    have hmem1 : ∀ c, c ∈ st1.sch.store ↔ c ∈ st.sch.store ∧ c.uid ≠ u := by
      intro c
      rw [hs1, hst, List.mem_filter]
      simp
    refine ⟨by rw [hsch]; exact hwf', ?_, ?_⟩
    · rw [hsch]
      show (sch'.store.map (·.alias)).Nodup
      rw [hst]
      exact h.dist.sublist (List.Sublist.map _ List.filter_sublist)
    · intro w v hkw hvw
      rw [hk1] at hkw
      obtain ⟨c1, _, hc1, hc1u, hc1k⟩ := kindOf_eq_some hkw
      obtain ⟨hc1', hc1ne⟩ := (hmem1 c1).1 hc1
      have hwu : w ≠ u := by rw [← hc1u]; exact hc1ne
      have hkw0 : st.kindOf w = some .term := by
        rw [← hc1u, kindOf_of_mem h.wf.base.nodup hc1', hc1k]
      by_cases hX : w ∈ Graph.expandOutputs st.sch.graph [u]
      · rw [(r2 w).1 ⟨hX, hwu, hkw⟩] at hvw
        cases hvw
      · rw [(r2 w).2 (fun h' => hX h'.1), hd1 w hwu] at hvw
        have ht := h.val w v hkw0 hvw
        rw [hsch, hst]
        refine TVal.transfer_id hA hE h.wf.base.nodup (fun x => x ∉ Graph.expandOutputs st.sch.graph [u])
          ?_ ?_ ?_ ht hX
        · intro c2 hc2 hq
          refine List.mem_filter.2 ⟨hc2, ?_⟩
          have : c2.uid ≠ u := fun e2 => hq (by rw [e2]; exact (hXm u).2 (Reach.refl _))
          simpa using this
        · intro c2 hc2 hq m hm w' hw'
          have hq' : w' ∉ Graph.expandOutputs st.sch.graph [u] := by
            intro hw'X
            exact notReach_closed h.wf hc2 (fun hr => hq ((hXm _).2 hr)) hm hw' ((hXm _).1 hw'X)
          have hne : w' ≠ u := fun e2 => hq' (by rw [e2]; exact (hXm u).2 (Reach.refl _))
          exact ⟨(findAliasL_erase hok m w').2 ⟨hw', hne⟩, hq'⟩
        · intro c2 hc2 hq _
          have hne : c2.uid ≠ u := fun e2 => hq (by rw [e2]; exact (hXm u).2 (Reach.refl _))
          rw [(r2 c2.uid).2 (fun h' => hq h'.1), hd1 _ hne]

/-! ### `setDef` -/

omit [DecidableEq D] in
theorem foldl_parseCst_store (L : List Nat) : ∀ st : SchemaGen.St D I,
    (L.foldl (SchemaGen.St.parseCst A) st).store = st.store := by
  induction L with
  | nil => intro _; rfl
  | cons b q ih =>
    intro st
    rw [List.foldl_cons, ih, parseCst_store]

omit [DecidableEq D] in
theorem triggerParse_store {st : SchemaGen.St D I} (hv : st.invalid = false) (u : Nat) :
    (st.triggerParse A u).store = st.store := by
  rw [triggerParse_eq hv, foldl_parseCst_store]
  exact (reset_fold (A := A) _ st).1

omit [DecidableEq D] in
theorem graphUpdateFor_store (st : SchemaGen.St D I) (u : Nat) : (st.graphUpdateFor A u).store = st.store := by
  unfold SchemaGen.St.graphUpdateFor
  split
  · rfl
  · split <;> rfl

omit [DecidableEq D] in
theorem graphUpdateFor_invalid' (st : SchemaGen.St D I) (u : Nat) :
    (st.graphUpdateFor A u).invalid = st.invalid := by
  unfold SchemaGen.St.graphUpdateFor
  split
  · rfl
  · split <;> rfl

theorem setDef_spec {sch : SchemaGen.St D I} (h : SchemaGen.WF A sch) {u : Nat} {d : D} {c : Cst D}
    (hat : sch.at u = some c) (hne : ¬ d = c.defn) :
    (SchemaGen.step A sch (.setDef u d)).store = setDefL sch.store u d := by
  obtain ⟨hc, hcu⟩ := mem_of_at hat
  subst hcu
  unfold SchemaGen.step
  simp only
  rw [hat]
  simp only
  rw [if_neg hne, if_pos (realChange_true h.base.nodup hc hne)]
  rw [triggerParse_store (by rw [graphUpdateFor_invalid']; exact h.valid), graphUpdateFor_store]
  rfl

omit [DecidableEq D] in
theorem aliases_setDefL (s : List (Cst D)) (u : Nat) (d : D) :
    (setDefL s u d).map (·.alias) = s.map (·.alias) := by
  unfold setDefL
  rw [List.map_map]
  apply List.map_congr_left
  intro x _
  simp only [Function.comp]
  split <;> rfl

theorem Inv.setDef (hA : Lawful A) (hE : EvalLawful A E) {st : St D I V} (h : Inv A E st) (u : Nat) (d : D) :
    Inv A E (step A E st (.schema (.setDef u d))) := by
  cases hat : st.sch.at u with
  | none =>
    have e : step A E st (.schema (.setDef u d)) = st := by
      unfold step; simp only; rw [hat]
    rw [e]; exact h
  | some c =>
    by_cases hne : d = c.defn
    · have e : step A E st (.schema (.setDef u d)) = st := by
        unfold step; simp only; rw [hat]; simp only; rw [if_pos hne]
      rw [e]; exact h
    · obtain ⟨hc, hcu⟩ := mem_of_at hat
      have hn := h.wf.base.nodup
      have e : step A E st (.schema (.setDef u d)) =
          St.resetDependants A E (St.resetBoth E { st with sch := SchemaGen.step A st.sch (.setDef u d) } u) u := by
        unfold step; simp only; rw [hat]; simp only
        rw [if_neg hne, ← hcu, if_pos (realChange_true hn hc hne)]
      rw [e]
      have hwf' : SchemaGen.WF A (SchemaGen.step A st.sch (.setDef u d)) := h.wf.setDef hA u d
      have hst := setDef_spec h.wf hat hne
      generalize SchemaGen.step A st.sch (.setDef u d) = sch' at hwf' hst ⊢
      generalize hst2 : St.resetBoth E { st with sch := sch' } u = st2
      have hs2 : st2.sch = sch' := by rw [← hst2]; exact resetBoth_sch _ _
      have hwf2 : SchemaGen.WF A st2.sch := by rw [hs2]; exact hwf'
      have hn' : (uids sch'.store).Nodup := hwf'.base.nodup
      have hu' : u ∈ uids st2.sch.store := by
        rw [hs2, hst, uids_setDefL]; exact mem_uids.2 ⟨c, hc, hcu⟩
      have hk1 : ∀ w, st2.kindOf w = ({ st with sch := sch' } : St D I V).kindOf w :=
        fun w => kindOf_congr (by rw [hs2]) w
      have hd2ne : ∀ w, w ≠ u → st2.dataFor w = st.dataFor w := by
        intro w hw
        rw [← hst2, dataFor_resetBoth, dataFor_resetFor_ne _ hw]
        rfl
      obtain ⟨r1, r2⟩ := resetDependants_spec (E := E) hwf2 hu'
      have hsch : (st2.resetDependants A E u).sch = sch' := r1.trans hs2
      refine ⟨by rw [hsch]; exact hwf', ?_, ?_⟩
      · rw [hsch]
        show (sch'.store.map (·.alias)).Nodup
        rw [hst, aliases_setDefL]
        exact h.dist
      · intro w v hkw hvw
        have hkw2 : st2.kindOf w = some .term := by
          rw [← kindOf_congr (st := st2) (st' := st2.resetDependants A E u) (by rw [r1])]; exact hkw
        by_cases hwu : w = u
        · subst hwu
          have : st2.dataFor w = none := by
            rw [← hst2, dataFor_resetBoth]
            exact dataFor_resetFor_term _ (by rw [← hk1]; exact hkw2)
          rw [(r2 w).2 (fun h' => h'.2.1 rfl), this] at hvw
          cases hvw
        · by_cases hr : Reach (Graph.edges st2.sch.graph) u w
          · rw [(r2 w).1 ⟨hr, hwu, hkw2⟩] at hvw
            cases hvw
          · rw [(r2 w).2 (fun h' => hr h'.1), hd2ne w hwu] at hvw
            obtain ⟨c1, _, hc1, hc1u, hc1k⟩ := kindOf_eq_some hkw2
            rw [hs2, hst] at hc1
            have hc1' : c1 ∈ st.sch.store := mem_of_mem_setDefL hc1 (by rw [hc1u]; exact hwu)
            have hkw0 : st.kindOf w = some .term := by
              rw [← hc1u, kindOf_of_mem hn hc1', hc1k]
            have ht := h.val w v hkw0 hvw
            rw [hsch, hst]
            have hself : Reach (Graph.edges st2.sch.graph) u u := Reach.refl _
            refine TVal.transfer_id hA hE hn (fun x => ¬ Reach (Graph.edges st2.sch.graph) u x) ?_ ?_ ?_ ht hr
            · intro c2 hc2 hq
              exact mem_setDefL_of_ne hc2 (fun e2 => hq (e2 ▸ hself))
            · intro c2 hc2 hq m hm w' hw'
              have hc2' : c2 ∈ st2.sch.store := by
                rw [hs2, hst]; exact mem_setDefL_of_ne hc2 (fun e2 => hq (e2 ▸ hself))
              have hw2 : findAliasL st2.sch.store m = some w' := by
                rw [hs2, hst, findAliasL_setDefL]; exact hw'
              refine ⟨by rw [findAliasL_setDefL]; exact hw', notReach_closed hwf2 hc2' hq hm hw2⟩
            · intro c2 hc2 hq hkb
              have hne2 : c2.uid ≠ u := fun e2 => hq (e2 ▸ hself)
              have hc2' : c2 ∈ st2.sch.store := by
                rw [hs2, hst]; exact mem_setDefL_of_ne hc2 hne2
              rw [(r2 c2.uid).2 ?_, hd2ne _ hne2]
              rintro ⟨_, _, hk3⟩
              rw [kindOf_of_mem (by rw [hs2]; exact hn') hc2', hkb] at hk3
              cases hk3

end steps

/-! ## §8 `recomputed` computes the intended values -/

theorem TVal.val {s : List (Cst D)} {dat : Nat → Option V} (hn : (uids s).Nodup) {c : Cst D} (hc : c ∈ s)
    (hk : c.kind = .term) {v : V} (h : TVal A E s dat c.uid v) : ∃ i, Val A s c.uid i := by
  rcases TVal.inv hn hc h with ⟨hk', _⟩ | ⟨_, i, _, hv, _⟩
  · rw [hk] at hk'; cases hk'
  · exact ⟨i, hv⟩

/-- one step of the loop of `RecalculateAll`: if the values of everything in `P` are the intended
ones and the dependencies of `b` with a successful entry are in `P`, then afterwards the same holds
for `P ∪ {b}` -/
theorem calc_step (hA : Lawful A) (hE : EvalLawful A E) {s : St D I V} (hwf : SchemaGen.WF A s.sch)
    (dat0 : Nat → Option V) (P : Nat → Prop) (b : Nat)
    (hB : ∀ c ∈ s.sch.store, c.kind = .base → s.dataFor c.uid = dat0 c.uid)
    (hJ : ∀ w v, P w → TVal A E s.sch.store dat0 w v → s.dataFor w = some v)
    (hD : DepsIn A s.sch.store P b) :
    (if s.kindOf b == some .term then (s.calculateInternal A E b).1 else s).sch = s.sch ∧
    (∀ c ∈ s.sch.store, c.kind = .base →
      (if s.kindOf b == some .term then (s.calculateInternal A E b).1 else s).dataFor c.uid = dat0 c.uid) ∧
    (∀ w v, (P w ∨ w = b) → TVal A E s.sch.store dat0 w v →
      (if s.kindOf b == some .term then (s.calculateInternal A E b).1 else s).dataFor w = some v) := by
  have hn := hwf.base.nodup
  by_cases hk : s.kindOf b = some .term
  · have hk' : (s.kindOf b == some .term) = true := by simpa using hk
    simp only [hk', if_true]
    refine ⟨calculateInternal_sch s b, ?_, ?_⟩
    · intro c hc hkb
      rw [calculateInternal_ne s (ne_of_kinds hn hc hkb hk)]
      exact hB c hc hkb
    · intro w v hw htv
      by_cases hwb : w = b
      · subst hwb
        obtain ⟨cb, hat, hcb, hcbu, hcbk⟩ := kindOf_eq_some hk
        subst hcbu
        rcases TVal.inv hn hcb htv with ⟨hk1, _⟩ | ⟨_, i, vf, hval, hver, hdeps, hev⟩
        · rw [hcbk] at hk1; cases hk1
        · have hinfo : s.sch.infoFor A cb.uid = i :=
            (hwf.sync cb.uid (mem_uids.2 ⟨cb, hcb, rfl⟩)).eq_val hA hn hval
          have hev' : E.eval s.vctx cb = some v := by
            refine hE.mono (ctxV s.sch.store vf) s.vctx cb v ?_ hev
            intro m hm x hx
            unfold ctxV at hx
            cases hf : findAliasL s.sch.store m with
            | none => rw [hf] at hx; cases hx
            | some w' =>
              rw [hf] at hx
              have hx' : vf w' = some x := hx
              have htw := hdeps m hm w' x hf hx'
              obtain ⟨cw, hcw, hcwu, _⟩ := findAliasL_mem hf
              subst hcwu
              have hd : s.dataFor cw.uid = some x := by
                cases hkw : cw.kind with
                | base =>
                  rcases TVal.inv hn hcw htw with ⟨_, hdv⟩ | ⟨hk2, _⟩
                  · rw [hB cw hcw hkw]; exact hdv
                  · rw [hkw] at hk2; cases hk2
                | term =>
                  exact hJ cw.uid x (hD cb hcb rfl m hm cw.uid hf (htw.val hn hcw hkw)) htw
              rw [vctx_eq]
              unfold ctxV
              rw [hf]
              exact hd
          rw [calculateInternal_eq hat, hinfo, hver]
          simp only [Bool.not_true, Bool.false_eq_true, if_false]
          rw [hev']
          exact dataFor_setData_self _ _ _
      · rw [calculateInternal_ne s hwb]
        rcases hw with hw | hw
        · exact hJ w v hw htv
        · exact absurd hw hwb
  · have hk' : (s.kindOf b == some .term) = false := by simpa using hk
    simp only [hk', Bool.false_eq_true, if_false]
    refine ⟨trivial, hB, ?_⟩
    intro w v hw htv
    rcases hw with hw | hw
    · exact hJ w v hw htv
    · subst hw
      obtain ⟨cb, hcb, hcbu⟩ := mem_uids.1 htv.mem
      subst hcbu
      rcases TVal.inv hn hcb htv with ⟨hk1, hdv⟩ | ⟨hk1, _⟩
      · rw [hB cb hcb hk1]; exact hdv
      · exact absurd (by rw [kindOf_of_mem hn hcb, hk1]) hk

theorem calc_fold (hA : Lawful A) (hE : EvalLawful A E) {sch : SchemaGen.St D I} (hwf : SchemaGen.WF A sch)
    (dat0 : Nat → Option V) (L : List Nat) :
    ∀ (s : St D I V) (P : Nat → Prop), s.sch = sch → OrderOk A sch.store P L →
    (∀ c ∈ sch.store, c.kind = .base → s.dataFor c.uid = dat0 c.uid) →
    (∀ w v, P w → TVal A E sch.store dat0 w v → s.dataFor w = some v) →
    ∀ w v, (P w ∨ w ∈ L) → TVal A E sch.store dat0 w v →
      (L.foldl (fun s u => if s.kindOf u == some .term then (s.calculateInternal A E u).1 else s) s).dataFor w
        = some v := by
  induction L with
  | nil =>
    intro s P _ _ _ hJ w v hw htv
    rcases hw with hw | hw
    · exact hJ w v hw htv
    · cases hw
  | cons b q ih =>
    intro s P hs hO hB hJ w v hw htv
    subst hs
    obtain ⟨hD, hO'⟩ := hO
    obtain ⟨s1, s2, s3⟩ := calc_step hA hE hwf dat0 P b hB hJ hD
    rw [List.foldl_cons]
    refine ih _ (fun x => P x ∨ x = b) s1 hO' s2 s3 w v ?_ htv
    rcases hw with hw | hw
    · exact Or.inl (Or.inl hw)
    · rcases List.mem_cons.1 hw with hw | hw
      · exact Or.inl (Or.inr hw)
      · exact Or.inr hw

/-- `RecalculateAll` stores the intended value of every constituent that has one -/
theorem recalc_computes (hA : Lawful A) (hE : EvalLawful A E) {st : St D I V} (hwf : SchemaGen.WF A st.sch)
    {u : Nat} {v : V} (h : TVal A E st.sch.store st.dataFor u v) :
    (st.recalculateAll A E).dataFor u = some v := by
  have hn := hwf.base.nodup
  unfold St.recalculateAll
  simp only
  rw [ensureGraph_valid hwf.valid]
  have h2 := foldl_inv (fun s : St D I V => s.sch = st.sch ∧
      ∀ c ∈ st.sch.store, c.kind = .base → s.dataFor c.uid = st.dataFor c.uid)
    (fun s c => if c.kind == .term then s.resetFor E c.uid else s) st.sch.store
    (by
      intro s c hc ⟨hs, hb⟩
      split
      · next hk =>
        refine ⟨(resetFor_sch s c.uid).trans hs, fun c' hc' hk' => ?_⟩
        have hne : c'.uid ≠ c.uid := by
          intro e
          rw [eq_of_uid_eq hn hc' hc e] at hk'
          rw [hk'] at hk
          cases hk
        rw [dataFor_resetFor_ne s hne]
        exact hb c' hc' hk'
      · exact ⟨hs, hb⟩) ({ st with sch := st.sch, calcd := [] } : St D I V) ⟨rfl, fun _ _ _ => rfl⟩
  obtain ⟨hs2, hb2⟩ := h2
  refine calc_fold hA hE hwf st.dataFor (topologicalOrder st.sch.graph) _ (fun _ => False) hs2
    (orderOk_topo hn hwf.cur) hb2 (fun _ _ hf _ => hf.elim) u v (Or.inr ?_) h
  exact (mem_topologicalOrder hwf.cur.inv u).2 ((hwf.cur.live u).2 h.mem)

/-- every value stored for a term is the value a full recalculation assigns -/
theorem Inv.recomputed_eq [DecidableEq D] (hA : Lawful A) (hE : EvalLawful A E) {st : St D I V}
    (h : Inv A E st) {u : Nat} {v : V} (hk : st.kindOf u = some .term)
    (hv : st.dataFor u = some v) : (st.recomputed A E).dataFor u = some v := by
  have ht := h.val u v hk hv
  obtain ⟨hwfs, hss⟩ := h.wf.scratch hA
  unfold St.recomputed
  apply recalc_computes hA hE (st := { st with sch := st.sch.scratch A }) hwfs
  show TVal A E (st.sch.scratch A).store st.dataFor u v
  rw [hss]
  exact ht

theorem Inv.fresh [DecidableEq D] (hA : Lawful A) (hE : EvalLawful A E) {st : St D I V}
    (h : Inv A E st) : st.Fresh A E := by
  intro c hc hk _ v hv
  exact h.recomputed_eq hA hE (by rw [kindOf_of_mem h.wf.base.nodup hc, hk]) hv

/-! ## §9 histories -/

section hist
variable [DecidableEq D]

/-- operations covered by the generic theorem so far: everything but the renaming operations
(`setAlias`, `substitute`), which need equivariance laws on analysis and evaluation -/
def Admissible (A : Analysis D I) (E : Eval D I V) (st : St D I V) : Op D V → Prop
  | .schema (.load _) => False
  | .schema (.insert c) => AliasesDistinct (step A E st (.schema (.insert c))).sch
  | .schema (.setAlias _ _ _) => False
  | .schema (.substitute _) => False
  | _ => True

def AdmissibleFrom (A : Analysis D I) (E : Eval D I V) : St D I V → List (Op D V) → Prop
  | _, [] => True
  | st, op :: ops => Admissible A E st op ∧ AdmissibleFrom A E (step A E st op) ops

instance (st : St D I V) (op : Op D V) : Decidable (Admissible A E st op) := by
  unfold Admissible
  split <;> infer_instance

instance instDecidableAdmissibleFrom (A : Analysis D I) (E : Eval D I V) :
    ∀ (ops : List (Op D V)) (st : St D I V), Decidable (AdmissibleFrom A E st ops)
  | [], _ => isTrue trivial
  | op :: ops, st =>
    have := instDecidableAdmissibleFrom A E ops (step A E st op)
    inferInstanceAs (Decidable (Admissible A E st op ∧ AdmissibleFrom A E (step A E st op) ops))

omit [DecidableEq D] in
theorem Inv.init : Inv A E ({} : St D I V) := by
  refine ⟨WF_init, List.nodup_nil, ?_⟩
  intro u v hk _
  cases hk

theorem Inv.step (hA : Lawful A) (hE : EvalLawful A E) {st : St D I V} (h : Inv A E st) {op : Op D V}
    (ha : Admissible A E st op) : Inv A E (step A E st op) := by
  cases op with
  | schema sop =>
    cases sop with
    | insert c => exact h.insert hA hE c ha
    | load c => exact ha.elim
    | updateState => exact h.updateState hA
    | erase u => exact h.erase hA hE u
    | setDef u d => exact h.setDef hA hE u d
    | setAlias u a sb => exact ha.elim
    | substitute m => exact ha.elim
  | setBase u v => exact h.setBase hA hE u v
  | calculate u => exact h.calculate hA hE u
  | recalculateAll => exact h.recalculateAll hA hE

theorem Inv.foldl (hA : Lawful A) (hE : EvalLawful A E) (ops : List (Op D V)) : ∀ st : St D I V,
    Inv A E st → AdmissibleFrom A E st ops → Inv A E (ops.foldl (RSModelGen.step A E) st) := by
  induction ops with
  | nil => intro st h _; exact h
  | cons op ops ih =>
    intro st h ha
    rw [List.foldl_cons]
    exact ih _ (h.step hA hE ha.1) ha.2

theorem Inv.run (hA : Lawful A) (hE : EvalLawful A E) {ops : List (Op D V)}
    (ha : AdmissibleFrom A E {} ops) : Inv A E (run A E ops) :=
  Inv.foldl hA hE ops {} Inv.init ha

end hist

end CCVerif.RSModelGen
