import CCVerif.Model.SData
/-! Helper lemmas for C15: order laws of `cmp` by mutual structural induction over the nested
inductive `Val`, sorted lists, `insert`. Core Lean only. -/
set_option linter.unusedSimpArgs false
set_option linter.unusedVariables false
namespace CCVerif.SData

def Cmp.swap : Cmp → Cmp
  | .lt => .gt
  | .gt => .lt
  | c => c

/-! ## order laws -/

mutual
theorem cmp_refl : ∀ a : Val, cmp a a = .eq
  | .e n => by simp [cmp]
  | .t cs => by simp [cmp, cmpLex_refl cs]
  | .s xs => by simp [cmp, cmpLex_refl xs]
theorem cmpLex_refl : ∀ as : List Val, cmpLex as as = .eq
  | [] => by simp [cmpLex]
  | a :: as => by simp [cmpLex, cmp_refl a, cmpLex_refl as]
end

theorem cmpLex_cons (a b : Val) (as bs : List Val) :
    cmpLex (a :: as) (b :: bs) = if cmp a b = .eq then cmpLex as bs else cmp a b := by
  rw [cmpLex]; split <;> simp_all

mutual
theorem cmp_eq_imp : ∀ a b : Val, cmp a b = .eq → a = b
  | .e x, .e y => by
    simp only [cmp]; intro h; split at h
    · simp_all
    · split at h <;> simp at h
  | .t as, .t bs => by
    simp only [cmp]; intro h; split at h
    · simp at h
    · rename_i hl; simp at hl; rw [cmpLex_eq_imp as bs hl h]
  | .s as, .s bs => by
    simp only [cmp]; intro h
    split at h
    · simp at h
    · split at h
      · simp at h
      · rw [cmpLex_eq_imp as bs (by omega) h]
  | .e _, .t _ => by simp [cmp]
  | .e _, .s _ => by simp [cmp]
  | .t _, .e _ => by simp [cmp]
  | .t _, .s _ => by simp [cmp]
  | .s _, .e _ => by simp [cmp]
  | .s _, .t _ => by simp [cmp]
theorem cmpLex_eq_imp : ∀ as bs : List Val, as.length = bs.length → cmpLex as bs = .eq → as = bs
  | [], [] => by simp
  | [], _ :: _ => by simp
  | _ :: _, [] => by simp
  | a :: as, b :: bs => by
    intro hl h
    rw [cmpLex_cons] at h
    split at h
    · rename_i hab
      rw [cmp_eq_imp a b hab, cmpLex_eq_imp as bs (by simpa using hl) h]
    · rename_i hab; exact absurd h hab
end

theorem cmp_eq_iff (a b : Val) : cmp a b = .eq ↔ a = b :=
  ⟨cmp_eq_imp a b, fun h => h ▸ cmp_refl a⟩

mutual
theorem cmp_swap : ∀ a b : Val, cmp b a = (cmp a b).swap
  | .e x, .e y => by
    simp only [cmp]
    by_cases h1 : x = y
    · subst h1; simp [Cmp.swap]
    · have h2 : ¬ y = x := fun h => h1 h.symm
      simp only [h1, h2, if_false]
      by_cases h3 : x < y
      · have : ¬ y < x := by omega
        simp [h3, this, Cmp.swap]
      · have : y < x := by omega
        simp [h3, this, Cmp.swap]
  | .t as, .t bs => by
    simp only [cmp]
    by_cases hl : as.length = bs.length
    · simp only [hl, ne_eq, not_true_eq_false, if_false]
      exact cmpLex_swap as bs hl
    · have : ¬ bs.length = as.length := fun h => hl h.symm
      simp [hl, this, Cmp.swap]
  | .s as, .s bs => by
    simp only [cmp]
    by_cases h1 : as.length > bs.length
    · have h2 : ¬ bs.length > as.length := by omega
      have h3 : bs.length < as.length := by omega
      simp [h1, h2, Cmp.swap]
    · by_cases h2 : as.length < bs.length
      · have h3 : bs.length > as.length := by omega
        simp [h1, h2, h3, Cmp.swap]
      · have h3 : ¬ bs.length > as.length := by omega
        have h4 : ¬ bs.length < as.length := by omega
        simp only [h1, h2, h3, h4, if_false]
        exact cmpLex_swap as bs (by omega)
  | .e _, .t _ => by simp [cmp, Cmp.swap]
  | .e _, .s _ => by simp [cmp, Cmp.swap]
  | .t _, .e _ => by simp [cmp, Cmp.swap]
  | .t _, .s _ => by simp [cmp, Cmp.swap]
  | .s _, .e _ => by simp [cmp, Cmp.swap]
  | .s _, .t _ => by simp [cmp, Cmp.swap]
theorem cmpLex_swap : ∀ as bs : List Val, as.length = bs.length → cmpLex bs as = (cmpLex as bs).swap
  | [], [] => by simp [cmpLex, Cmp.swap]
  | [], _ :: _ => by simp
  | _ :: _, [] => by simp
  | a :: as, b :: bs => by
    intro hl
    rw [cmpLex_cons, cmpLex_cons, cmp_swap a b]
    by_cases h : cmp a b = .eq
    · simp only [h, Cmp.swap, if_true]
      exact cmpLex_swap as bs (by simpa using hl)
    · have : ¬ (cmp a b).swap = .eq := by
        cases hc : cmp a b <;> simp_all [Cmp.swap]
      simp [h, this]
end

theorem cmp_lt_iff_gt (a b : Val) : cmp a b = .lt ↔ cmp b a = .gt := by
  rw [cmp_swap a b]; cases cmp a b <;> simp [Cmp.swap]

mutual
theorem cmp_trans : ∀ a b c : Val, cmp a b = .lt → cmp b c = .lt → cmp a c = .lt
  | .e x, .e y, .e z => by
    simp only [cmp]
    intro h1 h2
    have hxy : x < y := by
      by_cases h : x = y
      · simp [h] at h1
      · by_cases h' : x < y
        · exact h'
        · simp [h, h'] at h1
    have hyz : y < z := by
      by_cases h : y = z
      · simp [h] at h2
      · by_cases h' : y < z
        · exact h'
        · simp [h, h'] at h2
    have : ¬ x = z := by omega
    have : x < z := by omega
    simp [*]
  | .t as, .t bs, .t cs => by
    simp only [cmp]
    intro h1 h2
    by_cases hl1 : as.length = bs.length
    · by_cases hl2 : bs.length = cs.length
      · have hl3 : as.length = cs.length := by omega
        simp only [hl1, hl2, hl3, ne_eq, not_true_eq_false, if_false] at h1 h2 ⊢
        exact cmpLex_trans as bs cs (by omega) (by omega) h1 h2
      · simp [hl2] at h2
    · simp [hl1] at h1
  | .s as, .s bs, .s cs => by
    simp only [cmp]
    intro h1 h2
    by_cases g1 : as.length > bs.length
    · simp [g1] at h1
    · by_cases g2 : bs.length > cs.length
      · simp [g2] at h2
      · simp only [g1, g2, if_false] at h1 h2
        by_cases l1 : as.length < bs.length
        · have : ¬ as.length > cs.length := by omega
          have : as.length < cs.length := by omega
          simp [*]
        · by_cases l2 : bs.length < cs.length
          · have : ¬ as.length > cs.length := by omega
            have : as.length < cs.length := by omega
            simp [*]
          · simp only [l1, l2, if_false] at h1 h2
            have e1 : ¬ as.length > cs.length := by omega
            have e2 : ¬ as.length < cs.length := by omega
            simp only [e1, e2, if_false]
            exact cmpLex_trans as bs cs (by omega) (by omega) h1 h2
  | .e _, .t _, _ => by intro h; simp [cmp] at h
  | .e _, .s _, _ => by intro h; simp [cmp] at h
  | .t _, .e _, _ => by intro h; simp [cmp] at h
  | .t _, .s _, _ => by intro h; simp [cmp] at h
  | .s _, .e _, _ => by intro h; simp [cmp] at h
  | .s _, .t _, _ => by intro h; simp [cmp] at h
  | .e _, .e _, .t _ => by intro _ h; simp [cmp] at h
  | .e _, .e _, .s _ => by intro _ h; simp [cmp] at h
  | .t _, .t _, .e _ => by intro _ h; simp [cmp] at h
  | .t _, .t _, .s _ => by intro _ h; simp [cmp] at h
  | .s _, .s _, .e _ => by intro _ h; simp [cmp] at h
  | .s _, .s _, .t _ => by intro _ h; simp [cmp] at h
theorem cmpLex_trans : ∀ as bs cs : List Val, as.length = bs.length → bs.length = cs.length →
    cmpLex as bs = .lt → cmpLex bs cs = .lt → cmpLex as cs = .lt
  | [], _, _ => by simp [cmpLex]
  | _ :: _, [], _ => by simp
  | _ :: _, _ :: _, [] => by simp
  | a :: as, b :: bs, c :: cs => by
    intro hl1 hl2 h1 h2
    rw [cmpLex_cons] at h1 h2 ⊢
    by_cases hab : cmp a b = .eq
    · have := cmp_eq_imp a b hab; subst this
      simp only [hab, if_true] at h1
      by_cases hbc : cmp a c = .eq
      · simp only [hbc, if_true] at h2 ⊢
        exact cmpLex_trans as bs cs (by simpa using hl1) (by simpa using hl2) h1 h2
      · simp only [hbc, if_false] at h2 ⊢
        exact h2
    · simp only [hab, if_false] at h1
      by_cases hbc : cmp b c = .eq
      · have := cmp_eq_imp b c hbc; subst this
        simp [h1]
      · simp only [hbc, if_false] at h2
        have h3 := cmp_trans a b c h1 h2
        simp [h3]
end

/-- the three proper answers of a comparison. -/
def Cmp.proper : Cmp → Prop
  | .lt | .eq | .gt => True
  | _ => False

theorem hasTys_length : ∀ (as : List Val) (ts : List Ty), hasTys as ts = true → as.length = ts.length
  | [], [] => by simp
  | [], _ :: _ => by simp [hasTys]
  | _ :: _, [] => by simp [hasTys]
  | a :: as, t :: ts => by
    simp only [hasTys, Bool.and_eq_true, List.length_cons]
    intro h; rw [hasTys_length as ts h.2]

mutual
theorem cmp_total : ∀ (a b : Val) (τ : Ty), hasTy a τ = true → hasTy b τ = true → (cmp a b).proper
  | .e x, .e y, _ => by
    intro _ _; simp only [cmp]
    split
    · trivial
    · split <;> trivial
  | .t as, .t bs, .tup ts => by
    simp only [hasTy, cmp]
    intro h1 h2
    have l1 := hasTys_length as ts h1
    have l2 := hasTys_length bs ts h2
    have : as.length = bs.length := by omega
    simp only [this, ne_eq, not_true_eq_false, if_false]
    exact cmpLex_total_tup as bs ts h1 h2
  | .s as, .s bs, .coll τ => by
    simp only [hasTy, cmp]
    intro h1 h2
    split
    · trivial
    · split
      · trivial
      · exact cmpLex_total_coll as bs τ (by omega) h1 h2
  | .t _, .t _, .base => by simp [hasTy]
  | .t _, .t _, .coll _ => by simp [hasTy]
  | .s _, .s _, .base => by simp [hasTy]
  | .s _, .s _, .tup _ => by simp [hasTy]
  | .e _, .t _, τ => by cases τ <;> simp [hasTy]
  | .e _, .s _, τ => by cases τ <;> simp [hasTy]
  | .t _, .e _, τ => by cases τ <;> simp [hasTy]
  | .t _, .s _, τ => by cases τ <;> simp [hasTy]
  | .s _, .e _, τ => by cases τ <;> simp [hasTy]
  | .s _, .t _, τ => by cases τ <;> simp [hasTy]
theorem cmpLex_total_tup : ∀ (as bs : List Val) (ts : List Ty), hasTys as ts = true → hasTys bs ts = true →
    (cmpLex as bs).proper
  | [], _, _ => by intros; simp [cmpLex, Cmp.proper]
  | _ :: _, [], [] => by simp [hasTys]
  | _ :: _, [], _ :: _ => by simp [hasTys]
  | _ :: _, _ :: _, [] => by simp [hasTys]
  | a :: as, b :: bs, t :: ts => by
    simp only [hasTys, Bool.and_eq_true]
    intro h1 h2
    rw [cmpLex_cons]
    split
    · exact cmpLex_total_tup as bs ts h1.2 h2.2
    · exact cmp_total a b t h1.1 h2.1
theorem cmpLex_total_coll : ∀ (as bs : List Val) (τ : Ty), as.length = bs.length → allTy as τ = true →
    allTy bs τ = true → (cmpLex as bs).proper
  | [], _, _ => by intros; simp [cmpLex, Cmp.proper]
  | _ :: _, [], _ => by simp
  | a :: as, b :: bs, τ => by
    simp only [allTy, Bool.and_eq_true, List.length_cons]
    intro hl h1 h2
    rw [cmpLex_cons]
    split
    · exact cmpLex_total_coll as bs τ (by omega) h1.2 h2.2
    · exact cmp_total a b τ h1.1 h2.1
end

theorem Cmp.proper_iff (c : Cmp) : c.proper ↔ c = .lt ∨ c = .eq ∨ c = .gt := by
  cases c <;> simp [Cmp.proper]

mutual
theorem cmp_ne_stuck : ∀ a b : Val, cmp a b ≠ .stuck
  | .e x, .e y => by
    simp only [cmp]; split
    · simp
    · split <;> simp
  | .t as, .t bs => by
    simp only [cmp]; split
    · simp
    · rename_i h; exact cmpLex_ne_stuck as bs (by simpa using h)
  | .s as, .s bs => by
    simp only [cmp]; split
    · simp
    · split
      · simp
      · exact cmpLex_ne_stuck as bs (by omega)
  | .e _, .t _ => by simp [cmp]
  | .e _, .s _ => by simp [cmp]
  | .t _, .e _ => by simp [cmp]
  | .t _, .s _ => by simp [cmp]
  | .s _, .e _ => by simp [cmp]
  | .s _, .t _ => by simp [cmp]
theorem cmpLex_ne_stuck : ∀ as bs : List Val, as.length = bs.length → cmpLex as bs ≠ .stuck
  | [], _ => by simp [cmpLex]
  | _ :: _, [] => by simp
  | a :: as, b :: bs => by
    intro hl
    rw [cmpLex_cons]
    split
    · exact cmpLex_ne_stuck as bs (by simpa using hl)
    · exact cmp_ne_stuck a b
end

/-! ## `lt` as a strict order -/

theorem lt_iff (a b : Val) : lt a b = true ↔ cmp a b = .lt := by simp [lt]

theorem lt_irrefl (a : Val) : lt a a = false := by simp [lt, cmp_refl]

theorem lt_trans {a b c : Val} (h1 : lt a b = true) (h2 : lt b c = true) : lt a c = true := by
  rw [lt_iff] at *; exact cmp_trans a b c h1 h2

theorem lt_asymm {a b : Val} (h : lt a b = true) : lt b a = false := by
  rw [lt_iff] at h
  have := cmp_swap a b
  rw [h] at this
  simp [lt, this, Cmp.swap]

theorem lt_ne {a b : Val} (h : lt a b = true) : a ≠ b := by
  intro e; subst e; rw [lt_irrefl] at h; cases h

/-- on values of one type neither `a < b` nor `b < a` means `a = b` (the equivalence `std::set`
works with is equality). -/
theorem eq_of_not_lt {a b : Val} {τ : Ty} (ha : hasTy a τ = true) (hb : hasTy b τ = true)
    (h1 : lt a b = false) (h2 : lt b a = false) : a = b := by
  have ht := cmp_total a b τ ha hb
  have hs := cmp_swap a b
  simp only [lt, decide_eq_false_iff_not] at h1 h2
  apply cmp_eq_imp
  cases hc : cmp a b
  · exact absurd hc h1
  · rfl
  · rw [hc] at hs; simp [Cmp.swap] at hs; exact absurd hs h2
  · rw [hc] at ht; exact ht.elim
  · rw [hc] at ht; exact ht.elim

/-! ## strictly ascending lists (the `std::set` invariant) -/

theorem sortedLt_tail {a : Val} {xs : List Val} (h : sortedLt (a :: xs) = true) : sortedLt xs = true := by
  cases xs with
  | nil => rfl
  | cons b r => simp only [sortedLt, Bool.and_eq_true] at h; exact h.2

theorem sortedLt_head_lt : ∀ (xs : List Val) (a : Val), sortedLt (a :: xs) = true → ∀ y ∈ xs, lt a y = true
  | [], _ => by simp
  | b :: r, a => by
    intro h y hy
    simp only [sortedLt, Bool.and_eq_true] at h
    rcases List.mem_cons.mp hy with rfl | hy
    · exact h.1
    · exact lt_trans h.1 (sortedLt_head_lt r b h.2 y hy)

theorem sortedLt_cons_iff {a : Val} {xs : List Val} :
    sortedLt (a :: xs) = true ↔ (∀ y ∈ xs, lt a y = true) ∧ sortedLt xs = true := by
  constructor
  · intro h; exact ⟨sortedLt_head_lt xs a h, sortedLt_tail h⟩
  · intro ⟨h1, h2⟩
    cases xs with
    | nil => rfl
    | cons b r => simp only [sortedLt, Bool.and_eq_true]; exact ⟨h1 b (by simp), h2⟩

theorem sortedLt_nodup : ∀ xs : List Val, sortedLt xs = true → xs.Nodup
  | [] => by simp
  | a :: xs => by
    intro h
    rw [List.nodup_cons]
    refine ⟨?_, sortedLt_nodup xs (sortedLt_tail h)⟩
    intro hm
    have := sortedLt_head_lt xs a h a hm
    rw [lt_irrefl] at this; cases this

/-- two strictly ascending lists with the same members are the same list. -/
theorem sorted_ext : ∀ xs ys : List Val, sortedLt xs = true → sortedLt ys = true →
    (∀ v, v ∈ xs ↔ v ∈ ys) → xs = ys
  | [], [] => by simp
  | [], y :: ys => by intro _ _ h; have := (h y).2 (by simp); simp at this
  | x :: xs, [] => by intro _ _ h; have := (h x).1 (by simp); simp at this
  | x :: xs, y :: ys => by
    intro hx hy h
    have hxl := sortedLt_head_lt xs x hx
    have hyl := sortedLt_head_lt ys y hy
    have hxy : x = y := by
      have h1 := (h x).1 (by simp)
      have h2 := (h y).2 (by simp)
      rcases List.mem_cons.mp h1 with e | h1
      · exact e
      · rcases List.mem_cons.mp h2 with e | h2
        · exact e.symm
        · have a1 := hyl x h1
          have a2 := hxl y h2
          rw [lt_asymm a1] at a2; cases a2
    subst hxy
    have hnx : x ∉ xs := fun hm => by have := hxl x hm; rw [lt_irrefl] at this; cases this
    have hny : x ∉ ys := fun hm => by have := hyl x hm; rw [lt_irrefl] at this; cases this
    have : xs = ys := by
      apply sorted_ext xs ys (sortedLt_tail hx) (sortedLt_tail hy)
      intro v
      constructor
      · intro hv
        rcases List.mem_cons.mp ((h v).1 (List.mem_cons_of_mem _ hv)) with e | h'
        · subst e; exact absurd hv hnx
        · exact h'
      · intro hv
        rcases List.mem_cons.mp ((h v).2 (List.mem_cons_of_mem _ hv)) with e | h'
        · subst e; exact absurd hv hny
        · exact h'
    rw [this]

/-! ## typing and canonicity of lists -/

theorem allTy_iff : ∀ (xs : List Val) (τ : Ty), allTy xs τ = true ↔ ∀ x ∈ xs, hasTy x τ = true
  | [], _ => by simp [allTy]
  | a :: xs, τ => by simp [allTy, allTy_iff xs τ]

theorem canonList_iff : ∀ xs : List Val, canonList xs = true ↔ ∀ x ∈ xs, canon x = true
  | [] => by simp [canonList]
  | a :: xs => by simp [canonList, canonList_iff xs]

theorem canon_s_iff (xs : List Val) :
    canon (.s xs) = true ↔ (∀ x ∈ xs, canon x = true) ∧ sortedLt xs = true := by
  simp [canon, canonList_iff]

theorem canon_t_iff (cs : List Val) : canon (.t cs) = true ↔ ∀ x ∈ cs, canon x = true := by
  simp [canon, canonList_iff]

/-! ## `std::set::insert` / `contains` -/

theorem mem_insert {x : Val} {τ : Ty} (hx : hasTy x τ = true) :
    ∀ xs : List Val, allTy xs τ = true → ∀ y, y ∈ insert x xs ↔ y = x ∨ y ∈ xs
  | [], _, y => by simp [insert]
  | z :: zs, hz, y => by
    simp only [allTy, Bool.and_eq_true] at hz
    simp only [insert]
    cases h1 : lt x z
    · cases h2 : lt z x
      · have e : x = z := eq_of_not_lt hx hz.1 h1 h2
        subst e
        simp
      · simp only [Bool.false_eq_true, if_true, if_false, List.mem_cons, mem_insert hx zs hz.2 y]
        constructor
        · rintro (h | h | h) <;> simp [h]
        · rintro (h | h | h) <;> simp [h]
    · simp

theorem allTy_insert {x : Val} {τ : Ty} (hx : hasTy x τ = true) :
    ∀ xs : List Val, allTy xs τ = true → allTy (insert x xs) τ = true
  | [], _ => by simp [insert, allTy, hx]
  | z :: zs, hz => by
    simp only [allTy, Bool.and_eq_true] at hz
    simp only [insert]
    split
    · simp [allTy, hx, hz.1, hz.2]
    · split
      · simp [allTy, hz.1, allTy_insert hx zs hz.2]
      · simp [allTy, hz.1, hz.2]

theorem insert_sorted {x : Val} {τ : Ty} (hx : hasTy x τ = true) :
    ∀ xs : List Val, allTy xs τ = true → sortedLt xs = true → sortedLt (insert x xs) = true
  | [], _, _ => by simp [insert, sortedLt]
  | z :: zs, hz, hs => by
    simp only [allTy, Bool.and_eq_true] at hz
    simp only [insert]
    cases h1 : lt x z
    · cases h2 : lt z x
      · simp only [Bool.false_eq_true, if_false]; exact hs
      · simp only [Bool.false_eq_true, if_true, if_false]
        rw [sortedLt_cons_iff]
        refine ⟨?_, insert_sorted hx zs hz.2 (sortedLt_tail hs)⟩
        intro y hy
        rcases (mem_insert hx zs hz.2 y).1 hy with e | hy
        · subst e; exact h2
        · exact sortedLt_head_lt zs z hs y hy
    · simp only [if_true, sortedLt, Bool.and_eq_true]; exact ⟨h1, hs⟩

theorem insert_canon {x : Val} {xs : List Val} {τ : Ty} (hx : hasTy x τ = true) (hxs : allTy xs τ = true)
    (cx : canon x = true) (cs : canon (.s xs) = true) : canon (.s (insert x xs)) = true := by
  rw [canon_s_iff] at cs ⊢
  refine ⟨?_, insert_sorted hx xs hxs cs.2⟩
  intro y hy
  rcases (mem_insert hx xs hxs y).1 hy with e | hy
  · subst e; exact cx
  · exact cs.1 y hy

theorem containsEnum_iff {x : Val} {τ : Ty} (hx : hasTy x τ = true) :
    ∀ xs : List Val, allTy xs τ = true → sortedLt xs = true → (containsEnum x xs = true ↔ x ∈ xs)
  | [], _, _ => by simp [containsEnum]
  | z :: zs, hz, hs => by
    simp only [allTy, Bool.and_eq_true] at hz
    simp only [containsEnum]
    cases h1 : lt x z
    · cases h2 : lt z x
      · have e : x = z := eq_of_not_lt hx hz.1 h1 h2
        subst e
        simp
      · simp only [Bool.false_eq_true, if_true, if_false, List.mem_cons,
          containsEnum_iff hx zs hz.2 (sortedLt_tail hs)]
        constructor
        · intro h; exact Or.inr h
        · rintro (e | hm)
          · subst e; rw [lt_irrefl] at h2; cases h2
          · exact hm
    · simp only [if_true, List.mem_cons]
      constructor
      · intro h; cases h
      · rintro (e | hm)
        · subst e; rw [lt_irrefl] at h1; cases h1
        · have := sortedLt_head_lt zs z hs x hm
          rw [lt_asymm h1] at this; cases this

theorem insertNew_iff {x : Val} {τ : Ty} (hx : hasTy x τ = true) :
    ∀ xs : List Val, allTy xs τ = true → sortedLt xs = true → (insertNew x xs = true ↔ x ∉ xs)
  | [], _, _ => by simp [insertNew]
  | z :: zs, hz, hs => by
    simp only [allTy, Bool.and_eq_true] at hz
    simp only [insertNew]
    cases h1 : lt x z
    · cases h2 : lt z x
      · have e : x = z := eq_of_not_lt hx hz.1 h1 h2
        subst e
        simp
      · simp only [Bool.false_eq_true, if_true, if_false, List.mem_cons,
          insertNew_iff hx zs hz.2 (sortedLt_tail hs)]
        constructor
        · rintro h (e | hm)
          · subst e; rw [lt_irrefl] at h2; cases h2
          · exact h hm
        · intro h hm; exact h (Or.inr hm)
    · simp only [if_true, List.mem_cons, true_iff]
      rintro (e | hm)
      · subst e; rw [lt_irrefl] at h1; cases h1
      · have := sortedLt_head_lt zs z hs x hm
        rw [lt_asymm h1] at this; cases this

/-- a run of `AddElement`s: ascending, typed, and exactly the old members plus the added ones. -/
theorem addAll_spec {τ : Ty} : ∀ (xs acc : List Val), allTy acc τ = true → allTy xs τ = true →
    sortedLt acc = true →
    sortedLt (addAll acc xs) = true ∧ allTy (addAll acc xs) τ = true ∧
      ∀ y, y ∈ addAll acc xs ↔ y ∈ acc ∨ y ∈ xs
  | [], acc, ha, _, hs => by simp [addAll, ha, hs]
  | x :: xs, acc, ha, hx, hs => by
    simp only [allTy, Bool.and_eq_true] at hx
    have ih := addAll_spec xs (insert x acc) (allTy_insert hx.1 acc ha) hx.2 (insert_sorted hx.1 acc ha hs)
    simp only [addAll, List.foldl_cons] at ih ⊢
    refine ⟨ih.1, ih.2.1, ?_⟩
    intro y
    rw [ih.2.2 y, mem_insert hx.1 acc ha y]
    simp only [List.mem_cons]
    constructor
    · rintro ((h | h) | h) <;> simp [h]
    · rintro (h | h | h) <;> simp [h]

theorem mkSet_eq_addAll (xs : List Val) : mkSet xs = addAll [] xs := rfl

/-! ## views of set implementations and the SDSet operations -/

/-- a view behaves like the finite set of its `elems`: strictly ascending (so every element is
iterated once), typed, canonical members, and `Contains` decides membership. -/
structure Faithful (v : View) (τ : Ty) : Prop where
  sorted : sortedLt v.elems = true
  typed : allTy v.elems τ = true
  canonEl : ∀ x ∈ v.elems, canon x = true
  has_iff : ∀ x, hasTy x τ = true → canon x = true → (v.has x = true ↔ x ∈ v.elems)

theorem enumView_faithful {xs : List Val} {τ : Ty} (hs : sortedLt xs = true) (ht : allTy xs τ = true)
    (hc : ∀ x ∈ xs, canon x = true) : Faithful (enumView xs) τ :=
  ⟨hs, ht, hc, fun _ hx _ => containsEnum_iff hx xs ht hs⟩

theorem allTy_filter {xs : List Val} {τ : Ty} (p : Val → Bool) (h : allTy xs τ = true) :
    allTy (xs.filter p) τ = true := by
  rw [allTy_iff] at *
  intro x hx; exact h x (List.mem_filter.mp hx).1

theorem allTy_append {xs ys : List Val} {τ : Ty} (h1 : allTy xs τ = true) (h2 : allTy ys τ = true) :
    allTy (xs ++ ys) τ = true := by
  rw [allTy_iff] at *
  intro x hx
  rcases List.mem_append.mp hx with h | h
  · exact h1 x h
  · exact h2 x h

theorem sortedLt_nil : sortedLt [] = true := rfl
theorem allTy_nil (τ : Ty) : allTy [] τ = true := rfl

theorem union_spec {a b : View} {τ : Ty} (ha : Faithful a τ) (hb : Faithful b τ) :
    sortedLt (union a b) = true ∧ allTy (union a b) τ = true ∧
      ∀ y, y ∈ union a b ↔ y ∈ a.elems ∨ y ∈ b.elems := by
  have h1 := addAll_spec a.elems [] (allTy_nil τ) ha.typed sortedLt_nil
  have h2 := addAll_spec b.elems (addAll [] a.elems) h1.2.1 hb.typed h1.1
  refine ⟨h2.1, h2.2.1, ?_⟩
  intro y
  rw [union, h2.2.2 y, h1.2.2 y]; simp

theorem intersect_spec {a b : View} {τ : Ty} (ha : Faithful a τ) (hb : Faithful b τ) :
    sortedLt (intersect a b) = true ∧ allTy (intersect a b) τ = true ∧
      ∀ y, y ∈ intersect a b ↔ y ∈ a.elems ∧ y ∈ b.elems := by
  have h1 := addAll_spec (b.elems.filter a.has) [] (allTy_nil τ) (allTy_filter _ hb.typed) sortedLt_nil
  refine ⟨h1.1, h1.2.1, ?_⟩
  intro y
  rw [intersect, h1.2.2 y]
  simp only [List.not_mem_nil, false_or, List.mem_filter]
  constructor
  · rintro ⟨hy, hh⟩
    exact ⟨(ha.has_iff y ((allTy_iff _ _).1 hb.typed y hy) (hb.canonEl y hy)).1 hh, hy⟩
  · rintro ⟨hy1, hy2⟩
    exact ⟨hy2, (ha.has_iff y ((allTy_iff _ _).1 hb.typed y hy2) (hb.canonEl y hy2)).2 hy1⟩

theorem mem_filter_not_has {a b : View} {τ : Ty} (ha : Faithful a τ) (hb : Faithful b τ) (y : Val) :
    y ∈ a.elems.filter (fun x => !b.has x) ↔ y ∈ a.elems ∧ y ∉ b.elems := by
  simp only [List.mem_filter, Bool.not_eq_eq_eq_not, Bool.not_true]
  constructor
  · rintro ⟨hy, hh⟩
    refine ⟨hy, fun hm => ?_⟩
    have := (hb.has_iff y ((allTy_iff _ _).1 ha.typed y hy) (ha.canonEl y hy)).2 hm
    rw [hh] at this; cases this
  · rintro ⟨hy, hn⟩
    refine ⟨hy, ?_⟩
    cases hh : b.has y
    · rfl
    · exact absurd ((hb.has_iff y ((allTy_iff _ _).1 ha.typed y hy) (ha.canonEl y hy)).1 hh) hn

theorem diff_spec {a b : View} {τ : Ty} (ha : Faithful a τ) (hb : Faithful b τ) :
    sortedLt (diff a b) = true ∧ allTy (diff a b) τ = true ∧
      ∀ y, y ∈ diff a b ↔ y ∈ a.elems ∧ y ∉ b.elems := by
  have h1 := addAll_spec (a.elems.filter fun x => !b.has x) [] (allTy_nil τ) (allTy_filter _ ha.typed) sortedLt_nil
  refine ⟨h1.1, h1.2.1, ?_⟩
  intro y
  rw [diff, h1.2.2 y, mem_filter_not_has ha hb]; simp

theorem symDiff_spec {a b : View} {τ : Ty} (ha : Faithful a τ) (hb : Faithful b τ) :
    sortedLt (symDiff a b) = true ∧ allTy (symDiff a b) τ = true ∧
      ∀ y, y ∈ symDiff a b ↔ (y ∈ a.elems ∧ y ∉ b.elems) ∨ (y ∈ b.elems ∧ y ∉ a.elems) := by
  have h1 := addAll_spec (a.elems.filter fun x => !b.has x) [] (allTy_nil τ) (allTy_filter _ ha.typed) sortedLt_nil
  have h2 := addAll_spec (b.elems.filter fun x => !a.has x) _ h1.2.1 (allTy_filter _ hb.typed) h1.1
  refine ⟨h2.1, h2.2.1, ?_⟩
  intro y
  rw [symDiff, h2.2.2 y, h1.2.2 y, mem_filter_not_has ha hb, mem_filter_not_has hb ha]; simp

theorem findIfNot_none (p : Val → Bool) : ∀ (xs : List Val) (i : Nat),
    findIfNot p xs i = none ↔ ∀ x ∈ xs, p x = true
  | [], _ => by simp [findIfNot]
  | x :: xs, i => by
    simp only [findIfNot]
    cases h : p x
    · simp [h]
    · simp [h, findIfNot_none p xs (i + 1)]

theorem isSubsetOrEq_iff_all (a b : View) :
    isSubsetOrEq a b = true ↔ ∀ x ∈ a.elems, b.has x = true := by
  unfold isSubsetOrEq allOfWith
  cases h : findIfNot b.has a.elems 0 with
  | none => simpa using (findIfNot_none b.has a.elems 0).1 h
  | some i =>
    simp only [endEqIter]
    constructor
    · intro h'; cases h'
    · intro h'
      rw [(findIfNot_none b.has a.elems 0).2 h'] at h; cases h

theorem isSubsetOrEq_spec {a b : View} {τ : Ty} (ha : Faithful a τ) (hb : Faithful b τ) :
    isSubsetOrEq a b = true ↔ ∀ x, x ∈ a.elems → x ∈ b.elems := by
  rw [isSubsetOrEq_iff_all]
  constructor
  · intro h x hx
    exact (hb.has_iff x ((allTy_iff _ _).1 ha.typed x hx) (ha.canonEl x hx)).1 (h x hx)
  · intro h x hx
    exact (hb.has_iff x ((allTy_iff _ _).1 ha.typed x hx) (ha.canonEl x hx)).2 (h x hx)

/-! ### allSome -/

theorem allSome_map_some {α β} (f : α → Option β) : ∀ (xs : List α),
    (∀ x ∈ xs, ∃ y, f x = some y) → ∃ ys, allSome (xs.map f) = some ys
  | [], _ => ⟨[], rfl⟩
  | x :: xs, h => by
    obtain ⟨y, hy⟩ := h x (by simp)
    obtain ⟨ys, hys⟩ := allSome_map_some f xs (fun x hx => h x (List.mem_cons_of_mem _ hx))
    exact ⟨y :: ys, by simp [allSome, hy, hys]⟩

theorem allSome_map_mem {α β} (f : α → Option β) : ∀ (xs : List α) (ys : List β),
    allSome (xs.map f) = some ys → ∀ y, y ∈ ys ↔ ∃ x ∈ xs, f x = some y
  | [], ys => by
    simp only [List.map_nil, allSome, Option.some.injEq]
    intro h; subst h; simp
  | x :: xs, ys => by
    simp only [List.map_cons]
    cases hx : f x with
    | none => simp [allSome]
    | some v =>
      simp only [allSome, Option.map_eq_some_iff]
      rintro ⟨ys', h1, h2⟩ y
      subst h2
      rw [List.mem_cons, allSome_map_mem f xs ys' h1 y]
      constructor
      · rintro (e | ⟨x', hx', he⟩)
        · exact ⟨x, by simp, by rw [hx, e]⟩
        · exact ⟨x', by simp [hx'], he⟩
      · rintro ⟨x', hx', he⟩
        rcases List.mem_cons.mp hx' with e | hm
        · subst e; rw [hx] at he; left; exact (Option.some.inj he).symm
        · right; exact ⟨x', hm, he⟩

/-! ### Reduce -/

theorem reduce_spec {a : List Val} {τ : Ty} (ht : allTy a (.coll τ) = true) :
    ∃ r, reduce a = some r ∧ sortedLt r = true ∧ allTy r τ = true ∧
      ∀ y, y ∈ r ↔ ∃ ys, Val.s ys ∈ a ∧ y ∈ ys := by
  have hmem : ∀ x ∈ a, ∃ ys, members x = some ys := by
    intro x hx
    have := (allTy_iff _ _).1 ht x hx
    cases x <;> simp [hasTy] at this
    exact ⟨_, rfl⟩
  obtain ⟨yss, hyss⟩ := allSome_map_some members a hmem
  have hchar := allSome_map_mem members a yss hyss
  have hty : allTy yss.flatten τ = true := by
    rw [allTy_iff]
    intro y hy
    obtain ⟨ys, hys, hyy⟩ := List.mem_flatten.mp hy
    obtain ⟨x, hx, hxe⟩ := (hchar ys).1 hys
    have := (allTy_iff _ _).1 ht x hx
    cases x <;> simp [members] at hxe
    subst hxe
    simp only [hasTy] at this
    exact (allTy_iff _ _).1 this y hyy
  have h1 := addAll_spec yss.flatten [] (allTy_nil τ) hty sortedLt_nil
  refine ⟨addAll [] yss.flatten, by simp [reduce, hyss], h1.1, h1.2.1, ?_⟩
  intro y
  rw [h1.2.2 y]
  simp only [List.not_mem_nil, false_or, List.mem_flatten]
  constructor
  · rintro ⟨ys, hys, hyy⟩
    obtain ⟨x, hx, hxe⟩ := (hchar ys).1 hys
    cases x <;> simp [members] at hxe
    subst hxe
    exact ⟨_, hx, hyy⟩
  · rintro ⟨ys, hx, hyy⟩
    exact ⟨ys, (hchar ys).2 ⟨_, hx, rfl⟩, hyy⟩

/-! ### Projection -/

def tyAt (ts : List Ty) (i : Nat) : Option Ty := if i = 0 then none else ts[i - 1]?

def mkTupleTy : List Ty → Option Ty
  | [] => none
  | [t] => some t
  | ts => some (.tup ts)

/-- the typification of `pr_{idx}` applied to tuples of type `tup ts` (1-based indices). -/
def projTy (ts : List Ty) (idx : List Nat) : Option Ty := (allSome (idx.map (tyAt ts))).bind mkTupleTy

theorem hasTys_getElem? : ∀ (cs : List Val) (ts : List Ty) (k : Nat) (t : Ty), hasTys cs ts = true →
    ts[k]? = some t → ∃ c, cs[k]? = some c ∧ hasTy c t = true
  | [], [], _, _ => by simp
  | [], _ :: _, _, _ => by simp [hasTys]
  | _ :: _, [], _, _ => by simp [hasTys]
  | c :: cs, t' :: ts, 0, t => by
    simp only [hasTys, Bool.and_eq_true, List.getElem?_cons_zero, Option.some.injEq]
    rintro ⟨h1, _⟩ e; subst e; exact ⟨c, rfl, h1⟩
  | c :: cs, t' :: ts, k + 1, t => by
    simp only [hasTys, Bool.and_eq_true, List.getElem?_cons_succ]
    rintro ⟨_, h2⟩ e; exact hasTys_getElem? cs ts k t h2 e

theorem components_typed {cs : List Val} {ts : List Ty} (h : hasTys cs ts = true) :
    ∀ (idx : List Nat) (tys : List Ty), allSome (idx.map (tyAt ts)) = some tys →
      ∃ vs, allSome (idx.map (component (.t cs))) = some vs ∧ hasTys vs tys = true
  | [], tys => by
    simp only [List.map_nil, allSome, Option.some.injEq]
    intro e; subst e; exact ⟨[], rfl, rfl⟩
  | i :: idx, tys => by
    simp only [List.map_cons]
    cases hi : tyAt ts i with
    | none => simp [allSome]
    | some t =>
      simp only [allSome, Option.map_eq_some_iff]
      rintro ⟨tys', h1, h2⟩
      subst h2
      obtain ⟨vs, hv1, hv2⟩ := components_typed h idx tys' h1
      unfold tyAt at hi
      by_cases h0 : i = 0
      · simp [h0] at hi
      · simp only [h0, if_false] at hi
        obtain ⟨c, hc1, hc2⟩ := hasTys_getElem? cs ts (i - 1) t h hi
        refine ⟨c :: vs, ?_, by simp [hasTys, hc2, hv2]⟩
        simp [component, h0, hc1, allSome, hv1]

theorem mkTuple_typed : ∀ (vs : List Val) (tys : List Ty) (ρ : Ty), hasTys vs tys = true →
    mkTupleTy tys = some ρ → ∃ y, mkTuple vs = some y ∧ hasTy y ρ = true
  | [], [], _ => by simp [mkTupleTy]
  | [], _ :: _, _ => by simp [hasTys]
  | _ :: _, [], _ => by simp [hasTys]
  | [v], [t], ρ => by
    simp only [hasTys, Bool.and_true, mkTupleTy, Option.some.injEq]
    intro h e; subst e; exact ⟨v, rfl, h⟩
  | [_], _ :: _ :: _, _ => by simp [hasTys]
  | _ :: _ :: _, [_], _ => by simp [hasTys]
  | v1 :: v2 :: vs, t1 :: t2 :: ts, ρ => by
    simp only [mkTupleTy, Option.some.injEq]
    intro h e; subst e
    exact ⟨.t (v1 :: v2 :: vs), rfl, by simpa [hasTy] using h⟩

theorem projectOne_typed {x : Val} {ts : List Ty} {idx : List Nat} {ρ : Ty}
    (hx : hasTy x (.tup ts) = true) (hp : projTy ts idx = some ρ) :
    ∃ y, projectOne idx x = some y ∧ hasTy y ρ = true := by
  cases x with
  | e n => simp [hasTy] at hx
  | s xs => simp [hasTy] at hx
  | t cs =>
    simp only [hasTy] at hx
    unfold projTy at hp
    cases hty : allSome (idx.map (tyAt ts)) with
    | none => simp [hty] at hp
    | some tys =>
      simp only [hty, Option.bind_some] at hp
      obtain ⟨vs, hv1, hv2⟩ := components_typed hx idx tys hty
      obtain ⟨y, hy1, hy2⟩ := mkTuple_typed vs tys ρ hv2 hp
      exact ⟨y, by simp [projectOne, hv1, hy1], hy2⟩

theorem projection_spec {a : List Val} {ts : List Ty} {idx : List Nat} {ρ : Ty}
    (ht : allTy a (.tup ts) = true) (hp : projTy ts idx = some ρ) :
    ∃ r, projection idx a = some r ∧ sortedLt r = true ∧ allTy r ρ = true ∧
      ∀ y, y ∈ r ↔ ∃ x ∈ a, projectOne idx x = some y := by
  have hdef : ∀ x ∈ a, ∃ y, projectOne idx x = some y := fun x hx =>
    let ⟨y, hy, _⟩ := projectOne_typed ((allTy_iff _ _).1 ht x hx) hp
    ⟨y, hy⟩
  obtain ⟨ys, hys⟩ := allSome_map_some (projectOne idx) a hdef
  have hchar := allSome_map_mem (projectOne idx) a ys hys
  have hty : allTy ys ρ = true := by
    rw [allTy_iff]
    intro y hy
    obtain ⟨x, hx, hxe⟩ := (hchar y).1 hy
    obtain ⟨y', hy1, hy2⟩ := projectOne_typed ((allTy_iff _ _).1 ht x hx) hp
    rw [hxe] at hy1; cases hy1; exact hy2
  have h1 := addAll_spec ys [] (allTy_nil ρ) hty sortedLt_nil
  refine ⟨mkSet ys, by simp [projection, hys], h1.1, h1.2.1, ?_⟩
  intro y
  rw [mkSet_eq_addAll, h1.2.2 y, ← hchar y]; simp

/-! ## the mathematical object a (raw, possibly not canonical) value denotes

`sameObject a b`: `a` and `b` denote the same element / tuple / finite set — the set-theoretic
notion, written without any reference to `cmp`, to an order or to a representation: two set values
are the same object when each member of one has a counterpart in the other. -/

mutual
def sameObject : Val → Val → Bool
  | .e a, .e b => a == b
  | .t as, .t bs => sameAll as bs
  | .s as, .s bs => subObj as bs && bs.all (fun b => anyObj as b)
  | .e _, .t _ => false
  | .e _, .s _ => false
  | .t _, .e _ => false
  | .t _, .s _ => false
  | .s _, .e _ => false
  | .s _, .t _ => false
termination_by structural a => a
/-- component-wise. -/
def sameAll : List Val → List Val → Bool
  | [], [] => true
  | a :: as, b :: bs => sameObject a b && sameAll as bs
  | [], _ :: _ => false
  | _ :: _, [] => false
termination_by structural a => a
/-- every member of `as` has a counterpart in `bs`. -/
def subObj : List Val → List Val → Bool
  | [], _ => true
  | a :: as, bs => bs.any (fun b => sameObject a b) && subObj as bs
termination_by structural a => a
/-- `b` has a counterpart in `as`. -/
def anyObj : List Val → Val → Bool
  | [], _ => false
  | a :: as, b => sameObject a b || anyObj as b
termination_by structural a => a
end

mutual
theorem sameObject_refl : ∀ a : Val, sameObject a a = true
  | .e n => by simp [sameObject]
  | .t cs => by simp [sameObject, sameAll_refl cs]
  | .s xs => by
    simp only [sameObject, Bool.and_eq_true, List.all_eq_true]
    exact ⟨subObj_of_subset xs xs (fun _ h => h), fun b hb => anyObj_of_mem xs b hb⟩
theorem sameAll_refl : ∀ as : List Val, sameAll as as = true
  | [] => by simp [sameAll]
  | a :: as => by simp [sameAll, sameObject_refl a, sameAll_refl as]
theorem subObj_of_subset : ∀ as bs : List Val, (∀ a ∈ as, a ∈ bs) → subObj as bs = true
  | [], _ => by simp [subObj]
  | a :: as, bs => by
    intro h
    simp only [subObj, Bool.and_eq_true, List.any_eq_true]
    exact ⟨⟨a, h a (by simp), sameObject_refl a⟩, subObj_of_subset as bs (fun x hx => h x (by simp [hx]))⟩
theorem anyObj_of_mem : ∀ (as : List Val) (b : Val), b ∈ as → anyObj as b = true
  | [], _ => by simp
  | a :: as, b => by
    intro h
    simp only [anyObj, Bool.or_eq_true]
    rcases List.mem_cons.mp h with e | h
    · rw [e]; exact Or.inl (sameObject_refl a)
    · exact Or.inr (anyObj_of_mem as b h)
end

mutual
theorem sameObject_imp_eq : ∀ a b : Val, canon a = true → canon b = true → sameObject a b = true → a = b
  | .e x, .e y => by simp [sameObject]
  | .t as, .t bs => by
    simp only [sameObject, canon]
    intro h1 h2 h; rw [sameAll_imp_eq as bs h1 h2 h]
  | .s as, .s bs => by
    simp only [sameObject, canon, Bool.and_eq_true, List.all_eq_true]
    rintro ⟨c1, s1⟩ ⟨c2, s2⟩ ⟨h1, h2⟩
    have m1 := subObj_imp as bs c1 c2 h1
    have e := sorted_ext as bs s1 s2 (fun v => ⟨m1 v, fun hv => anyObj_imp as v c1
      ((canonList_iff bs).1 c2 v hv) (h2 v hv)⟩)
    rw [e]
  | .e _, .t _ => by simp [sameObject]
  | .e _, .s _ => by simp [sameObject]
  | .t _, .e _ => by simp [sameObject]
  | .t _, .s _ => by simp [sameObject]
  | .s _, .e _ => by simp [sameObject]
  | .s _, .t _ => by simp [sameObject]
theorem sameAll_imp_eq : ∀ as bs : List Val, canonList as = true → canonList bs = true →
    sameAll as bs = true → as = bs
  | [], [] => by simp
  | [], _ :: _ => by simp [sameAll]
  | _ :: _, [] => by simp [sameAll]
  | a :: as, b :: bs => by
    simp only [canonList, sameAll, Bool.and_eq_true]
    rintro ⟨c1, c2⟩ ⟨d1, d2⟩ ⟨h1, h2⟩
    rw [sameObject_imp_eq a b c1 d1 h1, sameAll_imp_eq as bs c2 d2 h2]
theorem subObj_imp : ∀ as bs : List Val, canonList as = true → canonList bs = true →
    subObj as bs = true → ∀ v, v ∈ as → v ∈ bs
  | [], _ => by simp
  | a :: as, bs => by
    simp only [canonList, subObj, Bool.and_eq_true, List.any_eq_true]
    rintro ⟨c1, c2⟩ d ⟨⟨b, hb, hab⟩, h2⟩ v hv
    rcases List.mem_cons.mp hv with e | hv
    · rw [e, sameObject_imp_eq a b c1 ((canonList_iff bs).1 d b hb) hab]; exact hb
    · exact subObj_imp as bs c2 d h2 v hv
theorem anyObj_imp : ∀ (as : List Val) (b : Val), canonList as = true → canon b = true →
    anyObj as b = true → b ∈ as
  | [], _ => by simp [anyObj]
  | a :: as, b => by
    simp only [canonList, anyObj, Bool.and_eq_true, Bool.or_eq_true]
    rintro ⟨c1, c2⟩ d (h | h)
    · rw [sameObject_imp_eq a b c1 d h]; simp
    · exact List.mem_cons_of_mem _ (anyObj_imp as b c2 d h)
end

/-- on canonical values "same mathematical object" is equality. -/
theorem sameObject_iff_eq {a b : Val} (ha : canon a = true) (hb : canon b = true) :
    sameObject a b = true ↔ a = b :=
  ⟨sameObject_imp_eq a b ha hb, fun h => h ▸ sameObject_refl a⟩

theorem subObj_iff_canon {as bs : List Val} (ha : canonList as = true) (hb : canonList bs = true) :
    subObj as bs = true ↔ ∀ v, v ∈ as → v ∈ bs :=
  ⟨subObj_imp as bs ha hb, subObj_of_subset as bs⟩

/-- raw set values over canonical members denote the same set iff they have the same members. -/
theorem sameObject_sets_iff {as bs : List Val} (ha : canonList as = true) (hb : canonList bs = true) :
    sameObject (.s as) (.s bs) = true ↔ ∀ v, v ∈ as ↔ v ∈ bs := by
  simp only [sameObject, Bool.and_eq_true, List.all_eq_true]
  constructor
  · rintro ⟨h1, h2⟩ v
    exact ⟨subObj_imp as bs ha hb h1 v, fun hv => anyObj_imp as v ha ((canonList_iff bs).1 hb v hv) (h2 v hv)⟩
  · intro h
    exact ⟨subObj_of_subset as bs (fun v hv => (h v).1 hv), fun b hb' => anyObj_of_mem as b ((h b).2 hb')⟩
