import CCVerif.Model.Checker
import CCVerif.Spec.VClass
/-!
C03, value-class audit: COMPLETENESS of the `ValueAuditor` model (`vVisit` / `vcheck`) for the
declarative relation `Spec.HasVClass`: a derivation `Γ; P ⊢ e ⇓ c` makes every run with enough fuel
return `c` without logging anything. By structural recursion on the (mutual) derivations; the fuel
bound is read off the derivation, so no hypothesis on the tree or on the context is needed.
-/
namespace CCVerif.Checker
open CCVerif.Syntax CCVerif.Types CCVerif.Spec

/-! ## runs that succeed with a class -/

/-- position-wise successful runs of a visitor on a list -/
def OkRuns (v : VVisitor) : List Ast → List VClass → Prop
  | [], [] => True
  | k :: ks, c :: cs => v k = vSet c ∧ OkRuns v ks cs
  | _, _ => False

theorem okRuns_length {v : VVisitor} : ∀ {ks : List Ast} {cs : List VClass}, OkRuns v ks cs → ks.length = cs.length
  | [], [], _ => rfl
  | _ :: ks, _ :: cs, h => by simp [okRuns_length (ks := ks) (cs := cs) h.2]
  | [], _ :: _, h => h.elim
  | _ :: _, [], h => h.elim

theorem getLastD_cons (c : VClass) (cs : List VClass) (x y : VClass) :
    (c :: cs).getLast?.getD x = (c :: cs).getLast?.getD y := by
  cases h : (c :: cs).getLast? with
  | none => simp at h
  | some z => rfl

theorem vVisitAll_ok {v : VVisitor} : ∀ {ks : List Ast} {cs : List VClass}, OkRuns v ks cs →
    vVisitAll v ks = fun s => (.ok (), { s with cur := cs.getLast?.getD s.cur })
  | [], [], _ => rfl
  | k :: ks, c :: cs, h => by
    funext s
    simp only [vVisitAll, VM.bind, h.1, vSet, vVisitAll_ok h.2]
    cases cs with
    | nil => simp
    | cons c' cs' => simp [List.getLast?_cons_cons, getLastD_cons c' cs' c s.cur]
  | [], _ :: _, h => h.elim
  | _ :: _, [], h => h.elim

theorem vArgs_ok {v : VVisitor} : ∀ {ks : List Ast} {cs : List VClass}, OkRuns v ks cs →
    vArgs v ks = fun s => (.ok cs, { s with cur := cs.getLast?.getD s.cur })
  | [], [], _ => rfl
  | k :: ks, c :: cs, h => by
    funext s
    simp only [vArgs, VM.bind, h.1, vSet, vGet, vArgs_ok h.2, VM.pure]
    cases cs with
    | nil => simp
    | cons c' cs' => simp [List.getLast?_cons_cons, getLastD_cons c' cs' c s.cur]
  | [], _ :: _, h => h.elim
  | _ :: _, [], h => h.elim

theorem vDecartGo_ok {v : VVisitor} : ∀ {ks : List Ast} {cs : List VClass} (t : VClass), OkRuns v ks cs →
    vDecartGo v ks t = vSet (if VClass.props ∈ cs then .props else t)
  | [], [], t, _ => by simp [vDecartGo]
  | k :: ks, c :: cs, t, h => by
    funext s
    simp only [vDecartGo, VM.bind, h.1, vSet, vGet, vDecartGo_ok _ h.2]
    cases c <;> by_cases hm : VClass.props ∈ cs <;> simp [hm]
  | [], _ :: _, _, h => h.elim
  | _ :: _, [], _, h => h.elim

/-- `AssertAllValues` on children that all run to `value` -/
theorem vAssertAll_ok {v : VVisitor} (report : Bool) (a : Ast) : ∀ (n i : Nat),
    (∀ j, j < n → ∃ k, a.kid (i + j) = some k ∧ v k = vSet .value) →
    vAssertAll report v a n i = fun s => (.ok (), { s with cur := if n = 0 then s.cur else .value })
  | 0, _, _ => rfl
  | n+1, i, h => by
    obtain ⟨k, hk, hv⟩ := h 0 (by omega)
    have ih := vAssertAll_ok report a n (i + 1) (fun j hj => by
      obtain ⟨k', hk', hv'⟩ := h (j + 1) (by omega)
      exact ⟨k', by rw [← hk']; congr 1; omega, hv'⟩)
    funext s
    simp only [Nat.add_zero] at hk
    simp only [vAssertAll, VM.bind, vAssertValue, vKid, hk, VM.pure, hv, vSet, vGet, ih]
    by_cases hn : n = 0 <;> simp [hn, VM.pure]

theorem okRuns_kid {v : VVisitor} : ∀ {ks : List Ast} {cs : List VClass}, OkRuns v ks cs →
    (∀ c ∈ cs, c = VClass.value) → ∀ j, j < ks.length → ∃ k, ks[j]? = some k ∧ v k = vSet .value
  | k :: ks, c :: cs, h, hv, 0, _ => ⟨k, rfl, by rw [h.1, hv c (by simp)]⟩
  | k :: ks, c :: cs, h, hv, j+1, hj => by
    obtain ⟨k', h1, h2⟩ := okRuns_kid (ks := ks) (cs := cs) h.2 (fun c hc => hv c (by simp [hc])) j
      (by simpa using hj)
    exact ⟨k', by simpa using h1, h2⟩
  | [], _, _, _, j, hj => by simp at hj
  | _ :: _, [], h, _, _, _ => h.elim

theorem propsOf_of_propParams : ∀ {ds : List Ast} {cs : List VClass} {ps : List String},
    PropParams ds cs ps → ds.length = cs.length ∧ propsOf ds cs = some ps
  | _, _, _, .nil => ⟨rfl, rfl⟩
  | _, _, _, .props (d := d) hn h => by
    obtain ⟨h1, h2⟩ := propsOf_of_propParams h
    refine ⟨by simp [h1], ?_⟩
    simp only [propsOf, h2]
    obtain ⟨t, dd, lo, hi, kids⟩ := d
    cases kids with
    | nil => simp [argName] at hn
    | cons k0 rest =>
      obtain ⟨t0, d0, l0, h0, k0s⟩ := k0
      cases d0 <;> simp_all [argName, Ast.kid, Ast.kids]
  | _, _, _, .other (c := c) hc h => by
    obtain ⟨h1, h2⟩ := propsOf_of_propParams h
    refine ⟨by simp [h1], ?_⟩
    simp only [propsOf, h2]
    cases c <;> simp_all

/-! ## a derivation makes the model return its class -/

/-- every run with enough fuel returns `c` and logs nothing -/
def Conv (Γ : Ctx) (P : List String) (k : Ast) (c : VClass) : Prop :=
  ∃ N, ∀ n, N ≤ n → ∀ report, vVisit Γ n report P k = vSet c

def Convs (Γ : Ctx) (P : List String) (ks : List Ast) (cs : List VClass) : Prop :=
  ∃ N, ∀ n, N ≤ n → ∀ report, OkRuns (vVisit Γ n report P) ks cs

theorem ne_invalid_beq {c : VClass} (h : c ≠ .invalid) : (c == VClass.invalid) = false := by
  cases c <;> simp_all

theorem all_value_of {cs : List VClass} (h : ∀ c ∈ cs, c = VClass.value) : cs.all (· == .value) = true := by
  simp only [List.all_eq_true, beq_iff_eq]; exact h

theorem not_all_value_of {cs : List VClass} (h : ∃ c ∈ cs, c ≠ VClass.value) : cs.all (· == .value) = false := by
  obtain ⟨c, hc, hne⟩ := h
  cases hall : cs.all (· == .value) with
  | false => rfl
  | true =>
    simp only [List.all_eq_true, beq_iff_eq] at hall
    exact absurd (hall c hc) hne

set_option maxHeartbeats 400000 in
mutual
theorem conv_of_has {Γ : Ctx} : ∀ {P : List String} {e : Ast} {c : VClass}, HasVClass Γ P e c → Conv Γ P e c
  | _, _, _, .global ht hl hc => by
    refine ⟨1, fun n hn report => ?_⟩
    obtain ⟨m, rfl⟩ : ∃ m, n = m + 1 := ⟨n - 1, by omega⟩
    funext s
    rcases ht with rfl | rfl | rfl <;>
      simp [vVisit, vDispatch, Ast.id, Ast.data, vText, VM.bind, VM.pure, vclassOf, hl, ne_invalid_beq hc, vSet]
  | _, _, _, .localValue hx => by
    refine ⟨1, fun n hn report => ?_⟩
    obtain ⟨m, rfl⟩ : ∃ m, n = m + 1 := ⟨n - 1, by omega⟩
    funext s
    simp [vVisit, vDispatch, Ast.id, Ast.data, vText, VM.bind, VM.pure, vSet, hx]
  | _, _, _, .localProps hx => by
    refine ⟨1, fun n hn report => ?_⟩
    obtain ⟨m, rfl⟩ : ∃ m, n = m + 1 := ⟨n - 1, by omega⟩
    funext s
    simp [vVisit, vDispatch, Ast.id, Ast.data, vText, VM.bind, VM.pure, vSet, hx]
  | _, _, _, .const ht => by
    refine ⟨1, fun n hn report => ?_⟩
    obtain ⟨m, rfl⟩ : ∃ m, n = m + 1 := ⟨n - 1, by omega⟩
    funext s
    rcases ht with rfl | rfl | rfl <;> simp [vVisit, vDispatch, Ast.id, vSet]
  | _, _, _, .intset => by
    refine ⟨1, fun n hn report => ?_⟩
    obtain ⟨m, rfl⟩ : ∃ m, n = m + 1 := ⟨n - 1, by omega⟩
    funext s
    simp [vVisit, vDispatch, Ast.id, vSet]
  | _, _, _, .valueOp ht ha hb => by
    obtain ⟨Na, ha⟩ := conv_of_has ha
    obtain ⟨Nb, hb⟩ := conv_of_has hb
    refine ⟨Na + Nb + 1, fun n hn report => ?_⟩
    obtain ⟨m, rfl⟩ : ∃ m, n = m + 1 := ⟨n - 1, by omega⟩
    have ha := ha m (by omega) report
    have hb := hb m (by omega) report
    funext s
    rcases ht with rfl | rfl | rfl | rfl | rfl | rfl | rfl | rfl | rfl | rfl | rfl <;>
      simp [vVisit, vDispatch, vAllSet, vVisitAll, VM.bind, VM.pure, vSet, ha, hb, Ast.id, Ast.kids]
  | _, _, _, .not ha => by
    obtain ⟨Na, ha⟩ := conv_of_has ha
    refine ⟨Na + 1, fun n hn report => ?_⟩
    obtain ⟨m, rfl⟩ : ∃ m, n = m + 1 := ⟨n - 1, by omega⟩
    have ha := ha m (by omega) report
    funext s
    simp [vVisit, vDispatch, vAllSet, vVisitAll, VM.bind, VM.pure, vSet, ha, Ast.id, Ast.kids]
  | _, _, _, .needValue ht ha => by
    obtain ⟨Na, ha⟩ := conv_of_has ha
    refine ⟨Na + 1, fun n hn report => ?_⟩
    obtain ⟨m, rfl⟩ : ∃ m, n = m + 1 := ⟨n - 1, by omega⟩
    have ha := ha m (by omega) report
    funext s
    rcases ht with rfl | rfl | rfl | rfl | rfl | rfl <;>
      simp [vVisit, vDispatch, vAssertValue, vKid, vGet, VM.bind, VM.pure, vSet, ha, Ast.id, Ast.kids, Ast.kid]
  | _, _, _, .quant ht ha hb => by
    obtain ⟨Na, ha⟩ := conv_of_has ha
    obtain ⟨Nb, hb⟩ := conv_of_has hb
    refine ⟨Na + Nb + 1, fun n hn report => ?_⟩
    obtain ⟨m, rfl⟩ : ∃ m, n = m + 1 := ⟨n - 1, by omega⟩
    have ha := ha m (by omega) report
    have hb := hb m (by omega) report
    funext s
    rcases ht with rfl | rfl <;>
      simp [vVisit, vDispatch, vAssertValue, vVisitChild, vKid, vGet, VM.bind, VM.pure, vSet, ha, hb, Ast.id, Ast.kids, Ast.kid]
  | _, _, _, .compare ht ha hb => by
    obtain ⟨Na, ha⟩ := conv_of_has ha
    obtain ⟨Nb, hb⟩ := conv_of_has hb
    refine ⟨Na + Nb + 1, fun n hn report => ?_⟩
    obtain ⟨m, rfl⟩ : ∃ m, n = m + 1 := ⟨n - 1, by omega⟩
    have ha := ha m (by omega) report
    have hb := hb m (by omega) report
    funext s
    rcases ht with rfl | rfl | rfl | rfl <;>
      simp [vVisit, vDispatch, vAssertAll, vAssertValue, vKid, vGet, VM.bind, VM.pure, vSet, ha, hb, Ast.id, Ast.kids, Ast.kid]
  | _, _, _, .elem ht hb ha => by
    obtain ⟨Na, ha⟩ := conv_of_has ha
    obtain ⟨Nb, hb⟩ := conv_of_has hb
    refine ⟨Na + Nb + 1, fun n hn report => ?_⟩
    obtain ⟨m, rfl⟩ : ∃ m, n = m + 1 := ⟨n - 1, by omega⟩
    have ha := ha m (by omega) report
    have hb := hb m (by omega) report
    funext s
    rcases ht with rfl | rfl | rfl <;>
      simp [vVisit, vDispatch, vAssertValue, vVisitChild, vKid, vGet, VM.bind, VM.pure, vSet, ha, hb, Ast.id, Ast.kids, Ast.kid]
  | _, _, _, .declarative hb ha => by
    obtain ⟨Na, ha⟩ := conv_of_has ha
    obtain ⟨Nb, hb⟩ := conv_of_has hb
    refine ⟨Na + Nb + 1, fun n hn report => ?_⟩
    obtain ⟨m, rfl⟩ : ∃ m, n = m + 1 := ⟨n - 1, by omega⟩
    have ha := ha m (by omega) report
    have hb := hb m (by omega) report
    funext s
    simp [vVisit, vDispatch, vVisitChild, vKid, VM.bind, VM.pure, vSet, ha, hb, Ast.id, Ast.kids, Ast.kid]
  | _, _, _, .imperative hbs ha => by
    obtain ⟨Na, ha⟩ := conv_of_has ha
    obtain ⟨Nb, hbs⟩ := convs_of_has hbs
    refine ⟨Na + Nb + 1, fun n hn report => ?_⟩
    obtain ⟨m, rfl⟩ : ∃ m, n = m + 1 := ⟨n - 1, by omega⟩
    have ha := ha m (by omega) report
    have hbs := vVisitAll_ok (hbs m (by omega) report)
    funext s
    simp [vVisit, vDispatch, vAssertValue, vKid, vGet, VM.bind, VM.pure, vSet, ha, hbs, Ast.id, Ast.kids, Ast.kid]
  | _, _, _, .block ht ha => by
    obtain ⟨Na, ha⟩ := conv_of_has ha
    refine ⟨Na + 1, fun n hn report => ?_⟩
    obtain ⟨m, rfl⟩ : ∃ m, n = m + 1 := ⟨n - 1, by omega⟩
    have ha := ha m (by omega) report
    funext s
    rcases ht with rfl | rfl <;>
      simp [vVisit, vDispatch, vAssertValue, vKid, vGet, VM.bind, VM.pure, vSet, ha, Ast.id, Ast.kids, Ast.kid]
  | _, _, _, .recShort hp ha hb => by
    obtain ⟨Np, hp⟩ := conv_of_has hp
    obtain ⟨Na, ha⟩ := conv_of_has ha
    obtain ⟨Nb, hb⟩ := conv_of_has hb
    refine ⟨Np + Na + Nb + 1, fun n hn report => ?_⟩
    obtain ⟨m, rfl⟩ : ∃ m, n = m + 1 := ⟨n - 1, by omega⟩
    have hp := hp m (by omega) report
    have ha := ha m (by omega) report
    have hb := hb m (by omega) report
    funext s
    simp [vVisit, vDispatch, vAssertAll, vAssertValue, vKid, vGet, VM.bind, VM.pure, vSet, hp, ha, hb, Ast.id, Ast.kids, Ast.kid]
  | _, _, _, .recFull hp ha hc hb => by
    obtain ⟨Np, hp⟩ := conv_of_has hp
    obtain ⟨Na, ha⟩ := conv_of_has ha
    obtain ⟨Nc, hc⟩ := conv_of_has hc
    obtain ⟨Nb, hb⟩ := conv_of_has hb
    refine ⟨Np + Na + Nc + Nb + 1, fun n hn report => ?_⟩
    obtain ⟨m, rfl⟩ : ∃ m, n = m + 1 := ⟨n - 1, by omega⟩
    have hp := hp m (by omega) report
    have ha := ha m (by omega) report
    have hc := hc m (by omega) report
    have hb := hb m (by omega) report
    funext s
    simp [vVisit, vDispatch, vAssertAll, vAssertValue, vKid, vGet, VM.bind, VM.pure, vSet, hp, ha, hc, hb, Ast.id, Ast.kids, Ast.kid]
  | _, _, _, .tupleDecl hks => by
    obtain ⟨Nk, hks⟩ := convs_of_has hks
    refine ⟨Nk + 1, fun n hn report => ?_⟩
    obtain ⟨m, rfl⟩ : ∃ m, n = m + 1 := ⟨n - 1, by omega⟩
    have hks := vVisitAll_ok (hks m (by omega) report)
    funext s
    simp [vVisit, vDispatch, vAllSet, VM.bind, vSet, hks, Ast.id, Ast.kids]
  | _, _, _, .decart hks => by
    obtain ⟨Nk, hks⟩ := convs_of_has hks
    refine ⟨Nk + 1, fun n hn report => ?_⟩
    obtain ⟨m, rfl⟩ : ∃ m, n = m + 1 := ⟨n - 1, by omega⟩
    have hks := vDecartGo_ok .value (hks m (by omega) report)
    funext s
    simp only [vVisit, vDispatch, Ast.id, Ast.kids, hks]
  | _, _, _, .boolean ha => by
    obtain ⟨Na, ha⟩ := conv_of_has ha
    refine ⟨Na + 1, fun n hn report => ?_⟩
    obtain ⟨m, rfl⟩ : ∃ m, n = m + 1 := ⟨n - 1, by omega⟩
    have ha := ha m (by omega) report
    funext s
    simp [vVisit, vDispatch, vVisitChild, vKid, VM.bind, VM.pure, vSet, ha, Ast.id, Ast.kids, Ast.kid]
  | _, _, _, .collect (d := d) (lo := lo) (hi := hi) (a := a) (ks := ks) ht hks hv => by
    obtain ⟨Nk, hks⟩ := convs_of_has hks
    refine ⟨Nk + 1, fun n hn report => ?_⟩
    obtain ⟨m, rfl⟩ : ∃ m, n = m + 1 := ⟨n - 1, by omega⟩
    have hr := hks m (by omega) report
    funext s
    rcases ht with rfl | rfl
    · have := vAssertAll_ok (v := vVisit Γ m report _) report (.node .NT_ENUMERATION d lo hi (a :: ks)) (a :: ks).length 0
        (fun j hj => by simpa [Ast.kid, Ast.kids] using okRuns_kid hr hv j hj)
      simp only [vVisit, vDispatch, Ast.id, Ast.kids] at this ⊢
      rw [this]; simp [vSet]
    · have := vAssertAll_ok (v := vVisit Γ m report _) report (.node .NT_TUPLE d lo hi (a :: ks)) (a :: ks).length 0
        (fun j hj => by simpa [Ast.kid, Ast.kids] using okRuns_kid hr hv j hj)
      simp only [vVisit, vDispatch, Ast.id, Ast.kids] at this ⊢
      rw [this]; simp [vSet]
  | _, _, _, .union (c1 := c1) (c2 := c2) ht ha hb => by
    obtain ⟨Na, ha⟩ := conv_of_has ha
    obtain ⟨Nb, hb⟩ := conv_of_has hb
    refine ⟨Na + Nb + 1, fun n hn report => ?_⟩
    obtain ⟨m, rfl⟩ : ∃ m, n = m + 1 := ⟨n - 1, by omega⟩
    have ha := ha m (by omega) report
    have hb := hb m (by omega) report
    funext s
    rcases ht with rfl | rfl <;> cases c1 <;> cases c2 <;>
      simp [vVisit, vDispatch, vVisitChild, vKid, vGet, VM.bind, VM.pure, vSet, ha, hb, Ast.id, Ast.kids, Ast.kid]
  | _, _, _, .inter (c1 := c1) (c2 := c2) ha hb => by
    obtain ⟨Na, ha⟩ := conv_of_has ha
    obtain ⟨Nb, hb⟩ := conv_of_has hb
    refine ⟨Na + Nb + 1, fun n hn report => ?_⟩
    obtain ⟨m, rfl⟩ : ∃ m, n = m + 1 := ⟨n - 1, by omega⟩
    have ha := ha m (by omega) report
    have hb := hb m (by omega) report
    funext s
    cases c1 <;> cases c2 <;>
      simp [vVisit, vDispatch, vVisitChild, vKid, vGet, VM.bind, VM.pure, vSet, ha, hb, Ast.id, Ast.kids, Ast.kid]
  | _, _, _, .minus (c1 := c1) (c2 := c2) ha hb => by
    obtain ⟨Na, ha⟩ := conv_of_has ha
    obtain ⟨Nb, hb⟩ := conv_of_has hb
    refine ⟨Na + Nb + 1, fun n hn report => ?_⟩
    obtain ⟨m, rfl⟩ : ∃ m, n = m + 1 := ⟨n - 1, by omega⟩
    have ha := ha m (by omega) report
    have hb := hb m (by omega) report
    funext s
    cases c1 <;> cases c2 <;>
      simp [vVisit, vDispatch, vVisitChild, vKid, vGet, VM.bind, VM.pure, vSet, ha, hb, Ast.id, Ast.kids, Ast.kid]
  | _, _, _, .filter hks _ hl => by
    obtain ⟨Nk, hks⟩ := convs_of_has hks
    refine ⟨Nk + 1, fun n hn report => ?_⟩
    obtain ⟨m, rfl⟩ : ∃ m, n = m + 1 := ⟨n - 1, by omega⟩
    have hks := vVisitAll_ok (hks m (by omega) report)
    funext s
    simp [vVisit, vDispatch, vSet, hks, hl, Ast.id, Ast.kids]
  | _, _, _, .callValues (fn := fn) hf hl hc has hv => by
    obtain ⟨Nk, has⟩ := convs_of_has has
    refine ⟨Nk + 1, fun n hn report => ?_⟩
    obtain ⟨m, rfl⟩ : ∃ m, n = m + 1 := ⟨n - 1, by omega⟩
    have has := vArgs_ok (has m (by omega) report)
    have hv' := eq_true hv
    funext s
    simp [vVisit, vDispatch, vKid, vText, hf, VM.bind, VM.pure, vclassOf, hl, ne_invalid_beq hc, vSet, has,
      hv', Ast.id, Ast.kids, Ast.kid]
  | _, _, _, .callProps (d := d) (lo := lo) (hi := hi) (fn := fn) (as := as) (cs := cs) hf hl hc has hv hast h1 h0 hb hpp hbody => by
    obtain ⟨Nk, has⟩ := convs_of_has has
    obtain ⟨Nb, hbody⟩ := conv_of_has hbody
    refine ⟨Nk + Nb + 1, fun n hn report => ?_⟩
    obtain ⟨m, rfl⟩ : ∃ m, n = m + 1 := ⟨n - 1, by omega⟩
    have has := vArgs_ok (has m (by omega) report)
    have hbody := hbody m (by omega) false
    obtain ⟨hlen, hpo⟩ := propsOf_of_propParams hpp
    have hall : (∀ x ∈ cs, x = VClass.value) = False := eq_false (fun h => by
      obtain ⟨c', h1, h2⟩ := hv; exact h2 (h c' h1))
    have hk0 : (Ast.node .NT_FUNC_CALL d lo hi (fn :: as)).kid 0 = some fn := rfl
    have hdr : (Ast.node .NT_FUNC_CALL d lo hi (fn :: as)).kids.drop 1 = as := rfl
    funext s
    simp [vVisit, vDispatch, vKid, vText, hf, VM.bind, VM.pure, vclassOf, hl, ne_invalid_beq hc, vSet, has,
      hall, hast, h1, h0, hb, hlen, hpo, hbody, Ast.id, hk0, hdr]

theorem convs_of_has {Γ : Ctx} : ∀ {P : List String} {ks : List Ast} {cs : List VClass},
    HasVClasses Γ P ks cs → Convs Γ P ks cs
  | _, _, _, .nil => ⟨0, fun _ _ _ => trivial⟩
  | _, _, _, .cons h hs => by
    obtain ⟨N1, h1⟩ := conv_of_has h
    obtain ⟨N2, h2⟩ := convs_of_has hs
    exact ⟨N1 + N2, fun n hn report => ⟨h1 n (by omega) report, h2 n (by omega) report⟩⟩
end

end CCVerif.Checker
