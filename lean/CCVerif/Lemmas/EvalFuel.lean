import CCVerif.Model.Eval
/-!
Fuel of the evaluator model (`Model/Eval.lean`), part 1: `ev` (`ASTInterpreter`).

The recursion of `ev` is structural on the tree: the fuel only has to cover the DEPTH of the tree
(`evDepth`); the loops of the binders run over the finite list of the domain, the loops of `R{}` /
`I{}` carry their own bound `MAX_ITERATIONS + 2`.

* `evCore`: the body of `ev` with the recursive calls abstracted (`ev_succ`, by `rfl`);
* `ev_fuel_stable`: for EVERY tree, from `evDepth a` on the answer of `ev` does not depend on the fuel.
-/
namespace CCVerif.Eval
open CCVerif.Syntax CCVerif.Norm

mutual
/-- nesting depth of a tree (a leaf has depth 1) -/
def evDepth : Ast → Nat
  | .node _ _ _ _ ks => evDepthKids ks + 1
def evDepthKids : List Ast → Nat
  | [] => 0
  | k :: ks => max (evDepth k) (evDepthKids ks)
end

theorem evDepth_mem {k : Ast} : ∀ {ks : List Ast}, k ∈ ks → evDepth k ≤ evDepthKids ks
  | [], h => by cases h
  | k' :: ks, h => by
    simp only [evDepthKids]
    rcases List.mem_cons.mp h with rfl | h
    · exact Nat.le_max_left _ _
    · exact Nat.le_trans (evDepth_mem h) (Nat.le_max_right _ _)

theorem evDepth_kid {a k : Ast} (h : k ∈ a.kids) : evDepth k + 1 ≤ evDepth a := by
  cases a with
  | node t d lo hi ks =>
    simp only [Ast.kids] at h
    simp only [evDepth]
    exact Nat.succ_le_succ (evDepth_mem h)

theorem evDepth_pos (a : Ast) : 1 ≤ evDepth a := by
  cases a with
  | node t d lo hi ks => simp [evDepth]

/-- `EvaluateChild(iter, i)` over the recursive call `rec` -/
def childF (rec : Ast → Option Tok → St → R V) (a : Ast) (i : Nat) (st : St) : R V :=
  match a.kids[i]? with
  | none => .fail (.stuck "EvaluateChild index") st.iters
  | some k => rec k (some a.id) st

/-- `ExtractDomain` of block child `i` over the recursive call `rec` -/
def domF (rec : Ast → Option Tok → St → R V) (a : Ast) (i : Nat) (st : St) : R V :=
  match a.kids[i]? with
  | none => .fail (.stuck "ProcessBlock MoveToChild") st.iters
  | some blk =>
    match blk.kids[1]? with
    | none => .fail (.stuck "ExtractDomain VisitChild(1)") st.iters
    | some d => rec d (some blk.id) st

/-- the body of `ev`: `child` = `EvaluateChild`, `domKid` = `ExtractDomain` of a block, `lz` = evaluation of the
operand of a lazy `ℬ` under `∈` -/
def evCore (c : Ctx) (child domKid : Nat → St → R V) (lz : Ast → St → R V) (a : Ast) (parent : Option Tok) (st : St) : R V :=
    let t := a.id
    let pos := a.lo
    -- child value as `StructuredData` / set / integer / bool
    let childVal (i : Nat) (st : St) : R Val := (child i st).asVal
    let childSet (i : Nat) (st : St) : R (List Val) := (child i st).asSet
    let childInt (i : Nat) (st : St) : R Int := (child i st).asInt
    let childBool (i : Nat) (st : St) : R Bool := (child i st).asBool
    -- all children as `StructuredData`, left to right
    let allVals (n : Nat) (st : St) : R (List Val) :=
      (List.range n).foldl (fun (acc : R (List Val)) i =>
        match acc with
        | .fail f k => .fail f k
        | .ok vs st' =>
          match childVal i st' with
          | .fail f k => .fail f k
          | .ok v st'' => .ok (vs ++ [v]) st'') (.ok [] st)
    let nK := a.kids.length
    if dispatchesDefault t then
      -- `ViGlobalDeclaration`: `VisitChild(iter, 1)`
      child 1 st
    else match t with
    | .ID_LOCAL | .ID_GLOBAL | .ID_FUNCTION | .ID_PREDICATE =>
      match firstVar c a with
      | none => .fail (.stuck "ViLocal *begin(nodeVars)") st.iters
      | some i =>
        match st.data[i]? with
        | none => .fail (.stuck "ViLocal idsData[]") st.iters
        | some v => .ok (.val v) st
    | .LIT_INTEGER =>
      match a.data with
      | .int n => .ok (.val (.e n)) st
      | _ => .fail (.stuck "ViInteger ToInt") st.iters
    | .LIT_INTSET => .fail (.err EID.iterateInfinity pos) st.iters
    | .LIT_EMPTYSET => .ok (.val (.s [])) st
    | .PLUS | .MINUS | .MULTIPLY =>
      match childInt 0 st with
      | .fail f k => .fail f k
      | .ok x st1 =>
        match childInt 1 st1 with
        | .fail f k => .fail f k
        | .ok y st2 =>
          let r := if t == .PLUS then x + y else if t == .MINUS then x - y else x * y
          if int32ok r then .ok (.val (.e r)) st2 else .fail (.err EID.typedOverflow pos) st2.iters
    | .CARD =>
      match childSet 0 st with
      | .fail f k => .fail f k
      | .ok xs st1 => .ok (.val (.e xs.length)) st1
    | .FORALL | .EXISTS =>
      match childSet 1 st with   -- `ExtractDomain`
      | .fail f k => .fail f k
      | .ok dom st1 =>
        match a.kids.head?.bind (firstVar c) with
        | none => .fail (.stuck "ViQuantifier *begin(nodeVars)") st1.iters
        | some var =>
          match st1.data[var]? with   -- `SlotGuard guard{ idsData, varID }`
          | none => .fail (.stuck "SlotGuard slots.at") st1.iters
          | some saved => restoreSlot var saved (quantLoop (child 2) var (t == .FORALL) pos dom st1)
    | .NOT =>
      match childBool 0 st with
      | .fail f k => .fail f k
      | .ok b st1 => .ok (.bool (!b)) st1
    | .AND | .OR | .IMPLICATION | .EQUIVALENT =>
      match childBool 0 st with
      | .fail f k => .fail f k
      | .ok b1 st1 =>
        -- `TryEvaluateFromFirstArg`
        if (t == .AND && !b1) || (t == .OR && b1) then .ok (.bool b1) st1
        else if t == .IMPLICATION && !b1 then .ok (.bool true) st1
        else
          match childBool 1 st1 with
          | .fail f k => .fail f k
          | .ok b2 st2 =>
            let r := match t with
              | .OR => b1 || b2
              | .IMPLICATION => !b1 || b2
              | .EQUIVALENT => b1 == b2
              | _ => b1 && b2
            .ok (.bool r) st2
    | .EQUAL | .NOTEQUAL =>
      match child 0 st with
      | .fail f k => .fail f k
      | .ok v1 st1 =>
        match child 1 st1 with
        | .fail f k => .fail f k
        | .ok v2 st2 =>
          let same := match v1, v2 with
            | .val x, .val y => Val.cmp x y == .eq
            | .bool x, .bool y => x == y
            | _, _ => false
          .ok (.bool (same != (t == .NOTEQUAL))) st2
    | .GREATER | .LESSER | .GREATER_OR_EQ | .LESSER_OR_EQ =>
      match childInt 0 st with
      | .fail f k => .fail f k
      | .ok x st1 =>
        match childInt 1 st1 with
        | .fail f k => .fail f k
        | .ok y st2 =>
          let r := match t with
            | .LESSER => decide (x < y)
            | .GREATER_OR_EQ => decide (x ≥ y)
            | .LESSER_OR_EQ => decide (x ≤ y)
            | _ => decide (x > y)
          .ok (.bool r) st2
    | .NT_DECLARATIVE_EXPR =>
      match childSet 1 st with
      | .fail f k => .fail f k
      | .ok dom st1 =>
        match a.kids.head?.bind (firstVar c) with
        | none => .fail (.stuck "ViDeclarative *begin(nodeVars)") st1.iters
        | some var =>
          match st1.data[var]? with
          | none => .fail (.stuck "SlotGuard slots.at") st1.iters
          | some saved => restoreSlot var saved (declLoop (child 2) var pos dom [] st1)
    | .NT_IMPERATIVE_EXPR =>
      -- `CreateBlockMetadata`
      let blocks := a.kids.drop 1
      if blocks.isEmpty then .fail (.stuck "CreateBlockMetadata MoveToChild(1)") st.iters else
      let metasOpt := allSome (blocks.map fun b =>
        if b.id == .ITERATE || b.id == .ASSIGN then
          (b.kids.head?.bind (firstVar c)).map (fun v => ({ rootID := b.id, arg := v } : BlockMeta))
        else some { rootID := b.id, arg := 0 })
      match metasOpt with
      | none => .fail (.stuck "CreateBlockMetadata *begin(nodeVars)") st.iters
      | some metas =>
        match impGuards st.data metas with   -- the guards are created with the metadata, before any block runs
        | none => .fail (.stuck "SlotGuard slots.at") st.iters
        | some saved => restoreSlots saved (impLoop nK metas child domKid pos (MAX_ITERATIONS + 2) 0 [] [] st)
    | .NT_RECURSIVE_FULL | .NT_RECURSIVE_SHORT =>
      match childVal 1 st with
      | .fail f k => .fail f k
      | .ok init st1 =>
        match a.kids.head?.bind (firstVar c) with
        | none => .fail (.stuck "ViRecursion *begin(nodeVars)") st1.iters
        | some var =>
          match st1.data[var]? with
          | none => .fail (.stuck "SlotGuard slots.at") st1.iters
          | some saved =>
            restoreSlot var saved
              (if t == .NT_RECURSIVE_FULL then recLoop (some (child 2)) (child 3) var pos (MAX_ITERATIONS + 2) init st1
               else recLoop none (child 2) var pos (MAX_ITERATIONS + 2) init st1)
    | .DECART =>
      match allVals nK st with
      | .fail f k => .fail f k
      | .ok vs st1 =>
        match allSome (vs.map fun v => match v with | Val.s xs => some xs | _ => none) with
        | none => .fail (.stuck "Factory::Decartian B() of a non-set") st1.iters
        | some fs =>
          if fs.any (·.isEmpty) then .ok (.val (.s [])) st1
          else
            let count := Val.prodCard fs
            if count == Val.SET_INFINITY then .fail (.err EID.typedOverflow pos) st1.iters
            else if count > PROD_LIMIT then .fail .outOfFuel st1.iters
            else .ok (.val (.s (Val.prod fs))) st1
    | .BOOLEAN =>
      match childSet 0 st with
      | .fail f k => .fail f k
      | .ok xs st1 =>
        let limited := match parent with
          | none => true
          | some p => p != .IN && p != .NT_DECLARATIVE_EXPR
        if limited && xs.length ≥ Val.BOOL_INFINITY then .fail (.err EID.booleanLimit pos) st1.iters
        else if xs.length > POW_LIMIT then .fail .outOfFuel st1.iters
        else .ok (.val (.s (Val.pow xs))) st1
    | .NT_TUPLE =>
      match allVals nK st with
      | .fail f k => .fail f k
      | .ok vs st1 =>
        match Val.mkTuple vs with
        | none => .fail (.stuck "Factory::Tuple assert") st1.iters
        | some v => .ok (.val v) st1
    | .NT_ENUMERATION =>
      match allVals nK st with
      | .fail f k => .fail f k
      | .ok vs st1 => .ok (.val (Val.mkSet vs)) st1
    | .BOOL =>
      match childVal 0 st with
      | .fail f k => .fail f k
      | .ok v st1 => .ok (.val (.s [v])) st1
    | .DEBOOL =>
      match childSet 0 st with
      | .fail f k => .fail f k
      | .ok xs st1 =>
        match xs with
        | [x] => .ok (.val x) st1
        | _ => .fail (.err EID.invalidDebool pos) st1.iters
    | .UNION | .INTERSECTION | .SET_MINUS | .SYMMINUS =>
      match childVal 0 st with
      | .fail f k => .fail f k
      | .ok v1 st1 =>
        match childVal 1 st1 with
        | .fail f k => .fail f k
        | .ok v2 st2 =>
          match v1, v2 with
          | .s xs, .s ys =>
            let r := match t with
              | .INTERSECTION => Val.inter xs ys
              | .SET_MINUS => Val.diff xs ys
              | .SYMMINUS => Val.symDiff xs ys
              | _ => Val.union xs ys
            .ok (.val (.s r)) st2
          | _, _ => .fail (.stuck "ViSetexprBinary B() of a non-set") st2.iters
    | .IN | .NOTIN =>
      match childVal 0 st with
      | .fail f k => .fail f k
      | .ok v1 st1 =>
        -- the right operand: a `ℬ(…)` node yields the lazy `SDPowerSet`, whose `Contains` is
        -- `element.B().IsSubsetOrEq(base.B())` — no enumeration
        let lazyPow : Option Ast :=
          match a.kids[1]? with
          | some k => if k.id == .BOOLEAN then k.kids.head? else none
          | none => none
        match lazyPow with
        | some baseAst =>
          (match lz baseAst st1 with
          | .fail f k => .fail f k
          | .ok (.bool _) st2 => .fail (.stuck "get<StructuredData>") st2.iters
          | .ok (.val (.s base)) st2 =>
            -- `ViBoolean`: only the parents `∈` and `D{…}` lift the limit — `∉` does not
            if t != .IN && base.length ≥ Val.BOOL_INFINITY then
              .fail (.err EID.booleanLimit ((a.kids[1]?.map (·.lo)).getD 0)) st2.iters
            else
            (match v1 with
            | .s xs => .ok (.bool ((Val.subsetEq xs base) != (t == .NOTIN))) st2
            | _ => .fail (.stuck "SDPowerSet::Contains B() of a non-set") st2.iters)
          | .ok (.val _) st2 => .fail (.stuck "B() of a non-set") st2.iters)
        | none =>
          match childSet 1 st1 with
          | .fail f k => .fail f k
          | .ok ys st2 => .ok (.bool ((Val.mem v1 ys) != (t == .NOTIN))) st2
    | .SUBSET | .SUBSET_OR_EQ | .NOTSUBSET =>
      match childVal 0 st with
      | .fail f k => .fail f k
      | .ok v1 st1 =>
        match childVal 1 st1 with
        | .fail f k => .fail f k
        | .ok v2 st2 =>
          let same := Val.cmp v1 v2 == .eq
          if t == .SUBSET && same then .ok (.bool false) st2
          else if t == .NOTSUBSET && same then .ok (.bool true) st2
          else match v1, v2 with
            | .s xs, .s ys =>
              let sub := Val.subsetEq xs ys
              .ok (.bool (if t == .NOTSUBSET then !sub else sub)) st2
            | _, _ => .fail (.stuck "ViSetexprBinary B() of a non-set") st2.iters
    | .BIGPR =>
      match childSet 0 st with
      | .fail f k => .fail f k
      | .ok xs st1 =>
        match Val.projSet xs (idxOf a) with
        | none => .fail (.stuck "SDSet::Projection T().Component") st1.iters
        | some r => .ok (.val (.s r)) st1
    | .SMALLPR =>
      match childVal 0 st with
      | .fail f k => .fail f k
      | .ok v st1 =>
        match Val.project v (idxOf a) with
        | none => .fail (.stuck "ViProjectTuple T().Component") st1.iters
        | some r => .ok (.val r) st1
    | .FILTER =>
      if nK == 0 then .fail (.stuck "ViFilter ChildrenCount") st.iters else
      match childSet (nK - 1) st with
      | .fail f k => .fail f k
      | .ok arg st1 =>
        if arg.isEmpty then .ok (.val (.s [])) st1 else
        let idx := idxOf a
        if idx.length == nK - 1 then
          -- `EvaluateFilterTuple`
          let params : R (Option (List (List Val))) :=
            (List.range (nK - 1)).foldl (fun (acc : R (Option (List (List Val)))) i =>
              match acc with
              | .fail f k => .fail f k
              | .ok none st' => .ok none st'
              | .ok (some ps) st' =>
                match childSet i st' with
                | .fail f k => .fail f k
                | .ok p st'' => if p.isEmpty then .ok none st'' else .ok (some (ps ++ [p])) st'') (.ok (some []) st1)
          match params with
          | .fail f k => .fail f k
          | .ok none st2 => .ok (.val (.s [])) st2
          | .ok (some ps) st2 =>
            let test (el : Val) : Option Bool :=
              (idx.zip ps).foldl (fun acc (ip : Int × List Val) =>
                match acc with
                | some true => (Val.component el ip.1).map (fun cmpn => Val.mem cmpn ip.2)
                | r => r) (some true)
            match allSome (arg.map test) with
            | none => .fail (.stuck "EvaluateFilterTuple T().Component") st2.iters
            | some flags =>
              .ok (.val (.s (Val.insertAll [] ((arg.zip flags).filter (·.2) |>.map (·.1))))) st2
        else
          -- `EvaluateFilterComplex`
          match childSet 0 st1 with
          | .fail f k => .fail f k
          | .ok param st2 =>
            if param.isEmpty then .ok (.val (.s [])) st2 else
            match allSome (arg.map fun el => (Val.project el idx).map (fun tp => Val.mem tp param)) with
            | none => .fail (.stuck "EvaluateFilterComplex T().Component") st2.iters
            | some flags =>
              .ok (.val (.s (Val.insertAll [] ((arg.zip flags).filter (·.2) |>.map (·.1))))) st2
    | .REDUCE =>
      match childSet 0 st with
      | .fail f k => .fail f k
      | .ok xs st1 =>
        match Val.reduce xs with
        | none => .fail (.stuck "SDSet::Reduce B() of a non-set") st1.iters
        | some r => .ok (.val (.s r)) st1
    | _ => .fail .quiet st.iters    -- `VisitDefault` ⇒ `false`

theorem ev_succ (c : Ctx) (fuel : Nat) (a : Ast) (p : Option Tok) (st : St) :
    ev c (fuel + 1) a p st =
      evCore c (childF (ev c fuel) a) (domF (ev c fuel) a) (fun b st => ev c fuel b (some .BOOLEAN) st) a p st := rfl

theorem mem_of_getElem? {α} {l : List α} {i : Nat} {x : α} (h : l[i]? = some x) : x ∈ l :=
  List.mem_of_getElem? h

theorem childF_congr {g g' : Ast → Option Tok → St → R V} {a : Ast}
    (h : ∀ k ∈ a.kids, ∀ p st, g k p st = g' k p st) : childF g a = childF g' a := by
  funext i st
  unfold childF
  cases hk : a.kids[i]? with
  | none => rfl
  | some k => exact h k (mem_of_getElem? hk) _ _

theorem domF_congr {g g' : Ast → Option Tok → St → R V} {a : Ast}
    (h : ∀ k ∈ a.kids, ∀ d ∈ k.kids, ∀ p st, g d p st = g' d p st) : domF g a = domF g' a := by
  funext i st
  unfold domF
  cases hk : a.kids[i]? with
  | none => rfl
  | some k =>
    dsimp only
    cases hd : k.kids[1]? with
    | none => rfl
    | some d => exact h k (mem_of_getElem? hk) d (mem_of_getElem? hd) _ _

theorem evCore_lz_congr (c : Ctx) (ch dk : Nat → St → R V) {lz lz' : Ast → St → R V} (a : Ast) (p : Option Tok) (st : St)
    (h : ∀ k b, a.kids[1]? = some k → k.kids.head? = some b → ∀ st, lz b st = lz' b st) :
    evCore c ch dk lz a p st = evCore c ch dk lz' a p st := by
  simp only [evCore]
  split
  · rfl
  · split <;> try rfl
    all_goals
      cases (ch 0 st).asVal with
      | fail f k => rfl
      | ok v1 st1 =>
        dsimp only
        cases hk : a.kids[1]? with
        | none => rfl
        | some k =>
          dsimp only
          split
          · rename_i b heq
            have hb : k.kids.head? = some b := by
              split at heq
              · exact heq
              · cases heq
            rw [h k b hk hb]
          · rfl

/-- **the fuel of `ev` is the depth of the tree**: from `evDepth a` on the answer does not depend on the fuel
(every tree, every state; the loops of `R{}` / `I{}` carry their own bound) -/
theorem ev_fuel_stable (c : Ctx) : ∀ (f f' : Nat) (a : Ast) (p : Option Tok) (st : St),
    evDepth a ≤ f → evDepth a ≤ f' → ev c f a p st = ev c f' a p st := by
  intro f
  induction f with
  | zero => intro f' a p st h; have := evDepth_pos a; omega
  | succ f ih =>
    intro f' a p st h h'
    cases f' with
    | zero => have := evDepth_pos a; omega
    | succ f' =>
      rw [ev_succ, ev_succ]
      have hk : ∀ k ∈ a.kids, ∀ p st, ev c f k p st = ev c f' k p st := by
        intro k hk p st
        have := evDepth_kid hk
        exact ih f' k p st (by omega) (by omega)
      have hkk : ∀ k ∈ a.kids, ∀ d ∈ k.kids, ∀ p st, ev c f d p st = ev c f' d p st := by
        intro k hk d hd p st
        have := evDepth_kid hk
        have := evDepth_kid hd
        exact ih f' d p st (by omega) (by omega)
      rw [childF_congr hk, domF_congr hkk]
      apply evCore_lz_congr
      intro k b h1 h2 st
      exact hkk k (mem_of_getElem? h1) b (List.mem_of_mem_head? h2) _ _

end CCVerif.Eval
