import CCVerif.Lemmas.EvalNestedSound
import CCVerif.Lemmas.EvalPow
/-! Stage 9: type preservation of the REFERENCE semantics for the expressions used as domains of binders - the side
condition `DomTy` of `Unn` (binding through a nested pattern is defined on values of the shape of the pattern only).

`DT S Γ a τ`: a syntactic class of set- or element-valued expressions (literals, globals with a typed value, bound
variables, enumerations, tuples, cartesian products, `ℬ`, the binary set operations, `bool`, `D{x∈S | P}` and
`D{(x₁,…,xₙ)∈S | P}` with ANY condition `P`) whose reference value, whenever it exists, has the type `τ` structurally
(`hasTy`).  `DT.domTy` discharges `DomTy`. -/
namespace CCVerif.Eval
open CCVerif.Syntax CCVerif.Spec CCVerif.Norm
open Val Ty

theorem hasTy_setOf {xs : List Val} {τ : Ty} (h : hasTyAll xs τ = true) : hasTy (setOf xs) (.coll τ) = true := by
  show hasTyAll (insertAll [] xs) τ = true
  exact hasTyAll_insertAll h (by simp [hasTyAll])

theorem mapM_pair_fst {β} (g : Val → Option β) : ∀ (xs : List Val) (l : List (Val × β)),
    xs.mapM (fun v => (g v).map fun b => (v, b)) = some l → l.map (·.1) = xs
  | [], l, h => by simp at h; subst h; rfl
  | x :: xs, l, h => by
    rw [List.mapM_cons] at h
    cases h1 : g x with
    | none => simp [h1] at h
    | some b =>
      cases h2 : xs.mapM (fun v => (g v).map fun b => (v, b)) with
      | none => simp [h1, h2] at h
      | some r =>
        simp [h1, h2] at h; subst h
        simp [mapM_pair_fst g xs r h2]

theorem hasTy_keep {xs : List Val} {τ : Ty} {l : List (Val × Bool)} (hx : hasTyAll xs τ = true) (hl : l.map (·.1) = xs) :
    hasTy (keep l) (.coll τ) = true := by
  refine hasTy_setOf ?_
  rw [hasTyAll_iff] at hx ⊢
  intro y hy
  obtain ⟨q, hq, rfl⟩ := List.mem_map.mp hy
  exact hx _ (hl ▸ List.mem_map.mpr ⟨q, (List.mem_filter.mp hq).1, rfl⟩)

theorem hasTy_set_inv {v : Val} {τ : Ty} (h : hasTy v (.coll τ) = true) : ∃ xs, v = .s xs ∧ hasTyAll xs τ = true := by
  cases v with
  | e _ => simp [hasTy] at h
  | t _ => simp [hasTy] at h
  | s xs => exact ⟨xs, rfl, by simpa [hasTy] using h⟩

theorem dSet_some {r : Option SemVal} {xs : List Val} (h : dSet r = some xs) : r = some (.val (.s xs)) := by
  rcases r with _ | (w | b)
  · simp [dSet, dVal] at h
  · cases w <;> simp [dSet, dVal, members] at h; subst h; rfl
  · simp [dSet, dVal] at h

theorem dVal_some {r : Option SemVal} {v : Val} (h : dVal r = some v) : r = some (.val v) := by
  rcases r with _ | (w | b) <;> simp [dVal] at h; subst h; rfl

theorem forall₂_of_zip {α β γ} (R : α → β → Prop) (Q : β → γ → Prop) : ∀ (ks : List α) (ts : List γ) (vs : List β),
    ks.length = ts.length → List.Forall₂ R ks vs → (∀ q ∈ ks.zip ts, ∀ v, R q.1 v → Q v q.2) → List.Forall₂ Q vs ts
  | [], [], _, _, h, _ => by cases h; exact .nil
  | [], _ :: _, _, hl, _, _ => by simp at hl
  | _ :: _, [], _, hl, _, _ => by simp at hl
  | k :: ks, ty :: ts, _, hl, h, hq => by
    cases h with
    | cons h1 h2 =>
      exact .cons (hq (k, ty) (by simp) _ h1)
        (forall₂_of_zip R Q ks ts _ (by simpa using hl) h2 (fun q hm => hq q (by simp [hm])))

theorem mapM_forall₂ {α β} (g : α → Option β) : ∀ (ks : List α) (vs : List β), ks.mapM g = some vs →
    List.Forall₂ (fun k v => g k = some v) ks vs
  | [], vs, h => by simp at h; subst h; exact .nil
  | k :: ks, vs, h => by
    rw [List.mapM_cons] at h
    cases h1 : g k with
    | none => simp [h1] at h
    | some b =>
      cases h2 : ks.mapM g with
      | none => simp [h1, h2] at h
      | some r =>
        simp [h1, h2] at h; subst h
        exact .cons h1 (mapM_forall₂ g ks r h2)

theorem forall₂_mem_right {α β} {R : α → β → Prop} : ∀ {ks : List α} {vs : List β} {y : β}, List.Forall₂ R ks vs → y ∈ vs →
    ∃ k ∈ ks, R k y
  | _, _, _, .nil, hy => by simp at hy
  | _, _, _, .cons h1 h2, hy => by
    rcases List.mem_cons.mp hy with rfl | hy
    · exact ⟨_, by simp, h1⟩
    · obtain ⟨k, hk, hky⟩ := forall₂_mem_right h2 hy
      exact ⟨k, by simp [hk], hky⟩

theorem hasTyList_of_forall₂ : ∀ {vs : List Val} {ts : List Ty}, List.Forall₂ (fun v ty => hasTy v ty = true) vs ts →
    hasTyList vs ts = true
  | _, _, .nil => rfl
  | _, _, .cons h1 h2 => by simp [hasTyList, h1, hasTyList_of_forall₂ h2]

/-- typed domain expressions -/
inductive DT (S : SEnv) : TCtx → Ast → Ty → Prop where
  | lit {Γ : TCtx} (n lo hi : Int) : DT S Γ (.node .LIT_INTEGER (.int n) lo hi []) (.base "Z")
  | empty {Γ : TCtx} (d : TokData) (lo hi : Int) (τ : Ty) : DT S Γ (.node .LIT_EMPTYSET d lo hi []) (.coll τ)
  | glob {Γ : TCtx} (g : String) (lo hi : Int) (τ : Ty) : (∀ v, lookup g S.globals = some v → hasTy v τ = true) →
      DT S Γ (.node .ID_GLOBAL (.text g) lo hi []) τ
  | loc {Γ : TCtx} (x : String) (lo hi : Int) (τ : Ty) : lookup x Γ = some τ → DT S Γ (.node .ID_LOCAL (.text x) lo hi []) τ
  | enum {Γ : TCtx} (d : TokData) (lo hi : Int) (ks : List Ast) (τ : Ty) : (∀ k ∈ ks, DT S Γ k τ) →
      DT S Γ (.node .NT_ENUMERATION d lo hi ks) (.coll τ)
  | tuple {Γ : TCtx} (d : TokData) (lo hi : Int) (ks : List Ast) (ts : List Ty) : ks.length = ts.length →
      (∀ q ∈ ks.zip ts, DT S Γ q.1 q.2) → DT S Γ (.node .NT_TUPLE d lo hi ks) (.tuple ts)
  | decart {Γ : TCtx} (d : TokData) (lo hi : Int) (ks : List Ast) (ts : List Ty) : ks.length = ts.length →
      (∀ q ∈ ks.zip ts, DT S Γ q.1 (.coll q.2)) → DT S Γ (.node .DECART d lo hi ks) (.coll (.tuple ts))
  | pow {Γ : TCtx} {a : Ast} {τ : Ty} (d : TokData) (lo hi : Int) : DT S Γ a (.coll τ) →
      DT S Γ (.node .BOOLEAN d lo hi [a]) (.coll (.coll τ))
  | bool {Γ : TCtx} {a : Ast} {τ : Ty} (d : TokData) (lo hi : Int) : DT S Γ a τ → DT S Γ (.node .BOOL d lo hi [a]) (.coll τ)
  | setOp {Γ : TCtx} {t : Tok} {a b : Ast} {τ : Ty} (d : TokData) (lo hi : Int) : isSetOp t →
      DT S Γ a (.coll τ) → DT S Γ b (.coll τ) → DT S Γ (.node t d lo hi [a, b]) (.coll τ)
  /-- `D{x∈S | P}`: a subset of `S`, whatever `P` is -/
  | decl {Γ : TCtx} {dom body : Ast} {τ : Ty} (d : TokData) (lo hi : Int) (x : String) (dlo dhi : Int) : DT S Γ dom (.coll τ) →
      DT S Γ (.node .NT_DECLARATIVE_EXPR d lo hi [.node .ID_LOCAL (.text x) dlo dhi [], dom, body]) (.coll τ)
  /-- `D{(x₁,…,xₙ)∈S | P}` -/
  | declPat {Γ : TCtx} {dom body : Ast} {τ : Ty} (d : TokData) (lo hi : Int) (pd : TokData) (plo phi : Int) (xs : List EDecl) :
      DT S Γ dom (.coll τ) →
      DT S Γ (.node .NT_DECLARATIVE_EXPR d lo hi [patNode pd plo phi xs, dom, body]) (.coll τ)

theorem DT.sound {S : SEnv} {Γ : TCtx} {a : Ast} {τ : Ty} (h : DT S Γ a τ) :
    ∀ f ρ v, EnvTy Γ ρ → denote S f ρ a = some (.val v) → hasTy v τ = true := by
  induction h with
  | lit n lo hi =>
    intro f ρ v _ hv
    cases f with
    | zero => rw [denote_zero] at hv; cases hv
    | succ f => rw [denote_lit] at hv; injection hv with hv; injection hv with hv; subst hv; simp [hasTy]
  | empty d lo hi τ =>
    intro f ρ v _ hv
    cases f with
    | zero => rw [denote_zero] at hv; cases hv
    | succ f => rw [denote_empty] at hv; injection hv with hv; injection hv with hv; subst hv; simp [hasTy, hasTyAll]
  | glob g lo hi τ hg =>
    intro f ρ v _ hv
    cases f with
    | zero => rw [denote_zero] at hv; cases hv
    | succ f =>
      rw [denote_global, assoc_eq_lookup] at hv
      cases hl : lookup g S.globals with
      | none => rw [hl] at hv; cases hv
      | some w => rw [hl] at hv; simp at hv; subst hv; exact hg w hl
  | loc x lo hi τ hx =>
    intro f ρ v he hv
    cases f with
    | zero => rw [denote_zero] at hv; cases hv
    | succ f =>
      obtain ⟨w, w1, w2⟩ := he x τ hx
      rw [denote_local, w1] at hv; injection hv with hv; injection hv with hv; subst hv; exact w2
  | enum d lo hi ks τ _ ih =>
    intro f ρ v he hv
    cases f with
    | zero => rw [denote_zero] at hv; cases hv
    | succ f =>
      rw [denote_enum] at hv
      cases hm : ks.mapM (fun k => dVal (denote S f ρ k)) with
      | none => rw [hm] at hv; cases hv
      | some vs =>
        rw [hm] at hv; simp at hv; subst hv
        refine hasTy_setOf ?_
        rw [hasTyAll_iff]
        intro y hy
        have hall := mapM_forall₂ _ _ _ hm
        obtain ⟨k, hk, hky⟩ := forall₂_mem_right hall hy
        exact ih k hk f ρ y he (dVal_some hky)
  | tuple d lo hi ks ts hlen _ ih =>
    intro f ρ v he hv
    cases f with
    | zero => rw [denote_zero] at hv; cases hv
    | succ f =>
      rw [denote_tuple] at hv
      cases hm : ks.mapM (fun k => dVal (denote S f ρ k)) with
      | none => rw [hm] at hv; simp at hv
      | some vs =>
        rw [hm] at hv
        have hvs : v = .t vs := by
          rcases vs with _ | ⟨c, _ | ⟨d', r⟩⟩ <;> simp at hv
          exact hv.symm
        subst hvs
        have hf2 := mapM_forall₂ _ _ _ hm
        show hasTyList vs ts = true
        exact hasTyList_of_forall₂ (forall₂_of_zip _ _ ks ts vs hlen hf2
          (fun q hq w hw => ih q hq f ρ w he (dVal_some hw)))
  | decart d lo hi ks ts hlen _ ih =>
    intro f ρ v he hv
    cases f with
    | zero => rw [denote_zero] at hv; cases hv
    | succ f =>
      rw [denote_decart] at hv
      cases hm : ks.mapM (fun k => dSet (denote S f ρ k)) with
      | none => rw [hm] at hv; simp at hv
      | some fs =>
        rw [hm] at hv
        simp only at hv
        split at hv
        · cases hv
        · injection hv with hv; injection hv with hv; subst hv
          refine hasTy_setOf ?_
          rw [tuples_eq_prodList]
          refine prodList_t_hasTyAll fs ts ?_
          have hf2 := mapM_forall₂ _ _ _ hm
          exact forall₂_of_zip _ _ ks ts fs hlen hf2 (fun q hq xs hxs => by
            have := ih q hq f ρ _ he (dSet_some hxs)
            simpa [hasTy] using this)
  | @pow a τ d lo hi _ ih =>
    intro f ρ v he hv
    cases f with
    | zero => rw [denote_zero] at hv; cases hv
    | succ f =>
      rw [denote_boolean] at hv
      cases hs : dSet (denote S f ρ a) with
      | none => rw [hs] at hv; cases hv
      | some xs =>
        rw [hs] at hv
        simp only at hv
        split at hv
        · cases hv
        · injection hv with hv; injection hv with hv; subst hv
          have hx : hasTyAll xs τ = true := by simpa [hasTy] using ih f ρ _ he (dSet_some hs)
          refine hasTy_setOf ?_
          rw [hasTyAll_iff]
          intro y hy
          obtain ⟨l, hl, rfl⟩ := List.mem_map.mp hy
          exact hasTy_setOf (hasTyAll_sublist ((mem_subsets_iff xs l).mp hl) hx)
  | @bool a τ d lo hi _ ih =>
    intro f ρ v he hv
    cases f with
    | zero => rw [denote_zero] at hv; cases hv
    | succ f =>
      rw [denote_bool] at hv
      cases hs : dVal (denote S f ρ a) with
      | none => rw [hs] at hv; cases hv
      | some w =>
        rw [hs] at hv; simp at hv; subst hv
        exact hasTy_setOf (by simp [hasTyAll, ih f ρ w he (dVal_some hs)])
  | @setOp t a b τ d lo hi ht _ _ iha ihb =>
    intro f ρ v he hv
    cases f with
    | zero => rw [denote_zero] at hv; cases hv
    | succ f =>
      rw [denote_setOp ht] at hv
      cases hsa : dSet (denote S f ρ a) with
      | none => rw [hsa] at hv; cases hv
      | some xs =>
        cases hsb : dSet (denote S f ρ b) with
        | none => rw [hsa, hsb] at hv; cases hv
        | some ys =>
          rw [hsa, hsb] at hv; simp at hv; subst hv
          have hx : hasTyAll xs τ = true := by simpa [hasTy] using iha f ρ _ he (dSet_some hsa)
          have hy : hasTyAll ys τ = true := by simpa [hasTy] using ihb f ρ _ he (dSet_some hsb)
          have happ : ∀ {l1 l2 : List Val}, hasTyAll l1 τ = true → hasTyAll l2 τ = true → hasTyAll (l1 ++ l2) τ = true := by
            intro l1 l2 h1 h2
            rw [hasTyAll_iff] at *
            intro z hz
            rcases List.mem_append.mp hz with m | m
            · exact h1 z m
            · exact h2 z m
          rcases ht with rfl | rfl | rfl | rfl <;> simp only [setOpSpec]
          · exact hasTy_setOf (happ hx hy)
          · exact hasTy_setOf (hasTyAll_filter _ hx)
          · exact hasTy_setOf (hasTyAll_filter _ hx)
          · exact hasTy_setOf (happ (hasTyAll_filter _ hx) (hasTyAll_filter _ hy))
  | @decl dom body τ d lo hi x dlo dhi _ ih =>
    intro f ρ v he hv
    cases f with
    | zero => rw [denote_zero] at hv; cases hv
    | succ f =>
      rw [denote_decl] at hv
      cases hs : dSet (denote S f ρ dom) with
      | none => rw [hs] at hv; cases hv
      | some xs =>
        rw [hs] at hv
        simp only at hv
        have hx : hasTyAll xs τ = true := by simpa [hasTy] using ih f ρ _ he (dSet_some hs)
        cases hm : xs.mapM (fun v => (dBool (denote S f (.val x v ρ) body)).map fun b => (v, b)) with
        | none => rw [hm] at hv; cases hv
        | some l =>
          rw [hm] at hv; simp at hv; subst hv
          exact hasTy_keep hx (mapM_pair_fst _ xs l hm)
  | @declPat dom body τ d lo hi pd plo phi xs0 _ ih =>
    intro f ρ v he hv
    cases f with
    | zero => rw [denote_zero] at hv; cases hv
    | succ f =>
      rw [denote_declPat] at hv
      cases hs : dSet (denote S f ρ dom) with
      | none => rw [hs] at hv; cases hv
      | some xs =>
        rw [hs] at hv
        simp only at hv
        have hx : hasTyAll xs τ = true := by simpa [hasTy] using ih f ρ _ he (dSet_some hs)
        cases hm : xs.mapM (fun v => (patBody S f pd plo phi xs0 ρ body v).map fun b => (v, b)) with
        | none => rw [hm] at hv; cases hv
        | some l =>
          rw [hm] at hv; simp at hv; subst hv
          exact hasTy_keep hx (mapM_pair_fst _ xs l hm)

/-- a typed domain expression satisfies the side condition of the binders of `Unn` -/
theorem DT.domTy {S : SEnv} {Γ : TCtx} {a : Ast} {τ : Ty} (h : DT S Γ a (.coll τ)) : DomTy S Γ a τ := by
  intro f ρs xs he hd x hx
  have := h.sound f ρs _ he hd
  simp only [hasTy] at this
  exact hasTyAll_iff.mp this x hx

end CCVerif.Eval
