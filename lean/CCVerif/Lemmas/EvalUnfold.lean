import CCVerif.Lemmas.EvalGround
/-! Unfolding equations of the evaluator transcription `ev` and of the reference semantics `denote`
for the set-valued constructs, identifiers and single-variable binders (stages 1-3 of the C01 / C02
fragments).  Nothing here is a property: every lemma is "`ev` / `denote` at a node of this shape is
this expression in the results of the children". -/
namespace CCVerif.Eval
open CCVerif.Syntax CCVerif.Spec CCVerif.Norm

/-! ## generic: a fold over the indices of a list is the fold over the list -/

theorem foldl_range'_getElem {α β} (g : β → Option α → β) : ∀ (ks pre : List α) (init : β),
    (List.range' pre.length ks.length).foldl (fun acc i => g acc (pre ++ ks)[i]?) init =
      ks.foldl (fun acc k => g acc (some k)) init
  | [], pre, init => by simp
  | k :: ks, pre, init => by
    have h := foldl_range'_getElem g ks (pre ++ [k]) (g init (some k))
    simp only [List.length_append, List.length_cons, List.length_nil, List.append_assoc, List.cons_append,
      List.nil_append] at h
    simp only [List.length_cons, List.range'_succ, List.foldl_cons]
    rw [show (pre ++ k :: ks)[pre.length]? = some k by simp]
    exact h

theorem foldl_range_getElem {α β} (g : β → Option α → β) (ks : List α) (init : β) :
    (List.range ks.length).foldl (fun acc i => g acc ks[i]?) init =
      ks.foldl (fun acc k => g acc (some k)) init := by
  have := foldl_range'_getElem g ks [] init
  simpa [List.range_eq_range'] using this

/-- children evaluated left to right as `StructuredData` (`allVals` of `ev`) -/
def evKids (c : Ctx) (fuel : Nat) (t : Tok) : List Ast → List Val → St → R (List Val)
  | [], acc, st => .ok acc st
  | k :: ks, acc, st =>
    match (ev c fuel k (some t) st).asVal with
    | .fail f n => .fail f n
    | .ok v st' => evKids c fuel t ks (acc ++ [v]) st'

private def stepVals (c : Ctx) (fuel : Nat) (t : Tok) (acc : R (List Val)) (o : Option Ast) : R (List Val) :=
  match acc with
  | .fail f k => .fail f k
  | .ok vs st' =>
    match (match o with
      | none => R.fail (Fail.stuck "EvaluateChild index") st'.iters
      | some k => ev c fuel k (some t) st').asVal with
    | .fail f k => .fail f k
    | .ok v st'' => .ok (vs ++ [v]) st''

private theorem foldl_stepVals_fail (c : Ctx) (fuel : Nat) (t : Tok) (f : Fail) (n : Nat) : ∀ ks : List Ast,
    ks.foldl (fun acc k => stepVals c fuel t acc (some k)) (.fail f n) = .fail f n
  | [] => rfl
  | _ :: ks => by simp only [List.foldl_cons, stepVals]; exact foldl_stepVals_fail c fuel t f n ks

private theorem foldl_stepVals (c : Ctx) (fuel : Nat) (t : Tok) : ∀ (ks : List Ast) (acc : List Val) (st : St),
    ks.foldl (fun acc k => stepVals c fuel t acc (some k)) (.ok acc st) = evKids c fuel t ks acc st
  | [], acc, st => rfl
  | k :: ks, acc, st => by
    simp only [List.foldl_cons, evKids]
    cases h : (ev c fuel k (some t) st).asVal with
    | fail f n => simp only [stepVals, h]; exact foldl_stepVals_fail c fuel t f n ks
    | ok v st' => simp only [stepVals, h]; exact foldl_stepVals c fuel t ks (acc ++ [v]) st'

/-- the `allVals` fold of `ev` is `evKids` -/
theorem allVals_eq (c : Ctx) (fuel : Nat) (t : Tok) (ks : List Ast) (st : St) :
    List.foldl
        (fun acc i =>
          match acc with
          | R.fail f k => R.fail f k
          | R.ok vs st' =>
            match
              (match ks[i]? with
                | none => R.fail (Fail.stuck "EvaluateChild index") st'.iters
                | some k => ev c fuel k (some t) st').asVal with
            | R.fail f k => R.fail f k
            | R.ok v st'' => R.ok (vs ++ [v]) st'')
        (R.ok [] st) (List.range ks.length) = evKids c fuel t ks [] st := by
  have := foldl_range_getElem (stepVals c fuel t) ks (.ok [] st)
  rw [foldl_stepVals] at this
  exact this

/-! ## `ev` -/

theorem ev_empty (c : Ctx) (fuel : Nat) (d : TokData) (lo hi : Int) (ks : List Ast) (p : Option Tok) (st : St) :
    ev c (fuel + 1) (.node .LIT_EMPTYSET d lo hi ks) p st = .ok (.val (.s [])) st := by
  simp [ev, dispatchesDefault, Ast.id]

theorem ev_intset (c : Ctx) (fuel : Nat) (d : TokData) (lo hi : Int) (ks : List Ast) (p : Option Tok) (st : St) :
    ev c (fuel + 1) (.node .LIT_INTSET d lo hi ks) p st = .fail (.err EID.iterateInfinity lo) st.iters := by
  simp [ev, dispatchesDefault, Ast.id, Ast.lo]

/-- `ViLocal` / `ViGlobal`: the slot of the name -/
theorem ev_ident {t : Tok} (ht : t = .ID_LOCAL ∨ t = .ID_GLOBAL) (c : Ctx) (fuel : Nat) (s : String) (lo hi : Int)
    (ks : List Ast) (p : Option Tok) (st : St) :
    ev c (fuel + 1) (.node t (.text s) lo hi ks) p st =
      match lookup s c.ids with
      | none => .fail (.stuck "ViLocal *begin(nodeVars)") st.iters
      | some i =>
        match st.data[i]? with
        | none => .fail (.stuck "ViLocal idsData[]") st.iters
        | some v => .ok (.val v) st := by
  rcases ht with rfl | rfl <;>
  · simp only [ev, dispatchesDefault, Ast.id, firstVar, varsOf]
    cases lookup s c.ids <;> simp [tok_beq] <;> rfl

theorem ev_card (c : Ctx) (fuel : Nat) (a : Ast) (d : TokData) (lo hi : Int) (p : Option Tok) (st : St) :
    ev c (fuel + 1) (.node .CARD d lo hi [a]) p st =
      match (ev c fuel a (some .CARD) st).asSet with
      | .fail f k => .fail f k
      | .ok xs st1 => .ok (.val (.e xs.length)) st1 := by
  simp only [ev, dispatchesDefault, Ast.id, Ast.kids]
  simp
  rfl

theorem ev_bool (c : Ctx) (fuel : Nat) (a : Ast) (d : TokData) (lo hi : Int) (p : Option Tok) (st : St) :
    ev c (fuel + 1) (.node .BOOL d lo hi [a]) p st =
      match (ev c fuel a (some .BOOL) st).asVal with
      | .fail f k => .fail f k
      | .ok v st1 => .ok (.val (.s [v])) st1 := by
  simp only [ev, dispatchesDefault, Ast.id, Ast.kids]
  simp
  rfl

theorem ev_debool (c : Ctx) (fuel : Nat) (a : Ast) (d : TokData) (lo hi : Int) (p : Option Tok) (st : St) :
    ev c (fuel + 1) (.node .DEBOOL d lo hi [a]) p st =
      match (ev c fuel a (some .DEBOOL) st).asSet with
      | .fail f k => .fail f k
      | .ok xs st1 =>
        match xs with
        | [x] => .ok (.val x) st1
        | _ => .fail (.err EID.invalidDebool lo) st1.iters := by
  simp only [ev, dispatchesDefault, Ast.id, Ast.kids, Ast.lo]
  simp
  rfl

theorem ev_reduce (c : Ctx) (fuel : Nat) (a : Ast) (d : TokData) (lo hi : Int) (p : Option Tok) (st : St) :
    ev c (fuel + 1) (.node .REDUCE d lo hi [a]) p st =
      match (ev c fuel a (some .REDUCE) st).asSet with
      | .fail f k => .fail f k
      | .ok xs st1 =>
        match Val.reduce xs with
        | none => .fail (.stuck "SDSet::Reduce B() of a non-set") st1.iters
        | some r => .ok (.val (.s r)) st1 := by
  simp only [ev, dispatchesDefault, Ast.id, Ast.kids]
  simp
  rfl

theorem ev_bigpr (c : Ctx) (fuel : Nat) (a : Ast) (idx : List Int) (lo hi : Int) (p : Option Tok) (st : St) :
    ev c (fuel + 1) (.node .BIGPR (.tuple idx) lo hi [a]) p st =
      match (ev c fuel a (some .BIGPR) st).asSet with
      | .fail f k => .fail f k
      | .ok xs st1 =>
        match Val.projSet xs idx with
        | none => .fail (.stuck "SDSet::Projection T().Component") st1.iters
        | some r => .ok (.val (.s r)) st1 := by
  simp only [ev, dispatchesDefault, Ast.id, Ast.kids, idxOf, Ast.data]
  simp
  rfl

theorem ev_smallpr (c : Ctx) (fuel : Nat) (a : Ast) (idx : List Int) (lo hi : Int) (p : Option Tok) (st : St) :
    ev c (fuel + 1) (.node .SMALLPR (.tuple idx) lo hi [a]) p st =
      match (ev c fuel a (some .SMALLPR) st).asVal with
      | .fail f k => .fail f k
      | .ok v st1 =>
        match Val.project v idx with
        | none => .fail (.stuck "ViProjectTuple T().Component") st1.iters
        | some r => .ok (.val r) st1 := by
  simp only [ev, dispatchesDefault, Ast.id, Ast.kids, idxOf, Ast.data]
  simp
  rfl

theorem ev_boolean (c : Ctx) (fuel : Nat) (a : Ast) (d : TokData) (lo hi : Int) (p : Option Tok) (st : St) :
    ev c (fuel + 1) (.node .BOOLEAN d lo hi [a]) p st =
      match (ev c fuel a (some .BOOLEAN) st).asSet with
      | .fail f k => .fail f k
      | .ok xs st1 =>
        if (match p with
            | none => true
            | some q => q != .IN && q != .NT_DECLARATIVE_EXPR) && decide (xs.length ≥ Val.BOOL_INFINITY) then
          .fail (.err EID.booleanLimit lo) st1.iters
        else if xs.length > POW_LIMIT then .fail .outOfFuel st1.iters
        else .ok (.val (.s (Val.pow xs))) st1 := by
  simp only [ev, dispatchesDefault, Ast.id, Ast.kids, Ast.lo]
  simp
  rfl

def isSetOp (t : Tok) : Prop := t = .UNION ∨ t = .INTERSECTION ∨ t = .SET_MINUS ∨ t = .SYMMINUS

/-- the evaluator's operation of a binary set token -/
def setOp (t : Tok) (xs ys : List Val) : List Val :=
  match t with
  | .INTERSECTION => Val.inter xs ys
  | .SET_MINUS => Val.diff xs ys
  | .SYMMINUS => Val.symDiff xs ys
  | _ => Val.union xs ys

theorem ev_setOp {t : Tok} (ht : isSetOp t) (c : Ctx) (fuel : Nat) (a b : Ast) (d : TokData) (lo hi : Int)
    (p : Option Tok) (st : St) :
    ev c (fuel + 1) (.node t d lo hi [a, b]) p st =
      match (ev c fuel a (some t) st).asVal with
      | .fail f k => .fail f k
      | .ok v1 st1 =>
        match (ev c fuel b (some t) st1).asVal with
        | .fail f k => .fail f k
        | .ok v2 st2 =>
          match v1, v2 with
          | .s xs, .s ys => .ok (.val (.s (setOp t xs ys))) st2
          | _, _ => .fail (.stuck "ViSetexprBinary B() of a non-set") st2.iters := by
  rcases ht with rfl | rfl | rfl | rfl <;>
  · simp only [ev, dispatchesDefault, Ast.id, Ast.kids]
    simp [setOp]
    rfl

def isMemTok (t : Tok) : Prop := t = .IN ∨ t = .NOTIN

/-- `x ∈ S` / `x ∉ S` with an ordinary right operand -/
theorem ev_mem {t : Tok} (ht : isMemTok t) (c : Ctx) (fuel : Nat) (a b : Ast) (d : TokData) (lo hi : Int)
    (hb : b.id ≠ .BOOLEAN) (p : Option Tok) (st : St) :
    ev c (fuel + 1) (.node t d lo hi [a, b]) p st =
      match (ev c fuel a (some t) st).asVal with
      | .fail f k => .fail f k
      | .ok v1 st1 =>
        match (ev c fuel b (some t) st1).asSet with
        | .fail f k => .fail f k
        | .ok ys st2 => .ok (.bool ((Val.mem v1 ys) != (t == .NOTIN))) st2 := by
  obtain ⟨bt, bd, blo, bhi, bks⟩ := b
  have hb' : (bt == Tok.BOOLEAN) = false := by simpa [tok_beq, Ast.id] using hb
  rcases ht with rfl | rfl <;>
  · simp only [ev, dispatchesDefault, Ast.id, Ast.kids]
    simp [hb']
    rfl

/-- `x ∈ ℬ(B)` / `x ∉ ℬ(B)`: the lazy power set answers by inclusion -/
theorem ev_memPow {t : Tok} (ht : isMemTok t) (c : Ctx) (fuel : Nat) (a b : Ast) (d d' : TokData)
    (lo hi lo' hi' : Int) (p : Option Tok) (st : St) :
    ev c (fuel + 1) (.node t d lo hi [a, .node .BOOLEAN d' lo' hi' [b]]) p st =
      match (ev c fuel a (some t) st).asVal with
      | .fail f k => .fail f k
      | .ok v1 st1 =>
        match ev c fuel b (some .BOOLEAN) st1 with
        | .fail f k => .fail f k
        | .ok (.bool _) st2 => .fail (.stuck "get<StructuredData>") st2.iters
        | .ok (.val (.s base)) st2 =>
          if t != .IN && decide (base.length ≥ Val.BOOL_INFINITY) then .fail (.err EID.booleanLimit lo') st2.iters
          else
            match v1 with
            | .s xs => .ok (.bool ((Val.subsetEq xs base) != (t == .NOTIN))) st2
            | _ => .fail (.stuck "SDPowerSet::Contains B() of a non-set") st2.iters
        | .ok (.val _) st2 => .fail (.stuck "B() of a non-set") st2.iters := by
  rcases ht with rfl | rfl <;>
  · simp only [ev, dispatchesDefault, Ast.id, Ast.kids, Ast.lo]
    simp
    rfl

def isSubTok (t : Tok) : Prop := t = .SUBSET ∨ t = .SUBSET_OR_EQ ∨ t = .NOTSUBSET

theorem ev_sub {t : Tok} (ht : isSubTok t) (c : Ctx) (fuel : Nat) (a b : Ast) (d : TokData) (lo hi : Int)
    (p : Option Tok) (st : St) :
    ev c (fuel + 1) (.node t d lo hi [a, b]) p st =
      match (ev c fuel a (some t) st).asVal with
      | .fail f k => .fail f k
      | .ok v1 st1 =>
        match (ev c fuel b (some t) st1).asVal with
        | .fail f k => .fail f k
        | .ok v2 st2 =>
          if t == .SUBSET && Val.cmp v1 v2 == .eq then .ok (.bool false) st2
          else if t == .NOTSUBSET && Val.cmp v1 v2 == .eq then .ok (.bool true) st2
          else match v1, v2 with
            | .s xs, .s ys => .ok (.bool (if t == .NOTSUBSET then !Val.subsetEq xs ys else Val.subsetEq xs ys)) st2
            | _, _ => .fail (.stuck "ViSetexprBinary B() of a non-set") st2.iters := by
  rcases ht with rfl | rfl | rfl <;>
  · simp only [ev, dispatchesDefault, Ast.id, Ast.kids]
    simp
    rfl

theorem ev_enum (c : Ctx) (fuel : Nat) (ks : List Ast) (d : TokData) (lo hi : Int) (p : Option Tok) (st : St) :
    ev c (fuel + 1) (.node .NT_ENUMERATION d lo hi ks) p st =
      match evKids c fuel .NT_ENUMERATION ks [] st with
      | .fail f k => .fail f k
      | .ok vs st1 => .ok (.val (Val.mkSet vs)) st1 := by
  simp only [ev, dispatchesDefault, Ast.id, Ast.kids]
  simp
  rw [← allVals_eq]
  rfl

theorem ev_tuple (c : Ctx) (fuel : Nat) (ks : List Ast) (d : TokData) (lo hi : Int) (p : Option Tok) (st : St) :
    ev c (fuel + 1) (.node .NT_TUPLE d lo hi ks) p st =
      match evKids c fuel .NT_TUPLE ks [] st with
      | .fail f k => .fail f k
      | .ok vs st1 =>
        match Val.mkTuple vs with
        | none => .fail (.stuck "Factory::Tuple assert") st1.iters
        | some v => .ok (.val v) st1 := by
  simp only [ev, dispatchesDefault, Ast.id, Ast.kids]
  simp
  rw [← allVals_eq]
  rfl

theorem ev_decart (c : Ctx) (fuel : Nat) (ks : List Ast) (d : TokData) (lo hi : Int) (p : Option Tok) (st : St) :
    ev c (fuel + 1) (.node .DECART d lo hi ks) p st =
      match evKids c fuel .DECART ks [] st with
      | .fail f k => .fail f k
      | .ok vs st1 =>
        match allSome (vs.map members) with
        | none => .fail (.stuck "Factory::Decartian B() of a non-set") st1.iters
        | some fs =>
          if fs.any (·.isEmpty) then .ok (.val (.s [])) st1
          else if Val.prodCard fs == Val.SET_INFINITY then .fail (.err EID.typedOverflow lo) st1.iters
          else if Val.prodCard fs > PROD_LIMIT then .fail .outOfFuel st1.iters
          else .ok (.val (.s (Val.prod fs))) st1 := by
  simp only [ev, dispatchesDefault, Ast.id, Ast.kids, Ast.lo]
  simp
  rw [← allVals_eq]
  rfl

theorem firstVar_local (c : Ctx) (x : String) (lo hi : Int) :
    firstVar c (.node .ID_LOCAL (.text x) lo hi []) = lookup x c.ids := by
  simp only [firstVar, varsOf]
  cases lookup x c.ids <;> simp [tok_beq]

def isQuant (t : Tok) : Prop := t = .FORALL ∨ t = .EXISTS

theorem ev_quant {t : Tok} (ht : isQuant t) (c : Ctx) (fuel : Nat) (x : String) (dlo dhi : Int) (dom body : Ast)
    (d : TokData) (lo hi : Int) (p : Option Tok) (st : St) :
    ev c (fuel + 1) (.node t d lo hi [.node .ID_LOCAL (.text x) dlo dhi [], dom, body]) p st =
      match (ev c fuel dom (some t) st).asSet with
      | .fail f k => .fail f k
      | .ok xs st1 =>
        match lookup x c.ids with
        | none => .fail (.stuck "ViQuantifier *begin(nodeVars)") st1.iters
        | some var =>
          match st1.data[var]? with
          | none => .fail (.stuck "SlotGuard slots.at") st1.iters
          | some saved =>
            restoreSlot var saved (quantLoop (fun st => ev c fuel body (some t) st) var (t == .FORALL) lo xs st1) := by
  rcases ht with rfl | rfl <;>
  · simp only [ev, dispatchesDefault, Ast.id, Ast.kids, Ast.lo]
    simp [firstVar_local]
    rfl

theorem ev_decl (c : Ctx) (fuel : Nat) (x : String) (dlo dhi : Int) (dom body : Ast)
    (d : TokData) (lo hi : Int) (p : Option Tok) (st : St) :
    ev c (fuel + 1) (.node .NT_DECLARATIVE_EXPR d lo hi [.node .ID_LOCAL (.text x) dlo dhi [], dom, body]) p st =
      match (ev c fuel dom (some .NT_DECLARATIVE_EXPR) st).asSet with
      | .fail f k => .fail f k
      | .ok xs st1 =>
        match lookup x c.ids with
        | none => .fail (.stuck "ViDeclarative *begin(nodeVars)") st1.iters
        | some var =>
          match st1.data[var]? with
          | none => .fail (.stuck "SlotGuard slots.at") st1.iters
          | some saved =>
            restoreSlot var saved (declLoop (fun st => ev c fuel body (some .NT_DECLARATIVE_EXPR) st) var lo xs [] st1) := by
  simp only [ev, dispatchesDefault, Ast.id, Ast.kids, Ast.lo]
  simp [firstVar_local]
  rfl

/-! ## `denote` -/

/-- `ds` of `denote`: the members of a set value -/
def dSet (o : Option SemVal) : Option (List Val) := (dVal o).bind members

def setOpSpec (t : Tok) (xs ys : List Val) : Val :=
  match t with
  | .INTERSECTION => setOf (xs.filter (isMember · ys))
  | .SET_MINUS => setOf (xs.filter (!isMember · ys))
  | .SYMMINUS => setOf (xs.filter (!isMember · ys) ++ ys.filter (!isMember · xs))
  | _ => setOf (xs ++ ys)

def subSpec (t : Tok) (xs ys : List Val) : Bool :=
  match t with
  | .SUBSET => isSubset xs ys && !isSubset ys xs
  | .NOTSUBSET => !(isSubset xs ys && !isSubset ys xs)
  | _ => isSubset xs ys

theorem denote_zero (env : SEnv) (ρ : LEnv) (a : Ast) : denote env 0 ρ a = none := by simp [denote]

theorem denote_empty (env : SEnv) (fuel : Nat) (ρ : LEnv) (d : TokData) (lo hi : Int) (ks : List Ast) :
    denote env (fuel + 1) ρ (.node .LIT_EMPTYSET d lo hi ks) = some (.val (.s [])) := by
  simp [denote, Ast.id]

theorem denote_global (env : SEnv) (fuel : Nat) (ρ : LEnv) (s : String) (lo hi : Int) (ks : List Ast) :
    denote env (fuel + 1) ρ (.node .ID_GLOBAL (.text s) lo hi ks) = (assoc s env.globals).map SemVal.val := by
  simp [denote, Ast.id, idNameOf, Ast.data]

theorem denote_local (env : SEnv) (fuel : Nat) (ρ : LEnv) (s : String) (lo hi : Int) (ks : List Ast) :
    denote env (fuel + 1) ρ (.node .ID_LOCAL (.text s) lo hi ks) =
      match ρ.find s with
      | some (.val v) => some (.val v)
      | some (.thunk x cl) => denote env fuel cl x
      | none => none := by
  simp only [denote, Ast.id, idNameOf, Ast.data]
  rfl

theorem denote_card (env : SEnv) (fuel : Nat) (ρ : LEnv) (a : Ast) (d : TokData) (lo hi : Int) :
    denote env (fuel + 1) ρ (.node .CARD d lo hi [a]) =
      ((dSet (denote env fuel ρ a)).map fun xs => Val.e xs.length).map SemVal.val := by
  simp only [denote, Ast.id, Ast.kids, List.getElem?_cons_zero, Option.getD_some]
  rfl

theorem denote_bool (env : SEnv) (fuel : Nat) (ρ : LEnv) (a : Ast) (d : TokData) (lo hi : Int) :
    denote env (fuel + 1) ρ (.node .BOOL d lo hi [a]) =
      ((dVal (denote env fuel ρ a)).map fun v => setOf [v]).map SemVal.val := by
  simp only [denote, Ast.id, Ast.kids, List.getElem?_cons_zero, Option.getD_some]
  rfl

theorem denote_debool (env : SEnv) (fuel : Nat) (ρ : LEnv) (a : Ast) (d : TokData) (lo hi : Int) :
    denote env (fuel + 1) ρ (.node .DEBOOL d lo hi [a]) =
      match dSet (denote env fuel ρ a) with
      | some [x] => some (.val x)
      | _ => none := by
  simp only [denote, Ast.id, Ast.kids, List.getElem?_cons_zero, Option.getD_some]
  rfl

theorem denote_reduce (env : SEnv) (fuel : Nat) (ρ : LEnv) (a : Ast) (d : TokData) (lo hi : Int) :
    denote env (fuel + 1) ρ (.node .REDUCE d lo hi [a]) =
      match dSet (denote env fuel ρ a) with
      | none => none
      | some xs => ((xs.mapM members).map fun ls => setOf ls.flatten).map SemVal.val := by
  simp only [denote, Ast.id, Ast.kids, List.getElem?_cons_zero, Option.getD_some]
  rfl

theorem denote_bigpr (env : SEnv) (fuel : Nat) (ρ : LEnv) (a : Ast) (idx : List Int) (lo hi : Int) :
    denote env (fuel + 1) ρ (.node .BIGPR (.tuple idx) lo hi [a]) =
      match dSet (denote env fuel ρ a) with
      | some xs => ((xs.mapM (select · idx)).map setOf).map SemVal.val
      | none => none := by
  simp only [denote, Ast.id, Ast.kids, Ast.data, List.getElem?_cons_zero, Option.getD_some]
  generalize denote env fuel ρ a = r
  rcases r with _ | (v | b)
  · rfl
  · cases v <;> rfl
  · rfl

theorem denote_smallpr (env : SEnv) (fuel : Nat) (ρ : LEnv) (a : Ast) (idx : List Int) (lo hi : Int) :
    denote env (fuel + 1) ρ (.node .SMALLPR (.tuple idx) lo hi [a]) =
      match dVal (denote env fuel ρ a) with
      | some v => (select v idx).map SemVal.val
      | none => none := by
  simp only [denote, Ast.id, Ast.kids, Ast.data, List.getElem?_cons_zero, Option.getD_some]
  generalize denote env fuel ρ a = r
  rcases r with _ | (v | b) <;> rfl

theorem denote_boolean (env : SEnv) (fuel : Nat) (ρ : LEnv) (a : Ast) (d : TokData) (lo hi : Int) :
    denote env (fuel + 1) ρ (.node .BOOLEAN d lo hi [a]) =
      match dSet (denote env fuel ρ a) with
      | none => none
      | some xs => if xs.length > POW_BOUND then none else some (.val (setOf ((subsets xs).map setOf))) := by
  simp only [denote, Ast.id, Ast.kids, List.getElem?_cons_zero, Option.getD_some]
  rfl

theorem denote_setOp {t : Tok} (ht : isSetOp t) (env : SEnv) (fuel : Nat) (ρ : LEnv) (a b : Ast) (d : TokData) (lo hi : Int) :
    denote env (fuel + 1) ρ (.node t d lo hi [a, b]) =
      ((dSet (denote env fuel ρ a)).bind fun xs => (dSet (denote env fuel ρ b)).map fun ys => setOpSpec t xs ys).map
        SemVal.val := by
  rcases ht with rfl | rfl | rfl | rfl <;>
  · simp only [denote, Ast.id, Ast.kids, List.getElem?_cons_zero, List.getElem?_cons_succ, Option.getD_some]
    rfl

theorem denote_mem {t : Tok} (ht : isMemTok t) (env : SEnv) (fuel : Nat) (ρ : LEnv) (a b : Ast) (d : TokData) (lo hi : Int)
    (hb : b.id ≠ .BOOLEAN) :
    denote env (fuel + 1) ρ (.node t d lo hi [a, b]) =
      (((dVal (denote env fuel ρ a)).bind fun x => (dSet (denote env fuel ρ b)).map fun ys => isMember x ys).map
        fun r => r != (t == .NOTIN)).map SemVal.bool := by
  obtain ⟨bt, bd, blo, bhi, bks⟩ := b
  have hb' : (bt == Tok.BOOLEAN) = false := by simpa [tok_beq, Ast.id] using hb
  rcases ht with rfl | rfl <;>
  · simp only [denote, Ast.id, Ast.kids, List.getElem?_cons_zero, List.getElem?_cons_succ, Option.getD_some]
    simp only [hb']
    rfl

theorem denote_memPow {t : Tok} (ht : isMemTok t) (env : SEnv) (fuel : Nat) (ρ : LEnv) (a b : Ast) (d d' : TokData)
    (lo hi lo' hi' : Int) :
    denote env (fuel + 1) ρ (.node t d lo hi [a, .node .BOOLEAN d' lo' hi' [b]]) =
      (((dSet (denote env fuel ρ a)).bind fun xs => (dSet (denote env fuel ρ b)).map fun ys => isSubset xs ys).map
        fun r => r != (t == .NOTIN)).map SemVal.bool := by
  rcases ht with rfl | rfl <;>
  · simp only [denote, Ast.id, Ast.kids, List.getElem?_cons_zero, List.getElem?_cons_succ, Option.getD_some]
    rfl

theorem denote_sub {t : Tok} (ht : isSubTok t) (env : SEnv) (fuel : Nat) (ρ : LEnv) (a b : Ast) (d : TokData) (lo hi : Int) :
    denote env (fuel + 1) ρ (.node t d lo hi [a, b]) =
      ((dSet (denote env fuel ρ a)).bind fun xs => (dSet (denote env fuel ρ b)).map fun ys => subSpec t xs ys).map
        SemVal.bool := by
  rcases ht with rfl | rfl | rfl <;>
  · simp only [denote, Ast.id, Ast.kids, List.getElem?_cons_zero, List.getElem?_cons_succ, Option.getD_some]
    rfl

theorem denote_enum (env : SEnv) (fuel : Nat) (ρ : LEnv) (ks : List Ast) (d : TokData) (lo hi : Int) :
    denote env (fuel + 1) ρ (.node .NT_ENUMERATION d lo hi ks) =
      ((ks.mapM fun k => dVal (denote env fuel ρ k)).map setOf).map SemVal.val := by
  simp only [denote, Ast.id, Ast.kids]
  rfl

theorem denote_tuple (env : SEnv) (fuel : Nat) (ρ : LEnv) (ks : List Ast) (d : TokData) (lo hi : Int) :
    denote env (fuel + 1) ρ (.node .NT_TUPLE d lo hi ks) =
      match ks.mapM fun k => dVal (denote env fuel ρ k) with
      | some (c :: d :: r) => some (.val (.t (c :: d :: r)))
      | _ => none := by
  simp only [denote, Ast.id, Ast.kids]
  rfl

theorem denote_decart (env : SEnv) (fuel : Nat) (ρ : LEnv) (ks : List Ast) (d : TokData) (lo hi : Int) :
    denote env (fuel + 1) ρ (.node .DECART d lo hi ks) =
      match ks.mapM fun k => dSet (denote env fuel ρ k) with
      | none => none
      | some fs =>
        if (fs.foldl (fun n f => n * f.length) 1) > PROD_BOUND then none
        else some (.val (setOf ((tuples fs).map Val.t))) := by
  simp only [denote, Ast.id, Ast.kids]
  rfl

theorem bindPat_local (x : String) (lo hi : Int) (ks : List Ast) (v : Val) (ρ : LEnv) :
    bindPat (.node .ID_LOCAL (.text x) lo hi ks) v ρ = some (.val x v ρ) := by
  simp [bindPat, tok_beq]

/-- `Q x∈D . body` for one plain variable: the (strong-Kleene) conjunction / disjunction over the members -/
theorem denote_quant {t : Tok} (ht : isQuant t) (env : SEnv) (fuel : Nat) (ρ : LEnv) (x : String) (dlo dhi : Int)
    (dom body : Ast) (d : TokData) (lo hi : Int) :
    denote env (fuel + 1) ρ (.node t d lo hi [.node .ID_LOCAL (.text x) dlo dhi [], dom, body]) =
      match dSet (denote env fuel ρ dom) with
      | none => none
      | some xs =>
        (let rs := xs.map fun v => dBool (denote env fuel (.val x v ρ) body)
         if t == .FORALL then kAll rs else kAny rs).map SemVal.bool := by
  rcases ht with rfl | rfl <;>
  · simp only [denote, Ast.id, Ast.kids, List.getElem?_cons_zero, List.getElem?_cons_succ, Option.getD_some]
    simp only [show (Tok.ID_LOCAL == Tok.NT_ENUM_DECL) = false by decide, quantSem, bindPat_local]
    rfl

theorem denote_decl (env : SEnv) (fuel : Nat) (ρ : LEnv) (x : String) (dlo dhi : Int) (dom body : Ast)
    (d : TokData) (lo hi : Int) :
    denote env (fuel + 1) ρ (.node .NT_DECLARATIVE_EXPR d lo hi [.node .ID_LOCAL (.text x) dlo dhi [], dom, body]) =
      match dSet (denote env fuel ρ dom) with
      | none => none
      | some xs =>
        ((xs.mapM fun v => (dBool (denote env fuel (.val x v ρ) body)).map fun b => (v, b)).map keep).map SemVal.val := by
  simp only [denote, Ast.id, Ast.kids, List.getElem?_cons_zero, List.getElem?_cons_succ, Option.getD_some,
    bindPat_local]
  rfl

end CCVerif.Eval
