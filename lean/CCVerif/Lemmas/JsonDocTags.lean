import CCVerif.Model.JsonDoc
import CCVerif.Lemmas.Refs
/-!
`normTags_idem`: `Morphology(Morphology(s).ToString()) == Morphology(s)` on the level of tag
strings (the manual word forms of a loaded schema carry canonical tag strings). Uses the set
semantics of `Morphology(tags)` proved for C17 (`morphOfTags_eq_formOf`).
-/
namespace CCVerif.JsonDoc
open CCVerif.Refs CCVerif.Strings

theorem names_ok : ∀ g ∈ List.range 36, cComma ∉ grammem2Str g ∧ (∀ c ∈ grammem2Str g, c < 128) ∧
    (g ≠ 0 → str2Grammem (trim (grammem2Str g)) = g) := by decide

/-- the text `ToString` builds: names joined with `,` -/
def joinNames : List Nat → Bytes
  | [] => []
  | g :: rest => cComma :: (grammem2Str g ++ joinNames rest)

theorem morphToString_eq (g : Nat) (rest : List Nat) :
    morphToString (g :: rest) = grammem2Str g ++ joinNames rest := by
  unfold morphToString
  have : ∀ (acc : Bytes) (l : List Nat),
      l.foldl (fun acc x => acc ++ [cComma] ++ grammem2Str x) acc = acc ++ joinNames l := by
    intro acc l
    induction l generalizing acc with
    | nil => simp [joinNames]
    | cons x xs ih => rw [List.foldl_cons, ih]; simp [joinNames]
  exact this _ _

theorem splitGo_names (g : Nat) (rest : List Nat) (hg : cComma ∉ grammem2Str g)
    (hr : ∀ x ∈ rest, cComma ∉ grammem2Str x) (cur : Bytes) :
    splitGo cComma (grammem2Str g ++ joinNames rest) cur =
      (cur.reverse ++ grammem2Str g) :: rest.map grammem2Str := by
  induction rest generalizing g cur with
  | nil =>
    have := splitGo_push cComma (grammem2Str g) [] cur hg
    simp only [joinNames, List.append_nil] at this ⊢
    rw [this]; simp [splitGo]
  | cons x xs ih =>
    rw [splitGo_push cComma (grammem2Str g) _ cur hg]
    simp only [joinNames, splitGo, if_true]
    rw [ih x (hr x (by simp)) (fun y hy => hr y (by simp [hy])) []]
    simp

theorem splitBy_morphToString (m : Morph) (hne : m ≠ []) (hm : ∀ g ∈ m, g < 36) :
    splitBy (morphToString m) cComma = m.map grammem2Str := by
  cases m with
  | nil => exact absurd rfl hne
  | cons g rest =>
    have hc : ∀ x ∈ g :: rest, cComma ∉ grammem2Str x := fun x hx =>
      (names_ok x (List.mem_range.2 (hm x hx))).1
    rw [morphToString_eq, splitBy, splitGo_names g rest (hc g (by simp)) (fun x hx => hc x (by simp [hx]))]
    simp

theorem formOf_pairwise (tags : List Bytes) : (Spec.formOf tags).Pairwise (· < ·) := by
  unfold Spec.formOf
  exact List.Pairwise.filter _ List.pairwise_lt_range

theorem mem_formOf (tags : List Bytes) (x : Nat) :
    x ∈ Spec.formOf tags ↔ x < 36 ∧ x ≠ 0 ∧ ∃ t ∈ tags, str2Grammem (trim t) = x := by
  unfold Spec.formOf
  simp [List.mem_filter]

theorem morph_roundtrip (b : Bytes) : morphOfText (morphToString (morphOfText b)) = morphOfText b := by
  unfold morphOfText
  rw [morphOfTags_eq_formOf, morphOfTags_eq_formOf]
  generalize hm : Spec.formOf (splitBy b cComma) = m
  have hp : m.Pairwise (· < ·) := hm ▸ formOf_pairwise _
  have hlt : ∀ g ∈ m, g < 36 ∧ g ≠ 0 := by
    intro g hg; rw [← hm, mem_formOf] at hg; exact ⟨hg.1, hg.2.1⟩
  apply pairwise_lt_ext _ _ (formOf_pairwise _) hp
  intro x
  rw [mem_formOf]
  by_cases hne : m = []
  · subst hne
    have : splitBy (morphToString []) cComma = [[]] := by decide
    rw [this]
    simp only [List.mem_singleton, exists_eq_left, List.not_mem_nil, iff_false, not_and]
    intro _ h0 h; apply h0; rw [← h]; decide
  · rw [splitBy_morphToString m hne (fun g hg => (hlt g hg).1)]
    constructor
    · rintro ⟨_, _, t, ht, e⟩
      obtain ⟨g, hg, rfl⟩ := List.mem_map.1 ht
      have := (names_ok g (List.mem_range.2 (hlt g hg).1)).2.2 (hlt g hg).2
      rw [this] at e; subst e; exact hg
    · intro hx
      refine ⟨(hlt x hx).1, (hlt x hx).2, grammem2Str x, List.mem_map.2 ⟨x, hx, rfl⟩, ?_⟩
      exact (names_ok x (List.mem_range.2 (hlt x hx).1)).2.2 (hlt x hx).2

theorem morphToString_ascii (m : Morph) (hm : ∀ g ∈ m, g < 36) : ∀ c ∈ morphToString m, c < 128 := by
  cases m with
  | nil => intro c hc; simp [morphToString] at hc
  | cons g rest =>
    rw [morphToString_eq]
    have : ∀ l : List Nat, (∀ x ∈ l, x < 36) → ∀ c ∈ joinNames l, c < 128 := by
      intro l
      induction l with
      | nil => intro _ c hc; simp [joinNames] at hc
      | cons x xs ih =>
        intro hl c hc
        simp only [joinNames, List.mem_cons, List.mem_append] at hc
        rcases hc with rfl | hc | hc
        · decide
        · exact (names_ok x (List.mem_range.2 (hl x (by simp)))).2.1 c hc
        · exact ih (fun y hy => hl y (by simp [hy])) c hc
    intro c hc
    rcases List.mem_append.1 hc with hc | hc
    · exact (names_ok g (List.mem_range.2 (hm g (by simp)))).2.1 c hc
    · exact this rest (fun x hx => hm x (by simp [hx])) c hc

/-- **`Morphology(Morphology(s).ToString()) == Morphology(s)`** on tag strings -/
theorem normTags_idem (s : String) : normTags (normTags s) = normTags s := by
  unfold normTags
  generalize hb : s.toList.map Char.toNat = b
  have hlt : ∀ g ∈ morphOfText b, g < 36 := by
    intro g hg
    unfold morphOfText at hg
    rw [morphOfTags_eq_formOf, mem_formOf] at hg
    exact hg.1
  have hascii := morphToString_ascii (morphOfText b) hlt
  have hback : (String.ofList ((morphToString (morphOfText b)).map Char.ofNat)).toList.map Char.toNat =
      morphToString (morphOfText b) := by
    rw [String.toList_ofList, List.map_map]
    conv => rhs; rw [← List.map_id (morphToString (morphOfText b))]
    apply List.map_congr_left
    intro c hc
    have := hascii c hc
    have hv : c.isValidChar := by left; omega
    simp [Char.ofNat, hv, Char.toNat, Char.ofNatAux]
  rw [hback, morph_roundtrip]



end CCVerif.JsonDoc
