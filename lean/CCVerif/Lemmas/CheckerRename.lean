import CCVerif.Lemmas.CheckerAnalysis
import CCVerif.Lemmas.CheckerEquivariant
import CCVerif.Lemmas.RenameGen
/-!
C08, schema level, the REAL type checker: the checker instance of the generic schema machine with a
real `rename` (`checkerR`: `TranslateRS` with `FilterGlobals` on a parsed definition = renaming of the
payload of the ID_GLOBAL / ID_FUNCTION / ID_PREDICATE tokens), and the proof that it satisfies the
equivariance law of `Lemmas/RenameGen.lean` (`checkerEquivariance`), from the equivariance of the
checker (`check_ren`, `Lemmas/CheckerEquivariant.lean`).

* `renAst_inv`, `renAst_congr`, `usedGlobals_ren`, `globalsOf_ren`, `TreeOK.inv`;
* `checkerR`, `checkerR_lawful`;
* `CRenFor traitsOf` — the renamings under which `TraitsFor` is equivariant;
* `GoodC` — the side condition per constituent: `τ alias = ρ alias`, the body satisfies `TreeOK` and
  every global name of the body stands at a visited position (true of the grammar's trees);
* `checkerEquivariance traitsOf : Equivariance (checkerR traitsOf)`.
-/
namespace CCVerif.Checker
open CCVerif CCVerif.Syntax CCVerif.Types

/-! ## the renamed tree -/

theorem renData_inv {g g' : String → String} (h : ∀ x, g' (g x) = x) (id : Tok) (d : TokData) :
    renData g' id (renData g id d) = d := by
  cases d with
  | text s =>
    rw [renData_text, renData_text]
    cases isGlob id with
    | true => simp only [if_true]; rw [h]
    | false => rfl
  | none => rw [renData_not_text g _ (by intro s h; cases h), renData_not_text g' _ (by intro s h; cases h)]
  | int _ => rw [renData_not_text g _ (by intro s h; cases h), renData_not_text g' _ (by intro s h; cases h)]
  | tuple _ => rw [renData_not_text g _ (by intro s h; cases h), renData_not_text g' _ (by intro s h; cases h)]

mutual
theorem renAst_inv {g g' : String → String} (h : ∀ x, g' (g x) = x) : ∀ a : Ast, renAst g' (renAst g a) = a
  | .node id d lo hi ks => by
    simp only [renAst]
    rw [renData_inv h, renAstL_inv h ks]
theorem renAstL_inv {g g' : String → String} (h : ∀ x, g' (g x) = x) : ∀ ks : List Ast,
    renAstL g' (renAstL g ks) = ks
  | [] => rfl
  | k :: ks => by simp only [renAstL]; rw [renAst_inv h k, renAstL_inv h ks]
end

theorem isGlob_iff (t : Tok) : isGlob t = true ↔ IsGlobalId t := by
  cases t <;> decide

mutual
/-- two renamings that agree on the global names of the tree rename it alike -/
theorem renAst_congr {g g' : String → String} : ∀ a : Ast, (∀ n ∈ globalsOf a, g n = g' n) →
    renAst g a = renAst g' a
  | .node id d lo hi ks, h => by
    simp only [renAst]
    have hd : renData g id d = renData g' id d := by
      cases d with
      | text s =>
        rw [renData_text, renData_text]
        cases hg : isGlob id with
        | false => rfl
        | true =>
          simp only [if_true]
          rw [h s (by
            simp only [globalsOf, List.mem_append]
            left; left
            rw [if_pos ((isGlob_iff id).1 hg)]
            simp [dataText])]
      | none => rw [renData_not_text g _ (by intro s h; cases h), renData_not_text g' _ (by intro s h; cases h)]
      | int _ => rw [renData_not_text g _ (by intro s h; cases h), renData_not_text g' _ (by intro s h; cases h)]
      | tuple _ => rw [renData_not_text g _ (by intro s h; cases h), renData_not_text g' _ (by intro s h; cases h)]
    rw [hd, renAstL_congr ks (fun n hn => h n (by
      simp only [globalsOf, List.mem_append]; right; exact hn))]
theorem renAstL_congr {g g' : String → String} : ∀ ks : List Ast, (∀ n ∈ globalsOfList ks, g n = g' n) →
    renAstL g ks = renAstL g' ks
  | [], _ => rfl
  | k :: ks, h => by
    simp only [renAstL]
    rw [renAst_congr k (fun n hn => h n (by simp only [globalsOfList, List.mem_append]; left; exact hn)),
      renAstL_congr ks (fun n hn => h n (by simp only [globalsOfList, List.mem_append]; right; exact hn))]
end

variable {r : CRen}

theorem dataText_renData_glob (g : String → String) {id : Tok} (hg : isGlob id = true) (d : TokData) :
    dataText (renData g id d) = (dataText d).map g := by
  cases d with
  | text s => rw [renData_text, if_pos hg]; rfl
  | none => rw [renData_not_text g _ (by intro s h; cases h)]; rfl
  | int _ => rw [renData_not_text g _ (by intro s h; cases h)]; rfl
  | tuple _ => rw [renData_not_text g _ (by intro s h; cases h)]; rfl

/-- the name of a called function in the renamed tree -/
theorem headText_ren {a : Ast} (hn : NodeOK r a) (hc : a.id = .NT_FUNC_CALL) :
    headText (a.kids.map (renAst r.ρ.f)) = (headText a.kids).map r.ρ.f := by
  cases hk : a.kids with
  | nil => rfl
  | cons k0 ks =>
    simp only [List.map_cons, headText]
    rw [renAst_data]
    cases hd : k0.data with
    | text fn =>
      rw [renData_text]
      have hk0 : a.kid 0 = some k0 := by unfold Ast.kid; rw [hk]; rfl
      obtain ⟨h1, _⟩ := hn.call hc k0 hk0 fn hd
      cases hg : isGlob k0.id with
      | true => rfl
      | false => simp only [Bool.false_eq_true, if_false, dataText, List.map_cons, List.map_nil]; rw [h1 hg]
    | none => rw [renData_not_text _ _ (by intro s h; cases h)]; rfl
    | int _ => rw [renData_not_text _ _ (by intro s h; cases h)]; rfl
    | tuple _ => rw [renData_not_text _ _ (by intro s h; cases h)]; rfl

theorem visitedIdx_ren (g : String → String) (a : Ast) (i : Nat) :
    visitedIdx (renAst g a) i = visitedIdx a i := by
  unfold visitedIdx declVisited
  rw [renAst_id, renAst_kids_length]

theorem usedGlobalsList_parent {a a' : Ast} (h : ∀ i, visitedIdx a' i = visitedIdx a i) :
    ∀ (i : Nat) (ks : List Ast), usedGlobalsList a' i ks = usedGlobalsList a i ks
  | _, [] => rfl
  | i, k :: ks => by simp only [usedGlobalsList]; rw [h i, usedGlobalsList_parent h (i + 1) ks]

mutual
/-- the visited globals of the renamed tree -/
theorem usedGlobals_ren : ∀ a : Ast, TreeOK r a → usedGlobals (renAst r.ρ.f a) = (usedGlobals a).map r.ρ.f
  | .node id d lo hi ks, h => by
    have hn := h.node
    have e0 : renAst r.ρ.f (.node id d lo hi ks) = .node id (renData r.ρ.f id d) lo hi (renAstL r.ρ.f ks) := by
      simp only [renAst]
    rw [e0]
    simp only [usedGlobals, List.map_append]
    have h1 : (if IsGlobalId id then dataText (renData r.ρ.f id d) else []) =
        (if IsGlobalId id then dataText d else []).map r.ρ.f := by
      by_cases hg : IsGlobalId id
      · rw [if_pos hg, if_pos hg, dataText_renData_glob _ ((isGlob_iff id).2 hg)]
      · rw [if_neg hg, if_neg hg]; rfl
    have h2 : (if id = .NT_FUNC_CALL then headText (renAstL r.ρ.f ks) else []) =
        (if id = .NT_FUNC_CALL then headText ks else []).map r.ρ.f := by
      by_cases hc : id = .NT_FUNC_CALL
      · rw [if_pos hc, if_pos hc, renAstL_eq_map]
        exact headText_ren (a := .node id d lo hi ks) hn hc
      · rw [if_neg hc, if_neg hc]; rfl
    have h3 : usedGlobalsList (.node id (renData r.ρ.f id d) lo hi (renAstL r.ρ.f ks)) 0 (renAstL r.ρ.f ks) =
        (usedGlobalsList (.node id d lo hi ks) 0 ks).map r.ρ.f := by
      rw [usedGlobalsList_parent (a := .node id d lo hi ks) (fun i => by rw [← e0]; exact visitedIdx_ren _ _ i)]
      exact usedGlobalsList_ren (.node id d lo hi ks) 0 ks (fun k hk => h.kids k hk)
    rw [h1, h2, h3]
theorem usedGlobalsList_ren (a : Ast) : ∀ (i : Nat) (ks : List Ast), (∀ k ∈ ks, TreeOK r k) →
    usedGlobalsList a i (renAstL r.ρ.f ks) = (usedGlobalsList a i ks).map r.ρ.f
  | _, [], _ => rfl
  | i, k :: ks, h => by
    simp only [renAstL, usedGlobalsList, List.map_append]
    rw [usedGlobals_ren k (h k (List.mem_cons_self ..)),
      usedGlobalsList_ren a (i + 1) ks (fun k' hk' => h k' (List.mem_cons_of_mem _ hk'))]
    split <;> rfl
end

mutual
/-- all globals of the renamed tree -/
theorem globalsOf_ren : ∀ a : Ast, TreeOK r a → globalsOf (renAst r.ρ.f a) = (globalsOf a).map r.ρ.f
  | .node id d lo hi ks, h => by
    have hn := h.node
    simp only [renAst, globalsOf, List.map_append]
    have h1 : (if IsGlobalId id then dataText (renData r.ρ.f id d) else []) =
        (if IsGlobalId id then dataText d else []).map r.ρ.f := by
      by_cases hg : IsGlobalId id
      · rw [if_pos hg, if_pos hg, dataText_renData_glob _ ((isGlob_iff id).2 hg)]
      · rw [if_neg hg, if_neg hg]; rfl
    have h2 : (if id = .NT_FUNC_CALL then headText (renAstL r.ρ.f ks) else []) =
        (if id = .NT_FUNC_CALL then headText ks else []).map r.ρ.f := by
      by_cases hc : id = .NT_FUNC_CALL
      · rw [if_pos hc, if_pos hc, renAstL_eq_map]
        exact headText_ren (a := .node id d lo hi ks) hn hc
      · rw [if_neg hc, if_neg hc]; rfl
    rw [h1, h2, globalsOfList_ren ks (fun k hk => h.kids k hk)]
theorem globalsOfList_ren : ∀ ks : List Ast, (∀ k ∈ ks, TreeOK r k) →
    globalsOfList (renAstL r.ρ.f ks) = (globalsOfList ks).map r.ρ.f
  | [], _ => rfl
  | k :: ks, h => by
    simp only [renAstL, globalsOfList, List.map_append]
    rw [globalsOf_ren k (h k (List.mem_cons_self ..)),
      globalsOfList_ren ks (fun k' hk' => h k' (List.mem_cons_of_mem _ hk'))]
end

/-! ## the side conditions are symmetric -/

theorem renAst_kid_some {g : String → String} {a : Ast} {i : Nat} {k' : Ast}
    (h : (renAst g a).kid i = some k') : ∃ k, a.kid i = some k ∧ k' = renAst g k := by
  rw [renAst_kid] at h
  cases hk : a.kid i with
  | none => rw [hk] at h; cases h
  | some k => rw [hk] at h; exact ⟨k, rfl, (Option.some.inj h).symm⟩

theorem renAst_data_text {g : String → String} {k : Ast} {s' : String}
    (h : (renAst g k).data = .text s') :
    ∃ s, k.data = .text s ∧ s' = if isGlob k.id then g s else s := by
  rw [renAst_data] at h
  cases hd : k.data with
  | text s =>
    rw [hd, renData_text] at h
    exact ⟨s, rfl, (TokData.text.inj h).symm⟩
  | none => rw [hd, renData_not_text _ _ (by intro s h; cases h)] at h; cases h
  | int _ => rw [hd, renData_not_text _ _ (by intro s h; cases h)] at h; cases h
  | tuple _ => rw [hd, renData_not_text _ _ (by intro s h; cases h)] at h; cases h

theorem NodeOK.inv {a : Ast} (h : NodeOK r a) : NodeOK r.inv (renAst r.ρ.f a) where
  radical := by
    intro hid s' hs'
    rw [renAst_id] at hid
    obtain ⟨s, hs, rfl⟩ := renAst_data_text hs'
    have hg : isGlob a.id = false := by rw [hid]; rfl
    rw [hg]
    simp only [Bool.false_eq_true, if_false]
    show r.τ.β.g s = s
    conv => lhs; rw [← h.radical hid s hs]
    exact r.τ.β.gf s
  call := by
    intro hid k0' hk0' fn' hfn'
    rw [renAst_id] at hid
    obtain ⟨k0, hk0, rfl⟩ := renAst_kid_some hk0'
    obtain ⟨fn, hfn, rfl⟩ := renAst_data_text hfn'
    obtain ⟨h1, h2⟩ := h.call hid k0 hk0 fn hfn
    have hname : (if isGlob k0.id then r.ρ.f fn else fn) = r.ρ.f fn := by
      cases hg : isGlob k0.id with
      | true => rfl
      | false => simp only [Bool.false_eq_true, if_false]; exact (h1 hg).symm
    rw [hname, renAst_id]
    refine ⟨fun hg => ?_, fun id hid' => ?_⟩
    · show r.ρ.g (r.ρ.f fn) = r.ρ.f fn
      rw [r.ρ.gf, h1 hg]
    · show r.τ.β.g (id ++ r.ρ.f fn) = r.τ.β.g id ++ r.ρ.g (r.ρ.f fn)
      rw [r.ρ.gf]
      have hr : isRadical (r.τ.β.g id) = true := by rw [← r.τ.βrad, r.τ.β.fg]; exact hid'
      have := h2 (r.τ.β.g id) hr
      rw [r.τ.β.fg] at this
      rw [← this, r.τ.β.gf]
  decl := by
    intro hid hlen k0' hk0' n' hn'
    rw [renAst_id] at hid
    rw [renAst_kids_length] at hlen
    obtain ⟨k0, hk0, rfl⟩ := renAst_kid_some hk0'
    obtain ⟨n, hn, rfl⟩ := renAst_data_text hn'
    have := h.decl hid hlen k0 hk0 n hn
    rw [renAst_id]
    show r.τ.β.g _ = if isGlob k0.id then r.ρ.g _ else _
    cases hg : isGlob k0.id with
    | true =>
      rw [hg] at this
      simp only [if_true] at this ⊢
      rw [r.ρ.gf, ← this, r.τ.β.gf]
    | false =>
      rw [hg] at this
      simp only [Bool.false_eq_true, if_false] at this ⊢
      conv => lhs; rw [← this]
      exact r.τ.β.gf n
  arg := by
    intro hid k0' hk0' n' hn' hg
    rw [renAst_id] at hid
    obtain ⟨k0, hk0, rfl⟩ := renAst_kid_some hk0'
    obtain ⟨n, hn, rfl⟩ := renAst_data_text hn'
    rw [renAst_id] at hg
    rw [hg]
    simp only [if_true]
    show r.ρ.g (r.ρ.f n) = r.ρ.f n
    rw [r.ρ.gf, h.arg hid k0 hk0 n hn hg]

theorem TreeOK.inv : ∀ {a : Ast}, TreeOK r a → TreeOK r.inv (renAst r.ρ.f a) := by
  intro a h
  induction h with
  | @mk a hn _ ih =>
    refine TreeOK.mk hn.inv ?_
    intro k' hk'
    rw [renAst_kids] at hk'
    obtain ⟨k, hk, rfl⟩ := List.mem_map.1 hk'
    exact ih k hk

end CCVerif.Checker

/-! ## the checker as an equivariant analysis -/

namespace CCVerif.SchemaGen
open CCVerif CCVerif.Syntax CCVerif.Types CCVerif.Checker
open CCVerif.Schema (Kind Status)

/-- `TranslateRS` with `FilterGlobals` on a parsed definition: the payload of the global identifier
tokens is mapped (a name the map does not mention stays); ranges are kept -/
def renameC (f : String → Option String) : CDef → CDef :=
  Option.map (renAst fun n => (f n).getD n)

/-- the type checker as an analysis of the generic machine, with the real `rename` -/
def checkerR (traitsOf : Skel → TraitEnv) : Analysis CDef CInfo :=
  { checkerA traitsOf with rename := renameC }

theorem checkerR_lawful (traitsOf : Skel → TraitEnv) : Lawful (checkerR traitsOf) :=
  ⟨(checkerA_lawful traitsOf).reset_not_ok, (checkerA_lawful traitsOf).frame,
    (checkerA_lawful traitsOf).strict⟩

/-- the renamings under which `TraitsFor` is equivariant -/
structure CRenFor (traitsOf : Skel → TraitEnv) where
  r : CRen
  traits : ∀ sk, traitsOf (renSk r.ρ.f sk) = renTE r.τ (traitsOf sk)

theorem renSk_inv {g g' : String → String} (h : ∀ x, g' (g x) = x) (sk : Skel) : renSk g' (renSk g sk) = sk := by
  unfold renSk
  rw [List.map_map]
  conv => rhs; rw [← List.map_id sk]
  apply List.map_congr_left
  intro p _
  simp only [Function.comp, h, id]

theorem renTE_inv (t : TRen) (te : TraitEnv) : renTE t.inv (renTE t te) = te := by
  unfold renTE
  rw [List.map_map]
  conv => rhs; rw [← List.map_id te]
  apply List.map_congr_left
  intro p _
  show (t.β.g (t.β.f p.1), p.2) = p
  rw [t.β.gf]

def CRenFor.inv {traitsOf : Skel → TraitEnv} (q : CRenFor traitsOf) : CRenFor traitsOf where
  r := q.r.inv
  traits := by
    intro sk
    have := q.traits (renSk q.r.ρ.g sk)
    rw [renSk_inv q.r.ρ.fg] at this
    show traitsOf (renSk q.r.ρ.g sk) = renTE q.r.τ.inv (traitsOf sk)
    rw [this, renTE_inv]

/-- the entry with the types renamed -/
def renCInfo (r : CRen) (i : CInfo) : CInfo :=
  { status := i.status, ty := i.ty.map (RE r.τ), args := renDecl r i.args }

/-- what a renaming must satisfy relative to a constituent -/
structure GoodC (r : CRen) (c : Cst CDef) : Prop where
  alias : r.τ.β.f c.alias = r.ρ.f c.alias
  tree : ∀ body, c.defn = some body → TreeOK r body
  visited : ∀ body, c.defn = some body → ∀ n ∈ globalsOf body, n ∈ usedGlobals body

/-! ### the tree handed to `CheckType` -/

variable {r : CRen}

theorem headNode_ren (g : String → String) (alias : String) : renAst g (headNode alias) = headNode (g alias) := rfl
theorem defTree_ren (g : String → String) (alias : String) (body : Ast) :
    renAst g (defTree alias body) = defTree (g alias) (renAst g body) := rfl
theorem baseTree_ren (g : String → String) (alias : String) : renAst g (baseTree alias) = baseTree (g alias) := rfl

/-- the renamed constituent -/
def renCstC (r : CRen) (c : Cst CDef) : Cst CDef :=
  { c with alias := r.ρ.f c.alias, defn := c.defn.map (renAst r.ρ.f) }

theorem cstTree_ren (c : Cst CDef) : cstTree (renCstC r c) = (cstTree c).map (renAst r.ρ.f) := by
  obtain ⟨u, a, k, d⟩ := c
  cases k <;> cases d <;> rfl

theorem nodeOK_leaf_global (alias : String) : NodeOK r (headNode alias) where
  radical := fun h => by cases h
  call := fun h => by cases h
  decl := fun h => by cases h
  arg := fun h => by cases h

theorem treeOK_headNode (alias : String) : TreeOK r (headNode alias) :=
  TreeOK.mk (nodeOK_leaf_global alias) (fun k hk => by cases hk)

theorem treeOK_baseTree {a : String} (h : r.τ.β.f a = r.ρ.f a) : TreeOK r (baseTree a) := by
  refine TreeOK.mk ⟨(fun h => by cases h), (fun h => by cases h), ?_, (fun h => by cases h)⟩ ?_
  · intro _ _ k0 hk0 n hn
    have : k0 = headNode a := by
      have : (baseTree a).kid 0 = some (headNode a) := rfl
      rw [this] at hk0; exact (Option.some.inj hk0).symm
    subst this
    have hn' : n = a := by
      have : (headNode a).data = .text a := rfl
      rw [this] at hn; exact (TokData.text.inj hn).symm
    subst hn'
    exact h
  · intro k hk
    have : k = headNode a := by simpa [baseTree, Ast.kids] using hk
    subst this
    exact treeOK_headNode a

theorem treeOK_defTree {a : String} {body : Ast} (h : TreeOK r body) : TreeOK r (defTree a body) := by
  refine TreeOK.mk ⟨(fun h => by cases h), (fun h => by cases h), ?_, (fun h => by cases h)⟩ ?_
  · intro _ hlen
    cases hlen
  · intro k hk
    have : k = headNode a ∨ k = body := by simpa [defTree, Ast.kids] using hk
    rcases this with rfl | rfl
    · exact treeOK_headNode a
    · exact h

theorem treeOK_cstTree {c : Cst CDef} (hg : GoodC r c) {tr : Ast} (htr : cstTree c = some tr) : TreeOK r tr := by
  obtain ⟨u, a, k, d⟩ := c
  cases k with
  | base =>
    cases d with
    | none => cases htr; exact treeOK_baseTree hg.alias
    | some body => cases htr
  | term =>
    cases d with
    | none => cases htr
    | some body => cases htr; exact treeOK_defTree (hg.tree body rfl)

/-! ### the context -/

theorem filterMap_ren {α β : Type} (f : String → String) (φ : α → β) (g : String → Option α) (g' : String → Option β) :
    ∀ names : List String, (∀ n ∈ names, g' (f n) = (g n).map φ) →
    ((names.map f).filterMap fun n => (g' n).map fun x => (n, x)) =
      (names.filterMap fun n => (g n).map fun x => (n, x)).map fun p => (f p.1, φ p.2)
  | [], _ => rfl
  | n :: ns, h => by
    rw [List.map_cons, List.filterMap_cons, List.filterMap_cons, h n (List.mem_cons_self ..),
      filterMap_ren f φ g g' ns (fun m hm => h m (List.mem_cons_of_mem _ hm))]
    cases g n <;> rfl

theorem tyOfC_ren (o : Option CInfo) : tyOfC (o.map (renCInfo r)) = (tyOfC o).map (RE r.τ) := by
  cases o with
  | none => rfl
  | some i => rfl

theorem argsOfC_ren (o : Option CInfo) : argsOfC (o.map (renCInfo r)) = (argsOfC o).map (renDecl r) := by
  cases o with
  | none => rfl
  | some i =>
    show (if ((i.ty.map (RE r.τ)).isSome && !(renDecl r i.args).isEmpty) = true then some (renDecl r i.args) else none) =
      Option.map (renDecl r) (if (i.ty.isSome && !i.args.isEmpty) = true then some i.args else none)
    have h1 : (i.ty.map (RE r.τ)).isSome = i.ty.isSome := by cases i.ty <;> rfl
    have h2 : (renDecl r i.args).isEmpty = i.args.isEmpty := by cases i.args <;> rfl
    rw [h1, h2]
    split <;> rfl

theorem ctxToΓ_ren (te : TraitEnv) (ctx ctx' : String → Option CInfo) (names : List String)
    (h : ∀ n ∈ names, ctx' (r.ρ.f n) = (ctx n).map (renCInfo r)) :
    ctxToΓ (renTE r.τ te) ctx' (names.map r.ρ.f) = renCtx r (ctxToΓ te ctx names) := by
  unfold ctxToΓ renCtx
  simp only
  congr 1
  · exact filterMap_ren r.ρ.f (RE r.τ) (fun n => tyOfC (ctx n)) (fun n => tyOfC (ctx' n)) names
      (fun n hn => by rw [h n hn, tyOfC_ren])
  · exact filterMap_ren r.ρ.f (renDecl r) (fun n => argsOfC (ctx n)) (fun n => argsOfC (ctx' n)) names
      (fun n hn => by rw [h n hn, argsOfC_ren])

theorem resultOf_ren (c : CheckRes) : resultOf (renCheckRes r c) = renCInfo r (resultOf c) := by
  obtain ⟨out, errs, args, silent⟩ := c
  cases out <;> rfl

/-- the analysis commutes with the renaming -/
theorem analyseC_ren (te : TraitEnv) (ctx ctx' : String → Option CInfo) (c : Cst CDef) (hg : GoodC r c)
    (h : ∀ m ∈ mentionsOf c.defn, ctx' (r.ρ.f m) = (ctx m).map (renCInfo r)) :
    analyseC (renTE r.τ te) ctx' (renCstC r c) = renCInfo r (analyseC te ctx c) := by
  unfold analyseC
  rw [cstTree_ren]
  cases htr : cstTree c with
  | none => rfl
  | some tr =>
    simp only [Option.map_some]
    have hok := treeOK_cstTree hg htr
    have hm : usedGlobals tr = mentionsOf c.defn := usedGlobals_cstTree htr
    rw [usedGlobals_ren tr hok, ctxToΓ_ren te ctx ctx' _ (fun n hn => h n (by rw [← hm]; exact hn)),
      check_ren _ hok, resultOf_ren]

/-- **the type checker satisfies the equivariance law** of `Lemmas/RenameGen.lean` -/
def checkerEquivariance (traitsOf : Skel → TraitEnv) : Equivariance (checkerR traitsOf) where
  Ren := CRenFor traitsOf
  app := fun q => q.r.ρ.f
  inv := CRenFor.inv
  renD := fun q d => d.map (renAst q.r.ρ.f)
  renI := fun q i => renCInfo q.r i
  Good := fun q c => GoodC q.r c
  app_inv := fun q n => q.r.ρ.gf n
  renD_inv := by
    intro q c _
    cases c.defn with
    | none => rfl
    | some body => show some (renAst q.r.ρ.g (renAst q.r.ρ.f body)) = _; rw [renAst_inv q.r.ρ.gf]
  good_inv := by
    intro q c hg
    refine ⟨?_, ?_, ?_⟩
    · show q.r.τ.β.g (q.r.ρ.f c.alias) = q.r.ρ.g (q.r.ρ.f c.alias)
      rw [q.r.ρ.gf, ← hg.alias, q.r.τ.β.gf]
    · intro body' hb
      cases hd : c.defn with
      | none => simp only [hd, Option.map_none] at hb; cases hb
      | some body =>
        simp only [hd, Option.map_some] at hb
        cases hb
        exact (hg.tree body hd).inv
    · intro body' hb
      cases hd : c.defn with
      | none => simp only [hd, Option.map_none] at hb; cases hb
      | some body =>
        simp only [hd, Option.map_some] at hb
        cases hb
        intro n' hn'
        rw [globalsOf_ren body (hg.tree body hd)] at hn'
        obtain ⟨n, hn, rfl⟩ := List.mem_map.1 hn'
        rw [usedGlobals_ren body (hg.tree body hd)]
        exact List.mem_map.2 ⟨n, hg.visited body hd n hn, rfl⟩
  mentions_ren := by
    intro q c hg
    show mentionsOf (c.defn.map (renAst q.r.ρ.f)) = (mentionsOf c.defn).map q.r.ρ.f
    cases hd : c.defn with
    | none => rfl
    | some body => exact usedGlobals_ren body (hg.tree body hd)
  ok_ren := by
    intro q i
    show (i.ty.map (RE q.r.τ)).isSome = i.ty.isSome
    cases i.ty <;> rfl
  rename_eq := by
    intro q f c hg h
    show renameC f c.defn = c.defn.map (renAst q.r.ρ.f)
    cases hd : c.defn with
    | none => rfl
    | some body =>
      show some (renAst _ body) = some (renAst _ body)
      rw [renAst_congr body (fun n hn => h n (by rw [hd]; exact hg.visited body hd n hn))]
  analyse_ren := by
    intro q sk ctx ctx' c hg h
    show analyseC (traitsOf (renSk q.r.ρ.f sk)) ctx' (renCstC q.r c) = renCInfo q.r (analyseC (traitsOf sk) ctx c)
    rw [q.traits]
    exact analyseC_ren (traitsOf sk) ctx ctx' c hg h

end CCVerif.SchemaGen
